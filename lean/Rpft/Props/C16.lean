/-
C16 — A template that names an unknown variable is an error, never silently blank.

Model: `Rpft/Template.lean` (M8).  The statements are about references that are *reached*
(`Reached ctx t c p k`): a reference inside an `{% if %}` whose condition is false or inside a
`{% for %}` over nothing is not evaluated by Jinja and is harmless — stated separately
(`if_false_unevaluated`, `for_empty_unevaluated`).
-/
import Rpft.Template
import Rpft.Gen.Tables
set_option linter.unusedSimpArgs false
set_option linter.unusedVariables false
namespace Rpft.Props.C16
open Rpft Rpft.Cell Rpft.Template

/-! ### T1: the configuration of the source -/

def policyOfGen : Gen.JinjaPolicy → Option Policy
  | .strict => some .strict
  | .strictShallow => some .strictShallow
  | .lenient => some .lenient
  | .other => none

/-- **the obligation that breaks when someone reverts to Jinja's default `Undefined`**, to the
plain `StrictUndefined` (whose `repr()` inside a printed container is the word `Undefined`), or
drops / flattens the check of the native result: both environments are strict — printing the
undefined object fails also inside a container — and the native result is searched through
nested lists / tuples / dicts. -/
theorem policy_is_strict :
    Gen.jinjaPolicy = .strict ∧ Gen.jinjaNativePolicy = .strict ∧
    Gen.nativeUndefinedCheck = true ∧ Gen.nativeUndefinedDeepCheck = true := by decide

/-- T1: configuration, delimiters, filter and wrapper literals of the model are those of the
source (regenerated on every run). -/
theorem tables_agree :
    policyOfGen Gen.jinjaPolicy = some Conf.repo.textPol ∧
    policyOfGen Gen.jinjaNativePolicy = some Conf.repo.natPol ∧
    Gen.nativeUndefinedCheck = Conf.repo.natCheck ∧
    Gen.nativeUndefinedDeepCheck = Conf.repo.natDeep ∧
    Gen.jinjaUndefinedName = Gen.jinjaUndefinedLiveName ∧
    Gen.jinjaNativeUndefinedName = Gen.jinjaNativeUndefinedLiveName ∧
    Gen.textVarDelims = [varStart, varEnd] ∧ Gen.nativeVarDelims = [natStart, natEnd] ∧
    Gen.blockDelims = [blockStart, blockEnd, blockStart, blockEnd] ∧
    escapeFilter ∈ Gen.jinjaFilters ∧ escapeFilter ∈ Gen.jinjaNativeFilters ∧
    Gen.wrapperNativeStart = natStart ∧ Gen.wrapperNativeEnd = natEnd ∧
    Gen.wrapperNestedNeedle = natStart ∧ Gen.wrapperNestedOffset = nestedOffset ∧
    Gen.wrapperShortcutChar = [shortcutChar] := by decide

/-! ### helper facts about `joinM` -/

theorem joinM_error {f : Val → Except Err Str} {xs : List Val} {e : Val}
    (he : e ∈ xs) (hf : ∃ x, f e = .error x) : ∃ y, joinM f xs = .error y := by
  induction xs with
  | nil => cases he
  | cons a as ih =>
    simp only [joinM]
    cases hfa : f a with
    | error x => exact ⟨x, rfl⟩
    | ok s =>
      rcases List.mem_cons.mp he with rfl | hm
      · obtain ⟨x, hx⟩ := hf; rw [hfa] at hx; cases hx
      · obtain ⟨y, hy⟩ := ih hm
        simp [hy]

theorem joinM_ok {f : Val → Except Err Str} {g : Val → Str} {xs : List Val}
    (h : ∀ e ∈ xs, f e = .ok (g e)) : joinM f xs = .ok (xs.flatMap g) := by
  induction xs with
  | nil => rfl
  | cons a as ih =>
    simp only [joinM, h a (by simp), ih (fun e he => h e (by simp [he])), List.flatMap_cons]

theorem joinM_error_inv {f : Val → Except Err Str} {xs : List Val} {y : Err}
    (h : joinM f xs = .error y) : ∃ e ∈ xs, f e = .error y := by
  induction xs with
  | nil => simp [joinM] at h
  | cons a as ih =>
    simp only [joinM] at h
    cases hfa : f a with
    | error x =>
      rw [hfa] at h
      simp at h; subst h
      exact ⟨a, by simp, hfa⟩
    | ok s =>
      rw [hfa] at h
      cases hj : joinM f as with
      | error z =>
        rw [hj] at h
        simp at h; subst h
        obtain ⟨e, he, hfe⟩ := ih hj
        exact ⟨e, by simp [he], hfe⟩
      | ok b => rw [hj] at h; cases h

/-! ### undefined ⇒ error (text templates) -/

theorem not_defined_of_ne_val {ctx : Ctx} {p : Path} (h : ∀ v, resolve ctx p ≠ .val v) :
    ¬ Defined ctx p := fun ⟨v, hv⟩ => h v hv

/-! ### expressions: containers holding `Undefined` objects -/

/-- induction over expressions (nested through the item lists) -/
theorem Expr.ind {motive : Expr → Prop}
    (ref : ∀ p, motive (.ref p)) (dflt : ∀ p d, motive (.dflt p d))
    (coll : ∀ k items, (∀ kv ∈ items, motive kv.2) → motive (.coll k items)) : ∀ e, motive e := by
  intro e
  exact Expr.rec (motive_1 := motive) (motive_2 := fun items => ∀ kv ∈ items, motive kv.2)
    (motive_3 := fun kv => motive kv.2) ref dflt (fun k items ih => coll k items ih)
    (by intro kv h; cases h)
    (fun hd tl h1 h2 kv hm => by
      rcases List.mem_cons.mp hm with rfl | hm
      · exact h1
      · exact h2 kv hm)
    (fun k e h => h) e

theorem PVal.ind {motive : PVal → Prop}
    (val : ∀ v, motive (.val v)) (undef : ∀ p, motive (.undef p))
    (coll : ∀ k items, (∀ kv ∈ items, motive kv.2) → motive (.coll k items))
    (num : ∀ n, motive (.num n)) : ∀ pv, motive pv := by
  intro pv
  exact PVal.rec (motive_1 := motive) (motive_2 := fun items => ∀ kv ∈ items, motive kv.2)
    (motive_3 := fun kv => motive kv.2) val undef (fun k items ih => coll k items ih) num
    (by intro kv h; cases h)
    (fun hd tl h1 h2 kv hm => by
      rcases List.mem_cons.mp hm with rfl | hm
      · exact h1
      · exact h2 kv hm)
    (fun k e h => h) pv

theorem evalItems_error {ctx : Ctx} {items : List (Str × Expr)} {x : Err}
    (h : evalItems ctx items = .error x) : ∃ kv ∈ items, evalE ctx kv.2 = .error x := by
  induction items with
  | nil => simp [evalItems] at h
  | cons kv rest ih =>
    obtain ⟨k, e⟩ := kv
    simp only [evalItems] at h
    cases he : evalE ctx e with
    | error y =>
      rw [he] at h; simp at h; subst h
      exact ⟨(k, e), by simp, he⟩
    | ok pv =>
      rw [he] at h
      cases hr : evalItems ctx rest with
      | error y =>
        rw [hr] at h; simp at h; subst h
        obtain ⟨kv, hm, hkv⟩ := ih hr
        exact ⟨kv, by simp [hm], hkv⟩
      | ok pvs => rw [hr] at h; cases h

theorem evalItems_error_of_mem {ctx : Ctx} {items : List (Str × Expr)} {kv : Str × Expr} {x : Err}
    (hm : kv ∈ items) (h : evalE ctx kv.2 = .error x) : ∃ y, evalItems ctx items = .error y := by
  induction items with
  | nil => cases hm
  | cons a rest ih =>
    obtain ⟨k, e⟩ := a
    simp only [evalItems]
    cases he : evalE ctx e with
    | error y => exact ⟨y, rfl⟩
    | ok pv =>
      rcases List.mem_cons.mp hm with rfl | hm
      · simp at h; rw [he] at h; cases h
      · obtain ⟨y, hy⟩ := ih hm
        exact ⟨y, by simp [hy]⟩

theorem evalItems_ok {ctx : Ctx} {items : List (Str × Expr)} {pvs : List (Str × PVal)}
    (h : evalItems ctx items = .ok pvs) :
    (∀ pkv ∈ pvs, ∃ kv ∈ items, evalE ctx kv.2 = .ok pkv.2) ∧
    (∀ kv ∈ items, ∃ pkv ∈ pvs, evalE ctx kv.2 = .ok pkv.2) := by
  induction items generalizing pvs with
  | nil =>
    simp [evalItems] at h; subst h
    constructor <;> (intro _ hm; cases hm)
  | cons a rest ih =>
    obtain ⟨k, e⟩ := a
    simp only [evalItems] at h
    cases he : evalE ctx e with
    | error y => rw [he] at h; cases h
    | ok pv =>
      rw [he] at h
      cases hr : evalItems ctx rest with
      | error y => rw [hr] at h; cases h
      | ok ps =>
        rw [hr] at h; simp at h; subst h
        obtain ⟨i1, i2⟩ := ih hr
        constructor
        · intro pkv hm
          rcases List.mem_cons.mp hm with rfl | hm
          · exact ⟨(k, e), by simp, he⟩
          · obtain ⟨kv, hk, hv⟩ := i1 pkv hm
            exact ⟨kv, by simp [hk], hv⟩
        · intro kv hm
          rcases List.mem_cons.mp hm with rfl | hm
          · exact ⟨(k, pv), by simp, he⟩
          · obtain ⟨pkv, hk, hv⟩ := i2 kv hm
            exact ⟨pkv, by simp [hk], hv⟩

theorem reprItems_error_of_mem {pol : Policy} {k : CKind} {items : List (Str × PVal)}
    {kv : Str × PVal} {x : Err} (hm : kv ∈ items) (h : PVal.repr pol kv.2 = .error x) :
    ∃ y, reprItems pol k items = .error y := by
  induction items with
  | nil => cases hm
  | cons a rest ih =>
    obtain ⟨key, pv⟩ := a
    simp only [reprItems]
    cases he : PVal.repr pol pv with
    | error y => exact ⟨y, rfl⟩
    | ok s =>
      rcases List.mem_cons.mp hm with rfl | hm
      · simp at h; rw [he] at h; cases h
      · obtain ⟨y, hy⟩ := ih hm
        exact ⟨y, by simp [hy]⟩

theorem reprItems_error {pol : Policy} {k : CKind} {items : List (Str × PVal)} {x : Err}
    (h : reprItems pol k items = .error x) : ∃ kv ∈ items, PVal.repr pol kv.2 = .error x := by
  induction items with
  | nil => simp [reprItems] at h
  | cons a rest ih =>
    obtain ⟨key, pv⟩ := a
    simp only [reprItems] at h
    cases he : PVal.repr pol pv with
    | error y =>
      rw [he] at h; simp at h; subst h
      exact ⟨(key, pv), by simp, he⟩
    | ok s =>
      rw [he] at h
      cases hr : reprItems pol k rest with
      | error y =>
        rw [hr] at h; simp at h; subst h
        obtain ⟨kv, hm, hkv⟩ := ih hr
        exact ⟨kv, by simp [hm], hkv⟩
      | ok r => rw [hr] at h; cases h

theorem reprItems_clean {pol : Policy} {k : CKind} {items : List (Str × PVal)}
    (h : ∀ kv ∈ items, PVal.repr pol kv.2 = .ok kv.2.reprL) :
    reprItems pol k items = .ok (reprItemsL k items) := by
  induction items with
  | nil => rfl
  | cons a rest ih =>
    obtain ⟨key, pv⟩ := a
    have h1 := h (key, pv) (by simp)
    simp only at h1
    simp only [reprItems, reprItemsL, h1, ih (fun kv hm => h kv (by simp [hm]))]

theorem findUndefItems_of_mem {items : List (Str × PVal)} {kv : Str × PVal}
    (hm : kv ∈ items) (h : kv.2.findUndef.isSome) : (findUndefItems items).isSome := by
  induction items with
  | nil => cases hm
  | cons a rest ih =>
    obtain ⟨key, pv⟩ := a
    simp only [findUndefItems]
    cases hf : pv.findUndef with
    | some q => rfl
    | none =>
      rcases List.mem_cons.mp hm with rfl | hm
      · simp at h; rw [hf] at h; cases h
      · exact ih hm

theorem findUndefItems_some {items : List (Str × PVal)} {q : Path}
    (h : findUndefItems items = some q) : ∃ kv ∈ items, kv.2.findUndef = some q := by
  induction items with
  | nil => simp [findUndefItems] at h
  | cons a rest ih =>
    obtain ⟨key, pv⟩ := a
    simp only [findUndefItems] at h
    cases hf : pv.findUndef with
    | some r =>
      rw [hf] at h; simp at h; subst h
      exact ⟨(key, pv), by simp, hf⟩
    | none =>
      rw [hf] at h
      obtain ⟨kv, hm, hkv⟩ := ih h
      exact ⟨kv, by simp [hm], hkv⟩

/-- a value that holds an `Undefined` object cannot be printed under the strict policy … -/
theorem holds_repr_error {pv : PVal} {q : Path} (h : pv.Holds q) :
    ∃ x, pv.repr .strict = .error x := by
  induction h with
  | @undef p => exact ⟨.undefined p, by simp [PVal.repr]⟩
  | @coll k items kv p hm _ ih =>
    obtain ⟨x, hx⟩ := ih
    obtain ⟨y, hy⟩ := reprItems_error_of_mem (k := k) hm hx
    exact ⟨y, by simp [PVal.repr, hy]⟩

theorem holds_str_error {pv : PVal} {q : Path} (h : pv.Holds q) :
    ∃ x, pv.str .strict = .error x := by
  cases pv with
  | val v => cases h
  | undef p => exact ⟨.undefined p, by simp [PVal.str]⟩
  | num n => cases h
  | coll k items => simpa [PVal.str] using holds_repr_error h

/-- … and is found by the deep search of the wrapper -/
theorem holds_findUndef {pv : PVal} {q : Path} (h : pv.Holds q) : pv.findUndef.isSome := by
  induction h with
  | undef => rfl
  | @coll k items kv p hm _ ih =>
    simpa [PVal.findUndef] using findUndefItems_of_mem hm ih

theorem findUndef_holds (pv : PVal) : ∀ q, pv.findUndef = some q → pv.Holds q := by
  induction pv using PVal.ind with
  | val v => intro q h; simp [PVal.findUndef] at h
  | undef p => intro q h; simp [PVal.findUndef] at h; subst h; exact .undef
  | num n => intro q h; simp [PVal.findUndef] at h
  | coll k items ih =>
    intro q h
    simp only [PVal.findUndef] at h
    obtain ⟨kv, hm, hkv⟩ := findUndefItems_some h
    exact .coll hm (ih kv hm q hkv)

/-- a strict print fails only on an `Undefined` object the value holds, and names it -/
theorem repr_error_holds (pv : PVal) : ∀ x, pv.repr .strict = .error x →
    ∃ q, pv.Holds q ∧ x = .undefined q := by
  induction pv using PVal.ind with
  | val v => intro x h; simp [PVal.repr] at h
  | undef p => intro x h; simp [PVal.repr] at h; exact ⟨p, .undef, h.symm⟩
  | num n => intro x h; simp [PVal.repr] at h
  | coll k items ih =>
    intro x h
    simp only [PVal.repr] at h
    cases hr : reprItems .strict k items with
    | ok s => rw [hr] at h; cases h
    | error y =>
      rw [hr] at h; simp at h; subst h
      obtain ⟨kv, hm, hkv⟩ := reprItems_error hr
      obtain ⟨q, hq, rfl⟩ := ih kv hm _ hkv
      exact ⟨q, .coll hm hq, rfl⟩

theorem str_error_holds {pv : PVal} {x : Err} (h : pv.str .strict = .error x) :
    ∃ q, pv.Holds q ∧ x = .undefined q := by
  cases pv with
  | val v => simp [PVal.str] at h
  | undef p => simp [PVal.str] at h; exact ⟨p, .undef, h.symm⟩
  | num n => simp [PVal.str, PVal.repr] at h
  | coll k items => exact repr_error_holds _ x (by simpa [PVal.str] using h)

/-- a value without `Undefined` objects prints the same under every policy -/
theorem clean_repr (pol : Policy) (pv : PVal) : (∀ q, ¬ pv.Holds q) → pv.repr pol = .ok pv.reprL := by
  induction pv using PVal.ind with
  | val v => intro _; simp [PVal.repr, PVal.reprL]
  | undef p => intro h; exact absurd .undef (h p)
  | num n => intro _; simp [PVal.repr, PVal.reprL]
  | coll k items ih =>
    intro h
    have := reprItems_clean (pol := pol) (k := k) (items := items)
      (fun kv hm => ih kv hm (fun q hq => h q (.coll hm hq)))
    simp [PVal.repr, PVal.reprL, this]

theorem clean_str (pol : Policy) {pv : PVal} (h : ∀ q, ¬ pv.Holds q) : pv.str pol = .ok pv.strL := by
  cases pv with
  | val v => simp [PVal.str, PVal.strL]
  | undef p => exact absurd .undef (h p)
  | num n => simp [PVal.str, PVal.strL, PVal.repr, PVal.reprL]
  | coll k items => simpa [PVal.str, PVal.strL] using clean_repr pol _ h

/-- **a stored undefined reference survives evaluation as an `Undefined` object** (or the
evaluation already failed): this is what every later use — print, concatenation, the
wrapper's search — then meets. -/
theorem stored_undefined {ctx : Ctx} {e : Expr} {p : Path} (h : Stored e p) (hu : ¬ Defined ctx p) :
    (∃ x, evalE ctx e = .error x) ∨ (∃ pv, evalE ctx e = .ok pv ∧ pv.Holds p) := by
  induction h with
  | @ref p =>
    cases hr : resolve ctx p with
    | val v => exact absurd ⟨v, hr⟩ hu
    | undef => exact .inr ⟨.undef p, by simp [evalE, hr], .undef⟩
    | broken => exact .inl ⟨.undefined p, by simp [evalE, hr]⟩
  | @coll k items kv p hm _ ih =>
    rcases ih hu with ⟨x, hx⟩ | ⟨pv, hpv, hh⟩
    · obtain ⟨y, hy⟩ := evalItems_error_of_mem hm hx
      exact .inl ⟨y, by simp [evalE, hy]⟩
    · cases hr : evalItems ctx items with
      | error y => exact .inl ⟨y, by simp [evalE, hr]⟩
      | ok pvs =>
        obtain ⟨pkv, hpm, hpe⟩ := (evalItems_ok hr).2 kv hm
        rw [hpv] at hpe; simp at hpe; subst hpe
        exact .inr ⟨.coll k.norm pvs, by simp [evalE, hr], .coll hpm hh⟩

/-- evaluation fails only on a stored reference that is undefined (a step past it) -/
theorem evalE_error_cause {ctx : Ctx} (e : Expr) : ∀ x, evalE ctx e = .error x →
    ∃ p, Stored e p ∧ ¬ Defined ctx p ∧ x = .undefined p := by
  induction e using Expr.ind with
  | ref p =>
    intro x h
    cases hr : resolve ctx p with
    | val v => simp [evalE, hr] at h
    | undef => simp [evalE, hr] at h
    | broken =>
      simp [evalE, hr] at h
      exact ⟨p, .ref, not_defined_of_ne_val (by simp [hr]), h.symm⟩
  | dflt y d =>
    intro x h
    cases hr : ctx.lookup y <;> simp [evalE, hr] at h
  | coll k items ih =>
    intro x h
    simp only [evalE] at h
    cases hr : evalItems ctx items with
    | ok pvs => rw [hr] at h; cases h
    | error y =>
      rw [hr] at h; simp at h; subst h
      obtain ⟨kv, hm, hkv⟩ := evalItems_error hr
      obtain ⟨p, hs, hd, rfl⟩ := ih kv hm _ hkv
      exact ⟨p, .coll hm hs, hd, rfl⟩

/-- an `Undefined` object in the value of an expression is a stored reference the context does
not define -/
theorem evalE_holds_cause {ctx : Ctx} (e : Expr) : ∀ pv q, evalE ctx e = .ok pv → pv.Holds q →
    Stored e q ∧ ¬ Defined ctx q := by
  induction e using Expr.ind with
  | ref p =>
    intro pv q h hh
    cases hr : resolve ctx p with
    | val v => simp [evalE, hr] at h; subst h; cases hh
    | undef =>
      simp [evalE, hr] at h; subst h; cases hh
      exact ⟨.ref, not_defined_of_ne_val (by simp [hr])⟩
    | broken => simp [evalE, hr] at h
  | dflt y d =>
    intro pv q h hh
    cases hr : ctx.lookup y <;> simp [evalE, hr] at h <;> subst h <;> cases hh
  | coll k items ih =>
    intro pv q h hh
    simp only [evalE] at h
    cases hr : evalItems ctx items with
    | error y => rw [hr] at h; cases h
    | ok pvs =>
      rw [hr] at h; simp at h; subst h
      cases hh with
      | @coll _ _ pkv _ hpm hph =>
        obtain ⟨kv, hm, hkv⟩ := (evalItems_ok hr).1 pkv hpm
        obtain ⟨hs, hd⟩ := ih kv hm _ q hkv hph
        exact ⟨.coll hm hs, hd⟩

/-- all stored references defined ⇒ the expression evaluates, to a value without `Undefined` -/
theorem evalE_clean {ctx : Ctx} {e : Expr} (h : ∀ p, Stored e p → Defined ctx p) :
    ∃ pv, evalE ctx e = .ok pv ∧ ∀ q, ¬ pv.Holds q := by
  cases hr : evalE ctx e with
  | error x =>
    obtain ⟨p, hs, hd, _⟩ := evalE_error_cause e x hr
    exact absurd (h p hs) hd
  | ok pv =>
    exact ⟨pv, rfl, fun q hq => (evalE_holds_cause e pv q hr hq).2 (h q (evalE_holds_cause e pv q hr hq).1)⟩

theorem mem_itemsRefs {items : List (Str × Expr)} {kv : Str × Expr} {p : Path}
    (hm : kv ∈ items) (h : p ∈ kv.2.refs) : p ∈ itemsRefs items := by
  induction items with
  | nil => cases hm
  | cons a rest ih =>
    obtain ⟨k, e⟩ := a
    simp only [itemsRefs, List.mem_append]
    rcases List.mem_cons.mp hm with rfl | hm
    · exact .inl h
    · exact .inr (ih hm)

theorem stored_mem_refs {e : Expr} {p : Path} (h : Stored e p) : p ∈ e.refs := by
  induction h with
  | ref => simp [Expr.refs]
  | coll hm _ ih => simpa [Expr.refs] using mem_itemsRefs hm ih

/-- **undefined_is_error (text)**: under the strict policy, a template that reaches a
reference its context does not define does not render: the result is an error — whatever
else the template contains, and wherever the reference stands: printed, escaped, iterated,
compared, or STORED at any depth of a list / tuple / dict literal or `dict()` call that is
printed or concatenated (no exclusion for nested positions). -/
theorem undefined_is_error {ctx c : Ctx} {t : Tmpl} {p : Path} {k : Use}
    (h : Reached ctx t c p k) (hu : ¬ Defined c p) :
    ∃ e, renderT .strict ctx t = .error e := by
  induction h with
  | @var ctx p =>
    cases hr : resolve ctx p with
    | val v => exact absurd ⟨v, hr⟩ hu
    | undef => exact ⟨.undefined p, by simp [renderT, hr]⟩
    | broken => exact ⟨.undefined p, by simp [renderT, hr]⟩
  | @esc ctx p =>
    cases hr : resolve ctx p with
    | val v => exact absurd ⟨v, hr⟩ hu
    | undef => exact ⟨.undefined p, by simp [renderT, hr]⟩
    | broken => exact ⟨.undefined p, by simp [renderT, hr]⟩
  | seqL _ ih =>
    obtain ⟨e, he⟩ := ih hu
    exact ⟨e, by simp [renderT, he]⟩
  | @seqR ctx a b c p k _ ih =>
    obtain ⟨e, he⟩ := ih hu
    cases ha : renderT .strict ctx a with
    | error x => exact ⟨x, by simp [renderT, ha]⟩
    | ok x => exact ⟨e, by simp [renderT, ha, he]⟩
  | @forHead ctx v p body =>
    cases hr : resolve ctx p with
    | val v => exact absurd ⟨v, hr⟩ hu
    | undef => exact ⟨.undefined p, by simp [renderT, hr]⟩
    | broken => exact ⟨.undefined p, by simp [renderT, hr]⟩
  | @forBody ctx v p body xs e c q k hres hmem _ ih =>
    obtain ⟨x, hx⟩ := ih hu
    obtain ⟨y, hy⟩ := joinM_error (f := fun e => renderT .strict ((v, e) :: ctx) body) hmem ⟨x, hx⟩
    exact ⟨y, by simp [renderT, hres, hy]⟩
  | @ifHead ctx p s body =>
    cases hr : resolve ctx p with
    | val v => exact absurd ⟨v, hr⟩ hu
    | undef => exact ⟨.undefined p, by simp [renderT, hr]⟩
    | broken => exact ⟨.undefined p, by simp [renderT, hr]⟩
  | @ifBody ctx p s body c q k hres _ ih =>
    obtain ⟨x, hx⟩ := ih hu
    exact ⟨x, by simp [renderT, hres, hx]⟩
  | @exprL ctx e f p hs =>
    rcases stored_undefined hs hu with ⟨x, hx⟩ | ⟨pv, hpv, hh⟩
    · cases f <;> exact ⟨x, by simp [renderT, hx]⟩
    · obtain ⟨y, hy⟩ := holds_str_error hh
      cases f with
      | none => exact ⟨y, by simp [renderT, hpv, hy]⟩
      | some g =>
        cases hg : evalE ctx g with
        | error z => exact ⟨z, by simp [renderT, hpv, hg]⟩
        | ok b => exact ⟨y, by simp [renderT, hpv, hg, hy]⟩
  | @exprR ctx e f p hs =>
    cases he : evalE ctx e with
    | error z => exact ⟨z, by simp [renderT, he]⟩
    | ok a =>
      rcases stored_undefined hs hu with ⟨x, hx⟩ | ⟨pv, hpv, hh⟩
      · exact ⟨x, by simp [renderT, he, hx]⟩
      · obtain ⟨y, hy⟩ := holds_str_error hh
        cases ha : a.str .strict with
        | error z => exact ⟨z, by simp [renderT, he, hpv, ha]⟩
        | ok sa => exact ⟨y, by simp [renderT, he, hpv, ha, hy]⟩

/-- non-vacuity (the shapes of F-C16-c): `{{ [a, {'k': (nope,)}] }}` and `{{ a ~ dict(k=nope) }}`
store the undefined name two levels deep / behind a concatenation -/
example :
    Reached [("a".toList, .str "A".toList)]
      (.expr (.coll .list [([], .ref ⟨"a".toList, []⟩),
        ([], .coll .dict [("k".toList, .coll .tuple [([], .ref ⟨"nope".toList, []⟩)])])]) none)
      [("a".toList, .str "A".toList)] ⟨"nope".toList, []⟩ .store ∧
    Reached [("a".toList, .str "A".toList)]
      (.expr (.ref ⟨"a".toList, []⟩) (some (.coll .dictCall [("k".toList, .ref ⟨"nope".toList, []⟩)])))
      [("a".toList, .str "A".toList)] ⟨"nope".toList, []⟩ .store ∧
    ¬ Defined [("a".toList, .str "A".toList)] ⟨"nope".toList, []⟩ :=
  ⟨.exprL (.coll (kv := ([], _)) (List.mem_cons_of_mem _ (List.mem_cons_self ..))
      (.coll (kv := ("k".toList, _)) (List.mem_cons_self ..)
        (.coll (kv := ([], _)) (List.mem_cons_self ..) .ref))),
   .exprR (.coll (kv := ("k".toList, _)) (List.mem_cons_self ..) .ref), by decide⟩

/-- … and they are errors (kernel-evaluated), while the `default`-protected twin and the
defined twin are delivered -/
example :
    renderT .strict [("a".toList, .str "A".toList)]
      (.expr (.coll .list [([], .ref ⟨"a".toList, []⟩),
        ([], .coll .dict [("k".toList, .coll .tuple [([], .ref ⟨"nope".toList, []⟩)])])]) none)
      = .error (.undefined ⟨"nope".toList, []⟩) ∧
    renderT .strict [("a".toList, .str "A".toList)]
      (.expr (.coll .list [([], .ref ⟨"a".toList, []⟩),
        ([], .coll .dict [("k".toList, .coll .tuple [([], .dflt "nope".toList "d".toList)])])]) none)
      = .ok "['A', {'k': ('d',)}]".toList ∧
    renderT .strict [("a".toList, .str "A".toList)]
      (.expr (.ref ⟨"a".toList, []⟩) (some (.coll .dictCall [("k".toList, .ref ⟨"a".toList, []⟩)])))
      = .ok "A{'k': 'A'}".toList := by decide

/-- **the fix of F-C16-c is needed**: under the plain `StrictUndefined` policy the same kind of
template renders WITHOUT error, the stored name printed as the word `Undefined` … -/
theorem needs_deep_strict :
    renderT .strictShallow [("a".toList, .str "A".toList)]
      (.expr (.coll .list [([], .ref ⟨"nope".toList, []⟩)]) none) = .ok "[Undefined]".toList ∧
    renderT .strictShallow [("a".toList, .str "A".toList)]
      (.expr (.ref ⟨"a".toList, []⟩) (some (.coll .dict [("k".toList, .ref ⟨"nope".toList, []⟩)])))
      = .ok "A{'k': Undefined}".toList ∧
    ¬ (∀ (ctx c : Ctx) (t : Tmpl) (p : Path) (k : Use),
        Reached ctx t c p k → ¬ Defined c p → ∃ e, renderT .strictShallow ctx t = .error e) := by
  refine ⟨by decide, by decide, ?_⟩
  intro h
  obtain ⟨e, he⟩ := h [] [] (.expr (.coll .list [([], .ref ⟨"nope".toList, []⟩)]) none)
    ⟨"nope".toList, []⟩ .store
    (.exprL (.coll (kv := ([], _)) (List.mem_cons_self ..) .ref)) (by decide)
  have hok : renderT .strictShallow [] (.expr (.coll .list [([], .ref ⟨"nope".toList, []⟩)]) none)
      = .ok "[Undefined]".toList := by decide
  rw [hok] at he
  cases he

/-- … although the un-nested reference is an error under that policy as well -/
example : renderT .strictShallow [] (.expr (.ref ⟨"nope".toList, []⟩) none)
    = .error (.undefined ⟨"nope".toList, []⟩) := by decide

/-- non-vacuity: a misspelt field of a defined record, reached inside a loop body -/
example :
    Reached [("rows".toList, .list [.record [("name".toList, .str "N".toList)]])]
      (.forJoin "r".toList ⟨"rows".toList, []⟩ (.var ⟨"r".toList, [.fld "nmae".toList]⟩))
      [("r".toList, .record [("name".toList, .str "N".toList)]),
       ("rows".toList, .list [.record [("name".toList, .str "N".toList)]])]
      ⟨"r".toList, [.fld "nmae".toList]⟩ .print ∧
    ¬ Defined [("r".toList, .record [("name".toList, .str "N".toList)]),
       ("rows".toList, .list [.record [("name".toList, .str "N".toList)]])]
      ⟨"r".toList, [.fld "nmae".toList]⟩ :=
  ⟨.forBody (xs := .list [.record [("name".toList, .str "N".toList)]]) rfl (by simp [Val.items])
     .var, by decide⟩

/-- **the hypothesis `strict` is needed** (negative witness = what the fix removed): under
Jinja's default policy the same kind of template renders, the reference replaced by nothing. -/
theorem needs_strict :
    ¬ (∀ (pol : Policy) (ctx c : Ctx) (t : Tmpl) (p : Path) (k : Use),
        Reached ctx t c p k → ¬ Defined c p → ∃ e, renderT pol ctx t = .error e) := by
  intro h
  obtain ⟨e, he⟩ := h .lenient [] [] (.var ⟨"nope".toList, []⟩) ⟨"nope".toList, []⟩ .print
    .var (by decide)
  simp [renderT, resolve, resolveFrom, rootRes] at he

/-- every error has a cause: a strict rendering fails only because a reached reference is
undefined (then the error names it) or because `|escape` was applied to a non-string. -/
theorem error_has_cause {ctx : Ctx} {t : Tmpl} {e : Err}
    (h : renderT .strict ctx t = .error e) :
    (∃ c p k, Reached ctx t c p k ∧ ¬ Defined c p ∧ e = .undefined p) ∨
    (∃ c p v, Reached ctx t c p .esc ∧ resolve c p = .val v ∧ (∀ s, v ≠ .str s) ∧
      e = .filterType p) := by
  induction t generalizing ctx e with
  | lit s => simp [renderT] at h
  | var p =>
    cases hr : resolve ctx p with
    | val v => simp [renderT, hr] at h
    | undef =>
      simp [renderT, hr] at h
      exact .inl ⟨ctx, p, .print, .var, not_defined_of_ne_val (by simp [hr]), h.symm⟩
    | broken =>
      simp [renderT, hr] at h
      exact .inl ⟨ctx, p, .print, .var, not_defined_of_ne_val (by simp [hr]), h.symm⟩
  | escVar p =>
    cases hr : resolve ctx p with
    | val v =>
      cases v with
      | str s => simp [renderT, hr] at h
      | list xs =>
        simp [renderT, hr] at h
        exact .inr ⟨ctx, p, _, .esc, hr, (by intro s hs; cases hs), h.symm⟩
      | record fs =>
        simp [renderT, hr] at h
        exact .inr ⟨ctx, p, _, .esc, hr, (by intro s hs; cases hs), h.symm⟩
    | undef =>
      simp [renderT, hr] at h
      exact .inl ⟨ctx, p, .esc, .esc, not_defined_of_ne_val (by simp [hr]), h.symm⟩
    | broken =>
      simp [renderT, hr] at h
      exact .inl ⟨ctx, p, .esc, .esc, not_defined_of_ne_val (by simp [hr]), h.symm⟩
  | seq a b iha ihb =>
    cases ha : renderT .strict ctx a with
    | error x =>
      simp [renderT, ha] at h
      subst h
      rcases iha ha with ⟨c, p, k, hr, hd, he⟩ | ⟨c, p, v, hr, hv, hs, he⟩
      · exact .inl ⟨c, p, k, .seqL hr, hd, he⟩
      · exact .inr ⟨c, p, v, .seqL hr, hv, hs, he⟩
    | ok x =>
      cases hb : renderT .strict ctx b with
      | error y =>
        simp [renderT, ha, hb] at h
        subst h
        rcases ihb hb with ⟨c, p, k, hr, hd, he⟩ | ⟨c, p, v, hr, hv, hs, he⟩
        · exact .inl ⟨c, p, k, .seqR hr, hd, he⟩
        · exact .inr ⟨c, p, v, .seqR hr, hv, hs, he⟩
      | ok y => simp [renderT, ha, hb] at h
  | forJoin v p body ih =>
    cases hr : resolve ctx p with
    | val xs =>
      simp only [renderT, hr] at h
      obtain ⟨el, hel, hfe⟩ := joinM_error_inv h
      rcases ih hfe with ⟨c, q, k, hre, hd, he⟩ | ⟨c, q, w, hre, hv, hs, he⟩
      · exact .inl ⟨c, q, k, .forBody hr hel hre, hd, he⟩
      · exact .inr ⟨c, q, w, .forBody hr hel hre, hv, hs, he⟩
    | undef =>
      simp [renderT, hr] at h
      exact .inl ⟨ctx, p, .iter, .forHead, not_defined_of_ne_val (by simp [hr]), h.symm⟩
    | broken =>
      simp [renderT, hr] at h
      exact .inl ⟨ctx, p, .iter, .forHead, not_defined_of_ne_val (by simp [hr]), h.symm⟩
  | ifEq p s body ih =>
    cases hr : resolve ctx p with
    | val v =>
      cases v with
      | str s' =>
        simp only [renderT, hr] at h
        by_cases hs : s' = s
        · subst hs
          simp at h
          rcases ih h with ⟨c, q, k, hre, hd, he⟩ | ⟨c, q, w, hre, hv, hs, he⟩
          · exact .inl ⟨c, q, k, .ifBody hr hre, hd, he⟩
          · exact .inr ⟨c, q, w, .ifBody hr hre, hv, hs, he⟩
        · simp [hs] at h
      | list xs => simp [renderT, hr] at h
      | record fs => simp [renderT, hr] at h
    | undef =>
      simp [renderT, hr] at h
      exact .inl ⟨ctx, p, .cmp, .ifHead, not_defined_of_ne_val (by simp [hr]), h.symm⟩
    | broken =>
      simp [renderT, hr] at h
      exact .inl ⟨ctx, p, .cmp, .ifHead, not_defined_of_ne_val (by simp [hr]), h.symm⟩
  | expr a f =>
    cases ha : evalE ctx a with
    | error x =>
      have : e = x := by cases f <;> simp [renderT, ha] at h <;> exact h.symm
      subst this
      obtain ⟨p, hs, hd, rfl⟩ := evalE_error_cause a _ ha
      exact .inl ⟨ctx, p, .store, .exprL hs, hd, rfl⟩
    | ok pa =>
      cases f with
      | none =>
        simp only [renderT, ha] at h
        obtain ⟨q, hq, rfl⟩ := str_error_holds h
        obtain ⟨hs, hd⟩ := evalE_holds_cause a pa q ha hq
        exact .inl ⟨ctx, q, .store, .exprL hs, hd, rfl⟩
      | some g =>
        cases hg : evalE ctx g with
        | error x =>
          simp [renderT, ha, hg] at h; subst h
          obtain ⟨p, hs, hd, rfl⟩ := evalE_error_cause g _ hg
          exact .inl ⟨ctx, p, .store, .exprR hs, hd, rfl⟩
        | ok pb =>
          cases hsa : pa.str .strict with
          | error x =>
            simp [renderT, ha, hg, hsa] at h; subst h
            obtain ⟨q, hq, rfl⟩ := str_error_holds hsa
            obtain ⟨hs, hd⟩ := evalE_holds_cause a pa q ha hq
            exact .inl ⟨ctx, q, .store, .exprL hs, hd, rfl⟩
          | ok sa =>
            cases hsb : pb.str .strict with
            | error x =>
              simp [renderT, ha, hg, hsa, hsb] at h; subst h
              obtain ⟨q, hq, rfl⟩ := str_error_holds hsb
              obtain ⟨hs, hd⟩ := evalE_holds_cause g pb q hg hq
              exact .inl ⟨ctx, q, .store, .exprR hs, hd, rfl⟩
            | ok sb => simp [renderT, ha, hg, hsa, hsb] at h

/-- every reached `|escape` is applied to a string (no type error can come first) -/
def EscOk (ctx : Ctx) (t : Tmpl) : Prop :=
  ∀ c p v, Reached ctx t c p .esc → resolve c p = .val v → ∃ s, v = .str s

/-- **undefined_is_error, with the error named**: the error is `undefined q` for a reached
reference `q` that its context does not define (the first one Jinja meets). -/
theorem undefined_error_kind {ctx c : Ctx} {t : Tmpl} {p : Path} {k : Use}
    (h : Reached ctx t c p k) (hu : ¬ Defined c p) (hesc : EscOk ctx t) :
    ∃ c' q k', Reached ctx t c' q k' ∧ ¬ Defined c' q ∧
      renderT .strict ctx t = .error (.undefined q) := by
  obtain ⟨e, he⟩ := undefined_is_error h hu
  rcases error_has_cause he with ⟨c', q, k', hr, hd, rfl⟩ | ⟨c', q, v, hr, hv, hs, _⟩
  · exact ⟨c', q, k', hr, hd, he⟩
  · obtain ⟨s, rfl⟩ := hesc c' q v hr hv
    exact absurd rfl (hs s)

/-! ### defined ⇒ exactly the value -/

/-- **defined_exact**: if every reached reference is usable (defined; `|escape` gets a
string), then under BOTH policies the template renders, and the result is the template with
each reference replaced by exactly its value — nothing else changes. -/
theorem defined_exact (pol : Policy) {ctx : Ctx} {t : Tmpl}
    (h : ∀ c p k, Reached ctx t c p k → Usable c p k) :
    renderT pol ctx t = .ok (subst ctx t) := by
  induction t generalizing ctx with
  | lit s => rfl
  | var p =>
    obtain ⟨v, hv, _⟩ := h ctx p .print .var
    simp [renderT, subst, hv]
  | escVar p =>
    obtain ⟨v, hv, hs⟩ := h ctx p .esc .esc
    obtain ⟨s, rfl⟩ := hs rfl
    simp [renderT, subst, hv]
  | seq a b iha ihb =>
    simp [renderT, subst, iha (fun c p k hr => h c p k (.seqL hr)),
      ihb (fun c p k hr => h c p k (.seqR hr))]
  | forJoin v p body ih =>
    obtain ⟨xs, hxs, _⟩ := h ctx p .iter .forHead
    simp only [renderT, subst, hxs]
    exact joinM_ok (g := fun e => subst ((v, e) :: ctx) body)
      (fun e he => ih (fun c q k hr => h c q k (.forBody hxs he hr)))
  | ifEq p s body ih =>
    obtain ⟨v, hv, _⟩ := h ctx p .cmp .ifHead
    cases v with
    | str s' =>
      by_cases hs : s' = s
      · subst hs
        simp [renderT, subst, hv, ih (fun c q k hr => h c q k (.ifBody hv hr))]
      · simp [renderT, subst, hv, hs]
    | list xs => simp [renderT, subst, hv]
    | record fs => simp [renderT, subst, hv]
  | expr a f =>
    have hda : ∀ p, Stored a p → Defined ctx p := fun p hs =>
      let ⟨v, hv, _⟩ := h ctx p .store (.exprL hs); ⟨v, hv⟩
    obtain ⟨pa, hea, hca⟩ := evalE_clean hda
    cases f with
    | none => simp [renderT, subst, hea, clean_str pol hca]
    | some g =>
      have hdg : ∀ p, Stored g p → Defined ctx p := fun p hs =>
        let ⟨v, hv, _⟩ := h ctx p .store (.exprR hs); ⟨v, hv⟩
      obtain ⟨pb, heb, hcb⟩ := evalE_clean hdg
      simp [renderT, subst, hea, heb, clean_str pol hca, clean_str pol hcb]

/-- non-vacuity and shape of `subst`: literal text is kept, the reference is the value -/
example :
    renderT .strict [("a".toList, .str "A;B".toList)]
      (.seq (.lit "x ".toList) (.seq (.escVar ⟨"a".toList, []⟩) (.lit " y".toList)))
      = .ok "x A\\;B y".toList := by decide

/-- `subst` on the basic shapes, spelled out: the surrounding text is untouched -/
theorem subst_var_exact (ctx : Ctx) (a b : Str) (p : Path) (v : Val) (h : resolve ctx p = .val v) :
    subst ctx (.seq (.lit a) (.seq (.var p) (.lit b))) = a ++ (v.show ++ b) := by
  simp [subst, h]

/-- the policy does not matter when everything is defined -/
theorem policy_irrelevant_when_defined {ctx : Ctx} {t : Tmpl}
    (h : ∀ c p k, Reached ctx t c p k → Usable c p k) :
    renderT .strict ctx t = renderT .lenient ctx t := by
  rw [defined_exact .strict h, defined_exact .lenient h]

/-- needed: "usable", not only "defined" — `|escape` of a list is a type error, not a value -/
theorem needs_usable :
    renderT .strict [("xs".toList, .list [])] (.escVar ⟨"xs".toList, []⟩)
      = .error (.filterType ⟨"xs".toList, []⟩) := by decide

/-! ### what the fix removed -/

/-- **lenient_blank**: under Jinja's default policy an undefined reference renders as
nothing, the text around it is delivered. -/
theorem lenient_blank {ctx : Ctx} {p : Path} (a b : Str) (h : resolve ctx p = .undef) :
    renderT .lenient ctx (.seq (.lit a) (.seq (.var p) (.lit b))) = .ok (a ++ b) := by
  simp [renderT, h]

example : renderT .lenient [("name".toList, .str "N".toList)]
    (.seq (.lit "Hi ".toList) (.seq (.var ⟨"nmae".toList, []⟩) (.lit "!".toList)))
    = .ok "Hi !".toList := by decide

/-- the same under strict is an error naming the reference -/
theorem strict_not_blank {ctx : Ctx} {p : Path} (a b : Str) (h : resolve ctx p = .undef) :
    renderT .strict ctx (.seq (.lit a) (.seq (.var p) (.lit b))) = .error (.undefined p) := by
  simp [renderT, h]

/-- lenient loops and conditions on undefined names are silently skipped -/
theorem lenient_blank_for_if {ctx : Ctx} {p : Path} (v c : Str) (body : Tmpl)
    (h : resolve ctx p = .undef) :
    renderT .lenient ctx (.forJoin v p body) = .ok [] ∧
    renderT .lenient ctx (.ifEq p c body) = .ok [] := by
  simp [renderT, h]

/-! ### native templates -/

/-- **undefined_is_error (native)**: with a strict native environment AND the check of the
result, `{@ p @}` for an undefined `p` is an error. -/
theorem undefined_is_error_native {cf : Conf} {ctx : Ctx} {p : Path} (l r : Str)
    (hs : cf.natPol = .strict) (hc : cf.natCheck = true) (hu : ¬ Defined ctx p) :
    renderSrc cf ctx (.nat l p r) = .error (.undefined p) := by
  cases hr : resolve ctx p with
  | val v => exact absurd ⟨v, hr⟩ hu
  | undef => simp [renderSrc, hr, hs, hc]
  | broken => simp [renderSrc, hr]

/-- **defined_exact (native)**: the VALUE, for every configuration -/
theorem defined_exact_native (cf : Conf) {ctx : Ctx} {p : Path} {v : Val} (l r : Str)
    (h : resolve ctx p = .val v) : renderSrc cf ctx (.nat l p r) = .ok (.value v) := by
  simp [renderSrc, h]

/-- lenient native environment: the undefined object is handed over silently -/
theorem lenient_blank_native {cf : Conf} {ctx : Ctx} {p : Path} (l r : Str)
    (hl : cf.natPol = .lenient) (h : resolve ctx p = .undef) :
    ∃ o, renderSrc cf ctx (.nat l p r) = .ok o ∧ (∀ v, renderSrc cf ctx (.nat l p r) ≠ .ok (.value v)) := by
  refine ⟨.undefinedObject, by simp [renderSrc, h, hl], ?_⟩
  intro v hv
  simp [renderSrc, h, hl] at hv

/-- **the check is needed too**: a strict native environment alone still hands over the
undefined object (the second half of the fix). -/
theorem needs_native_check {ctx : Ctx} {p : Path} (l r : Str) (tp : Policy) (deep : Bool)
    (h : resolve ctx p = .undef) :
    ∀ v e, renderSrc ⟨tp, .strict, false, deep⟩ ctx (.nat l p r) ≠ .error e ∧
      renderSrc ⟨tp, .strict, false, deep⟩ ctx (.nat l p r) ≠ .ok (.value v) := by
  intro v e
  simp [renderSrc, h]

/-- a step taken ON an undefined object fails under every configuration -/
theorem broken_always_error (cf : Conf) {ctx : Ctx} {p : Path} (l r : Str)
    (h : resolve ctx p = .broken) : renderSrc cf ctx (.nat l p r) = .error (.undefined p) := by
  simp [renderSrc, h]

/-- **undefined_is_error (native, nested)**: with a strict native environment and the DEEP
check of the result, `{@ e @}` is an error as soon as `e` stores an undefined reference at any
depth of its list / tuple / dict literals. -/
theorem undefined_is_error_nativeE {cf : Conf} {ctx : Ctx} {e : Expr} {p : Path} (l r : Str)
    (hs : cf.natPol ≠ .lenient) (hc : cf.natCheck = true) (hd : cf.natDeep = true)
    (h : Stored e p) (hu : ¬ Defined ctx p) :
    ∃ x, renderSrc cf ctx (.natE l e r) = .error x := by
  rcases stored_undefined h hu with ⟨x, hx⟩ | ⟨pv, hpv, hh⟩
  · exact ⟨x, by simp [renderSrc, hx]⟩
  · have hf := holds_findUndef hh
    obtain ⟨q, hq⟩ := Option.isSome_iff_exists.mp hf
    exact ⟨.undefined q, by simp [renderSrc, hpv, Conf.search, hc, hd, hq, hs]⟩

/-- **defined_exact (native, nested)**: every stored reference defined ⇒ the container of the
values, for every configuration -/
theorem defined_exact_nativeE (cf : Conf) {ctx : Ctx} {e : Expr} (l r : Str)
    (h : ∀ p, Stored e p → Defined ctx p) :
    ∃ pv, evalE ctx e = .ok pv ∧ (∀ q, ¬ pv.Holds q) ∧
      renderSrc cf ctx (.natE l e r) = .ok (.pvalue pv) := by
  obtain ⟨pv, hpv, hc⟩ := evalE_clean h
  have hn : pv.findUndef = none := by
    cases hf : pv.findUndef with
    | none => rfl
    | some q => exact absurd (findUndef_holds pv q hf) (hc q)
  have ht : pv.topUndef = none := by
    cases pv with
    | undef p => exact absurd .undef (hc p)
    | val v => rfl
    | num n => rfl
    | coll k items => rfl
  have hs : cf.search pv = none := by
    unfold Conf.search; split
    · split <;> assumption
    · rfl
  have ho : pv.out = .pvalue pv := by
    cases pv with
    | undef p => exact absurd .undef (hc p)
    | val v => simp [PVal.out, hn]
    | num n => simp [PVal.out, hn]
    | coll k items => simp [PVal.out, hn]
  exact ⟨pv, hpv, hc, by simp [renderSrc, hpv, hs, ho]⟩

/-- **the deep check is needed** (negative witness = F-C16-c, native half): with the check of
the result at top level only, `{@ [nope] @}` hands over a list that holds the undefined
object — no error — although `{@ nope @}` is an error under the same configuration. -/
theorem needs_deep_check :
    renderSrc Conf.shallow [("a".toList, .str "A".toList)]
      (.natE " ".toList (.coll .list [([], .ref ⟨"nope".toList, []⟩)]) " ".toList)
      = .ok .holdsUndefined ∧
    renderSrc Conf.shallow [("a".toList, .str "A".toList)]
      (.natE " ".toList (.ref ⟨"nope".toList, []⟩) " ".toList)
      = .error (.undefined ⟨"nope".toList, []⟩) ∧
    renderSrc Conf.repo [("a".toList, .str "A".toList)]
      (.natE " ".toList (.coll .list [([], .ref ⟨"nope".toList, []⟩)]) " ".toList)
      = .error (.undefined ⟨"nope".toList, []⟩) := by
  refine ⟨?_, ?_, ?_⟩ <;>
    simp [renderSrc, evalE, evalItems, Conf.search, Conf.shallow, Conf.repo, PVal.topUndef,
      PVal.findUndef, findUndefItems, PVal.out, CKind.norm, resolve, resolveFrom, rootRes, List.lookup]

/-! ### unreached references are harmless -/

/-- a false condition: the body is not evaluated, whatever it mentions -/
theorem if_false_unevaluated (pol : Policy) {ctx : Ctx} {p : Path} {v : Val} (c : Str) (body : Tmpl)
    (h : resolve ctx p = .val v) (hne : v ≠ .str c) :
    renderT pol ctx (.ifEq p c body) = .ok [] := by
  cases v with
  | str s =>
    have : s ≠ c := fun hs => hne (by rw [hs])
    simp [renderT, h, this]
  | list xs => simp [renderT, h]
  | record fs => simp [renderT, h]

/-- a loop over nothing: the body is not evaluated -/
theorem for_empty_unevaluated (pol : Policy) {ctx : Ctx} {p : Path} {xs : Val} (v : Str) (body : Tmpl)
    (h : resolve ctx p = .val xs) (he : xs.items = []) :
    renderT pol ctx (.forJoin v p body) = .ok [] := by
  simp [renderT, h, he, joinM]

/-- the loop variable is gone after the loop: using it there is an error (strict) -/
example :
    renderT .strict [("xs".toList, .list [.str "a".toList])]
      (.seq (.forJoin "v".toList ⟨"xs".toList, []⟩ (.var ⟨"v".toList, []⟩)) (.var ⟨"v".toList, []⟩))
      = .error (.undefined ⟨"v".toList, []⟩) := by decide

/-- … and an outer variable of the same name is visible again (Jinja scoping) -/
example :
    renderT .strict [("xs".toList, .list [.str "a".toList]), ("v".toList, .str "OUT".toList)]
      (.seq (.forJoin "v".toList ⟨"xs".toList, []⟩ (.var ⟨"v".toList, []⟩)) (.var ⟨"v".toList, []⟩))
      = .ok "aOUT".toList := by decide

/-! ### the wrapper: shortcut, omitted templating -/

theorem reached_mem_refs {ctx c : Ctx} {t : Tmpl} {p : Path} {k : Use}
    (h : Reached ctx t c p k) : p ∈ refs t := by
  induction h with
  | @exprL ctx e f p hs => cases f <;> simp [refs, stored_mem_refs hs]
  | @exprR ctx e f p hs => simp [refs, stored_mem_refs hs]
  | _ => simp_all [refs]

/-- a template that writes a reference contains `{` … -/
theorem ref_has_brace {t : Tmpl} {p : Path} (h : p ∈ refs t) : shortcutChar ∈ t.show := by
  induction t with
  | lit s => simp [refs] at h
  | var q => simp [Tmpl.show, varStart, shortcutChar]
  | escVar q => simp [Tmpl.show, varStart, shortcutChar]
  | seq a b iha ihb =>
    simp only [refs, List.mem_append] at h
    simp only [Tmpl.show, List.mem_append]
    rcases h with h | h
    · exact .inl (iha h)
    · exact .inr (ihb h)
  | forJoin v q body ih => simp [Tmpl.show, blockStart, shortcutChar]
  | ifEq q c body ih => simp [Tmpl.show, blockStart, shortcutChar]
  | expr e f => cases f <;> simp [Tmpl.show, varStart, shortcutChar]

/-- … so **the no-`{` shortcut never skips a reference**, and what it returns is what
rendering would have returned. -/
theorem shortcut_exact (pol : Policy) (ctx : Ctx) {t : Tmpl} (h : shortcutChar ∉ t.show) :
    renderT pol ctx t = .ok t.show := by
  induction t generalizing ctx with
  | lit s => rfl
  | var q => simp [Tmpl.show, varStart, shortcutChar] at h
  | escVar q => simp [Tmpl.show, varStart, shortcutChar] at h
  | seq a b iha ihb =>
    simp only [Tmpl.show, List.mem_append, not_or] at h
    simp [renderT, iha ctx h.1, ihb ctx h.2, Tmpl.show]
  | forJoin v q body ih => simp [Tmpl.show, blockStart, shortcutChar] at h
  | ifEq q c body ih => simp [Tmpl.show, blockStart, shortcutChar] at h
  | expr e f => cases f <;> simp [Tmpl.show, varStart, shortcutChar] at h

/-- references of a cell that are reached -/
inductive SrcReached : Ctx → Src → Ctx → Path → Prop where
  | text {ctx t c p k} : Reached ctx t c p k → SrcReached ctx (.text t) c p
  | nat {ctx l p r} : SrcReached ctx (.nat l p r) ctx p
  | nat2L {ctx p q} : SrcReached ctx (.nat2 p q) ctx p
  | nat2R {ctx p q} : SrcReached ctx (.nat2 p q) ctx q
  | natE {ctx l e r p} : Stored e p → SrcReached ctx (.natE l e r) ctx p

theorem src_ref_has_brace {ctx c : Ctx} {s : Src} {p : Path} (h : SrcReached ctx s c p) :
    shortcutChar ∈ s.show := by
  cases h with
  | text hr => exact ref_has_brace (reached_mem_refs hr)
  | nat => simp [Src.show, natStart, shortcutChar]
  | nat2L => simp [Src.show, natStart, shortcutChar]
  | nat2R => simp [Src.show, natStart, shortcutChar]
  | natE _ => simp [Src.show, natStart, shortcutChar]

/-- **undefined_is_error at the API boundary** (`parse_as_string` with the repo's
configuration, any context — also the empty one, any padding): a cell that reaches an
undefined reference is an error; no text and no value is delivered. -/
theorem undefined_is_error_cell {cf : Conf} {ctx c : Ctx} {value : Str} {ast : Src} {p : Path}
    (hcf : cf = Conf.repo) (hshow : ast.show = strip pyWs value)
    (h : SrcReached ctx ast c p) (hu : ¬ Defined c p) :
    ∃ e, parseAsString cf (some ctx) value ast = .error e := by
  subst hcf
  have hb : (strip pyWs value).contains shortcutChar = true := by
    rw [← hshow]; simpa using src_ref_has_brace h
  have hr : ∃ e, renderSrc Conf.repo ctx ast = .error e := by
    cases h with
    | text hr =>
      obtain ⟨e, he⟩ := undefined_is_error hr hu
      exact ⟨e, by simp [renderSrc, Conf.repo, he]⟩
    | nat => exact ⟨_, undefined_is_error_native _ _ rfl rfl hu⟩
    | nat2L => exact ⟨_, rfl⟩
    | nat2R => exact ⟨_, rfl⟩
    | natE hs => exact undefined_is_error_nativeE _ _ (by decide) rfl rfl hs hu
  obtain ⟨e, he⟩ := hr
  unfold parseAsString
  simp only [hb, Bool.not_true, Bool.and_false, Bool.false_eq_true, if_false]
  split
  · split
    · exact ⟨_, rfl⟩
    · exact ⟨e, he⟩
  · exact ⟨e, he⟩

/-- … and `parse` (the entry point of list/object columns) fails with it -/
theorem undefined_is_error_parse {cf : Conf} {ctx c : Ctx} {value : Str} {ast : Src} {p : Path}
    (hcf : cf = Conf.repo) (hshow : ast.show = strip pyWs value)
    (h : SrcReached ctx ast c p) (hu : ¬ Defined c p) :
    ∃ e, parse cf (some ctx) value ast = .error e := by
  obtain ⟨e, he⟩ := undefined_is_error_cell hcf hshow h hu
  exact ⟨e, by simp [parse, he]⟩

/-- non-vacuity: `  {@ row.nmae @} ` with the row defined -/
example :
    (Src.nat " ".toList ⟨"row".toList, [.fld "nmae".toList]⟩ " ".toList).show
      = strip pyWs "  {@ row.nmae @} ".toList ∧
    ¬ Defined [("row".toList, .record [("name".toList, .str "N".toList)])]
      ⟨"row".toList, [.fld "nmae".toList]⟩ := by decide

/-- non-vacuity (nested): `{@ {'k': [a, nope]} @}` at the API boundary -/
example :
    (Src.natE " ".toList (.coll .dict [("k".toList, .coll .list [([], .ref ⟨"a".toList, []⟩),
        ([], .ref ⟨"nope".toList, []⟩)])]) " ".toList).show
      = strip pyWs " {@ {'k': [a, nope]} @}".toList ∧
    ¬ Defined [("a".toList, .str "A".toList)] ⟨"nope".toList, []⟩ := by decide

/-- **omitted_unevaluated**: with `context=None` (`omit_templating`, the rows inside an
excluded block or an empty loop) the cell is returned stripped; neither the configuration nor
Jinja's reading of the cell plays any role — `render` is never called. -/
theorem omitted_unevaluated (cf cf' : Conf) (value : Str) (ast ast' : Src) :
    parseAsString cf none value ast = .ok (.text (strip pyWs value)) ∧
    parseAsString cf none value ast = parseAsString cf' none value ast' := by
  simp [parseAsString]

/-- a whole omitted row: every cell comes back stripped, none is an error -/
theorem omitted_row_unevaluated (cf : Conf) (ctx : Ctx) (cells : List (Str × Src)) :
    parseRow cf true ctx cells = cells.map fun c => .ok (.text (strip pyWs c.1)) := by
  simp [parseRow, parseAsString]

/-- whereas a row that is templated (a single row whose own `include_if` is false is one:
the flag is a cell of the same row) fails as soon as one cell reaches an undefined name -/
theorem templated_row_fails {cf : Conf} {ctx c : Ctx} {cells : List (Str × Src)} {cell : Str × Src}
    {p : Path} (hcf : cf = Conf.repo) (hm : cell ∈ cells)
    (hshow : cell.2.show = strip pyWs cell.1) (h : SrcReached ctx cell.2 c p) (hu : ¬ Defined c p) :
    ∃ e, Except.error e ∈ parseRow cf false ctx cells := by
  obtain ⟨e, he⟩ := undefined_is_error_cell hcf hshow h hu
  refine ⟨e, ?_⟩
  simp only [parseRow, List.mem_map]
  exact ⟨cell, hm, by simpa using he⟩

/-- **delivered_no_blank (row level)**: if every cell of a templated row was delivered (no
error), then no cell of the row reaches a reference that its context does not define — in
particular nothing was replaced by nothing.  (The sheet-level statement — which context a row
of a loop / an inserted template / a bulk-created flow is instantiated in — has no Lean model;
it is checked on the real compiler for every cell of every explored sheet, see the check.) -/
theorem delivered_no_blank_row {cf : Conf} {ctx : Ctx} {cells : List (Str × Src)}
    (hcf : cf = Conf.repo)
    (hok : ∀ r ∈ parseRow cf false ctx cells, ∃ o, r = .ok o) :
    ∀ cell ∈ cells, cell.2.show = strip pyWs cell.1 →
      ∀ c p, SrcReached ctx cell.2 c p → Defined c p := by
  intro cell hm hshow c p hr
  apply Decidable.byContradiction
  intro hu
  obtain ⟨e, he⟩ := templated_row_fails hcf hm hshow hr hu
  obtain ⟨o, ho⟩ := hok _ he
  cases ho

/-- non-vacuity: a row of two cells, both delivered -/
example : ∀ r ∈ parseRow Conf.repo false [("a".toList, .str "A".toList)]
    [("{{a}}".toList, .text (.var ⟨"a".toList, []⟩)), ("x".toList, .text (.lit "x".toList))],
    r = .ok (.text "A".toList) ∨ r = .ok (.text "x".toList) := by
  have h1 : strip pyWs "{{a}}".toList = "{{a}}".toList := by decide
  have h2 : strip pyWs "x".toList = "x".toList := by decide
  intro r hr
  simp only [parseRow, List.map, List.mem_cons, List.not_mem_nil, or_false] at hr
  rcases hr with rfl | rfl
  · left
    have : List.contains "{{a}}".toList shortcutChar = true := by decide
    have hn : isNativeCell "{{a}}".toList = false := by decide
    simp only [parseAsString, h1, this, hn, Bool.not_true, Bool.and_false, Bool.false_eq_true, if_false]
    rfl
  · right
    have : List.contains "x".toList shortcutChar = false := by decide
    have hn : isNativeCell "x".toList = false := by decide
    simp only [parseAsString, h2, this, hn, Bool.not_false, Bool.and_true, Bool.false_eq_true, if_false]
    rfl

/-- the empty-context shortcut returns exactly what rendering returns (text cells) -/
theorem shortcut_is_render {cf : Conf} {value : Str} {t : Tmpl}
    (hshow : t.show = strip pyWs value) (hnb : (strip pyWs value).contains shortcutChar = false) :
    parseAsString cf (some []) value (.text t) = renderSrc cf [] (.text t) := by
  have hn' : shortcutChar ∉ strip pyWs value := by
    intro hm
    have : (strip pyWs value).contains shortcutChar = true := by simpa using hm
    rw [hnb] at this; cases this
  have hn : shortcutChar ∉ t.show := hshow ▸ hn'
  simp [parseAsString, hn', renderSrc, shortcut_exact cf.textPol [] hn, hshow]

/-- two native templates in one cell are rejected whatever they name -/
theorem nested_native_rejected (cf : Conf) (ctx : Ctx) :
    parseAsString cf (some ctx) "{@a@}{@b@}".toList (.nat2 ⟨"a".toList, []⟩ ⟨"b".toList, []⟩)
      = .error .nestedNative := by
  have h1 : strip pyWs "{@a@}{@b@}".toList = "{@a@}{@b@}".toList := by decide
  have h2 : isNativeCell "{@a@}{@b@}".toList = true := by decide
  have h3 : containsSub natStart (List.drop nestedOffset "{@a@}{@b@}".toList) = true := by decide
  have h4 : List.contains "{@a@}{@b@}".toList shortcutChar = true := by decide
  simp only [parseAsString, h1, h2, h3, h4, Bool.not_true, Bool.and_false, Bool.false_eq_true,
    if_false, if_true]

/-! ## consumers of containers: `|length`, `|first`, `|last`, `[i]`, `|join` — what is USED, what is dropped (F-C16-d) -/

/-- the value handed to the printer cannot be printed iff the wrapper's search finds something in it -/
theorem str_error_iff_findUndef (pv : PVal) :
    (∃ x, pv.str .strict = .error x) ↔ pv.findUndef.isSome = true := by
  constructor
  · rintro ⟨x, hx⟩
    obtain ⟨q, hq, _⟩ := str_error_holds hx
    exact holds_findUndef hq
  · intro h
    obtain ⟨q, hq⟩ := Option.isSome_iff_exists.mp h
    exact holds_str_error (findUndef_holds pv q hq)

theorem str_error_is_undefined {pv : PVal} {x : Err} (h : pv.str .strict = .error x) :
    ∃ p, x = .undefined p := by
  obtain ⟨q, _, hq⟩ := str_error_holds h
  exact ⟨q, hq⟩

/-- **render_error_iff_used** (text, `{{ e }}`) -/
theorem render_error_iff_used (ctx : Ctx) (e : CExpr) :
    (∃ p, renderC .strict ctx e none = .error (.undefined p)) ↔ UsedUndef ctx e = true := by
  unfold renderC UsedUndef
  cases he : evalC ctx e with
  | error x =>
    cases x <;> simp
  | ok pv =>
    simp only
    rw [← str_error_iff_findUndef]
    constructor
    · rintro ⟨p, hp⟩; exact ⟨_, hp⟩
    · rintro ⟨x, hx⟩
      obtain ⟨p, rfl⟩ := str_error_is_undefined hx
      exact ⟨p, hx⟩

theorem CExpr.ind {motive : CExpr → Prop}
    (ref : ∀ p, motive (.ref p)) (dflt : ∀ p d, motive (.dflt p d))
    (coll : ∀ k items, (∀ kv ∈ items, motive kv.2) → motive (.coll k items))
    (len : ∀ e, motive e → motive (.len e)) (first : ∀ e, motive e → motive (.first e))
    (last : ∀ e, motive e → motive (.last e)) (index : ∀ e i, motive e → motive (.index e i))
    (join : ∀ s e, motive e → motive (.join s e)) : ∀ e, motive e := by
  intro e
  exact CExpr.rec (motive_1 := motive) (motive_2 := fun items => ∀ kv ∈ items, motive kv.2)
    (motive_3 := fun kv => motive kv.2) ref dflt (fun k items ih => coll k items ih)
    len first last index join
    (by intro kv h; cases h)
    (fun hd tl h1 h2 kv hm => by
      rcases List.mem_cons.mp hm with rfl | hm
      · exact h1
      · exact h2 kv hm)
    (fun k e h => h) e

/-- no `Undefined` object inside -/
def Clean (pv : PVal) : Prop := ∀ q, ¬ pv.Holds q

theorem clean_val (v : Val) : Clean (.val v) := fun q h => by cases h
theorem clean_num (n : Nat) : Clean (.num n) := fun q h => by cases h

theorem elems_clean {pv : PVal} {xs : List PVal} (h : pv.elems = .ok xs) (hc : Clean pv) :
    ∀ x ∈ xs, Clean x := by
  intro x hx
  cases pv with
  | val v =>
    cases v <;> simp [PVal.elems] at h <;> subst h <;> simp at hx <;>
      (obtain ⟨a, _, rfl⟩ := hx; exact clean_val _)
  | undef p => simp [PVal.elems] at h
  | num n => simp [PVal.elems] at h
  | coll k items =>
    cases k <;> simp [PVal.elems] at h <;> subst h <;> simp at hx
    · obtain ⟨a, hm⟩ := hx
      exact fun q hq => hc q (.coll (kv := (a, x)) hm hq)
    · obtain ⟨a, hm⟩ := hx
      exact fun q hq => hc q (.coll (kv := (a, x)) hm hq)
    · obtain ⟨a, b, _, rfl⟩ := hx; exact clean_val _
    · obtain ⟨a, b, _, rfl⟩ := hx; exact clean_val _

theorem elems_error_clean {pv : PVal} {x : Err} (h : pv.elems = .error x) (hc : Clean pv) :
    x = .badOperand := by
  cases pv with
  | val v => cases v <;> simp [PVal.elems] at h
  | undef p => exact absurd .undef (hc p)
  | num n => simp [PVal.elems] at h; exact h.symm
  | coll k items => cases k <;> simp [PVal.elems] at h

theorem joinStrs_clean (sep : Str) {xs : List PVal} (h : ∀ x ∈ xs, Clean x) :
    ∃ s, joinStrs sep xs = .ok s := by
  induction xs with
  | nil => exact ⟨_, rfl⟩
  | cons a rest ih =>
    obtain ⟨r, hr⟩ := ih (fun x hx => h x (by simp [hx]))
    simp only [joinStrs, clean_str .strict (h a (by simp)), hr]
    exact ⟨_, rfl⟩

/-- no failure on an undefined object, and nothing undefined inside the result -/
def Quiet (r : Except Err PVal) : Prop :=
  (∀ p, r ≠ .error (.undefined p)) ∧ (∀ pv, r = .ok pv → Clean pv)

theorem quiet_len {pv : PVal} (hc : Clean pv) : Quiet pv.len := by
  unfold PVal.len
  cases h : pv.elems with
  | error x => rw [elems_error_clean h hc]; exact ⟨by simp, by simp⟩
  | ok xs => exact ⟨by simp, by intro r hr; simp at hr; subst hr; exact clean_num _⟩

theorem quiet_first {pv : PVal} (hc : Clean pv) : Quiet pv.first := by
  unfold PVal.first
  cases h : pv.elems with
  | error x => rw [elems_error_clean h hc]; exact ⟨by simp, by simp⟩
  | ok xs =>
    cases hh : xs.head? with
    | none => simp only [hh]; exact ⟨by simp, by simp⟩
    | some x =>
      simp only [hh]
      refine ⟨by simp, ?_⟩
      intro r hr; simp at hr; subst hr
      exact elems_clean h hc x (List.mem_of_mem_head? hh)

theorem quiet_last {pv : PVal} (hc : Clean pv) : Quiet pv.last := by
  unfold PVal.last
  cases h : pv.elems with
  | error x => rw [elems_error_clean h hc]; exact ⟨by simp, by simp⟩
  | ok xs =>
    cases hh : xs.getLast? with
    | none => simp only [hh]; exact ⟨by simp, by simp⟩
    | some x =>
      simp only [hh]
      refine ⟨by simp, ?_⟩
      intro r hr; simp at hr; subst hr
      exact elems_clean h hc x (List.mem_of_getLast? hh)

theorem quiet_index {pv : PVal} (i : Nat) (hc : Clean pv) : Quiet (pv.index i) := by
  unfold PVal.index
  cases h : pv.elems with
  | error x => rw [elems_error_clean h hc]; exact ⟨by simp, by simp⟩
  | ok xs =>
    simp only
    split
    · exact ⟨by simp, by simp⟩
    · cases hh : xs[i]? with
      | none => simp only [hh]; exact ⟨by simp, by simp⟩
      | some x =>
        simp only [hh]
        refine ⟨by simp, ?_⟩
        intro r hr; simp at hr; subst hr
        exact elems_clean h hc x (List.mem_of_getElem? hh)

theorem quiet_join {pv : PVal} (sep : Str) (hc : Clean pv) : Quiet (pv.join sep) := by
  unfold PVal.join
  cases h : pv.elems with
  | error x => rw [elems_error_clean h hc]; exact ⟨by simp, by simp⟩
  | ok xs =>
    obtain ⟨s, hs⟩ := joinStrs_clean sep (elems_clean h hc)
    simp only [hs]
    exact ⟨by simp, by intro r hr; simp at hr; subst hr; exact clean_val _⟩

theorem evalCItems_error {ctx : Ctx} {items : List (Str × CExpr)} {x : Err}
    (h : evalCItems ctx items = .error x) : ∃ kv ∈ items, evalC ctx kv.2 = .error x := by
  induction items with
  | nil => simp [evalCItems] at h
  | cons kv rest ih =>
    obtain ⟨k, e⟩ := kv
    simp only [evalCItems] at h
    cases he : evalC ctx e with
    | error y =>
      rw [he] at h; simp at h; subst h
      exact ⟨(k, e), by simp, he⟩
    | ok pv =>
      rw [he] at h
      cases hr : evalCItems ctx rest with
      | error y =>
        rw [hr] at h; simp at h; subst h
        obtain ⟨kv, hm, hkv⟩ := ih hr
        exact ⟨kv, by simp [hm], hkv⟩
      | ok pvs => rw [hr] at h; cases h

theorem evalCItems_ok {ctx : Ctx} {items : List (Str × CExpr)} {pvs : List (Str × PVal)}
    (h : evalCItems ctx items = .ok pvs) :
    (∀ pkv ∈ pvs, ∃ kv ∈ items, evalC ctx kv.2 = .ok pkv.2) := by
  induction items generalizing pvs with
  | nil =>
    simp [evalCItems] at h; subst h
    intro _ hm; cases hm
  | cons a rest ih =>
    obtain ⟨k, e⟩ := a
    simp only [evalCItems] at h
    cases he : evalC ctx e with
    | error y => rw [he] at h; cases h
    | ok pv =>
      rw [he] at h
      cases hr : evalCItems ctx rest with
      | error y => rw [hr] at h; cases h
      | ok ps =>
        rw [hr] at h; simp at h; subst h
        intro pkv hm
        rcases List.mem_cons.mp hm with rfl | hm
        · exact ⟨(k, e), by simp, he⟩
        · obtain ⟨kv, hk, hv⟩ := ih hr pkv hm
          exact ⟨kv, by simp [hk], hv⟩

theorem mem_bareRefsItems {items : List (Str × CExpr)} {kv : Str × CExpr} {p : Path}
    (hm : kv ∈ items) (h : p ∈ kv.2.bareRefs) : p ∈ bareRefsItems items := by
  induction items with
  | nil => cases hm
  | cons a rest ih =>
    obtain ⟨k, e⟩ := a
    simp only [bareRefsItems, List.mem_append]
    rcases List.mem_cons.mp hm with rfl | hm
    · exact .inl h
    · exact .inr (ih hm)

/-- **no undefined reference named ⇒ nothing undefined anywhere**: evaluation does not fail on
an undefined object and its result holds none — through every consumer -/
theorem quiet_of_defined {ctx : Ctx} (e : CExpr) :
    (∀ p ∈ e.bareRefs, Defined ctx p) → Quiet (evalC ctx e) := by
  induction e using CExpr.ind with
  | ref p =>
    intro h
    obtain ⟨v, hv⟩ := h p (by simp [CExpr.bareRefs])
    simp only [evalC, hv]
    exact ⟨by simp, by intro r hr; simp at hr; subst hr; exact clean_val _⟩
  | dflt x d =>
    intro _
    simp only [evalC]
    cases ctx.lookup x <;>
      exact ⟨by simp, by intro r hr; simp at hr; subst hr; exact clean_val _⟩
  | coll k items ih =>
    intro h
    simp only [evalC]
    cases hr : evalCItems ctx items with
    | error x =>
      obtain ⟨kv, hm, hkv⟩ := evalCItems_error hr
      have := (ih kv hm (fun p hp => h p (by simpa [CExpr.bareRefs] using mem_bareRefsItems hm hp))).1
      refine ⟨?_, by simp⟩
      intro p hp; simp at hp; subst hp; exact this p hkv
    | ok pvs =>
      refine ⟨by simp, ?_⟩
      intro r hr'; simp at hr'; subst hr'
      intro q hq
      cases hq with
      | @coll _ _ pkv _ hpm hph =>
        obtain ⟨kv, hm, hkv⟩ := evalCItems_ok hr pkv hpm
        exact (ih kv hm (fun p hp => h p (by simpa [CExpr.bareRefs] using mem_bareRefsItems hm hp))).2 _ hkv q hph
  | len e ih =>
    intro h
    have := ih (by simpa [CExpr.bareRefs] using h)
    simp only [evalC]
    cases he : evalC ctx e with
    | error x => exact ⟨by intro p hp; simp at hp; subst hp; exact this.1 p he, by simp⟩
    | ok pv => exact quiet_len (this.2 pv he)
  | first e ih =>
    intro h
    have := ih (by simpa [CExpr.bareRefs] using h)
    simp only [evalC]
    cases he : evalC ctx e with
    | error x => exact ⟨by intro p hp; simp at hp; subst hp; exact this.1 p he, by simp⟩
    | ok pv => exact quiet_first (this.2 pv he)
  | last e ih =>
    intro h
    have := ih (by simpa [CExpr.bareRefs] using h)
    simp only [evalC]
    cases he : evalC ctx e with
    | error x => exact ⟨by intro p hp; simp at hp; subst hp; exact this.1 p he, by simp⟩
    | ok pv => exact quiet_last (this.2 pv he)
  | index e i ih =>
    intro h
    have := ih (by simpa [CExpr.bareRefs] using h)
    simp only [evalC]
    cases he : evalC ctx e with
    | error x => exact ⟨by intro p hp; simp at hp; subst hp; exact this.1 p he, by simp⟩
    | ok pv => exact quiet_index i (this.2 pv he)
  | join s e ih =>
    intro h
    have := ih (by simpa [CExpr.bareRefs] using h)
    simp only [evalC]
    cases he : evalC ctx e with
    | error x => exact ⟨by intro p hp; simp at hp; subst hp; exact this.1 p he, by simp⟩
    | ok pv => exact quiet_join s (this.2 pv he)

theorem namesUndef_false_iff {ctx : Ctx} {e : CExpr} :
    NamesUndef ctx e = false ↔ ∀ p ∈ e.bareRefs, Defined ctx p := by
  simp [NamesUndef, definedB_iff]

theorem findUndef_none_iff_clean (pv : PVal) : pv.findUndef = none ↔ Clean pv := by
  constructor
  · intro h q hq
    have := holds_findUndef hq
    rw [h] at this; cases this
  · intro h
    cases hf : pv.findUndef with
    | none => rfl
    | some q => exact absurd (findUndef_holds pv q hf) (h q)

/-- **defined_exact through the consumers (c)**: an expression that names no undefined
reference uses none -/
theorem used_names {ctx : Ctx} {e : CExpr} (h : UsedUndef ctx e = true) : NamesUndef ctx e = true := by
  cases hn : NamesUndef ctx e with
  | true => rfl
  | false =>
    have q := quiet_of_defined e (namesUndef_false_iff.mp hn)
    unfold UsedUndef at h
    cases he : evalC ctx e with
    | error x =>
      rw [he] at h
      cases x with
      | undefined p => exact absurd he (q.1 p)
      | _ => simp at h
    | ok pv =>
      rw [he] at h
      simp only at h
      rw [(findUndef_none_iff_clean pv).mpr (q.2 pv he)] at h
      cases h

/-- what an unused expression is: it evaluates, to a value without `Undefined` objects -/
theorem unused_clean {ctx : Ctx} {e : CExpr} (hu : UsedUndef ctx e = false)
    (hoff : OffFragment ctx e = false) : ∃ pv, evalC ctx e = .ok pv ∧ Clean pv := by
  unfold UsedUndef at hu
  unfold OffFragment at hoff
  cases he : evalC ctx e with
  | error x => rw [he] at hu hoff; cases x <;> simp at hu hoff
  | ok pv =>
    rw [he] at hu
    refine ⟨pv, rfl, (findUndef_none_iff_clean pv).mp ?_⟩
    cases hf : pv.findUndef with
    | none => rfl
    | some q => simp [hf] at hu

theorem used_not_off {ctx : Ctx} {e : CExpr} (hu : UsedUndef ctx e = true) : OffFragment ctx e = false := by
  unfold UsedUndef at hu
  unfold OffFragment
  cases he : evalC ctx e with
  | error x => rw [he] at hu; cases x <;> simp at hu ⊢
  | ok pv => rfl

/-- **render_error_iff_used, `{{ e ~ f }}`** (both operands inside the fragment) -/
theorem render_error_iff_used_cat (ctx : Ctx) (e f : CExpr)
    (he : OffFragment ctx e = false) (hf : OffFragment ctx f = false) :
    (∃ p, renderC .strict ctx e (some f) = .error (.undefined p)) ↔
      (UsedUndef ctx e = true ∨ UsedUndef ctx f = true) := by
  cases hee : evalC ctx e with
  | error x =>
    cases x <;> simp [OffFragment, hee] at he <;> simp [renderC, UsedUndef, hee]
  | ok a =>
    cases hff : evalC ctx f with
    | error x =>
      cases x <;> simp [OffFragment, hff] at hf <;> simp [renderC, UsedUndef, hee, hff]
    | ok b =>
      have h1 := str_error_iff_findUndef a
      have h2 := str_error_iff_findUndef b
      simp only [renderC, UsedUndef, hee, hff]
      rw [← h1, ← h2]
      cases ha : a.str .strict with
      | error x =>
        obtain ⟨p, rfl⟩ := str_error_is_undefined ha
        simp
      | ok sa =>
        cases hb : b.str .strict with
        | error x =>
          obtain ⟨p, rfl⟩ := str_error_is_undefined hb
          simp
        | ok sb => simp

/-- **render_error_iff_used, native `{@ e @}`**: the wrapper's search fails on exactly the same
expressions as the printer -/
theorem native_error_iff_used (ctx : Ctx) (l r : Str) (e : CExpr) :
    (∃ p, renderSrc Conf.repo ctx (.natC l e r) = .error (.undefined p)) ↔ UsedUndef ctx e = true := by
  unfold UsedUndef
  simp only [renderSrc]
  cases he : evalC ctx e with
  | error x => cases x <;> simp
  | ok pv =>
    simp only [Conf.search, Conf.repo]
    cases hf : pv.findUndef with
    | none => simp
    | some q => simp

/-- **silent_iff_dropped** = F-C16-d's trigger as a theorem: inside the fragment, `{{ e }}` is
DELIVERED iff no undefined reference of `e` is used — every `Undefined` object that `e` makes
was counted, dropped or selected away — and then what is delivered is exactly the text of the
(undefined-free) value, natively the value itself. -/
theorem silent_iff_dropped (ctx : Ctx) (e : CExpr) (hoff : OffFragment ctx e = false) :
    (∃ s, renderC .strict ctx e none = .ok s) ↔ UsedUndef ctx e = false := by
  constructor
  · rintro ⟨s, hs⟩
    cases hu : UsedUndef ctx e with
    | false => rfl
    | true =>
      obtain ⟨p, hp⟩ := (render_error_iff_used ctx e).mpr hu
      rw [hp] at hs; cases hs
  · intro hu
    obtain ⟨pv, hpv, hc⟩ := unused_clean hu hoff
    exact ⟨pv.strL, by simp [renderC, hpv, clean_str .strict hc]⟩

theorem unused_exact (cf : Conf) (pol : Policy) {ctx : Ctx} {e : CExpr} (l r : Str)
    (hu : UsedUndef ctx e = false) (hoff : OffFragment ctx e = false) :
    ∃ pv, evalC ctx e = .ok pv ∧ Clean pv ∧ renderC pol ctx e none = .ok pv.strL ∧
      renderSrc cf ctx (.natC l e r) = .ok (.pvalue pv) := by
  obtain ⟨pv, hpv, hc⟩ := unused_clean hu hoff
  have hn := (findUndef_none_iff_clean pv).mpr hc
  have ht : pv.topUndef = none := by
    cases pv with
    | undef p => exact absurd .undef (hc p)
    | val v => rfl
    | num n => rfl
    | coll k items => rfl
  have hs : cf.search pv = none := by
    unfold Conf.search; split
    · split <;> assumption
    · rfl
  have ho : pv.out = .pvalue pv := by
    cases pv with
    | undef p => exact absurd .undef (hc p)
    | val v => simp [PVal.out, hn]
    | num n => simp [PVal.out, hn]
    | coll k items => simp [PVal.out, hn]
  exact ⟨pv, hpv, hc, by simp [renderC, hpv, clean_str pol hc], by simp [renderSrc, hpv, hs, ho]⟩

/-! ### `UsedUndef` read structurally: the laws of counting, storing and selecting -/

/-- evaluating `e` fails on an undefined object -/
def Raises (ctx : Ctx) (e : CExpr) : Bool :=
  match evalC ctx e with
  | .error (.undefined _) => true
  | _ => false

/-- `e` evaluates to the bare `Undefined` object -/
def BareUndef (ctx : Ctx) (e : CExpr) : Bool :=
  match evalC ctx e with
  | .ok (.undef _) => true
  | _ => false

theorem used_ref (ctx : Ctx) (p : Path) : UsedUndef ctx (.ref p) = !definedB ctx p := by
  unfold UsedUndef definedB
  cases h : resolve ctx p <;> simp [evalC, h, PVal.findUndef]

theorem used_dflt (ctx : Ctx) (x d : Str) : UsedUndef ctx (.dflt x d) = false := by
  unfold UsedUndef
  cases h : ctx.lookup x <;> simp [evalC, h, PVal.findUndef]

/-- **counting law**: `e|length` uses an undefined reference only if `e` itself fails or IS the
undefined object — never because of what the counted container HOLDS -/
theorem used_len (ctx : Ctx) (e : CExpr) :
    UsedUndef ctx (.len e) = (Raises ctx e || BareUndef ctx e) := by
  unfold UsedUndef Raises BareUndef
  simp only [evalC]
  cases he : evalC ctx e with
  | error x => cases x <;> simp
  | ok pv =>
    cases pv with
    | val v => cases v <;> simp [PVal.len, PVal.elems, PVal.findUndef]
    | undef p => simp [PVal.len, PVal.elems]
    | num n => simp [PVal.len, PVal.elems]
    | coll k items => cases k <;> simp [PVal.len, PVal.elems, PVal.findUndef]

/-- **storing law**: a container literal (inside the fragment) uses an undefined reference iff
one of its items does -/
theorem used_coll (ctx : Ctx) (k : CKind) (items : List (Str × CExpr))
    (hoff : OffFragment ctx (.coll k items) = false) :
    UsedUndef ctx (.coll k items) = items.any fun kv => UsedUndef ctx kv.2 := by
  induction items with
  | nil => simp [UsedUndef, evalC, evalCItems, PVal.findUndef, findUndefItems]
  | cons a rest ih =>
    obtain ⟨key, e⟩ := a
    simp only [List.any_cons]
    cases he : evalC ctx e with
    | error x =>
      cases x <;> simp [OffFragment, evalC, evalCItems, he] at hoff <;>
        simp [UsedUndef, evalC, evalCItems, he]
    | ok pv =>
      cases hr : evalCItems ctx rest with
      | error x =>
        have hoff' : OffFragment ctx (.coll k rest) = false := by
          cases x <;> simp [OffFragment, evalC, evalCItems, he, hr] at hoff ⊢
        rw [← ih hoff']
        cases x <;> simp [OffFragment, evalC, evalCItems, he, hr] at hoff <;>
          simp [UsedUndef, evalC, evalCItems, he, hr]
      | ok pvs =>
        have hoff' : OffFragment ctx (.coll k rest) = false := by
          simp [OffFragment, evalC, hr]
        rw [← ih hoff']
        simp only [UsedUndef, evalC, evalCItems, he, hr, PVal.findUndef, findUndefItems]
        cases pv.findUndef <;> simp

/-- evaluating the items fails on an undefined object -/
def RaisesItems (ctx : Ctx) (items : List (Str × CExpr)) : Bool :=
  match evalCItems ctx items with
  | .error (.undefined _) => true
  | _ => false

/-- **selecting law**: `[x, …]|first` (list or tuple literal, inside the fragment) uses an
undefined reference iff the SELECTED item does, or evaluating one of the others fails — what the
other items merely HOLD is dropped (`{{ [a, nope]|first }}` = `A`) -/
theorem used_first_cons (ctx : Ctx) (k : CKind) (key : Str) (x : CExpr) (rest : List (Str × CExpr))
    (hk : k = .list ∨ k = .tuple)
    (hoff : OffFragment ctx (.coll k ((key, x) :: rest)) = false) :
    UsedUndef ctx (.first (.coll k ((key, x) :: rest))) = (UsedUndef ctx x || RaisesItems ctx rest) := by
  cases hx : evalC ctx x with
  | error e =>
    cases e <;> simp [OffFragment, evalC, evalCItems, hx] at hoff <;>
      simp [UsedUndef, evalC, evalCItems, hx]
  | ok pv =>
    cases hr : evalCItems ctx rest with
    | error e =>
      cases e <;> simp [OffFragment, evalC, evalCItems, hx, hr] at hoff <;>
        simp [UsedUndef, RaisesItems, evalC, evalCItems, hx, hr]
    | ok pvs =>
      rcases hk with rfl | rfl <;>
        simp [UsedUndef, RaisesItems, evalC, evalCItems, hx, hr, PVal.first, PVal.elems, CKind.norm]

/-- **keys law**: a dict literal is consumed through its KEYS: `{'k': v, …}|first` never uses
what the values hold (`{{ {'k': nope}|first }}` = `k`) -/
theorem used_first_dict (ctx : Ctx) (k : CKind) (items : List (Str × CExpr))
    (hk : k = .dict ∨ k = .dictCall) (hoff : OffFragment ctx (.first (.coll k items)) = false) :
    UsedUndef ctx (.first (.coll k items)) = RaisesItems ctx items := by
  cases hr : evalCItems ctx items with
  | error e => cases e <;> simp [UsedUndef, RaisesItems, evalC, hr]
  | ok pvs =>
    cases pvs with
    | nil => rcases hk with rfl | rfl <;> simp [OffFragment, evalC, hr, PVal.first, PVal.elems, CKind.norm] at hoff
    | cons a r =>
      rcases hk with rfl | rfl <;>
        simp [UsedUndef, RaisesItems, evalC, hr, PVal.first, PVal.elems, CKind.norm, PVal.findUndef]

/-! ### the consumer-free fragment: `UsedUndef` is `Stored ∧ ¬ Defined` (corollary a) -/

theorem evalC_toC (ctx : Ctx) (e : Expr) : evalC ctx e.toC = evalE ctx e := by
  exact Expr.rec (motive_1 := fun e => evalC ctx e.toC = evalE ctx e)
    (motive_2 := fun items => evalCItems ctx (itemsToC items) = evalItems ctx items)
    (motive_3 := fun kv => evalC ctx kv.2.toC = evalE ctx kv.2)
    (fun p => by simp [Expr.toC, evalC, evalE]) (fun x d => by simp [Expr.toC, evalC, evalE])
    (fun k items ih => by simp [Expr.toC, evalC, evalE, ih])
    (by simp [itemsToC, evalCItems, evalItems])
    (fun hd tl h1 h2 => by
      obtain ⟨k, e⟩ := hd
      simp only at h1
      simp [itemsToC, evalCItems, evalItems, h1, h2])
    (fun k e h => h) e

/-- the consumer expressions extend the old fragment conservatively -/
theorem renderC_toC (pol : Policy) (ctx : Ctx) (e : Expr) :
    renderC pol ctx e.toC none = renderT pol ctx (.expr e none) := by
  simp [renderC, renderT, evalC_toC]

/-- **without consumers nothing is dropped**: `UsedUndef` is exactly "stores a reference the
context does not define" — so `undefined_is_error` on the consumer-free fragment is the special
case of `render_error_iff_used` -/
theorem used_consumer_free_iff (ctx : Ctx) (e : Expr) :
    UsedUndef ctx e.toC = true ↔ ∃ p, Stored e p ∧ ¬ Defined ctx p := by
  unfold UsedUndef
  rw [evalC_toC]
  cases he : evalE ctx e with
  | error x =>
    obtain ⟨p, hs, hd, rfl⟩ := evalE_error_cause e x he
    simp only [true_iff]
    exact ⟨p, hs, hd⟩
  | ok pv =>
    simp only
    constructor
    · intro h
      obtain ⟨q, hq⟩ := Option.isSome_iff_exists.mp h
      exact ⟨q, evalE_holds_cause e pv q he (findUndef_holds pv q hq)⟩
    · rintro ⟨p, hs, hd⟩
      rcases stored_undefined hs hd with ⟨x, hx⟩ | ⟨pv', hpv, hh⟩
      · rw [he] at hx; cases hx
      · rw [he] at hpv; simp at hpv; subst hpv
        exact holds_findUndef hh

theorem undefined_is_error_consumer_free {ctx : Ctx} {e : Expr} {p : Path}
    (h : Stored e p) (hu : ¬ Defined ctx p) :
    ∃ q, renderC .strict ctx e.toC none = .error (.undefined q) :=
  (render_error_iff_used ctx e.toC).mpr ((used_consumer_free_iff ctx e).mpr ⟨p, h, hu⟩)

/-! ### kernel-checked witnesses: the shapes of F-C16-d, and their USED counterparts -/

def cA : Ctx := [("a".toList, .str "A".toList)]
def rA : CExpr := .ref ⟨"a".toList, []⟩
def rN : CExpr := .ref ⟨"nope".toList, []⟩
def lst (xs : List CExpr) : CExpr := .coll .list (xs.map fun x => ([], x))

/-- `{{ [nope]|length }}` = `1`, `{{ [a, nope]|first }}` = `A`, `{{ [nope, a]|last }}` = `A`,
`{{ [a, nope][0] }}` = `A`, `{{ {'k': nope}|length }}` = `1`, `{{ {'k': nope}|first }}` = `k`,
`{{ [[a, nope]|length] }}` = `[2]`, `{{ [[nope], a]|first|length }}` = `1`: each NAMES an
undefined reference, USES none, and is delivered — F-C16-d -/
theorem f_c16_d_shapes :
    (renderC .strict cA (.len (lst [rN])) none = .ok "1".toList ∧
      NamesUndef cA (.len (lst [rN])) = true ∧ UsedUndef cA (.len (lst [rN])) = false) ∧
    (renderC .strict cA (.first (lst [rA, rN])) none = .ok "A".toList ∧
      NamesUndef cA (.first (lst [rA, rN])) = true ∧ UsedUndef cA (.first (lst [rA, rN])) = false) ∧
    (renderC .strict cA (.last (lst [rN, rA])) none = .ok "A".toList ∧
      UsedUndef cA (.last (lst [rN, rA])) = false) ∧
    (renderC .strict cA (.index (lst [rA, rN]) 0) none = .ok "A".toList ∧
      UsedUndef cA (.index (lst [rA, rN]) 0) = false) ∧
    (renderC .strict cA (.len (.coll .dict [("k".toList, rN)])) none = .ok "1".toList ∧
      UsedUndef cA (.len (.coll .dict [("k".toList, rN)])) = false) ∧
    (renderC .strict cA (.first (.coll .dict [("k".toList, rN)])) none = .ok "k".toList ∧
      UsedUndef cA (.first (.coll .dict [("k".toList, rN)])) = false) ∧
    (renderC .strict cA (lst [.len (lst [rA, rN])]) none = .ok "[2]".toList ∧
      UsedUndef cA (lst [.len (lst [rA, rN])]) = false) ∧
    (renderC .strict cA (.len (.first (lst [lst [rN], rA]))) none = .ok "1".toList ∧
      UsedUndef cA (.len (.first (lst [lst [rN], rA]))) = false) := by decide

/-- native: `{@ [nope, a]|length @}` hands over the number 2 -/
theorem f_c16_d_shape_native :
    (match renderSrc Conf.repo cA (.natC " ".toList (.len (lst [rN, rA])) " ".toList) with
      | .ok (.pvalue (.num 2)) => true
      | _ => false) = true ∧
    NamesUndef cA (.len (lst [rN, rA])) = true ∧ UsedUndef cA (.len (lst [rN, rA])) = false := by decide

/-- the USED counterparts are errors: `{{ [nope, a]|first }}`, `{{ [a, nope]|last }}`,
`{{ [a, nope][1] }}`, `{{ [a, nope]|join('-') }}`, `{{ [a, [nope]]|join('-') }}`,
`{{ [[nope], a]|first }}`, `{{ nope|length }}` -/
theorem used_shapes :
    renderC .strict cA (.first (lst [rN, rA])) none = .error (.undefined ⟨"nope".toList, []⟩) ∧
    renderC .strict cA (.last (lst [rA, rN])) none = .error (.undefined ⟨"nope".toList, []⟩) ∧
    renderC .strict cA (.index (lst [rA, rN]) 1) none = .error (.undefined ⟨"nope".toList, []⟩) ∧
    renderC .strict cA (.join "-".toList (lst [rA, rN])) none = .error (.undefined ⟨"nope".toList, []⟩) ∧
    renderC .strict cA (.join "-".toList (lst [rA, lst [rN]])) none = .error (.undefined ⟨"nope".toList, []⟩) ∧
    renderC .strict cA (.first (lst [lst [rN], rA])) none = .error (.undefined ⟨"nope".toList, []⟩) ∧
    renderC .strict cA (.len rN) none = .error (.undefined ⟨"nope".toList, []⟩) ∧
    UsedUndef cA (.first (lst [rN, rA])) = true ∧ UsedUndef cA (.join "-".toList (lst [rA, rN])) = true ∧
    UsedUndef cA (.len rN) = true := by decide

/-- defined and `default`-protected twins are delivered exactly -/
example :
    renderC .strict cA (.join "-".toList (lst [rA, lst [rA]])) none = .ok "A-['A']".toList ∧
    renderC .strict cA (.first (lst [.dflt "nope".toList "d".toList, rA])) none = .ok "d".toList ∧
    renderC .strict cA (.len (lst [rA, rA])) (some (.last (lst [rA]))) = .ok "2A".toList := by decide

/-- **the hypothesis "inside the fragment" of `silent_iff_dropped` is needed**: `{{ []|first }}`
uses no undefined reference and still is not delivered (Jinja: an `Undefined` object made by the
filter itself — no variable is named) -/
theorem needs_in_fragment :
    renderC .strict cA (.first (lst [])) none = .error .noElement ∧
    UsedUndef cA (.first (lst [])) = false ∧ OffFragment cA (.first (lst [])) = true ∧
    NamesUndef cA (.first (lst [])) = false := by decide

/-- non-vacuity of `render_error_iff_used_cat`: `{{ a ~ [a, nope]|first }}` is delivered,
`{{ [a, nope]|length ~ [nope]|last }}` is not -/
example :
    renderC .strict cA rA (some (.first (lst [rA, rN]))) = .ok "AA".toList ∧
    OffFragment cA rA = false ∧ OffFragment cA (.first (lst [rA, rN])) = false ∧
    renderC .strict cA (.len (lst [rA, rN])) (some (.last (lst [rN])))
      = .error (.undefined ⟨"nope".toList, []⟩) := by decide

/-! ### the remaining laws: joining, indexing, `last`, dict keys; consumers only drop -/
theorem joinStrs_used (sep : Str) (pvs : List (Str × PVal)) :
    (match joinStrs sep (pvs.map Prod.snd) with
      | .error (.undefined _) => true
      | .error _ => false
      | .ok _ => false) = (findUndefItems pvs).isSome := by
  induction pvs with
  | nil => simp [joinStrs, findUndefItems]
  | cons a rest ih =>
    obtain ⟨key, pv⟩ := a
    simp only [List.map_cons, joinStrs, findUndefItems]
    cases hs : pv.str .strict with
    | error x =>
      obtain ⟨p, rfl⟩ := str_error_is_undefined hs
      have := (str_error_iff_findUndef pv).mp ⟨_, hs⟩
      obtain ⟨q, hq⟩ := Option.isSome_iff_exists.mp this
      simp [hq]
    | ok s =>
      have hn : pv.findUndef = none := by
        cases hf : pv.findUndef with
        | none => rfl
        | some q =>
          obtain ⟨x, hx⟩ := (str_error_iff_findUndef pv).mpr (by simp [hf])
          rw [hs] at hx; cases hx
      simp only [hn]
      rw [← ih]
      cases hj : joinStrs sep (rest.map Prod.snd) with
      | error x => cases x <;> simp
      | ok r => simp

/-- **joining law**: `[…]|join('sep')` over a list / tuple literal uses an undefined reference
iff one of its items does — every element is printed, nothing is dropped -/
theorem used_join_coll (ctx : Ctx) (sep : Str) (k : CKind) (items : List (Str × CExpr))
    (hk : k = .list ∨ k = .tuple) (hoff : OffFragment ctx (.join sep (.coll k items)) = false) :
    UsedUndef ctx (.join sep (.coll k items)) = items.any fun kv => UsedUndef ctx kv.2 := by
  have hoff' : OffFragment ctx (.coll k items) = false := by
    cases hr : evalCItems ctx items with
    | error x => cases x <;> simp [OffFragment, evalC, hr] at hoff ⊢
    | ok pvs => simp [OffFragment, evalC, hr]
  rw [← used_coll ctx k items hoff']
  cases hr : evalCItems ctx items with
  | error x => cases x <;> simp [UsedUndef, evalC, hr]
  | ok pvs =>
    have := joinStrs_used sep pvs
    rcases hk with rfl | rfl <;>
      simp only [UsedUndef, evalC, hr, PVal.join, PVal.elems, CKind.norm, PVal.findUndef, ← this] <;>
      (cases hj : joinStrs sep (pvs.map Prod.snd) with
        | error x => cases x <;> simp
        | ok r => simp [PVal.findUndef])

theorem evalCItems_getElem {ctx : Ctx} {items : List (Str × CExpr)} {pvs : List (Str × PVal)}
    (h : evalCItems ctx items = .ok pvs) (i : Nat) :
    ((pvs[i]?).map fun pkv => pkv.2.findUndef.isSome) = ((items[i]?).map fun kv => UsedUndef ctx kv.2) := by
  induction items generalizing pvs i with
  | nil => simp [evalCItems] at h; subst h; simp
  | cons a rest ih =>
    obtain ⟨k, e⟩ := a
    simp only [evalCItems] at h
    cases he : evalC ctx e with
    | error y => rw [he] at h; cases h
    | ok pv =>
      rw [he] at h
      cases hr : evalCItems ctx rest with
      | error y => rw [hr] at h; cases h
      | ok ps =>
        rw [hr] at h; simp at h; subst h
        cases i with
        | zero => simp [UsedUndef, he]
        | succ j => simpa using ih hr j

/-- **indexing law**: `[…][i]` over a list / tuple literal uses an undefined reference iff the
item at `i` does, or evaluating one of the items fails — the other items are dropped -/
theorem used_index_coll (ctx : Ctx) (k : CKind) (items : List (Str × CExpr)) (i : Nat)
    (hk : k = .list ∨ k = .tuple) (hoff : OffFragment ctx (.index (.coll k items) i) = false) :
    UsedUndef ctx (.index (.coll k items) i) =
      (((items[i]?).map fun kv => UsedUndef ctx kv.2).getD false || RaisesItems ctx items) := by
  cases hr : evalCItems ctx items with
  | error x =>
    cases x <;> simp [OffFragment, evalC, hr] at hoff <;> simp [UsedUndef, RaisesItems, evalC, hr]
  | ok pvs =>
    rw [← evalCItems_getElem hr i]
    cases hi : pvs[i]? with
    | none =>
      rcases hk with rfl | rfl <;>
        simp [OffFragment, evalC, hr, PVal.index, PVal.elems, PVal.isDict, CKind.norm, hi] at hoff
    | some pkv =>
      rcases hk with rfl | rfl <;>
        simp [UsedUndef, RaisesItems, evalC, hr, PVal.index, PVal.elems, PVal.isDict, CKind.norm, hi]

theorem evalCItems_length {ctx : Ctx} {items : List (Str × CExpr)} {pvs : List (Str × PVal)}
    (h : evalCItems ctx items = .ok pvs) : pvs.length = items.length := by
  induction items generalizing pvs with
  | nil => simp [evalCItems] at h; subst h; rfl
  | cons a rest ih =>
    obtain ⟨k, e⟩ := a
    simp only [evalCItems] at h
    cases he : evalC ctx e with
    | error y => rw [he] at h; cases h
    | ok pv =>
      rw [he] at h
      cases hr : evalCItems ctx rest with
      | error y => rw [hr] at h; cases h
      | ok ps => rw [hr] at h; simp at h; subst h; simp [ih hr]

/-- **selecting law for `last`** -/
theorem used_last_coll (ctx : Ctx) (k : CKind) (items : List (Str × CExpr))
    (hk : k = .list ∨ k = .tuple) (hoff : OffFragment ctx (.last (.coll k items)) = false) :
    UsedUndef ctx (.last (.coll k items)) =
      (((items.getLast?).map fun kv => UsedUndef ctx kv.2).getD false || RaisesItems ctx items) := by
  cases hr : evalCItems ctx items with
  | error x =>
    cases x <;> simp [OffFragment, evalC, hr] at hoff <;> simp [UsedUndef, RaisesItems, evalC, hr]
  | ok pvs =>
    have hl := evalCItems_length hr
    rw [List.getLast?_eq_getElem?, ← hl, ← evalCItems_getElem hr (pvs.length - 1)]
    have hg : (pvs.map Prod.snd).getLast? = (pvs[pvs.length - 1]?).map Prod.snd := by
      rw [List.getLast?_eq_getElem?]; simp
    cases hi : pvs[pvs.length - 1]? with
    | none =>
      rcases hk with rfl | rfl <;>
        simp [OffFragment, evalC, hr, PVal.last, PVal.elems, CKind.norm, hg, hi] at hoff
    | some pkv =>
      rcases hk with rfl | rfl <;>
        simp [UsedUndef, RaisesItems, evalC, hr, PVal.last, PVal.elems, CKind.norm, hg, hi]

/-- **keys law for `last` and `join`**: a dict literal is consumed through its keys -/
theorem used_last_dict (ctx : Ctx) (k : CKind) (items : List (Str × CExpr))
    (hk : k = .dict ∨ k = .dictCall) (hoff : OffFragment ctx (.last (.coll k items)) = false) :
    UsedUndef ctx (.last (.coll k items)) = RaisesItems ctx items := by
  cases hr : evalCItems ctx items with
  | error e => cases e <;> simp [UsedUndef, RaisesItems, evalC, hr]
  | ok pvs =>
    cases hg : (pvs.map fun kv => PVal.val (.str kv.1)).getLast? with
    | none =>
      rcases hk with rfl | rfl <;>
        simp [OffFragment, evalC, hr, PVal.last, PVal.elems, CKind.norm, hg] at hoff
    | some x =>
      have hx : x.findUndef = none := by
        have := List.mem_of_getLast? hg
        simp at this
        obtain ⟨a, b, _, rfl⟩ := this
        rfl
      rcases hk with rfl | rfl <;>
        simp [UsedUndef, RaisesItems, evalC, hr, PVal.last, PVal.elems, CKind.norm, hg, hx]

theorem used_join_dict (ctx : Ctx) (sep : Str) (k : CKind) (items : List (Str × CExpr))
    (hk : k = .dict ∨ k = .dictCall) :
    UsedUndef ctx (.join sep (.coll k items)) = RaisesItems ctx items := by
  cases hr : evalCItems ctx items with
  | error e => cases e <;> simp [UsedUndef, RaisesItems, evalC, hr]
  | ok pvs =>
    obtain ⟨s, hs⟩ := joinStrs_clean sep (xs := pvs.map fun kv => PVal.val (.str kv.1))
      (by intro x hx; simp at hx; obtain ⟨a, b, _, rfl⟩ := hx; exact clean_val _)
    rcases hk with rfl | rfl <;>
      simp [UsedUndef, RaisesItems, evalC, hr, PVal.join, PVal.elems, CKind.norm, hs, PVal.findUndef]

/-- **a consumer never CREATES a use**: if `e|length`, `e|first`, `e|last`, `e[i]` or
`e|join(sep)` (inside the fragment) uses an undefined reference, `e` already does — consumers
only DROP uses, which is why F-C16-d goes one way only -/
theorem consumer_used_mono (ctx : Ctx) (e : CExpr) (hu : UsedUndef ctx e = false) :
    (OffFragment ctx (.len e) = false → UsedUndef ctx (.len e) = false) ∧
    (OffFragment ctx (.first e) = false → UsedUndef ctx (.first e) = false) ∧
    (OffFragment ctx (.last e) = false → UsedUndef ctx (.last e) = false) ∧
    (∀ i, OffFragment ctx (.index e i) = false → UsedUndef ctx (.index e i) = false) ∧
    (∀ sep, OffFragment ctx (.join sep e) = false → UsedUndef ctx (.join sep e) = false) := by
  have key : ∀ (op : PVal → Except Err PVal), (∀ pv, Clean pv → Quiet (op pv)) →
      ∀ e', (evalC ctx e' = match evalC ctx e with | .error x => .error x | .ok pv => op pv) →
      OffFragment ctx e' = false → UsedUndef ctx e' = false := by
    intro op hop e' heq hoff
    cases he : evalC ctx e with
    | error x =>
      rw [he] at heq
      cases x <;> simp [UsedUndef, he] at hu <;> simp [UsedUndef, OffFragment, heq] at hoff ⊢
    | ok pv =>
      rw [he] at heq
      have hc : Clean pv := by
        apply (findUndef_none_iff_clean pv).mp
        cases hf : pv.findUndef with
        | none => rfl
        | some q => simp [UsedUndef, he, hf] at hu
      have q := hop pv hc
      simp only at heq
      unfold UsedUndef
      rw [heq]
      cases hr : op pv with
      | error x =>
        cases x with
        | undefined p => exact absurd hr (q.1 p)
        | _ => rfl
      | ok r => simp [(findUndef_none_iff_clean r).mpr (q.2 r hr)]
  exact ⟨key _ (fun _ => quiet_len) _ (by simp only [evalC]; cases evalC ctx e <;> rfl),
    key _ (fun _ => quiet_first) _ (by simp only [evalC]; cases evalC ctx e <;> rfl),
    key _ (fun _ => quiet_last) _ (by simp only [evalC]; cases evalC ctx e <;> rfl),
    fun i => key _ (fun _ => quiet_index i) _ (by simp only [evalC]; cases evalC ctx e <;> rfl),
    fun sep => key _ (fun _ => quiet_join sep) _ (by simp only [evalC]; cases evalC ctx e <;> rfl)⟩

/-! ### not proved -/

/-- NOT proved: a closed syntactic recursion for `UsedUndef`.  The laws above (`used_ref`,
`used_dflt`, `used_len`, `used_coll`, `used_first_cons`, `used_last_coll`, `used_index_coll`,
`used_join_coll`, `used_first_dict`, `used_last_dict`, `used_join_dict`) rewrite every consumer
applied DIRECTLY to a literal and `consumer_used_mono` bounds the rest; the exact law for a
consumer applied to another consumer's RESULT is missing — its first instance: -/
def selecting_composes_full : Prop :=
  ∀ (ctx : Ctx) (k k' : CKind) (key key' : Str) (x : CExpr) (r rest : List (Str × CExpr)),
    (k = .list ∨ k = .tuple) → (k' = .list ∨ k' = .tuple) →
    OffFragment ctx (.coll k ((key, .coll k' ((key', x) :: r)) :: rest)) = false →
    UsedUndef ctx (.first (.first (.coll k ((key, .coll k' ((key', x) :: r)) :: rest)))) =
      (UsedUndef ctx x || RaisesItems ctx r || RaisesItems ctx rest)
end Rpft.Props.C16
