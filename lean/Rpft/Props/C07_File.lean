/-
C07, the file clause (`RowDataSheet.export` file re-read by a sheet reader) — CSV route.

`RowDataSheet.export(…, "csv")` writes tablib's CSV text with every carriage return removed
(`Csv.rdsExportCsv`).  Reading that text with the `csv.reader` model gives, for EVERY grid of cells that
fits the reader's field limit, exactly the grid with the CRs removed from every cell — so the file route
is the identity precisely on CR-free cells; finding F-C07-b is the other half of the equivalence.
-/
import Rpft.Lemmas.Csv
namespace Rpft.Props.C07File
open Rpft Rpft.Csv

deriving instance DecidableEq for Except

/-- every field fits the reader's field limit (`csv.field_size_limit()`) -/
def FieldsFit (limit : Nat) (recs : List (List Str)) : Prop := ∀ r ∈ recs, ∀ f ∈ r, f.length ≤ limit

instance (limit : Nat) (recs : List (List Str)) : Decidable (FieldsFit limit recs) := by
  unfold FieldsFit; infer_instance

def dropCrP (p : Bool × Str) : Bool × Str := (p.1, dropCr p.2)

theorem dropCr_append (a b : Str) : dropCr (a ++ b) = dropCr a ++ dropCr b := by
  simp [dropCr]

theorem dropCr_escape (f : Str) : dropCr (escape f) = escape (dropCr f) := by
  induction f with
  | nil => rfl
  | cons c f ih =>
    by_cases hq : c = '"'
    · subst hq
      have : dropCr ('"' :: f) = '"' :: dropCr f := by simp [dropCr]
      rw [this, escape_cons, escape_cons]
      simp only [if_true]
      simp [dropCr] at ih ⊢
      exact ih
    · by_cases hr : c = '\r'
      · subst hr
        have : dropCr ('\r' :: f) = dropCr f := by simp [dropCr]
        rw [this, escape_cons]
        simp [dropCr] at ih ⊢
        exact ih
      · have : dropCr (c :: f) = c :: dropCr f := by simp [dropCr, hr]
        rw [this, escape_cons, escape_cons]
        simp only [hq, if_false]
        simp [dropCr, hr] at ih ⊢
        exact ih

theorem dropCr_encField (p : Bool × Str) : dropCr (encField p) = encField (dropCrP p) := by
  obtain ⟨q, f⟩ := p
  cases q
  · rfl
  · show dropCr ('"' :: (escape f ++ ['"'])) = '"' :: (escape (dropCr f) ++ ['"'])
    rw [← dropCr_escape]
    simp [dropCr]

theorem dropCr_encFields (ps : List (Bool × Str)) :
    dropCr (encFields ps) = encFields (ps.map dropCrP) := by
  induction ps with
  | nil => rfl
  | cons p ps ih =>
    cases ps with
    | nil => simpa [encFields] using dropCr_encField p
    | cons q ps =>
      simp only [encFields, List.map_cons] at ih ⊢
      rw [dropCr_append, dropCr_encField]
      have : dropCr (',' :: encFields (q :: ps)) = ',' :: dropCr (encFields (q :: ps)) := by simp [dropCr]
      rw [this, ih]

theorem dropCr_encRows (rs : List (List (Bool × Str))) :
    dropCr (encRows crlf rs) = encRows lf (rs.map (fun r => r.map dropCrP)) := by
  induction rs with
  | nil => rfl
  | cons r rs ih =>
    simp only [encRows, encRow, List.map_cons]
    rw [dropCr_append, dropCr_append, dropCr_encFields, ih]
    rfl

theorem dropCr_of_plain (f : Str) (h : Plain f) : dropCr f = f := by
  unfold dropCr
  rw [List.filter_eq_self]
  intro c hc
  have := (h c hc).2.2.1
  simp [this]

theorem dropCr_length_le (f : Str) : (dropCr f).length ≤ f.length := List.length_filter_le _ _

theorem validRow_dropCr (r : List (Bool × Str)) (h : ValidRow r) : ValidRow (r.map dropCrP) := by
  obtain ⟨hf, hne⟩ := h
  refine ⟨?_, ?_⟩
  · intro p hp
    simp only [List.mem_map] at hp
    obtain ⟨p0, hp0, rfl⟩ := hp
    rcases hf p0 hp0 with h1 | h1
    · exact Or.inl h1
    · refine Or.inr ?_
      show Plain (dropCr p0.2)
      rw [dropCr_of_plain _ h1]; exact h1
  · intro e
    cases r with
    | nil => simp at e
    | cons p tl =>
      cases tl with
      | cons q tl => simp at e
      | nil =>
        simp only [List.map_cons, List.map_nil, List.cons.injEq, and_true] at e
        obtain ⟨q, f⟩ := p
        simp only [dropCrP, Prod.mk.injEq] at e
        obtain ⟨hq, hf0⟩ := e
        subst hq
        rcases hf (false, f) (by simp) with h1 | h1
        · simp at h1
        · have : f = [] := by rw [← dropCr_of_plain f h1]; exact hf0
          subst this
          exact hne rfl

/-- **the CSV file route of `RowDataSheet.export`, for every grid**: what the CSV reader gets back from the
written text is the grid with the carriage returns removed from every cell, and nothing else changed —
separators, quotes, line feeds, blank cells, ragged records all survive. -/
theorem rds_csv_reads_back_without_cr (limit : Nat) (recs : List (List Str)) (hfit : FieldsFit limit recs) :
    parseCsvWith limit (rdsExportCsv recs) = .ok (recs.map (fun r => r.map dropCr)) := by
  unfold rdsExportCsv writeCsv
  rw [writeRows_eq, dropCr_encRows]
  have hv : ∀ r ∈ (recs.map (tagRow crlf false)).map (fun r => r.map dropCrP), ValidRow r := by
    intro r hr
    simp only [List.mem_map] at hr
    obtain ⟨r1, ⟨r0, hr0, rfl⟩, rfl⟩ := hr
    exact validRow_dropCr _ (tagRow_valid crlf false r0
      (fun f _ h => plain_of_not_needsQuote_crlf f (by simpa using h)))
  have hn : ∀ r ∈ (recs.map (tagRow crlf false)).map (fun r => r.map dropCrP), ∀ p ∈ r, p.2.length ≤ limit := by
    intro r hr p hp
    simp only [List.mem_map] at hr
    obtain ⟨r1, ⟨r0, hr0, rfl⟩, rfl⟩ := hr
    simp only [List.mem_map] at hp
    obtain ⟨p0, hp0, rfl⟩ := hp
    exact Nat.le_trans (dropCr_length_le _) (tagRow_len crlf false r0 limit (hfit r0 hr0) p0 hp0)
  rw [parse_encRows limit lf (Or.inr rfl) _ hv hn]
  congr 1
  simp only [List.map_map]
  apply List.map_congr_left
  intro r _
  show ((tagRow crlf false r).map dropCrP).map Prod.snd = r.map dropCr
  have : ((tagRow crlf false r).map dropCrP).map Prod.snd = ((tagRow crlf false r).map Prod.snd).map dropCr := by
    simp [List.map_map, Function.comp, dropCrP]
  rw [this, tagRow_snd]

/-- no carriage return in any cell -/
def CrFree (recs : List (List Str)) : Prop := ∀ r ∈ recs, ∀ f ∈ r, '\r' ∉ f

instance (recs : List (List Str)) : Decidable (CrFree recs) := by unfold CrFree; infer_instance

theorem dropCr_eq_self_iff (f : Str) : dropCr f = f ↔ '\r' ∉ f := by
  unfold dropCr
  rw [List.filter_eq_self]
  constructor
  · intro h hm; have := h _ hm; simp at this
  · intro h c hc
    have : c ≠ '\r' := fun e => h (e ▸ hc)
    simp [this]

theorem map_eq_self {α : Type} {g : α → α} : ∀ {l : List α}, l.map g = l → ∀ x ∈ l, g x = x
  | [], _, x, hx => by simp at hx
  | a :: l, h, x, hx => by
    simp only [List.map_cons, List.cons.injEq] at h
    rcases List.mem_cons.mp hx with e | e
    · subst e; exact h.1
    · exact map_eq_self h.2 x e

/-- **the exact criterion**: the CSV file route gives the grid back iff no cell holds a carriage return.
The "if" half is the property on its domain; the "only if" half is finding F-C07-b. -/
theorem rds_csv_roundtrip_iff (limit : Nat) (recs : List (List Str)) (hfit : FieldsFit limit recs) :
    parseCsvWith limit (rdsExportCsv recs) = .ok recs ↔ CrFree recs := by
  rw [rds_csv_reads_back_without_cr limit recs hfit]
  constructor
  · intro h r hr f hf
    have h1 : recs.map (fun r => r.map dropCr) = recs := by injection h
    have h2 : r.map dropCr = r := map_eq_self (g := fun r => r.map dropCr) h1 r hr
    exact (dropCr_eq_self_iff f).mp (map_eq_self h2 f hf)
  · intro h
    congr 1
    conv => rhs; rw [← List.map_id recs]
    apply List.map_congr_left
    intro r hr
    show r.map dropCr = r
    conv => rhs; rw [← List.map_id r]
    apply List.map_congr_left
    intro f hf
    exact (dropCr_eq_self_iff f).mpr (h r hr f hf)

/-- at the real field limit -/
theorem rds_csv_roundtrip (recs : List (List Str)) (hfit : FieldsFit fieldLimit recs) (hcr : CrFree recs) :
    parseCsv (rdsExportCsv recs) = .ok recs :=
  (rds_csv_roundtrip_iff fieldLimit recs hfit).mpr hcr

/-- the written text never holds a carriage return: records end in LF -/
theorem rds_csv_text_cr_free (recs : List (List Str)) : '\r' ∉ rdsExportCsv recs := by
  unfold rdsExportCsv dropCr
  intro h
  have := (List.mem_filter.mp h).2
  simp at this

/-- non-vacuity + F-C07-b, computed by the kernel: a grid with every special character survives except
for its CRs (the witness replayed on the real code by the harness: `M(a='x\ry', b='p\r\nq')`). -/
def gCr : List (List Str) :=
  [["a".toList, "b".toList], ["x\ry".toList, "p\r\nq".toList], ["say \"hi\", ok".toList, "l1\nl2".toList], [[], " ".toList]]

example : FieldsFit fieldLimit gCr ∧ ¬ CrFree gCr := by decide

theorem rds_csv_drops_cr_witness :
    rdsExportCsv gCr = "a,b\n\"xy\",\"p\nq\"\n\"say \"\"hi\"\", ok\",\"l1\nl2\"\n, \n".toList ∧
    parseCsv (rdsExportCsv gCr) =
      .ok [["a".toList, "b".toList], ["xy".toList, "p\nq".toList], ["say \"hi\", ok".toList, "l1\nl2".toList], [[], " ".toList]] := by
  decide

end Rpft.Props.C07File
