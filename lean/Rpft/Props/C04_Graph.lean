/-
C04 (graph level) — the sheet exporter `FlowContainer.to_rows` preserves the flow's GRAPH.

"Flow JSON → sheet → flow JSON preserves behaviour … same destinations, including joins and
cycles": here, for the exporter half, universally.  The sheet is READ as a graph the way the sheet
compiler resolves it (`Rpft/ExportGraph.lean`: an edge cell leaves the row named in `from` and enters
its own row; on a `go_to` row it enters the row named there; rows top to bottom, cells left to
right = the order in which a router gets its cases back), independently of the exporter, and the
theorems say that this graph is the flow's graph: for EVERY flow (any graph: joins, cycles, self
loops, several edges between the same nodes, unreachable nodes, duplicate uuids, exits that lead
nowhere), unbounded, by DFS invariants (`Rpft/Lemmas/ExportGraph*.lean`).

The exporter model `Rpft/Export.lean` is tied to the real `to_rows` on every generated flow by the
C17 check; the reading `edgesOfS` is tied to the real flow's edge list by the C04 check
(driver op `export.graph`).
-/
import Rpft.Lemmas.ExportGraphSorted
import Rpft.Lemmas.ExportGraphGroups
import Rpft.Props.C17
set_option linter.unusedSimpArgs false
set_option linter.unusedVariables false
namespace Rpft.Props.C04
open Rpft Rpft.Export

variable {U : Type} [DecidableEq U]

/-! ### (a) + (b) + (c): the sheet graph is the flow's reachable graph -/

/-- **Exporter correctness at the graph level.**  For every flow the exporter accepts there is an
order of the nodes (the sheet order) such that
1. it lists exactly the nodes REACHABLE from the first node, each once (by uuid), the first node first,
   every one with at least one row;
2. the node rows of the sheet (everything that is not a `go_to` row) are exactly the rows of these
   nodes, node after node, each node's rows consecutive and in order, with their content, `_nodeId`
   and `obj_id` (`nodeSig`);
3. as a multiset, the graph READ from the sheet consists of exactly: the `"start"` edge into the first
   row of the first node; inside each node the blank edge from row `i` to row `i+1` (`chain`: how
   the compiler merges / chains the rows of one node); and for each node and each exit
   `(label, some d)` ONE edge with that label from the node's LAST row to the FIRST row of the node
   `find_node d` (`exitsEdges`) — nothing else (no invented edge), nothing for an exit that leads
   nowhere;
4. every `go_to` row has exactly one edge and exactly one target, the first row of a reachable node. -/
theorem export_preserves_graph (f : FlowX U) (rows : List (RowT U)) (h : toRowsT f = .ok rows) :
    ∃ order : List (NodeX U),
      ((order.map (·.uuid)).Nodup ∧ (∀ m, m ∈ order ↔ Reach f m) ∧ order.head? = f.head? ∧ (∀ m ∈ order, m.rows ≠ [])) ∧
      nodeRowsT rows = order.flatMap nodeSig ∧
      (edgesOfT rows).Perm ((f.head?.map startEdge).toList ++ order.flatMap (fun n => chain n ++ exitsEdges f n)) ∧
      (∀ r ∈ rows, r.goto ≠ [] → ∃ k c e, r = gotoRow k c e ∧ Reach f c) := by
  by_cases hne : f = []
  · subst hne
    simp only [toRowsT, Except.ok.injEq] at h
    subst h
    refine ⟨[], ⟨by simp, ?_, rfl, by simp⟩, rfl, by simp [edgesOfT], by simp⟩
    intro m
    constructor
    · intro hm; cases hm
    · intro hr; exact absurd rfl hr.ne_nil
  · obtain ⟨n0, items, vis, sk⟩ := export_skeleton f rows h hne
    refine ⟨blockNodes items, ⟨sk.nodup, sk.reach, by rw [sk.order_head, sk.head], ?_⟩, sk.nodeRows, ?_, ?_⟩
    · intro m hm
      obtain ⟨es, hes⟩ := mem_blockNodes.1 hm
      exact (sk.inv.canonB m es hes).2
    · rw [sk.head]
      exact sk.perm
    · intro r hr hg
      rw [sk.rows_eq] at hr
      obtain ⟨it, hit, hrit⟩ := Skeleton.mem_render hr
      cases it with
      | goto k c e =>
        simp only [Item.render, List.mem_singleton] at hrit
        obtain ⟨hcc, hcv⟩ := sk.inv.canonG k c e hit
        exact ⟨k, c, e, hrit, (sk.reach c).1 (sk.completed_of_visited hcc hcv)⟩
      | block n es =>
        exfalso
        apply hg
        have : ∀ x ∈ nodeRowsT (blockRows n es), True := fun _ _ => trivial
        simp only [Item.render, blockRows] at hrit
        cases hrw : n.rows with
        | nil => simp [hrw] at hrit
        | cons x rest =>
          obtain ⟨p, o⟩ := x
          simp only [hrw, List.mem_cons] at hrit
          rcases hrit with h1 | h1
          · rw [h1]
          · obtain ⟨j, _, _, _, h4, _⟩ := Skeleton.mem_mkRowsFrom h1
            exact h4

/-- (a) the rows of a reachable node stand together, in order, with their content: `payloads_preserved` -/
theorem payloads_preserved (f : FlowX U) (rows : List (RowT U)) (h : toRowsT f = .ok rows) (n : NodeX U) (hn : Reach f n) :
    ∃ A B, nodeRowsT rows = A ++ nodeSig n ++ B ∧
      nodeSig n = n.rows.zipIdx.map (fun x => (rowId n x.2, some n.uuid, x.1.2, x.1.1)) ∧ n.rows ≠ [] := by
  obtain ⟨order, ⟨_, hreach, _, hrows⟩, hnr, _⟩ := export_preserves_graph f rows h
  have hm := (hreach n).2 hn
  obtain ⟨A, B, hAB⟩ := List.append_of_mem hm
  refine ⟨A.flatMap nodeSig, B.flatMap nodeSig, ?_, rfl, hrows n hm⟩
  rw [hnr, hAB]
  simp

/-- (a) a node that is not reachable from the first node has no row in the sheet -/
theorem unreachable_not_exported (f : FlowX U) (rows : List (RowT U)) (h : toRowsT f = .ok rows) (n : NodeX U)
    (hc : findNode f n.uuid = some n) (hn : ¬ Reach f n) : ∀ r ∈ rows, r.nodeId ≠ some n.uuid := by
  obtain ⟨order, ⟨_, hreach, _, _⟩, hnr, _, hgoto⟩ := export_preserves_graph f rows h
  intro r hr heq
  have hg : r.goto = [] := by
    by_cases hg : r.goto = []
    · exact hg
    · obtain ⟨k, c, e, hre, _⟩ := hgoto r hr hg
      rw [hre] at heq
      simp [gotoRow] at heq
  have hmem : (r.id, r.nodeId, r.objId, r.payload) ∈ nodeRowsT rows := by
    simp only [nodeRowsT, List.mem_map, List.mem_filter]
    exact ⟨r, ⟨hr, by simp [hg]⟩, rfl⟩
  rw [hnr] at hmem
  obtain ⟨m, hm, hsig⟩ := List.mem_flatMap.1 hmem
  simp only [nodeSig, List.mem_map] at hsig
  obtain ⟨x, _, hx⟩ := hsig
  have hu : some m.uuid = r.nodeId := by
    have := congrArg (fun t => t.2.1) hx
    simpa using this
  rw [heq, Option.some.injEq] at hu
  have hmr := (hreach m).1 hm
  exact hn (Canon.eq hmr.canon hc hu ▸ hmr)

/-- (b) **per node, as a multiset**: the edges that leave the last row of a reachable node `n` are,
one for one, the exits of `n` that lead somewhere — same label, into the FIRST row of the node
`find_node` returns for the destination (a `go_to` row is read through: `edgesOfT` enters the row it
names). -/
theorem out_edges_perm (f : FlowX U) (rows : List (RowT U)) (h : toRowsT f = .ok rows) (n : NodeX U) (hn : Reach f n) :
    (outOf (lastId n) (edgesOfT rows)).Perm (exitsEdges f n) := by
  obtain ⟨n0, items, vis, sk⟩ := export_skeleton f rows h hn.ne_nil
  have hp := (sk.perm.filter (fun e => decide (e.src = some (lastId n))))
  have h1 : (startEdge n0 :: (blockNodes items).flatMap (nodeOut f)).filter (fun e => decide (e.src = some (lastId n)))
      = exitsEdges f n := by
    have := sel_flatMap_nodeOut f (fun _ => true) sk.nodup ((sk.reach n).2 hn)
    simp only [sel, Bool.and_true] at this
    rw [List.filter_cons]
    simp [startEdge, this]
  rw [h1] at hp
  exact hp

/-- (b) every exit of a reachable node that leads somewhere leads to a node of the flow, which is
reachable and has a first row -/
theorem exit_target_exported (f : FlowX U) (rows : List (RowT U)) (h : toRowsT f = .ok rows) (n : NodeX U) (hn : Reach f n)
    (lab : Label) (d : U) (hd : (lab, some d) ∈ n.edges) :
    ∃ c, findNode f d = some c ∧ Reach f c ∧ firstId c ∈ rows.map (·.id) ∧
      (⟨some (lastId n), lab, firstId c⟩ : SEdge (TempId U)) ∈ edgesOfT rows := by
  obtain ⟨n0, items, vis, sk⟩ := export_skeleton f rows h hn.ne_nil
  obtain ⟨c, hc, _⟩ := sk.closed n ((sk.reach n).2 hn) lab d hd
  have hrc := Reach.step hn hd hc
  have hm := (sk.reach c).2 hrc
  obtain ⟨es, hes⟩ := mem_blockNodes.1 hm
  refine ⟨c, hc, hrc, sk.rowId_mem hm (List.length_pos_iff.2 (sk.inv.canonB c es hes).2), ?_⟩
  have hp := out_edges_perm f rows h n hn
  have : (⟨some (lastId n), lab, firstId c⟩ : SEdge (TempId U)) ∈ exitsEdges f n := by
    simp only [exitsEdges, loopEdges, List.mem_filterMap]
    exact ⟨(lab, some d), hd, by simp [exitEdge, hc]⟩
  have := hp.mem_iff.2 this
  simp only [outOf, List.mem_filter] at this
  exact this.1

/-- (c) **no invented edge**: every edge of the sheet is the `"start"` edge, a blank edge between two
consecutive rows of one reachable node, or the edge of an exit of a reachable node -/
theorem export_no_invented_edges (f : FlowX U) (rows : List (RowT U)) (h : toRowsT f = .ok rows) :
    ∀ e ∈ edgesOfT rows, (∃ n0, f.head? = some n0 ∧ e = startEdge n0) ∨
      ∃ n, Reach f n ∧ (e ∈ chain n ∨ e ∈ exitsEdges f n) := by
  obtain ⟨order, ⟨_, hreach, _, _⟩, _, hp, _⟩ := export_preserves_graph f rows h
  intro e he
  have := hp.mem_iff.1 he
  rcases List.mem_append.1 this with h1 | h1
  · left
    cases hh : f.head? with
    | none => simp [hh] at h1
    | some n0 => simp only [hh, Option.map_some, Option.toList, List.mem_singleton] at h1; exact ⟨n0, rfl, h1⟩
  · right
    obtain ⟨n, hn, hen⟩ := List.mem_flatMap.1 h1
    exact ⟨n, (hreach n).1 hn, List.mem_append.1 hen⟩

/-- (c) **exits that lead nowhere are dropped** (the model-level statement of finding F-C04-a):
the sheet has exactly as many edges leaving `n` as `n` has exits with a destination, with exactly
their labels; an exit `(lab, none)` whose label no connected exit of `n` shares leaves NO trace in
the sheet — after recompilation the router has no case for it. -/
theorem export_drops_dangling_exits (f : FlowX U) (rows : List (RowT U)) (h : toRowsT f = .ok rows) (n : NodeX U)
    (hn : Reach f n) :
    ((outOf (lastId n) (edgesOfT rows)).map (·.label)).Perm ((n.edges.filter (fun e => e.2.isSome)).map (·.1)) ∧
    ∀ lab, (lab, none) ∈ n.edges → (∀ d, (lab, some d) ∉ n.edges) →
      ∀ e ∈ edgesOfT rows, e.src = some (lastId n) → e.label ≠ lab := by
  obtain ⟨n0, items, vis, sk⟩ := export_skeleton f rows h hn.ne_nil
  have hp := out_edges_perm f rows h n hn
  have hcl := sk.closed n ((sk.reach n).2 hn)
  have hlab : (exitsEdges f n).map (·.label) = (n.edges.filter (fun e => e.2.isSome)).map (·.1) := by
    simp only [exitsEdges, loopEdges]
    generalize hes : n.edges = es at hcl
    clear hes
    induction es with
    | nil => rfl
    | cons x es ih =>
      have ih' := ih (fun lab d hd => hcl lab d (List.mem_cons_of_mem _ hd))
      obtain ⟨lab, d⟩ := x
      cases d with
      | none => simpa [List.filterMap_cons, exitEdge, List.filter_cons] using ih'
      | some d =>
        obtain ⟨c, hc, _⟩ := hcl lab d (List.mem_cons_self ..)
        simp [List.filterMap_cons, exitEdge, hc, List.filter_cons, ih']
  refine ⟨hlab ▸ hp.map _, ?_⟩
  intro lab _ hno e he hsrc heq
  have hmem : e ∈ outOf (lastId n) (edgesOfT rows) := by simp [outOf, he, hsrc]
  have := hp.mem_iff.1 hmem
  obtain ⟨lab', d, c, hd, _, rfl⟩ := mem_loopEdges this
  simp only at heq
  subst heq
  exact hno d hd

/-! ### which NODE a row belongs to; the node graph -/

/-- **Rows of one node.**  The compiler merges a row into the node its `_nodeId` names iff the row has
exactly one edge, unconditional, coming from a row of that node (`groupRows`, flowparser.py `_parse_row`).
On an exported sheet this rule regroups the rows exactly as the exporter grouped them: row `j` of a
reachable node `n` (`rowId n j`, `j < |rows of n|`) belongs to the node whose FIRST row is `firstId n`;
the first row of each block starts a node (it never merges into another one). -/
theorem rows_grouped_as_exported (f : FlowX U) (rows : List (RowT U)) (h : toRowsT f = .ok rows) :
    ∃ order : List (NodeX U), (∀ m, m ∈ order ↔ Reach f m) ∧ (order.map (·.uuid)).Nodup ∧
      groupsT rows = order.flatMap nodeGroup ∧
      ∀ (n : NodeX U) (p : TempId U × TempId U), p ∈ nodeGroup n ↔ ∃ j, j < n.rows.length ∧ p = (rowId n j, firstId n) := by
  by_cases hne : f = []
  · subst hne
    simp only [toRowsT, Except.ok.injEq] at h
    subst h
    refine ⟨[], ?_, by simp, rfl, fun n p => mem_nodeGroup⟩
    intro m
    exact Iff.intro (fun hm => absurd hm (List.not_mem_nil)) (fun hr => absurd rfl (Reach.ne_nil hr))
  · obtain ⟨n0, items, vis, sk⟩ := export_skeleton f rows h hne
    exact ⟨blockNodes items, sk.reach, sk.nodup, sk.groups, fun n p => mem_nodeGroup⟩

/-- **The node graph is preserved.**  Read with the compiler's node merging, the sheet is, as a multiset
of edges between NODES (each identified by its first row): the start edge into the first node and, for
every reachable node and every exit `(label, some d)` of it, one edge with that label to the node
`find_node d` — joins, cycles, self loops and parallel edges included; the blank edges between the rows
of one node are absorbed by the merging. -/
theorem node_graph_preserved (f : FlowX U) (rows : List (RowT U)) (h : toRowsT f = .ok rows) :
    ∃ order : List (NodeX U), (∀ m, m ∈ order ↔ Reach f m) ∧ (order.map (·.uuid)).Nodup ∧
      (nodeEdges (groupsT rows) (edgesOfT rows)).Perm ((f.head?.map startEdge).toList ++ order.flatMap (nodeExits f)) := by
  by_cases hne : f = []
  · subst hne
    simp only [toRowsT, Except.ok.injEq] at h
    subst h
    refine ⟨[], ?_, by simp, by simp [nodeEdges, edgesOfT]⟩
    intro m
    exact Iff.intro (fun hm => absurd hm (List.not_mem_nil)) (fun hr => absurd rfl (Reach.ne_nil hr))
  · obtain ⟨n0, items, vis, sk⟩ := export_skeleton f rows h hne
    refine ⟨blockNodes items, sk.reach, sk.nodup, ?_⟩
    rw [sk.head]
    exact sk.node_graph

/-- without `_nodeId` (`--strip_uuids`) the merge rule never fires: every row is its own node — a node
with several actions comes back as a chain of one-action nodes linked by the blank edges of `chain` -/
theorem ungrouped_without_node_ids {I : Type} [DecidableEq I] (rows : List (I × List (Option I × Label))) :
    groupRows (N := Unit) (rows.map (fun r => (r.1, none, r.2))) = rows.map (fun r => (r.1, r.1)) := by
  have key : ∀ (l : List (I × List (Option I × Label))) (names : List (Unit × I)) (rep : List (I × I)),
      (l.map (fun r => (r.1, (none : Option Unit), r.2))).foldl groupStep (names, rep)
        = (names, (l.map (fun r => (r.1, r.1))).reverse ++ rep) := by
    intro l
    induction l with
    | nil => intro names rep; rfl
    | cons r l ih =>
      intro names rep
      have : groupStep (names, rep) (r.1, (none : Option Unit), r.2) = (names, (r.1, r.1) :: rep) := by
        simp [groupStep, joinTarget]
      simp only [List.map_cons, List.foldl_cons, this, ih]
      simp
  simp [groupRows, key]

/-! ### (b) ORDER: in which order does a router get its cases back?

The compiler appends the cases of the router that ends in row `s` in the order `outOf s (edgesOf sheet)`
(rows top to bottom, cells left to right).  `_to_rows_recurse` walks the exits of a node in REVERSE and
puts each edge either on a row that is inserted at the FRONT of the sheet (a new node's block; a `go_to`
row) or at the front of the edge list of the first row of an already completed node — wherever that row
stands.  Hence: -/

/-- (b) **edges into the same row keep their exit order** — always.  For every reachable node `n` and
every row `t`: the edges from `n` into `t` appear in the sheet in the order of the exits.  (With
`out_edges_perm`: the sheet order of the exits of `n` is their exit order, stably re-sorted by the
position of the row that carries each edge.) -/
theorem out_edges_same_target_order (f : FlowX U) (rows : List (RowT U)) (h : toRowsT f = .ok rows) (n : NodeX U)
    (hn : Reach f n) (t : TempId U) :
    (outOf (lastId n) (edgesOfT rows)).filter (fun e => decide (e.dst = t)) =
      (exitsEdges f n).filter (fun e => decide (e.dst = t)) := by
  obtain ⟨n0, items, vis, sk⟩ := export_skeleton f rows h hn.ne_nil
  rw [outOf_filter_eq_sel]
  exact sk.sel_eq sk.run hn _ (doneOk_dst f DTrue _ t)

/-- (b) **order preserved, criterion 1** (covers cycles, self loops, any number of `go_to` rows): if in
the exported sheet no edge that leaves `n` was PREPENDED to an existing row — every edge cell that names
the last row of `n` is the LAST edge cell of its row, i.e. each target of `n` was reached from `n`
first — then the sheet lists the exits of `n` exactly in exit order. -/
theorem out_edges_order_of_not_prepended (f : FlowX U) (rows : List (RowT U)) (h : toRowsT f = .ok rows) (n : NodeX U)
    (hn : Reach f n) (hlast : ∀ r ∈ rows, ∀ e ∈ r.edges.dropLast, e.from_ ≠ some (lastId n)) :
    outOf (lastId n) (edgesOfT rows) = exitsEdges f n := by
  obtain ⟨n0, items, vis, sk⟩ := export_skeleton f rows h hn.ne_nil
  have hp : ∀ e, Prepended items e → e.from_ ≠ some (lastId n) := by
    rintro e ⟨m, es, hm, he⟩
    have hrow : ∃ r ∈ rows, r.edges = es := by
      rw [sk.rows_eq]
      have hne := (sk.inv.canonB m es hm).2
      cases hrw : m.rows with
      | nil => exact absurd hrw hne
      | cons x rest =>
        obtain ⟨p, o⟩ := x
        refine ⟨{ id := rowId m 0, nodeId := some m.uuid, objId := o, payload := p, edges := es, goto := [] }, ?_, rfl⟩
        simp only [renderAll, List.mem_flatMap]
        exact ⟨_, hm, by simp [Item.render, blockRows, hrw]⟩
    obtain ⟨r, hr, hre⟩ := hrow
    exact hlast r hr e (hre ▸ he)
  have r' := run_noPrepended f (lastId n) sk.run (fun _ _ hm => nomatch hm) hp
  have := sk.sel_eq r' hn (fun _ => true) (doneOk_ne f _ _)
  rw [← outOf_eq_sel] at this
  rw [this]
  exact List.filter_eq_self.2 (fun _ _ => rfl)

/-- (b) … in particular on a sheet WITHOUT JOINS (no row has more than one edge cell: a tree with back
edges) every node's exit order is preserved. -/
theorem out_edges_order_of_join_free (f : FlowX U) (rows : List (RowT U)) (h : toRowsT f = .ok rows)
    (hjf : ∀ r ∈ rows, r.edges.length ≤ 1) (n : NodeX U) (hn : Reach f n) :
    outOf (lastId n) (edgesOfT rows) = exitsEdges f n := by
  apply out_edges_order_of_not_prepended f rows h n hn
  intro r hr e he
  have := hjf r hr
  have hl : r.edges.dropLast.length = 0 := by simp; omega
  rw [List.length_eq_zero_iff.1 hl] at he
  cases he

/-- (b) **order preserved, criterion 2 — exact** (finding F-C04-b is its negation).  For a reachable
node `n` none of whose edges is carried by a `go_to` row (no exit of `n` leads back to `n` or to an
ancestor): the sheet lists the exits of `n` in exit order IF AND ONLY IF the targets of the exits appear
in the sheet in the order of the exits — no exit's target is exported LATER (further down) than the
target of a following exit. -/
theorem out_edges_order_iff_targets_sorted (f : FlowX U) (rows : List (RowT U)) (h : toRowsT f = .ok rows) (n : NodeX U)
    (hn : Reach f n) (hg : ∀ r ∈ rows, r.goto ≠ [] → ∀ e ∈ r.edges, e.from_ ≠ some (lastId n)) :
    outOf (lastId n) (edgesOfT rows) = exitsEdges f n ↔
      (exitsEdges f n).Pairwise (fun a b => pos (rows.map (·.id)) a.dst ≤ pos (rows.map (·.id)) b.dst) := by
  have hnd := toRowsT_ids_nodup f rows h
  have hsorted := outOf_sorted (lastId n) rows hnd hg
  constructor
  · intro heq
    rw [← heq]; exact hsorted
  · intro hX
    apply eq_of_sorted_filters (fun e : SEdge (TempId U) => e.dst) (pos (rows.map (·.id))) _ _ hsorted hX
    · intro a ha b hb hab
      have hmem : ∀ e ∈ exitsEdges f n, e.dst ∈ rows.map (·.id) := by
        intro e he
        obtain ⟨lab, d, c, hd, hc, rfl⟩ := mem_loopEdges he
        obtain ⟨c', hc', _, hin, _⟩ := exit_target_exported f rows h n hn lab d hd
        rw [hc] at hc'
        cases hc'
        exact hin
      exact pos_inj (hmem a ha) (hmem b hb) hab
    · intro t
      exact out_edges_same_target_order f rows h n hn t

/-! ### (d) errors -/

/-- (d) the exporter accepts a flow IF AND ONLY IF every reachable node has at least one row model and
every exit of a reachable node that names a destination names a node of the flow -/
theorem export_ok_iff (f : FlowX U) :
    (∃ rows, toRowsT f = .ok rows) ↔
      ∀ m, Reach f m → m.rows ≠ [] ∧ ∀ lab d, (lab, some d) ∈ m.edges → findNode f d ≠ none := by
  constructor
  · rintro ⟨rows, h⟩ m hm
    obtain ⟨n0, items, vis, sk⟩ := export_skeleton f rows h hm.ne_nil
    have hmem := (sk.reach m).2 hm
    obtain ⟨es, hes⟩ := mem_blockNodes.1 hmem
    refine ⟨(sk.inv.canonB m es hes).2, ?_⟩
    intro lab d hd
    obtain ⟨c, hc, _⟩ := sk.closed m hmem lab d hd
    simp [hc]
  · intro hall
    cases hr : toRowsT f with
    | ok rows => exact ⟨rows, rfl⟩
    | error x =>
      exfalso
      have hdef := toRowsT_error f x hr
      cases x with
      | fuel => exact toRowsT_no_fuel f hr
      | noRows => obtain ⟨m, hm, hrows⟩ := hdef; exact (hall m hm).1 hrows
      | noNode => obtain ⟨m, lab, d, hm, hd, hf⟩ := hdef; exact (hall m hm).2 lab d hd hf
      | keyError => exact hdef
      | counterFuel => exact hdef

/-- (d) what each error value proves: `noNode` (`find_node` raises ValueError) — a reachable exit names a
uuid that is no node of the flow; `noRows` (IndexError) — a reachable node has no row model; no other
error value occurs -/
theorem export_error_cases (f : FlowX U) (x : Err) (h : toRowsT f = .error x) :
    (x = .noNode ∧ ∃ m lab d, Reach f m ∧ (lab, some d) ∈ m.edges ∧ findNode f d = none) ∨
    (x = .noRows ∧ ∃ m, Reach f m ∧ m.rows = []) := by
  have hdef := toRowsT_error f x h
  cases x with
  | fuel => exact absurd h (toRowsT_no_fuel f)
  | noRows => exact Or.inr ⟨rfl, hdef⟩
  | noNode => exact Or.inl ⟨rfl, hdef⟩
  | keyError => exact hdef.elim
  | counterFuel => exact hdef.elim

/-- (d) when every reachable node has a row model: the export fails with `noNode` IF AND ONLY IF some
reachable exit names a uuid that is no node of the flow -/
theorem export_noNode_iff (f : FlowX U) (hrows : ∀ m, Reach f m → m.rows ≠ []) :
    toRowsT f = .error .noNode ↔ ∃ m lab d, Reach f m ∧ (lab, some d) ∈ m.edges ∧ findNode f d = none := by
  constructor
  · intro h
    rcases export_error_cases f _ h with ⟨_, h1⟩ | ⟨h1, _⟩
    · exact h1
    · cases h1
  · rintro ⟨m, lab, d, hm, hd, hf⟩
    cases hr : toRowsT f with
    | ok rows => exact absurd hf (((export_ok_iff f).1 ⟨rows, hr⟩ m hm).2 lab d hd)
    | error x =>
      rcases export_error_cases f x hr with ⟨h1, _⟩ | ⟨_, m', hm', hr'⟩
      · rw [h1]
      · exact absurd hr' (hrows m' hm')

/-- (d) … and symmetrically for `noRows` -/
theorem export_noRows_iff (f : FlowX U)
    (hnodes : ∀ m, Reach f m → ∀ lab d, (lab, some d) ∈ m.edges → findNode f d ≠ none) :
    toRowsT f = .error .noRows ↔ ∃ m, Reach f m ∧ m.rows = [] := by
  constructor
  · intro h
    rcases export_error_cases f _ h with ⟨h1, _⟩ | ⟨_, h1⟩
    · cases h1
    · exact h1
  · rintro ⟨m, hm, hr0⟩
    cases hr : toRowsT f with
    | ok rows => exact absurd hr0 (((export_ok_iff f).1 ⟨rows, hr⟩ m hm).1)
    | error x =>
      rcases export_error_cases f x hr with ⟨_, m', lab, d, hm', hd, hf⟩ | ⟨h1, _⟩
      · exact absurd hf (hnodes m' hm' lab d hd)
      · rw [h1]

/-- (d) the id remapping adds no failure: `to_rows(numbered)` fails exactly when the DFS fails, with
the same error (in particular `KeyError` never happens: every id a row mentions is the id of a row) -/
theorem stripped_error_iff (numbered : Bool) (f : FlowX U) (x : Err) :
    strippedRows numbered f = .error x ↔ toRowsT f = .error x := by
  cases hr : toRowsT f with
  | error y => simp [strippedRows, hr]
  | ok rows =>
    obtain ⟨out, ho, _⟩ := strippedRows_ok numbered f rows hr
    simp [ho]

/-! ### the final sheet (readable or numbered ids) -/

/-- **The graph of the FINAL sheet.**  In both id modes the rows `to_rows` returns are the temp-id rows
with every id replaced by `σ`, where `σ` is injective on the row ids and never `"start"`; every id a row
mentions is the id of a row.  Hence the graph the compiler reads from the final sheet (`edgesOfS`) is the
renamed graph of the temp-id sheet, the node rows keep their content, and the edges leaving a row keep
their order: every statement above holds for the final sheet, read through `σ`. -/
theorem export_preserves_graph_stripped (numbered : Bool) (f : FlowX U) (out : List RowS)
    (h : strippedRows numbered f = .ok out) :
    ∃ (rows : List (RowT U)) (σ : TempId U → Str), toRowsT f = .ok rows ∧ out = rows.map (renameRow σ) ∧
      (∀ a ∈ rows.map (·.id), σ a ≠ startStr) ∧
      (∀ a ∈ rows.map (·.id), ∀ b ∈ rows.map (·.id), σ a = σ b → a = b) ∧
      (∀ r ∈ rows, RowRefs (rows.map (·.id)) r) ∧
      edgesOfS out = (edgesOfT rows).map (SEdge.map σ) ∧
      nodeRowsS out = (nodeRowsT rows).map (fun x => (σ x.1, x.2.2.2)) ∧
      (∀ s ∈ rows.map (·.id), outOf (σ s) (edgesOfS out) = (outOf s (edgesOfT rows)).map (SEdge.map σ)) := by
  cases hr : toRowsT f with
  | error y => simp [strippedRows, hr] at h
  | ok rows =>
    have hre : remap numbered rows = .ok out := by simpa [strippedRows, hr] using h
    have hnd := toRowsT_ids_nodup f rows hr
    obtain ⟨σ, ho, hrefs, hst, hinj⟩ := remap_spec numbered rows out hnd hre
    have hne : ∀ r ∈ rows, ∀ e ∈ r.edges, ∀ k, e.from_ = some k → σ k ≠ startStr :=
      fun r hr' e he k hk => hst k ((hrefs r hr').2.1 e he k hk)
    have hE : edgesOfS out = (edgesOfT rows).map (SEdge.map σ) := ho ▸ edgesOfS_rename σ rows hne
    refine ⟨rows, σ, rfl, ho, hst, hinj, hrefs, hE, ho ▸ nodeRowsS_rename σ rows, ?_⟩
    intro s hs
    rw [hE]
    apply outOf_map_of_inj σ (rows.map (·.id)) _ s hs _ hinj
    intro e he k hk
    by_cases hne' : f = []
    · subst hne'
      simp only [toRowsT, Except.ok.injEq] at hr
      subst hr
      simp [edgesOfT] at he
    · obtain ⟨n0, items, vis, sk⟩ := export_skeleton f rows hr hne'
      exact sk.src_mem (sk.edges ▸ he) k hk

/-! ### non-vacuity and negative witnesses (kernel-evaluated)

`exG`: a two-row node, a router with a JOIN (c1, c3 → node 2; c2 and node 2 → node 3), several edges
between the same nodes (c1, c3), an exit that leads nowhere (c4), a SELF LOOP (c5), a CYCLE back to the
first node (c6) and an UNREACHABLE node (4). -/

deriving instance DecidableEq for NodeX

def exG : FlowX Nat :=
  [ ⟨0, "msg.a".toList, [("a1".toList, none), ("a2".toList, some 70)], [([], some 1)]⟩,
    ⟨1, "split.x".toList, [("w".toList, none)],
      [("c1".toList, some 2), ("c2".toList, some 3), ("c3".toList, some 2), ("c4".toList, none),
       ("c5".toList, some 1), ("c6".toList, some 0)]⟩,
    ⟨2, "msg.b".toList, [("b".toList, none)], [([], some 3)]⟩,
    ⟨3, "msg.c".toList, [("c".toList, none)], [([], none)]⟩,
    ⟨4, "msg.z".toList, [("z".toList, none)], [([], some 0)]⟩ ]

def gA : NodeX Nat := ⟨0, "msg.a".toList, [("a1".toList, none), ("a2".toList, some 70)], [([], some 1)]⟩
def gX : NodeX Nat := ⟨1, "split.x".toList, [("w".toList, none)],
      [("c1".toList, some 2), ("c2".toList, some 3), ("c3".toList, some 2), ("c4".toList, none),
       ("c5".toList, some 1), ("c6".toList, some 0)]⟩
def gZ : NodeX Nat := ⟨4, "msg.z".toList, [("z".toList, none)], [([], some 0)]⟩

/-- the exported temp-id rows of `exG` -/
def rowsG : List (RowT Nat) := (toRowsT exG).toOption.getD []

theorem rowsG_ok : toRowsT exG = .ok rowsG := by decide +kernel

theorem reach_gA : Reach exG gA := Reach.start rfl
theorem reach_gX : Reach exG gX := Reach.step (lab := []) (d := 1) reach_gA (by decide) (by decide)

/-- a printable view: (source row | "start", label, target row) with the readable row names -/
def view (es : List (SEdge (TempId Nat))) : List (Str × Label × Str) :=
  es.map (fun e => ((e.src.map (·.2)).getD startStr, e.label, e.dst.2))

/-- the graph read from the exported sheet of `exG`: start edge, the chain inside the two-row node, the
five connected exits of the router (c5 and c6 through `go_to` rows), the join into msg.c — and nothing
for c4, nothing of the unreachable node -/
theorem exG_graph : view (edgesOfT rowsG) =
    [ ("start".toList, [], "msg.a".toList), ("msg.a".toList, [], "msg.a.1".toList),
      ("msg.a.1".toList, [], "split.x".toList),
      ("split.x".toList, "c1".toList, "msg.b".toList), ("split.x".toList, "c3".toList, "msg.b".toList),
      ("split.x".toList, "c2".toList, "msg.c".toList), ("msg.b".toList, [], "msg.c".toList),
      ("split.x".toList, "c5".toList, "split.x".toList), ("split.x".toList, "c6".toList, "msg.a".toList) ] := by
  decide +kernel

/-- … and the same graph is read from the FINAL sheet, in both id modes -/
theorem exG_graph_named : (strippedRows false exG).toOption.map edgesOfS = some
    [ ⟨none, [], "msg.a".toList⟩, ⟨some "msg.a".toList, [], "msg.a.1".toList⟩,
      ⟨some "msg.a.1".toList, [], "split.x".toList⟩,
      ⟨some "split.x".toList, "c1".toList, "msg.b".toList⟩, ⟨some "split.x".toList, "c3".toList, "msg.b".toList⟩,
      ⟨some "split.x".toList, "c2".toList, "msg.c".toList⟩, ⟨some "msg.b".toList, [], "msg.c".toList⟩,
      ⟨some "split.x".toList, "c5".toList, "split.x".toList⟩, ⟨some "split.x".toList, "c6".toList, "msg.a".toList⟩ ] := by
  decide +kernel

theorem exG_graph_numbered : (strippedRows true exG).toOption.map edgesOfS = some
    [ ⟨none, [], "1".toList⟩, ⟨some "1".toList, [], "2".toList⟩, ⟨some "2".toList, [], "3".toList⟩,
      ⟨some "3".toList, "c1".toList, "4".toList⟩, ⟨some "3".toList, "c3".toList, "4".toList⟩,
      ⟨some "3".toList, "c2".toList, "5".toList⟩, ⟨some "4".toList, [], "5".toList⟩,
      ⟨some "3".toList, "c5".toList, "3".toList⟩, ⟨some "3".toList, "c6".toList, "1".toList⟩ ] := by
  decide +kernel

/-- non-vacuity of `export_preserves_graph` (2): the node rows, node after node, in order, with content -/
theorem exG_node_rows : (nodeRowsT rowsG).map (fun x => (x.1.2, x.2.1, x.2.2.2)) =
    [ ("msg.a".toList, some 0, "a1".toList), ("msg.a.1".toList, some 0, "a2".toList),
      ("split.x".toList, some 1, "w".toList), ("msg.b".toList, some 2, "b".toList),
      ("msg.c".toList, some 3, "c".toList) ] := by decide +kernel

/-- the compiler's merge rule on the sheet of `exG`: the two rows of msg.a form one node, and the node
graph is the flow's reachable graph -/
theorem exG_groups_and_node_graph :
    (groupsT rowsG).map (fun p => (p.1.2, p.2.2)) =
      [ ("msg.a".toList, "msg.a".toList), ("msg.a.1".toList, "msg.a".toList), ("split.x".toList, "split.x".toList),
        ("msg.b".toList, "msg.b".toList), ("msg.c".toList, "msg.c".toList) ] ∧
    view (nodeEdges (groupsT rowsG) (edgesOfT rowsG)) =
      [ ("start".toList, [], "msg.a".toList), ("msg.a".toList, [], "split.x".toList),
        ("split.x".toList, "c1".toList, "msg.b".toList), ("split.x".toList, "c3".toList, "msg.b".toList),
        ("split.x".toList, "c2".toList, "msg.c".toList), ("msg.b".toList, [], "msg.c".toList),
        ("split.x".toList, "c5".toList, "split.x".toList), ("split.x".toList, "c6".toList, "msg.a".toList) ] :=
  ⟨by decide +kernel, by decide +kernel⟩

/-- instances of the per-node theorems at the router of `exG` (hypotheses are satisfiable) -/
example : (outOf (lastId gX) (edgesOfT rowsG)).Perm (exitsEdges exG gX) :=
  out_edges_perm exG rowsG rowsG_ok gX reach_gX
example : (outOf (lastId gX) (edgesOfT rowsG)).filter (fun e => decide (e.dst = firstId gA)) =
    (exitsEdges exG gX).filter (fun e => decide (e.dst = firstId gA)) :=
  out_edges_same_target_order exG rowsG rowsG_ok gX reach_gX _
example : ∃ A B, nodeRowsT rowsG = A ++ nodeSig gA ++ B ∧
    nodeSig gA = gA.rows.zipIdx.map (fun x => (rowId gA x.2, some gA.uuid, x.1.2, x.1.1)) ∧ gA.rows ≠ [] :=
  payloads_preserved exG rowsG rowsG_ok gA reach_gA

/-- (a) the unreachable node of `exG` is a node of the flow, is not reachable, and has no row -/
theorem exG_unreachable : findNode exG gZ.uuid = some gZ ∧ (∀ r ∈ rowsG, r.nodeId ≠ some gZ.uuid) := by
  decide +kernel

theorem exG_gZ_not_reach : ¬ Reach exG gZ := by
  intro h
  have key : ∀ m, Reach exG m → m.uuid ≠ 4 := by
    intro m hm
    induction hm with
    | start h0 => simp only [exG, List.head?_cons, Option.some.injEq] at h0; subst h0; decide
    | @step n c lab d _ hmem hfn ih =>
      have hcu := findNode_uuid hfn
      have hn : n ∈ exG := findNode_mem (Reach.canon ‹_›)
      have : ∀ n ∈ exG, n.uuid ≠ 4 → ∀ le ∈ n.edges, le.2 ≠ some 4 := by decide
      intro h4
      exact this n hn ih (lab, some d) hmem (by rw [← hcu, h4])
  exact key gZ h rfl

example : ∀ r ∈ rowsG, r.nodeId ≠ some gZ.uuid :=
  unreachable_not_exported exG rowsG rowsG_ok gZ (by decide) exG_gZ_not_reach

/-- **F-C04-a, at the model level**: the router of `exG` has six exits, c4 leads nowhere; the sheet has
five edges leaving it, none labelled c4 — after recompilation the router has no case for c4 (the
recorded finding: "router categories whose exit leads nowhere are not exported: their tests vanish") -/
theorem dangling_category_vanishes :
    gX.edges.map (·.1) = ["c1", "c2", "c3", "c4", "c5", "c6"].map String.toList ∧
    (outOf (lastId gX) (edgesOfT rowsG)).map (·.label) = ["c1", "c3", "c2", "c5", "c6"].map String.toList := by
  decide +kernel

example : ∀ e ∈ edgesOfT rowsG, e.src = some (lastId gX) → e.label ≠ "c4".toList :=
  (export_drops_dangling_exits exG rowsG rowsG_ok gX reach_gX).2 _ (by decide) (by intro d hd; simp [gX] at hd)

/-- **F-C04-b, at the model level** (the recorded finding: "the order of a router's tests changes when a
test's target is exported later than the target of a following test (joins)"): the minimal flow
`t1 → x, t2 → y, y → x`.  The DFS walks the exits in reverse, exports `y` (and below it `x`) first, then
finds `x` completed and prepends `t1` to its row — which stands BELOW the row of `y`: the compiler gets
the tests back as `t2, t1`. -/
def exB : FlowX Nat :=
  [ ⟨0, "split".toList, [("r".toList, none)], [("t1".toList, some 1), ("t2".toList, some 2)]⟩,
    ⟨1, "msg.x".toList, [("x".toList, none)], [([], none)]⟩,
    ⟨2, "msg.y".toList, [("y".toList, none)], [([], some 1)]⟩ ]
def bR : NodeX Nat := ⟨0, "split".toList, [("r".toList, none)], [("t1".toList, some 1), ("t2".toList, some 2)]⟩
def rowsB : List (RowT Nat) := (toRowsT exB).toOption.getD []
theorem rowsB_ok : toRowsT exB = .ok rowsB := by decide +kernel

theorem order_changes_at_join :
    (exitsEdges exB bR).map (·.label) = ["t1".toList, "t2".toList] ∧
    (outOf (lastId bR) (edgesOfT rowsB)).map (·.label) = ["t2".toList, "t1".toList] ∧
    rowsB.map (·.id.2) = ["split".toList, "msg.y".toList, "msg.x".toList] ∧
    -- the trigger, exactly as recorded: the target of t1 stands further down than the target of t2
    ¬ (exitsEdges exB bR).Pairwise (fun a b => pos (rowsB.map (·.id)) a.dst ≤ pos (rowsB.map (·.id)) b.dst) ∧
    -- … and in the final sheet, both id modes
    (strippedRows false exB).toOption.map (fun out => (outOf "split".toList (edgesOfS out)).map (·.label)) =
      some ["t2".toList, "t1".toList] ∧
    (strippedRows true exB).toOption.map (fun out => (outOf "1".toList (edgesOfS out)).map (·.label)) =
      some ["t2".toList, "t1".toList] := by
  decide +kernel

/-- `order_changes_at_join` is an instance of the exact criterion (no `go_to` row in that sheet) -/
example : outOf (lastId bR) (edgesOfT rowsB) = exitsEdges exB bR ↔
    (exitsEdges exB bR).Pairwise (fun a b => pos (rowsB.map (·.id)) a.dst ≤ pos (rowsB.map (·.id)) b.dst) :=
  out_edges_order_iff_targets_sorted exB rowsB rowsB_ok bR (Reach.start rfl) (by decide +kernel)

/-- the hypothesis of criterion 1 is needed: in `exB` the edge t1 was prepended, and the order changed;
in `exG` likewise (c1 was prepended to the row of msg.b, c2 to the row of msg.c): c1, c2, c3 come back as
c1, c3, c2 -/
theorem needs_not_prepended :
    (¬ ∀ r ∈ rowsB, ∀ e ∈ r.edges.dropLast, e.from_ ≠ some (lastId bR)) ∧
    outOf (lastId bR) (edgesOfT rowsB) ≠ exitsEdges exB bR ∧
    (¬ ∀ r ∈ rowsG, ∀ e ∈ r.edges.dropLast, e.from_ ≠ some (lastId gX)) ∧
    outOf (lastId gX) (edgesOfT rowsG) ≠ exitsEdges exG gX :=
  ⟨by decide +kernel, by decide +kernel, by decide +kernel, by decide +kernel⟩

/-- a DIAMOND (join at node 3) whose order IS preserved: both criteria apply to the router although the
sheet has a row with two edges (so `out_edges_order_of_join_free` does not) -/
def exD : FlowX Nat :=
  [ ⟨0, "split".toList, [("r".toList, none)], [("t1".toList, some 1), ("t2".toList, some 2)]⟩,
    ⟨1, "msg.x".toList, [("x".toList, none)], [([], some 3)]⟩,
    ⟨2, "msg.y".toList, [("y".toList, none)], [([], some 3)]⟩,
    ⟨3, "msg.j".toList, [("j".toList, none)], [([], none)]⟩ ]
def rowsD : List (RowT Nat) := (toRowsT exD).toOption.getD []
theorem rowsD_ok : toRowsT exD = .ok rowsD := by decide +kernel

theorem diamond_order_preserved :
    (¬ ∀ r ∈ rowsD, r.edges.length ≤ 1) ∧
    (∀ r ∈ rowsD, ∀ e ∈ r.edges.dropLast, e.from_ ≠ some (lastId bR)) ∧
    (∀ r ∈ rowsD, r.goto ≠ [] → ∀ e ∈ r.edges, e.from_ ≠ some (lastId bR)) ∧
    (exitsEdges exD bR).Pairwise (fun a b => pos (rowsD.map (·.id)) a.dst ≤ pos (rowsD.map (·.id)) b.dst) ∧
    outOf (lastId bR) (edgesOfT rowsD) = exitsEdges exD bR :=
  ⟨by decide +kernel, by decide +kernel, by decide +kernel, by decide +kernel, by decide +kernel⟩

example : outOf (lastId bR) (edgesOfT rowsD) = exitsEdges exD bR :=
  out_edges_order_of_not_prepended exD rowsD rowsD_ok bR (Reach.start rfl) diamond_order_preserved.2.1

/-- criterion 2 is strictly more general than criterion 1 on go_to-free nodes: two tests with the SAME
target — the first one is prepended (criterion 1 does not apply), the targets are sorted, the order is
preserved -/
def exP : FlowX Nat :=
  [ ⟨0, "split".toList, [("r".toList, none)], [("t1".toList, some 1), ("t2".toList, some 1)]⟩,
    ⟨1, "msg.x".toList, [("x".toList, none)], [([], none)]⟩ ]
def pR : NodeX Nat := ⟨0, "split".toList, [("r".toList, none)], [("t1".toList, some 1), ("t2".toList, some 1)]⟩
def rowsP : List (RowT Nat) := (toRowsT exP).toOption.getD []
theorem rowsP_ok : toRowsT exP = .ok rowsP := by decide +kernel

theorem same_target_prepended_but_sorted :
    (¬ ∀ r ∈ rowsP, ∀ e ∈ r.edges.dropLast, e.from_ ≠ some (lastId pR)) ∧
    (exitsEdges exP pR).Pairwise (fun a b => pos (rowsP.map (·.id)) a.dst ≤ pos (rowsP.map (·.id)) b.dst) ∧
    outOf (lastId pR) (edgesOfT rowsP) = exitsEdges exP pR := by
  decide +kernel

/-- the go_to hypothesis of criterion 2 is needed: `t1 → x, t2 → back to the router itself`; the `go_to`
row that carries t2 stands BELOW the row of x although its target (the router's own row) stands above:
the order is preserved while the targets are "not sorted" -/
def exL : FlowX Nat :=
  [ ⟨0, "split".toList, [("r".toList, none)], [("t1".toList, some 1), ("t2".toList, some 0)]⟩,
    ⟨1, "msg.x".toList, [("x".toList, none)], [([], none)]⟩ ]
def lR : NodeX Nat := ⟨0, "split".toList, [("r".toList, none)], [("t1".toList, some 1), ("t2".toList, some 0)]⟩
def rowsL : List (RowT Nat) := (toRowsT exL).toOption.getD []
theorem rowsL_ok : toRowsT exL = .ok rowsL := by decide +kernel

theorem needs_no_goto_from_node :
    (¬ ∀ r ∈ rowsL, r.goto ≠ [] → ∀ e ∈ r.edges, e.from_ ≠ some (lastId lR)) ∧
    outOf (lastId lR) (edgesOfT rowsL) = exitsEdges exL lR ∧
    ¬ (exitsEdges exL lR).Pairwise (fun a b => pos (rowsL.map (·.id)) a.dst ≤ pos (rowsL.map (·.id)) b.dst) := by
  decide +kernel

/-- … that self-loop sheet is join-free: criterion 1 applies (cycles are covered by it) -/
example : outOf (lastId lR) (edgesOfT rowsL) = exitsEdges exL lR :=
  out_edges_order_of_join_free exL rowsL rowsL_ok (by decide +kernel) lR (Reach.start rfl)

/-- reachability is needed in the per-node statements: the unreachable node of `exG` has an exit to the
first node, the sheet has no edge for it -/
theorem needs_reachable :
    outOf (lastId gZ) (edgesOfT rowsG) = [] ∧ (exitsEdges exG gZ).length = 1 :=
  ⟨by decide +kernel, by decide +kernel⟩

/-- the join-free hypothesis is needed: the sheet of `exB` has a row with two edges, and the order changed -/
theorem needs_join_free :
    (¬ ∀ r ∈ rowsB, r.edges.length ≤ 1) ∧ outOf (lastId bR) (edgesOfT rowsB) ≠ exitsEdges exB bR :=
  ⟨by decide +kernel, by decide +kernel⟩

/-- `unreachable_not_exported` is about the node `find_node` returns for its uuid: a second node with the
uuid of a reachable one is not reachable (it can never be found), yet rows carry "its" uuid -/
theorem needs_canonical :
    let f : FlowX Nat := [⟨0, "a".toList, [("r".toList, none)], [([], none)]⟩, ⟨0, "b".toList, [("s".toList, none)], [([], none)]⟩]
    findNode f 0 ≠ some ⟨0, "b".toList, [("s".toList, none)], [([], none)]⟩ ∧
    (toRowsT f).toOption.map (fun rows => rows.map (·.nodeId)) = some [some 0] := by
  decide +kernel

/-! #### errors -/

/-- a reachable exit names a uuid that is no node of the flow: `find_node` raises -/
theorem error_noNode_witness :
    toRowsT ([⟨0, "a".toList, [("r".toList, none)], [([], some 7)]⟩] : FlowX Nat) = .error .noNode ∧
    strippedRows true ([⟨0, "a".toList, [("r".toList, none)], [([], some 7)]⟩] : FlowX Nat) = .error .noNode := by
  decide +kernel

/-- a reachable node without row model (a `BasicNode` without actions): IndexError -/
theorem error_noRows_witness :
    toRowsT ([⟨0, "a".toList, [], [([], none)]⟩] : FlowX Nat) = .error .noRows := by decide +kernel

/-- defects of UNREACHABLE nodes do not matter: an unreachable node without rows and with an exit to a
missing node is simply not exported -/
theorem unreachable_defects_ignored :
    (toRowsT ([⟨0, "a".toList, [("r".toList, none)], [([], none)]⟩, ⟨1, "b".toList, [], [([], some 9)]⟩] : FlowX Nat)).toOption.map
      List.length = some 1 := by decide +kernel

/-- the side hypotheses of `export_noNode_iff` / `export_noRows_iff` are needed: with both defects
reachable, the error reported is the one the reverse walk meets first -/
theorem needs_rows_for_noNode_iff :
    toRowsT ([⟨0, "a".toList, [("r".toList, none)], [("l1".toList, some 9), ("l2".toList, some 1)]⟩,
              ⟨1, "b".toList, [], []⟩] : FlowX Nat) = .error .noRows ∧
    toRowsT ([⟨0, "a".toList, [("r".toList, none)], [("l1".toList, some 1), ("l2".toList, some 9)]⟩,
              ⟨1, "b".toList, [], []⟩] : FlowX Nat) = .error .noNode := by
  decide +kernel

/-- non-vacuity of `export_ok_iff` (←) / `export_preserves_graph_stripped`: `exG` is accepted in both id modes -/
example : ∃ rows, toRowsT exG = .ok rows := ⟨rowsG, rowsG_ok⟩
example : ((strippedRows false exG).toOption.map List.length, (strippedRows true exG).toOption.map List.length) = (some 7, some 7) := by
  decide +kernel

end Rpft.Props.C04
