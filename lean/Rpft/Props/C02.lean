/-
C02 — the compiled flow has exactly the control flow the sheet rows describe.

Two halves.  (1) For ALL infinite answer sequences of the simulated contact: a certificate
accepted by `certOk` implies equal traces (`validCert_sound`, `flows_equiv_of_cert`) — the
checker is run on every real compiler output against the reference interpretation
`RefFlow.refFlow` of the same parsed rows.  (2) For all sheets: see `C02_full` below — the
universal claim over sheets needs the compiler model (M4) and is discharged per sheet by (1);
for ALL sheets of the fragment `CoreSheet.inFragment` it is PROVED with the Lean compiler model in
place of the real compiler: `compile_refines_reference` / `C02_fragment` (lock-step simulation of
the compiler machine and the reference's pass 1, then a bisimulation up to node splitting between
the index-resolved abstractions of the two flows).  The fragment: every row type of a core sheet
except `insert_as_block` — action rows (left unconditionally and conditionally: the compiler's router
node behind the action node), `wait_for_response` / `split_by_value` / `split_by_group` /
`split_random` rows, `start_new_flow` / `call_webhook` / `transfer_airtime` rows, `go_to`, `hard_exit`,
`loose_exit`, and `no_op` rows (junctions: left unconditionally the compiler creates NO node and
re-connects the sources — node elision, `Flow.DRel.skip` —, left conditionally a router node; the
compiler's lazy re-connection is followed by a SCHEDULE of the edges, `CoreSheet.Sched`; F-C02-b is
outside, with its witness); explicit category names; no given node identifiers / node names (no
merging), no blocks.  `C02_fragment_full` names what is left.
-/
import Rpft.Lemmas.Bisim
import Rpft.FlowSys
import Rpft.RefFlow
import Rpft.Lemmas.RefFlowClosed
import Rpft.Gen.Tables
import Rpft.Lemmas.CoreFinal
set_option linter.unusedSimpArgs false
set_option linter.unusedVariables false
namespace Rpft.Props.C02
open Rpft Rpft.Bisim Rpft.Flow

/-- **Soundness of the bisimulation certificate checker**, for arbitrary deterministic
observable systems: an accepted certificate gives equal observation sequences for every
environment and every length. -/
theorem validCert_sound {S T O : Type} [DecidableEq S] [DecidableEq T] [DecidableEq O]
    (A : Sys S O) (B : Sys T O) (R : List (S × T)) (s0 : Option S) (t0 : Option T)
    (h : validCert A B R s0 t0 = true) :
    ∀ (env : Nat → Nat) (n : Nat), run A s0 env n = run B t0 env n := by
  simp only [validCert, Bool.and_eq_true] at h
  intro env n
  exact sound_aux A B R h.2 n s0 t0 env h.1

/-- **Flows**: if the checker accepts `R` for flows `a` and `b` at observation level `lvl`,
then for every answer stream and every length the contact observes the same actions in
the same order and faces the same decisions. -/
theorem flows_equiv_of_cert (lvl : ObsLevel) (a b : Flow.Flow) (R : List (St × St))
    (h : certOk lvl a b R = true) :
    ∀ (env : Nat → Nat) (n : Nat), trace lvl a env n = trace lvl b env n :=
  validCert_sound _ _ R _ _ h

/-- Trace equivalence is an equivalence relation (so chains of comparisons compose:
sugared ≈ desugared ≈ reference). -/
theorem trace_equiv_trans (lvl : ObsLevel) (a b c : Flow.Flow)
    (h1 : ∀ env n, trace lvl a env n = trace lvl b env n)
    (h2 : ∀ env n, trace lvl b env n = trace lvl c env n) :
    ∀ env n, trace lvl a env n = trace lvl c env n :=
  fun env n => (h1 env n).trans (h2 env n)

/-! ### observation levels are ordered: full-level equivalence implies every coarser one -/

/-- forget what a coarser level does not observe -/
def coarsenRouter (lvl : ObsLevel) (r : RouterObs) : RouterObs :=
  { r with caseCats := if lvl.catNames then r.caseCats else []
           otherCats := if lvl.catNames then r.otherCats else []
           resultName := if lvl.resultName then r.resultName else none }

def coarsen (lvl : ObsLevel) : Obs → Obs
  | .act a => .act a
  | .ask r => .ask (coarsenRouter lvl r)
  | .diverge => .diverge

theorem routerObs_coarsen (lvl : ObsLevel) (r : Router) :
    routerObs lvl r = coarsenRouter lvl (routerObs ⟨true, true⟩ r) := by
  cases r with
  | «switch» o cs cats d w rn =>
    cases hc : lvl.catNames <;> cases hr : lvl.resultName <;>
      simp [routerObs, coarsenRouter, hc, hr]
  | random cats rn =>
    cases hc : lvl.catNames <;> cases hr : lvl.resultName <;>
      simp [routerObs, coarsenRouter, hc, hr]

theorem obsAt_coarsen (lvl : ObsLevel) (f : Flow.Flow) (s : St) :
    obsAt lvl f s = coarsen lvl (obsAt ⟨true, true⟩ f s) := by
  cases s with
  | div => rfl
  | «at» p =>
    simp only [obsAt]
    cases f.nodes[p.node]? with
    | none => rfl
    | some n =>
      simp only
      cases n.actions[p.k]? with
      | some a => rfl
      | none =>
        simp only
        cases n.router with
        | none => rfl
        | some r => simp [coarsen, routerObs_coarsen lvl r]

theorem run_coarsen (lvl : ObsLevel) (f : Flow.Flow) :
    ∀ (n : Nat) (s : Option St) (env : Nat → Nat),
      run (flowSys lvl f) s env n = (run (flowSys ⟨true, true⟩ f) s env n).map (coarsen lvl) := by
  intro n
  induction n with
  | zero => intro s env; cases s <;> rfl
  | succ n ih =>
    intro s env
    cases s with
    | none => rfl
    | some st =>
      simp only [run, List.map_cons]
      have h1 : (flowSys lvl f).obs st = coarsen lvl ((flowSys ⟨true, true⟩ f).obs st) :=
        obsAt_coarsen lvl f st
      have h2 : (flowSys lvl f).step st (env 0) = (flowSys ⟨true, true⟩ f).step st (env 0) := rfl
      rw [h1, h2, ih]

/-- Equivalence at the full observation level (what C03 establishes) implies equivalence at
every coarser level (what C02 and C04 state): the levels only forget. -/
theorem full_equiv_implies_any_level (lvl : ObsLevel) (a b : Flow.Flow)
    (h : ∀ env n, trace ⟨true, true⟩ a env n = trace ⟨true, true⟩ b env n) :
    ∀ env n, trace lvl a env n = trace lvl b env n := by
  intro env n
  unfold trace at h ⊢
  rw [run_coarsen lvl a, run_coarsen lvl b, h env n]

/-- The certificate check is not vacuous: it rejects flows that differ in one observation.
Two one-node flows sending different texts have no certificate whatsoever. -/
def oneMsg (t : String) : Flow.Flow :=
  { uuid := [], name := [],
    nodes := [{ uuid := "n".toList, actions := [{ uuid := "a".toList, obs := t.toList }],
                router := none, exits := [{ uuid := "e".toList, dest := none }] }] }

theorem cert_rejects_different_action (R : List (St × St)) :
    certOk ⟨true, true⟩ (oneMsg "x") (oneMsg "y") R = false := by
  have hne : trace ⟨true, true⟩ (oneMsg "x") (fun _ => 0) 1 ≠
      trace ⟨true, true⟩ (oneMsg "y") (fun _ => 0) 1 := by decide
  cases h : certOk ⟨true, true⟩ (oneMsg "x") (oneMsg "y") R with
  | false => rfl
  | true => exact absurd (flows_equiv_of_cert _ _ _ R h (fun _ => 0) 1) hne

/-- …and accepts a flow against itself (non-vacuity of the hypothesis of `flows_equiv_of_cert`). -/
example : certOk ⟨true, true⟩ (oneMsg "x") (oneMsg "x") [(.at ⟨0, 0⟩, .at ⟨0, 0⟩)] = true := by decide

/-- The full statement of C02 over sheets: for every well-formed core sheet whose rows the
real compiler accepts, the compiled flow is trace-equivalent to the reference
interpretation.  `compile` is the real compiler (a parameter here: its Lean model is M4);
per sheet this is decided by `flows_equiv_of_cert` on the real output. -/
def C02_full (compile : List RefFlow.RRow → Option Flow.Flow) : Prop :=
  ∀ rows f r, compile rows = some f → RefFlow.refFlow rows = .ok r →
    ∀ env n, trace ⟨false, true⟩ r env n = trace ⟨false, true⟩ f env n

/-! ### the universal refinement theorem on a fragment of core sheets -/

/-- **C02 for ALL sheets of the fragment** (`C02_full` with the Lean compiler model — tied to the
real parser by exact comparison, C01 — in place of the abstract `compile`, restricted to
`CoreSheet.inFragment`): whatever the rows, as long as they are in the fragment, if the compiler
model compiles the sheet and the reference interpretation exists, then for EVERY stream of
environment answers and every length the contact observes the same actions in the same order and
faces the same decisions (operand, ordered tests with their arguments, wait / timeout, result name)
in the compiled flow as in the meaning of the rows.  Both readings are taken from ONE list of parsed
rows (`CoreSheet.CRow`; `toEvent` / `toRRow` are cross-checked against the inputs the harness builds
on every explored sheet).  The fragment (`CoreSheet.inFragment`, decidable):
* rows: action rows; `wait_for_response` (with or without timeout), `split_by_value`,
  `split_by_group`, `split_random`; `start_new_flow`, `call_webhook`, `transfer_airtime` (performing
  their own action); `go_to` (its edges enter the named rows, cycles included); `hard_exit` /
  `loose_exit` (the paths end); no given node identifier, the action as the documentation describes
  it, a node name on action rows only (`rowOk`);
* rows merged into one node: an action row that carries the node name of an earlier action row is
  merged into that row's node (the input rows are marked by `CoreSheet.annotate`: `mergeAt`); it has
  exactly one edge, unconditional, with an explicit `from` (or no row id), from a row of that node
  (`pass1F` exists: the FUSED reading, in which the merged row has no node and no edge and its row id
  stands for the first row of its chain); the chain is a chain (`chainsOk`, checked on the two
  readings' edges): every row but the last is left by exactly that one edge into the next row, the
  out-edges of the last row are the fused reading's out-edges of the first row, and no edge of the
  fused reading enters a merged row (F-C02-d).  The reference has one node per row, the compiler one
  node per chain: the traces agree by node FUSION (`Flow.FuseOf`: a chain of nodes, each with
  actions, no decision and one exit to the next, corresponds to one node that performs their actions
  in order — an offset into its actions);
* `no_op` rows (junctions, performing no action): entered from rows that are not `no_op` rows (not by a
  `go_to`: the compiler rejects that), by any number of conditional or unconditional edges; left
  EITHER by exactly one unconditional edge into a row — then the compiler creates no node at all, the
  sources lead where that edge leads, while the reference has an empty node there (node ELISION:
  `Flow.DRel.skip`, a destination naming a node without action and decision corresponds to what that
  node's exit corresponds to) — OR by conditional edges naming one variable, followed by any number of
  unconditional ones (`noopShape`: conditional edges FIRST, the other order is the finding F-C02-b) —
  then both sides have a router node; between the first edge into a `no_op` row and the last edge
  leaving it its sources receive no other edge, a source waits for one `no_op` row at a time, and every
  `no_op` row that is entered is left (`noopSched`, a fold over the edges in sheet order); the flow
  does not start at a `no_op` row (`firstOk`);
* edges: any number of conditional or unconditional edges per row with explicit `from` row ids,
  blank `from` or `start` — chains, trees, joins, last-edge-wins defaults, tests appended in row
  order, "No Response" branches, buckets by name, fixed outcomes by word; an action row left
  conditionally gets a router node behind its node (two compiled nodes for one reference node);
* single-meaning conditions, each forced (negative witnesses below): `edgeOk` (no variable on an edge
  leaving a wait row; the reserved "no response" only on edges leaving a wait row; no generated
  bucket name used explicitly), `distinctTests`, `sameVars` (one variable per action row / `no_op` row),
  `freshNames` (an explicit category name is new when it is used).
Proof: lock-step simulation of the compiler machine and pass 1 of the reference (after every prefix
of the sheet, the arena nodes of row `j` are the compiled form of row `j` with the out-edges recorded
for `j`: `CoreSheet.Rel`; with `no_op` rows the compiler applies an edge INTO a junction only when an
edge LEAVES it, so the relation is kept against a schedule of the recorded edges in which such edges
appear when they take effect: `CoreSheet.Sched`, `RelN`, `rows_simN`; at the end of a sheet of the
fragment nothing is waiting and the schedule has, per source, the reference's edges in the
reference's order; a merged row adds its action to the node of the first row of its chain — the
`post` argument of `CoreSheet.RowSim`, `merge_row_simN`), then a bisimulation between the index-resolved abstractions of
the two flows in which a reference node may correspond to TWO compiled nodes and a chain of
reference nodes to ONE (`Flow.FuseOf`, `Flow.run_fuse`, generalising `Flow.SplitOf` / `Flow.run_split`; entering a node does not depend on the fuel once it exceeds the number of nodes:
`Flow.aEnter_stable`); identifiers do not matter (`Flow.trace_abs`), in a switch node built case by
case answer `c` leads where exit `c` leads (`Flow.Positional`, `Flow.CatsPos`).  Category names are
not observed (C02's level); `rnf`: whether result names are. -/
theorem compile_refines_reference (rnf : Bool) (testTypes : List Str)
    (rows : List CoreSheet.CRow) (out : Compile.Out) (r : Flow.Flow)
    (hF : CoreSheet.inFragment rows = true)
    (hc : Compile.compile RefFlow.noArgsTests testTypes (rows.map CoreSheet.toEvent) = .ok out)
    (hr : RefFlow.refFlow (rows.map CoreSheet.toRRow) = .ok r) :
    ∀ env n, trace ⟨false, rnf⟩ r env n = trace ⟨false, rnf⟩ (Compile.renderOut out) env n :=
  fun env n => CoreSheet.fragment_trace rnf testTypes rows out r hF hc hr env n

/-- the statement at the observation level of C02, with the source's table of tests without
argument (`tables_agree` below) -/
theorem C02_fragment (testTypes : List Str) (rows : List CoreSheet.CRow) (out : Compile.Out)
    (r : Flow.Flow) (hF : CoreSheet.inFragment rows = true)
    (hc : Compile.compile RefFlow.noArgsTests testTypes (rows.map CoreSheet.toEvent) = .ok out)
    (hr : RefFlow.refFlow (rows.map CoreSheet.toRRow) = .ok r) :
    ∀ env n, trace ⟨false, true⟩ r env n = trace ⟨false, true⟩ (Compile.renderOut out) env n :=
  compile_refines_reference true testTypes rows out r hF hc hr

/-- What is NOT proved universally: the same statement for every sheet the parser accepts, i.e.
with a weaker `wf` than `inFragment` (the documented single-meaning conditions DESIGN §5 C02 WF,
NoopStable).  Left out of the fragment: rows with a GIVEN node identifier (`_nodeId`: merging by
identifier, and the identifier arithmetic of F-C01-a), node names on rows that are not action rows,
chains of merged rows that are not chains (`chainsOk` is CHECKED on the edges of the two readings, not
derived from simpler conditions on the rows), blocks (`insert_as_block`, `begin_block` / `end_block`:
the block clause of C03), rows that do not stand for themselves in the documentation's table, and four
shapes of `no_op` rows on which the
two readings agree as far as explored but which the schedule of the proof does not cover (left by
several unconditional edges only; left unconditionally into an exit row; entered from a `no_op` row;
entered and never left) — every sheet the harness calls `noop_stable` is inside.  Decided per explored
sheet by `flows_equiv_of_cert` on the real output. -/
def C02_fragment_full (wf : List CoreSheet.CRow → Prop) : Prop :=
  ∀ (testTypes : List Str) (rows : List CoreSheet.CRow) (out : Compile.Out) (r : Flow.Flow),
    wf rows → Compile.compile RefFlow.noArgsTests testTypes (rows.map CoreSheet.toEvent) = .ok out →
    RefFlow.refFlow (rows.map CoreSheet.toRRow) = .ok r →
    ∀ env n, trace ⟨false, true⟩ r env n = trace ⟨false, true⟩ (Compile.renderOut out) env n

/-! #### non-vacuity and negative witnesses -/

/-- a row: id, type, edges (`from`, condition value), the content of its action; optional: the
`no_response` cell, the expression, a variable / category name on its conditional edges, a given
node identifier, a different action content in the documentation's table, the destinations of a
`go_to` row, a node name -/
def mkRow (id type : String) (edges : List (String × String)) (act : Option String) (nr : String := "")
    (expr : String := "") (var : String := "") (name : String := "") (uuid : String := "")
    (ract : Option String := none) (dests : List String := []) (nname : String := "") : CoreSheet.CRow :=
  { row := { rowId := id.toList, type := type.toList,
             edges := edges.map (fun (f, v) => ⟨f.toList, ⟨v.toList, if v = "" then [] else var.toList, [],
                                                          if v = "" then [] else name.toList⟩⟩),
             action := act.map String.toList, actionOk := true, ownAction := none, nodeUuid := uuid.toList,
             nodeName := nname.toList, saveName := "res".toList, noResponse := nr.toList, expression := expr.toList,
             flowName := [], dests := dests.map String.toList, resultKey := none, nodeOk := true },
    refAct := (match ract with | some x => some x | none => act).map String.toList }

/-- a row with fixed outcomes (`start_new_flow`, `call_webhook`, `transfer_airtime`): the content of
its own action, the key of the result it reads; optional: a different action content in the
documentation's table -/
def mkFix (id type : String) (edges : List (String × String)) (own : String) (key : Option String := none)
    (ract : Option String := none) : CoreSheet.CRow :=
  { row := { (mkRow id type edges none).row with ownAction := some own.toList, resultKey := key.map String.toList },
    refAct := some ((ract.getD own).toList) }

def exTests : List Str :=
  ["has_any_word".toList, "has_group".toList, "has_only_text".toList, "has_category".toList]

/-- a message, a wait with timeout left by two tests (the category of the first one named explicitly), an unconditional edge (default) and a
"No Response" edge, a join into a group split, a value split, joins, a `start_new_flow` row left
on Completed and on Expired, a `call_webhook` row left on Success and unconditionally (= Failure), a
`transfer_airtime` row left on Failure and on Success (any case of the letters), a `split_random`
row with a named bucket that is redirected later, an unnamed bucket and a second named bucket, a
`hard_exit`, a `go_to` with two
edges back to the first row (a cycle), a row after them with blank `from` (it follows the last
node-producing row), a `loose_exit`, an action row left on two tests of the reply and unconditionally
(the compiler creates a waiting router node behind its node), an action row left on two tests of a
variable (a router node that does not wait) -/
def exRows : List CoreSheet.CRow :=
  [ mkRow "a" "send_message" [("start", "")] (some "A"),
    mkRow "w" "wait_for_response" [("a", "")] none "60",
    mkRow "y" "send_message" [("w", "yes")] (some "Y") "" "" "" "Affirmative",
    mkRow "n" "send_message" [("w", "no")] (some "N"),
    mkRow "t" "send_message" [("w", "No Response")] (some "T"),
    mkRow "g" "split_by_group" [("y", ""), ("n", "")] none,
    mkRow "m" "send_message" [("g", "members"), ("w", "")] (some "M"),
    mkRow "v" "split_by_value" [("g", "")] none "" "@fields.x",
    mkRow "z" "send_message" [("v", "7"), ("t", "")] (some "Z"),
    mkFix "f" "start_new_flow" [("m", "")] "enter F",
    mkRow "fc" "send_message" [("f", "Completed")] (some "FC"),
    mkFix "h" "call_webhook" [("f", "expired"), ("fc", "")] "hook H" (some "res"),
    mkFix "p" "transfer_airtime" [("h", "Success")] "air P" (some "res"),
    mkRow "pf" "send_message" [("h", ""), ("p", "failure"), ("p", "SUCCESS")] (some "PF"),
    mkRow "s" "split_random" [("pf", "")] none,
    mkRow "s1" "send_message" [("s", "A")] (some "S1"),
    mkRow "s2" "send_message" [("s", "")] (some "S2"),
    mkRow "s3" "send_message" [("s", "A"), ("s", "B")] (some "S3"),
    mkRow "" "hard_exit" [("g", "")] none,
    mkRow "" "go_to" [("z", ""), ("v", "")] none "" "" "" "" "" none ["a"],
    mkRow "q" "send_message" [("", "")] (some "Q"),
    mkRow "" "loose_exit" [("q", "")] none,
    mkRow "qa" "send_message" [("q", "one")] (some "QA") "" "" "" "First",
    mkRow "qb" "send_message" [("q", "two"), ("q", "")] (some "QB") "" "" "" "Second",
    mkRow "u" "send_message" [("qa", ""), ("qb", "")] (some "U"),
    mkRow "ua" "send_message" [("u", "x")] (some "UA") "" "" "@fields.k",
    mkRow "ub" "send_message" [("u", "y")] (some "UB") "" "" "@fields.k" ]

/-- the two traces of a sheet (compiler model / reference) under an environment, when both exist -/
def bothTraces (rows : List CoreSheet.CRow) (env : Nat → Nat) (n : Nat) : Option (List Obs × List Obs) :=
  match Compile.compile RefFlow.noArgsTests exTests (rows.map CoreSheet.toEvent),
      RefFlow.refFlow (rows.map CoreSheet.toRRow) with
  | .ok out, .ok r => some (trace ⟨false, true⟩ (Compile.renderOut out) env n, trace ⟨false, true⟩ r env n)
  | _, _ => none

/-- non-vacuity: the sheet is in the fragment, the compiler model compiles it (26 nodes: two of the
action rows have a router node behind their node), the reference interpretation exists (24 nodes) -/
example : CoreSheet.inFragment exRows = true ∧
    (∃ out, Compile.compile RefFlow.noArgsTests exTests (exRows.map CoreSheet.toEvent) = .ok out ∧
      out.nodes.length = 26) ∧
    (∃ r, RefFlow.refFlow (exRows.map CoreSheet.toRRow) = .ok r ∧ r.nodes.length = 24) := by
  refine ⟨by decide +kernel, ?_, ?_⟩
  · have h : (match Compile.compile RefFlow.noArgsTests exTests (exRows.map CoreSheet.toEvent) with
        | .ok out => decide (out.nodes.length = 26) | .error _ => false) = true := by decide +kernel
    split at h
    · rename_i out ho; exact ⟨out, ho, by simpa using h⟩
    · cases h
  · have h : (match RefFlow.refFlow (exRows.map CoreSheet.toRRow) with
        | .ok r => decide (r.nodes.length = 24) | .error _ => false) = true := by decide +kernel
    split at h
    · rename_i r hr; exact ⟨r, hr, by simpa using h⟩
    · cases h

/-- … and, as the theorem says, the traces agree: checked here for four answer streams, the third one
passing the three rows with fixed outcomes and the `split_random` row, the fourth one the two action
rows that are left conditionally -/
example :
    (bothTraces exRows (fun k => k) 8).map (fun p => decide (p.1 = p.2)) = some true ∧
    (bothTraces exRows (fun k => 2 * k + 1) 8).map (fun p => decide (p.1 = p.2)) = some true :=
  ⟨by decide +kernel, by decide +kernel⟩

example :
    (bothTraces exRows (fun k => if k = 0 then 3 else if k = 2 then 1 else 0) 15).map
      (fun p => decide (p.1 = p.2 ∧ p.1.length = 15)) = some true ∧
    (bothTraces exRows (fun _ => 0) 24).map
      (fun p => decide (p.1 = p.2 ∧ Obs.act "QA".toList ∈ p.1 ∧ Obs.act "UA".toList ∈ p.1)) = some true :=
  ⟨by decide +kernel, by decide +kernel⟩

/-- `no_op` rows (junctions): `j` joins two rows and one test of the wait row and is left
unconditionally — the compiler creates NO node for it, its three sources lead to row `x` (the
reference interpretation has an empty node there); `k` joins a row and the default of the wait row and
is left on two tests of a variable, then unconditionally — a router node; a `go_to` closes two cycles -/
def exNoop : List CoreSheet.CRow :=
  [ mkRow "a" "send_message" [("start", "")] (some "A"),
    mkRow "w" "wait_for_response" [("a", "")] none,
    mkRow "y" "send_message" [("w", "yes")] (some "Y"),
    mkRow "n" "send_message" [("w", "no")] (some "N"),
    mkRow "j" "no_op" [("y", ""), ("n", ""), ("w", "maybe")] none,
    mkRow "x" "send_message" [("j", "")] (some "X"),
    mkRow "k" "no_op" [("x", ""), ("w", "")] none,
    mkRow "p" "send_message" [("k", "1")] (some "P") "" "" "@fields.v" "One",
    mkRow "q" "send_message" [("k", "2")] (some "Q") "" "" "@fields.v",
    mkRow "d" "send_message" [("k", "")] (some "D"),
    mkRow "" "go_to" [("d", ""), ("q", "")] none "" "" "" "" "" none ["a"] ]

/-- non-vacuity with `no_op` rows: in the fragment; 9 compiled nodes (none for `j`, a router for `k`),
10 reference nodes -/
example : CoreSheet.inFragment exNoop = true ∧
    (∃ out, Compile.compile RefFlow.noArgsTests exTests (exNoop.map CoreSheet.toEvent) = .ok out ∧
      out.nodes.length = 9) ∧
    (∃ r, RefFlow.refFlow (exNoop.map CoreSheet.toRRow) = .ok r ∧ r.nodes.length = 10) := by
  refine ⟨by decide +kernel, ?_, ?_⟩
  · have h : (match Compile.compile RefFlow.noArgsTests exTests (exNoop.map CoreSheet.toEvent) with
        | .ok out => decide (out.nodes.length = 9) | .error _ => false) = true := by decide +kernel
    split at h
    · rename_i out ho; exact ⟨out, ho, by simpa using h⟩
    · cases h
  · have h : (match RefFlow.refFlow (exNoop.map CoreSheet.toRRow) with
        | .ok r => decide (r.nodes.length = 10) | .error _ => false) = true := by decide +kernel
    split at h
    · rename_i r hr; exact ⟨r, hr, by simpa using h⟩
    · cases h

/-- … the traces agree: through the junction without a node into `X`, on through the junction with a
router node to its default `D` / its second test `Q`, and around the cycles -/
example :
    (bothTraces exNoop (fun k => k) 12).map (fun p => decide (p.1 = p.2 ∧ p.1.length = 12)) = some true ∧
    (bothTraces exNoop (fun _ => 2) 12).map
      (fun p => decide (p.1 = p.2 ∧ Obs.act "X".toList ∈ p.1 ∧ Obs.act "D".toList ∈ p.1)) = some true ∧
    (bothTraces exNoop (fun k => if k = 1 then 0 else 1) 12).map
      (fun p => decide (p.1 = p.2 ∧ Obs.act "X".toList ∈ p.1 ∧ Obs.act "Q".toList ∈ p.1)) = some true :=
  ⟨by decide +kernel, by decide +kernel, by decide +kernel⟩

/-- rows merged into one node by their node name: `a`, `b`, `c` (three actions in one node, left on a
test of the reply — the router node the compiler puts behind the merged node — and unconditionally),
`d`, `e`, and `g` with the row after it (blank `from`, no row id); a `go_to` back to the first row of
a chain -/
def exMerge : List CoreSheet.CRow :=
  [ mkRow "a" "send_message" [("start", "")] (some "A") (nname := "X"),
    mkRow "b" "add_to_group" [("a", "")] (some "B") (nname := "X"),
    mkRow "c" "send_message" [("b", "")] (some "C") (nname := "X"),
    mkRow "d" "send_message" [("c", "yes")] (some "D") (nname := "Y"),
    mkRow "e" "send_message" [("d", "")] (some "E") (nname := "Y"),
    mkRow "f" "send_message" [("c", ""), ("e", "")] (some "F"),
    mkRow "w" "wait_for_response" [("f", "")] none,
    mkRow "" "go_to" [("w", "again")] none (dests := ["a"]),
    mkRow "g" "send_message" [("w", "")] (some "G") (nname := "Z"),
    mkRow "" "send_message" [("", "")] (some "H") (nname := "Z") ]

/-- non-vacuity with merged rows: in the fragment; 6 compiled nodes (one per chain, the router behind
the first chain, `f`, `w`), 9 reference nodes (one per row) -/
example : CoreSheet.inFragment exMerge = true ∧
    (∃ out, Compile.compile RefFlow.noArgsTests exTests (exMerge.map CoreSheet.toEvent) = .ok out ∧
      out.nodes.length = 6) ∧
    (∃ r, RefFlow.refFlow (exMerge.map CoreSheet.toRRow) = .ok r ∧ r.nodes.length = 9) := by
  refine ⟨by decide +kernel, ?_, ?_⟩
  · have h : (match Compile.compile RefFlow.noArgsTests exTests (exMerge.map CoreSheet.toEvent) with
        | .ok out => decide (out.nodes.length = 6) | .error _ => false) = true := by decide +kernel
    split at h
    · rename_i out ho; exact ⟨out, ho, by simpa using h⟩
    · cases h
  · have h : (match RefFlow.refFlow (exMerge.map CoreSheet.toRRow) with
        | .ok r => decide (r.nodes.length = 9) | .error _ => false) = true := by decide +kernel
    split at h
    · rename_i r hr; exact ⟨r, hr, by simpa using h⟩
    · cases h

/-- … the traces agree: around the cycle through all three chains' first, and through the defaults to
the end of the flow -/
example :
    (bothTraces exMerge (fun _ => 0) 12).map
      (fun p => decide (p.1 = p.2 ∧ p.1.length = 12 ∧ Obs.act "E".toList ∈ p.1)) = some true ∧
    (bothTraces exMerge (fun _ => 1) 12).map
      (fun p => decide (p.1 = p.2 ∧ p.1.length = 8 ∧ Obs.act "H".toList ∈ p.1)) = some true :=
  ⟨by decide +kernel, by decide +kernel⟩

/-- outside the fragment, with both readings defined and the traces DIFFERENT (on the answer stream
`env`) -/
def refutedAt (rows : List CoreSheet.CRow) (env : Nat → Nat) (n : Nat) : Bool :=
  !CoreSheet.inFragment rows &&
  match bothTraces rows env n with
  | some p => decide (p.1 ≠ p.2)
  | none => false

/-- … on the stream of first answers -/
def refuted (rows : List CoreSheet.CRow) (n : Nat) : Bool := refutedAt rows (fun _ => 0) n

/-- outside the fragment, both readings defined, and the traces EQUAL on the stream of first answers:
a clause the proof needs but this sheet does not show to be forced -/
def agreesOutside (rows : List CoreSheet.CRow) (n : Nat) : Bool :=
  !CoreSheet.inFragment rows &&
  match bothTraces rows (fun _ => 0) n with
  | some p => decide (p.1 = p.2)
  | none => false

/-- clause "the action the compiler attaches is the one the documentation describes" (the part of
C02 that is about action content, a parameter of both models) -/
theorem fragment_needs_same_action :
    refuted [mkRow "a" "send_message" [("start", "")] (some "A") "" "" "" "" "" (some "B")] 1 = true := by
  decide +kernel

/-- clause "a row with fixed outcomes performs its own action, as the documentation describes it" -/
theorem fragment_needs_same_own_action :
    refuted [mkFix "f" "start_new_flow" [("start", "")] "enter F" none (some "enter G")] 1 = true := by
  decide +kernel

/-- clause "a bucket of a `split_random` row is not given a name the compiler generates" (`Bucket N`):
the compiler takes the named edge for the unnamed bucket it numbered so, the documentation for a new
bucket -/
theorem fragment_needs_no_generated_bucket_name :
    refuted [mkRow "r" "split_random" [("start", "")] none,
             mkRow "x" "send_message" [("r", "")] (some "X"),
             mkRow "y" "send_message" [("r", "Bucket 2")] (some "Y")] 3 = true := by
  decide +kernel

/-- the same clause for the names the reference interpretation generates (`#n`) -/
theorem fragment_needs_no_hash_bucket_name :
    refuted [mkRow "r" "split_random" [("start", "")] none,
             mkRow "x" "send_message" [("r", "")] (some "X"),
             mkRow "y" "send_message" [("r", "#0")] (some "Y")] 3 = true := by
  decide +kernel

/-- clause `freshNames`: an explicit category name that is in use — here the name of the default
category — makes the compiler share that category -/
theorem fragment_needs_fresh_category_name :
    refuted [mkRow "w" "wait_for_response" [("start", "")] none,
             mkRow "y" "send_message" [("w", "yes")] (some "Y") "" "" "" "Other",
             mkRow "n" "send_message" [("w", "")] (some "N")] 3 = true := by
  decide +kernel

/-- the same clause: the explicit name is the one GENERATED for an earlier test -/
theorem fragment_needs_no_generated_category_name :
    refuted [mkRow "w" "wait_for_response" [("start", "")] none,
             mkRow "y" "send_message" [("w", "yes")] (some "Y"),
             mkRow "n" "send_message" [("w", "no")] (some "N") "" "" "" "Yes"] 3 = true := by
  decide +kernel

/-- clause "the conditional edges leaving one action row name the same variable": the router the
compiler puts behind the node decides on the variable named LAST, the documentation on the one named
first -/
theorem fragment_needs_same_variable :
    refuted [mkRow "a" "send_message" [("start", "")] (some "A"),
             mkRow "y" "send_message" [("a", "yes")] (some "Y") "" "" "@fields.x",
             mkRow "n" "send_message" [("a", "no")] (some "N") "" "" "@fields.y"] 3 = true := by
  decide +kernel

/-- clause "a condition on an edge leaving an action row is not the reserved `no response`": the
compiler drops such an edge once the router node exists (a warning), the documentation reads a test -/
theorem fragment_needs_no_noresponse_on_action :
    refuted [mkRow "a" "send_message" [("start", "")] (some "A"),
             mkRow "y" "send_message" [("a", "yes")] (some "Y"),
             mkRow "t" "send_message" [("a", "No Response")] (some "T")] 3 = true := by
  decide +kernel

/-- clause `distinctTests` for action rows -/
theorem fragment_needs_distinct_tests_on_action :
    refuted [mkRow "a" "send_message" [("start", "")] (some "A"),
             mkRow "y" "send_message" [("a", "yes")] (some "Y"),
             mkRow "n" "send_message" [("a", "yes")] (some "N")] 4 = true := by
  decide +kernel

/-- clause "no node identifier is given": a given `_nodeId` that collides with an identifier the
compiler invents later (`~4` becomes the identifier of the second row's node) makes the first node
lead to itself — the compiled flow repeats A, the rows say A then B -/
theorem fragment_needs_no_given_id :
    refuted [mkRow "a" "send_message" [("start", "")] (some "A") "" "" "" "" "~4",
             mkRow "b" "send_message" [("a", "")] (some "B")] 3 = true := by
  decide +kernel

/-- clause `distinctTests`: the same test twice on the edges leaving one row — the compiler reads
"same case, new destination" (the answer now leads to the second row), the rows read a second,
unreachable test -/
theorem fragment_needs_distinct_tests :
    refuted [mkRow "w" "wait_for_response" [("start", "")] none,
             mkRow "y" "send_message" [("w", "yes")] (some "Y"),
             mkRow "n" "send_message" [("w", "yes")] (some "N")] 3 = true := by
  decide +kernel

/-- clause `edgeOk`, `wait_for_response`: a condition that names a variable replaces the operand of
the wait node (the decision is no longer about the reply) -/
theorem fragment_needs_no_variable_on_wait :
    refuted [mkRow "w" "wait_for_response" [("start", "")] none,
             mkRow "y" "send_message" [("w", "yes")] (some "Y") "" "" "@fields.x"] 3 = true := by
  decide +kernel

/-- clause `edgeOk`, category names: two tests given the same category name share one category, hence
one destination (the last) -/
theorem fragment_needs_no_shared_category_name :
    refuted [mkRow "w" "wait_for_response" [("start", "")] none,
             mkRow "y" "send_message" [("w", "yes")] (some "Y") "" "" "" "Cat",
             mkRow "n" "send_message" [("w", "no")] (some "N") "" "" "" "Cat"] 3 = true := by
  decide +kernel

/-- clause `edgeOk`, split rows: the reserved condition "no response" on an edge leaving a split row
is dropped by the compiler (there is no timeout) and read as a test by the rows -/
theorem fragment_needs_no_noresponse_on_split :
    refuted [mkRow "v" "split_by_value" [("start", "")] none "" "@fields.x",
             mkRow "y" "send_message" [("v", "no response")] (some "Y")] 3 = true := by
  decide +kernel

/-! ##### `no_op` rows -/

/-- clause `noopShape`, conditional edges first — the recorded finding **F-C02-b** (the sheet of
`harness/props/c02.py F_C02_B`): a `no_op` row left unconditionally in a row BEFORE the row that leaves
it conditionally loses the unconditional target; on an answer that matches no test the compiled flow
ends after the decision, the rows lead on to `r2`.  (The opposite row order is in the fragment.) -/
theorem fragment_needs_noop_conditions_first :
    refutedAt [mkRow "r1" "send_message" [("start", "")] (some "hello"),
               mkRow "n" "no_op" [("r1", "")] none,
               mkRow "r2" "send_message" [("n", "")] (some "unconditional target"),
               mkRow "r3" "send_message" [("n", "yes")] (some "conditional target") "" "" "@fields.x"]
      (fun _ => 1) 3 = true := by
  decide +kernel

/-- … and the opposite order is inside -/
example : CoreSheet.inFragment
    [mkRow "r1" "send_message" [("start", "")] (some "hello"),
     mkRow "n" "no_op" [("r1", "")] none,
     mkRow "r3" "send_message" [("n", "yes")] (some "conditional target") "" "" "@fields.x",
     mkRow "r2" "send_message" [("n", "")] (some "unconditional target")] = true := by
  decide +kernel

/-- clause `noopSched`: a source of a `no_op` row receives no other edge before the `no_op` row is
left — the compiler re-connects the source when the junction is left (so `a` leads to `Y`), the rows
say the later edge wins (`a` leads to `X`) -/
theorem fragment_needs_noop_left_before_its_sources_move :
    refuted [mkRow "a" "send_message" [("start", "")] (some "A"),
             mkRow "n" "no_op" [("a", "")] none,
             mkRow "x" "send_message" [("a", "")] (some "X"),
             mkRow "y" "send_message" [("n", "")] (some "Y")] 3 = true := by
  decide +kernel

/-- clause `noopSched`, at the end no edge is waiting: an edge into a `no_op` row that is never left
does not take effect in the compiled flow (`a` still leads to `X`), for the rows it is `a`'s last edge
(the path ends in the junction) -/
theorem fragment_needs_noop_left :
    refuted [mkRow "a" "send_message" [("start", "")] (some "A"),
             mkRow "x" "send_message" [("a", "")] (some "X"),
             mkRow "n" "no_op" [("a", "")] none] 3 = true := by
  decide +kernel

/-- clause `noopSched`, one waiting junction per source: with two, the one left LAST wins in the
compiled flow (`a` leads to `X`), the one entered last for the rows (`a` leads to `Y`) -/
theorem fragment_needs_one_waiting_noop_per_source :
    refuted [mkRow "a" "send_message" [("start", "")] (some "A"),
             mkRow "n" "no_op" [("a", "")] none,
             mkRow "m" "no_op" [("a", "")] none,
             mkRow "y" "send_message" [("m", "")] (some "Y"),
             mkRow "x" "send_message" [("n", "")] (some "X")] 3 = true := by
  decide +kernel

/-- clause `firstOk`: a `no_op` row that is left unconditionally has no node, so it cannot be where the
flow starts — the compiled flow starts at the first node there is (`X`), the rows at the junction
(which leads to `Y`) -/
theorem fragment_needs_first_row_not_noop :
    refuted [mkRow "n" "no_op" [("start", "")] none,
             mkRow "x" "send_message" [("start", "")] (some "X"),
             mkRow "y" "send_message" [("n", "")] (some "Y")] 2 = true := by
  decide +kernel

/-- clause `sameVars` for `no_op` rows: one decision, one variable (the compiler takes the one named
last) -/
theorem fragment_needs_same_variable_on_noop :
    refuted [mkRow "a" "send_message" [("start", "")] (some "A"),
             mkRow "n" "no_op" [("a", "")] none,
             mkRow "x" "send_message" [("n", "1")] (some "X") "" "" "@fields.k",
             mkRow "y" "send_message" [("n", "2")] (some "Y") "" "" "@fields.j"] 3 = true := by
  decide +kernel

/-- clause `distinctTests` for `no_op` rows -/
theorem fragment_needs_distinct_tests_on_noop :
    refuted [mkRow "a" "send_message" [("start", "")] (some "A"),
             mkRow "n" "no_op" [("a", "")] none,
             mkRow "x" "send_message" [("n", "1")] (some "X") "" "" "@fields.k",
             mkRow "y" "send_message" [("n", "1")] (some "Y") "" "" "@fields.k"] 4 = true := by
  decide +kernel

/-- clause `freshNames` for `no_op` rows: an explicit category name in use (the default's) -/
theorem fragment_needs_fresh_category_name_on_noop :
    refuted [mkRow "a" "send_message" [("start", "")] (some "A"),
             mkRow "n" "no_op" [("a", "")] none,
             mkRow "x" "send_message" [("n", "1")] (some "X") "" "" "@fields.k" "Other",
             mkRow "y" "send_message" [("n", "")] (some "Y")] 4 = true := by
  decide +kernel

/-- clause `noopRow`: a `no_op` row performs no action (in the documentation's table either) -/
theorem fragment_needs_noop_without_action :
    refuted [mkRow "a" "send_message" [("start", "")] (some "A"),
             mkRow "n" "no_op" [("a", "")] none "" "" "" "" "" (some "N"),
             mkRow "x" "send_message" [("n", "")] (some "X")] 3 = true := by
  decide +kernel

/-- NOT shown to be forced (the proof needs them; on these sheets the two readings agree): a `no_op`
row left by two unconditional edges (the last one wins on both sides), a `no_op` row left
unconditionally into an exit row, a `no_op` row entered from a `no_op` row (a chain), a `no_op` row that
is never left and is the only edge of its source.  A conditional edge leaving a `no_op` row without
naming a variable is rejected by the compiler (and its model), as is a `go_to` into a `no_op` row. -/
example :
    agreesOutside [mkRow "a" "send_message" [("start", "")] (some "A"),
                   mkRow "n" "no_op" [("a", "")] none,
                   mkRow "x" "send_message" [("n", "")] (some "X"),
                   mkRow "y" "send_message" [("n", "")] (some "Y")] 4 = true ∧
    agreesOutside [mkRow "a" "send_message" [("start", "")] (some "A"),
                   mkRow "n" "no_op" [("a", "")] none,
                   mkRow "" "hard_exit" [("n", "")] none] 4 = true ∧
    agreesOutside [mkRow "a" "send_message" [("start", "")] (some "A"),
                   mkRow "n" "no_op" [("a", "")] none,
                   mkRow "m" "no_op" [("n", "")] none,
                   mkRow "x" "send_message" [("m", "")] (some "X")] 4 = true ∧
    agreesOutside [mkRow "a" "send_message" [("start", "")] (some "A"),
                   mkRow "n" "no_op" [("a", "")] none] 4 = true ∧
    (CoreSheet.inFragment [mkRow "a" "send_message" [("start", "")] (some "A"),
                           mkRow "n" "no_op" [("a", "")] none,
                           mkRow "x" "send_message" [("n", "1")] (some "X")] = false ∧
     bothTraces [mkRow "a" "send_message" [("start", "")] (some "A"),
                 mkRow "n" "no_op" [("a", "")] none,
                 mkRow "x" "send_message" [("n", "1")] (some "X")] (fun _ => 0) 4 = none) :=
  ⟨by decide +kernel, by decide +kernel, by decide +kernel, by decide +kernel, by decide +kernel, by decide +kernel⟩

/-! ##### rows merged into an existing node by node name -/

/-- the recorded finding **F-C02-d** (the sheet of `harness/props/c02.py F_C02_D`): a `go_to` row that
names a row MERGED into an existing node enters that node at its first action — after the answer
"again" the compiled flow performs `first action` once more, the rows continue at `second action` -/
theorem merged_row_entered_replays_earlier_actions :
    refuted [mkRow "a" "send_message" [("start", "")] (some "first action") (nname := "X"),
             mkRow "b" "send_message" [("a", "")] (some "second action") (nname := "X"),
             mkRow "w" "wait_for_response" [("b", "")] none,
             mkRow "" "go_to" [("w", "again")] none (dests := ["b"])] 4 = true := by
  decide +kernel

/-- the recorded finding **F-C02-e** (the sheet of `harness/props/c02.py F_C02_E`): an action row that
carries the node name of a `wait_for_response` row and follows it unconditionally is merged into the
ROUTER node — the compiled flow performs its action BEFORE waiting, the rows say after the wait, on the
default branch -/
theorem action_merged_into_router_runs_before_decision :
    refuted [mkRow "a" "send_message" [("start", "")] (some "hello"),
             mkRow "w" "wait_for_response" [("a", "")] none (nname := "X"),
             mkRow "b" "send_message" [("w", "")] (some "after the wait") (nname := "X"),
             mkRow "c" "send_message" [("w", "yes")] (some "on yes")] 2 = true := by
  decide +kernel

/-- clause `chainsOk`, the row merged behind has no other out-edge: with a second unconditional edge
the rows say "the last edge wins" (`A`, then `C`), the merged node performs `A`, `B` -/
theorem fragment_needs_chain_row_single_edge :
    refuted [mkRow "a" "send_message" [("start", "")] (some "A") (nname := "X"),
             mkRow "b" "send_message" [("a", "")] (some "B") (nname := "X"),
             mkRow "c" "send_message" [("a", "")] (some "C")] 3 = true := by
  decide +kernel

/-- … nor a conditional one: the rows decide after `A`, the merged node performs `B` first -/
theorem fragment_needs_chain_row_unconditional :
    refuted [mkRow "a" "send_message" [("start", "")] (some "A") (nname := "X"),
             mkRow "b" "send_message" [("a", "")] (some "B") (nname := "X"),
             mkRow "c" "send_message" [("a", "yes")] (some "C")] 3 = true := by
  decide +kernel

/-- clause `chainsOk`, a chain is a chain: a row merged behind the FIRST row of a chain that has a
second row already (both lead on from `a`: for the rows only the last edge counts) -/
theorem fragment_needs_linear_chain :
    refuted [mkRow "a" "send_message" [("start", "")] (some "A") (nname := "X"),
             mkRow "b" "send_message" [("a", "")] (some "B") (nname := "X"),
             mkRow "c" "send_message" [("a", "")] (some "C") (nname := "X")] 4 = true := by
  decide +kernel

/-- clause `chainsOk`, a blank `from` after a merged row: the compiler takes the last row that created a
node GROUP (`z`), the rows the row before (`b`) -/
theorem fragment_needs_explicit_from_after_detached_merge :
    refuted [mkRow "a" "send_message" [("start", "")] (some "A") (nname := "X"),
             mkRow "z" "send_message" [("start", "")] (some "Z"),
             mkRow "b" "send_message" [("a", "")] (some "B") (nname := "X"),
             mkRow "d" "send_message" [("", "")] (some "D")] 4 = true := by
  decide +kernel

/-- … with an explicit `from` the same sheet is inside -/
example : CoreSheet.inFragment
    [mkRow "a" "send_message" [("start", "")] (some "A") (nname := "X"),
     mkRow "z" "send_message" [("start", "")] (some "Z"),
     mkRow "b" "send_message" [("a", "")] (some "B") (nname := "X"),
     mkRow "d" "send_message" [("b", "")] (some "D")] = true := by
  decide +kernel

/-- the clauses about merged rows restrict nothing where no row is merged: the fused reading of such
a sheet is its reference reading, and `chainsOk` holds by itself (so on sheets without node names the
fragment is given by the conditions on rows, edges and `no_op` rows alone) -/
theorem merged_row_clauses_trivial_without_merged_rows (rows : List CoreSheet.CRow)
    (h : ∀ c ∈ rows, (c.merged && CoreSheet.isNamedAct c) = false) :
    CoreSheet.pass1F rows = RefFlow.pass1 (rows.map CoreSheet.toRRow) ∧
    ∀ out, RefFlow.pass1 (rows.map CoreSheet.toRRow) = .ok out → CoreSheet.chainsOk rows out out = true :=
  ⟨CoreSheet.pass1F_unmerged rows h, fun out hp => CoreSheet.chainsOk_unmerged rows h out hp⟩

/-- non-vacuity: the rows of `exRows` (marked) are such a sheet -/
example : ∀ c ∈ CoreSheet.annotate exRows, (c.merged && CoreSheet.isNamedAct c) = false := by decide +kernel

/-- T1: the tests without argument of the reference interpretation are the source's
`RouterCase.NO_ARGS_TESTS` (re-extracted on every run). -/
theorem tables_agree : Gen.routerNoArgsTests = RefFlow.noArgsTests := by decide

/-! ### the reference interpretation is itself well formed, for every sheet -/

/-- **The meaning of the rows is always a closed flow**: for EVERY list of rows (any length, any
edges, any `go_to`s, cycles included) for which the reference interpretation exists (every `from`
and every `go_to` destination names an earlier node-producing row), the reference flow satisfies
the closure statement of C01 — unique node identifiers, every exit leads nowhere or to a node of
the flow, every router closed, all identifiers distinct.  So a path of the reference semantics
never ends because of a structural fault of the reference itself: a difference found by the
certificate checker is a difference of the compiled flow. -/
theorem reference_flow_closed (rows : List RefFlow.RRow) (f : Flow.Flow)
    (h : RefFlow.refFlow rows = .ok f) : Flow.Closed f :=
  RefFlow.refFlow_closed rows f h

/-- …and every target the first pass records is a node-producing row of the sheet. -/
theorem reference_targets_are_rows (rows : List RefFlow.RRow) (out : List RefFlow.OutEdge)
    (h : RefFlow.pass1 rows = .ok out) : ∀ e ∈ out, RefFlow.TgtOk rows e.tgt :=
  RefFlow.pass1_targets rows out h

/-- non-vacuity: a sheet with an action row, a wait row with two cases and a timeout, a `go_to`
back to the first row (a cycle) and a `hard_exit` has a reference flow -/
def exSheet : List RefFlow.RRow :=
  let c0 : RefFlow.Cond := ⟨[], [], [], []⟩
  [ { rowId := "1".toList, kind := .action, edges := [⟨"start".toList, c0⟩], act := some "hi".toList,
      operand := [], saveName := [], timeout := 0, dests := [] },
    { rowId := "2".toList, kind := .wait, edges := [⟨[], c0⟩], act := none,
      operand := "@input.text".toList, saveName := "r".toList, timeout := 60, dests := [] },
    { rowId := [], kind := .goTo, edges := [⟨"2".toList, ⟨"a".toList, [], [], []⟩⟩], act := none,
      operand := [], saveName := [], timeout := 0, dests := ["1".toList] },
    { rowId := [], kind := .hardExit, edges := [⟨"2".toList, ⟨"No Response".toList, [], [], []⟩⟩], act := none,
      operand := [], saveName := [], timeout := 0, dests := [] } ]

example : ((RefFlow.refFlow exSheet).toOption.map (·.nodes.length)) = some 2 := by decide +kernel

def badSheet : List RefFlow.RRow :=
  [ { rowId := [], kind := .goTo, edges := [⟨"start".toList, ⟨[], [], [], []⟩⟩], act := none,
      operand := [], saveName := [], timeout := 0, dests := ["nowhere".toList] } ]

/-- the hypothesis is needed and exact: a `go_to` naming a row that does not exist has no
reference interpretation (the real compiler rejects such a sheet as well) -/
theorem reference_needs_known_rows : (RefFlow.refFlow badSheet).toOption = none := by
  decide +kernel

end Rpft.Props.C02
