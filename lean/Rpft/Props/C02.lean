/-
C02 — the compiled flow has exactly the control flow the sheet rows describe.

Two halves.  (1) For ALL infinite answer sequences of the simulated contact: a certificate
accepted by `certOk` implies equal traces (`validCert_sound`, `flows_equiv_of_cert`) — the
checker is run on every real compiler output against the reference interpretation
`RefFlow.refFlow` of the same parsed rows.  (2) For all sheets: see `C02_full` below — the
universal claim over sheets needs the compiler model (M4) and is discharged per sheet by (1);
for ALL sheets of the fragment `CoreSheet.inFragment` it is PROVED with the Lean compiler model in
place of the real compiler: `compile_refines_reference` / `C02_fragment` (lock-step simulation of
the compiler machine and the reference's pass 1 + traces depend only on the index-resolved
abstraction of a flow); `C02_fragment_full` names what is left.
-/
import Rpft.Lemmas.Bisim
import Rpft.FlowSys
import Rpft.RefFlow
import Rpft.Lemmas.RefFlowClosed
import Rpft.Gen.Tables
import Rpft.Lemmas.CoreSim2
set_option linter.unusedSimpArgs false
set_option linter.unusedVariables false
namespace Rpft.Props.C02
open Rpft Rpft.Bisim Rpft.Flow

/-- **Soundness of the bisimulation certificate checker**, for arbitrary deterministic
observable systems: an accepted certificate gives equal observation sequences for every
environment and every length. -/
theorem validCert_sound {S T O : Type} [DecidableEq S] [DecidableEq T] [DecidableEq O]
    (A : Sys S O) (B : Sys T O) (R : List (S × T)) (s0 : Option S) (t0 : Option T)
    (h : validCert A B R s0 t0 = true) :
    ∀ (env : Nat → Nat) (n : Nat), run A s0 env n = run B t0 env n := by
  simp only [validCert, Bool.and_eq_true] at h
  intro env n
  exact sound_aux A B R h.2 n s0 t0 env h.1

/-- **Flows**: if the checker accepts `R` for flows `a` and `b` at observation level `lvl`,
then for every answer stream and every length the contact observes the same actions in
the same order and faces the same decisions. -/
theorem flows_equiv_of_cert (lvl : ObsLevel) (a b : Flow.Flow) (R : List (St × St))
    (h : certOk lvl a b R = true) :
    ∀ (env : Nat → Nat) (n : Nat), trace lvl a env n = trace lvl b env n :=
  validCert_sound _ _ R _ _ h

/-- Trace equivalence is an equivalence relation (so chains of comparisons compose:
sugared ≈ desugared ≈ reference). -/
theorem trace_equiv_trans (lvl : ObsLevel) (a b c : Flow.Flow)
    (h1 : ∀ env n, trace lvl a env n = trace lvl b env n)
    (h2 : ∀ env n, trace lvl b env n = trace lvl c env n) :
    ∀ env n, trace lvl a env n = trace lvl c env n :=
  fun env n => (h1 env n).trans (h2 env n)

/-! ### observation levels are ordered: full-level equivalence implies every coarser one -/

/-- forget what a coarser level does not observe -/
def coarsenRouter (lvl : ObsLevel) (r : RouterObs) : RouterObs :=
  { r with caseCats := if lvl.catNames then r.caseCats else []
           otherCats := if lvl.catNames then r.otherCats else []
           resultName := if lvl.resultName then r.resultName else none }

def coarsen (lvl : ObsLevel) : Obs → Obs
  | .act a => .act a
  | .ask r => .ask (coarsenRouter lvl r)
  | .diverge => .diverge

theorem routerObs_coarsen (lvl : ObsLevel) (r : Router) :
    routerObs lvl r = coarsenRouter lvl (routerObs ⟨true, true⟩ r) := by
  cases r with
  | «switch» o cs cats d w rn =>
    cases hc : lvl.catNames <;> cases hr : lvl.resultName <;>
      simp [routerObs, coarsenRouter, hc, hr]
  | random cats rn =>
    cases hc : lvl.catNames <;> cases hr : lvl.resultName <;>
      simp [routerObs, coarsenRouter, hc, hr]

theorem obsAt_coarsen (lvl : ObsLevel) (f : Flow.Flow) (s : St) :
    obsAt lvl f s = coarsen lvl (obsAt ⟨true, true⟩ f s) := by
  cases s with
  | div => rfl
  | «at» p =>
    simp only [obsAt]
    cases f.nodes[p.node]? with
    | none => rfl
    | some n =>
      simp only
      cases n.actions[p.k]? with
      | some a => rfl
      | none =>
        simp only
        cases n.router with
        | none => rfl
        | some r => simp [coarsen, routerObs_coarsen lvl r]

theorem run_coarsen (lvl : ObsLevel) (f : Flow.Flow) :
    ∀ (n : Nat) (s : Option St) (env : Nat → Nat),
      run (flowSys lvl f) s env n = (run (flowSys ⟨true, true⟩ f) s env n).map (coarsen lvl) := by
  intro n
  induction n with
  | zero => intro s env; cases s <;> rfl
  | succ n ih =>
    intro s env
    cases s with
    | none => rfl
    | some st =>
      simp only [run, List.map_cons]
      have h1 : (flowSys lvl f).obs st = coarsen lvl ((flowSys ⟨true, true⟩ f).obs st) :=
        obsAt_coarsen lvl f st
      have h2 : (flowSys lvl f).step st (env 0) = (flowSys ⟨true, true⟩ f).step st (env 0) := rfl
      rw [h1, h2, ih]

/-- Equivalence at the full observation level (what C03 establishes) implies equivalence at
every coarser level (what C02 and C04 state): the levels only forget. -/
theorem full_equiv_implies_any_level (lvl : ObsLevel) (a b : Flow.Flow)
    (h : ∀ env n, trace ⟨true, true⟩ a env n = trace ⟨true, true⟩ b env n) :
    ∀ env n, trace lvl a env n = trace lvl b env n := by
  intro env n
  unfold trace at h ⊢
  rw [run_coarsen lvl a, run_coarsen lvl b, h env n]

/-- The certificate check is not vacuous: it rejects flows that differ in one observation.
Two one-node flows sending different texts have no certificate whatsoever. -/
def oneMsg (t : String) : Flow.Flow :=
  { uuid := [], name := [],
    nodes := [{ uuid := "n".toList, actions := [{ uuid := "a".toList, obs := t.toList }],
                router := none, exits := [{ uuid := "e".toList, dest := none }] }] }

theorem cert_rejects_different_action (R : List (St × St)) :
    certOk ⟨true, true⟩ (oneMsg "x") (oneMsg "y") R = false := by
  have hne : trace ⟨true, true⟩ (oneMsg "x") (fun _ => 0) 1 ≠
      trace ⟨true, true⟩ (oneMsg "y") (fun _ => 0) 1 := by decide
  cases h : certOk ⟨true, true⟩ (oneMsg "x") (oneMsg "y") R with
  | false => rfl
  | true => exact absurd (flows_equiv_of_cert _ _ _ R h (fun _ => 0) 1) hne

/-- …and accepts a flow against itself (non-vacuity of the hypothesis of `flows_equiv_of_cert`). -/
example : certOk ⟨true, true⟩ (oneMsg "x") (oneMsg "x") [(.at ⟨0, 0⟩, .at ⟨0, 0⟩)] = true := by decide

/-- The full statement of C02 over sheets: for every well-formed core sheet whose rows the
real compiler accepts, the compiled flow is trace-equivalent to the reference
interpretation.  `compile` is the real compiler (a parameter here: its Lean model is M4);
per sheet this is decided by `flows_equiv_of_cert` on the real output. -/
def C02_full (compile : List RefFlow.RRow → Option Flow.Flow) : Prop :=
  ∀ rows f r, compile rows = some f → RefFlow.refFlow rows = .ok r →
    ∀ env n, trace ⟨false, true⟩ r env n = trace ⟨false, true⟩ f env n

/-! ### the universal refinement theorem on a fragment of core sheets -/

/-- **C02 for ALL sheets of the fragment** (`C02_full` with the Lean compiler model — tied to the
real parser by exact comparison, C01 — in place of the abstract `compile`, restricted to
`CoreSheet.inFragment`): whatever the rows, as long as they are in the fragment, if the compiler
model compiles the sheet and the reference interpretation exists, then for EVERY stream of
environment answers and every length the contact observes the same actions in the same order and
faces the same decisions in the compiled flow as in the meaning of the rows.  Both readings are
taken from ONE list of parsed rows (`CoreSheet.CRow`; `toEvent` / `toRRow` are cross-checked
against the inputs the harness builds on every explored sheet).  Proof: lock-step simulation of the
compiler machine and pass 1 of the reference (after every prefix of the sheet, arena node `j` is
the compiled form of row `j` with the out-edges recorded for `j`), then equality of the
index-resolved abstractions of the two flows (`Flow.trace_eq_of_abs`: identifiers do not matter).
Holds at every observation level. -/
theorem compile_refines_reference (lvl : ObsLevel) (noArgs testTypes : List Str)
    (rows : List CoreSheet.CRow) (out : Compile.Out) (r : Flow.Flow)
    (hF : CoreSheet.inFragment rows = true)
    (hc : Compile.compile noArgs testTypes (rows.map CoreSheet.toEvent) = .ok out)
    (hr : RefFlow.refFlow (rows.map CoreSheet.toRRow) = .ok r) :
    ∀ env n, trace lvl r env n = trace lvl (Compile.renderOut out) env n :=
  fun env n => trace_eq_of_abs lvl _ _ (CoreSheet.fragment_abs lvl noArgs testTypes rows out r hF hc hr) env n

/-- the statement at the observation level of C02 -/
theorem C02_fragment (noArgs testTypes : List Str) (rows : List CoreSheet.CRow) (out : Compile.Out)
    (r : Flow.Flow) (hF : CoreSheet.inFragment rows = true)
    (hc : Compile.compile noArgs testTypes (rows.map CoreSheet.toEvent) = .ok out)
    (hr : RefFlow.refFlow (rows.map CoreSheet.toRRow) = .ok r) :
    ∀ env n, trace ⟨false, true⟩ r env n = trace ⟨false, true⟩ (Compile.renderOut out) env n :=
  compile_refines_reference ⟨false, true⟩ noArgs testTypes rows out r hF hc hr

/-- What is NOT proved universally: the same statement for every sheet the parser accepts, i.e.
without `inFragment` but under the documented single-meaning conditions (DESIGN §5 C02 WF,
NoopStable) — conditional edges leaving action rows (a router node is created behind the action:
two compiled nodes for one reference node), sub-flow / webhook / airtime rows, `go_to`,
`hard_exit` / `loose_exit`, `no_op`, node merging, blocks.  Decided per explored sheet by
`flows_equiv_of_cert` on the real output. -/
def C02_fragment_full (wf : List CoreSheet.CRow → Prop) : Prop :=
  ∀ (noArgs testTypes : List Str) (rows : List CoreSheet.CRow) (out : Compile.Out) (r : Flow.Flow),
    wf rows → Compile.compile noArgs testTypes (rows.map CoreSheet.toEvent) = .ok out →
    RefFlow.refFlow (rows.map CoreSheet.toRRow) = .ok r →
    ∀ env n, trace ⟨false, true⟩ r env n = trace ⟨false, true⟩ (Compile.renderOut out) env n

/-! #### non-vacuity and negative witnesses -/

def blankC : Compile.Cond := ⟨[], [], [], []⟩

/-- an action row: its `from` cells, the content of its action, (a given node identifier), (a
different content in the documentation's table) -/
def arow (id : String) (froms : List String) (act : String) (uuid : String := "")
    (ract : Option String := none) : CoreSheet.CRow :=
  { row := { rowId := id.toList, type := "send_message".toList,
             edges := froms.map (fun f => ⟨f.toList, blankC⟩),
             action := some act.toList, actionOk := true, ownAction := none, nodeUuid := uuid.toList,
             nodeName := [], saveName := [], noResponse := [], expression := [], flowName := [], dests := [],
             resultKey := none, nodeOk := true },
    refAct := some ((ract.getD act).toList) }

/-- a tree (`a` → `b`, `a` → `c`: the last edge leaving `a` wins), a join (`d` from `b` and `c`) and
a blank `from` (`e` follows `d`) -/
def exRows : List CoreSheet.CRow :=
  [arow "a" ["start"] "A", arow "b" ["a"] "B", arow "c" ["a"] "C", arow "d" ["b", "c"] "D", arow "e" [""] "E"]

/-- non-vacuity: the sheet is in the fragment, the compiler model compiles it (five nodes), the
reference interpretation exists — and, as the theorem says, the traces agree (here: A, C, D, E) -/
example : CoreSheet.inFragment exRows = true ∧
    (∃ out, Compile.compile [] [] (exRows.map CoreSheet.toEvent) = .ok out ∧ out.nodes.length = 5) ∧
    (∃ r, RefFlow.refFlow (exRows.map CoreSheet.toRRow) = .ok r ∧
      trace ⟨false, true⟩ r (fun _ => 0) 5 =
        [.act "A".toList, .act "C".toList, .act "D".toList, .act "E".toList]) := by
  refine ⟨by decide +kernel, ?_, ?_⟩
  · have h : (match Compile.compile [] [] (exRows.map CoreSheet.toEvent) with
        | .ok out => decide (out.nodes.length = 5) | .error _ => false) = true := by decide +kernel
    split at h
    · rename_i out ho; exact ⟨out, ho, by simpa using h⟩
    · cases h
  · have h : (match RefFlow.refFlow (exRows.map CoreSheet.toRRow) with
        | .ok r => decide (trace ⟨false, true⟩ r (fun _ => 0) 5 =
            [.act "A".toList, .act "C".toList, .act "D".toList, .act "E".toList])
        | .error _ => false) = true := by decide +kernel
    split at h
    · rename_i r hr; exact ⟨r, hr, by simpa using h⟩
    · cases h

/-- the two traces of a sheet (compiler model / reference), when both exist -/
def bothTraces (rows : List CoreSheet.CRow) (n : Nat) : Option (List Obs × List Obs) :=
  match Compile.compile [] [] (rows.map CoreSheet.toEvent), RefFlow.refFlow (rows.map CoreSheet.toRRow) with
  | .ok out, .ok r => some (trace ⟨false, true⟩ (Compile.renderOut out) (fun _ => 0) n,
                           trace ⟨false, true⟩ r (fun _ => 0) n)
  | _, _ => none

/-- the clause "the action the compiler attaches is the one the documentation describes" is needed
(it is the part of C02 that is about action content, a parameter of both models) -/
theorem fragment_needs_same_action :
    bothTraces [arow "a" ["start"] "A" "" (some "B")] 1 = some ([.act "A".toList], [.act "B".toList]) := by
  decide +kernel

/-- the clause "no node identifier is given" is needed: a given `_nodeId` that collides with an
identifier the compiler invents later (`~4` becomes the identifier of the second row's node)
makes the first node lead to itself — the compiled flow repeats A, the rows say A then B -/
theorem fragment_needs_no_given_id :
    bothTraces [arow "a" ["start"] "A" "~4", arow "b" ["a"] "B"] 3 =
      some ([.act "A".toList, .act "A".toList, .act "A".toList], [.act "A".toList, .act "B".toList]) := by
  decide +kernel

/-- T1: the tests without argument of the reference interpretation are the source's
`RouterCase.NO_ARGS_TESTS` (re-extracted on every run). -/
theorem tables_agree : Gen.routerNoArgsTests = RefFlow.noArgsTests := by decide

/-! ### the reference interpretation is itself well formed, for every sheet -/

/-- **The meaning of the rows is always a closed flow**: for EVERY list of rows (any length, any
edges, any `go_to`s, cycles included) for which the reference interpretation exists (every `from`
and every `go_to` destination names an earlier node-producing row), the reference flow satisfies
the closure statement of C01 — unique node identifiers, every exit leads nowhere or to a node of
the flow, every router closed, all identifiers distinct.  So a path of the reference semantics
never ends because of a structural fault of the reference itself: a difference found by the
certificate checker is a difference of the compiled flow. -/
theorem reference_flow_closed (rows : List RefFlow.RRow) (f : Flow.Flow)
    (h : RefFlow.refFlow rows = .ok f) : Flow.Closed f :=
  RefFlow.refFlow_closed rows f h

/-- …and every target the first pass records is a node-producing row of the sheet. -/
theorem reference_targets_are_rows (rows : List RefFlow.RRow) (out : List RefFlow.OutEdge)
    (h : RefFlow.pass1 rows = .ok out) : ∀ e ∈ out, RefFlow.TgtOk rows e.tgt :=
  RefFlow.pass1_targets rows out h

/-- non-vacuity: a sheet with an action row, a wait row with two cases and a timeout, a `go_to`
back to the first row (a cycle) and a `hard_exit` has a reference flow -/
def exSheet : List RefFlow.RRow :=
  let c0 : RefFlow.Cond := ⟨[], [], [], []⟩
  [ { rowId := "1".toList, kind := .action, edges := [⟨"start".toList, c0⟩], act := some "hi".toList,
      operand := [], saveName := [], timeout := 0, dests := [] },
    { rowId := "2".toList, kind := .wait, edges := [⟨[], c0⟩], act := none,
      operand := "@input.text".toList, saveName := "r".toList, timeout := 60, dests := [] },
    { rowId := [], kind := .goTo, edges := [⟨"2".toList, ⟨"a".toList, [], [], []⟩⟩], act := none,
      operand := [], saveName := [], timeout := 0, dests := ["1".toList] },
    { rowId := [], kind := .hardExit, edges := [⟨"2".toList, ⟨"No Response".toList, [], [], []⟩⟩], act := none,
      operand := [], saveName := [], timeout := 0, dests := [] } ]

example : ((RefFlow.refFlow exSheet).toOption.map (·.nodes.length)) = some 2 := by decide +kernel

def badSheet : List RefFlow.RRow :=
  [ { rowId := [], kind := .goTo, edges := [⟨"start".toList, ⟨[], [], [], []⟩⟩], act := none,
      operand := [], saveName := [], timeout := 0, dests := ["nowhere".toList] } ]

/-- the hypothesis is needed and exact: a `go_to` naming a row that does not exist has no
reference interpretation (the real compiler rejects such a sheet as well) -/
theorem reference_needs_known_rows : (RefFlow.refFlow badSheet).toOption = none := by
  decide +kernel

end Rpft.Props.C02
