/-
Relational weakest preconditions for two runs of the compiler machine (partial correctness: the
postcondition is required only when BOTH runs succeed), and the equivariance of the operations
that only draw identifiers (router and node constructors, `add_choice`) under a renaming `ρ` that
is synchronised with the two counters.
-/
import Rpft.Lemmas.CompileInsertRn
set_option linter.unusedSimpArgs false
set_option linter.unusedVariables false
namespace Rpft.Compile
open Rpft Function

/-- `rwp m₁ m₂ s₁ s₂ Q`: if `m₁` from `s₁` and `m₂` from `s₂` both succeed, `Q` relates the results -/
def rwp {α β : Type} (m₁ : M α) (m₂ : M β) (s₁ s₂ : St) (Q : α → St → β → St → Prop) : Prop :=
  ∀ a t₁ b t₂, m₁.run s₁ = .ok (a, t₁) → m₂.run s₂ = .ok (b, t₂) → Q a t₁ b t₂

theorem rwp_iff_wp {α β} (m₁ : M α) (m₂ : M β) (s₁ s₂ : St) (Q : α → St → β → St → Prop) :
    rwp m₁ m₂ s₁ s₂ Q ↔ wp m₁ s₁ (fun a t₁ => wp m₂ s₂ (fun b t₂ => Q a t₁ b t₂)) := by
  simp only [rwp, wp_def]
  constructor
  · intro h a t₁ h1 b t₂ h2; exact h a t₁ b t₂ h1 h2
  · intro h a t₁ b t₂ h1 h2; exact h a t₁ h1 b t₂ h2

theorem run_bind_ok {α β} {m : M α} {f : α → M β} {s : St} {b : β} {t : St}
    (h : (m >>= f).run s = .ok (b, t)) : ∃ a u, m.run s = .ok (a, u) ∧ (f a).run u = .ok (b, t) := by
  simp only [StateT.run, bind, StateT.bind, Except.bind] at h ⊢
  cases hm : m s with
  | error e => rw [hm] at h; cases h
  | ok p => cases p with | mk a u => rw [hm] at h; exact ⟨a, u, rfl, h⟩

theorem run_bind_of {α β} {m : M α} {f : α → M β} {s u : St} {a : α}
    (h : m.run s = .ok (a, u)) : (m >>= f).run s = (f a).run u := by
  simp only [StateT.run, bind, StateT.bind, Except.bind] at h ⊢
  rw [h]

theorem rwp_bind {α β α' β'} (m₁ : M α) (m₂ : M β) (f₁ : α → M α') (f₂ : β → M β') (s₁ s₂ : St)
    (Q : α' → St → β' → St → Prop) :
    rwp (m₁ >>= f₁) (m₂ >>= f₂) s₁ s₂ Q ↔
      rwp m₁ m₂ s₁ s₂ (fun a u₁ b u₂ => rwp (f₁ a) (f₂ b) u₁ u₂ Q) := by
  constructor
  · intro h a u₁ b u₂ h1 h2 a' t₁ b' t₂ k1 k2
    exact h a' t₁ b' t₂ (by rw [run_bind_of h1]; exact k1) (by rw [run_bind_of h2]; exact k2)
  · intro h a' t₁ b' t₂ k1 k2
    obtain ⟨a, u₁, h1, k1'⟩ := run_bind_ok k1
    obtain ⟨b, u₂, h2, k2'⟩ := run_bind_ok k2
    exact h a u₁ b u₂ h1 h2 a' t₁ b' t₂ k1' k2'

theorem rwp_bind_left {α β α'} (m₁ : M α) (m₂ : M β) (f₁ : α → M α') (s₁ s₂ : St)
    (Q : α' → St → β → St → Prop) :
    rwp (m₁ >>= f₁) m₂ s₁ s₂ Q ↔ wp m₁ s₁ (fun a u₁ => rwp (f₁ a) m₂ u₁ s₂ Q) := by
  rw [wp_def]
  constructor
  · intro h a u₁ h1 a' t₁ b t₂ k1 k2
    exact h a' t₁ b t₂ (by rw [run_bind_of h1]; exact k1) k2
  · intro h a' t₁ b t₂ k1 k2
    obtain ⟨a, u₁, h1, k1'⟩ := run_bind_ok k1
    exact h a u₁ h1 a' t₁ b t₂ k1' k2

theorem rwp_bind_right {α β β'} (m₁ : M α) (m₂ : M β) (f₂ : β → M β') (s₁ s₂ : St)
    (Q : α → St → β' → St → Prop) :
    rwp m₁ (m₂ >>= f₂) s₁ s₂ Q ↔ wp m₂ s₂ (fun b u₂ => rwp m₁ (f₂ b) s₁ u₂ Q) := by
  rw [wp_def]
  constructor
  · intro h b u₂ h2 a t₁ b' t₂ k1 k2
    exact h a t₁ b' t₂ k1 (by rw [run_bind_of h2]; exact k2)
  · intro h a t₁ b' t₂ k1 k2
    obtain ⟨b, u₂, h2, k2'⟩ := run_bind_ok k2
    exact h b u₂ h2 a t₁ b' t₂ k1 k2'

theorem rwp_pure {α β} (a : α) (b : β) (s₁ s₂ : St) (Q : α → St → β → St → Prop) :
    rwp (pure a) (pure b) s₁ s₂ Q ↔ Q a s₁ b s₂ := by
  rw [rwp_iff_wp, wp_pure, wp_pure]

theorem rwp_mono {α β} {m₁ : M α} {m₂ : M β} {s₁ s₂ : St} {Q Q' : α → St → β → St → Prop}
    (h : rwp m₁ m₂ s₁ s₂ Q) (hq : ∀ a t₁ b t₂, Q a t₁ b t₂ → Q' a t₁ b t₂) : rwp m₁ m₂ s₁ s₂ Q' :=
  fun a t₁ b t₂ h1 h2 => hq _ _ _ _ (h a t₁ b t₂ h1 h2)

theorem rwp_and {α β} {m₁ : M α} {m₂ : M β} {s₁ s₂ : St} {Q Q' : α → St → β → St → Prop}
    (h : rwp m₁ m₂ s₁ s₂ Q) (h' : rwp m₁ m₂ s₁ s₂ Q') :
    rwp m₁ m₂ s₁ s₂ (fun a t₁ b t₂ => Q a t₁ b t₂ ∧ Q' a t₁ b t₂) :=
  fun a t₁ b t₂ h1 h2 => ⟨h a t₁ b t₂ h1 h2, h' a t₁ b t₂ h1 h2⟩

theorem run_fail {α} (e : Err) (s : St) : (fail e : M α).run s = .error e := rfl

theorem rwp_fail_left {α β} (e : Err) (m₂ : M β) (s₁ s₂ : St) (Q : α → St → β → St → Prop) :
    rwp (fail e : M α) m₂ s₁ s₂ Q := by
  intro a t₁ b t₂ h1 _; rw [run_fail] at h1; cases h1

theorem rwp_fail_right {α β} (e : Err) (m₁ : M α) (s₁ s₂ : St) (Q : α → St → β → St → Prop) :
    rwp m₁ (fail e : M β) s₁ s₂ Q := by
  intro a t₁ b t₂ _ h2; rw [run_fail] at h2; cases h2

/-- unary facts about the left / right run may be used -/
theorem rwp_of_wp_left {α β} {m₁ : M α} {m₂ : M β} {s₁ s₂ : St} {P : α → St → Prop}
    {Q : α → St → β → St → Prop} (h : wp m₁ s₁ P)
    (hq : rwp m₁ m₂ s₁ s₂ (fun a t₁ b t₂ => P a t₁ → Q a t₁ b t₂)) : rwp m₁ m₂ s₁ s₂ Q :=
  fun a t₁ b t₂ h1 h2 => hq a t₁ b t₂ h1 h2 (wp_of_run h h1)

theorem rwp_of_wp_right {α β} {m₁ : M α} {m₂ : M β} {s₁ s₂ : St} {P : β → St → Prop}
    {Q : α → St → β → St → Prop} (h : wp m₂ s₂ P)
    (hq : rwp m₁ m₂ s₁ s₂ (fun a t₁ b t₂ => P b t₂ → Q a t₁ b t₂)) : rwp m₁ m₂ s₁ s₂ Q :=
  fun a t₁ b t₂ h1 h2 => hq a t₁ b t₂ h1 h2 (wp_of_run h h2)

/-- read-only computations on both sides -/
theorem rwp_ro {α β} {m₁ : M α} {m₂ : M β} (h₁ : ReadOnly m₁) (h₂ : ReadOnly m₂) (s₁ s₂ : St)
    (Q : α → St → β → St → Prop)
    (hq : ∀ a b, m₁.run s₁ = .ok (a, s₁) → m₂.run s₂ = .ok (b, s₂) → Q a s₁ b s₂) : rwp m₁ m₂ s₁ s₂ Q := by
  intro a t₁ b t₂ k1 k2
  have e1 := h₁ s₁ a t₁ k1
  have e2 := h₂ s₂ b t₂ k2
  subst e1; subst e2
  exact hq a b k1 k2

/-! ### loops over lists in correspondence -/

theorem rwp_forM {β γ : Type} (I : St → St → Prop) (φ : β → γ) (l : List β) (f₁ : β → M PUnit) (f₂ : γ → M PUnit)
    (h : ∀ x ∈ l, ∀ s₁ s₂, I s₁ s₂ → rwp (f₁ x) (f₂ (φ x)) s₁ s₂ (fun _ t₁ _ t₂ => I t₁ t₂)) :
    ∀ s₁ s₂, I s₁ s₂ → rwp (l.forM f₁) ((l.map φ).forM f₂) s₁ s₂ (fun _ t₁ _ t₂ => I t₁ t₂) := by
  induction l with
  | nil =>
    intro s₁ s₂ hs
    show rwp (pure PUnit.unit) (pure PUnit.unit) s₁ s₂ _
    rw [rwp_pure]; exact hs
  | cons x l ih =>
    intro s₁ s₂ hs
    show rwp (f₁ x >>= fun _ => l.forM f₁) (f₂ (φ x) >>= fun _ => (l.map φ).forM f₂) s₁ s₂ _
    rw [rwp_bind]
    refine rwp_mono (h x (by simp) s₁ s₂ hs) ?_
    intro _ u₁ _ u₂ hu
    exact ih (fun y hy => h y (by simp [hy])) u₁ u₂ hu

/-! ### identifier-only operations -/

variable (ρ : Uid → Uid)

/-- the two counters are synchronised through `ρ`, and both runs use the same test tables -/
structure IdSync (s₁ s₂ : St) : Prop where
  noArgs : s₂.noArgs = s₁.noArgs
  testTypes : s₂.testTypes = s₁.testTypes
  ids : ∀ k, ρ (tid (s₁.next + k)) = tid (s₂.next + k)

/-- both runs moved only their counters, by the same amount -/
def Bumps (s₁ t₁ s₂ t₂ : St) : Prop :=
  ∃ k, t₁ = { s₁ with next := s₁.next + k } ∧ t₂ = { s₂ with next := s₂.next + k }

variable {ρ}

theorem Bumps.refl (s₁ s₂ : St) : Bumps s₁ s₁ s₂ s₂ := ⟨0, rfl, rfl⟩

theorem Bumps.trans {s₁ t₁ u₁ s₂ t₂ u₂ : St} (h : Bumps s₁ t₁ s₂ t₂) (h' : Bumps t₁ u₁ t₂ u₂) :
    Bumps s₁ u₁ s₂ u₂ := by
  obtain ⟨k, rfl, rfl⟩ := h
  obtain ⟨k', rfl, rfl⟩ := h'
  exact ⟨k + k', by simp [Nat.add_assoc], by simp [Nat.add_assoc]⟩

theorem IdSync.bumps {s₁ t₁ s₂ t₂ : St} (h : IdSync ρ s₁ s₂) (hb : Bumps s₁ t₁ s₂ t₂) : IdSync ρ t₁ t₂ := by
  obtain ⟨k, rfl, rfl⟩ := hb
  refine ⟨h.noArgs, h.testTypes, ?_⟩
  intro j
  have := h.ids (k + j)
  simpa [Nat.add_assoc] using this

variable (ρ)

/-- `m₁` and `m₂` draw the same number of identifiers and return `ρ`-related values -/
def IdRel {α : Type} (rn : α → α) (m₁ m₂ : M α) : Prop :=
  ∀ s₁ s₂, IdSync ρ s₁ s₂ → rwp m₁ m₂ s₁ s₂ (fun a t₁ b t₂ => b = rn a ∧ Bumps s₁ t₁ s₂ t₂)

variable {ρ}

theorem IdRel.pure {α} {rn : α → α} {a b : α} (h : b = rn a) : IdRel ρ rn (pure a) (pure b) := by
  intro s₁ s₂ _
  rw [rwp_pure]
  exact ⟨h, Bumps.refl _ _⟩

theorem IdRel.bind {α β} {rnA : α → α} {rnB : β → β} {m₁ m₂ : M α} {f₁ f₂ : α → M β}
    (h : IdRel ρ rnA m₁ m₂) (hf : ∀ a, IdRel ρ rnB (f₁ a) (f₂ (rnA a))) :
    IdRel ρ rnB (m₁ >>= f₁) (m₂ >>= f₂) := by
  intro s₁ s₂ hs
  rw [rwp_bind]
  refine rwp_mono (h s₁ s₂ hs) ?_
  intro a u₁ b u₂ ⟨hb, hbu⟩
  subst hb
  refine rwp_mono (hf a u₁ u₂ (hs.bumps hbu)) ?_
  intro a' t₁ b' t₂ ⟨hb', hbt⟩
  exact ⟨hb', hbu.trans hbt⟩

theorem IdRel.fail_left {α} {rn : α → α} (e : Err) (m₂ : M α) : IdRel ρ rn (fail e) m₂ :=
  fun s₁ s₂ _ => rwp_fail_left e m₂ s₁ s₂ _

theorem IdRel.fail_right {α} {rn : α → α} (e : Err) (m₁ : M α) : IdRel ρ rn m₁ (fail e) :=
  fun s₁ s₂ _ => rwp_fail_right e m₁ s₁ s₂ _

theorem IdRel.fresh : IdRel ρ ρ fresh fresh := by
  intro s₁ s₂ hs
  rw [rwp_iff_wp, wp_fresh']
  rw [wp_fresh']
  refine ⟨?_, 1, rfl, rfl⟩
  have := hs.ids 0
  simpa using this.symm

/-- reading the state: only the test tables may be used -/
theorem IdRel.get {α} {rn : α → α} {f₁ f₂ : St → M α}
    (h : ∀ a b : St, b.noArgs = a.noArgs → b.testTypes = a.testTypes → IdRel ρ rn (f₁ a) (f₂ b)) :
    IdRel ρ rn (get >>= f₁) (get >>= f₂) := by
  intro s₁ s₂ hs
  rw [rwp_bind, rwp_iff_wp, wp_get]
  rw [wp_get]
  exact h s₁ s₂ hs.noArgs hs.testTypes s₁ s₂ hs

theorem IdRel.ite {α} {rn : α → α} {c : Prop} [Decidable c] {a₁ b₁ a₂ b₂ : M α}
    (ha : c → IdRel ρ rn a₁ a₂) (hb : ¬ c → IdRel ρ rn b₁ b₂) :
    IdRel ρ rn (if c then a₁ else b₁) (if c then a₂ else b₂) := by
  by_cases h : c
  · simp only [h, if_true]; exact ha h
  · simp only [h, if_false]; exact hb h

theorem mkCat_rel (name : Str) (dest : Dest) :
    IdRel ρ (rnCat ρ) (mkCat name dest) (mkCat name (rnDest ρ dest)) := by
  unfold mkCat
  refine IdRel.bind IdRel.fresh fun u => IdRel.bind IdRel.fresh fun e => IdRel.pure rfl

theorem newSwitch_rel (operand : Str) (rn : Option Str) (wait : Option Nat) :
    IdRel ρ (rnSw ρ) (newSwitch operand rn wait) (newSwitch operand rn wait) := by
  intro s₁ s₂ hs
  have h0 := hs.ids 0
  have h1 := hs.ids 1
  have h2 := hs.ids 2
  have h3 := hs.ids 3
  simp only [Nat.add_zero] at h0
  rw [rwp_iff_wp, wp_newSwitch]
  rcases wait with _ | _ | n
  · simp only [wp_newSwitch]
    exact ⟨by simp [rnSw, rnCat, h0, h1], 2, rfl, rfl⟩
  · simp only [wp_newSwitch]
    exact ⟨by simp [rnSw, rnCat, h0, h1], 2, rfl, rfl⟩
  · simp only [wp_newSwitch]
    exact ⟨by simp [rnSw, rnCat, h0, h1, h2, h3], 4, rfl, rfl⟩

theorem choiceCat_rel (h : Injective ρ) (r : SwitchR) (name : Str) (dest : Dest) (isDefault : Bool) :
    IdRel ρ (fun p : SwitchR × Uid => (rnSw ρ p.1, ρ p.2)) (choiceCat r name dest isDefault)
      (choiceCat (rnSw ρ r) name (rnDest ρ dest) isDefault) := by
  unfold choiceCat
  cases isDefault with
  | true =>
    simp only [if_true]
    exact IdRel.pure (by simp [rnSw, rnCat])
  | false =>
    simp only [Bool.false_eq_true, if_false, rnSw_catByName]
    cases hc : r.catByName name with
    | some c =>
      simp only [Option.map_some]
      exact IdRel.pure (by simp [rnSw_setDest h])
    | none =>
      simp only [Option.map_none]
      refine IdRel.ite (fun _ => IdRel.fail_left _ _) fun _ => ?_
      refine IdRel.bind (mkCat_rel _ _) fun c => IdRel.pure ?_
      simp [rnSw]

theorem choiceCase_rel (r : SwitchR) (type : Str) (stored : List (Option Str)) (catUid : Uid) :
    IdRel ρ (rnSw ρ) (choiceCase r type stored catUid) (choiceCase (rnSw ρ r) type stored (ρ catUid)) := by
  unfold choiceCase
  refine IdRel.get fun a b h1 h2 => ?_
  rw [h2]
  refine IdRel.ite (fun _ => ?_) (fun _ => IdRel.fail_left _ _)
  refine IdRel.bind IdRel.fresh fun ku => IdRel.pure ?_
  simp [rnSw, rnCase]

theorem addChoice_rel (h : Injective ρ) (r : SwitchR) (var type : Str) (args : List (Option Str))
    (catName : Str) (dest : Dest) (isDefault : Bool) :
    IdRel ρ (rnSw ρ) (addChoice r var type args catName dest isDefault)
      (addChoice (rnSw ρ r) var type args catName (rnDest ρ dest) isDefault) := by
  unfold addChoice
  refine IdRel.get fun a b h1 h2 => ?_
  rw [h1]
  have hr : (if var.isEmpty = true then rnSw ρ r else { rnSw ρ r with operand := var }) =
      rnSw ρ (if var.isEmpty = true then r else { r with operand := var }) := by
    split <;> rfl
  simp only [hr]
  generalize (if var.isEmpty = true then r else { r with operand := var }) = r'
  generalize (if a.noArgs.contains type = true then [] else args) = stored
  rw [rnSw_findCase r' (fun k => decide (k.type = type ∧ k.args = stored))
    (fun k => decide (k.type = type ∧ k.args = stored)) (fun k => rfl)]
  cases hk : r'.cases.find? (fun k => decide (k.type = type ∧ k.args = stored)) with
  | some k =>
    simp only [Option.map_some]
    have e : (rnSw ρ r').allCats.find? (·.uid = (rnCase ρ k).catUid) =
        (r'.allCats.find? (·.uid = k.catUid)).map (rnCat ρ) := rnSw_findCatUid h r' k.catUid
    rw [e]
    cases hc : r'.allCats.find? (·.uid = k.catUid) with
    | none => exact IdRel.fail_left _ _
    | some c =>
      simp only [Option.map_some]
      exact IdRel.pure (rnSw_setDest h _ _ _)
  | none =>
    simp only [Option.map_none, rnSw_genCatName]
    refine IdRel.bind (choiceCat_rel h _ _ _ _) fun rc => ?_
    exact choiceCase_rel _ _ _ _

theorem randomAddChoice_rel (h : Injective ρ) (r : RandomR) (name : Str) (dest : Dest) :
    IdRel ρ (rnRnd ρ) (randomAddChoice r name dest) (randomAddChoice (rnRnd ρ r) name (rnDest ρ dest)) := by
  unfold randomAddChoice
  simp only [rnRnd_cats, List.length_map]
  generalize (if name.isEmpty = true then "Bucket ".toList ++ natStr (r.cats.length + 2) else name) = nm
  rw [find?_map_rnCat (fun c => decide (c.name = nm)) (fun c => decide (c.name = nm)) (fun c => rfl)]
  cases hc : r.cats.find? (fun c => decide (c.name = nm)) with
  | some c =>
    simp only [Option.map_some]
    refine IdRel.pure ?_
    simp only [rnRnd, List.map_map, rnCat_uid]
    congr 1
    apply List.map_congr_left
    intro c' _
    simp only [Function.comp]
    by_cases hcu : c'.uid = c.uid
    · simp [hcu, rnCat]
    · have : ρ c'.uid ≠ ρ c.uid := fun e => hcu (h e)
      simp [hcu, this]
  | none =>
    simp only [Option.map_none]
    refine IdRel.bind (mkCat_rel _ _) fun c => IdRel.pure ?_
    simp [rnRnd]

end Rpft.Compile
