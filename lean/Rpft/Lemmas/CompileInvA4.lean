/-
Layer A, node groups: `connect_loose_exits`, `add_exit` (row groups, blocks, no_op groups)
preserve the arena invariants whenever the destination they are given is an arena node.
-/
import Rpft.Lemmas.CompileInvA3
set_option linter.unusedSimpArgs false
set_option linter.unusedVariables false
namespace Rpft.Compile
open Rpft

/-- postcondition of every arena-updating operation -/
def APost (h : Flags) (s : St) : PUnit → St → Prop := fun _ s' => AInv h s' ∧ NExt s.nodes s'.nodes

/-- an operation that keeps the invariants provided `d` is a valid destination -/
def AStep (h : Flags) (d : Dest) (m : M PUnit) : Prop :=
  ∀ s, AInv h s → DestOk s.nodes d → wp m s (APost h s)

theorem AStep.forM {β} {h : Flags} {d : Dest} (l : List β) (f : β → M PUnit)
    (hf : ∀ x ∈ l, AStep h d (f x)) : AStep h d (l.forM f) := by
  intro s a hd
  have := wp_forM (fun s' => AInv h s' ∧ NExt s.nodes s'.nodes) l f (by
    intro x hx s1 ⟨a1, e1⟩
    refine wp_mono (hf x hx s1 a1 (hd.ext e1)) ?_
    intro _ s2 ⟨a2, e2⟩
    exact ⟨a2, e1.trans e2⟩) s ⟨a, NExt.refl _⟩
  exact this

theorem AStep.pure (h : Flags) (d : Dest) : AStep h d (pure ()) := by
  intro s a _; rw [wp_pure]; exact ⟨a, NExt.refl _⟩

/-! ### read-only operations -/

theorem ro_getNode (i : Nat) : ReadOnly (getNode i) := by
  rw [ro_iff]; intro s; rw [wp_getNode]; intros; rfl

theorem ro_getGrp (i : Nat) : ReadOnly (getGrp i) := by
  rw [ro_iff]; intro s; rw [wp_getGrp]; intros; rfl

theorem ro_hasLoose : ∀ fuel g, ReadOnly (hasLoose fuel g) := by
  intro fuel
  induction fuel with
  | zero => intro g; rw [ro_iff]; intro s; unfold hasLoose; wp_simp
  | succ fuel ih =>
    intro g; rw [ro_iff]; intro s
    unfold hasLoose
    wp_simp [wp_getGrp]
    intro grp _
    split
    · split
      · wp_simp
      · wp_simp [wp_getNode]; intros; trivial
    · split
      · wp_simp [wp_getNode]; intros; trivial
      · exact (ro_iff _).mp (ro_anyM _ _ (fun x _ => ih x.1)) s
    · exact (ro_iff _).mp (ro_anyM _ _ (fun x _ => ih x)) s

theorem ro_fuelOf : ReadOnly fuelOf := by
  rw [ro_iff]; intro s; unfold fuelOf; wp_simp

theorem ro_lookupRow (id : Str) : ReadOnly (lookupRow id) := by
  rw [ro_iff]; intro s; unfold lookupRow; wp_simp

theorem ro_mostRecent : ReadOnly mostRecent := by
  rw [ro_iff]; intro s; unfold mostRecent; wp_simp

theorem ro_groupOfEdge (e : Edge) : ReadOnly (groupOfEdge e) := by
  rw [ro_iff]; intro s; unfold groupOfEdge; wp_simp
  refine ⟨fun _ => trivial, fun _ => ⟨fun _ => ?_, fun _ => (ro_iff _).mp ro_mostRecent s⟩⟩
  refine wp_ro (ro_lookupRow _) s _ ?_
  intro a; split <;> wp_simp

theorem ro_entryNode : ∀ fuel g, ReadOnly (entryNode fuel g) := by
  intro fuel
  induction fuel with
  | zero => intro g; rw [ro_iff]; intro s; unfold entryNode; wp_simp
  | succ fuel ih =>
    intro g; rw [ro_iff]; intro s
    unfold entryNode
    wp_simp [wp_getGrp]
    intro grp _
    split
    · split <;> wp_simp
    · wp_simp
    · split
      · exact (ro_iff _).mp (ih _) s
      · wp_simp

/-! ### node-level facts -/

theorem connectLoose_uid (n : NodeM) (d : Dest) : (n.connectLoose d).uid = n.uid := by
  unfold NodeM.connectLoose
  rcases h : n.router with _ | r | r <;> simp <;> split <;> rfl

theorem connectLoose_fids (n : NodeM) (d : Dest) : (n.connectLoose d).fids = n.fids := by
  unfold NodeM.connectLoose
  rcases h : n.router with _ | r | r
  · simp only; split <;> simp [NodeM.fids, NodeM.innerIds, NodeM.tailIds, h]
  · simp only [NodeM.fids, NodeM.innerIds, NodeM.tailIds, h]
    rw [ids_mapCats] <;> intro c <;> split <;> rfl
  · simp only [NodeM.fids, NodeM.innerIds, NodeM.tailIds, h, RandomR.ids, List.map_map, Function.comp_def]
    have e1 : ∀ c : Cat, (if (c.dest == Dest.none) = true then ({ c with dest := d } : Cat) else c).exitUid = c.exitUid := by
      intro c; split <;> rfl
    have e2 : ∀ c : Cat, (if (c.dest == Dest.none) = true then ({ c with dest := d } : Cat) else c).uid = c.uid := by
      intro c; split <;> rfl
    simp only [e1, e2]

theorem connectLoose_ok {ns : Array NodeM} {n : NodeM} {d : Dest} (hn : NodeOk ns n) (hd : DestOk ns d) :
    NodeOk ns (n.connectLoose d) := by
  unfold NodeM.connectLoose
  rcases h : n.router with _ | r | r
  · simp only
    split
    · refine ⟨?_, hd, ?_⟩
      · intro d' hd'; simp [NodeM.exitDests, h] at hd'; subst hd'; exact hd
      · intro r hr; simp [h] at hr
    · exact hn
  · refine ⟨?_, hn.dexit, ?_⟩
    · intro d' hd'
      simp only [NodeM.exitDests, allCats_mapCats, List.map_map, List.mem_map, Function.comp] at hd'
      obtain ⟨c, hc, rfl⟩ := hd'
      split
      · exact hd
      · exact hn.dests _ (by simp only [NodeM.exitDests, h, List.mem_map]; exact ⟨c, hc, rfl⟩)
    · intro r' hr'
      simp at hr'; subst hr'
      apply caseCatsOk_mapCats _ _ _ (hn.cases r h)
      intro c; split <;> rfl
  · refine ⟨?_, hn.dexit, ?_⟩
    · intro d' hd'
      simp only [NodeM.exitDests, List.map_map, List.mem_map, Function.comp] at hd'
      obtain ⟨c, hc, rfl⟩ := hd'
      split
      · exact hd
      · exact hn.dests _ (by simp only [NodeM.exitDests, h, List.mem_map]; exact ⟨c, hc, rfl⟩)
    · intro r' hr'; simp at hr'

theorem connectNode_spec (h : Flags) (i : Nat) (d : Dest) : AStep h d (connectNode i d) := by
  intro s a hd
  unfold connectNode
  wp_simp [wp_getNode, wp_setNode]
  intro n hn
  exact ⟨a.set hn (connectLoose_uid _ _) (connectLoose_ok (a.ok i n hn) hd)
    (by rw [connectLoose_fids]; exact Grow.refl _ _ _) (Nat.le_refl _), NExt.set hn (connectLoose_uid _ _)⟩

theorem connectLoose_spec (h : Flags) (d : Dest) : ∀ fuel g, AStep h d (connectLoose fuel g d) := by
  intro fuel
  induction fuel with
  | zero => intro g s a hd; unfold connectLoose; wp_simp
  | succ fuel ih =>
    intro g s a hd
    unfold connectLoose
    wp_simp [wp_getGrp]
    intro grp _
    split
    · split
      · exact AStep.pure h d s a hd
      · exact connectNode_spec h _ d s a hd
    · split
      · exact connectNode_spec h _ d s a hd
      · exact AStep.forM _ _ (fun x _ => ih x.1) s a hd
    · exact AStep.forM _ _ (fun x _ => ih x) s a hd

/-! ### updates of a node's router -/

theorem nodeOk_sw {ns : Array NodeM} {n : NodeM} {r : SwitchR} (hr : n.router = some (.sw r))
    (hn : NodeOk ns n) : SwD (DestOk ns) r ∧ CaseCatsOk r := by
  refine ⟨?_, hn.cases r hr⟩
  intro c hc
  exact hn.dests _ (by simp only [NodeM.exitDests, hr, List.mem_map]; exact ⟨c, hc, rfl⟩)

/-- replacing the switch router of an arena node -/
theorem AInvC.setSw {h : Flags} {ns : Array NodeM} {b b' i : Nat} {n : NodeM} {r r' : SwitchR}
    (a : AInvC h ns b) (ho : ns[i]? = some n) (hr : n.router = some (.sw r))
    (hg : Grow b b' r.ids r'.ids) (hd : SwD (DestOk ns) r') (hc : CaseCatsOk r') (hb : b ≤ b') :
    AInvC h (ns.setIfInBounds i { n with router := some (.sw r') }) b' := by
  refine a.set ho rfl ⟨?_, (a.ok i n ho).dexit, ?_⟩ ?_ hb
  · intro d hdd
    simp only [NodeM.exitDests, List.mem_map] at hdd
    obtain ⟨c, hc1, rfl⟩ := hdd
    exact hd c hc1
  · intro r2 hr2; simp at hr2; subst hr2; exact hc
  · simp only [NodeM.fids, NodeM.innerIds, NodeM.tailIds, hr]
    have := hg.ctx (uidPart n.uid ++ n.actions.map (·.1)) []
    simpa using this

theorem AInvC.setRnd {h : Flags} {ns : Array NodeM} {b b' i : Nat} {n : NodeM} {r r' : RandomR}
    (a : AInvC h ns b) (ho : ns[i]? = some n) (hr : n.router = some (.rnd r))
    (hg : Grow b b' r.ids r'.ids) (hd : ∀ c ∈ r'.cats, DestOk ns c.dest) (hb : b ≤ b') :
    AInvC h (ns.setIfInBounds i { n with router := some (.rnd r') }) b' := by
  refine a.set ho rfl ⟨?_, (a.ok i n ho).dexit, ?_⟩ ?_ hb
  · intro d hdd
    simp only [NodeM.exitDests, List.mem_map] at hdd
    obtain ⟨c, hc1, rfl⟩ := hdd
    exact hd c hc1
  · intro r2 hr2; simp at hr2
  · simp only [NodeM.fids, NodeM.innerIds, NodeM.tailIds, hr]
    have := hg.ctx (uidPart n.uid ++ n.actions.map (·.1)) []
    simpa using this

/-- a router update in the sense of `ChoiceRel` -/
def SwUpd (d : Dest) (f : SwitchR → M SwitchR) : Prop := ∀ r s, wp (f r) s (ChoiceRel s r d)

theorem updSwitch_spec (h : Flags) (i : Nat) (d : Dest) (f : SwitchR → M SwitchR) (hf : SwUpd d f) :
    AStep h d (updSwitch i f) := by
  intro s a hd
  unfold updSwitch
  wp_simp [wp_getNode]
  intro n hn
  split
  · rename_i r hr
    wp_simp [wp_setNode]
    refine wp_mono (hf r s) ?_
    intro r' s1 ⟨k, hb, hg, hdd, hc⟩
    subst hb
    obtain ⟨h1, h2⟩ := nodeOk_sw hr (a.ok i n hn)
    exact ⟨AInvC.setSw a hn hr hg (hdd _ hd h1) (hc h2) (by simp), NExt.set hn rfl⟩
  · wp_simp

theorem swUpd_setDflt (d : Dest) : SwUpd d (setDfltM d) := by
  intro r s
  unfold setDfltM; wp_simp
  refine ⟨0, rfl, ?_, ?_, ?_⟩
  · rw [ids_setDflt]; exact Grow.refl _ _ _
  · intro D hd h; exact swD_setDflt hd h
  · exact caseCatsOk_setDflt d

theorem swUpd_byName (name : Str) (d : Dest) : SwUpd d (fun r => setCatDestByName r name d) := by
  intro r s
  show wp (setCatDestByName r name d) s _
  unfold setCatDestByName
  split
  · wp_simp
  · wp_simp
    refine ⟨0, rfl, ?_, ?_, ?_⟩
    · rw [ids_setDest]; exact Grow.refl _ _ _
    · intro D hd h; exact swD_setDest _ hd h
    · exact caseCatsOk_setDest _ _

theorem swUpd_addChoice (var type : Str) (args : List (Option Str)) (catName : Str) (d : Dest)
    (isDefault : Bool) : SwUpd d (fun r => addChoice r var type args catName d isDefault) :=
  fun r s => addChoice_spec r var type args catName d isDefault s

/-! ### `add_exit` of a row group -/

theorem grow_dexit (n : NodeM) (b b' k : Nat) (d : Dest) (h1 : b ≤ k) (h2 : k < b') :
    Grow b b' n.fids ({ n with dexitUid := tid k, dexitDest := d } : NodeM).fids := by
  rcases hr : n.router with _ | r | r
  · simp only [NodeM.fids, NodeM.innerIds, NodeM.tailIds, hr]
    have : Grow b b' (uidPart n.uid ++ (n.actions.map (·.1) ++ [])) (uidPart n.uid ++ (n.actions.map (·.1) ++ [tid k])) := by
      grow_new [tid k]
    refine this.mono_left ?_
    intro x; simp only [List.count_cons, List.count_append, List.count_nil]; omega
  · simp only [NodeM.fids, NodeM.innerIds, NodeM.tailIds, hr]; exact Grow.refl _ _ _
  · simp only [NodeM.fids, NodeM.innerIds, NodeM.tailIds, hr]; exact Grow.refl _ _ _

theorem nodeOk_dexit {ns : Array NodeM} {n : NodeM} {d : Dest} (u : Uid) (hn : NodeOk ns n) (hd : DestOk ns d) :
    NodeOk ns ({ n with dexitUid := u, dexitDest := d } : NodeM) := by
  refine ⟨?_, hd, hn.cases⟩
  intro d' hd'
  rcases hr : n.router with _ | r | r
  · simp [NodeM.exitDests, hr] at hd'; subst hd'; exact hd
  · exact hn.dests d' (by simpa [NodeM.exitDests, hr] using hd')
  · exact hn.dests d' (by simpa [NodeM.exitDests, hr] using hd')

theorem rowExitBlank_spec (h : Flags) (i : Nat) (n : NodeM) (d : Dest) (s : St)
    (a : AInv h s) (hd : DestOk s.nodes d) (hn : s.nodes[i]? = some n) :
    wp (rowExitBlank i n d) s (APost h s) := by
  unfold rowExitBlank
  split
  · wp_simp [wp_fresh', wp_setNode]
    exact ⟨AInvC.set (b' := s.next + 1) a hn rfl (nodeOk_dexit _ (a.ok i n hn) hd)
      (grow_dexit n _ _ _ d (Nat.le_refl _) (by omega)) (by omega), NExt.set hn rfl⟩
  · wp_simp
  · exact updSwitch_spec h i d _ (swUpd_setDflt d) s a hd

theorem rowExitEnter_spec (h : Flags) (i : Nat) (c : Cond) (d : Dest) : AStep h d (rowExitEnter i c d) := by
  intro s a hd
  unfold rowExitEnter
  wp_simp
  exact ⟨fun _ => updSwitch_spec h i d _ (swUpd_byName _ d) s a hd,
    fun _ => ⟨fun _ => updSwitch_spec h i d _ (swUpd_setDflt d) s a hd, fun _ => trivial⟩⟩

theorem rowExitHook_spec (h : Flags) (i : Nat) (c : Cond) (d : Dest) : AStep h d (rowExitHook i c d) := by
  intro s a hd
  unfold rowExitHook
  wp_simp
  exact ⟨fun _ => updSwitch_spec h i d _ (swUpd_byName _ d) s a hd,
    fun _ => ⟨fun _ => updSwitch_spec h i d _ (swUpd_setDflt d) s a hd, fun _ => trivial⟩⟩

theorem rowExitNoResp_spec (h : Flags) (i : Nat) (n : NodeM) (d : Dest) (s : St)
    (a : AInv h s) (hd : DestOk s.nodes d) (hn : s.nodes[i]? = some n) :
    wp (rowExitNoResp i n d) s (APost h s) := by
  unfold rowExitNoResp
  split
  · rename_i r hr
    split
    · rename_i nr w hnr hw
      wp_simp [wp_setNode]
      obtain ⟨h1, h2⟩ := nodeOk_sw hr (a.ok i n hn)
      refine ⟨AInvC.setSw a hn hr ?_ ?_ ?_ (Nat.le_refl _), NExt.set hn rfl⟩
      · have : ({ r with noResp := some { nr with dest := d } } : SwitchR).ids = r.ids := by
          simp [SwitchR.ids, SwitchR.allCats, hnr]
        rw [this]; exact Grow.refl _ _ _
      · intro c hc
        simp only [SwitchR.allCats, Option.toList, List.mem_append, List.mem_singleton, List.mem_cons,
          List.not_mem_nil, or_false] at hc
        rcases hc with (hc | hc) | hc
        · exact h1 c (by simp [SwitchR.allCats, hc])
        · exact h1 c (by simp [SwitchR.allCats, hc])
        · subst hc; exact hd
      · intro k hk
        have := h2 k hk
        simpa [SwitchR.allCats, hnr] using this
    · exact AStep.pure h d s a hd
  · exact AStep.pure h d s a hd

theorem getElem?_push_of_some {ns : Array NodeM} {i : Nat} {n : NodeM} (m : NodeM) (hn : ns[i]? = some n) :
    (ns.push m)[i]? = some n := by
  obtain ⟨n', h1, h2⟩ := NExt.push ns m i n hn
  have hlt : i < ns.size := (Array.getElem?_eq_some_iff.mp hn).1
  rw [Array.getElem?_push]
  have : i ≠ ns.size := by omega
  simp [this, hn]

theorem nodeOk_newSw {ns : Array NodeM} (u e : Uid) (sw : SwitchR) (hd : SwD (DestOk ns) sw)
    (hc : CaseCatsOk sw) :
    NodeOk ns (NodeM.mk u NodeKind.switch [] (some (RouterM.sw sw)) e Dest.none) := by
  refine ⟨?_, trivial, ?_⟩
  · intro d' hd'
    simp only [NodeM.exitDests, List.mem_map] at hd'
    obtain ⟨c, hc1, rfl⟩ := hd'
    exact hd c hc1
  · intro r hr; simp at hr; subst hr; exact hc

theorem swD_none {ns : Array NodeM} {sw : SwitchR} (h : SwD (· = Dest.none) sw) : SwD (DestOk ns) sw := by
  intro c hc; rw [h c hc]; trivial

theorem routerBehind_spec (h : Flags) (g : Nat) (nodes : List Nat) (rowType : Str) (i : Nat) (n : NodeM)
    (operandV : Str) (waitT : Option Nat) (s : St) (a : AInv h s) (hn : s.nodes[i]? = some n) :
    wp (routerBehind g nodes rowType i n operandV waitT) s (fun jn s' =>
      AInv h s' ∧ NExt s.nodes s'.nodes ∧ s'.nodes[jn.1]? = some jn.2) := by
  unfold routerBehind attachRowNode
  wp_simp [wp_fresh', wp_newRouterNode, wp_addNode, wp_setGrp, wp_setNode]
  refine ⟨fun _ => trivial, fun _ => ?_⟩
  refine wp_mono (newSwitch_spec _ _ _ _) ?_
  intro sw s1 ⟨k, hb, hg, hd, hc⟩
  subst hb
  dsimp only at hg ⊢
  have hlt : i < s.nodes.size := (Array.getElem?_eq_some_iff.mp hn).1
  have hok := a.ok i n hn
  obtain ⟨rn, hrn⟩ : ∃ rn : NodeM, rn = NodeM.mk (tid s.next) NodeKind.switch []
    (some (RouterM.sw (sw.setDflt n.dexitDest))) (tid (s.next + 1 + k)) Dest.none := ⟨_, rfl⟩
  rw [← hrn]
  have hrnu : rn.uid = tid s.next := by rw [hrn]
  have a1 : AInvC h (s.nodes.push rn) (s.next + 1 + k + 1) := by
    refine AInvC.push a ?_ ?_ (fun _ => by rw [hrnu]; exact invented_tid _) (by omega)
    · rw [hrn]
      exact nodeOk_newSw _ _ _ (swD_setDflt (hok.dexit.ext (NExt.push _ _)) (swD_none hd))
        (caseCatsOk_setDflt _ (caseCatsOk_of_cases_nil hc))
    · intro _
      rw [hrn, fids_swNode, ids_setDflt, uidPart_tid]
      have h1 : Grow s.next (s.next + 1) [] [tid s.next] := by grow_new [tid s.next]
      simpa using (grow_cons_append h1 hg (by omega) (by omega)).mono (by omega) (by omega)
  have hn1 : (s.nodes.push rn)[i]? = some n := getElem?_push_of_some rn hn
  have a2 := AInvC.set (b' := s.next + 1 + k + 1 + 1) (n' := { n with dexitUid := tid (s.next + 1 + k + 1), dexitDest := .node (tid s.next) })
    a1 hn1 rfl (nodeOk_dexit _ ((a.ok i n hn).ext (NExt.push _ _)) (by rw [← hrnu]; exact DestOk.push_self _ _))
    (grow_dexit n _ _ _ _ (Nat.le_refl _) (by omega)) (by omega)
  refine ⟨a2, (NExt.push _ _).trans (NExt.set hn1 rfl), ?_⟩
  rw [Array.getElem?_setIfInBounds]
  have : i ≠ s.nodes.size := by omega
  simp [this]

theorem nodeAddChoice_spec (h : Flags) (i : Nat) (n : NodeM) (operandV ctype : Str)
    (args : List (Option Str)) (c : Cond) (d : Dest) (s : St) (a : AInv h s) (hd : DestOk s.nodes d)
    (hn : s.nodes[i]? = some n) :
    wp (nodeAddChoice i n operandV ctype args c d) s (APost h s) := by
  unfold nodeAddChoice
  split
  · rename_i r hr
    wp_simp [wp_setNode]
    refine wp_mono (addChoice_spec _ _ _ _ _ _ _ _) ?_
    intro r' s1 ⟨k, hb, hg, hdd, hc⟩
    subst hb
    obtain ⟨h1, h2⟩ := nodeOk_sw hr (a.ok i n hn)
    exact ⟨AInvC.setSw a hn hr hg (hdd _ hd h1) (hc h2) (by simp), NExt.set hn rfl⟩
  · rename_i r hr
    wp_simp [wp_setNode]
    refine wp_mono (randomAddChoice_spec _ _ _ _) ?_
    intro r' s1 ⟨k, hb, hg, hdd⟩
    subst hb
    have h1 : ∀ c ∈ r.cats, DestOk s.nodes c.dest := by
      intro c hc
      exact (a.ok i n hn).dests _ (by simp only [NodeM.exitDests, hr, List.mem_map]; exact ⟨c, hc, rfl⟩)
    exact ⟨AInvC.setRnd a hn hr hg (hdd _ hd h1) (by simp), NExt.set hn rfl⟩
  · wp_simp

theorem rowExitCond_spec (h : Flags) (g : Nat) (nodes : List Nat) (rowType : Str) (i : Nat) (n : NodeM)
    (d : Dest) (c : Cond) (s : St) (a : AInv h s) (hd : DestOk s.nodes d) (hn : s.nodes[i]? = some n) :
    wp (rowExitCond g nodes rowType i n d c) s (APost h s) := by
  unfold rowExitCond
  wp_simp
  constructor
  · intro _
    refine wp_mono (routerBehind_spec h _ _ _ _ _ _ _ s a hn) ?_
    intro jn s1 ⟨a1, e1, hj⟩
    refine wp_mono (nodeAddChoice_spec h _ _ _ _ _ _ _ s1 a1 (hd.ext e1) hj) ?_
    intro _ s2 ⟨a2, e2⟩
    exact ⟨a2, e1.trans e2⟩
  · intro _
    exact nodeAddChoice_spec h _ _ _ _ _ _ _ s a hd hn

theorem rowAddExit_spec (h : Flags) (g : Nat) (nodes : List Nat) (rowType : Str) (d : Dest) (c : Cond) :
    AStep h d (rowAddExit g nodes rowType d c) := by
  intro s a hd
  unfold rowAddExit
  split
  · wp_simp
  · rename_i i hi
    wp_simp [wp_getNode]
    intro n hn
    exact ⟨fun _ => rowExitBlank_spec h i n d s a hd hn, fun _ =>
      ⟨fun _ => rowExitEnter_spec h i c d s a hd, fun _ =>
      ⟨fun _ => rowExitHook_spec h i c d s a hd, fun _ =>
      ⟨fun _ => rowExitNoResp_spec h i n d s a hd hn, fun _ =>
        rowExitCond_spec h g nodes rowType i n d c s a hd hn⟩⟩⟩⟩

/-! ### `add_exit` of any group -/

theorem noopRouterExit_spec (h : Flags) (j : Nat) (d : Dest) (c : Cond) : AStep h d (noopRouterExit j d c) := by
  intro s a hd
  unfold noopRouterExit
  wp_simp
  exact ⟨fun _ => updSwitch_spec h j d _ (swUpd_setDflt d) s a hd,
    fun _ => updSwitch_spec h j d _ (swUpd_addChoice _ _ _ _ d false) s a hd⟩

theorem connectIfLoose_spec (h : Flags) (fuel : Nat) (d : Dest) (ch : Nat) :
    AStep h d (connectIfLoose fuel d ch) := by
  intro s a hd
  unfold connectIfLoose
  wp_simp
  refine wp_ro (ro_hasLoose _ _) s _ ?_
  intro b
  exact ⟨fun _ => connectLoose_spec h d fuel ch s a hd, fun _ => AStep.pure h d s a hd⟩

theorem addExit_spec (h : Flags) : ∀ fuel g d c, AStep h d (addExit fuel g d c) := by
  intro fuel
  induction fuel with
  | zero => intro g d c s a hd; unfold addExit; wp_simp
  | succ fuel ih =>
    intro g d c s a hd
    unfold addExit
    wp_simp [wp_getGrp]
    intro grp _
    split
    · exact rowAddExit_spec h g _ _ d c s a hd
    · wp_simp
      refine ⟨fun _ => ?_, fun _ => trivial⟩
      refine wp_ro (ro_hasLoose _ _) s _ ?_
      intro b
      exact ⟨fun _ => AStep.forM _ _ (fun x _ => connectIfLoose_spec h _ d x) s a hd, fun _ => trivial⟩
    · split
      · wp_simp
        refine ⟨fun _ => AStep.forM _ _ (fun x _ => ih x.1 d x.2) s a hd, fun _ => ⟨fun _ => trivial, fun _ => ?_⟩⟩
        unfold attachNoopRouter
        wp_simp [wp_fresh', wp_newRouterNode, wp_addNode, wp_setGrp]
        refine wp_mono (newSwitch_spec _ _ _ _) ?_
        intro sw s1 ⟨k, hb, hg, hdn, hc⟩
        subst hb
        dsimp only at hg ⊢
        obtain ⟨rn, hrn⟩ : ∃ rn : NodeM, rn = NodeM.mk (tid s.next) NodeKind.switch []
          (some (RouterM.sw sw)) (tid (s.next + 1 + k)) Dest.none := ⟨_, rfl⟩
        rw [← hrn]
        have hrnu : rn.uid = tid s.next := by rw [hrn]
        have a1 : AInvC h (s.nodes.push rn) (s.next + 1 + k + 1) := by
          refine AInvC.push a ?_ ?_ (fun _ => by rw [hrnu]; exact invented_tid _) (by omega)
          · rw [hrn]
            exact nodeOk_newSw _ _ _ (swD_none hdn) (caseCatsOk_of_cases_nil hc)
          · intro _
            rw [hrn, fids_swNode, uidPart_tid]
            have h1 : Grow s.next (s.next + 1) [] [tid s.next] := by grow_new [tid s.next]
            simpa using (grow_cons_append h1 hg (by omega) (by omega)).mono (by omega) (by omega)
        have e1 : NExt s.nodes (s.nodes.push rn) := NExt.push _ _
        have hdu : DestOk (s.nodes.push rn) (.node (tid s.next)) := by
          rw [← hrnu]; exact DestOk.push_self _ _
        refine wp_mono (AStep.forM _ _ (fun x _ => ih x.1 (.node (tid s.next)) x.2) _ a1 hdu) ?_
        intro _ s2 ⟨a2, e2⟩
        refine wp_mono (noopRouterExit_spec h _ d c s2 a2 ((hd.ext e1).ext e2)) ?_
        intro _ s3 ⟨a3, e3⟩
        exact ⟨a3, (e1.trans e2).trans e3⟩
      · exact noopRouterExit_spec h _ d c s a hd

end Rpft.Compile
