import Rpft.Sugar
set_option linter.unusedSimpArgs false
set_option linter.unusedVariables false
namespace Rpft.Sugar
open Rpft

variable {Raw Inst Ctx Val Hdr Err : Type}

/-- the relation proved between desugaring and parsing, for one list of items -/
def Agree (I : Iface Raw Inst Ctx Val Hdr Err) (ctx : Ctx) (its : List (Item Raw)) : Prop :=
  match dsItems I ctx its with
  | .ok its' => ∃ es, evItems I ctx its = .ok es ∧ ∀ ctx', evItems I ctx' its' = .ok es
  | .error e => evItems I ctx its = .error e

theorem evItems_nil (I : Iface Raw Inst Ctx Val Hdr Err) (ctx : Ctx) :
    evItems I ctx [] = .ok [] := by simp [evItems]

theorem evItems_cons (I : Iface Raw Inst Ctx Val Hdr Err) (ctx : Ctx) (it : Item Raw) (its : List (Item Raw)) :
    evItems I ctx (it :: its) =
      (match evItem I ctx it with
       | .error e => .error e
       | .ok a => match evItems I ctx its with
         | .error e => .error e
         | .ok b => .ok (a ++ b)) := by
  rw [evItems]
  cases evItem I ctx it with
  | error e => rfl
  | ok a => cases evItems I ctx its <;> rfl

theorem evItems_append (I : Iface Raw Inst Ctx Val Hdr Err) (ctx : Ctx) (xs ys : List (Item Raw))
    (a b : List (Ev Inst Hdr)) (ha : evItems I ctx xs = .ok a) (hb : evItems I ctx ys = .ok b) :
    evItems I ctx (xs ++ ys) = .ok (a ++ b) := by
  induction xs generalizing a with
  | nil =>
    simp [evItems_nil] at ha
    subst ha
    simpa using hb
  | cons x xs ih =>
    rw [evItems_cons] at ha
    rw [List.cons_append, evItems_cons]
    cases hx : evItem I ctx x with
    | error e => simp [hx] at ha
    | ok ax =>
      simp only [hx] at ha ⊢
      cases hxs : evItems I ctx xs with
      | error e => simp [hxs] at ha
      | ok axs =>
        simp only [hxs] at ha
        rw [ih axs hxs]
        simp at ha
        subst ha
        simp

theorem evItems_singleton (I : Iface Raw Inst Ctx Val Hdr Err) (ctx : Ctx) (it : Item Raw) :
    evItems I ctx [it] = (match evItem I ctx it with | .error e => .error e | .ok a => .ok a) := by
  rw [evItems_cons, evItems_nil]
  cases evItem I ctx it <;> simp

/-- the loop: if every iteration context agrees on the body, unrolling agrees -/
theorem loop_agree (I : Iface Raw Inst Ctx Val Hdr Err) (body : List (Item Raw))
    (H : ∀ c, Agree I c body) (cs : List Ctx) :
    match sequence (cs.map fun c => dsItems I c body) with
    | .ok bss => ∃ ess, sequence (cs.map fun c => evItems I c body) = .ok ess ∧
        ∀ ctx', evItems I ctx' bss.flatten = .ok ess.flatten
    | .error e => sequence (cs.map fun c => evItems I c body) = .error e := by
  induction cs with
  | nil => simp [sequence, evItems_nil]
  | cons c cs ih =>
    have hc := H c
    unfold Agree at hc
    simp only [List.map_cons, sequence]
    cases hd : dsItems I c body with
    | error e =>
      simp only [hd] at hc ⊢
      simp [hc]
    | ok bs =>
      simp only [hd] at hc ⊢
      obtain ⟨es, he, hall⟩ := hc
      simp only [he]
      cases hs : sequence (cs.map fun c => dsItems I c body) with
      | error e =>
        simp only [hs] at ih ⊢
        simp [ih]
      | ok bss =>
        simp only [hs] at ih ⊢
        obtain ⟨ess, hess, hflat⟩ := ih
        refine ⟨es :: ess, by simp [hess], ?_⟩
        intro ctx'
        simp only [List.flatten_cons]
        exact evItems_append I ctx' _ _ _ _ (hall ctx') (hflat ctx')

mutual
theorem agree_item (I : Iface Raw Inst Ctx Val Hdr Err) (L : Laws I) :
    ∀ (it : Item Raw) (ctx : Ctx), Agree I ctx [it]
  | .row r, ctx => by
    unfold Agree
    simp only [dsItems, dsItem, evItems_singleton, evItem]
    cases hi : I.inst ctx r with
    | error e => simp
    | ok i =>
      by_cases hinc : I.includeIf i = true
      · simp [hinc, evItems_singleton, evItem, L.inst_lit]
      · simp [hinc, evItems_nil]
  | .block b body, ctx => by
    have hb := agree_items I L body ctx
    unfold Agree at hb ⊢
    simp only [dsItems, dsItem, evItems_singleton, evItem]
    cases hi : I.inst ctx b with
    | error e => simp
    | ok i =>
      by_cases hinc : I.includeIf i = true
      · simp only [hinc, if_true]
        cases hd : dsItems I ctx body with
        | error e => simp only [hd] at hb ⊢; simp [hb]
        | ok bs =>
          simp only [hd] at hb ⊢
          obtain ⟨es, he, hall⟩ := hb
          simp only [he, List.append_nil]
          refine ⟨_, rfl, ?_⟩
          intro ctx'
          simp [evItems_singleton, evItem, L.inst_lit, hinc, hall ctx']
      · simp [hinc, evItems_nil]
  | .forLoop b body, ctx => by
    unfold Agree
    simp only [dsItems, dsItem, evItems_singleton, evItem]
    cases hi : I.inst ctx b with
    | error e => simp
    | ok i =>
      by_cases hinc : I.includeIf i = true
      · simp only [hinc, if_true]
        cases hv : I.loopVars i with
        | none => simp
        | some p =>
          obtain ⟨v, idx⟩ := p
          have hl := loop_agree I body (fun c => agree_items I L body c)
            ((I.iterList i).zipIdx.map fun (x, k) => iterCtx I ctx v idx x k)
          simp only [List.map_map] at hl
          have e1 : ((fun c => dsItems I c body) ∘ fun (x : Val × Nat) => iterCtx I ctx v idx x.1 x.2) =
              fun (x : Val × Nat) => dsItems I (iterCtx I ctx v idx x.1 x.2) body := rfl
          have e2 : ((fun c => evItems I c body) ∘ fun (x : Val × Nat) => iterCtx I ctx v idx x.1 x.2) =
              fun (x : Val × Nat) => evItems I (iterCtx I ctx v idx x.1 x.2) body := rfl
          simp only [e1, e2] at hl
          cases hs : sequence ((I.iterList i).zipIdx.map fun (x : Val × Nat) =>
              dsItems I (iterCtx I ctx v idx x.1 x.2) body) with
          | error e => simp only [hs] at hl ⊢; simp [hl]
          | ok bss =>
            simp only [hs] at hl ⊢
            obtain ⟨ess, hess, hflat⟩ := hl
            simp only [hess, List.append_nil]
            refine ⟨_, rfl, ?_⟩
            intro ctx'
            simp [evItems_singleton, evItem, L.inst_lit, L.include_asBlock i hinc, L.hdr_asBlock,
              hflat ctx']
      · simp [hinc, evItems_nil]
theorem agree_items (I : Iface Raw Inst Ctx Val Hdr Err) (L : Laws I) :
    ∀ (its : List (Item Raw)) (ctx : Ctx), Agree I ctx its
  | [], ctx => by
    unfold Agree
    simp [dsItems, evItems_nil]
  | it :: its, ctx => by
    have h1 := agree_item I L it ctx
    have h2 := agree_items I L its ctx
    unfold Agree at h1 h2 ⊢
    simp only [dsItems] at h1 ⊢
    rw [evItems_cons]
    rw [evItems_singleton] at h1
    cases hd : dsItem I ctx it with
    | error e =>
      simp only [hd] at h1 ⊢
      cases hev : evItem I ctx it with
      | error e' => simp [hev] at h1; simp [h1]
      | ok a => simp [hev] at h1
    | ok a' =>
      simp only [hd] at h1 ⊢
      have h1' : ∃ es, (match evItem I ctx it with | .error e => Except.error e | .ok a => .ok a) = .ok es ∧
          ∀ ctx', evItems I ctx' a' = .ok es := by
        simpa using h1
      obtain ⟨es1, he1, hall1⟩ := h1'
      cases hev : evItem I ctx it with
      | error e' => simp [hev] at he1
      | ok a =>
        simp only [hev] at he1 ⊢
        have : a = es1 := by injection he1
        subst this
        cases hds : dsItems I ctx its with
        | error e => simp only [hds] at h2 ⊢; simp [h2]
        | ok b' =>
          simp only [hds] at h2 ⊢
          obtain ⟨es2, he2, hall2⟩ := h2
          simp only [he2]
          refine ⟨_, rfl, ?_⟩
          intro ctx'
          exact evItems_append I ctx' _ _ _ _ (hall1 ctx') (hall2 ctx')
end

end Rpft.Sugar
