/-
General round-trip development (C07 `parse_unparse`), part 4: lists, untyped lists, and the
main induction over the schema type: every representable value of every type of the family
`goodTy`, in every layout that is `layOk` for the value, round-trips at every position.
-/
import Rpft.Lemmas.RowGenRT
set_option linter.unusedSimpArgs false
set_option linter.unusedVariables false
namespace Rpft.Row
open Rpft

/-! ### the elements of a list -/

theorem printNat_ne {a b : Nat} (h : a ≠ b) : printNat a ≠ printNat b :=
  fun e => h (printNat_inj e)

theorem list_spec (lay : Layout) (t : Ty) (segs : List Str) :
    ∀ (xs : List Val) (i : Nat),
      (∀ j x, xs[j]? = some x → PosRT lay t x (segs ++ [printNat (i + j)])) →
      ∃ (cols : List (List Str × Str)) (trs : List Tree),
        (∀ out, (∀ j, j < xs.length → Fresh (segs ++ [printNat (i + j)]) out) →
          unparseSeq (unparseRec lay t) (pathStr segs) i xs out = .ok (out ++ absCols segs cols)) ∧
        (∀ c ∈ cols, ∃ j, j < xs.length ∧ ∃ r, c.1 = printNat (i + j) :: r ∧ ∀ s ∈ r, SegOk s) ∧
        (cols.map (·.1)).Nodup ∧
        (∀ ts : List Tree, ts.length + 1 = i →
          pfold (.list t) (.list ts) (inlCols cols) = .ok (.list (ts ++ trs))) ∧
        mapE (validate t) trs = .ok xs ∧ (xs ≠ [] → cols ≠ [])
  | [], i, _ => by
    refine ⟨[], [], ?_, ?_, ?_, ?_, ?_, ?_⟩
    · intro out _; simp [unparseSeq, absCols]
    · intro c h; simp at h
    · simp
    · intro ts _; simp [inlCols, pfold, foldE]
    · simp [mapE]
    · intro h; exact absurd rfl h
  | x :: xs, i, h => by
    obtain ⟨colsX, tr, hne, hS, hN, hU, hP, hV, _⟩ := h 0 x rfl
    simp only [Nat.add_zero] at hU
    obtain ⟨cols', trs', hU', hK', hN', hP', hV', hE'⟩ := list_spec lay t segs xs (i + 1)
      (fun j y hy => by
        have := h (j + 1) y (by simpa using hy)
        rwa [show i + (j + 1) = i + 1 + j by omega] at this)
    refine ⟨under (printNat i) colsX ++ cols', tr :: trs', ?_, ?_, ?_, ?_, ?_, ?_⟩
    · intro out hout
      simp only [unparseSeq, idxPrefix_pathStr]
      rw [hU out (by simpa using hout 0 (by simp))]
      simp only
      rw [hU' (out ++ absCols (segs ++ [printNat i]) colsX)]
      · rw [absCols_append, absCols_under, List.append_assoc]
      · intro j hj
        apply fresh_append
        · have := hout (j + 1) (by simpa using hj)
          rwa [show i + (j + 1) = i + 1 + j by omega] at this
        · exact fresh_sibling' (segOk_printNat _) (segOk_printNat _)
            (printNat_ne (by omega)) colsX
    · intro c hc
      rcases List.mem_append.mp hc with h' | h'
      · obtain ⟨c0, hc0, rfl⟩ := List.mem_map.mp h'
        exact ⟨0, by simp, c0.1, rfl, hS c0 hc0⟩
      · obtain ⟨j, hj, r, e, hr⟩ := hK' c h'
        exact ⟨j + 1, by simpa using hj, r, by rw [e, show i + (j + 1) = i + 1 + j by omega], hr⟩
    · apply nodup_under_append hN hN'
      intro c hc r e
      obtain ⟨j, _, r', e', _⟩ := hK' c hc
      rw [e'] at e
      exact printNat_ne (by omega) (List.cons.inj e).1
    · intro ts hts
      subst hts
      rw [inlCols_append, pfold_append, inlCols_under]
      cases hcp : inlCols colsX with
      | nil => simp [inlCols] at hcp; exact absurd hcp hne
      | cons c cs =>
        have hb := pfold_list_block (.list t) rfl ts cs c
        simp only [listChild] at hb
        rw [hb, ← hcp, hP]
        simp only
        rw [hP' (ts ++ [tr]) (by simp)]
        simp
    · simp [mapE, hV, hV']
    · intro _ hc
      cases colsX with
      | nil => exact hne rfl
      | cons c cs => simp [under] at hc

/-! ### the strings of an untyped list -/

theorem any_spec (lay : Layout) (he : lay.excluded = []) (segs : List Str) :
    ∀ (ss : List Str) (i : Nat), (∀ s ∈ ss, strOk s = true) →
      ∃ (cols : List (List Str × Str)),
        (∀ out, (∀ j, j < ss.length → Fresh (segs ++ [printNat (i + j)]) out) →
          unparsePVs lay (ss.map PV.atom) (pathStr segs) i out = .ok (out ++ absCols segs cols)) ∧
        (∀ c ∈ cols, ∃ j, j < ss.length ∧ c.1 = [printNat (i + j)]) ∧
        (cols.map (·.1)).Nodup ∧
        (∀ ts : List Tree, ts.length + 1 = i →
          pfold .anyList (.list ts) (inlCols cols) = .ok (.list (ts ++ ss.map Tree.str))) ∧
        (ss ≠ [] → cols ≠ [])
  | [], i, _ => by
    refine ⟨[], ?_, ?_, ?_, ?_, ?_⟩
    · intro out _; simp [unparsePVs, absCols]
    · intro c h; simp at h
    · simp
    · intro ts _; simp [inlCols, pfold, foldE]
    · intro h; exact absurd rfl h
  | s :: ss, i, hok => by
    obtain ⟨cols', hU', hK', hN', hP', hE'⟩ := any_spec lay he segs ss (i + 1)
      (fun x hx => hok x (List.mem_cons_of_mem _ hx))
    obtain ⟨h1, h2, _⟩ := strOk_spec (hok s (by simp))
    refine ⟨under (printNat i) [([], s)] ++ cols', ?_, ?_, ?_, ?_, ?_⟩
    · intro out hout
      have hf := fresh_absent (by simpa using hout 0 (by simp))
      simp only [keyOf] at hf
      simp only [List.map_cons, unparsePVs, unparsePV, he, matchesHeaders_nil, Bool.false_eq_true,
        if_false, idxPrefix_pathStr, writeOut, hf]
      rw [hU' _]
      · simp [absCols, under, keyOf]
      · intro j hj
        apply fresh_append
        · have := hout (j + 1) (by simpa using hj)
          rwa [show i + (j + 1) = i + 1 + j by omega] at this
        · have := fresh_sibling' (segs := segs) (segOk_printNat (i + 1 + j)) (segOk_printNat i)
            (printNat_ne (by omega)) [([], s)]
          simpa [absCols, keyOf] using this
    · intro c hc
      rcases List.mem_append.mp hc with h' | h'
      · simp only [under, List.map_cons, List.map_nil, List.mem_singleton] at h'
        exact ⟨0, by simp, by rw [h']; rfl⟩
      · obtain ⟨j, hj, e⟩ := hK' c h'
        exact ⟨j + 1, by simpa using hj, by rw [e, show i + (j + 1) = i + 1 + j by omega]⟩
    · apply nodup_under_append (by simp) hN'
      intro c hc r e
      obtain ⟨j, _, e'⟩ := hK' c hc
      rw [e'] at e
      exact printNat_ne (by omega) (List.cons.inj e).1
    · intro ts hts
      subst hts
      rw [inlCols_append, pfold_append, inlCols_under]
      have hb := pfold_list_block .anyList rfl ts [] ([], Sum.inl s)
      have hl : pfold Ty.str Tree.none [([], (Sum.inl s : ColVal))] = .ok (Tree.str s) := by
        simp [pfold, foldE, pstep, leafFn, leafValue, isListTy, isModelTy, parseAsString_ok h1 h2,
          assignValue, assignStr]
      simp only [listChild, hl] at hb
      simp only [inlCols, List.map_cons, List.map_nil] at hb ⊢
      rw [hb]
      simp only
      have := hP' (ts ++ [Tree.str s]) (by simp)
      simp only [inlCols] at this
      rw [this]
      simp
    · intro _ hc; simp [under] at hc

/-! ### unfolding `unparse_row_recurse` -/

theorem unparseRec_packed {lay : Layout} (he : lay.excluded = []) (ty : Ty) (v : Val) (pfx : Str)
    (out : Out) (hm : matchesHeaders pfx lay.targets = true) :
    unparseRec lay ty v pfx out = writeValue ty v pfx out := by
  unfold unparseRec
  simp [he, matchesHeaders_nil, hm]

theorem unparseRec_basicVal {lay : Layout} (he : lay.excluded = []) (ty : Ty) (v : Val)
    (hb : isBasicVal v = true) (pfx : Str) (out : Out) :
    unparseRec lay ty v pfx out = writeValue ty v pfx out := by
  unfold unparseRec
  simp [he, matchesHeaders_nil, hb]

theorem unparseRec_list {lay : Layout} (he : lay.excluded = []) (t : Ty) (xs : List Val) (pfx : Str)
    (out : Out) (hm : matchesHeaders pfx lay.targets = false) :
    unparseRec lay (.list t) (.list xs) pfx out = unparseSeq (unparseRec lay t) pfx 1 xs out := by
  conv => lhs; unfold unparseRec
  simp [he, matchesHeaders_nil, hm, isBasicVal]

theorem unparseRec_any {lay : Layout} (he : lay.excluded = []) (xs : List PV) (pfx : Str)
    (out : Out) (hm : matchesHeaders pfx lay.targets = false) :
    unparseRec lay .anyList (.any xs) pfx out = unparsePVs lay xs pfx 1 out := by
  conv => lhs; unfold unparseRec
  simp [he, matchesHeaders_nil, hm, isBasicVal]

theorem unparseRec_model {lay : Layout} (he : lay.excluded = []) (fs : List Field)
    (h2f f2h : List (Str × Str)) (kvs : List (Str × Val)) (pfx : Str)
    (out : Out) (hm : matchesHeaders pfx lay.targets = false) :
    unparseRec lay (.model fs h2f f2h) (.model kvs) pfx out =
      unparseFields lay f2h pfx fs kvs out := by
  conv => lhs; unfold unparseRec
  simp [he, matchesHeaders_nil, hm, isBasicVal]

/-! ### membership lemmas for the recursive predicates -/

theorem goodFields_mem : ∀ (fs : List Field), goodFields fs = true → ∀ f ∈ fs, goodTy f.2.1 = true
  | [], _, f, h => by simp at h
  | (n, t, d) :: rest, hg, f, h => by
    simp only [goodFields, Bool.and_eq_true] at hg
    rcases List.mem_cons.mp h with rfl | h
    · exact hg.1
    · exact goodFields_mem rest hg.2 f h

theorem layOkFields_mem (lay : Layout) (f2h : List (Str × Str)) (pfx : Str)
    (kvs : List (Str × Val)) :
    ∀ (fs : List Field), layOkFields lay f2h pfx kvs fs = true → ∀ f ∈ fs,
      ∀ x, alookup f.1 kvs = some x → isDefault f.2.2 x = false →
        (remap f2h f.1 = f.1 → layOk lay f.2.1 x (pfx ++ '.' :: f.1) = true) ∧
        (remap f2h f.1 ≠ f.1 → packTy f.2.1 = true)
  | [], _, f, h, _, _, _ => by simp at h
  | (n, t, d) :: rest, ha, f, h, x, hx, hd => by
    simp only [layOkFields, Bool.and_eq_true] at ha
    rcases List.mem_cons.mp h with rfl | h
    · have := ha.1
      simp only [hx, hd, Bool.false_or] at this
      constructor
      · intro hr; simpa [hr] using this
      · intro hr; simpa [hr] using this
    · exact layOkFields_mem lay f2h pfx kvs rest ha.2 f h x hx hd

theorem allIdx_get (f : Val → Str → Bool) (pfx : Str) : ∀ (xs : List Val) (i : Nat),
    allIdx f pfx i xs = true → ∀ j x, xs[j]? = some x → f x (idxPrefix pfx (i + j)) = true
  | [], _, _, j, x, h => by simp at h
  | y :: ys, i, ha, j, x, h => by
    simp only [allIdx, Bool.and_eq_true] at ha
    cases j with
    | zero => simp at h; subst h; simpa using ha.1
    | succ j =>
      have := allIdx_get f pfx ys (i + 1) ha.2 j x (by simpa using h)
      rwa [show i + 1 + j = i + (j + 1) by omega] at this

theorem fieldOk_weaken {ty : Ty} {v : Val} (deep : Bool) (h : fieldOk deep ty v = true) :
    fieldOk false ty v = true := by
  cases ty <;> cases v <;> simp [fieldOk] at h ⊢ <;> exact h

theorem fieldOk_of_reprOk_true {ty : Ty} {v : Val} (h : reprOk true ty v = true) :
    fieldOk false ty v = true := by
  cases ty <;> cases v <;> simp [reprOk] at h <;> simp [fieldOk]
  · exact h.1
  · exact h.1
  · exact h.1.2

theorem reprOk_false_of {ty : Ty} {v : Val} (b : Bool) (h : reprOk b ty v = true) :
    reprOk false ty v = true := by
  cases b with
  | false => exact h
  | true => exact reprOk_weaken ty v h

theorem allDefault_of_pairs {fs : List Field} {kvs : List (Str × Val)}
    (hnames : kvs.map Prod.fst = fs.map (·.1)) (hnd : (fs.map (·.1)).Nodup)
    (h : ∀ p ∈ fs.zip (kvs.map Prod.snd), nonDefault p = false) : allDefault fs kvs = true := by
  have hlen : fs.length = (kvs.map Prod.snd).length := by
    have := congrArg List.length hnames
    simpa using this.symm
  unfold allDefault
  rw [List.all_eq_true]
  intro f hf
  obtain ⟨v, hv⟩ := zip_mem_of_fst fs _ hlen f hf
  rw [alookup_zip fs kvs hnames hnd (f, v) hv]
  simpa [nonDefault] using h (f, v) hv

/-! ### every one-cell type -/

theorem packRT {ty : Ty} {v : Val} (hp : packTy ty = true) (hg : goodTy ty = true)
    (hr : reprOk false ty v = true) (hfo : fieldOk false ty v = true) : PackRT ty v := by
  cases ty with
  | str => exact packRT_basic rfl hr
  | int => exact packRT_basic rfl hr
  | float => exact packRT_basic rfl hr
  | bool => exact packRT_basic rfl hr
  | anyList =>
    cases v <;> simp [reprOk] at hr
    case any xs =>
      exact packRT_any xs (by intro e; subst e; simp [fieldOk] at hfo) hr
  | list t =>
    cases v <;> simp [reprOk] at hr
    case list xs =>
      have hne : xs ≠ [] := by intro e; subst e; simp [fieldOk] at hfo
      cases t with
      | str => exact packRT_listBasic rfl xs hne hr
      | int => exact packRT_listBasic rfl xs hne hr
      | float => exact packRT_listBasic rfl xs hne hr
      | bool => exact packRT_listBasic rfl xs hne hr
      | anyList => simp [packTy, isBasicTy] at hp
      | model _ _ _ => simp [packTy, isBasicTy] at hp
      | list u =>
        simp only [packTy] at hp
        exact packRT_listList hp xs hne hr
  | model sfs h2f f2h =>
    simp only [packTy, Bool.and_eq_true, List.all_eq_true, decide_eq_true_eq] at hp
    cases v with
    | model skvs =>
      simp only [goodTy, remapOk, Bool.and_eq_true, List.all_eq_true, decide_eq_true_eq] at hg
      have hfam : subFamily sfs = true := by
        simp only [subFamily, Bool.and_eq_true, List.all_eq_true, decide_eq_true_eq]
        exact ⟨fun f hf => ⟨(hg.1.1.1 f hf).1.1, (hp f hf).1⟩, hg.1.1.2⟩
      have hr' : reprOk false (plainTop sfs) (.model skvs) = true := by
        simp only [reprOk] at hr ⊢; exact hr
      have hfo' : fieldOk false (plainTop sfs) (.model skvs) = true := by
        simp only [fieldOk] at hfo ⊢; exact hfo
      obtain ⟨D⟩ := subData_of_repr hfam hr' hfo'
      exact packRT_sub h2f f2h (fun f hf => (hp f hf).2) D
    | _ => simp [reprOk] at hr

/-! ### the main induction -/

/-- the statement proved for every type of the family -/
def PosAll (lay : Layout) (ty : Ty) : Prop :=
  ∀ (v : Val) (segs : List Str) (b : Bool), goodTy ty = true → (∀ s ∈ segs, SegOk s) →
    reprOk b ty v = true → fieldOk false ty v = true → layOk lay ty v (pathStr segs) = true →
    PosRT lay ty v segs

theorem posAll_basic (lay : Layout) (he : lay.excluded = []) (ty : Ty) (hb : isBasicTy ty = true) :
    PosAll lay ty := by
  intro v segs b hg hsegs hr hfo hl
  have hr' := reprOk_false_of b hr
  have hbv := (basic_leaf hb hr').1
  exact colsRT_of_pack (packRT_basic hb hr') (fun out => unparseRec_basicVal he ty v hbv _ out)

/-- the fields of a record at the position `segs`, from the statement for the field types -/
theorem model_fields_spec (lay : Layout) (he : lay.excluded = []) (fs : List Field)
    (h2f f2h : List (Str × Str)) (ih : ∀ f ∈ fs, PosAll lay f.2.1)
    (hnd : (fs.map (·.1)).Nodup) (hgf : goodFields fs = true)
    (kvs : List (Str × Val)) (segs : List Str) (hsegs : ∀ s ∈ segs, SegOk s) (deep : Bool)
    (hnames : kvs.map Prod.fst = fs.map (·.1)) (hrf : reprFields deep fs kvs = true)
    (hlay : layOkFields lay f2h (pathStr segs) kvs fs = true)
    (H1 : (((fs.zip (kvs.map Prod.snd)).filter nonDefault).map (hdr f2h)).Nodup)
    (H2 : ∀ p ∈ fs.zip (kvs.map Prod.snd), nonDefault p = true →
      simpleName (hdr f2h p) = true ∧ remap h2f (hdr f2h p) = p.1.1) :
    ∃ cols trs, FieldsSpec lay fs h2f f2h segs kvs (fs.zip (kvs.map Prod.snd)) cols trs := by
  have hlen : fs.length = (kvs.map Prod.snd).length := by
    have := congrArg List.length hnames
    simpa using this.symm
  have hfst := zip_map_fst fs _ hlen
  have hnm : (fs.zip (kvs.map Prod.snd)).map (·.1.1) = fs.map (·.1) := by
    conv => rhs; rw [← hfst]
    simp [List.map_map]
  apply fields_spec lay he fs h2f f2h segs hsegs kvs _ (by rw [hnm]; exact hnd) H1
  intro p hp
  have hmem : p.1 ∈ fs := (List.of_mem_zip hp).1
  have hx' := alookup_zip fs kvs hnames hnd p hp
  refine ⟨hx', ?_⟩
  intro hnon
  have hdef : isDefault p.1.2.2 p.2 = false := by simpa [nonDefault] using hnon
  obtain ⟨x, hx, hor⟩ := reprFields_mem deep kvs fs hrf p.1 hmem
  rw [hx'] at hx
  cases hx
  rcases hor with h | ⟨hfo, hr⟩
  · rw [h] at hdef; cases hdef
  obtain ⟨hs2, hs3⟩ := H2 p hp hnon
  refine ⟨segOk_simple hs2, hs3, fieldLookup_mem fs hnd p.1 hmem, ?_⟩
  obtain ⟨hl1, hl2⟩ := layOkFields_mem lay f2h (pathStr segs) kvs fs hlay p.1 hmem p.2 hx' hdef
  have hgt := goodFields_mem fs hgf p.1 hmem
  by_cases hrm : remap f2h p.1.1 = p.1.1
  · have := ih p.1 hmem p.2 (segs ++ [hdr f2h p]) false hgt
      (by
        intro s hs
        rcases List.mem_append.mp hs with h | h
        · exact hsegs s h
        · simp only [List.mem_singleton] at h; subst h; exact segOk_simple hs2)
      hr (fieldOk_weaken deep hfo)
      (by rw [pathStr_snoc]; simp only [hdr, hrm]; exact hl1 hrm)
    have hW : fieldW lay f2h segs p = unparseRec lay p.1.2.1 p.2 (pathStr (segs ++ [hdr f2h p])) := by
      funext out
      simp only [fieldW, hdr, hrm, if_true]
    unfold PosRT at this
    rw [hW]
    exact this
  · apply colsRT_of_pack (packRT (hl2 hrm) hgt hr (fieldOk_weaken deep hfo))
    intro out
    have : ¬ p.1.1 = remap f2h p.1.1 := fun e => hrm e.symm
    simp only [fieldW, this, if_false, hdr]

/-- the static side conditions on a record type give the value-level ones -/
theorem remapOk_facts {fs : List Field} {h2f f2h : List (Str × Str)}
    (hrm : remapOk fs h2f f2h = true) (vs : List Val) (hlen : fs.length = vs.length) :
    (fs.map (·.1)).Nodup ∧ (((fs.zip vs).filter nonDefault).map (hdr f2h)).Nodup ∧
    (∀ p ∈ fs.zip vs, simpleName (hdr f2h p) = true ∧ remap h2f (hdr f2h p) = p.1.1) := by
  simp only [remapOk, Bool.and_eq_true, List.all_eq_true, decide_eq_true_eq] at hrm
  obtain ⟨⟨hall, hnd⟩, hndh⟩ := hrm
  have hfst := zip_map_fst fs vs hlen
  have hhm : (fs.zip vs).map (hdr f2h) = fs.map (fun f => remap f2h f.1) := by
    conv => rhs; rw [← hfst]
    simp [List.map_map, hdr, Function.comp]
  refine ⟨hnd, (hhm ▸ hndh).sublist (List.Sublist.map _ List.filter_sublist), ?_⟩
  intro p hp
  obtain ⟨⟨_, hs2⟩, hs3⟩ := hall p.1 (List.of_mem_zip hp).1
  exact ⟨hs2, hs3⟩

theorem posAll_model (lay : Layout) (he : lay.excluded = []) (fs : List Field)
    (h2f f2h : List (Str × Str)) (ih : ∀ f ∈ fs, PosAll lay f.2.1) :
    PosAll lay (.model fs h2f f2h) := by
  intro v segs b hg hsegs hr hfo hl
  cases v with
  | model kvs =>
    cases hm : matchesHeaders (pathStr segs) lay.targets with
    | true =>
      unfold layOk at hl
      simp only [isBasicTy, Bool.false_eq_true, if_false, hm, if_true] at hl
      exact colsRT_of_pack (packRT hl hg (reprOk_false_of b hr) hfo)
        (fun out => unparseRec_packed he _ _ _ out hm)
    | false =>
      unfold layOk at hl
      simp only [isBasicTy, Bool.false_eq_true, if_false, hm] at hl
      simp only [goodTy, Bool.and_eq_true] at hg
      have hr' := reprOk_false_of b hr
      simp only [reprOk, Bool.and_eq_true, decide_eq_true_eq, Bool.false_and, Bool.not_false,
        Bool.true_and] at hr'
      obtain ⟨⟨hnames, _⟩, hrf⟩ := hr'
      have hlen : fs.length = (kvs.map Prod.snd).length := by
        have := congrArg List.length hnames
        simpa using this.symm
      obtain ⟨hnd, H1, H2⟩ := remapOk_facts hg.1 (kvs.map Prod.snd) hlen
      obtain ⟨cols, trs, hU, hK, hN, hP, hT, hV, hE, _⟩ :=
        model_fields_spec lay he fs h2f f2h ih hnd hg.2 kvs segs hsegs true hnames hrf hl H1
          (fun p hp _ => H2 p hp)
      have hne : cols ≠ [] := by
        intro hc
        have := allDefault_of_pairs hnames hnd (hE hc)
        simp [fieldOk, this] at hfo
      refine ⟨cols, .dict trs, hne, ?_, hN, ?_, ?_, ?_, by intro h; simp [isBasicVal] at h⟩
      · intro c hc s hs
        obtain ⟨p, hp, hpn, r, e, hr, _⟩ := hK c hc
        rw [e] at hs
        rcases List.mem_cons.mp hs with rfl | hs
        · exact segOk_simple (H2 p hp).1
        · exact hr s hs
      · intro out hf
        rw [unparseRec_model he fs h2f f2h kvs _ out hm]
        have := hU out (fun p _ _ => fresh_child hf _)
        rwa [zip_map_fst fs _ hlen] at this
      · cases hc : cols with
        | nil => exact absurd hc hne
        | cons c cs =>
          have hcne : (c.1, (Sum.inl c.2 : ColVal)).1 ≠ [] := by
            obtain ⟨p, _, _, r, e, _⟩ := hK c (by rw [hc]; simp)
            simp [e]
          have := hP [] (fun _ _ => rfl)
          rw [hc] at this
          simp only [inlCols, List.map_cons] at this ⊢
          rw [pfold_none _ _ _ hcne]
          simpa [initChild, isListTy, isModelTy] using this
      · simp only [validate]
        rw [validateFields_of_spec trs fs kvs hnames hV]
  | _ => simp [reprOk] at hr

theorem posAll_list (lay : Layout) (he : lay.excluded = []) (t : Ty) (ih : PosAll lay t) :
    PosAll lay (.list t) := by
  intro v segs b hg hsegs hr hfo hl
  cases v with
  | list xs =>
    have hne : xs ≠ [] := by intro e; subst e; simp [fieldOk] at hfo
    cases hm : matchesHeaders (pathStr segs) lay.targets with
    | true =>
      unfold layOk at hl
      simp only [isBasicTy, Bool.false_eq_true, if_false, hm, if_true] at hl
      exact colsRT_of_pack (packRT hl hg (reprOk_false_of b hr) hfo)
        (fun out => unparseRec_packed he _ _ _ out hm)
    | false =>
      unfold layOk at hl
      simp only [isBasicTy, Bool.false_eq_true, if_false, hm] at hl
      have hr' := reprOk_false_of b hr
      simp only [reprOk, Bool.and_eq_true, Bool.false_and, Bool.not_false, Bool.true_and,
        List.all_eq_true] at hr'
      simp only [goodTy] at hg
      obtain ⟨cols, trs, hU, hK, hN, hP, hV, hE⟩ := list_spec lay t segs xs 1 (by
        intro j x hx
        have hmem : x ∈ xs := List.mem_of_getElem? hx
        refine ih x _ true hg ?_ (hr' x hmem) (fieldOk_of_reprOk_true (hr' x hmem)) ?_
        · intro s hs
          rcases List.mem_append.mp hs with h | h
          · exact hsegs s h
          · simp only [List.mem_singleton] at h; subst h; exact segOk_printNat _
        · rw [← idxPrefix_pathStr]
          exact allIdx_get _ _ xs 1 hl j x hx)
      have hcne := hE hne
      refine ⟨cols, .list trs, hcne, ?_, hN, ?_, ?_, ?_, by intro h; simp [isBasicVal] at h⟩
      · intro c hc s hs
        obtain ⟨j, _, r, e, hr⟩ := hK c hc
        rw [e] at hs
        rcases List.mem_cons.mp hs with rfl | hs
        · exact segOk_printNat _
        · exact hr s hs
      · intro out hf
        rw [unparseRec_list he t xs _ out hm]
        exact hU out (fun j _ => fresh_child hf _)
      · cases hc : cols with
        | nil => exact absurd hc hcne
        | cons c cs =>
          have hcne' : (c.1, (Sum.inl c.2 : ColVal)).1 ≠ [] := by
            obtain ⟨j, _, r, e, _⟩ := hK c (by rw [hc]; simp)
            simp [e]
          have := hP [] rfl
          rw [hc] at this
          simp only [inlCols, List.map_cons] at this ⊢
          rw [pfold_none _ _ _ hcne']
          simpa [initChild, isListTy] using this
      · simp only [validate, hV]
  | _ => simp [reprOk] at hr

theorem posAll_any (lay : Layout) (he : lay.excluded = []) : PosAll lay .anyList := by
  intro v segs b hg hsegs hr hfo hl
  cases v with
  | any xs =>
    have hne : xs ≠ [] := by intro e; subst e; simp [fieldOk] at hfo
    cases hm : matchesHeaders (pathStr segs) lay.targets with
    | true =>
      exact colsRT_of_pack (packRT rfl hg (reprOk_false_of b hr) hfo)
        (fun out => unparseRec_packed he _ _ _ out hm)
    | false =>
      unfold layOk at hl
      simp only [isBasicTy, Bool.false_eq_true, if_false, hm] at hl
      have hr' := reprOk_false_of b hr
      simp only [reprOk, Bool.false_and, Bool.not_false, Bool.true_and, List.all_eq_true] at hr'
      obtain ⟨ss, rfl, hss⟩ := atoms_of_all hl hr'
      have hsne : ss ≠ [] := by simpa using hne
      obtain ⟨cols, hU, hK, hN, hP, hE⟩ := any_spec lay he segs ss 1 hss
      have hcne := hE hsne
      refine ⟨cols, .list (ss.map Tree.str), hcne, ?_, hN, ?_, ?_, ?_, by intro h; simp [isBasicVal] at h⟩
      · intro c hc s hs
        obtain ⟨j, _, e⟩ := hK c hc
        rw [e] at hs
        simp only [List.mem_singleton] at hs
        subst hs
        exact segOk_printNat _
      · intro out hf
        rw [unparseRec_any he _ _ out hm]
        exact hU out (fun j _ => fresh_child hf _)
      · cases hc : cols with
        | nil => exact absurd hc hcne
        | cons c cs =>
          have hcne' : (c.1, (Sum.inl c.2 : ColVal)).1 ≠ [] := by
            obtain ⟨j, _, e⟩ := hK c (by rw [hc]; simp)
            simp [e]
          have := hP [] rfl
          rw [hc] at this
          simp only [inlCols, List.map_cons] at this ⊢
          rw [pfold_none _ _ _ hcne']
          simpa [initChild, isListTy] using this
      · simp [validate, ← ofPVs_atoms, toPVs_ofPVs]
  | _ => simp [reprOk] at hr

/-- **Every position round-trips**: any type of the family, any representable non-empty
value, any layout that is `layOk` for it, at any position. -/
theorem posAll (lay : Layout) (he : lay.excluded = []) : ∀ ty : Ty, PosAll lay ty :=
  Ty.induct (posAll_basic lay he _ rfl) (posAll_basic lay he _ rfl) (posAll_basic lay he _ rfl)
    (posAll_basic lay he _ rfl) (posAll_any lay he) (posAll_list lay he) (posAll_model lay he)

end Rpft.Row
