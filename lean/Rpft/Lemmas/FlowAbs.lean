/-
What a contact can observe of a flow depends only on its index-resolved abstraction: per node the
observable content of the actions, the observation made at the decision, and — per way the
environment can answer — the INDEX of the node the destination names.  Two flows with the same
abstraction have the same traces for every answer stream (identifiers do not matter).
-/
import Rpft.FlowSys
set_option linter.unusedSimpArgs false
set_option linter.unusedVariables false
namespace Rpft.Flow
open Rpft Rpft.Bisim

structure ANode where
  acts : List Str
  ask : Option RouterObs
  /-- with a router: one entry per admissible answer; without: the one exit -/
  dests : List (Option (Option Nat))
  deriving DecidableEq, Repr

/-- the index of the node a destination names (`some none`: it names no node of the flow) -/
def destIdx (f : Flow) (d : Option Id) : Option (Option Nat) := d.map (findNode f)

def absNode (lvl : ObsLevel) (f : Flow) (n : Node) : ANode :=
  { acts := n.actions.map (·.obs)
    ask := n.router.map (routerObs lvl)
    dests := match n.router with
      | none => [destIdx f ((n.exits.head?).bind (·.dest))]
      | some r => (List.range (routerArity r)).map fun c => destIdx f ((routerChoice r c).bind (catDest n r)) }

def absFlow (lvl : ObsLevel) (f : Flow) : List ANode := f.nodes.map (absNode lvl f)

/-! ### the transition system of an abstraction -/

def aEnter (A : List ANode) : Nat → Option (Option Nat) → Option St
  | _, none => none
  | 0, some _ => some .div
  | _ + 1, some none => none
  | fuel + 1, some (some i) =>
    match A[i]? with
    | none => none
    | some a =>
      if a.acts.isEmpty && a.ask.isNone then aEnter A fuel (a.dests.head?.join)
      else some (.at ⟨i, 0⟩)

def aObs (A : List ANode) : St → Obs
  | .div => .diverge
  | .at p =>
    match A[p.node]? with
    | none => .diverge
    | some a =>
      match a.acts[p.k]? with
      | some x => .act x
      | none =>
        match a.ask with
        | some r => .ask r
        | none => .diverge

def aArity (A : List ANode) : St → Nat
  | .div => 0
  | .at p =>
    match A[p.node]? with
    | none => 0
    | some a =>
      match a.acts[p.k]? with
      | some _ => 1
      | none =>
        match a.ask with
        | some _ => a.dests.length
        | none => 0

def aNext (A : List ANode) : St → Nat → Option St
  | .div, _ => none
  | .at p, c =>
    match A[p.node]? with
    | none => none
    | some a =>
      match a.acts[p.k]? with
      | some _ =>
        if p.k + 1 < a.acts.length then some (.at ⟨p.node, p.k + 1⟩)
        else match a.ask with
          | some _ => some (.at ⟨p.node, p.k + 1⟩)
          | none => aEnter A (A.length + 1) (a.dests.head?.join)
      | none =>
        match a.ask with
        | some _ => aEnter A (A.length + 1) (a.dests[c]?.join)
        | none => none

def aSys (A : List ANode) : Sys St Obs := { obs := aObs A, arity := aArity A, next := aNext A }

def aStart (A : List ANode) : Option St :=
  match A with
  | [] => none
  | _ :: _ => aEnter A (A.length + 1) (some (some 0))

/-! ### a flow behaves as its abstraction -/

theorem absFlow_getElem? (lvl : ObsLevel) (f : Flow) (i : Nat) :
    (absFlow lvl f)[i]? = (f.nodes[i]?).map (absNode lvl f) := by
  simp [absFlow]

theorem enter_abs (lvl : ObsLevel) (f : Flow) : ∀ (fuel : Nat) (d : Option Id),
    enter f fuel d = aEnter (absFlow lvl f) fuel (destIdx f d) := by
  intro fuel
  induction fuel with
  | zero => intro d; cases d <;> simp [enter, aEnter, destIdx]
  | succ fuel ih =>
    intro d
    cases d with
    | none => simp [enter, aEnter, destIdx]
    | some u =>
      simp only [enter, destIdx, Option.map_some]
      cases hf : findNode f u with
      | none => simp [aEnter]
      | some i =>
        simp only [aEnter, absFlow_getElem?]
        cases hn : f.nodes[i]? with
        | none => simp
        | some n =>
          simp only [Option.map_some]
          have e1 : (absNode lvl f n).acts.isEmpty = n.actions.isEmpty := by
            simp [absNode, List.isEmpty_iff]
          have e2 : (absNode lvl f n).ask.isNone = n.router.isNone := by
            simp [absNode]
          rw [e1, e2]
          split
          · rename_i hc
            simp only [Bool.and_eq_true, Option.isNone_iff_eq_none] at hc
            have : (absNode lvl f n).dests.head?.join = destIdx f ((n.exits.head?).bind (·.dest)) := by
              simp [absNode, hc.2]
            rw [this]; exact ih _
          · rfl

theorem obsAt_abs (lvl : ObsLevel) (f : Flow) (s : St) : obsAt lvl f s = aObs (absFlow lvl f) s := by
  cases s with
  | div => rfl
  | «at» p =>
    simp only [obsAt, aObs, absFlow_getElem?]
    cases f.nodes[p.node]? with
    | none => rfl
    | some n =>
      simp only [Option.map_some, absNode, List.getElem?_map]
      cases n.actions[p.k]? with
      | some a => rfl
      | none =>
        simp only [Option.map_none]
        cases n.router <;> rfl

theorem arityAt_abs (lvl : ObsLevel) (f : Flow) (s : St) : arityAt f s = aArity (absFlow lvl f) s := by
  cases s with
  | div => rfl
  | «at» p =>
    simp only [arityAt, aArity, absFlow_getElem?]
    cases f.nodes[p.node]? with
    | none => rfl
    | some n =>
      simp only [Option.map_some, absNode, List.getElem?_map]
      cases n.actions[p.k]? with
      | some a => rfl
      | none =>
        simp only [Option.map_none]
        cases n.router <;> simp

theorem nextAt_abs (lvl : ObsLevel) (f : Flow) (s : St) (c : Nat) (hc : c < arityAt f s) :
    nextAt f s c = aNext (absFlow lvl f) s c := by
  cases s with
  | div => rfl
  | «at» p =>
    simp only [arityAt] at hc
    simp only [nextAt, aNext, absFlow_getElem?]
    cases hn : f.nodes[p.node]? with
    | none => rfl
    | some n =>
      simp only [hn] at hc
      simp only [Option.map_some, List.getElem?_map]
      have hlen : (absFlow lvl f).length + 1 = fuelOf f := by simp [absFlow, fuelOf]
      cases ha : n.actions[p.k]? with
      | some a =>
        simp only [absNode, List.getElem?_map, ha, Option.map_some, List.length_map]
        split
        · rfl
        · cases hr : n.router with
          | some r => rfl
          | none =>
            simp only [Option.map_none]
            rw [hlen, enter_abs lvl]
            simp
      | none =>
        simp only [ha] at hc
        simp only [absNode, List.getElem?_map, ha, Option.map_none]
        cases hr : n.router with
        | none => rfl
        | some r =>
          simp only [hr] at hc
          simp only [Option.map_some]
          rw [hlen, enter_abs lvl]
          congr 1
          simp [hc]

/-- systems that agree on observations, arities and admissible steps have the same runs -/
theorem run_congr {S O : Type} (A B : Sys S O) (ho : ∀ s, A.obs s = B.obs s)
    (ha : ∀ s, A.arity s = B.arity s) (hn : ∀ s c, c < A.arity s → A.next s c = B.next s c) :
    ∀ (n : Nat) (s : Option S) (env : Nat → Nat), run A s env n = run B s env n := by
  intro n
  induction n with
  | zero => intro s env; cases s <;> rfl
  | succ n ih =>
    intro s env
    cases s with
    | none => rfl
    | some s =>
      simp only [run]
      rw [ho s]
      congr 1
      have : A.step s (env 0) = B.step s (env 0) := by
        unfold Sys.step
        rw [← ha s]
        split
        · rfl
        · rename_i h0
          exact hn s _ (Nat.mod_lt _ (Nat.pos_of_ne_zero h0))
      rw [this]; exact ih _ _

theorem start_abs (lvl : ObsLevel) (f : Flow) : start f = aStart (absFlow lvl f) := by
  unfold start aStart
  rw [enter_abs lvl]
  cases hn : f.nodes with
  | nil => simp [absFlow, hn, destIdx, aEnter]
  | cons n ns =>
    have h0 : destIdx f ((f.nodes.head?).map (·.uuid)) = some (some 0) := by
      simp [destIdx, hn, findNode, List.findIdx?_cons]
    have hl : fuelOf f = (absFlow lvl f).length + 1 := by simp [absFlow, fuelOf]
    rw [← hn, h0, hl]
    simp [absFlow, hn]

theorem trace_abs (lvl : ObsLevel) (f : Flow) (env : Nat → Nat) (n : Nat) :
    trace lvl f env n = run (aSys (absFlow lvl f)) (aStart (absFlow lvl f)) env n := by
  unfold trace
  rw [start_abs lvl]
  exact run_congr _ _ (obsAt_abs lvl f) (arityAt_abs lvl f) (fun s c hc => nextAt_abs lvl f s c hc) n _ env

/-- **Flows with the same abstraction are trace equivalent** -/
theorem trace_eq_of_abs (lvl : ObsLevel) (f g : Flow) (h : absFlow lvl f = absFlow lvl g)
    (env : Nat → Nat) (n : Nat) : trace lvl f env n = trace lvl g env n := by
  rw [trace_abs, trace_abs, h]

end Rpft.Flow
