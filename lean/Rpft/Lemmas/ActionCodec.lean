/-
Helper lemmas for the action codec (`Rpft/ActionCodec.lean`): dictionaries built from
key-distinct pair lists, the pair-list codec, amounts, the media columns, row-type dispatch.
-/
import Rpft.ActionCodec
import Rpft.Lemmas.Codec
set_option linter.unusedSimpArgs false
set_option linter.unusedVariables false
namespace Rpft.ActionCodec
open Rpft

/-! ### lists of strings -/

theorem filter_nonempty_id {l : List Str} (h : [] ∉ l) : l.filter (· ≠ []) = l := by
  apply List.filter_eq_self.mpr
  intro a ha
  have : a ≠ [] := fun e => h (e ▸ ha)
  simpa using this

theorem prefix_append_drop {p a : Str} (h : p.isPrefixOf a = true) : p ++ a.drop p.length = a := by
  rw [List.isPrefixOf_iff_prefix] at h
  obtain ⟨t, rfl⟩ := h
  simp

/-! ### dictionaries -/

theorem dictSet_append_new {V : Type} (d : List (Str × V)) (k : Str) (v : V)
    (h : k ∉ d.map (·.1)) : dictSet d k v = d ++ [(k, v)] := by
  induction d with
  | nil => rfl
  | cons kv d ih =>
    obtain ⟨k', v'⟩ := kv
    simp only [List.map_cons, List.mem_cons, not_or] at h
    have hne : ¬ k' = k := fun e => h.1 e.symm
    simp [dictSet, hne, ih h.2]

theorem foldl_dictSet_nodup {V : Type} (l d : List (Str × V))
    (h : ((d ++ l).map (·.1)).Nodup) :
    l.foldl (fun d kv => dictSet d kv.1 kv.2) d = d ++ l := by
  induction l generalizing d with
  | nil => simp
  | cons kv l ih =>
    have hk : kv.1 ∉ d.map (·.1) := by
      simp only [List.map_append, List.map_cons] at h
      have := (List.nodup_append.mp h).2.2
      intro hm
      exact this _ hm _ (List.mem_cons_self ..) rfl
    simp only [List.foldl_cons]
    rw [dictSet_append_new d kv.1 kv.2 hk, ih]
    · simp
    · simpa using h

theorem dictOfPairs_nodup {V : Type} (l : List (Str × V)) (h : KeysNodup l) : dictOfPairs l = l := by
  unfold dictOfPairs
  rw [foldl_dictSet_nodup l [] (by simpa [KeysNodup] using h)]
  simp

/-! ### `dict_to_list_of_pairs` / `list_of_pairs_to_dict` -/

theorem mapM_asPair_pairs {V : Type} (f : V → Str) (l : List (Str × V)) :
    (l.map fun kv => Item.list [kv.1, f kv.2]).mapM Item.asPair = some (l.map fun kv => (kv.1, f kv.2)) := by
  induction l with
  | nil => rfl
  | cons kv l ih => simp [List.mapM_cons, Item.asPair, ih]

theorem pairs_ne_blank {V : Type} (f : V → Str) (l : List (Str × V)) :
    (l.map fun kv => Item.list [kv.1, f kv.2]) ≠ [Item.atom []] := by
  cases l with
  | nil => simp
  | cons kv l => simp

theorem pairsToDict_pairs {V : Type} (f : V → Str) (l : List (Str × V)) :
    pairsToDict (l.map fun kv => Item.list [kv.1, f kv.2]) = .ok (dictOfPairs (l.map fun kv => (kv.1, f kv.2))) := by
  unfold pairsToDict
  rw [if_neg (pairs_ne_blank f l), mapM_asPair_pairs]

theorem pairsToDict_dictToPairs (h : List (Str × Str)) (hn : KeysNodup h) :
    pairsToDict (dictToPairs h) = .ok h := by
  have := pairsToDict_pairs (V := Str) id h
  simp only [id] at this
  unfold dictToPairs
  rw [this]
  have e : (h.map fun kv => (kv.1, kv.2)) = h := by simp
  rw [e, dictOfPairs_nodup h hn]

/-! ### amounts -/

theorem parseAmount_print (a : Amount) (h : a.WellFormed) : parseAmount a.print = some a := by
  cases a with
  | int i => simp [parseAmount, Amount.print, Row.pyInt_printInt]
  | float r =>
    obtain ⟨h1, h2⟩ := h
    simp [parseAmount, Amount.print, h1, h2]

theorem mapM_parseAmount (l : List (Str × Amount)) (h : ∀ kv ∈ l, kv.2.WellFormed) :
    (l.map fun kv => (kv.1, kv.2.print)).mapM (fun kv => (parseAmount kv.2).map fun a => (kv.1, a)) = some l := by
  induction l with
  | nil => rfl
  | cons kv l ih =>
    have h1 := h kv (List.mem_cons_self ..)
    have h2 := ih (fun x hx => h x (List.mem_cons_of_mem _ hx))
    simp [List.mapM_cons, parseAmount_print _ h1, h2]

theorem keysNodup_print (l : List (Str × Amount)) (h : KeysNodup l) :
    KeysNodup (l.map fun kv => (kv.1, kv.2.print)) := by
  unfold KeysNodup at *
  simpa [List.map_map, Function.comp_def] using h

/-! ### row-type dispatch on the words the exporter writes -/

theorem classify_sendMessage : classify rSendMessage = .sendMessage := by decide
theorem classify_saveValue : classify rSaveValue = .saveValue := by decide
theorem classify_addToGroup : classify rAddToGroup = .addToGroup := by decide
theorem classify_addContactUrn : classify tAddContactUrn = .addContactUrn := by decide
theorem classify_removeFromGroup : classify rRemoveFromGroup = .removeFromGroup := by decide
theorem classify_saveFlowResult : classify rSaveFlowResult = .saveFlowResult := by decide
theorem classify_setContact (p : ContactProp) : classify (setContactPrefix ++ p.str) = .setContact := by
  cases p <;> decide
theorem classify_startNewFlow : classify rStartNewFlow = .noAction := by decide
theorem classify_callWebhook : classify tCallWebhook = .noAction := by decide
theorem classify_transferAirtime : classify tTransferAirtime = .noAction := by decide

theorem classifyNode_sendMessage : classifyNode rSendMessage = .other := by decide
theorem classifyNode_saveValue : classifyNode rSaveValue = .other := by decide
theorem classifyNode_addToGroup : classifyNode rAddToGroup = .other := by decide
theorem classifyNode_addContactUrn : classifyNode tAddContactUrn = .other := by decide
theorem classifyNode_removeFromGroup : classifyNode rRemoveFromGroup = .other := by decide
theorem classifyNode_saveFlowResult : classifyNode rSaveFlowResult = .other := by decide
theorem classifyNode_setContact (p : ContactProp) : classifyNode (setContactPrefix ++ p.str) = .other := by
  cases p <;> decide
theorem classifyNode_startNewFlow : classifyNode rStartNewFlow = .enterFlow := by decide
theorem classifyNode_callWebhook : classifyNode tCallWebhook = .callWebhook := by decide
theorem classifyNode_transferAirtime : classifyNode tTransferAirtime = .transferAirtime := by decide

theorem prop_of_type (p : ContactProp) :
    ContactProp.ofStr (removeAll setContactPrefix 0 (setContactPrefix ++ p.str)) = some p := by
  cases p <;> decide


/-! ### media columns -/

theorem splitMedia_spec (atts : List Str) :
    splitMedia atts = (none, [], atts) ∨
    ∃ a t, atts = [a] ∧ t ∈ mediaKinds ∧ (t ++ [':']).isPrefixOf a = true ∧
      mediaKindOf a = some t ∧ splitMedia atts = (some t, a.drop mediaCut, []) := by
  unfold splitMedia
  split
  · rename_i a
    cases h : mediaKindOf a with
    | none => left; rfl
    | some t =>
      right
      refine ⟨a, t, rfl, ?_, ?_, h, ?_⟩
      · exact List.mem_of_find?_eq_some h
      · have := List.find?_some h
        simpa using this
      · first | rfl | simp [h]
  · left; rfl

theorem strip_nil : strip pyWs [] = [] := rfl

/-- the media columns written for a lone media attachment read back as that attachment -/
theorem mediaAttachments_col (t payload : Str) (ht : t ∈ mediaKinds)
    (hs : strip pyWs payload = payload) (hne : payload ≠ []) (r : RowFields)
    (hi : r.image = if some t = some "image".toList then payload else [])
    (ha : r.audio = if some t = some "audio".toList then payload else [])
    (hv : r.video = if some t = some "video".toList then payload else []) :
    mediaAttachments r = [t ++ ':' :: payload] := by
  unfold mediaAttachments
  rw [hi, ha, hv]
  simp only [mediaKinds, List.mem_cons, List.mem_nil_iff, or_false] at ht
  rcases ht with rfl | rfl | rfl <;>
    simp [mediaKinds, List.zip, List.filterMap, strip_nil, hs, hne]

theorem mediaAttachments_none (r : RowFields) (hi : r.image = []) (ha : r.audio = []) (hv : r.video = []) :
    mediaAttachments r = [] := by
  unfold mediaAttachments
  rw [hi, ha, hv]
  simp [mediaKinds, strip_nil]

theorem mediaKinds_cut (t : Str) (ht : t ∈ mediaKinds) : (t ++ [':']).length = mediaCut := by
  simp only [mediaKinds, List.mem_cons, List.mem_nil_iff, or_false] at ht
  rcases ht with rfl | rfl | rfl <;> rfl


/-! ### per-kind round trips -/

theorem waToTempl_templToWa (t : Option Templating) (h : TemplOk t) : waToTempl (templToWa t) = t := by
  cases t with
  | none => rfl
  | some t =>
    have : t.name ≠ [] := h
    simp [templToWa, waToTempl, this]

theorem rt_sendMsg (text : Str) (atts qrs : List Str) (templ : Option Templating)
    (h : Expressible (.sendMsg text atts qrs false [] templ)) :
    roundTrip (.sendMsg text atts qrs false [] templ) = .ok [.sendMsg text atts qrs false [] templ] := by
  obtain ⟨ht, ha, hq, hm, -, -, htm⟩ := h
  have hfa := filter_nonempty_id ha
  have hfq := filter_nonempty_id hq
  unfold roundTrip toFields
  simp only [hfa]
  rcases splitMedia_spec atts with hs | ⟨a, t, rfl, htk, hpre, hkind, hs⟩
  · -- generic attachment list
    simp only [hs, ofFields, rowAction, rowNodeAction, classify_sendMessage, classifyNode_sendMessage]
    rw [mediaAttachments_none _ (by simp) (by simp) (by simp)]
    simp only [if_neg ht, List.nil_append, hfa, hfq, waToTempl_templToWa templ htm, Option.toList]
  · -- a lone media attachment
    have hmo := hm (by rw [hkind]; simp)
    have hane : a ≠ [] := fun e => ha (by simp [e])
    simp only [hs, ofFields, rowAction, rowNodeAction, classify_sendMessage, classifyNode_sendMessage]
    rw [mediaAttachments_col t (a.drop mediaCut) htk hmo.1 hmo.2 _ rfl rfl rfl]
    have hcut := mediaKinds_cut t htk
    have hback : t ++ ':' :: a.drop mediaCut = a := by
      have := prefix_append_drop hpre
      rw [hcut] at this
      simpa using this
    have hf1 : [a].filter (· ≠ []) = [a] := by simp [hane]
    simp only [if_neg ht, List.nil_append, List.append_nil, hback, hf1, hfq, waToTempl_templToWa templ htm, Option.toList]


theorem rt_setContactField (name key value : Str)
    (h : Expressible (.setContactField name key [] value)) :
    roundTrip (.setContactField name key [] value) = .ok [.setContactField name key [] value] := by
  obtain ⟨hk, -, hv⟩ := h
  have hkey : (if key = [] then fieldKey name else .ok key) = .ok key := by
    split
    · rename_i e; rw [hk, e]
    · rfl
  have hv' : ¬ value.length > maxFieldValue := by omega
  unfold roundTrip toFields
  simp only [hkey]
  simp only [ofFields, rowAction, rowNodeAction, classify_saveValue,
    classifyNode_saveValue, hk, if_neg hv', Option.toList, List.nil_append]

theorem rt_setContactProp (p : ContactProp) (value : Str) (h : Expressible (.setContactProp p value)) :
    roundTrip (.setContactProp p value) = .ok [.setContactProp p value] := by
  have hv : value ≠ [] := h
  simp only [roundTrip, toFields, ofFields, rowAction, rowNodeAction, classify_setContact,
    classifyNode_setContact, prop_of_type, if_neg hv, Option.toList, List.nil_append]

theorem groupOf_back (g : GroupRef) (h : g.Expressible) : groupOf g.name (g.uuid.getD []) = g := by
  obtain ⟨hu, ha⟩ := h
  obtain ⟨name, uuid, attrs⟩ := g
  simp only at hu ha
  subst ha
  cases uuid with
  | none => simp [groupOf]
  | some u =>
    have : u ≠ [] := fun e => hu (by rw [e])
    simp [groupOf, this]

/-! ### group actions: what comes back, for EVERY group list -/

theorem recordedUuid_nameOnly (ms : List Str) (name : Str) :
    recordedUuid (ms.map fun m => groupOf m []) name = none := by
  induction ms with
  | nil => rfl
  | cons m ms ih =>
    simp only [List.map_cons, recordedUuid]
    rw [ih]
    simp [groupOf]

theorem recordedUuid_rowGroups (n o : Str) (ms : List Str) (name : Str) :
    recordedUuid (groupOf n o :: ms.map fun m => groupOf m []) name =
      if n = name then (groupOf n o).uuid else none := by
  simp only [recordedUuid, recordedUuid_nameOnly]
  by_cases ho : o = []
  · simp [groupOf, ho]
  · by_cases hn : n = name
    · simp [groupOf, ho, hn]
    · simp [groupOf, ho, hn]

/-- the groups a row gives back, after the dictionary: the first with `obj_id`, every further
non-blank name without attributes, with the first group's uuid if it has the first group's name -/
def backGroups (g0 : GroupRef) (rest : List GroupRef) : List GroupRef :=
  groupOf g0.name (g0.uuid.getD []) ::
    ((rest.map (·.name)).filter (· ≠ [])).map fun m =>
      { name := m, uuid := if g0.name = m then (groupOf g0.name (g0.uuid.getD [])).uuid else none, attrs := false }

theorem resolve_rowGroups (n o : Str) (ms : List Str) :
    resolveGroups (groupOf n o :: ms.map fun m => groupOf m []) =
      groupOf n o :: ms.map fun m => { name := m, uuid := if n = m then (groupOf n o).uuid else none, attrs := false } := by
  unfold resolveGroups
  rw [List.map_cons, List.map_map]
  congr 1
  · rw [recordedUuid_rowGroups]; simp [groupOf]
  · apply List.map_congr_left
    intro m _
    simp only [Function.comp, recordedUuid_rowGroups]
    simp [groupOf]

/-- **what a group action comes back as** — no hypothesis: every group list with a first group -/
theorem roundTrip_addGroups_eq (g0 : GroupRef) (rest : List GroupRef) :
    roundTrip (.addGroups (g0 :: rest)) = .ok [.addGroups (backGroups g0 rest)] := by
  simp only [roundTrip, toFields, groupFields, ofFields, rowAction, rowNodeAction, classify_addToGroup,
    classifyNode_addToGroup, List.map_cons, rowGroups, resolve_rowGroups, Option.toList, List.nil_append,
    backGroups, List.cons_append]

theorem roundTrip_removeGroups_eq (g0 : GroupRef) (rest : List GroupRef) (all : Bool) :
    roundTrip (.removeGroups (g0 :: rest) all) = .ok [.removeGroups (backGroups g0 rest) false] := by
  simp only [roundTrip, toFields, groupFields, ofFields, rowAction, rowNodeAction, classify_removeFromGroup,
    classifyNode_removeFromGroup, List.map_cons, rowGroups, resolve_rowGroups, Option.toList, List.nil_append,
    backGroups, List.cons_append]

theorem names_nonblank {rest : List GroupRef} (h : ∀ g ∈ rest, g.TailOk) :
    (rest.map (·.name)).filter (· ≠ []) = rest.map (·.name) := by
  apply List.filter_eq_self.mpr
  intro m hm
  obtain ⟨g, hg, rfl⟩ := List.mem_map.mp hm
  simpa using (h g hg).1

/-- every name comes back, in order, for any first group and named further groups -/
theorem backGroups_names (g0 : GroupRef) (rest : List GroupRef) (h : ∀ g ∈ rest, g.TailOk) :
    (backGroups g0 rest).map (·.name) = (g0 :: rest).map (·.name) := by
  simp only [backGroups, names_nonblank h, List.map_cons, List.map_map, groupOf]
  congr 1

theorem backGroups_forget (g0 : GroupRef) (rest : List GroupRef) (h : GroupsOkModTailUuids (g0 :: rest)) :
    forgetTail (backGroups g0 rest) = forgetTail (g0 :: rest) := by
  obtain ⟨h0, ht⟩ := h
  simp only [backGroups, forgetTail, names_nonblank ht, groupOf_back g0 h0, List.map_map]
  congr 1
  apply List.map_congr_left
  intro g hg
  obtain ⟨_, ha⟩ := ht g hg
  obtain ⟨name, uuid, attrs⟩ := g
  simp only at ha
  subst ha
  rfl

theorem backGroups_eq (g0 : GroupRef) (rest : List GroupRef) (h : GroupsOk (g0 :: rest)) :
    backGroups g0 rest = g0 :: rest := by
  obtain ⟨⟨h0, ht⟩, hu⟩ := h
  simp only [backGroups, names_nonblank ht, groupOf_back g0 h0, List.map_map]
  congr 1
  conv => rhs; rw [← List.map_id rest]
  apply List.map_congr_left
  intro g hg
  obtain ⟨_, ha⟩ := ht g hg
  have hu' := hu g hg
  obtain ⟨name, uuid, attrs⟩ := g
  simp only [tailUuid] at ha hu'
  subst ha
  rw [hu']
  simp only [Function.comp, id, GroupRef.mk.injEq, and_true, true_and]
  by_cases e : g0.name = name
  · simp [e]
  · have e' : ¬ name = g0.name := fun x => e x.symm
    simp [e, e']

theorem rt_addGroups (gs : List GroupRef) (h : Expressible (.addGroups gs)) :
    roundTrip (.addGroups gs) = .ok [.addGroups gs] := by
  have h' : GroupsOk gs := h
  match gs, h' with
  | [], h' => exact absurd h'.1 (by simp [GroupsOkModTailUuids])
  | g0 :: rest, h' => rw [roundTrip_addGroups_eq, backGroups_eq g0 rest h']

theorem rt_removeGroups (gs : List GroupRef) (h : Expressible (.removeGroups gs false)) :
    roundTrip (.removeGroups gs false) = .ok [.removeGroups gs false] := by
  have h' : GroupsOk gs := h.1
  match gs, h' with
  | [], h' => exact absurd h'.1 (by simp [GroupsOkModTailUuids])
  | g0 :: rest, h' => rw [roundTrip_removeGroups_eq, backGroups_eq g0 rest h']

theorem rt_setRunResult (name value category : Str) (h : Expressible (.setRunResult name value category)) :
    roundTrip (.setRunResult name value category) = .ok [.setRunResult name value category] := by
  have hv : value.length ≤ maxResultValue := h
  have hv' : ¬ value.length > maxResultValue := by omega
  simp only [roundTrip, toFields, ofFields, rowAction, rowNodeAction, classify_saveFlowResult,
    classifyNode_saveFlowResult, if_neg hv', Option.toList, List.nil_append]

theorem rt_enterFlow (name : Str) (uuid : Option Str) (h : Expressible (.enterFlow name uuid)) :
    roundTrip (.enterFlow name uuid) = .ok [.enterFlow name uuid] := by
  obtain ⟨hn, hu⟩ := h
  have hback : (if uuid.getD [] = [] then none else some (uuid.getD [])) = uuid := by
    cases uuid with
    | none => simp
    | some u =>
      have : u ≠ [] := fun e => hu (by rw [e])
      simp [this]
  simp only [roundTrip, toFields, ofFields, rowAction, rowNodeAction, classify_startNewFlow,
    classifyNode_startNewFlow, if_neg hn, hback, Option.toList, List.append_nil]

theorem fieldKey_ok_of_keyOk {n : Str} (h : KeyOk n) : ∃ k, fieldKey n = .ok k := by
  unfold KeyOk at h
  cases hk : fieldKey n with
  | ok k => exact ⟨k, rfl⟩
  | error e => rw [hk] at h; simp [Except.toBool] at h

theorem rt_callWebhook (rn url method body : Str) (headers : List (Str × Str))
    (h : Expressible (.callWebhook rn url method body headers)) :
    roundTrip (.callWebhook rn url method body headers) = .ok [.callWebhook rn url method body headers] := by
  obtain ⟨hu, hr, hm, hk, hn⟩ := h
  obtain ⟨k, hk⟩ := fieldKey_ok_of_keyOk hk
  have hmne : method ≠ [] := by
    intro e; rw [e] at hm; revert hm; decide
  have hor : ¬ (url = [] ∨ rn = []) := by simp [hu, hr]
  simp only [roundTrip, toFields, ofFields, rowAction, rowNodeAction, classify_callWebhook,
    classifyNode_callWebhook, pairsToDict_dictToPairs headers hn, if_pos hmne, hm, not_true_eq_false,
    if_false, if_neg hor, hk, Option.toList, List.append_nil]

theorem rt_transferAirtime (rn : Str) (amounts : List (Str × Amount))
    (h : Expressible (.transferAirtime rn amounts)) :
    roundTrip (.transferAirtime rn amounts) = .ok [.transferAirtime rn amounts] := by
  obtain ⟨ha, hr, hk, hn, hw⟩ := h
  obtain ⟨k, hk⟩ := fieldKey_ok_of_keyOk hk
  have hor : ¬ (amounts = [] ∨ rn = []) := by simp [ha, hr]
  have hp := pairsToDict_pairs (V := Amount) Amount.print amounts
  rw [dictOfPairs_nodup _ (keysNodup_print amounts hn)] at hp
  simp only [roundTrip, toFields, ofFields, rowAction, rowNodeAction, classify_transferAirtime,
    classifyNode_transferAirtime, hp, mapM_parseAmount amounts hw, if_neg hor, hk, Option.toList,
    List.append_nil]

theorem rt_addContactUrn (path scheme : Str) (h : Expressible (.addContactUrn path scheme)) :
    roundTrip (.addContactUrn path scheme) = .ok [.addContactUrn path scheme] := by
  have hs : scheme ≠ [] := h
  have hback : (if (if scheme ≠ defaultScheme then scheme else []) ≠ [] then
      (if scheme ≠ defaultScheme then scheme else []) else defaultScheme) = scheme := by
    by_cases e : scheme = defaultScheme
    · simp [e]
    · simp [e, hs]
  simp only [roundTrip, toFields, ofFields, rowAction, rowNodeAction, classify_addContactUrn,
    classifyNode_addContactUrn, hback, Option.toList, List.nil_append]

/-- export then compile gives back exactly the action, for every expressible action -/
theorem roundTrip_of_expressible (a : Act) (h : Expressible a) : roundTrip a = .ok [a] := by
  cases a with
  | sendMsg text atts qrs allUrns topic templ =>
    obtain ⟨_, _, _, _, hu, ht, _⟩ := id h
    subst hu; subst ht
    exact rt_sendMsg text atts qrs templ h
  | setContactField name key ft value =>
    obtain ⟨_, hft, _⟩ := id h
    subst hft
    exact rt_setContactField name key value h
  | setContactProp p value => exact rt_setContactProp p value h
  | setContactChannel u n => exact absurd h (by simp [Expressible])
  | addGroups gs => exact rt_addGroups gs h
  | removeGroups gs all =>
    obtain ⟨_, hall⟩ := id h
    subst hall
    exact rt_removeGroups gs h
  | setRunResult n v c => exact rt_setRunResult n v c h
  | enterFlow n u => exact rt_enterFlow n u h
  | callWebhook rn url m b hs => exact rt_callWebhook rn url m b hs h
  | transferAirtime rn am => exact rt_transferAirtime rn am h
  | addContactUrn p s => exact rt_addContactUrn p s h
  | unsupported t => exact absurd h (by simp [Expressible])

/-! ### the converse direction: what comes back intact is expressible -/

theorem not_mem_of_filter_nonempty {l : List Str} (h : l.filter (· ≠ []) = l) : [] ∉ l := by
  intro hm
  have := (List.filter_eq_self.mp h) [] hm
  simp at this

theorem nil_not_mem_filter (l : List Str) : [] ∉ l.filter (· ≠ []) := by
  intro hm
  have := (List.mem_filter.mp hm).2
  simp at this

/-! dictionaries built by `dictOfPairs` have distinct keys -/

theorem dictSet_keys {V : Type} (d : List (Str × V)) (k : Str) (v : V) :
    (dictSet d k v).map (·.1) = if k ∈ d.map (·.1) then d.map (·.1) else d.map (·.1) ++ [k] := by
  induction d with
  | nil => simp [dictSet]
  | cons kv d ih =>
    obtain ⟨k', v'⟩ := kv
    by_cases e : k' = k
    · subst e; simp [dictSet]
    · have e' : ¬ k = k' := fun x => e x.symm
      simp only [dictSet, if_neg e, List.map_cons, ih, List.mem_cons, e', false_or]
      split <;> simp

theorem dictSet_nodup {V : Type} (d : List (Str × V)) (k : Str) (v : V) (h : (d.map (·.1)).Nodup) :
    ((dictSet d k v).map (·.1)).Nodup := by
  rw [dictSet_keys]
  split
  · exact h
  · rename_i hk
    rw [List.nodup_append]
    refine ⟨h, by simp, ?_⟩
    intro a ha b hb
    simp at hb
    subst hb
    intro e; subst e; exact hk ha

theorem foldl_dictSet_keys_nodup {V : Type} (l d : List (Str × V)) (h : (d.map (·.1)).Nodup) :
    ((l.foldl (fun d kv => dictSet d kv.1 kv.2) d).map (·.1)).Nodup := by
  induction l generalizing d with
  | nil => exact h
  | cons kv l ih => exact ih _ (dictSet_nodup d kv.1 kv.2 h)

theorem dictOfPairs_keysNodup {V : Type} (l : List (Str × V)) : KeysNodup (dictOfPairs l) := by
  unfold KeysNodup dictOfPairs
  exact foldl_dictSet_keys_nodup l [] (by simp)

theorem keysNodup_of_dictOfPairs_eq {V : Type} (l : List (Str × V)) (h : dictOfPairs l = l) : KeysNodup l := by
  rw [← h]; exact dictOfPairs_keysNodup l

/-! amounts read back -/

theorem wellFormed_of_parse_print (a : Amount) (h : parseAmount a.print = some a) : a.WellFormed := by
  cases a with
  | int i => trivial
  | float r =>
    unfold parseAmount Amount.print at h
    simp only at h
    cases hp : Row.pyInt r with
    | some i => rw [hp] at h; simp at h
    | none =>
      rw [hp] at h
      simp only at h
      by_cases hf : pyFloatSyntax r = true
      · exact ⟨hp, hf⟩
      · simp [hf] at h

theorem mapM_parse_keys {d : List (Str × Str)} {l : List (Str × Amount)}
    (h : d.mapM (fun kv => (parseAmount kv.2).map fun a => (kv.1, a)) = some l) :
    l.map (·.1) = d.map (·.1) := by
  induction d generalizing l with
  | nil => simp at h; subst h; rfl
  | cons kv d ih =>
    simp only [List.mapM_cons, Option.bind_eq_bind] at h
    cases hp : parseAmount kv.2 with
    | none => simp [hp] at h
    | some a =>
      cases hm : d.mapM (fun kv => (parseAmount kv.2).map fun a => (kv.1, a)) with
      | none => simp [hp, hm] at h
      | some l' =>
        simp [hp, hm] at h
        subst h
        simp [ih hm]

theorem mapM_parse_print_wf {l : List (Str × Amount)}
    (h : (l.map fun kv => (kv.1, kv.2.print)).mapM (fun kv => (parseAmount kv.2).map fun a => (kv.1, a)) = some l) :
    ∀ kv ∈ l, kv.2.WellFormed := by
  induction l with
  | nil => intro kv hkv; cases hkv
  | cons x l ih =>
    simp only [List.map_cons, List.mapM_cons, Option.bind_eq_bind] at h
    cases hp : parseAmount x.2.print with
    | none => simp [hp] at h
    | some a =>
      cases hm : (l.map fun kv => (kv.1, kv.2.print)).mapM (fun kv => (parseAmount kv.2).map fun a => (kv.1, a)) with
      | none => simp [hp, hm] at h
      | some l' =>
        simp [hp, hm] at h
        obtain ⟨h1, h2⟩ := h
        subst h2
        have ha : a = x.2 := by rw [← h1]
        subst ha
        intro kv hkv
        rcases List.mem_cons.mp hkv with e | e
        · subst e; exact wellFormed_of_parse_print _ hp
        · exact ih hm kv e


/-! media columns, general form -/

theorem mediaAttachments_col_gen (t payload : Str) (ht : t ∈ mediaKinds) (r : RowFields)
    (hi : r.image = if some t = some "image".toList then payload else [])
    (ha : r.audio = if some t = some "audio".toList then payload else [])
    (hv : r.video = if some t = some "video".toList then payload else []) :
    mediaAttachments r = if strip pyWs payload ≠ [] then [t ++ ':' :: strip pyWs payload] else [] := by
  unfold mediaAttachments
  rw [hi, ha, hv]
  simp only [mediaKinds, List.mem_cons, List.mem_nil_iff, or_false] at ht
  rcases ht with rfl | rfl | rfl <;>
    by_cases hp : strip pyWs payload = [] <;>
    simp [mediaKinds, List.zip, List.filterMap, strip_nil, hp]

/-! ### converse: what comes back intact is expressible -/

theorem ex_sendMsg (text : Str) (atts qrs : List Str) (allUrns : Bool) (topic : Str) (templ : Option Templating)
    (h : roundTrip (.sendMsg text atts qrs allUrns topic templ) = .ok [.sendMsg text atts qrs allUrns topic templ]) :
    Expressible (.sendMsg text atts qrs allUrns topic templ) := by
  unfold roundTrip toFields at h
  simp only [ofFields, rowAction, rowNodeAction, classify_sendMessage, classifyNode_sendMessage] at h
  by_cases ht : text = []
  · simp [ht] at h
  · simp only [if_neg ht, Option.toList, List.nil_append, Except.ok.injEq, List.cons.injEq, and_true,
      Act.sendMsg.injEq, true_and] at h
    obtain ⟨hatts, hqrs, hall, htop, htempl⟩ := h
    have ha : [] ∉ atts := by rw [← hatts]; exact nil_not_mem_filter _
    have hq : [] ∉ qrs := not_mem_of_filter_nonempty hqrs
    have hfa := filter_nonempty_id ha
    rw [hfa] at hatts
    refine ⟨ht, ha, hq, ?_, hall.symm, htop.symm, ?_⟩
    · -- MediaOk
      unfold MediaOk
      split
      · rename_i a
        intro hk
        rcases splitMedia_spec [a] with hs | ⟨a', t, e, htk, hpre, hkind, hs⟩
        · -- generic: contradiction with hk
          unfold splitMedia at hs
          cases hm : mediaKindOf a with
          | none => exact absurd hm hk
          | some t => simp [hm] at hs
        · simp only [List.cons.injEq, and_true] at e
          subst e
          rw [hs] at hatts
          rw [mediaAttachments_col_gen t (a.drop mediaCut) htk _ rfl rfl rfl] at hatts
          have hcut := mediaKinds_cut t htk
          have hback : t ++ ':' :: a.drop mediaCut = a := by
            have := prefix_append_drop hpre
            rw [hcut] at this
            simpa using this
          by_cases hp : strip pyWs (a.drop mediaCut) = []
          · simp [hp] at hatts
          · simp only [ne_eq, hp, not_false_eq_true, if_true, List.append_nil] at hatts
            have hne : t ++ ':' :: strip pyWs (List.drop mediaCut a) ≠ [] := by simp
            simp only [List.filter_cons, hne, ne_eq, not_false_eq_true, decide_true, if_true,
              List.filter_nil, List.cons.injEq, and_true] at hatts
            have : t ++ ':' :: strip pyWs (a.drop mediaCut) = t ++ ':' :: a.drop mediaCut := by
              rw [hatts, hback]
            have hs' : strip pyWs (a.drop mediaCut) = a.drop mediaCut := by
              have := List.append_cancel_left this
              simpa using this
            exact ⟨hs', by rw [← hs']; exact hp⟩
      · trivial
    · -- TemplOk
      cases templ with
      | none => trivial
      | some t =>
        show t.name ≠ []
        intro e
        simp [templToWa, waToTempl, e] at htempl


theorem ex_setContactField (name key ft value : Str)
    (h : roundTrip (.setContactField name key ft value) = .ok [.setContactField name key ft value]) :
    Expressible (.setContactField name key ft value) := by
  simp only [roundTrip, toFields] at h
  cases hkk : (if key = [] then fieldKey name else Except.ok key) with
  | error e => simp [hkk] at h
  | ok k0 =>
    simp only [hkk, ofFields, rowAction, rowNodeAction, classify_saveValue, classifyNode_saveValue] at h
    cases hk : fieldKey name with
    | error e => simp [hk] at h
    | ok k =>
      simp only [hk] at h
      by_cases hv : value.length > maxFieldValue
      · simp [hv] at h
      · simp only [if_neg hv, Option.toList, List.nil_append, Except.ok.injEq, List.cons.injEq, and_true,
          Act.setContactField.injEq, true_and] at h
        obtain ⟨h1, h2⟩ := h
        exact ⟨by rw [hk, h1], h2.symm, by omega⟩

theorem ex_setContactProp (p : ContactProp) (value : Str)
    (h : roundTrip (.setContactProp p value) = .ok [.setContactProp p value]) :
    Expressible (.setContactProp p value) := by
  simp only [roundTrip, toFields, ofFields, rowAction, rowNodeAction, classify_setContact,
    classifyNode_setContact, prop_of_type] at h
  show value ≠ []
  intro e
  simp [e] at h

theorem groupOf_eq (g : GroupRef) (name objId : Str) (h : groupOf name objId = g) : g.Expressible := by
  subst h
  unfold groupOf GroupRef.Expressible
  by_cases e : objId = []
  · simp [e]
  · simp [e]

theorem groupsOkMod_of_forget (g0 : GroupRef) (rest : List GroupRef)
    (h : forgetTail (backGroups g0 rest) = forgetTail (g0 :: rest)) : GroupsOkModTailUuids (g0 :: rest) := by
  simp only [backGroups, forgetTail, List.cons.injEq, List.map_map] at h
  obtain ⟨h1, h2⟩ := h
  refine ⟨groupOf_eq g0 _ _ h1, ?_⟩
  intro g hg
  have hm : ({ g with uuid := none } : GroupRef) ∈ rest.map fun g => { g with uuid := none } :=
    List.mem_map.mpr ⟨g, hg, rfl⟩
  rw [← h2] at hm
  obtain ⟨m, hmem, hme⟩ := List.mem_map.mp hm
  have hne : m ≠ [] := by simpa using (List.mem_filter.mp hmem).2
  simp only [Function.comp, GroupRef.mk.injEq] at hme
  obtain ⟨hn, _, ha⟩ := hme
  exact ⟨by rw [← hn]; exact hne, ha.symm⟩

theorem groupsOk_of_back (g0 : GroupRef) (rest : List GroupRef)
    (h : backGroups g0 rest = g0 :: rest) : GroupsOk (g0 :: rest) := by
  have hmod : GroupsOkModTailUuids (g0 :: rest) := groupsOkMod_of_forget g0 rest (by rw [h])
  refine ⟨hmod, ?_⟩
  have h' := h
  simp only [backGroups, names_nonblank hmod.2, List.cons.injEq, List.map_map] at h'
  obtain ⟨h1, h2⟩ := h'
  intro g hg
  have hm : g ∈ rest := hg
  rw [← h2] at hm
  obtain ⟨g', hg', he⟩ := List.mem_map.mp hm
  simp only [Function.comp, h1] at he
  subst he
  simp only [tailUuid]
  by_cases e : g0.name = g'.name
  · simp [e]
  · have e' : ¬ g'.name = g0.name := fun x => e x.symm
    simp [e, e']

theorem ex_addGroups (gs : List GroupRef) (h : roundTrip (.addGroups gs) = .ok [.addGroups gs]) :
    Expressible (.addGroups gs) := by
  show GroupsOk gs
  cases gs with
  | nil => simp [roundTrip, toFields, groupFields] at h
  | cons g rest =>
    rw [roundTrip_addGroups_eq] at h
    simp only [Except.ok.injEq, List.cons.injEq, and_true, Act.addGroups.injEq] at h
    exact groupsOk_of_back g rest h

theorem ex_removeGroups (gs : List GroupRef) (all : Bool)
    (h : roundTrip (.removeGroups gs all) = .ok [.removeGroups gs all]) :
    Expressible (.removeGroups gs all) := by
  show GroupsOk gs ∧ all = false
  cases gs with
  | nil => simp [roundTrip, toFields, groupFields] at h
  | cons g rest =>
    rw [roundTrip_removeGroups_eq] at h
    simp only [Except.ok.injEq, List.cons.injEq, and_true, Act.removeGroups.injEq] at h
    exact ⟨groupsOk_of_back g rest h.1, h.2.symm⟩

theorem ex_setRunResult (name value category : Str)
    (h : roundTrip (.setRunResult name value category) = .ok [.setRunResult name value category]) :
    Expressible (.setRunResult name value category) := by
  show value.length ≤ maxResultValue
  simp only [roundTrip, toFields, ofFields, rowAction, rowNodeAction, classify_saveFlowResult,
    classifyNode_saveFlowResult] at h
  by_cases hv : value.length > maxResultValue
  · simp [hv] at h
  · omega

theorem ex_enterFlow (name : Str) (uuid : Option Str)
    (h : roundTrip (.enterFlow name uuid) = .ok [.enterFlow name uuid]) :
    Expressible (.enterFlow name uuid) := by
  show name ≠ [] ∧ uuid ≠ some []
  simp only [roundTrip, toFields, ofFields, rowAction, rowNodeAction, classify_startNewFlow,
    classifyNode_startNewFlow] at h
  by_cases hn : name = []
  · simp [hn] at h
  · refine ⟨hn, ?_⟩
    intro e
    subst e
    simp [hn] at h

theorem ex_callWebhook (rn url method body : Str) (headers : List (Str × Str))
    (h : roundTrip (.callWebhook rn url method body headers) = .ok [.callWebhook rn url method body headers]) :
    Expressible (.callWebhook rn url method body headers) := by
  show url ≠ [] ∧ rn ≠ [] ∧ method ∈ httpMethods ∧ KeyOk rn ∧ KeysNodup headers
  have hp := pairsToDict_pairs (V := Str) id headers
  simp only [id] at hp
  have e : (headers.map fun kv => (kv.1, kv.2)) = headers := by simp
  rw [e] at hp
  simp only [roundTrip, toFields, ofFields, rowAction, rowNodeAction, classify_callWebhook,
    classifyNode_callWebhook, dictToPairs, hp] at h
  by_cases hm : (if method ≠ [] then method else defaultMethod) ∈ httpMethods
  · rw [if_neg (fun hn => hn hm)] at h
    by_cases hor : url = [] ∨ rn = []
    · simp [hor] at h
    · rw [if_neg hor] at h
      cases hk : fieldKey rn with
      | error e => simp [hk] at h
      | ok k =>
        simp only [hk, Option.toList, List.append_nil, Except.ok.injEq, List.cons.injEq, and_true,
          Act.callWebhook.injEq, true_and] at h
        obtain ⟨hmeth, hdict⟩ := h
        have hm' : method ∈ httpMethods := by rwa [hmeth] at hm
        refine ⟨fun e => hor (Or.inl e), fun e => hor (Or.inr e), hm', ?_, keysNodup_of_dictOfPairs_eq _ hdict⟩
        unfold KeyOk; rw [hk]; rfl
  · rw [if_pos hm] at h; cases h

theorem ex_transferAirtime (rn : Str) (amounts : List (Str × Amount))
    (h : roundTrip (.transferAirtime rn amounts) = .ok [.transferAirtime rn amounts]) :
    Expressible (.transferAirtime rn amounts) := by
  show amounts ≠ [] ∧ rn ≠ [] ∧ KeyOk rn ∧ KeysNodup amounts ∧ ∀ kv ∈ amounts, kv.2.WellFormed
  have hp := pairsToDict_pairs (V := Amount) Amount.print amounts
  simp only [roundTrip, toFields, ofFields, rowAction, rowNodeAction, classify_transferAirtime,
    classifyNode_transferAirtime, hp] at h
  cases hm : (dictOfPairs (amounts.map fun kv => (kv.1, kv.2.print))).mapM
      (fun kv => (parseAmount kv.2).map fun a => (kv.1, a)) with
  | none => simp [hm] at h
  | some am =>
    simp only [hm] at h
    by_cases hor : am = [] ∨ rn = []
    · simp [hor] at h
    · rw [if_neg hor] at h
      cases hk : fieldKey rn with
      | error e => simp [hk] at h
      | ok k =>
        simp only [hk, Option.toList, List.append_nil, Except.ok.injEq, List.cons.injEq, and_true,
          Act.transferAirtime.injEq, true_and] at h
        subst h
        -- keys of the parsed list = keys of the dictionary, which are distinct
        have hkeys := mapM_parse_keys hm
        have hnd : KeysNodup am := by
          unfold KeysNodup
          rw [hkeys]
          exact dictOfPairs_keysNodup _
        have hd := dictOfPairs_nodup _ (keysNodup_print am hnd)
        rw [hd] at hm
        refine ⟨fun e => hor (Or.inl e), fun e => hor (Or.inr e), ?_, hnd, mapM_parse_print_wf hm⟩
        unfold KeyOk; rw [hk]; rfl

theorem ex_addContactUrn (path scheme : Str)
    (h : roundTrip (.addContactUrn path scheme) = .ok [.addContactUrn path scheme]) :
    Expressible (.addContactUrn path scheme) := by
  show scheme ≠ []
  intro e
  subst e
  simp only [roundTrip, toFields, ofFields, rowAction, rowNodeAction, classify_addContactUrn,
    classifyNode_addContactUrn] at h
  simp [defaultScheme] at h

/-- what comes back intact is expressible -/
theorem expressible_of_roundTrip (a : Act) (h : roundTrip a = .ok [a]) : Expressible a := by
  cases a with
  | sendMsg text atts qrs allUrns topic templ => exact ex_sendMsg _ _ _ _ _ _ h
  | setContactField name key ft value => exact ex_setContactField _ _ _ _ h
  | setContactProp p value => exact ex_setContactProp _ _ h
  | setContactChannel u n => simp [roundTrip, toFields] at h
  | addGroups gs => exact ex_addGroups _ h
  | removeGroups gs all => exact ex_removeGroups _ _ h
  | setRunResult n v c => exact ex_setRunResult _ _ _ h
  | enterFlow n u => exact ex_enterFlow _ _ h
  | callWebhook rn url m b hs => exact ex_callWebhook _ _ _ _ _ h
  | transferAirtime rn am => exact ex_transferAirtime _ _ h
  | addContactUrn p s => exact ex_addContactUrn _ _ h
  | unsupported t => simp [roundTrip, toFields] at h

end Rpft.ActionCodec
