/-
Emission completeness for the final state of a successful compilation: every arena node is
emitted, exactly once; hence the emitted flow is referentially closed.
-/
import Rpft.Lemmas.CompileInvB4
import Rpft.Lemmas.CompileEmit
import Rpft.Lemmas.CompileFinalA
set_option linter.unusedSimpArgs false
set_option linter.unusedVariables false
namespace Rpft.Compile
open Rpft

theorem emit_eq_emitF (s : St) : ∀ fuel g, emit s fuel g = emitF (heldF s.groups) (kidsF s.groups) fuel g := by
  intro fuel
  induction fuel with
  | zero => intro g; rfl
  | succ fuel ih =>
    intro g
    unfold emit emitF
    simp only [heldF, kidsF]
    rcases hg : s.groups[g]? with _ | grp
    · simp
    · rcases grp with ⟨ns, t⟩ | ⟨ps, _ | j⟩ | ch
      · simp [held, kids]
      · simp [held, kids]
      · simp [held, kids]
      · simp only [Option.map_some, held, kids, List.nil_append]
        congr 1
        funext c; exact ih c

theorem binv_init (noArgs testTypes : List Str) :
    BInv (fun _ => False) (fun _ => False) 0 (initSt noArgs testTypes) := by
  have hh : ∀ g l, heldF #[Grp.block []] g = some l → l = [] := by
    intro g l h
    simp only [heldF] at h
    rcases g with _ | g
    · simp [held] at h; exact h
    · simp at h
  have hk : ∀ g l, kidsF #[Grp.block []] g = some l → l = [] := by
    intro g l h
    simp only [kidsF] at h
    rcases g with _ | g
    · simp [kids] at h; exact h
    · simp at h
  refine ⟨⟨?_, ?_, ?_, ?_, ?_⟩, ⟨?_, ?_, ?_, ?_, ?_⟩, ⟨?_, ?_, ?_⟩⟩
  · intro i hi; simp [initSt] at hi
  · intro g l h; rw [hh g l h]; simp
  · intro g l i h hi; rw [hh g l h] at hi; simp at hi
  · intro g g' l l' i h _ hi; rw [hh g l h] at hi; simp at hi
  · intro i hi; exact hi.elim
  · intro g hg
    simp [initSt] at hg
    left; left; simp [initSt, hg]
  · intro g l h; rw [hk g l h]; simp
  · intro g l i h hi; rw [hk g l h] at hi; simp at hi
  · intro g g' l l' i h _ hi; rw [hk g l h] at hi; simp at hi
  · intro g hg
    rcases hg with hg | hg
    · simp [initSt] at hg; simp [initSt, hg]
    · exact hg.elim
  · simp [initSt]
  · intro b _ hb; exact hb
  · simp [initSt]

theorem final_binv {noArgs testTypes : List Str} {evs : List Event} {s : St}
    (hr : (steps evs).run (initSt noArgs testTypes) = .ok ((), s)) :
    BInv (fun _ => False) (fun _ => False) 0 s :=
  wp_of_run (steps_B evs _ _ _ _ (binv_init noArgs testTypes)) hr

section
variable {s : St} (b : BInv (fun _ => False) (fun _ => False) 0 s) (hl : s.stack.length = 1)
include b hl

theorem final_stack : s.stack = [0] := by
  have h1 := b.st.last
  match hs : s.stack, hl with
  | [y], _ => rw [hs] at h1; simp at h1; rw [h1]

theorem final_ginv : GInv (fun x => x = 0) s.groups.size (kidsF s.groups) := by
  have := b.g
  rw [final_stack b hl] at this
  exact this.congr (fun x => by simp)

/-- every group is the root or below it -/
theorem final_desc : ∀ g, g < s.groups.size → Desc (kidsF s.groups) 0 g := by
  have hG := final_ginv b hl
  intro g
  induction g using Nat.strongRecOn with
  | _ g ih =>
    intro hg
    rcases hG.gparent g hg with h | ⟨p, l, hp, hc⟩
    · rw [h]; exact .refl 0
    · have h1 := hG.klt p l g hp hc
      exact (ih p h1.1 (by omega)).snoc hp hc

/-- **emission completeness**: every arena node is emitted -/
theorem emit_all (i : Nat) (hi : i < s.nodes.size) : i ∈ emit s (s.groups.size + 2) 0 := by
  rw [emit_eq_emitF]
  rcases b.n.nheld i hi with h | ⟨g, l, hg, hil⟩
  · exact h.elim
  · have hglt : g < s.groups.size := by
      simp only [heldF] at hg
      rcases hgg : s.groups[g]? with _ | grp
      · simp [hgg] at hg
      · exact (Array.getElem?_eq_some_iff.mp hgg).1
    refine emitF_complete (final_ginv b hl) ?_ ?_ _ 0 g i l (by omega) (final_desc b hl g hglt) hg hil
    · intro g l h
      simp only [heldF, kidsF] at h ⊢
      rcases hgg : s.groups[g]? with _ | grp
      · simp [hgg] at h
      · exact ⟨(Array.getElem?_eq_some_iff.mp hgg).1, kids grp, by simp⟩
    · intro g k h
      simp only [heldF, kidsF] at h ⊢
      rcases hgg : s.groups[g]? with _ | grp
      · simp [hgg] at h
      · exact ⟨held grp, by simp⟩

/-- **emission uniqueness**: no arena node is emitted twice -/
theorem emit_nodup : (emit s (s.groups.size + 2) 0).Nodup := by
  rw [emit_eq_emitF]
  exact emitF_nodup b.n (final_ginv b hl) _ _
end

theorem innerIds_sub_fids (n : NodeM) {x : Uid} (h : x ∈ n.innerIds) : x ∈ n.fids := by
  simp only [NodeM.fids, List.mem_append]; exact .inr h

theorem uid_mem_fids (n : NodeM) (h : Invented n.uid) : n.uid ∈ n.fids := by
  simp [NodeM.fids, uidPart, h]

/-- **identifiers are used once**: in the node list selected by a duplicate-free index list, all
identifiers are pairwise different as soon as the node identifiers are (the node identifiers are
the only ones a sheet can dictate) -/
theorem ids_nodup_of_idsInv {ns : Array NodeM} {bd : Nat} (hI : IdsInv ns bd) :
    ∀ L : List Nat, L.Nodup → ((L.filterMap fun i => ns[i]?).map (·.uid)).Nodup →
      ((L.filterMap fun i => ns[i]?).flatMap NodeM.ids).Nodup := by
  intro L
  induction L with
  | nil => intro _ _; simp
  | cons i L ih =>
    intro hL hU
    rw [List.nodup_cons] at hL
    rcases hi : ns[i]? with _ | n
    · simp only [List.filterMap_cons, hi] at hU ⊢; exact ih hL.2 hU
    · simp only [List.filterMap_cons, hi, List.flatMap_cons, List.map_cons] at hU ⊢
      rw [List.nodup_cons] at hU
      have hfn := hI.nodup i n hi
      have hin : n.innerIds.Nodup := by
        unfold NodeM.fids at hfn; exact (List.nodup_append.mp hfn).2.1
      have huin : n.uid ∉ n.innerIds := by
        intro hm
        have hinv : Invented n.uid := (hI.below i n hi _ (innerIds_sub_fids n hm)).invented
        unfold NodeM.fids at hfn
        have := (List.nodup_append.mp hfn).2.2 n.uid (by simp [uidPart, hinv]) n.uid hm
        exact this rfl
      rw [List.nodup_append]
      refine ⟨by rw [NodeM.ids_eq, List.nodup_cons]; exact ⟨huin, hin⟩, ih hL.2 hU.2, ?_⟩
      intro x hx y hy hxy
      subst hxy
      simp only [List.mem_flatMap, List.mem_filterMap] at hy
      obtain ⟨m, ⟨j, hj, hjm⟩, hxm⟩ := hy
      have hij : i ≠ j := fun e => hL.1 (e ▸ hj)
      rw [NodeM.ids_eq, List.mem_cons] at hx hxm
      rcases hx with hx | hx <;> rcases hxm with hxm | hxm
      · -- two node identifiers
        apply hU.1
        simp only [List.mem_map, List.mem_filterMap]
        exact ⟨m, ⟨j, hj, hjm⟩, by rw [← hxm, hx]⟩
      · -- `x = n.uid` is an inner identifier of `m`: then it looks invented
        have hinv : Invented n.uid := hx ▸ (hI.below j m hjm _ (innerIds_sub_fids m hxm)).invented
        exact hij (hI.disj i j n m x hi hjm (hx ▸ uid_mem_fids n hinv) (innerIds_sub_fids m hxm))
      · have hinv : Invented m.uid := hxm ▸ (hI.below i n hi _ (innerIds_sub_fids n hx)).invented
        exact hij (hI.disj i j n m x hi hjm (innerIds_sub_fids n hx) (hxm ▸ uid_mem_fids m hinv))
      · exact hij (hI.disj i j n m x hi hjm (innerIds_sub_fids n hx) (innerIds_sub_fids m hxm))

/-- when every node identifier is an invented one, node identifiers are pairwise different -/
theorem uids_nodup_of_invented {ns : Array NodeM} {bd : Nat} (hI : IdsInv ns bd)
    (hinv : ∀ (i : Nat) (n : NodeM), ns[i]? = some n → Invented n.uid) :
    ∀ L : List Nat, L.Nodup → ((L.filterMap fun i => ns[i]?).map (·.uid)).Nodup := by
  intro L
  induction L with
  | nil => intro _; simp
  | cons i L ih =>
    intro hL
    rw [List.nodup_cons] at hL
    rcases hi : ns[i]? with _ | n
    · simp only [List.filterMap_cons, hi]; exact ih hL.2
    · simp only [List.filterMap_cons, hi, List.map_cons]
      rw [List.nodup_cons]
      refine ⟨?_, ih hL.2⟩
      intro hm
      simp only [List.mem_map, List.mem_filterMap] at hm
      obtain ⟨m, ⟨j, hj, hjm⟩, hu⟩ := hm
      have : i = j := hI.disj i j n m n.uid hi hjm (uid_mem_fids n (hinv i n hi))
        (hu ▸ uid_mem_fids m (hinv j m hjm))
      exact hL.1 (this ▸ hj)

theorem map_sublist_flatMap {α β} (f : α → β) (g : α → List β) (hg : ∀ x, ∃ t, g x = f x :: t) :
    ∀ l : List α, (l.map f).Sublist (l.flatMap g) := by
  intro l
  induction l with
  | nil => simp
  | cons a l ih =>
    obtain ⟨t, ht⟩ := hg a
    simp only [List.map_cons, List.flatMap_cons, ht, List.cons_append]
    exact (ih.trans (List.sublist_append_right t _)).cons_cons _

end Rpft.Compile
