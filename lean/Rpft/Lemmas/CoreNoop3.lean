/-
Lock-step simulation: the `no_op` row itself (the edges into it are remembered), and all rows.
-/
import Rpft.Lemmas.CoreNoop2
set_option linter.unusedSimpArgs false
set_option linter.unusedVariables false
namespace Rpft.CoreSheet
open Rpft Rpft.Compile Rpft.RefFlow

/-- the remembered form of an edge -/
def encP (rows : List CRow) (e : OutEdge) : Nat × Compile.Cond := (gOf rows e.src, fromRCond e.cond)

/-- the edges of a `no_op` row: the compiler only remembers them, in its group `G` -/
theorem noop_edges_loop (rows : List CRow) (k G : Nat) :
    ∀ (es : List Compile.Edge) (ps : List (Nat × Compile.Cond)) (s : St) (stT stT' : P1),
      s.groups[G]? = some (.noop ps none) → G ≠ 0 →
      s.stack = [0] → s.groups[0]? = some (.block (List.range' 1 (gOf rows k - 1))) →
      s.rowIds = stT.ids.map (fun p => (p.1, gOf rows p.2)) →
      (∀ p ∈ stT.ids, p.2 < k ∧ ∃ c, rows[p.2]? = some c ∧ isNodeRow c = true) →
      (match stT.prev with
        | none => gOf rows k = 1
        | some p => p < k ∧ (∃ c, rows[p]? = some c ∧ isNodeRow c = true) ∧ gOf rows p + 1 = gOf rows k) →
      addEdges stT k (es.map fun e => (toREdge e, Target.row k)) = .ok stT' →
      wp (es.forM (noopEdge G)) s (fun _ s' => ∃ new : List OutEdge,
        stT'.out = new.reverse ++ stT.out ∧ stT'.ids = stT.ids ∧ stT'.prev = stT.prev ∧
        s' = { s with groups := s.groups.setIfInBounds G (.noop (ps ++ new.map (encP rows)) none) } ∧
        ∀ e ∈ new, e.tgt = .row k ∧ e.src < k ∧ ∃ c, rows[e.src]? = some c ∧ isNodeRow c = true) := by
  intro es
  induction es with
  | nil =>
    intro ps s stT stT' hG _ _ _ _ _ _ hst
    rw [List.map_nil, addEdges_nil] at hst
    injection hst with hst; subst hst
    rw [wp_forM_nil]
    refine ⟨[], by simp, rfl, rfl, ?_, fun e he => by cases he⟩
    simp only [List.map_nil, List.append_nil]
    have : s.groups.setIfInBounds G (.noop ps none) = s.groups := by
      apply Array.ext_getElem?
      intro i
      rw [Array.getElem?_setIfInBounds]
      by_cases hi : G = i
      · subst hi
        obtain ⟨hlt, hget⟩ := Array.getElem?_eq_some_iff.mp hG
        simp [hlt, hget]
      · simp [hi]
    rw [this]
  | cons e es ih =>
    intro ps s stT stT' hG hG0 hstack hroot hids hidok hprev hst
    rw [List.map_cons, addEdges_cons] at hst
    rw [wp_forM_cons]
    cases h1 : edgeStep stT k (toREdge e) (Target.row k) with
    | error err => rw [h1] at hst; cases hst
    | ok stT1 =>
      rw [h1] at hst
      simp only at hst
      unfold noopEdge
      wp_simp
      refine wp_groupOfEdge_of hstack hroot hids hidok hprev e _ ?_
      intro o hsrc hok
      unfold edgeStep at h1
      rw [hsrc] at h1
      cases o with
      | none =>
        simp only [Except.ok.injEq] at h1
        subst h1
        simp only [Option.map_none]
        wp_simp
        exact ih ps s stT stT' hG hG0 hstack hroot hids hidok hprev hst
      | some j =>
        simp only [Except.ok.injEq] at h1
        subst h1
        simp only [Option.map_some]
        wp_simp [wp_getGrp]
        intro grp hgrp
        rw [hG] at hgrp; injection hgrp with hgrp; subst hgrp
        simp only
        wp_simp [wp_setGrp]
        obtain ⟨hj, cj, hcj, hnj⟩ := hok j rfl
        have hGlt : G < s.groups.size := (Array.getElem?_eq_some_iff.mp hG).1
        have := ih (ps ++ [(gOf rows j, e.cond)])
          { s with groups := s.groups.setIfInBounds G (.noop (ps ++ [(gOf rows j, e.cond)]) none) }
          { stT with out := { src := j, cond := (toREdge e).cond, tgt := Target.row k } :: stT.out } stT'
          (by simp [hGlt]) hG0 hstack
          (by simp only [Array.getElem?_setIfInBounds]; rw [if_neg hG0]; exact hroot) hids hidok hprev hst
        refine wp_mono this ?_
        intro _ s' ⟨new, h1, h2, h3, h4, h5⟩
        refine ⟨{ src := j, cond := (toREdge e).cond, tgt := Target.row k } :: new, ?_, h2, h3, ?_, ?_⟩
        · rw [h1]; simp
        · rw [h4]
          simp only [Array.setIfInBounds_setIfInBounds, List.map_cons, List.append_assoc, List.cons_append, List.nil_append]
          rfl
        · intro e' he'
          simp only [List.mem_cons] at he'
          rcases he' with rfl | he'
          · exact ⟨rfl, hj, cj, hcj, hnj⟩
          · exact h5 e' he'

/-- ghost: the `no_op` row `k` (about to be parsed) owns no node -/
theorem Rel.mark_el {rows : List CRow} {M : Maps} {k : Nat} {s : St} {st : P1} {c : CRow}
    (h : Rel rows M false k s st) (hc : rows[k]? = some c) (hnn : isNoop c = true) :
    Rel rows { M with el := fun t => if t = k then true else M.el t } false k s st := by
  obtain ⟨M', hM'⟩ : ∃ M' : Maps, M' = { M with el := fun t => if t = k then true else M.el t } := ⟨_, rfl⟩
  rw [← hM']
  have hn : M'.nOf = M.nOf := by rw [hM']
  have hr : M'.rOf = M.rOf := by rw [hM']
  have hf : M'.fr = M.fr := by rw [hM']
  have helo : ∀ t, t ≠ k → M'.el t = M.el t := by intro t ht; rw [hM']; simp [ht]
  have helk : M'.el k = true := by rw [hM']; simp
  have hvc : ∀ j c', Valid rows M' false k j c' → Valid rows M false k j c' := by
    intro j c' hv
    have hjk : j ≠ k := by
      rcases hv.1 with h1 | h1
      · omega
      · exact absurd h1.1 (by simp)
    exact ⟨hv.1, hv.2.1, hv.2.2.1, by rw [← helo j hjk]; exact hv.2.2.2⟩
  refine ⟨h.gsize, h.root, by rw [hn, hr]; exact h.grp, ?_, ?_, ?_, by rw [hf]; exact h.tgtfr, h.stack, h.ids, h.idok, h.prev,
    h.srcok, h.tgtok, h.args, ?_, ?_, by rw [hn, hr]; exact h.rne, by rw [hr]; exact h.rnone, by rw [hr]; exact h.rnoop,
    h.rfresh, h.names.congr (fun i _ _ _ _ _ => by rw [hn])⟩
  · intro j c' hj hc' hn'
    rw [helo j (by omega), hn]; exact h.grpN j c' hj hc' hn'
  · intro j c' hc' hn'
    have : j ≠ k := by intro e; subst e; rw [hc] at hc'; injection hc' with hc'; subst hc'; rw [hnn] at hn'; cases hn'
    rw [helo j this]; exact h.elno j c' hc' hn'
  · intro j hj
    rw [hf] at hj
    obtain ⟨h1, h2, h3⟩ := h.frel j hj
    exact ⟨by rw [helo j (by omega)]; exact h1, h2, h3⟩
  · intro j c' hv
    obtain ⟨n, hn', hsim⟩ := h.node j c' (hvc j c' hv)
    refine ⟨n, by rw [hn]; exact hn', ?_⟩
    rw [hr]
    exact hsim.congrN (fun t => by rw [hn])
  · intro j c1 j' c2 hv1 hv2 x hx1 hx2
    have e1 : ∀ j0, idxs M' j0 = idxs M j0 := by intro j0; simp only [idxs]; rw [hn, hr]
    rw [e1] at hx1 hx2
    exact h.disj j c1 j' c2 (hvc _ _ hv1) (hvc _ _ hv2) x hx1 hx2

/-- ghost: the `no_op` row `k` (just parsed) has not been left yet -/
theorem Rel.mark_fresh {rows : List CRow} {M : Maps} {k : Nat} {s : St} {st : P1} {c : CRow}
    (h : Rel rows M false (k + 1) s st) (hc : rows[k]? = some c) (hnn : isNoop c = true) (hel : M.el k = true)
    (htk : ∀ e ∈ st.out, e.tgt ≠ .row k) :
    Rel rows { M with fr := fun t => if t = k then true else M.fr t } false (k + 1) s st := by
  obtain ⟨M', hM'⟩ : ∃ M' : Maps, M' = { M with fr := fun t => if t = k then true else M.fr t } := ⟨_, rfl⟩
  rw [← hM']
  have hn : M'.nOf = M.nOf := by rw [hM']
  have hr : M'.rOf = M.rOf := by rw [hM']
  have he : M'.el = M.el := by rw [hM']
  have hvc : ∀ j c', Valid rows M' false (k + 1) j c' → Valid rows M false (k + 1) j c' :=
    fun _ _ hv => ⟨hv.1, hv.2.1, hv.2.2.1, by rw [← he]; exact hv.2.2.2⟩
  refine ⟨h.gsize, h.root, by rw [hn, hr]; exact h.grp, by rw [hn, he]; exact h.grpN, by rw [he]; exact h.elno, ?_, ?_,
    h.stack, h.ids, h.idok, h.prev, h.srcok, h.tgtok, h.args, ?_, ?_, by rw [hn, hr]; exact h.rne,
    by rw [hr]; exact h.rnone, by rw [hr]; exact h.rnoop, h.rfresh, h.names.congr (fun i _ _ _ _ _ => by rw [hn])⟩
  · intro j hj
    rw [he]
    by_cases hjk : j = k
    · subst hjk; exact ⟨hel, by omega, c, hc, hnn⟩
    · have : M.fr j = true := by rw [hM'] at hj; simpa [hjk] using hj
      exact h.frel j this
  · intro e he' t ht
    have htk' : t ≠ k := by intro e2; subst e2; exact htk e he' ht
    rw [hM']; simp only [htk', if_false]
    exact h.tgtfr e he' t ht
  · intro j c' hv
    obtain ⟨n, hn', hsim⟩ := h.node j c' (hvc j c' hv)
    refine ⟨n, by rw [hn]; exact hn', ?_⟩
    rw [hr]
    exact hsim.congrN (fun t => by rw [hn])
  · intro j c1 j' c2 hv1 hv2 x hx1 hx2
    have e1 : ∀ j0, idxs M' j0 = idxs M j0 := by intro j0; simp only [idxs]; rw [hn, hr]
    rw [e1] at hx1 hx2
    exact h.disj j c1 j' c2 (hvc _ _ hv1) (hvc _ _ hv2) x hx1 hx2

/-- the schedule remembers a list of edges into the `no_op` row `k` -/
theorem fold_into (rows : List CRow) (k : Nat) (hk : noopAt rows k = true) :
    ∀ (new : List OutEdge) (pnd q : List OutEdge), (∀ e ∈ new, e.tgt = .row k) →
      new.foldlM (schedStep rows) pnd = some q → q = pnd ++ new ∧ ∀ e ∈ new, noopAt rows e.src = false := by
  intro new
  induction new with
  | nil => intro pnd q _ h; simp at h; exact ⟨by rw [← h]; simp, fun e he => by cases he⟩
  | cons e new ih =>
    intro pnd q ht h
    rw [List.foldlM_cons] at h
    cases hs : schedStep rows pnd e with
    | none => rw [hs] at h; cases h
    | some p1 =>
      rw [hs] at h
      have h : new.foldlM (schedStep rows) p1 = some q := h
      have htn : tgtNoop rows e.tgt = true := by rw [ht e (by simp)]; exact hk
      obtain ⟨e1, e2⟩ := schedStep_into htn hs
      obtain ⟨e3, e4⟩ := ih p1 q (fun e' he' => ht e' (by simp [he'])) h
      refine ⟨by rw [e3, e1]; simp, ?_⟩
      intro e' he'
      simp only [List.mem_cons] at he'
      rcases he' with rfl | he'
      · exact e2
      · exact e4 e' he'

theorem push_set_last {α} (A : Array α) (x y : α) : (A.push x).setIfInBounds A.size y = A.push y := by
  apply Array.ext_getElem?
  intro i
  rw [Array.getElem?_setIfInBounds]
  by_cases hi : A.size = i
  · subst hi; simp
  · have hi' : ¬ i = A.size := fun e => hi e.symm
    simp [hi, hi', Array.getElem?_push]

/-- a `no_op` row: the edges into it are remembered -/
theorem noop_row_simN (rows : List CRow) (outF : List OutEdge) (g : Good rows outF)
    (hFull : ∃ p, outF.foldlM (schedStep rows) [] = some p) (M : Maps) (k : Nat) (c : CRow)
    (hc : rows[k]? = some c) (hf : noopRow c = true) (s : St) (stT stT' : P1) (h : RelN rows M k s stT)
    (hst : pass1Row stT k (toRRow c) = .ok stT') (hpre : stT'.out.reverse <+: outF) :
    wp (step (toEvent c)) s (fun _ s' => ∃ M', RelN rows M' (k + 1) s' stT') := by
  obtain ⟨st, pnd, h, hs⟩ := h
  simp only [noopRow, Bool.and_eq_true] at hf
  obtain ⟨⟨hnn, _⟩, _⟩ := hf
  have ht : c.row.type = "no_op".toList := by unfold isNoop at hnn; exact of_decide_eq_true hnn
  have hkind : kindOf c.row.type = .noOp := kind_of_noop hnn
  have hnode : isNodeRow c = true := isNodeRow_of_noop hnn
  have hNr : NoopRow rows k := ⟨c, hc, hnn⟩
  -- the reference side
  unfold pass1Row at hst
  have hk' : (toRRow c).kind = kindOf c.row.type := rfl
  have he : (toRRow c).edges = c.row.edges.map toREdge := rfl
  simp only [hk', hkind, he, dropTrivial_map, bind, Except.bind, pure, Except.pure, List.map_map] at hst
  cases hst1 : addEdges stT k ((dropTrivial c.row.edges).map (fun e => (toREdge e, Target.row k))) with
  | error err =>
    have : addEdges stT k (List.map ((fun e => (e, Target.row k)) ∘ toREdge) (dropTrivial c.row.edges)) = .error err := hst1
    rw [this] at hst; cases hst
  | ok stT1 =>
    have hst1' : addEdges stT k (List.map ((fun e => (e, Target.row k)) ∘ toREdge) (dropTrivial c.row.edges)) = .ok stT1 := hst1
    rw [hst1'] at hst
    simp only [Except.ok.injEq] at hst
    -- the compiler side
    unfold step toEvent parseRow
    simp only
    have e10 : ¬ (c.row.type = "hard_exit".toList ∨ c.row.type = "loose_exit".toList) := by
      rw [ht]; rintro (hh | hh) <;> exact absurd hh (by decide)
    have e11 : ¬ (c.row.type = "go_to".toList) := by rw [ht]; decide
    rw [if_neg e10, if_neg e11, if_pos ht]
    unfold parseNoop
    wp_simp [wp_addGrp]
    have hsz : s.groups.size = gOf rows k := h.gsize
    have hpos := gOf_pos rows k
    have hroot0 : (s.groups.push (Grp.noop [] none))[0]? = some (.block (List.range' 1 (gOf rows k - 1))) := by
      rw [Array.getElem?_push]
      have : ¬ 0 = s.groups.size := by rw [hsz]; omega
      simp [this, h.root]
    refine wp_mono (noop_edges_loop rows k s.groups.size (dropTrivial c.row.edges) [] _ stT stT1 (by simp) (by omega)
      h.stack hroot0 (by rw [← hs.ids]; exact h.ids) (by rw [← hs.ids]; exact h.idok) (by rw [← hs.prev]; exact h.prev) hst1) ?_
    intro _ s1 ⟨new, ho1, hi1, hp1, hs1, hnew⟩
    subst hs1
    simp only [List.nil_append]
    rw [push_set_last]
    -- the group is appended to the root block
    unfold appendGroup
    wp_simp [wp_setGrp]
    simp only [h.stack]
    have hroot1 : (s.groups.push (Grp.noop (new.map (encP rows)) none))[0]? = some (.block (List.range' 1 (gOf rows k - 1))) := by
      rw [Array.getElem?_push]
      have : ¬ 0 = s.groups.size := by rw [hsz]; omega
      simp [this, h.root]
    rw [hroot1]
    wp_simp [wp_setGrp]
    unfold addRowId
    -- the relation
    have r0 := h.mark_el hc hnn
    obtain ⟨M1, hM1⟩ : ∃ M1 : Maps, M1 = { M with el := fun t => if t = k then true else M.el t } := ⟨_, rfl⟩
    rw [← hM1] at r0
    have hM1el : M1.el k = true := by rw [hM1]; simp
    have hM1fr : M1.fr = M.fr := by rw [hM1]
    have hfrk : M.fr k = false := by
      cases hf' : M.fr k with
      | false => rfl
      | true => have := (h.frel k hf').2.1; omega
    have hfinal := fun rowIds ids hids hlt =>
      (r0.close_row hc hnode (.inr hM1el) (fun hh => by rw [hM1fr, hfrk] at hh; cases hh)
        (Grp.noop (new.map (encP rows)) none) (fun hh => by rw [hnn] at hh; cases hh)
        (fun _ => ⟨_, _, rfl, fun hh => by rw [hM1el] at hh; cases hh⟩) rowIds ids s.names hids hlt
        (r0.names.step_noop hc hnn)).mark_fresh hc hnn hM1el
        (fun e he hte => by
          have := h.tgtok e he k hte
          rcases this with h1 | h1
          · omega
          · exact absurd h1.1 (by simp))
    obtain ⟨M2, hM2⟩ : ∃ M2 : Maps, M2 = { M1 with fr := fun t => if t = k then true else M1.fr t } := ⟨_, rfl⟩
    rw [← hM2] at hfinal
    have hM2n : M2.nOf = M.nOf := by rw [hM2, hM1]
    have hM2elo : ∀ t, t ≠ k → M2.el t = M.el t := by intro t ht; rw [hM2, hM1]; simp [ht]
    have hM2elk : M2.el k = true := by rw [hM2]; exact hM1el
    have hM2fro : ∀ t, t ≠ k → M2.fr t = M.fr t := by intro t ht; rw [hM2, hM1]; simp [ht]
    have hM2frk : M2.fr k = true := by rw [hM2]; simp
    -- the schedule
    have hfoldN : stT1.out.reverse.foldlM (schedStep rows) [] = some (pnd ++ new) ∧ ∀ e ∈ new, noopAt rows e.src = false := by
      have hpre1 : stT1.out.reverse <+: outF := by rw [← hst] at hpre; exact hpre
      obtain ⟨q, hq⟩ := foldlM_prefix_some _ _ _ _ hpre1 hFull
      rw [ho1, List.reverse_append, List.reverse_reverse, List.foldlM_append, hs.fold] at hq
      have hq' : new.foldlM (schedStep rows) pnd = some q := hq
      obtain ⟨e1, e2⟩ := fold_into rows k ((noopAt_iff rows k).mpr hNr) new pnd q (fun e he => (hnew e he).1) hq'
      refine ⟨?_, e2⟩
      rw [ho1, List.reverse_append, List.reverse_reverse, List.foldlM_append, hs.fold]
      show new.foldlM (schedStep rows) pnd = some (pnd ++ new)
      rw [hq', e1]
    obtain ⟨hfoldN, hnewsrc⟩ := hfoldN
    have houtT : ∀ j, outOf stT1 j = outOf stT j ++ new.filter (·.src = j) := by
      intro j
      unfold outOf
      rw [ho1, List.reverse_append, List.reverse_reverse, List.filter_append]
    have hnosrcN : ∀ N, NoopRow rows N → new.filter (·.src = N) = [] := by
      intro N hN
      rw [List.filter_eq_nil_iff]
      intro e he hsrc
      have := hnewsrc e he
      have hs' : e.src = N := by simpa using hsrc
      rw [hs', (noopAt_iff rows N).mpr hN] at this; cases this
    have hpndk : pnd.filter (fun pe => decide (pe.tgt = .row k)) = [] := by
      rw [List.filter_eq_nil_iff]
      intro pe hpe hh
      obtain ⟨N, ht', hfN⟩ := hs.pend pe hpe
      have : pe.tgt = .row k := by simpa using hh
      rw [ht'] at this; injection this with this; subst this
      rw [hfrk] at hfN; cases hfN
    have hsched : ∀ (groups : Array Grp) (rowIds names ids : List (Str × Nat)),
        groups = (s.groups.push (Grp.noop (new.map (encP rows)) none)).setIfInBounds 0
          (Grp.block (List.range' 1 (gOf rows k - 1) ++ [s.groups.size])) →
        Sched rows M2 (k + 1) { s with groups := groups, rowIds := rowIds, names := names }
          { stT1 with prev := some k, ids := ids } { st with prev := some k, ids := ids } (pnd ++ new) := by
      intro groups rowIds names ids hgr
      have hgget : ∀ i, 1 ≤ i → groups[i]? = if i = s.groups.size then some (Grp.noop (new.map (encP rows)) none)
          else s.groups[i]? := by
        intro i hi
        rw [hgr]
        simp only [Array.getElem?_setIfInBounds, Array.getElem?_push]
        rw [if_neg (by omega)]
      refine ⟨rfl, rfl, ?_, hfoldN, ?_, ?_, ?_, ?_, ?_, ?_⟩
      rotate_right
      · intro N hel hlt hNn
        show ∃ ps, groups[gOf rows N]? = _
        by_cases hNk : N = k
        · subst hNk
          exact ⟨_, by rw [hgget _ hpos, if_pos hsz.symm]⟩
        · rw [hM2elo N hNk] at hel
          obtain ⟨ps, hgN⟩ := hs.elgrp N hel (by omega) hNn
          have hlt' : gOf rows N < s.groups.size := (Array.getElem?_eq_some_iff.mp hgN).1
          exact ⟨ps, by rw [hgget _ (gOf_pos rows N), if_neg (by omega), hgN]⟩
      · intro j
        show outOf stT1 j = outOf st j ++ _
        rw [houtT, hs.split j, List.filter_append, List.append_assoc]
      · intro e he
        simp only [List.mem_append] at he
        rcases he with he | he
        · obtain ⟨N, ht', hfN⟩ := hs.pend e he
          have : N ≠ k := by intro e2; rw [e2, hfrk] at hfN; cases hfN
          exact ⟨N, ht', by rw [hM2fro N this]; exact hfN⟩
        · exact ⟨k, (hnew e he).1, hM2frk⟩
      · intro e he
        simp only [List.mem_append] at he
        rcases he with he | he
        · have := hs.psrc e he; exact ⟨by omega, this.2⟩
        · obtain ⟨_, h2, c2, hc2, hn2⟩ := hnew e he
          refine ⟨by omega, c2, hc2, hn2, ?_⟩
          have := hnewsrc e he
          unfold noopAt at this; rw [hc2] at this; exact this
      · intro N hN
        by_cases hNk : N = k
        · subst hNk
          refine ⟨hNr, ?_, ?_⟩
          · show outOf stT1 N = []
            rw [houtT, hnosrcN N hNr, List.append_nil]
            have := hs.split N
            have h1 : outOf st N = [] := by
              unfold outOf
              rw [List.filter_eq_nil_iff]
              intro e he hsrc
              have := (h.srcok e (by simpa using he)).1
              have : e.src = N := by simpa using hsrc
              omega
            have h2 : pnd.filter (·.src = N) = [] := by
              rw [List.filter_eq_nil_iff]
              intro e he hsrc
              have := (hs.psrc e he).1
              have : e.src = N := by simpa using hsrc
              omega
            rw [this, h1, h2]; rfl
          · show groups[gOf rows N]? = _
            rw [hgget _ hpos, if_pos hsz.symm]
            unfold parentsOf
            rw [List.filter_append, hpndk, List.nil_append]
            have : new.filter (fun pe => decide (pe.tgt = .row N)) = new := by
              rw [List.filter_eq_self]; intro e he; simp [(hnew e he).1]
            rw [this]; rfl
        · rw [hM2fro N hNk] at hN
          obtain ⟨hnr, ho, hgN⟩ := hs.fresh N hN
          have hNlt : N < k := (h.frel N hN).2.1
          refine ⟨hnr, ?_, ?_⟩
          · show outOf stT1 N = []
            rw [houtT, hnosrcN N hnr, List.append_nil]; exact ho
          · show groups[gOf rows N]? = _
            have hlt : gOf rows N < s.groups.size := (Array.getElem?_eq_some_iff.mp hgN).1
            rw [hgget _ (gOf_pos rows N), if_neg (by omega), hgN]
            congr 2
            unfold parentsOf
            rw [List.filter_append]
            have : new.filter (fun pe => decide (pe.tgt = .row N)) = [] := by
              rw [List.filter_eq_nil_iff]
              intro e he hh
              have h1 := (hnew e he).1
              have : e.tgt = .row N := by simpa using hh
              rw [h1] at this; injection this with this; exact hNk this.symm
            rw [this, List.append_nil]
      · intro N hel hfr hlt
        have hNk : N ≠ k := by intro e2; rw [e2, hM2frk] at hfr; cases hfr
        rw [hM2elo N hNk] at hel; rw [hM2fro N hNk] at hfr
        obtain ⟨hNn, b, T, cT, h1, h2, h3, h4, h5⟩ := hs.elided N hel hfr (by omega)
        refine ⟨hNn, b, T, cT, ?_, h2, h3, by rw [hM2n]; exact h4, h5⟩
        show outOf stT1 N = [b]
        rw [houtT, hnosrcN N hNn, List.append_nil]; exact h1
      · intro N cN hlt hcN hnN hel
        have hNk : N ≠ k := by intro e2; rw [e2, hM2elk] at hel; cases hel
        rw [hM2elo N hNk] at hel
        show testsOf .noOp (outOf stT1 N) ≠ []
        rw [houtT, hnosrcN N ⟨cN, hcN, hnN⟩, List.append_nil]
        exact hs.routed N cN (by omega) hcN hnN hel
    by_cases hrid : c.row.rowId = []
    · simp only [hrid, List.isEmpty_nil, if_true]
      wp_simp
      refine ⟨M2, { st with prev := some k, ids := st.ids }, pnd ++ new, ?_, ?_⟩
      · have := hfinal s.rowIds st.ids h.ids
          (fun p hp => by have := h.idok p hp; exact ⟨by omega, this.2⟩)
        simpa [h.stack] using this
      · have := hsched _ s.rowIds s.names st.ids rfl
        rw [← hst]
        have e1 : ({ stT1 with prev := some k, ids := if (toRRow c).rowId.isEmpty then stT1.ids else ((toRRow c).rowId, k) :: stT1.ids } : P1)
            = { stT1 with prev := some k, ids := st.ids } := by
          simp [toRRow, hrid, hi1, hs.ids]
        rw [e1]
        simpa [h.stack] using this
    · simp only [List.isEmpty_iff, hrid, if_false]
      wp_simp
      refine ⟨M2, { st with prev := some k, ids := (c.row.rowId, k) :: st.ids }, pnd ++ new, ?_, ?_⟩
      · have := hfinal ((c.row.rowId, s.groups.size) :: s.rowIds) ((c.row.rowId, k) :: st.ids)
          (by simp [h.ids, hsz])
          (fun p hp => by
            simp only [List.mem_cons] at hp
            rcases hp with rfl | hp
            · exact ⟨by simp, c, hc, hnode⟩
            · have := h.idok p hp; exact ⟨by omega, this.2⟩)
        simpa [h.stack] using this
      · have := hsched _ ((c.row.rowId, s.groups.size) :: s.rowIds) s.names ((c.row.rowId, k) :: st.ids) rfl
        rw [← hst]
        have e1 : ({ stT1 with prev := some k, ids := if (toRRow c).rowId.isEmpty then stT1.ids else ((toRRow c).rowId, k) :: stT1.ids } : P1)
            = { stT1 with prev := some k, ids := (c.row.rowId, k) :: st.ids } := by
          simp [toRRow, List.isEmpty_iff, hrid, hi1, hs.ids]
        rw [e1]
        simpa [h.stack] using this

end Rpft.CoreSheet
