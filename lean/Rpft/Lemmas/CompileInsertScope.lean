/-
The scope part of the simulation (stack of open blocks, row ids, node names) and the parser-level
operations that read it: `_get_node_group_from_edge`, `most_recent_node_group`, one edge of a row.
-/
import Rpft.Lemmas.CompileInsertOps2
import Rpft.Lemmas.CompileInsertBlk
set_option linter.unusedSimpArgs false
set_option linter.unusedVariables false
namespace Rpft.Compile
open Rpft Function

/-- what a list of pairs (latest first) assigns to a key -/
def lookupIn (l : List (Str × Nat)) (id : Str) : Option Nat := (l.find? (·.1 = id)).map (·.2)

theorem lookupIn_cons (p : Str × Nat) (l : List (Str × Nat)) (id : Str) :
    lookupIn (p :: l) id = if p.1 = id then some p.2 else lookupIn l id := by
  unfold lookupIn
  rw [List.find?_cons]
  by_cases h : p.1 = id <;> simp [h]

theorem lookupIn_mem {l : List (Str × Nat)} {id : Str} {j : Nat} (h : lookupIn l id = some j) : (id, j) ∈ l := by
  unfold lookupIn at h
  cases hf : l.find? (·.1 = id) with
  | none => rw [hf] at h; cases h
  | some p =>
    rw [hf] at h
    simp only [Option.map_some, Option.some.injEq] at h
    have h1 := List.mem_of_find?_eq_some hf
    have h2 := List.find?_some hf
    simp only [decide_eq_true_eq] at h2
    rw [← h, ← h2]; exact h1

structure SParams where
  /-- the part of the right stack below the image of the left stack -/
  tail : List Nat
  /-- row ids that must not be looked up (hidden ids of the right scope, ids of tainted groups) -/
  F : List Str
  /-- node names of the two scopes correspond (otherwise no named node may be looked up) -/
  nmAll : Bool
  /-- the row ids the right scope sees below those of the left scope -/
  outer : List (Str × Nat)

variable {P : Params} {X : SParams}

structure SSim (P : Params) (X : SParams) (s₁ s₂ : St) : Prop where
  stack : s₂.stack = s₁.stack.map P.γ ++ X.tail
  stackDG : ∀ b ∈ s₁.stack, P.DG b
  tl : X.tail = [] ∨ (P.sp = true ∧ s₁.stack.getLast? = some P.bx)
  bxs : P.sp = true → P.bx ∈ s₁.stack → P.hb
  ss : s₁.stack.Pairwise (fun x y => P.T x → P.T y)
  ri : ∀ id j, id ∉ X.F → lookupIn s₁.rowIds id = some j → lookupIn s₂.rowIds id = some (P.γ j)
  riDG : ∀ p ∈ s₁.rowIds, P.DG p.2
  rl : ∀ p ∈ s₁.rowIds, P.T p.2 → p.1 ∈ X.F
  rk : ∀ p ∈ s₁.rowIds, p.1 ≠ []
  rk2 : ∀ id, (∀ p ∈ s₁.rowIds, p.1 ≠ id) → lookupIn s₂.rowIds id = lookupIn X.outer id
  nm : X.nmAll = true → ∀ x, x ≠ [] → lookupIn s₂.names x = (lookupIn s₁.names x).map P.ν
  nmDN : ∀ p ∈ s₁.names, P.DN p.2

theorem SSim.of_seq {s₁ s₂ t₁ t₂ : St} (h : SSim P X s₁ s₂) (e1 : SEq s₁ t₁) (e2 : SEq s₂ t₂) : SSim P X t₁ t₂ := by
  obtain ⟨a1, a2, a3⟩ := e1
  obtain ⟨b1, b2, b3⟩ := e2
  constructor
  · rw [a1, b1]; exact h.stack
  · rw [a1]; exact h.stackDG
  · rw [a1]; exact h.tl
  · rw [a1]; exact h.bxs
  · rw [a1]; exact h.ss
  · rw [a2, b2]; exact h.ri
  · rw [a2]; exact h.riDG
  · rw [a2]; exact h.rl
  · rw [a2]; exact h.rk
  · rw [a2, b2]; exact h.rk2
  · rw [a3, b3]; exact h.nm
  · rw [a3]; exact h.nmDN

/-- the full simulation -/
def Sim (P : Params) (X : SParams) (s₁ s₂ : St) : Prop := ASim P s₁ s₂ ∧ SSim P X s₁ s₂

/-- the most recent node group is not tainted -/
def MR (P : Params) (s : St) : Prop := ∀ x, mostRecentIn s.groups s.stack = some x → ¬ P.T x

theorem MR.of_blkEq {s s' : St} (h : BlkEq s s') (hm : MR P s) : MR P s' := by
  intro x hx; rw [h.mostRecent] at hx; exact hm x hx

theorem rwp_of_run {α β : Type} {m₁ : M α} {m₂ : M β} {s₁ s₂ : St} {a : α} {b : β} {u₁ u₂ : St}
    {Q : α → St → β → St → Prop} (h1 : m₁.run s₁ = .ok (a, u₁)) (h2 : m₂.run s₂ = .ok (b, u₂))
    (hq : Q a u₁ b u₂) : rwp m₁ m₂ s₁ s₂ Q := by
  intro a' t₁ b' t₂ k1 k2
  rw [h1] at k1; rw [h2] at k2
  cases k1; cases k2
  exact hq

theorem lookupRow_run (id : Str) (s : St) : (lookupRow id).run s = .ok (lookupIn s.rowIds id, s) := rfl

theorem mostRecent_run (s : St) : mostRecent.run s = .ok (mostRecentIn s.groups s.stack, s) := rfl

theorem fuelOf_run (s : St) : fuelOf.run s = .ok (2 * s.groups.size + 8, s) := rfl

theorem mostRecentIn_mem' {gs : Array Grp} : ∀ {st : List Nat} {x : Nat}, mostRecentIn gs st = some x →
    ∃ b ∈ st, ∃ cs, gs[b]? = some (Grp.block cs) ∧ x ∈ cs := by
  intro st
  induction st with
  | nil => intro x h; cases h
  | cons b bs ih =>
    intro x h
    unfold mostRecentIn at h
    cases hg : gs[b]? with
    | none =>
      rw [hg] at h
      obtain ⟨b', hb', r⟩ := ih h
      exact ⟨b', by simp [hb'], r⟩
    | some g =>
      rw [hg] at h
      cases g with
      | block cs =>
        simp only [] at h
        cases hl : cs.getLast? with
        | none =>
          rw [hl] at h
          obtain ⟨b', hb', r⟩ := ih h
          exact ⟨b', by simp [hb'], r⟩
        | some c =>
          rw [hl] at h
          injection h with h; subst h
          exact ⟨b, by simp, cs, hg, mem_of_getLast? hl⟩
      | row _ _ =>
        obtain ⟨b', hb', r⟩ := ih h
        exact ⟨b', by simp [hb'], r⟩
      | noop _ _ =>
        obtain ⟨b', hb', r⟩ := ih h
        exact ⟨b', by simp [hb'], r⟩

theorem mostRecentIn_sim {s₁ s₂ : St} (h : ASim P s₁ s₂) (ok : P.Ok) (tail : List Nat) :
    ∀ st : List Nat, (∀ b ∈ st, P.DG b) → (tail = [] ∨ (P.sp = true ∧ P.bx ∈ st)) →
      (P.sp = true → P.bx ∈ st → P.hb) →
      mostRecentIn s₂.groups (st.map P.γ ++ tail) = (mostRecentIn s₁.groups st).map P.γ ∧
      ∀ j, mostRecentIn s₁.groups st = some j → P.DG j := by
  intro st
  induction st with
  | nil =>
    intro _ htl _
    rcases htl with htl | htl
    · subst htl; exact ⟨rfl, fun j hj => by cases hj⟩
    · cases htl.2
  | cons b bs ih =>
    intro hdg htl hbx
    have hdb : P.DG b := hdg b (by simp)
    simp only [List.map_cons, List.cons_append]
    unfold mostRecentIn
    have rec_ : (P.sp = true → b ≠ P.bx) →
        mostRecentIn s₂.groups (bs.map P.γ ++ tail) = (mostRecentIn s₁.groups bs).map P.γ ∧
        ∀ j, mostRecentIn s₁.groups bs = some j → P.DG j := by
      intro hne
      refine ih (fun x hx => hdg x (by simp [hx])) ?_ (fun hsp hm => hbx hsp (by simp [hm]))
      rcases htl with htl | ⟨hsp, htl⟩
      · exact .inl htl
      · simp only [List.mem_cons] at htl
        rcases htl with htl | htl
        · exact absurd htl.symm (hne hsp)
        · exact .inr ⟨hsp, htl⟩
    cases hg : s₁.groups[b]? with
    | none =>
      have hge : s₁.groups.size ≤ b := by
        rcases Nat.lt_or_ge b s₁.groups.size with hlt | hge
        · simp [Array.getElem?_eq_getElem hlt] at hg
        · exact hge
      have hb2 : s₂.groups[P.γ b]? = none := by
        have := h.gsync (b - s₁.groups.size)
        have e : s₁.groups.size + (b - s₁.groups.size) = b := by omega
        rw [e] at this
        rw [this]
        simp
      rw [hb2]
      simp only []
      exact rec_ (fun _ => by have := h.bxlt; omega)
    | some g =>
      rw [h.groups b g hdb hg]
      have hcl := h.closed b g hdb hg
      have normal : ∀ cs, g = .block cs → (P.sp = true → b ≠ P.bx) →
          (match (cs.map P.γ).getLast? with
            | some c => some c
            | none => mostRecentIn s₂.groups (bs.map P.γ ++ tail)) =
          (match cs.getLast? with
            | some c => some c
            | none => mostRecentIn s₁.groups bs).map P.γ ∧
          ∀ j, (match cs.getLast? with
            | some c => some c
            | none => mostRecentIn s₁.groups bs) = some j → P.DG j := by
        intro cs hgc hne
        subst hgc
        simp only [getLast?_map]
        cases hl : cs.getLast? with
        | none =>
          simp only [Option.map_none]
          exact rec_ hne
        | some x =>
          simp only [Option.map_some]
          refine ⟨trivial, fun j hj => ?_⟩
          injection hj with hj
          subst hj
          exact hcl.2 x (by simp only [grefs]; exact mem_of_getLast? hl)
      cases g with
      | row a1 a2 =>
        simp only [mapGrpAt_row]
        exact rec_ (fun hsp e => by
          subst e
          obtain ⟨c, cs, e'⟩ := h.bne (hbx hsp (by simp))
          rw [hg] at e'; cases e')
      | noop a1 a2 =>
        simp only [mapGrpAt_noop]
        exact rec_ (fun hsp e => by
          subst e
          obtain ⟨c, cs, e'⟩ := h.bne (hbx hsp (by simp))
          rw [hg] at e'; cases e')
      | block cs =>
        cases hsp : P.sp with
        | false =>
          rw [mapGrpAt_block_ne P (.inr hsp)]
          exact normal cs rfl (fun h' => by rw [hsp] at h'; cases h')
        | true =>
          by_cases hbb : b = P.bx
          · subst hbb
            obtain ⟨c, cs', e'⟩ := h.bne (hbx hsp (by simp))
            rw [hg] at e'
            injection e' with e'; injection e' with e'
            subst e'
            rw [mapGrpAt_block_bx P hsp]
            simp only []
            have egl : (P.gx :: List.map P.γ (c :: cs')).getLast? = ((c :: cs').getLast?).map P.γ := by
              rw [← getLast?_map]
              simp [List.getLast?_cons_cons]
            rw [egl]
            cases hl : (c :: cs').getLast? with
            | none => simp at hl
            | some x =>
              simp only [Option.map_some]
              refine ⟨trivial, fun j hj => ?_⟩
              injection hj with hj
              subst hj
              exact hcl.2 x (by simp only [grefs]; exact mem_of_getLast? hl)
          · rw [mapGrpAt_block_ne P (.inl hbb)]
            exact normal cs rfl (fun _ => hbb)

theorem mostRecent_sim (ok : P.Ok) {s₁ s₂ : St} (h : Sim P X s₁ s₂) :
    mostRecentIn s₂.groups s₂.stack = (mostRecentIn s₁.groups s₁.stack).map P.γ ∧
    ∀ j, mostRecentIn s₁.groups s₁.stack = some j → P.DG j := by
  rw [h.2.stack]
  refine mostRecentIn_sim h.1 ok X.tail s₁.stack h.2.stackDG ?_ h.2.bxs
  rcases h.2.tl with h' | h'
  · exact .inl h'
  · exact .inr ⟨h'.1, mem_of_getLast? h'.2⟩

/-- the source group of an edge -/
theorem groupOfEdge_rel (ok : P.Ok) {s₁ s₂ : St} (h : Sim P X s₁ s₂) (e : Edge)
    (hF : e.from_ ≠ [] → e.from_ ∉ X.F) (hmr : e.from_ = [] → MR P s₁) :
    rwp (groupOfEdge e) (groupOfEdge e) s₁ s₂
      (RO (fun a b => b = a.map P.γ ∧ ∀ j, a = some j → P.DG j ∧ ¬ P.T j ∧
        ((∀ p ∈ s₁.rowIds, p.2 < s₁.groups.size) → j < s₁.groups.size)) s₁ s₂) := by
  unfold groupOfEdge
  refine rwp_ite (fun _ => ?_) fun hst => ?_
  · rw [rwp_pure]; exact ⟨⟨rfl, fun j hj => by cases hj⟩, rfl, rfl⟩
  by_cases hem : e.from_.isEmpty = true
  · simp only [hem, not_true_eq_false, if_false]
    have he : e.from_ = [] := by simpa using hem
    obtain ⟨e1, e2⟩ := mostRecent_sim ok h
    refine rwp_of_run (mostRecent_run s₁) (mostRecent_run s₂) ⟨⟨e1, fun j hj => ?_⟩, rfl, rfl⟩
    refine ⟨e2 j hj, hmr he j hj, fun _ => ?_⟩
    obtain ⟨b, _, cs, hg, hc⟩ := mostRecentIn_mem' hj
    exact (h.1.wf b _ hg).2 j (by simpa [grefs] using hc)
  · simp only [hem, Bool.false_eq_true, not_false_eq_true, if_true]
    have he : e.from_ ≠ [] := by simpa using hem
    rw [rwp_bind]
    refine rwp_of_run (lookupRow_run _ s₁) (lookupRow_run _ s₂) ?_
    cases hl : lookupIn s₁.rowIds e.from_ with
    | none => exact rwp_fail_left _ _ _ _ _
    | some g =>
      rw [h.2.ri e.from_ g (hF he) hl]
      simp only []
      rw [rwp_pure]
      refine ⟨⟨rfl, fun j hj => ?_⟩, rfl, rfl⟩
      injection hj with hj; subst hj
      have hm := lookupIn_mem hl
      exact ⟨h.2.riDG _ hm, fun ht => hF he (h.2.rl _ hm ht), fun hrv => hrv _ hm⟩

/-- postcondition of a parser-level operation that leaves scope and blocks alone -/
def SPost (P : Params) (X : SParams) (s₁ s₂ : St) : PUnit → St → PUnit → St → Prop :=
  fun _ t₁ _ t₂ => Sim P X t₁ t₂ ∧ SEq s₁ t₁ ∧ SEq s₂ t₂ ∧ BlkEq s₁ t₁

theorem Sim.of_rpost {s₁ s₂ t₁ t₂ : St} (h : Sim P X s₁ s₂) (ha : ASim P t₁ t₂) (e1 : SEq s₁ t₁) (e2 : SEq s₂ t₂) :
    Sim P X t₁ t₂ := ⟨ha, h.2.of_seq e1 e2⟩

/-- `add_exit` at parser level: the result of `addExit_rel` plus the unary block frame -/
theorem addExit_srel (ok : P.Ok) {s₁ s₂ : St} (h : Sim P X s₁ s₂) (f₁ f₂ : Nat) {j : Nat} (hd : P.DG j) (ht : ¬ P.T j)
    (d : Dest) (c : Cond) (hdn : P.op = true → d ≠ Dest.none) :
    rwp (addExit f₁ j d c) (addExit f₂ (P.γ j) (rnDest P.ρ d) c) s₁ s₂ (SPost P X s₁ s₂) := by
  refine rwp_of_wp_left (addExit_blk f₁ j d c s₁) ?_
  refine rwp_mono (addExit_rel ok f₁ f₂ j d c s₁ s₂ h.1 hd ht hdn) ?_
  intro _ t₁ _ t₂ ⟨_, ha, e1, e2⟩ hb
  exact ⟨h.of_rpost ha e1 e2, e1, e2, hb⟩

theorem addRowEdge_rel (ok : P.Ok) {s₁ s₂ : St} (h : Sim P X s₁ s₂) (d : Dest) (e : Edge)
    (hF : e.from_ ≠ [] → e.from_ ∉ X.F) (hmr : e.from_ = [] → MR P s₁) (hdn : P.op = true → d ≠ Dest.none) :
    rwp (addRowEdge d e) (addRowEdge (rnDest P.ρ d) e) s₁ s₂ (SPost P X s₁ s₂) := by
  unfold addRowEdge
  rw [rwp_bind]
  refine rwp_mono (groupOfEdge_rel ok h e hF hmr) ?_
  intro a t₁ b t₂ ⟨⟨hb, hj⟩, e1, e2⟩
  subst b; subst t₁; subst t₂
  cases a with
  | none =>
    simp only [Option.map_none]
    rw [rwp_pure]
    exact ⟨h, SEq.refl _, SEq.refl _, BlkEq.refl _⟩
  | some g =>
    simp only [Option.map_some]
    rw [rwp_bind]
    refine rwp_of_run (fuelOf_run s₁) (fuelOf_run s₂) ?_
    exact addExit_srel ok h _ _ (hj g rfl).1 (hj g rfl).2.1 d e.cond hdn

/-- all edges of a row: each source is looked up in the (unchanging) scope -/
theorem edges_rel (ok : P.Ok) {s₁ s₂ : St} (h : Sim P X s₁ s₂) (d : Dest) (es : List Edge)
    (hF : ∀ e ∈ es, e.from_ ≠ [] → e.from_ ∉ X.F) (hmr : (∃ e ∈ es, e.from_ = []) → MR P s₁)
    (hdn : P.op = true → d ≠ Dest.none) :
    rwp (es.forM (addRowEdge d)) (es.forM (addRowEdge (rnDest P.ρ d))) s₁ s₂ (SPost P X s₁ s₂) := by
  have := rwp_forM (fun t₁ t₂ => Sim P X t₁ t₂ ∧ SEq s₁ t₁ ∧ SEq s₂ t₂ ∧ BlkEq s₁ t₁) id es
    (addRowEdge d) (addRowEdge (rnDest P.ρ d)) ?_ s₁ s₂ ⟨h, SEq.refl _, SEq.refl _, BlkEq.refl _⟩
  · rw [List.map_id] at this; exact this
  · intro e he u₁ u₂ ⟨hu, e1, e2, hb⟩
    refine rwp_mono (addRowEdge_rel ok hu d e (hF e he) (fun h0 => (hmr ⟨e, he, h0⟩).of_blkEq hb) hdn) ?_
    intro _ t₁ _ t₂ ⟨ht, e1', e2', hb'⟩
    exact ⟨ht, e1.trans e1', e2.trans e2', hb.trans hb'⟩

end Rpft.Compile
