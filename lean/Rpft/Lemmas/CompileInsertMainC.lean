/-
Assembly, part C: the simulation between the nested parser and the twin after the entry row
(`Sim_R`), on the part of the arenas created inside the block.
-/
import Rpft.Lemmas.CompileInsertMainB
set_option linter.unusedVariables false
set_option linter.unusedSimpArgs false
set_option linter.unusedSectionVars false
namespace Rpft.Compile
open Rpft Function

/-- the correspondence inside the block: the twin drew `m` identifiers and created `q` nodes when it
applied the edges into the block; its groups are shifted by the `no_op` group of the begin row -/
noncomputable def PR (na nt : List Str) (s₀ : St) (kk : Nat) (e₂ a₁ a₂ : St) : Params := { ρ := rhoOf (shiftFrom (s₀.next + kk) (e₂.next - (s₀.next + kk))), ν := shiftFrom (s₀.nodes.size + 1) (e₂.nodes.size - (s₀.nodes.size + 1)), γ := shiftFrom (s₀.groups.size + 1) (e₂.groups.size - (s₀.groups.size + 1)), DN := fun i => s₀.nodes.size ≤ i, DG := fun j => s₀.groups.size ≤ j, T := fun j => j = s₀.groups.size, bx := s₀.groups.size, gx := s₀.groups.size + 1, base₁ := a₁, base₂ := a₂, hb := True, sp := true, na := na, nt := nt }

def XR (s₀ : St) : SParams := ⟨s₀.stack, [], false, s₀.rowIds⟩

theorem PR_ok (na nt : List Str) (s₀ : St) (kk : Nat) (e₂ a₁ a₂ : St) : (PR na nt s₀ kk e₂ a₁ a₂).Ok :=
  ⟨rhoOf_injective (shiftFrom_injective _ _), shiftFrom_injective _ _, shiftFrom_injective _ _, fun _ _ => rfl,
    fun x hx => rhoOf_plain _ hx, fun h => Bool.noConfusion h⟩

/-- a renaming that fixes the identifiers below `B` (and the given ones) fixes every node whose
identifiers are below `B` or given -/
theorem rnNode_fix {π : Nat → Nat} {B : Nat} (hπ : ∀ k, k < B → π k = k) {n : NodeM}
    (h : ∀ x ∈ n.allIds, IdOk B x) : rnNode (rhoOf π) n = n := by
  have : rnNode (rhoOf π) n = rnNode id n := by
    apply rnNode_congr
    intro x hx
    rcases h x hx with ⟨k, hk, rfl⟩ | hp
    · rw [rhoOf_tid, hπ k hk]; rfl
    · rw [rhoOf_plain _ hp]; rfl
  rw [this, rnNode_id]

section
variable {na nt : List Str} {s₀ : St} (hg : Good na nt s₀) {r₁ : Row}

theorem insA_groups_cases {n : NodeM} {kk : Nat} {j : Nat} {g : Grp} (h : (insA s₀ r₁ n kk).groups[j]? = some g) :
    (j < s₀.groups.size ∧ s₀.groups[j]? = some g) ∨ (j = s₀.groups.size ∧ g = .block [s₀.groups.size + 1]) ∨
    (j = s₀.groups.size + 1 ∧ g = .row [s₀.nodes.size] r₁.type) := by
  have h' : ((s₀.groups.push (.block [s₀.groups.size + 1])).push (.row [s₀.nodes.size] r₁.type))[j]? = some g := h
  have hlt := (Array.getElem?_eq_some_iff.mp h').1
  simp only [Array.size_push] at hlt
  rcases Nat.lt_or_ge j s₀.groups.size with h1 | h1
  · rw [getElem?_push_push_lt h1] at h'; exact .inl ⟨h1, h'⟩
  · rcases Nat.lt_or_ge j (s₀.groups.size + 1) with h2 | h2
    · have : j = s₀.groups.size := by omega
      subst this
      rw [Array.getElem?_push] at h'
      have h3 : ¬ s₀.groups.size = (s₀.groups.push (Grp.block [s₀.groups.size + 1])).size := by simp
      simp only [h3, if_false] at h'
      simp at h'
      exact .inr (.inl ⟨rfl, h'.symm⟩)
    · have : j = s₀.groups.size + 1 := by omega
      subst this
      rw [Array.getElem?_push] at h'
      simp at h'
      exact .inr (.inr ⟨rfl, h'.symm⟩)

theorem insA_nodes_cases {n : NodeM} {kk : Nat} {i : Nat} {m : NodeM} (h : (insA s₀ r₁ n kk).nodes[i]? = some m) :
    (i < s₀.nodes.size ∧ s₀.nodes[i]? = some m) ∨ (i = s₀.nodes.size ∧ m = n) := by
  have h' : (s₀.nodes.push n)[i]? = some m := h
  rw [Array.getElem?_push] at h'
  by_cases hi : i = s₀.nodes.size
  · simp only [hi, if_true, Option.some.injEq] at h'
    exact .inr ⟨hi, h'.symm⟩
  · simp only [hi, if_false] at h'
    exact .inl ⟨(Array.getElem?_eq_some_iff.mp h').1, h'⟩

/-- what is known of the twin's state after the edges into the block were applied -/
structure E2Facts (na nt : List Str) (s₀ : St) (n : NodeM) (kk : Nat) (e₂ : St) : Prop where
  node : e₂.nodes[s₀.nodes.size]? = some n
  blk : e₂.groups[s₀.groups.size]? = some (.block [s₀.groups.size + 1])
  stack : e₂.stack = s₀.groups.size :: s₀.stack
  rowIds : e₂.rowIds = s₀.rowIds
  names : e₂.names = s₀.names
  hna : e₂.noArgs = na
  hnt : e₂.testTypes = nt
  next : s₀.next + kk ≤ e₂.next
  nsz : s₀.nodes.size + 1 ≤ e₂.nodes.size
  gsz : s₀.groups.size + 2 ≤ e₂.groups.size

include hg in
theorem simR_establish {n : NodeM} {kk : Nat} {e₂ : St} (hid : r₁.rowId.isEmpty = false ∨ r₁.rowId = [])
    (hn : ∀ x ∈ n.allIds, IdOk (s₀.next + kk) x) (hf : E2Facts na nt s₀ n kk e₂) :
    Sim (PR na nt s₀ kk e₂ (insA s₀ r₁ n kk) (twA s₀ e₂ r₁)) (XR s₀) (insA s₀ r₁ n kk) (twA s₀ e₂ r₁) ∧
    CL (PR na nt s₀ kk e₂ (insA s₀ r₁ n kk) (twA s₀ e₂ r₁)) (insA s₀ r₁ n kk) ∧
    SB (insA s₀ r₁ n kk) ∧ RV (insA s₀ r₁ n kk) := by
  have hγG : shiftFrom (s₀.groups.size + 1) (e₂.groups.size - (s₀.groups.size + 1)) s₀.groups.size = s₀.groups.size :=
    shiftFrom_lt (by omega)
  have hγG1 : shiftFrom (s₀.groups.size + 1) (e₂.groups.size - (s₀.groups.size + 1)) (s₀.groups.size + 1) =
      e₂.groups.size := by
    rw [shiftFrom_ge (Nat.le_refl _)]; have := hf.gsz; omega
  have hνN : shiftFrom (s₀.nodes.size + 1) (e₂.nodes.size - (s₀.nodes.size + 1)) s₀.nodes.size = s₀.nodes.size :=
    shiftFrom_lt (by omega)
  have ha2G : (twA s₀ e₂ r₁).groups[s₀.groups.size]? = some (.block [s₀.groups.size + 1, e₂.groups.size]) := by
    show ((e₂.groups.push _).setIfInBounds s₀.groups.size _)[s₀.groups.size]? = _
    rw [Array.getElem?_setIfInBounds]
    have h1 := hf.gsz
    have : s₀.groups.size < (e₂.groups.push (Grp.row [s₀.nodes.size] r₁.type)).size := by
      simp; omega
    simp [this]
    omega
  have ha2E : (twA s₀ e₂ r₁).groups[e₂.groups.size]? = some (.row [s₀.nodes.size] r₁.type) := by
    show ((e₂.groups.push _).setIfInBounds s₀.groups.size _)[e₂.groups.size]? = _
    rw [Array.getElem?_setIfInBounds]
    have : ¬ s₀.groups.size = e₂.groups.size := by have := hf.gsz; omega
    simp [this]
  have hsz1 : (insA s₀ r₁ n kk).groups.size = s₀.groups.size + 2 := by
    show ((s₀.groups.push _).push _).size = _; simp
  have hnsz1 : (insA s₀ r₁ n kk).nodes.size = s₀.nodes.size + 1 := by
    show (s₀.nodes.push n).size = _; simp
  have hsz2 : (twA s₀ e₂ r₁).groups.size = e₂.groups.size + 1 := by
    show ((e₂.groups.push _).setIfInBounds _ _).size = _; simp
  refine ⟨⟨?_, ?_⟩, ?_, ?_, ?_⟩
  · -- arena
    constructor
    · exact hg.hna
    · exact hf.hna
    · exact hg.hnt
    · exact hf.hnt
    · exact ⟨Nat.le_refl _, Nat.le_refl _, Nat.le_refl _⟩
    · exact ⟨Nat.le_refl _, Nat.le_refl _, Nat.le_refl _⟩
    · intro k
      show rhoOf _ (tid (s₀.next + kk + k)) = tid (e₂.next + k)
      rw [rhoOf_tid, shiftFrom_ge (by omega)]
      congr 1; have := hf.next; omega
    · intro k
      show shiftFrom _ _ ((insA s₀ r₁ n kk).nodes.size + k) = e₂.nodes.size + k
      rw [hnsz1, shiftFrom_ge (by omega)]; have := hf.nsz; omega
    · intro k
      show shiftFrom _ _ ((insA s₀ r₁ n kk).groups.size + k) = (twA s₀ e₂ r₁).groups.size + k
      rw [hsz1, hsz2, shiftFrom_ge (by omega)]; have := hf.gsz; omega
    · intro i hi; rw [hnsz1] at hi; show s₀.nodes.size ≤ i; omega
    · intro j hj; rw [hsz1] at hj; exact ⟨by show s₀.groups.size ≤ j; omega, by show ¬ j = _; omega⟩
    · rw [hsz1]; show s₀.groups.size < _; omega
    · intro _
      refine ⟨s₀.groups.size + 1, [], ?_⟩
      show ((s₀.groups.push (.block [s₀.groups.size + 1])).push (.row [s₀.nodes.size] r₁.type))[s₀.groups.size]? = _
      rw [Array.getElem?_push]
      have h3 : ¬ s₀.groups.size = (s₀.groups.push (Grp.block [s₀.groups.size + 1])).size := by simp
      simp [h3]
    · intro j g hgj
      rw [hnsz1, hsz1]
      rcases insA_groups_cases hgj with ⟨_, h1⟩ | ⟨_, rfl⟩ | ⟨_, rfl⟩
      · have := hg.wf j g h1
        exact ⟨fun i hi => by have := this.1 i hi; omega, fun x hx => by have := this.2 x hx; omega⟩
      · exact ⟨by intro i hi; simp [gnodes] at hi, by intro x hx; simp [grefs] at hx; omega⟩
      · exact ⟨by intro i hi; simp [gnodes] at hi; omega, by intro x hx; simp [grefs] at hx⟩
    · intro i m hm
      show Below (s₀.next + kk) m.dexitUid ∨ _
      rcases insA_nodes_cases hm with ⟨_, h1⟩ | ⟨_, rfl⟩
      · rcases hg.dex i m h1 with h' | h'
        · exact .inl (h'.mono (Nat.le_add_right _ _))
        · exact .inr h'
      · exact hn _ (by simp [NodeM.allIds])
    · intro i m hd hm
      rcases insA_nodes_cases hm with ⟨h0, _⟩ | ⟨rfl, rfl⟩
      · exact absurd hd (by show ¬ s₀.nodes.size ≤ i; omega)
      · show (twA s₀ e₂ r₁).nodes[shiftFrom _ _ s₀.nodes.size]? = some (rnNode (rhoOf _) m)
        rw [hνN, rnNode_fix (fun k hk => shiftFrom_lt hk) hn]
        exact hf.node
    · intro j g hd hgj
      rcases insA_groups_cases hgj with ⟨h0, _⟩ | ⟨rfl, rfl⟩ | ⟨rfl, rfl⟩
      · exact absurd hd (by show ¬ s₀.groups.size ≤ j; omega)
      · show (twA s₀ e₂ r₁).groups[shiftFrom _ _ s₀.groups.size]? = _
        rw [hγG, ha2G]
        have : mapGrpAt (PR na nt s₀ kk e₂ (insA s₀ r₁ n kk) (twA s₀ e₂ r₁)) s₀.groups.size
            (.block [s₀.groups.size + 1]) = .block [s₀.groups.size + 1, e₂.groups.size] := by
          rw [show s₀.groups.size = (PR na nt s₀ kk e₂ (insA s₀ r₁ n kk) (twA s₀ e₂ r₁)).bx from rfl,
            mapGrpAt_block_bx _ rfl]
          show Grp.block ((s₀.groups.size + 1) :: [shiftFrom _ _ (s₀.groups.size + 1)]) = _
          rw [hγG1]
          rfl
        rw [this]
      · show (twA s₀ e₂ r₁).groups[shiftFrom _ _ (s₀.groups.size + 1)]? = _
        rw [hγG1, ha2E]
        show _ = some (Grp.row [shiftFrom _ _ s₀.nodes.size] r₁.type)
        rw [hνN]
    · intro j g hd hgj
      rcases insA_groups_cases hgj with ⟨h0, _⟩ | ⟨rfl, rfl⟩ | ⟨rfl, rfl⟩
      · exact absurd hd (by show ¬ s₀.groups.size ≤ j; omega)
      · exact ⟨by intro i hi; simp [gnodes] at hi, by intro x hx; simp [grefs] at hx; show s₀.groups.size ≤ x; omega⟩
      · exact ⟨by intro i hi; simp [gnodes] at hi; show s₀.nodes.size ≤ i; omega, by intro x hx; simp [grefs] at hx⟩
    · intro j g hd ht hgj
      rcases insA_groups_cases hgj with ⟨h0, _⟩ | ⟨rfl, rfl⟩ | ⟨rfl, rfl⟩
      · exact absurd hd (by show ¬ s₀.groups.size ≤ j; omega)
      · exact absurd rfl ht
      · intro x hx; simp [grefs] at hx
    · intro i _; rfl
    · intro j _; rfl
    · intro i _; rfl
    · intro j _; rfl
    · intro h; exact Bool.noConfusion h
  · -- scope
    constructor
    · show (twA s₀ e₂ r₁).stack = [s₀.groups.size].map (shiftFrom _ _) ++ s₀.stack
      simp only [List.map_cons, List.map_nil, hγG]
      exact hf.stack
    · intro b hb
      have : b = s₀.groups.size := by simpa [insA] using hb
      rw [this]; exact Nat.le_refl _
    · exact .inr ⟨rfl, rfl⟩
    · intro _ _; trivial
    · show [s₀.groups.size].Pairwise _
      simp
    · intro id j _ hl
      show lookupIn (twA s₀ e₂ r₁).rowIds id = some (shiftFrom _ _ j)
      have hl' : lookupIn (if r₁.rowId.isEmpty then [] else [(r₁.rowId, s₀.groups.size + 1)]) id = some j := hl
      cases hemp : r₁.rowId.isEmpty with
      | true => rw [hemp] at hl'; simp [lookupIn] at hl'
      | false =>
        rw [hemp] at hl'
        simp only [Bool.false_eq_true, if_false] at hl'
        rw [lookupIn_cons] at hl'
        by_cases hk : r₁.rowId = id
        · simp only [hk, if_true, Option.some.injEq] at hl'
          subst hl'
          show lookupIn (if r₁.rowId.isEmpty then e₂.rowIds else (r₁.rowId, e₂.groups.size) :: e₂.rowIds) id = _
          rw [hemp]
          simp only [Bool.false_eq_true, if_false]
          rw [lookupIn_cons]
          simp only [hk, if_true, hγG1]
        · simp only [hk, if_false] at hl'
          simp [lookupIn] at hl'
    · intro p hp
      have hp' : p ∈ (if r₁.rowId.isEmpty then [] else [(r₁.rowId, s₀.groups.size + 1)]) := hp
      split at hp'
      · simp at hp'
      · simp only [List.mem_singleton] at hp'
        rw [hp']; show s₀.groups.size ≤ s₀.groups.size + 1; omega
    · intro p hp ht
      have hp' : p ∈ (if r₁.rowId.isEmpty then [] else [(r₁.rowId, s₀.groups.size + 1)]) := hp
      split at hp'
      · simp at hp'
      · simp only [List.mem_singleton] at hp'
        rw [hp'] at ht
        have : s₀.groups.size + 1 = s₀.groups.size := ht
        omega
    · intro p hp
      have hp' : p ∈ (if r₁.rowId.isEmpty then [] else [(r₁.rowId, s₀.groups.size + 1)]) := hp
      split at hp'
      · simp at hp'
      · rename_i hne
        simp only [List.mem_singleton] at hp'
        rw [hp']
        intro e
        apply hne
        show r₁.rowId.isEmpty = true
        rw [show r₁.rowId = [] from e]; rfl
    · intro id hid'
      show lookupIn (if r₁.rowId.isEmpty then e₂.rowIds else (r₁.rowId, e₂.groups.size) :: e₂.rowIds) id =
        lookupIn s₀.rowIds id
      cases hemp : r₁.rowId.isEmpty with
      | true => simp only [if_true]; rw [hf.rowIds]
      | false =>
        simp only [Bool.false_eq_true, if_false]
        rw [lookupIn_cons]
        have hne : r₁.rowId ≠ id := by
          have : (r₁.rowId, s₀.groups.size + 1) ∈ (insA s₀ r₁ n kk).rowIds := by
            show _ ∈ (if r₁.rowId.isEmpty then [] else [(r₁.rowId, s₀.groups.size + 1)])
            rw [hemp]; simp
          exact hid' _ this
        simp only [hne, if_false]
        rw [hf.rowIds]
    · intro h; cases h
    · intro p hp
      have : p = ([], s₀.nodes.size) := by simpa [insA] using hp
      rw [this]; show s₀.nodes.size ≤ s₀.nodes.size; omega
  · -- clean scope
    refine ⟨?_, ?_⟩
    · intro b hb cs hgb c hc
      have hb' : b = s₀.groups.size := by simpa [insA] using hb
      subst hb'
      rcases insA_groups_cases hgb with ⟨h0, _⟩ | ⟨_, h1⟩ | ⟨h0, _⟩
      · omega
      · injection h1 with h1
        subst h1
        simp only [List.mem_singleton] at hc
        show ¬ c = s₀.groups.size
        omega
      · omega
    · intro b hb
      simp [insA] at hb
  · intro b hb
    have hb' : b = s₀.groups.size := by simpa [insA] using hb
    subst hb'
    refine ⟨[s₀.groups.size + 1], ?_⟩
    show ((s₀.groups.push (.block [s₀.groups.size + 1])).push (.row [s₀.nodes.size] r₁.type))[s₀.groups.size]? = _
    rw [Array.getElem?_push]
    have h3 : ¬ s₀.groups.size = (s₀.groups.push (Grp.block [s₀.groups.size + 1])).size := by simp
    simp [h3]
  · intro p hp
    rw [hsz1]
    have hp' : p ∈ (if r₁.rowId.isEmpty then [] else [(r₁.rowId, s₀.groups.size + 1)]) := hp
    split at hp'
    · simp at hp'
    · simp only [List.mem_singleton] at hp'
      rw [hp']; show s₀.groups.size + 1 < _; omega

end

end Rpft.Compile
