/-
Lists whose elements are written either as one cell `f.i` or — sub-records — spread over
`f.i.a, f.i.b, …`, each element independently.
-/
import Rpft.Lemmas.RowElems
set_option linter.unusedSimpArgs false
set_option linter.unusedVariables false
namespace Rpft.Row
open Rpft Rpft.Cell

/-- header of element `k` of list field `n`, or of one of its sub-fields -/
def ElemKey (n : Str) (k : Nat) (key : Str) : Prop :=
  key = n ++ '.' :: printNat k ∨ ∃ a, simpleName a = true ∧ key = n ++ '.' :: (printNat k ++ '.' :: a)

theorem takeWhile_append_dot (a b : Str) (h : ∀ c ∈ a, c ≠ '.') :
    (a ++ '.' :: b).takeWhile (· ≠ '.') = a := by
  induction a with
  | nil => simp [List.takeWhile]
  | cons c t ih =>
    have hc : c ≠ '.' := h c (by simp)
    have ih' := ih (fun x hx => h x (List.mem_cons_of_mem _ hx))
    simp only [List.cons_append, List.takeWhile, hc, ne_eq, not_false_eq_true, decide_true, ih']

theorem elemKey_index_inj {n : Str} {k i : Nat} {key : Str} (h1 : ElemKey n k key)
    (h2 : ElemKey n i key) : k = i := by
  have hseg : ∀ j, ElemKey n j key → (key.drop (n.length + 1)).takeWhile (· ≠ '.') = printNat j := by
    intro j hj
    rcases hj with rfl | ⟨a, _, rfl⟩
    · have : (n ++ '.' :: printNat j).drop (n.length + 1) = printNat j := by
        rw [List.drop_append]; simp
      rw [this]
      exact takeWhile_all _ _ (fun c hc => by simpa using printNat_no_dot j c hc)
    · have : (n ++ '.' :: (printNat j ++ '.' :: a)).drop (n.length + 1) = printNat j ++ '.' :: a := by
        rw [List.drop_append]; simp
      rw [this]
      exact takeWhile_append_dot _ _ (printNat_no_dot j)
  exact printNat_inj ((hseg k h1).symm.trans (hseg i h2))

theorem elemKey_headSeg {n : Str} (hn : simpleName n = true) {k : Nat} {key : Str}
    (h : ElemKey n k key) : headSeg key = n := by
  rcases h with rfl | ⟨a, _, rfl⟩ <;> exact headSeg_dotted hn _

theorem elemKey_keyChar {n : Str} (hn : simpleName n = true) {k : Nat} {key : Str}
    (h : ElemKey n k key) : ∀ c ∈ key, keyChar c = true := by
  intro c hc
  rcases h with rfl | ⟨a, ha, rfl⟩
  · rcases List.mem_append.mp hc with h | h
    · exact simpleName_keyChar hn c h
    · simp only [List.mem_cons] at h
      rcases h with rfl | h
      · decide
      · exact printNat_keyChar k c h
  · rcases List.mem_append.mp hc with h | h
    · exact simpleName_keyChar hn c h
    · simp only [List.mem_cons, List.mem_append] at h
      rcases h with rfl | h | rfl | h
      · decide
      · exact printNat_keyChar k c h
      · decide
      · exact simpleName_keyChar ha c h

/-- columns written so far may only collide with element `i` through earlier elements -/
def OutOk (n : Str) (i : Nat) (out : Out) : Prop :=
  ∀ kv ∈ out, headSeg kv.1 ≠ n ∨ ∃ k, k < i ∧ ElemKey n k kv.1

/-- round trip of ONE list element at index `i` -/
def ElemRT (lay : Layout) (fs : List Field) (n : Str) (ety : Ty) (i : Nat) (x : Val)
    (cols : List (Str × Str)) (tr : Tree) : Prop :=
  (∀ out, OutOk n i out → unparseRec lay ety x (idxPrefix ('.' :: n) i) out = .ok (out ++ cols)) ∧
  (∀ kv ∈ cols, ElemKey n i kv.1) ∧ (cols.map Prod.fst).Nodup ∧
  (∀ kvs, alookup n kvs = none → ∀ ts cur, (cur = none ∧ ts = [] ∨ cur = some (.list ts)) →
    ts.length + 1 = i →
    foldE (parseEntry (plainTop fs)) (.dict (st kvs n cur)) (inl cols) =
      .ok (.dict (st kvs n (some (.list (ts ++ [tr])))))) ∧
  validate ety tr = .ok x

/-- element data with its columns -/
abbrev ElemC := Val × List (Str × Str) × Tree

theorem unparseSeq_elemRT {lay : Layout} {fs : List Field} {n : Str} {ety : Ty} :
    ∀ (es : List ElemC) (i : Nat) (out : Out),
      (∀ j e, es[j]? = some e → ElemRT lay fs n ety (i + j) e.1 e.2.1 e.2.2) → OutOk n i out →
      unparseSeq (unparseRec lay ety) ('.' :: n) i (es.map (·.1)) out =
        .ok (out ++ (es.map (·.2.1)).flatten)
  | [], _, out, _, _ => by simp [unparseSeq]
  | e :: es, i, out, hok, hout => by
    have h0 := hok 0 e (by simp)
    simp only [Nat.add_zero] at h0
    simp only [List.map_cons, unparseSeq]
    rw [h0.1 out hout]
    simp only
    rw [unparseSeq_elemRT es (i + 1) (out ++ e.2.1)]
    · simp
    · intro j e' hj
      have := hok (j + 1) e' (by simpa using hj)
      have harith : i + (j + 1) = i + 1 + j := by omega
      rw [harith] at this
      exact this
    · intro kv hkv
      rcases List.mem_append.mp hkv with h | h
      · rcases hout kv h with h' | ⟨k, hk, h'⟩
        · exact Or.inl h'
        · exact Or.inr ⟨k, by omega, h'⟩
      · exact Or.inr ⟨i, by omega, h0.2.1 kv h⟩

theorem fold_elemRT {lay : Layout} {fs : List Field} {n : Str} {ety : Ty}
    (kvs : List (Str × Tree)) (hk : alookup n kvs = none) :
    ∀ (es : List ElemC) (e : ElemC) (ts : List Tree) (cur : Option Tree),
      (cur = none ∧ ts = [] ∨ cur = some (.list ts)) →
      (∀ j x, (e :: es)[j]? = some x → ElemRT lay fs n ety (ts.length + 1 + j) x.1 x.2.1 x.2.2) →
      foldE (parseEntry (plainTop fs)) (.dict (st kvs n cur)) (inl (((e :: es).map (·.2.1)).flatten)) =
        .ok (.dict (st kvs n (some (.list (ts ++ (e :: es).map (·.2.2))))))
  | es, e, ts, cur, hcur, hok => by
    have h0 := hok 0 e (by simp)
    simp only [Nat.add_zero] at h0
    have hstep := h0.2.2.2.1 kvs hk ts cur hcur rfl
    cases es with
    | nil =>
      simp only [List.map_cons, List.map_nil, List.flatten_cons, List.flatten_nil, List.append_nil]
      rw [hstep]
    | cons e' es' =>
      have ih := fold_elemRT kvs hk es' e' (ts ++ [e.2.2]) (some (.list (ts ++ [e.2.2])))
        (Or.inr rfl) (by
          intro j x hj
          have := hok (j + 1) x (by simpa using hj)
          simp only [List.length_append, List.length_singleton]
          have harith : ts.length + 1 + (j + 1) = ts.length + 1 + 1 + j := by omega
          rw [harith] at this
          exact this)
      simp only [List.map_cons, List.flatten_cons, inl, List.map_append] at ih ⊢
      rw [foldE_append]
      simp only [inl] at hstep
      rw [hstep]
      simp only
      rw [ih]
      simp

theorem flatten_nodup_elems {n : Str} : ∀ (cs : List (List (Str × Str))) (i : Nat),
    (∀ j c, cs[j]? = some c → (∀ kv ∈ c, ElemKey n (i + j) kv.1) ∧ (c.map Prod.fst).Nodup) →
    ((cs.flatten).map Prod.fst).Nodup ∧ ∀ kv ∈ cs.flatten, ∃ k, i ≤ k ∧ ElemKey n k kv.1
  | [], _, _ => by simp
  | c :: cs, i, h => by
    have h0 := h 0 c (by simp)
    simp only [Nat.add_zero] at h0
    obtain ⟨ihN, ihK⟩ := flatten_nodup_elems cs (i + 1) (by
      intro j c' hj
      have := h (j + 1) c' (by simpa using hj)
      have harith : i + (j + 1) = i + 1 + j := by omega
      rw [harith] at this
      exact this)
    constructor
    · simp only [List.flatten_cons, List.map_append]
      refine List.nodup_append.mpr ⟨h0.2, ihN, ?_⟩
      intro a ha b hb hab
      obtain ⟨kv, hkv, rfl⟩ := List.mem_map.mp ha
      obtain ⟨kv', hkv', rfl⟩ := List.mem_map.mp hb
      obtain ⟨k, hk, hek⟩ := ihK kv' hkv'
      rw [← hab] at hek
      have := elemKey_index_inj (h0.1 kv hkv) hek
      omega
    · intro kv hkv
      simp only [List.flatten_cons] at hkv
      rcases List.mem_append.mp hkv with h' | h'
      · exact ⟨i, Nat.le_refl _, h0.1 kv h'⟩
      · obtain ⟨k, hk, hek⟩ := ihK kv h'
        exact ⟨k, by omega, hek⟩

/-- **a list field from the round trips of its elements** -/
theorem fieldRT_of_elemRT {lay : Layout} {fs : List Field} {n : Str} {d : Option Val} {ety : Ty}
    (hn : simpleName n = true) (he : lay.excluded = [])
    (hm : matchesHeaders ('.' :: n) lay.targets = false)
    (es : List ElemC) (hne : es ≠ [])
    (hok : ∀ j e, es[j]? = some e → ElemRT lay fs n ety (1 + j) e.1 e.2.1 e.2.2) :
    FieldRT lay fs n (.list ety) (.list (es.map (·.1))) := by
  obtain ⟨hN, hK⟩ := flatten_nodup_elems (n := n) (es.map (·.2.1)) 1 (by
    intro j c hj
    simp only [List.getElem?_map, Option.map_eq_some_iff] at hj
    obtain ⟨e, he', rfl⟩ := hj
    exact ⟨(hok j e he').2.1, (hok j e he').2.2.1⟩)
  refine ⟨(es.map (·.2.1)).flatten, .list (es.map (·.2.2)), ?_, ?_, hN, ?_, ?_, rfl⟩
  · intro out hout
    unfold unparseRec
    simp only [he, matchesHeaders_nil, hm, isBasicVal, Bool.false_or, Bool.false_eq_true, if_false]
    exact unparseSeq_elemRT es 1 out hok (fun kv hkv => Or.inl (hout kv hkv))
  · intro kv hkv
    obtain ⟨k, _, hek⟩ := hK kv hkv
    exact ⟨elemKey_headSeg hn hek, elemKey_keyChar hn hek⟩
  · intro kvs hk
    cases es with
    | nil => exact absurd rfl hne
    | cons e es' =>
      have := fold_elemRT (lay := lay) (fs := fs) (ety := ety) kvs hk es' e [] none
        (Or.inl ⟨rfl, rfl⟩) (by
          intro j x hj
          have := hok j x hj
          simpa [Nat.add_comm] using this)
      simpa [st] using this
  · simp only [validate]
    have := mapE_map_ok (validate ety) (fun e : ElemC => e.2.2) (fun e : ElemC => e.1) es
      (fun e he' => by
        obtain ⟨j, hj⟩ := List.getElem?_of_mem he'
        exact (hok j e hj).2.2.2.2)
    rw [this]

end Rpft.Row
