/-
A node that performs actions and then decides may be split in two — a node performing the actions,
followed by a node that only decides — without changing what a contact observes.  Stated for the
index-resolved abstractions of `Lemmas/FlowAbs.lean`: `B` arises from `A` by splitting some nodes
(and renumbering); then both have the same runs for every answer stream.  The correspondence is
given over an arbitrary index type `ι` (the rows of a sheet, in the application).
-/
import Rpft.Lemmas.FlowAbs
import Rpft.Lemmas.FlowFuel
import Mathlib.Data.List.Forall2
set_option linter.unusedSimpArgs false
set_option linter.unusedVariables false
namespace Rpft.Flow
open Rpft Rpft.Bisim

/-! ### runs of related systems -/

def OptRel {S T : Type} (R : S → T → Prop) : Option S → Option T → Prop
  | none, none => True
  | some s, some t => R s t
  | _, _ => False

/-- a (Prop-valued) bisimulation gives equal runs -/
theorem run_eq_of_rel {S T O : Type} (A : Sys S O) (B : Sys T O) (R : S → T → Prop)
    (hR : ∀ s t, R s t → A.obs s = B.obs t ∧ A.arity s = B.arity t ∧
      ∀ c, c < A.arity s → OptRel R (A.next s c) (B.next t c)) :
    ∀ (n : Nat) (s : Option S) (t : Option T) (env : Nat → Nat), OptRel R s t → run A s env n = run B t env n := by
  intro n
  induction n with
  | zero => intro s t env _; cases s <;> cases t <;> rfl
  | succ n ih =>
    intro s t env hst
    cases s with
    | none =>
      cases t with
      | none => rfl
      | some q => cases hst
    | some p =>
      cases t with
      | none => cases hst
      | some q =>
        obtain ⟨ho, ha, hn⟩ := hR p q hst
        simp only [run]
        rw [ho]
        congr 1
        apply ih
        unfold Sys.step
        rw [← ha]
        split
        · trivial
        · rename_i h0
          exact hn _ (Nat.mod_lt _ (Nat.pos_of_ne_zero h0))

/-! ### splitting nodes -/

section
variable {ι : Type} (A B : List ANode) (V : ι → Prop) (ia ib : ι → Nat) (ir : ι → Option Nat)

/-- corresponding destinations; a node of `A` that does nothing (no action, no decision) may have no
counterpart in `B` at all: a destination that names it corresponds to what its own exit corresponds to -/
inductive DRel : Option (Option Nat) → Option (Option Nat) → Prop
  | none : DRel none none
  | out : DRel (some none) (some none)
  | node (j : ι) : V j → DRel (some (some (ia j))) (some (some (ib j)))
  | skip (k : Nat) (a : ANode) (y : Option (Option Nat)) : A[k]? = some a → a.acts = [] → a.ask = none →
      DRel (a.dests.head?.join) y → DRel (some (some k)) y

/-- node `ia j` of `A` is node `ib j` of `B`, or (when `ir j = some q`) is split into the nodes
`ib j` (the actions) and `q` (the decision) of `B` -/
structure SplitOf : Prop where
  node : ∀ j, V j → ∃ a, A[ia j]? = some a ∧
    ((ir j = none ∧ ∃ b, B[ib j]? = some b ∧ b.acts = a.acts ∧ b.ask = a.ask ∧
        List.Forall₂ (DRel A V ia ib) a.dests b.dests) ∨
     (∃ q b1 b2, ir j = some q ∧ a.ask.isSome = true ∧ B[ib j]? = some b1 ∧ b1.acts = a.acts ∧ b1.ask = none ∧
        b1.dests = [some (some q)] ∧ B[q]? = some b2 ∧ b2.acts = [] ∧ b2.ask = a.ask ∧
        List.Forall₂ (DRel A V ia ib) a.dests b2.dests))

/-- corresponding positions -/
def SRel : St → St → Prop
  | .div, .div => True
  | .at p, .at p' => ∃ j a, V j ∧ p.node = ia j ∧ A[ia j]? = some a ∧
      ((p.k < a.acts.length ∧ p'.node = ib j ∧ p'.k = p.k) ∨
       (p.k = a.acts.length ∧ a.ask.isSome = true ∧
         ((ir j = none ∧ p'.node = ib j ∧ p'.k = p.k) ∨ (∃ q, ir j = some q ∧ p'.node = q ∧ p'.k = 0))))
  | _, _ => False

variable {A B V ia ib ir}

theorem DRel.head {l1 l2 : List (Option (Option Nat))} (h : List.Forall₂ (DRel A V ia ib) l1 l2) :
    DRel A V ia ib l1.head?.join l2.head?.join := by
  cases h with
  | nil => exact .none
  | cons hab _ => exact hab

theorem DRel.get {l1 l2 : List (Option (Option Nat))} (h : List.Forall₂ (DRel A V ia ib) l1 l2) (c : Nat) :
    DRel A V ia ib (l1[c]?).join (l2[c]?).join := by
  induction h generalizing c with
  | nil => exact .none
  | cons hab _ ih =>
    cases c with
    | zero => exact hab
    | succ c => simpa using ih c

theorem isEmptyNode_iff (a : ANode) : (a.acts.isEmpty && a.ask.isNone) = true ↔ a.acts = [] ∧ a.ask = none := by
  simp [List.isEmpty_iff]

/-- a result other than "diverges" is the result for the fuel the systems use -/
theorem aEnter_canon (A : List ANode) (f : Nat) (x : Option (Option Nat)) (r : Option St)
    (h : aEnter A f x = r) (hr : r ≠ some .div) : aEnter A (A.length + 1) x = r := by
  by_cases hd : aEnter A (A.length + 1) x = some .div
  · have := aEnter_div_all A x hd f
    rw [h] at this; exact absurd this hr
  · have h1 := aEnter_mono A f (max f (A.length + 1)) x (by rw [h]; exact hr) (Nat.le_max_left _ _)
    have h2 := aEnter_mono A (A.length + 1) (max f (A.length + 1)) x hd (Nat.le_max_right _ _)
    rw [← h2, h1, h]

/-- the node of `A` at `ia j`, entered: what `B` does at `ib j` (with enough fuel) -/
theorem enter_node_nonempty (hs : SplitOf A B V ia ib ir) (j : ι) (hj : V j) (a : ANode) (ha : A[ia j]? = some a)
    (hemp : ¬ (a.acts = [] ∧ a.ask = none)) :
    ∃ p', (∀ g, aEnter B (g + 2) (some (some (ib j))) = some (.at p')) ∧
      SRel A V ia ib ir (.at ⟨ia j, 0⟩) (.at p') ∧
      (∀ g, aEnter B g (some (some (ib j))) = some (.at p') ∨ aEnter B g (some (some (ib j))) = some .div) := by
  obtain ⟨a', ha', hcase⟩ := hs.node j hj
  rw [ha] at ha'; injection ha' with ha'; subst ha'
  rcases hcase with ⟨hir, b, hb, hb1, hb2, hbd⟩ | ⟨q, b1, b2, hir, hask, hb1, hb1a, hb1k, hb1d, hb2, hb2a, hb2k, hb2d⟩
  · have hbe : ¬ (b.acts = [] ∧ b.ask = none) := by rw [hb1, hb2]; exact hemp
    have hB : ∀ g, aEnter B (g + 1) (some (some (ib j))) = some (.at ⟨ib j, 0⟩) := by
      intro g
      simp only [aEnter, hb]
      rw [if_neg (fun h => hbe ((isEmptyNode_iff b).mp h))]
    refine ⟨⟨ib j, 0⟩, fun g => hB (g + 1), ⟨j, a, hj, rfl, ha, ?_⟩, ?_⟩
    · by_cases hl : 0 < a.acts.length
      · exact .inl ⟨hl, rfl, rfl⟩
      · have hnil : a.acts = [] := List.eq_nil_of_length_eq_zero (by omega)
        have : a.ask.isSome = true := by
          cases hk : a.ask with
          | none => exact absurd ⟨hnil, hk⟩ hemp
          | some _ => rfl
        exact .inr ⟨by rw [hnil]; rfl, this, .inl ⟨hir, rfl, rfl⟩⟩
    · intro g
      cases g with
      | zero => exact .inr rfl
      | succ g => exact .inl (hB g)
  · by_cases hl : 0 < a.acts.length
    · have hbe : ¬ (b1.acts = [] ∧ b1.ask = none) := by
        rw [hb1a]; intro h; rw [h.1] at hl; exact absurd hl (by simp)
      have hB : ∀ g, aEnter B (g + 1) (some (some (ib j))) = some (.at ⟨ib j, 0⟩) := by
        intro g
        simp only [aEnter, hb1]
        rw [if_neg (fun h => hbe ((isEmptyNode_iff b1).mp h))]
      refine ⟨⟨ib j, 0⟩, fun g => hB (g + 1), ⟨j, a, hj, rfl, ha, .inl ⟨hl, rfl, rfl⟩⟩, ?_⟩
      intro g
      cases g with
      | zero => exact .inr rfl
      | succ g => exact .inl (hB g)
    · have hnil : a.acts = [] := List.eq_nil_of_length_eq_zero (by omega)
      have hbe : b1.acts = [] ∧ b1.ask = none := ⟨by rw [hb1a]; exact hnil, hb1k⟩
      have hb2e : ¬ (b2.acts = [] ∧ b2.ask = none) := by
        intro h; rw [hb2k] at h; rw [h.2] at hask; cases hask
      have hB : ∀ g, aEnter B (g + 2) (some (some (ib j))) = some (.at ⟨q, 0⟩) := by
        intro g
        simp only [aEnter, hb1]
        rw [if_pos ((isEmptyNode_iff b1).mpr hbe), hb1d]
        simp only [List.head?_cons, Option.join_some, aEnter, hb2]
        rw [if_neg (fun h => hb2e ((isEmptyNode_iff b2).mp h))]
      refine ⟨⟨q, 0⟩, hB, ⟨j, a, hj, rfl, ha, .inr ⟨by rw [hnil]; rfl, hask, .inr ⟨q, hir, rfl, rfl⟩⟩⟩, ?_⟩
      intro g
      match g with
      | 0 => exact .inr rfl
      | 1 =>
        right
        simp only [aEnter, hb1]
        rw [if_pos ((isEmptyNode_iff b1).mpr hbe), hb1d]
        rfl
      | g + 2 => exact .inl (hB g)

/-- a node of `A` that does nothing and is not split: `B` has the same, with corresponding exits -/
theorem enter_node_empty (hs : SplitOf A B V ia ib ir) (j : ι) (hj : V j) (a : ANode) (ha : A[ia j]? = some a)
    (hemp : a.acts = [] ∧ a.ask = none) :
    ∃ b : ANode, (∀ f, aEnter A (f + 1) (some (some (ia j))) = aEnter A f (a.dests.head?.join)) ∧
      (∀ g, aEnter B (g + 1) (some (some (ib j))) = aEnter B g (b.dests.head?.join)) ∧
      DRel A V ia ib (a.dests.head?.join) (b.dests.head?.join) := by
  obtain ⟨a', ha', hcase⟩ := hs.node j hj
  rw [ha] at ha'; injection ha' with ha'; subst ha'
  have hA : ∀ f', aEnter A (f' + 1) (some (some (ia j))) = aEnter A f' (a.dests.head?.join) := by
    intro f'
    simp only [aEnter, ha]
    rw [if_pos ((isEmptyNode_iff a).mpr hemp)]
  rcases hcase with ⟨_, b, hb, hb1, hb2, hbd⟩ | ⟨q, b1, b2, _, hask, _⟩
  · have hbe : b.acts = [] ∧ b.ask = none := by rw [hb1, hb2]; exact hemp
    refine ⟨b, hA, ?_, DRel.head hbd⟩
    intro g'
    simp only [aEnter, hb]
    rw [if_pos ((isEmptyNode_iff b).mpr hbe)]
  · rw [hemp.2] at hask; cases hask

/-- what entering leads to in `A` is what entering the corresponding destination leads to in `B` -/
theorem enter_fwd (hs : SplitOf A B V ia ib ir) : ∀ (f : Nat) (x y : Option (Option Nat)), DRel A V ia ib x y →
    (aEnter A f x = none → ∃ g, aEnter B g y = none) ∧
    (∀ p, aEnter A f x = some (.at p) → ∃ g p', aEnter B g y = some (.at p') ∧ SRel A V ia ib ir (.at p) (.at p')) := by
  intro f
  induction f with
  | zero =>
    intro x y hxy
    cases hxy with
    | none => exact ⟨fun _ => ⟨0, rfl⟩, fun p hp => (by simp [aEnter] at hp)⟩
    | out => exact ⟨fun hp => (by simp [aEnter] at hp), fun p hp => (by simp [aEnter] at hp)⟩
    | node j hj => exact ⟨fun hp => (by simp [aEnter] at hp), fun p hp => (by simp [aEnter] at hp)⟩
    | skip k a y hk _ _ _ => exact ⟨fun hp => (by simp [aEnter] at hp), fun p hp => (by simp [aEnter] at hp)⟩
  | succ f ih =>
    intro x y hxy
    cases hxy with
    | none => exact ⟨fun _ => ⟨0, rfl⟩, fun p hp => (by simp [aEnter] at hp)⟩
    | out => exact ⟨fun _ => ⟨1, rfl⟩, fun p hp => (by simp [aEnter] at hp)⟩
    | node j hj =>
      obtain ⟨a, ha, _⟩ := hs.node j hj
      by_cases hemp : a.acts = [] ∧ a.ask = none
      · obtain ⟨b, hA, hB, hd⟩ := enter_node_empty hs j hj a ha hemp
        obtain ⟨i1, i2⟩ := ih _ _ hd
        rw [hA]
        refine ⟨fun h0 => ?_, fun p hp => ?_⟩
        · obtain ⟨g, hg⟩ := i1 h0
          exact ⟨g + 1, by rw [hB]; exact hg⟩
        · obtain ⟨g, p', hg, hr⟩ := i2 p hp
          exact ⟨g + 1, p', by rw [hB]; exact hg, hr⟩
      · obtain ⟨p', hB, hr, _⟩ := enter_node_nonempty hs j hj a ha hemp
        have hA : aEnter A (f + 1) (some (some (ia j))) = some (.at ⟨ia j, 0⟩) := by
          simp only [aEnter, ha]
          rw [if_neg (fun h => hemp ((isEmptyNode_iff a).mp h))]
        rw [hA]
        refine ⟨fun h0 => (by cases h0), fun p hp => ?_⟩
        injection hp with hp; injection hp with hp; subst hp
        exact ⟨2, p', hB 0, hr⟩
    | skip k a y hk ha1 ha2 hd =>
      have hA : aEnter A (f + 1) (some (some k)) = aEnter A f (a.dests.head?.join) := by
        simp only [aEnter, hk]
        rw [if_pos ((isEmptyNode_iff a).mpr ⟨ha1, ha2⟩)]
      rw [hA]
      exact ih _ _ hd

/-- … and conversely -/
theorem enter_bwd (hs : SplitOf A B V ia ib ir) : ∀ (g : Nat) (x y : Option (Option Nat)), DRel A V ia ib x y →
    (aEnter B g y = none → ∃ f, aEnter A f x = none) ∧
    (∀ p', aEnter B g y = some (.at p') → ∃ f p, aEnter A f x = some (.at p) ∧ SRel A V ia ib ir (.at p) (.at p')) := by
  intro g
  induction g with
  | zero =>
    intro x y hxy
    induction hxy with
    | none => exact ⟨fun _ => ⟨0, rfl⟩, fun p hp => (by simp [aEnter] at hp)⟩
    | out => exact ⟨fun hp => (by simp [aEnter] at hp), fun p hp => (by simp [aEnter] at hp)⟩
    | node j hj => exact ⟨fun hp => (by simp [aEnter] at hp), fun p hp => (by simp [aEnter] at hp)⟩
    | skip k a y hk ha1 ha2 hd ihd =>
      have hA : ∀ f, aEnter A (f + 1) (some (some k)) = aEnter A f (a.dests.head?.join) := by
        intro f
        simp only [aEnter, hk]
        rw [if_pos ((isEmptyNode_iff a).mpr ⟨ha1, ha2⟩)]
      refine ⟨fun h0 => ?_, fun p' hp => ?_⟩
      · obtain ⟨f, hf⟩ := ihd.1 h0
        exact ⟨f + 1, by rw [hA]; exact hf⟩
      · obtain ⟨f, p, hf, hr⟩ := ihd.2 p' hp
        exact ⟨f + 1, p, by rw [hA]; exact hf, hr⟩
  | succ g ih =>
    intro x y hxy
    induction hxy with
    | none => exact ⟨fun _ => ⟨0, rfl⟩, fun p hp => (by simp [aEnter] at hp)⟩
    | out => exact ⟨fun _ => ⟨1, rfl⟩, fun p hp => (by simp [aEnter] at hp)⟩
    | node j hj =>
      obtain ⟨a, ha, _⟩ := hs.node j hj
      by_cases hemp : a.acts = [] ∧ a.ask = none
      · obtain ⟨b, hA, hB, hd⟩ := enter_node_empty hs j hj a ha hemp
        obtain ⟨i1, i2⟩ := ih _ _ hd
        rw [hB]
        refine ⟨fun h0 => ?_, fun p' hp => ?_⟩
        · obtain ⟨f, hf⟩ := i1 h0
          exact ⟨f + 1, by rw [hA]; exact hf⟩
        · obtain ⟨f, p, hf, hr⟩ := i2 p' hp
          exact ⟨f + 1, p, by rw [hA]; exact hf, hr⟩
      · obtain ⟨p0, _, hr, hB⟩ := enter_node_nonempty hs j hj a ha hemp
        have hA : aEnter A 1 (some (some (ia j))) = some (.at ⟨ia j, 0⟩) := by
          simp only [aEnter, ha]
          rw [if_neg (fun h => hemp ((isEmptyNode_iff a).mp h))]
        refine ⟨fun h0 => ?_, fun p' hp => ?_⟩
        · rcases hB (g + 1) with h1 | h1 <;> rw [h1] at h0 <;> cases h0
        · rcases hB (g + 1) with h1 | h1
          · rw [h1] at hp; injection hp with hp; injection hp with hp; subst hp
            exact ⟨1, _, hA, hr⟩
          · rw [h1] at hp; cases hp
    | skip k a y hk ha1 ha2 hd ihd =>
      have hA : ∀ f, aEnter A (f + 1) (some (some k)) = aEnter A f (a.dests.head?.join) := by
        intro f
        simp only [aEnter, hk]
        rw [if_pos ((isEmptyNode_iff a).mpr ⟨ha1, ha2⟩)]
      refine ⟨fun h0 => ?_, fun p' hp => ?_⟩
      · obtain ⟨f, hf⟩ := ihd.1 h0
        exact ⟨f + 1, by rw [hA]; exact hf⟩
      · obtain ⟨f, p, hf, hr⟩ := ihd.2 p' hp
        exact ⟨f + 1, p, by rw [hA]; exact hf, hr⟩

/-- entering corresponding destinations, with the fuels the two systems use -/
theorem enter_rel (hs : SplitOf A B V ia ib ir) (x y : Option (Option Nat)) (hxy : DRel A V ia ib x y) :
    OptRel (SRel A V ia ib ir) (aEnter A (A.length + 1) x) (aEnter B (B.length + 1) y) := by
  cases hr : aEnter A (A.length + 1) x with
  | none =>
    obtain ⟨g, hg⟩ := (enter_fwd hs _ x y hxy).1 hr
    rw [aEnter_canon B g y none hg (by simp)]
    trivial
  | some sA =>
    cases sA with
    | «at» p =>
      obtain ⟨g, p', hg, hrel⟩ := (enter_fwd hs _ x y hxy).2 p hr
      rw [aEnter_canon B g y _ hg (by simp)]
      exact hrel
    | div =>
      cases hrB : aEnter B (B.length + 1) y with
      | none =>
        obtain ⟨f, hf⟩ := (enter_bwd hs _ x y hxy).1 hrB
        have := aEnter_canon A f x none hf (by simp)
        rw [hr] at this; cases this
      | some sB =>
        cases sB with
        | div => trivial
        | «at» p' =>
          obtain ⟨f, p, hf, _⟩ := (enter_bwd hs _ x y hxy).2 p' hrB
          have := aEnter_canon A f x _ hf (by simp)
          rw [hr] at this; cases this

/-- the positions of `SRel` behave alike -/
theorem srel_step (hs : SplitOf A B V ia ib ir) (s t : St) (hst : SRel A V ia ib ir s t) :
    aObs A s = aObs B t ∧ aArity A s = aArity B t ∧
      ∀ c, c < aArity A s → OptRel (SRel A V ia ib ir) (aNext A s c) (aNext B t c) := by
  cases s with
  | div =>
    cases t with
    | div => exact ⟨rfl, rfl, fun c hc => absurd hc (by simp [aArity])⟩
    | «at» p' => cases hst
  | «at» p =>
    cases t with
    | div => cases hst
    | «at» p' =>
      obtain ⟨j, a, hj, hpn, ha, hpos⟩ := hst
      obtain ⟨a', ha', hcase⟩ := hs.node j hj
      rw [ha] at ha'; injection ha' with ha'; subst ha'
      obtain ⟨pn, pk⟩ := p
      obtain ⟨pn', pk'⟩ := p'
      simp only at hpn hpos
      subst hpn
      rcases hpos with ⟨hlt, hn', hk'⟩ | ⟨heq, hask, hsub⟩
      · -- inside the actions
        have hk'' := hk'.symm
        subst hn' hk''
        -- the node of `B` at `ib j` performs the same actions
        have hB : ∃ bb, B[ib j]? = some bb ∧ bb.acts = a.acts ∧
            ((ir j = none ∧ bb.ask = a.ask ∧ List.Forall₂ (DRel A V ia ib) a.dests bb.dests) ∨
             (∃ q b2, ir j = some q ∧ a.ask.isSome = true ∧ bb.ask = none ∧ bb.dests = [some (some q)] ∧
                B[q]? = some b2 ∧ b2.acts = [] ∧ b2.ask = a.ask)) := by
          rcases hcase with ⟨hir, b, hb, hb1, hb2, hbd⟩ | ⟨q, b1, b2, hir, hask, hb1, hb1a, hb1k, hb1d, hb2, hb2a, hb2k, hb2d⟩
          · exact ⟨b, hb, hb1, .inl ⟨hir, hb2, hbd⟩⟩
          · exact ⟨b1, hb1, hb1a, .inr ⟨q, b2, hir, hask, hb1k, hb1d, hb2, hb2a, hb2k⟩⟩
        obtain ⟨bb, hbb, hacts, hrest⟩ := hB
        have hx : a.acts[pk]? = some a.acts[pk] := by simp [hlt]
        refine ⟨?_, ?_, ?_⟩
        · simp only [aObs, ha, hbb, hacts, hx]
        · simp only [aArity, ha, hbb, hacts, hx]
        · intro c _
          simp only [aNext, ha, hbb, hacts, hx]
          by_cases hnext : pk + 1 < a.acts.length
          · simp only [hnext, if_true]
            exact ⟨j, a, hj, rfl, ha, .inl ⟨hnext, rfl, rfl⟩⟩
          · simp only [hnext, if_false]
            have hlast : pk + 1 = a.acts.length := by omega
            rcases hrest with ⟨hir, hbk, hbd⟩ | ⟨q, b2, hir, hask, hbk, hbd, hb2, hb2a, hb2k⟩
            · rw [hbk]
              cases hk : a.ask with
              | some r =>
                exact ⟨j, a, hj, rfl, ha, .inr ⟨hlast, by rw [hk]; rfl, .inl ⟨hir, rfl, rfl⟩⟩⟩
              | none => exact enter_rel hs _ _ (DRel.head hbd)
            · rw [hbk]
              cases hk : a.ask with
              | none => rw [hk] at hask; cases hask
              | some r =>
                simp only [hbd, List.head?_cons, Option.join_some]
                have hb2e : ¬ (b2.acts = [] ∧ b2.ask = none) := by
                  intro h; rw [hb2k, hk] at h; cases h.2
                have : aEnter B (B.length + 1) (some (some q)) = some (.at ⟨q, 0⟩) := by
                  simp only [aEnter, hb2]
                  rw [if_neg (fun h => hb2e ((isEmptyNode_iff b2).mp h))]
                rw [this]
                exact ⟨j, a, hj, rfl, ha, .inr ⟨hlast, by rw [hk]; rfl, .inr ⟨q, hir, rfl, rfl⟩⟩⟩
      · -- at the decision
        subst heq
        have hx : a.acts[a.acts.length]? = none := by simp
        -- the node of `B` that decides
        have hB : ∃ bb, B[pn']? = some bb ∧ bb.acts[pk']? = none ∧ bb.ask = a.ask ∧
            List.Forall₂ (DRel A V ia ib) a.dests bb.dests := by
          rcases hsub with ⟨hir, hn', hk'⟩ | ⟨q, hir, hn', hk'⟩
          · rcases hcase with ⟨_, b, hb, hb1, hb2, hbd⟩ | ⟨q, b1, b2, hir', _⟩
            · have hk'' := hk'.symm
              subst hn' hk''
              exact ⟨b, hb, by rw [hb1]; exact hx, hb2, hbd⟩
            · rw [hir] at hir'; cases hir'
          · rcases hcase with ⟨hir', _⟩ | ⟨q', b1, b2, hir', _, _, _, _, _, hb2, hb2a, hb2k, hb2d⟩
            · rw [hir] at hir'; cases hir'
            · rw [hir] at hir'; injection hir' with hir'; subst hir'
              subst hn' hk'
              exact ⟨b2, hb2, by rw [hb2a]; rfl, hb2k, hb2d⟩
        obtain ⟨bb, hbb, hbx, hbk, hbd⟩ := hB
        obtain ⟨r, hr⟩ : ∃ r, a.ask = some r := by
          cases hk : a.ask with
          | none => rw [hk] at hask; cases hask
          | some r => exact ⟨r, rfl⟩
        refine ⟨?_, ?_, ?_⟩
        · simp only [aObs, ha, hbb, hx, hbx, hbk, hr]
        · simp only [aArity, ha, hbb, hx, hbx, hbk, hr]
          exact hbd.length_eq
        · intro c _
          simp only [aNext, ha, hbb, hx, hbx, hbk, hr]
          exact enter_rel hs _ _ (DRel.get hbd c)

/-- **a flow abstraction and one in which some nodes are split have the same runs** -/
theorem run_split (hs : SplitOf A B V ia ib ir)
    (hstart : (A = [] ∧ B = []) ∨ (A ≠ [] ∧ B ≠ [] ∧ ∃ j0, V j0 ∧ ia j0 = 0 ∧ ib j0 = 0))
    (env : Nat → Nat) (n : Nat) :
    run (aSys A) (aStart A) env n = run (aSys B) (aStart B) env n := by
  refine run_eq_of_rel (aSys A) (aSys B) (SRel A V ia ib ir) (fun s t hst => srel_step hs s t hst) n _ _ env ?_
  rcases hstart with ⟨hA, hB⟩ | ⟨hA, hB, j0, hj0, h1, h2⟩
  · subst hA hB; trivial
  · have e1 : aStart A = aEnter A (A.length + 1) (some (some 0)) := by
      cases A with
      | nil => exact absurd rfl hA
      | cons _ _ => rfl
    have e2 : aStart B = aEnter B (B.length + 1) (some (some 0)) := by
      cases B with
      | nil => exact absurd rfl hB
      | cons _ _ => rfl
    rw [e1, e2]
    have := enter_rel hs _ _ (DRel.node (A := A) (V := V) (ia := ia) (ib := ib) j0 hj0)
    rw [h1, h2] at this
    exact this

end

/-- flows whose abstractions are related by splitting are trace equivalent -/
theorem trace_eq_of_split {ι : Type} (lvl : ObsLevel) (f g : Flow) (V : ι → Prop) (ia ib : ι → Nat) (ir : ι → Option Nat)
    (hs : SplitOf (absFlow lvl f) (absFlow lvl g) V ia ib ir)
    (hstart : (absFlow lvl f = [] ∧ absFlow lvl g = []) ∨
      (absFlow lvl f ≠ [] ∧ absFlow lvl g ≠ [] ∧ ∃ j0, V j0 ∧ ia j0 = 0 ∧ ib j0 = 0))
    (env : Nat → Nat) (n : Nat) : trace lvl f env n = trace lvl g env n := by
  rw [trace_abs, trace_abs]
  exact run_split hs hstart env n

end Rpft.Flow
