/-
Helper lemmas for the row parser model (C07 / C09): association lists, header names,
the plumbing of `parseRow` for schemas without header remapping.
-/
import Rpft.RowUnparse
import Rpft.RowSpec
import Rpft.Lemmas.Codec
import Rpft.Lemmas.Cell
set_option linter.unusedSimpArgs false
set_option linter.unusedVariables false
namespace Rpft.Row
open Rpft

/-! ### association lists -/

theorem alookup_append {α : Type} (k : Str) (xs ys : List (Str × α)) :
    alookup k (xs ++ ys) = (alookup k xs).orElse (fun _ => alookup k ys) := by
  induction xs with
  | nil => simp [alookup]
  | cons x xs ih =>
    obtain ⟨k', v⟩ := x
    simp only [List.cons_append, alookup]
    split <;> simp [ih]

theorem aset_of_absent {α : Type} (k : Str) (v : α) (xs : List (Str × α))
    (h : alookup k xs = none) : aset k v xs = xs ++ [(k, v)] := by
  induction xs with
  | nil => rfl
  | cons x xs ih =>
    obtain ⟨k', v'⟩ := x
    simp only [alookup] at h
    split at h
    · simp at h
    · rename_i hne
      simp [aset, hne, ih h]

theorem aset_last {α : Type} (k : Str) (v w : α) (xs : List (Str × α))
    (h : alookup k xs = none) : aset k w (xs ++ [(k, v)]) = xs ++ [(k, w)] := by
  induction xs with
  | nil => simp [aset]
  | cons x xs ih =>
    obtain ⟨k', v'⟩ := x
    simp only [alookup] at h
    split at h
    · simp at h
    · rename_i hne
      simp [aset, hne, ih h]

theorem alookup_none_iff {α : Type} (k : Str) (xs : List (Str × α)) :
    alookup k xs = none ↔ k ∉ xs.map Prod.fst := by
  induction xs with
  | nil => simp [alookup]
  | cons x xs ih =>
    obtain ⟨k', v'⟩ := x
    simp only [alookup, List.map_cons, List.mem_cons, not_or]
    split
    · rename_i h; simp [h]
    · rename_i h
      rw [ih]
      constructor
      · intro hm; exact ⟨fun e => h e.symm, hm⟩
      · intro hm; exact hm.2

/-! ### header names -/

/-- a (dotted) header: like a segment, but `.` allowed -/
def keyChar (c : Char) : Bool := c != ':' && c != '=' && c != '*' && !pyWs c

theorem okChar_keyChar {c : Char} (h : okChar c = true) : keyChar c = true := by
  simp [okChar, keyChar] at h ⊢
  obtain ⟨⟨⟨⟨⟨h1, h2⟩, h3⟩, h4⟩, h5⟩, h6⟩ := h
  exact ⟨⟨⟨h2, h3⟩, h4⟩, h5⟩

theorem takeWhile_all {α : Type} (p : α → Bool) : ∀ (l : List α), (∀ x ∈ l, p x = true) → l.takeWhile p = l
  | [], _ => rfl
  | x :: l, h => by
    simp [List.takeWhile, h x (by simp), takeWhile_all p l (fun y hy => h y (List.mem_cons_of_mem _ hy))]

theorem getFieldName_key (k : Str) (h : ∀ c ∈ k, keyChar c = true) : getFieldName k = k := by
  unfold getFieldName
  have h1 : k.takeWhile (· ≠ ':') = k := by
    apply takeWhile_all
    intro c hc
    have := h c hc
    simp [keyChar] at this
    simp [this.1.1.1]
  have h2 : k.takeWhile (· ≠ '=') = k := by
    apply takeWhile_all
    intro c hc
    have := h c hc
    simp [keyChar] at this
    simp [this.1.1.2]
  rw [h1, h2]
  apply strip_of_no_ws
  intro c hc
  have := h c hc
  simp [keyChar] at this
  exact this.2

theorem splitDot_ne_nil : ∀ s : Str, splitDot s ≠ []
  | [] => by simp [splitDot]
  | c :: rest => by
    unfold splitDot
    cases h : splitDot rest with
    | nil => simp
    | cons p ps => simp only; split <;> simp

theorem splitDot_simple : ∀ (n : Str), (∀ c ∈ n, c ≠ '.') → splitDot n = [n]
  | [], _ => rfl
  | c :: rest, h => by
    have ih := splitDot_simple rest (fun x hx => h x (List.mem_cons_of_mem _ hx))
    have hc : c ≠ '.' := h c (by simp)
    simp [splitDot, ih, hc]

theorem splitDot_append : ∀ (a b : Str), (∀ c ∈ a, c ≠ '.') →
    splitDot (a ++ '.' :: b) = a :: splitDot b
  | [], b, _ => by
    cases h : splitDot b with
    | nil => exact absurd h (splitDot_ne_nil b)
    | cons p ps => simp [splitDot, h]
  | c :: rest, b, h => by
    have ih := splitDot_append rest b (fun x hx => h x (List.mem_cons_of_mem _ hx))
    have hc : c ≠ '.' := h c (by simp)
    simp only [List.cons_append, splitDot, ih, hc, if_false]

theorem simpleName_no_dot {n : Str} (h : simpleName n = true) : ∀ c ∈ n, c ≠ '.' := by
  intro c hc
  simp [simpleName, okChar] at h
  exact (h.2 c hc).1.1.1.1.1

theorem simpleName_keyChar {n : Str} (h : simpleName n = true) : ∀ c ∈ n, keyChar c = true := by
  intro c hc
  simp only [simpleName, Bool.and_eq_true, List.all_eq_true] at h
  exact okChar_keyChar (h.2 c hc)

theorem simpleName_no_star {n : Str} (h : simpleName n = true) : hasStar n = false := by
  simp only [simpleName, Bool.and_eq_true, List.all_eq_true] at h
  simp only [hasStar, List.contains_eq_mem, decide_eq_false_iff_not]
  intro hm
  have := h.2 _ hm
  simp [okChar] at this

/-! ### `foldE`, `mapE` -/

theorem foldE_append {α σ : Type} (f : σ → α → Except Err σ) (s : σ) (xs ys : List α) :
    foldE f s (xs ++ ys) = (match foldE f s xs with
      | .error e => .error e
      | .ok s' => foldE f s' ys) := by
  induction xs generalizing s with
  | nil => simp [foldE]
  | cons x xs ih =>
    simp only [List.cons_append, foldE]
    cases f s x with
    | error e => rfl
    | ok s' => exact ih s'

/-! ### plumbing of `parseRow` for a schema without context remap -/

theorem ctxRemap_plain (sch : Schema) (hb : sch.ctxBasic = []) (hm : sch.ctxMain = none)
    (all : List (Str × Str)) (k : Str) : ctxRemap sch all k = .ok k := by
  simp [ctxRemap, hb, hm, alookup]

theorem rekey_plain_aux : ∀ (data acc : List (Str × Str)),
      ((acc ++ data).map Prod.fst).Nodup →
      foldE (fun acc (kv : Str × Str) => (Except.ok (aset kv.1 kv.2 acc) : Except Err _)) acc data
        = .ok (acc ++ data)
  | [], acc, _ => by simp [foldE]
  | (k, v) :: rest, acc, hnd => by
    have hk : alookup k acc = none := by
      rw [alookup_none_iff]
      intro hmem
      simp only [List.map_append, List.map_cons] at hnd
      have := List.nodup_append.mp hnd
      exact this.2.2 k hmem k (by simp) rfl
    simp only [foldE]
    rw [aset_of_absent k v acc hk]
    have := rekey_plain_aux rest (acc ++ [(k, v)]) (by simpa using hnd)
    simpa using this

theorem foldE_congr {α σ : Type} {f g : σ → α → Except Err σ} (h : ∀ s a, f s a = g s a) :
    ∀ (s : σ) (xs : List α), foldE f s xs = foldE g s xs
  | _, [] => rfl
  | s, x :: xs => by
    simp only [foldE, h]
    cases g s x with
    | error e => rfl
    | ok s' => exact foldE_congr h s' xs

theorem rekey_plain (sch : Schema) (hb : sch.ctxBasic = []) (hm : sch.ctxMain = none)
    (data : List (Str × Str)) (hnd : (data.map Prod.fst).Nodup) : rekey sch data = .ok data := by
  unfold rekey
  rw [foldE_congr (g := fun acc (kv : Str × Str) => (Except.ok (aset kv.1 kv.2 acc) : Except Err _))
    (by intro acc kv; simp [rekeyStep, ctxRemap_plain sch hb hm])]
  rw [rekey_plain_aux data [] (by simpa using hnd)]
  rfl

theorem preParse_plain : ∀ (data : List (Str × Str)), (∀ kv ∈ data, hasStar kv.1 = false) →
    preParse data = .ok (data.map fun kv => (kv.1, Sum.inl kv.2))
  | [], _ => rfl
  | kv :: rest, h => by
    have ih := preParse_plain rest (fun x hx => h x (List.mem_cons_of_mem _ hx))
    unfold preParse at ih ⊢
    simp [mapE, h kv (by simp), ih]

theorem expandAll_plain_aux (all : List (Str × ColVal)) : ∀ (cols : List (Str × Str)),
    (cols.map fun kv => (kv.1, (Sum.inl kv.2 : ColVal))).flatMap (expandCol all) =
      cols.map fun kv => (kv.1, Sum.inl kv.2)
  | [] => rfl
  | kv :: rest => by
    simp [List.flatMap_cons, expandCol, expandAll_plain_aux all rest]

theorem expandAll_plain (cols : List (Str × Str)) :
    expandAll (cols.map fun kv => (kv.1, (Sum.inl kv.2 : ColVal))) =
      cols.map fun kv => (kv.1, Sum.inl kv.2) := by
  unfold expandAll
  exact expandAll_plain_aux _ cols

theorem rowEntries_plain (sch : Schema) (hb : sch.ctxBasic = []) (hm : sch.ctxMain = none)
    (data : List (Str × Str)) (hnd : (data.map Prod.fst).Nodup)
    (hs : ∀ kv ∈ data, hasStar kv.1 = false) :
    rowEntries sch data = .ok (data.map fun kv => (kv.1, Sum.inl kv.2)) := by
  unfold rowEntries
  rw [rekey_plain sch hb hm data hnd]
  simp only
  rw [preParse_plain data hs]
  simp only
  rw [expandAll_plain]

/-! ### round trip of a record, field by field -/

theorem headSeg_simple {n : Str} (h : simpleName n = true) : headSeg n = n := by
  unfold headSeg
  apply takeWhile_all
  intro c hc
  simpa using simpleName_no_dot h c hc

theorem headSeg_dotted {n : Str} (h : simpleName n = true) (r : Str) : headSeg (n ++ '.' :: r) = n := by
  unfold headSeg
  have hn := simpleName_no_dot h
  clear h
  induction n with
  | nil => simp [List.takeWhile]
  | cons c t ih =>
    have hc : c ≠ '.' := hn c (by simp)
    have ih' := ih (fun x hx => hn x (List.mem_cons_of_mem _ hx))
    simp only [List.cons_append, List.takeWhile, hc, ne_eq, not_false_eq_true, decide_true, ih']

abbrev plainTop (fs : List Field) : Ty := .model fs [] []
abbrev inl (cols : List (Str × Str)) : List (Str × ColVal) := cols.map fun kv => (kv.1, Sum.inl kv.2)

/-- Round trip of ONE top-level field `n : ty` holding the non-default value `v`:
`unparse` appends columns `cols` whose headers all start with the segment `n`; parsing them
into a tree that has no entry `n` yet adds exactly one entry `n ↦ tr`; `tr` validates to `v`. -/
def FieldRT (lay : Layout) (fs : List Field) (n : Str) (ty : Ty) (v : Val) : Prop :=
  ∃ (cols : List (Str × Str)) (tr : Tree),
    (∀ out : Out, (∀ kv ∈ out, headSeg kv.1 ≠ n) →
      unparseRec lay ty v ('.' :: n) out = .ok (out ++ cols)) ∧
    (∀ kv ∈ cols, headSeg kv.1 = n ∧ ∀ c ∈ kv.1, keyChar c = true) ∧
    (cols.map Prod.fst).Nodup ∧
    (∀ kvs, alookup n kvs = none →
      foldE (parseEntry (plainTop fs)) (.dict kvs) (inl cols) = .ok (.dict (kvs ++ [(n, tr)]))) ∧
    validate ty tr = .ok v ∧ tr.isNone = false

theorem remap_nil (n : Str) : remap [] n = n := by simp [remap, alookup]

theorem matchesHeaders_nil (pfx : Str) : matchesHeaders pfx [] = false := by
  simp [matchesHeaders]

/-- what `rec_fields` delivers for a list of (field, value) pairs -/
def RecSpec (lay : Layout) (fs : List Field) (kvsVal : List (Str × Val))
    (pairs : List (Field × Val)) (cols : List (Str × Str)) (trs : List (Str × Tree)) : Prop :=
  (∀ out : Out, (∀ kv ∈ out, headSeg kv.1 ∉ pairs.map (·.1.1)) →
      unparseFields lay [] [] (pairs.map (·.1)) kvsVal out = .ok (out ++ cols)) ∧
  (∀ kv ∈ cols, headSeg kv.1 ∈ pairs.map (·.1.1) ∧ ∀ c ∈ kv.1, keyChar c = true) ∧
  (cols.map Prod.fst).Nodup ∧
  (∀ kvs, (∀ p ∈ pairs, alookup p.1.1 kvs = none) →
      foldE (parseEntry (plainTop fs)) (.dict kvs) (inl cols) = .ok (.dict (kvs ++ trs))) ∧
  (∀ kv ∈ trs, kv.1 ∈ pairs.map (·.1.1) ∧ kv.2.isNone = false) ∧
  (∀ p ∈ pairs, (alookup p.1.1 trs = none ∧ p.1.2.2 = some p.2) ∨
      (∃ tr, alookup p.1.1 trs = some tr ∧ validate p.1.2.1 tr = .ok p.2))

theorem rec_fields (lay : Layout) (fs : List Field) (kvsVal : List (Str × Val)) :
    ∀ (pairs : List (Field × Val)),
      (pairs.map (·.1.1)).Nodup →
      (∀ p ∈ pairs, alookup p.1.1 kvsVal = some p.2 ∧
        (isDefault p.1.2.2 p.2 = false → FieldRT lay fs p.1.1 p.1.2.1 p.2)) →
      ∃ cols trs, RecSpec lay fs kvsVal pairs cols trs
  | [], _, _ => by
    refine ⟨[], [], ?_, ?_, ?_, ?_, ?_, ?_⟩
    · intro out _; simp [unparseFields]
    · intro kv h; simp at h
    · simp
    · intro kvs _; simp [inl, foldE]
    · intro kv h; simp at h
    · intro p h; simp at h
  | ((n, ty, d), v) :: rest, hnd, hp => by
    have hnd' : (rest.map (·.1.1)).Nodup := (List.nodup_cons.mp hnd).2
    have hn_notin : n ∉ rest.map (·.1.1) := (List.nodup_cons.mp hnd).1
    obtain ⟨cols', trs', hU', hK', hN', hP', hT', hV'⟩ :=
      rec_fields lay fs kvsVal rest hnd' (fun p hp' => hp p (List.mem_cons_of_mem _ hp'))
    obtain ⟨hlook, hrt⟩ := hp ((n, ty, d), v) (by simp)
    have hlook_trs' : alookup n trs' = none := by
      rw [alookup_none_iff]
      intro hm
      obtain ⟨kv, hkv, hkn⟩ := List.mem_map.mp hm
      exact hn_notin (hkn ▸ (hT' kv hkv).1)
    cases hdef : isDefault d v with
    | true =>
      refine ⟨cols', trs', ?_, ?_, hN', ?_, ?_, ?_⟩
      · intro out hout
        simp only [List.map_cons, unparseFields, hlook, hdef, if_true]
        exact hU' out (fun kv hkv hm => hout kv hkv (List.mem_cons_of_mem _ hm))
      · intro kv hkv
        exact ⟨List.mem_cons_of_mem _ (hK' kv hkv).1, (hK' kv hkv).2⟩
      · intro kvs hk
        exact hP' kvs (fun p hp' => hk p (List.mem_cons_of_mem _ hp'))
      · intro kv hkv
        exact ⟨List.mem_cons_of_mem _ (hT' kv hkv).1, (hT' kv hkv).2⟩
      · intro p hp'
        simp only [List.mem_cons] at hp'
        rcases hp' with rfl | hp'
        · left
          refine ⟨hlook_trs', ?_⟩
          simpa [isDefault] using hdef
        · exact hV' p hp'
    | false =>
      obtain ⟨colsP, tr, hU, hK, hN, hP, hVal, hNone⟩ := hrt hdef
      refine ⟨colsP ++ cols', (n, tr) :: trs', ?_, ?_, ?_, ?_, ?_, ?_⟩
      · intro out hout
        simp only [List.map_cons, unparseFields, hlook, hdef, remap_nil, if_true,
          List.nil_append, Bool.false_eq_true, if_false]
        rw [hU out (fun kv hkv e => hout kv hkv (by simp [e]))]
        simp only
        rw [hU' (out ++ colsP)]
        · simp
        · intro kv hkv hm
          rcases List.mem_append.mp hkv with h | h
          · exact hout kv h (List.mem_cons_of_mem _ hm)
          · rw [(hK kv h).1] at hm; exact hn_notin hm
      · intro kv hkv
        rcases List.mem_append.mp hkv with h | h
        · exact ⟨by simp [(hK kv h).1], (hK kv h).2⟩
        · exact ⟨List.mem_cons_of_mem _ (hK' kv h).1, (hK' kv h).2⟩
      · rw [List.map_append]
        refine List.nodup_append.mpr ⟨hN, hN', ?_⟩
        intro a ha b hb hab
        obtain ⟨kv, hkv, rfl⟩ := List.mem_map.mp ha
        obtain ⟨kv', hkv', rfl⟩ := List.mem_map.mp hb
        have h1 := (hK kv hkv).1
        have h2 := (hK' kv' hkv').1
        rw [← hab, h1] at h2
        exact hn_notin h2
      · intro kvs hk
        have hkn : alookup n kvs = none := hk ((n, ty, d), v) (by simp)
        simp only [inl, List.map_append]
        rw [foldE_append]
        have := hP kvs hkn
        simp only [inl] at this
        rw [this]
        simp only
        have h2 := hP' (kvs ++ [(n, tr)]) (by
          intro p hp'
          rw [alookup_append, hk p (List.mem_cons_of_mem _ hp')]
          have hne : n ≠ p.1.1 := fun e => hn_notin (e ▸ List.mem_map_of_mem (f := fun q : Field × Val => q.1.1) hp')
          simp [alookup, hne])
        simp only [inl] at h2
        rw [h2]
        simp
      · intro kv hkv
        simp only [List.mem_cons] at hkv
        rcases hkv with rfl | hkv
        · exact ⟨by simp, hNone⟩
        · exact ⟨List.mem_cons_of_mem _ (hT' kv hkv).1, (hT' kv hkv).2⟩
      · intro p hp'
        simp only [List.mem_cons] at hp'
        rcases hp' with rfl | hp'
        · right
          exact ⟨tr, by simp [alookup], hVal⟩
        · have hne : n ≠ p.1.1 := fun e => hn_notin (e ▸ List.mem_map_of_mem (f := fun q : Field × Val => q.1.1) hp')
          simpa [alookup, hne] using hV' p hp'

theorem validateFields_of_spec (trs : List (Str × Tree)) :
    ∀ (fs : List Field) (kvsVal : List (Str × Val)),
      kvsVal.map Prod.fst = fs.map (·.1) →
      (∀ p ∈ fs.zip (kvsVal.map Prod.snd),
        (alookup p.1.1 trs = none ∧ p.1.2.2 = some p.2) ∨
        (∃ tr, alookup p.1.1 trs = some tr ∧ validate p.1.2.1 tr = .ok p.2)) →
      validateFields fs trs = .ok kvsVal
  | [], [], _, _ => rfl
  | [], _ :: _, h, _ => by simp at h
  | _ :: _, [], h, _ => by simp at h
  | (n, ty, d) :: fs, (k, v) :: kvs, hn, hp => by
    simp only [List.map_cons, List.cons.injEq] at hn
    obtain ⟨rfl, hn'⟩ := hn
    have ih := validateFields_of_spec trs fs kvs hn'
      (fun p hp' => hp p (by simp only [List.map_cons, List.zip_cons_cons]; exact List.mem_cons_of_mem _ hp'))
    have h0 := hp ((k, ty, d), v) (by simp)
    simp only [validateFields]
    rcases h0 with ⟨h1, h2⟩ | ⟨tr, h1, h2⟩
    · simp only at h1 h2
      simp [h1, h2, ih]
    · simp only at h1 h2
      simp [h1, h2, ih]

theorem alookup_zip : ∀ (fs : List Field) (kvsVal : List (Str × Val)),
    kvsVal.map Prod.fst = fs.map (·.1) → (fs.map (·.1)).Nodup →
    ∀ p ∈ fs.zip (kvsVal.map Prod.snd), alookup p.1.1 kvsVal = some p.2
  | [], [], _, _ => by intro p hp; simp at hp
  | [], _ :: _, h, _ => by simp at h
  | _ :: _, [], h, _ => by simp at h
  | (n, ty, d) :: fs, (k, v) :: kvs, hn, hnd => by
    simp only [List.map_cons, List.cons.injEq] at hn
    obtain ⟨rfl, hn'⟩ := hn
    simp only [List.map_cons, List.nodup_cons] at hnd
    intro p hp
    simp only [List.map_cons, List.zip_cons_cons, List.mem_cons] at hp
    rcases hp with rfl | hp
    · simp [alookup]
    · have ih := alookup_zip fs kvs hn' hnd.2 p hp
      have hmem : p.1.1 ∈ fs.map (·.1) := by
        have := (List.of_mem_zip hp).1
        exact List.mem_map_of_mem (f := fun f : Field => f.1) this
      have hne : k ≠ p.1.1 := fun e => hnd.1 (e ▸ hmem)
      simp [alookup, hne, ih]

theorem zip_map_fst : ∀ (fs : List Field) (vs : List Val), fs.length = vs.length →
    (fs.zip vs).map (·.1) = fs
  | [], [], _ => rfl
  | [], _ :: _, h => by simp at h
  | _ :: _, [], h => by simp at h
  | f :: fs, v :: vs, h => by
    simp only [List.length_cons, Nat.add_right_cancel_iff] at h
    simp [zip_map_fst fs vs h]

theorem dropNone_of_all (trs : List (Str × Tree)) (h : ∀ kv ∈ trs, kv.2.isNone = false) :
    dropNone trs = trs := by
  unfold dropNone
  apply List.filter_eq_self.mpr
  intro kv hkv
  simp [h kv hkv]

theorem hasStar_of_keyChar {k : Str} (h : ∀ c ∈ k, keyChar c = true) : hasStar k = false := by
  simp only [hasStar, List.contains_eq_mem, decide_eq_false_iff_not]
  intro hm
  have := h _ hm
  simp [keyChar] at this

/-- **Record round trip from field round trips**: a row model without header remaps whose
field names are distinct header segments survives `unparse` → `parse` as soon as every
non-default field does (`FieldRT`); fields equal to their default are elided and restored
by default filling. -/
theorem parse_unparse_of_fields (lay : Layout) (fs : List Field) (kvsVal : List (Str × Val))
    (hnames : kvsVal.map Prod.fst = fs.map (·.1)) (hnd : (fs.map (·.1)).Nodup)
    (hrt : ∀ p ∈ fs.zip (kvsVal.map Prod.snd),
      isDefault p.1.2.2 p.2 = false → FieldRT lay fs p.1.1 p.1.2.1 p.2) :
    ∃ cells, unparseRow { top := plainTop fs } lay (.model kvsVal) = .ok cells ∧
      parseRow { top := plainTop fs } cells = .ok (.model kvsVal) := by
  let pairs := fs.zip (kvsVal.map Prod.snd)
  have hlen : fs.length = (kvsVal.map Prod.snd).length := by
    have := congrArg List.length hnames
    simpa using this.symm
  have hfst : pairs.map (·.1) = fs := zip_map_fst fs _ hlen
  have hnm : pairs.map (·.1.1) = fs.map (·.1) := by
    conv => rhs; rw [← hfst]
    simp [List.map_map]
  obtain ⟨cols, trs, hU, hK, hN, hP, hT, hV⟩ := rec_fields lay fs kvsVal pairs (by rw [hnm]; exact hnd)
    (fun p hp => ⟨alookup_zip fs kvsVal hnames hnd p hp, hrt p hp⟩)
  refine ⟨cols, ?_, ?_⟩
  · have := hU [] (by intro kv h; simp at h)
    rw [hfst] at this
    simp only [List.nil_append] at this
    simp [unparseRow, unparseRec, matchesHeaders, isBasicVal, this]
  · unfold parseRow
    rw [rowEntries_plain _ rfl rfl cols hN (fun kv hkv => hasStar_of_keyChar (hK kv hkv).2)]
    simp only [buildTree]
    have := hP [] (by intro p hp; rfl)
    simp only [inl, List.nil_append] at this
    rw [this]
    simp only [finish, dropNone_of_all trs (fun kv hkv => (hT kv hkv).2), validate]
    rw [validateFields_of_spec trs fs kvsVal hnames hV]

/-! ### fields written as one cell -/

theorem alookup_none_of_headSeg {n : Str} (hn : simpleName n = true) (out : Out)
    (h : ∀ kv ∈ out, headSeg kv.1 ≠ n) : alookup n out = none := by
  rw [alookup_none_iff]
  intro hm
  obtain ⟨kv, hkv, hk⟩ := List.mem_map.mp hm
  exact h kv hkv (by rw [hk]; exact headSeg_simple hn)

theorem writeOut_field {n : Str} (hn : simpleName n = true) (text : Str) (out : Out)
    (h : ∀ kv ∈ out, headSeg kv.1 ≠ n) :
    writeOut ('.' :: n) text out = .ok (out ++ [(n, text)]) := by
  simp [writeOut, trimPrefix, alookup_none_of_headSeg hn out h]

/-- `parse_entry` for a column named after a top-level field, whose cell assigns `tr` -/
theorem parseEntry_top_single {fs : List Field} {n : Str} {ty : Ty} {d : Option Val}
    (hn : simpleName n = true) (hf : fieldLookup n fs = some (n, ty, d))
    (kvs : List (Str × Tree)) (hk : alookup n kvs = none) (text : Str) (pv : PV) (tr : Tree)
    (hl : leafValue (Sum.inl text) ty = .ok pv) (ha : assignValue ty pv = .ok (some tr)) :
    parseEntry (plainTop fs) (.dict kvs) (n, Sum.inl text) = .ok (.dict (kvs ++ [(n, tr)])) := by
  unfold parseEntry
  simp only [getFieldName_key n (simpleName_keyChar hn), splitDot_simple n (simpleName_no_dot hn)]
  simp only [findSet, isListTy, Bool.false_eq_true, if_false, remap_nil, hf, hk, leafFn, hl, ha,
    ensureKey, leafDict]
  rw [aset_of_absent n Tree.none kvs hk, aset_last n Tree.none tr kvs hk]

theorem fieldRT_single {lay : Layout} {fs : List Field} {n : Str} {ty : Ty} {d : Option Val}
    {v : Val} (hn : simpleName n = true) (hf : fieldLookup n fs = some (n, ty, d))
    (text : Str) (pv : PV) (tr : Tree)
    (hu : ∀ out, unparseRec lay ty v ('.' :: n) out = writeOut ('.' :: n) text out)
    (hl : leafValue (Sum.inl text) ty = .ok pv) (ha : assignValue ty pv = .ok (some tr))
    (hv : validate ty tr = .ok v) (hnone : tr.isNone = false) :
    FieldRT lay fs n ty v := by
  refine ⟨[(n, text)], tr, ?_, ?_, by simp, ?_, hv, hnone⟩
  · intro out hout
    rw [hu out, writeOut_field hn text out hout]
  · intro kv hkv
    simp only [List.mem_singleton] at hkv
    subst hkv
    exact ⟨headSeg_simple hn, simpleName_keyChar hn⟩
  · intro kvs hk
    simp only [inl, List.map_cons, List.map_nil, foldE]
    rw [parseEntry_top_single hn hf kvs hk text pv tr hl ha]

/-! ### basic fields -/

theorem strOk_spec {s : Str} (h : strOk s = true) :
    strip pyWs s = s ∧ s.contains '{' = false ∧ True := by
  simp only [strOk, Bool.and_eq_true, beq_iff_eq, Bool.not_eq_true'] at h
  exact ⟨h.1, h.2, trivial⟩

theorem parseAsString_ok {s : Str} (h1 : strip pyWs s = s) (h2 : s.contains '{' = false) :
    parseAsString s = .ok s := by
  unfold parseAsString
  simp only [h1, h2]
  rfl

theorem bool_facts :
    strip pyWs pyFalse = pyFalse ∧ strip pyWs pyTrue = pyTrue ∧
    pyFalse.contains '{' = false ∧ pyTrue.contains '{' = false ∧
    strToBool pyFalse = false ∧ strToBool pyTrue = true ∧ pyFalse ≠ [] ∧ pyTrue ≠ [] := by decide

theorem printInt_no_ws (i : Int) : ∀ c ∈ printInt i, pyWs c = false := by
  intro c hc
  rcases printInt_chars i c hc with rfl | ⟨d, hd, rfl⟩
  · decide
  · exact digitChar_not_ws d hd

theorem printInt_no_brace (i : Int) : (printInt i).contains '{' = false := by
  simp only [List.contains_eq_mem, decide_eq_false_iff_not]
  intro hm
  rcases printInt_chars i _ hm with h | ⟨d, hd, h⟩
  · exact absurd h (by decide)
  · exact (digitChar_ne d hd).2.2.2.1 h.symm

theorem unparseRec_basic {lay : Layout} (he : lay.excluded = []) (ty : Ty) (v : Val)
    (hb : isBasicVal v = true) (pfx : Str) (out : Out) :
    unparseRec lay ty v pfx out = writeOut pfx (printBasic v) out := by
  unfold unparseRec
  simp [he, matchesHeaders_nil, hb, writeValue]

theorem fieldRT_basic {lay : Layout} {fs : List Field} {n : Str} {ty : Ty} {d : Option Val}
    {v : Val} (hn : simpleName n = true) (hf : fieldLookup n fs = some (n, ty, d))
    (he : lay.excluded = []) (hb : isBasicTy ty = true) (hr : reprOk false ty v = true) :
    FieldRT lay fs n ty v := by
  cases ty <;> simp [isBasicTy] at hb <;> cases v <;> simp [reprOk] at hr
  case str.str s =>
    obtain ⟨h1, h2, _⟩ := strOk_spec hr
    exact fieldRT_single hn hf s (.atom s) (.str s)
      (fun out => unparseRec_basic he _ _ rfl _ out)
      (by simp [leafValue, isListTy, isModelTy, parseAsString_ok h1 h2])
      (by simp [assignValue, assignStr]) (by simp [validate]) rfl
  case int.int i =>
    have h1 := strip_of_no_ws _ (printInt_no_ws i)
    exact fieldRT_single hn hf (printInt i) (.atom (printInt i)) (.int i)
      (fun out => unparseRec_basic he _ _ rfl _ out)
      (by simp [leafValue, isListTy, isModelTy, parseAsString_ok h1 (printInt_no_brace i)])
      (by simp [assignValue, assignInt, pyInt_printInt]) (by simp [validate]) rfl
  case float.float s =>
    simp only [floatOk, Bool.and_eq_true] at hr
    obtain ⟨h1, h2, _⟩ := strOk_spec hr.2
    exact fieldRT_single hn hf s (.atom s) (.float s)
      (fun out => unparseRec_basic he _ _ rfl _ out)
      (by simp [leafValue, isListTy, isModelTy, parseAsString_ok h1 h2])
      (by simp [assignValue, assignFloat, h1, hr.1]) (by simp [validate]) rfl
  case bool.bool b =>
    obtain ⟨f1, f2, f3, f4, f5, f6, f7, f8⟩ := bool_facts
    cases b
    · exact fieldRT_single hn hf pyFalse (.atom pyFalse) (.bool false)
        (fun out => unparseRec_basic he _ _ rfl _ out)
        (by simp [leafValue, isListTy, isModelTy, parseAsString_ok f1 f3])
        (by simp [assignValue, assignBool, f1, f5, f7]) (by simp [validate]) rfl
    · exact fieldRT_single hn hf pyTrue (.atom pyTrue) (.bool true)
        (fun out => unparseRec_basic he _ _ rfl _ out)
        (by simp [leafValue, isListTy, isModelTy, parseAsString_ok f2 f4])
        (by simp [assignValue, assignBool, f2, f6, f8]) (by simp [validate]) rfl

theorem fieldLookup_mem : ∀ (fs : List Field), (fs.map (·.1)).Nodup →
    ∀ f ∈ fs, fieldLookup f.1 fs = some f
  | [], _, f, h => by simp at h
  | g :: fs, hnd, f, h => by
    simp only [List.map_cons, List.nodup_cons] at hnd
    simp only [List.mem_cons] at h
    rcases h with rfl | h
    · simp [fieldLookup]
    · have hne : g.1 ≠ f.1 := fun e => hnd.1 (e ▸ List.mem_map_of_mem (f := fun f : Field => f.1) h)
      simp [fieldLookup, hne, fieldLookup_mem fs hnd.2 f h]

theorem reprFields_mem (deep : Bool) (kvs : List (Str × Val)) :
    ∀ (fs : List Field), reprFields deep fs kvs = true → ∀ f ∈ fs, ∃ x, alookup f.1 kvs = some x ∧
      (isDefault f.2.2 x = true ∨ (fieldOk deep f.2.1 x = true ∧ reprOk false f.2.1 x = true))
  | [], _, f, h => by simp at h
  | (n, t, d) :: fs, hr, f, h => by
    simp only [reprFields, Bool.and_eq_true] at hr
    simp only [List.mem_cons] at h
    rcases h with rfl | h
    · cases hl : alookup n kvs with
      | none => simp [hl] at hr
      | some x =>
        refine ⟨x, rfl, ?_⟩
        have := hr.1
        simp only [hl, Bool.or_eq_true, Bool.and_eq_true] at this
        exact this
    · exact reprFields_mem deep kvs fs hr.2 f h

end Rpft.Row
