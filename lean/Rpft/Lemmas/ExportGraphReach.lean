/-
Helper lemmas for C04 (graph level): REACHABILITY and ERRORS.  The nodes a successful export
completes are exactly the nodes reachable from the first node (`Reach`); the export fails exactly
when a reachable node has no row model or a reachable exit names a uuid that is no node of the flow.
-/
import Rpft.Lemmas.ExportGraphInv
set_option linter.unusedSimpArgs false
set_option linter.unusedVariables false
set_option linter.unusedSectionVars false
namespace Rpft.Export
open Function

variable {U : Type} [DecidableEq U]

/-- reachable from the first node of the flow, following exits through `find_node` -/
inductive Reach (f : FlowX U) : NodeX U → Prop
  | start {n0 : NodeX U} : f.head? = some n0 → Reach f n0
  | step {n c : NodeX U} {lab : Label} {d : U} : Reach f n → (lab, some d) ∈ n.edges → findNode f d = some c → Reach f c

theorem Reach.canon {f : FlowX U} {n : NodeX U} (h : Reach f n) : Canon f n := by
  cases h with
  | start h0 =>
    cases f with
    | nil => cases h0
    | cons a f => simp only [List.head?_cons, Option.some.injEq] at h0; subst h0; exact canon_head _ _
  | step _ _ hf => exact findNode_canon hf

/-! ### soundness: only reachable nodes are completed -/

def TaskReach (f : FlowX U) : Task U → Prop
  | .loop n es => Reach f n ∧ ∀ x ∈ es, x ∈ n.edges
  | .node n _ => Reach f n

theorem run_reach (f : FlowX U) (D : List (Item U) → NodeX U → NodeX U → Label → Prop)
    {task : Task U} {vis : List U} {items : List (Item U)} {vis' : List U} {items' : List (Item U)}
    (h : Run f D task vis items vis' items') :
    TaskReach f task → (∀ m ∈ blockNodes items, Reach f m) → ∀ m ∈ blockNodes items', Reach f m := by
  induction h with
  | nil => intro _ h0; exact h0
  | skip _ ih =>
    intro ht h0
    exact ih ⟨ht.1, fun x hx => ht.2 x (List.mem_cons_of_mem _ hx)⟩ h0
  | done hfn hc hD _ ih =>
    intro ht h0
    exact ih ⟨ht.1, fun x hx => ht.2 x (List.mem_cons_of_mem _ hx)⟩ (by rw [blockNodes_map_prepend]; exact h0)
  | back hfn hc hv _ ih =>
    intro ht h0
    exact ih ⟨ht.1, fun x hx => ht.2 x (List.mem_cons_of_mem _ hx)⟩ (by rw [blockNodes_cons_goto]; exact h0)
  | new hfn hc hv _ _ ih1 ih2 =>
    intro ht h0
    have hrc := Reach.step ht.1 (ht.2 _ (List.mem_cons_self ..)) hfn
    exact ih2 ⟨ht.1, fun x hx => ht.2 x (List.mem_cons_of_mem _ hx)⟩ (ih1 hrc h0)
  | @node n pe vis items vis' items' hr _ ih =>
    intro ht h0 m hm
    rw [blockNodes_cons_block] at hm
    rcases List.mem_cons.1 hm with hm | hm
    · subst hm; exact ht
    · exact ih ⟨ht, fun x hx => List.mem_reverse.1 hx⟩ h0 m hm

/-! ### completeness: the completed set is closed under exits -/

/-- every connected exit of a completed node leads to a node of the flow that has been visited -/
def Closed (f : FlowX U) (vis : List U) (items : List (Item U)) : Prop :=
  ∀ m ∈ blockNodes items, ∀ lab d, (lab, some d) ∈ m.edges → ∃ c, findNode f d = some c ∧ c.uuid ∈ vis

def TaskPost (f : FlowX U) (vis' : List U) : Task U → Prop
  | .loop _ es => ∀ lab d, (lab, some d) ∈ es → ∃ c, findNode f d = some c ∧ c.uuid ∈ vis'
  | .node n _ => n.uuid ∈ vis'

theorem Closed.mono {f : FlowX U} {vis vis' : List U} {items : List (Item U)} (h : Closed f vis items)
    (hm : ∀ u ∈ vis, u ∈ vis') : Closed f vis' items := by
  intro m hmem lab d hd
  obtain ⟨c, h1, h2⟩ := h m hmem lab d hd
  exact ⟨c, h1, hm _ h2⟩

theorem run_closed (f : FlowX U) (D : List (Item U) → NodeX U → NodeX U → Label → Prop)
    {task : Task U} {vis : List U} {items : List (Item U)} {vis' : List U} {items' : List (Item U)}
    (h : Run f D task vis items vis' items') :
    Inv f vis items → TaskOk f vis task → Closed f vis items → Closed f vis' items' ∧ TaskPost f vis' task := by
  induction h with
  | nil => intro _ _ hc; exact ⟨hc, fun _ _ h => nomatch h⟩
  | skip _ ih =>
    intro hi ht hc
    obtain ⟨h1, h2⟩ := ih hi ht hc
    refine ⟨h1, ?_⟩
    intro lab d hm
    rcases List.mem_cons.1 hm with hm | hm
    · cases hm
    · exact h2 lab d hm
  | @done n lab d es c vis items vis' items' hfn hcm hD r ih =>
    intro hi ht hc
    obtain ⟨_, newN, hd⟩ := run_inv f D r (hi.prepend _ _) ht
    obtain ⟨h1, h2⟩ := ih (hi.prepend _ _) ht (by intro m hm; rw [blockNodes_map_prepend] at hm; exact hc m hm)
    refine ⟨h1, ?_⟩
    intro lab' d' hm
    rcases List.mem_cons.1 hm with hm | hm
    · cases hm
      exact ⟨c, hfn, hd.mono _ (hi.sub _ hcm)⟩
    · exact h2 lab' d' hm
  | @back n lab d es c k vis items vis' items' hfn hcm hv r ih =>
    intro hi ht hc
    have hi1 := hi.pushGoto k ⟨some (lastId n), lab⟩ (findNode_canon hfn) hcm hv
    obtain ⟨_, newN, hd⟩ := run_inv f D r hi1 ht
    obtain ⟨h1, h2⟩ := ih hi1 ht (by intro m hm; rw [blockNodes_cons_goto] at hm; exact hc m hm)
    refine ⟨h1, ?_⟩
    intro lab' d' hm
    rcases List.mem_cons.1 hm with hm | hm
    · cases hm
      exact ⟨c, hfn, hd.mono _ hv⟩
    · exact h2 lab' d' hm
  | @new n lab d es c vis items vis1 items1 vis' items' hfn hcm hv r1 r2 ih1 ih2 =>
    intro hi ht hc
    have hcc := findNode_canon hfn
    obtain ⟨hi1, new1, hd1⟩ := run_inv f D r1 hi ⟨hcc, hv⟩
    obtain ⟨_, new2, hd2⟩ := run_inv f D r2 hi1 ⟨ht.1, hd1.mono _ ht.2⟩
    obtain ⟨a1, a2⟩ := ih1 hi ⟨hcc, hv⟩ hc
    obtain ⟨h1, h2⟩ := ih2 hi1 ⟨ht.1, hd1.mono _ ht.2⟩ a1
    refine ⟨h1, ?_⟩
    intro lab' d' hm
    rcases List.mem_cons.1 hm with hm | hm
    · cases hm
      exact ⟨c, hfn, hd2.mono _ a2⟩
    · exact h2 lab' d' hm
  | @node n pe vis items vis' items' hr r ih =>
    intro hi ht hc
    obtain ⟨_, new2, hd2⟩ := run_inv f D r (hi.visit _) ⟨ht.1, List.mem_cons_self ..⟩
    obtain ⟨h1, h2⟩ := ih (hi.visit _) ⟨ht.1, List.mem_cons_self ..⟩ (hc.mono (fun u hu => List.mem_cons_of_mem _ hu))
    refine ⟨?_, hd2.mono _ (List.mem_cons_self ..)⟩
    intro m hm lab d hd
    rw [blockNodes_cons_block] at hm
    rcases List.mem_cons.1 hm with hm | hm
    · subst hm
      exact h2 lab d (List.mem_reverse.2 hd)
    · exact h1 m hm lab d hd

theorem run_node_head {f : FlowX U} {D : List (Item U) → NodeX U → NodeX U → Label → Prop} {n : NodeX U} {pe : EdgeT U}
    {vis vis' : List U} {items items' : List (Item U)} (h : Run f D (.node n pe) vis items vis' items') :
    ∃ rest, items' = .block n [pe] :: rest := by
  cases h
  exact ⟨_, rfl⟩

/-- a whole export: the completed nodes are exactly the reachable ones -/
theorem run_top_reach {n0 : NodeX U} {f : FlowX U} {D : List (Item U) → NodeX U → NodeX U → Label → Prop} {pe : EdgeT U}
    {vis' : List U} {items' : List (Item U)} (h : Run (n0 :: f) D (.node n0 pe) [] [] vis' items') :
    Inv (n0 :: f) vis' items' ∧ Closed (n0 :: f) vis' items' ∧ (∀ m, m ∈ blockNodes items' ↔ Reach (n0 :: f) m) := by
  have ht : TaskOk (n0 :: f) [] (.node n0 pe) := ⟨canon_head n0 f, by simp⟩
  obtain ⟨hi', newN, hd⟩ := run_inv _ D h (inv_nil _) ht
  obtain ⟨hc', _⟩ := run_closed _ D h (inv_nil _) ht (fun m hm => by simp [blockNodes] at hm)
  refine ⟨hi', hc', ?_⟩
  intro m
  constructor
  · exact run_reach _ D h (Reach.start rfl) (fun m hm => by simp [blockNodes] at hm) m
  · intro hr
    have hnew : newN = blockNodes items' := by simpa [blockNodes] using hd.nodes.symm
    induction hr with
    | start h0 =>
      simp only [List.head?_cons, Option.some.injEq] at h0
      subst h0
      obtain ⟨rest, hrest⟩ := run_node_head h
      rw [hrest, blockNodes_cons_block]
      exact List.mem_cons_self ..
    | @step n c lab d _ hmem hfn ih =>
      obtain ⟨c', h1, h2⟩ := hc' n ih lab d hmem
      rw [hfn] at h1
      cases h1
      rcases hd.visited _ h2 with h0 | ⟨m, hm, e⟩
      · cases h0
      · rw [hnew] at hm
        obtain ⟨es, hes⟩ := mem_blockNodes.1 hm
        have := Canon.eq (hi'.canonB m es hes).1 (findNode_canon hfn) e
        exact this ▸ hm

/-! ### errors -/

/-- what an error of the DFS proves about the flow -/
def Defect (f : FlowX U) : Err → Prop
  | .fuel => True
  | .noRows => ∃ m, Reach f m ∧ m.rows = []
  | .noNode => ∃ m lab d, Reach f m ∧ (lab, some d) ∈ m.edges ∧ findNode f d = none
  | .keyError => False
  | .counterFuel => False

theorem loop_error (f : FlowX U) (rc : NodeX U → EdgeT U → St U → Except Err (St U))
    (hrc : ∀ c e s x, Reach f c → rc c e s = .error x → Defect f x)
    (n : NodeX U) (hn : Reach f n) (fromId : TempId U) (es : List (Label × Option U)) :
    (∀ y ∈ es, y ∈ n.edges) → ∀ st x, loop f rc fromId es st = .error x → Defect f x := by
  induction es with
  | nil => intro _ st x h; simp [loop] at h
  | cons le es ih =>
    intro hsub st x h
    have ih' := ih (fun y hy => hsub y (List.mem_cons_of_mem _ hy))
    obtain ⟨lab, d⟩ := le
    cases d with
    | none => exact ih' st x (by simpa [loop] using h)
    | some d =>
      simp only [loop] at h
      cases hfn : findNode f d with
      | none =>
        simp only [hfn] at h
        cases h
        exact ⟨n, lab, d, hn, hsub _ (List.mem_cons_self ..), hfn⟩
      | some child =>
        simp only [hfn] at h
        by_cases h1 : child.uuid ∈ st.completed
        · simp only [h1, if_true] at h
          exact ih' _ x h
        · simp only [h1, if_false] at h
          by_cases h2 : child.uuid ∈ st.visited
          · simp only [h2, if_true] at h
            exact ih' _ x h
          · simp only [h2, if_false] at h
            cases hr : rc child ⟨some fromId, lab⟩ st with
            | error e =>
              simp only [hr] at h
              cases h
              exact hrc child _ st _ (Reach.step hn (hsub _ (List.mem_cons_self ..)) hfn) hr
            | ok s1 =>
              simp only [hr] at h
              exact ih' s1 x h

theorem dfs_error (f : FlowX U) (fuel : Nat) :
    ∀ (n : NodeX U) (pe : EdgeT U) (st : St U) (x : Err), Reach f n → dfs f fuel n pe st = .error x → Defect f x := by
  induction fuel with
  | zero => intro n pe st x _ h; simp only [dfs] at h; cases h; trivial
  | succ fuel ih =>
    intro n pe st x hn h
    simp only [dfs] at h
    by_cases hr : n.rows = []
    · simp only [hr, if_true] at h
      cases h
      exact ⟨n, hn, hr⟩
    · simp only [hr, if_false] at h
      cases hl : loop f (dfs f fuel) (rowId n (n.rows.length - 1)) n.edges.reverse { st with visited := n.uuid :: st.visited } with
      | error e =>
        simp only [hl] at h
        cases h
        exact loop_error f (dfs f fuel) (fun c e s x => ih c e s x) n hn _ _ (fun y hy => List.mem_reverse.1 hy) _ _ hl
      | ok st2 => simp [hl] at h

theorem toRowsT_error (f : FlowX U) (x : Err) (h : toRowsT f = .error x) : Defect f x := by
  cases f with
  | nil => simp [toRowsT] at h
  | cons n0 f =>
    simp only [toRowsT] at h
    cases hd : dfs (n0 :: f) (f.length + 1 + 1) n0 ⟨none, blankLabel⟩ ⟨[], [], [], 0⟩ with
    | error e =>
      have : e = x := by simpa [hd] using h
      subst this
      exact dfs_error _ _ _ _ _ _ (Reach.start rfl) hd
    | ok st => simp [hd] at h

end Rpft.Export
