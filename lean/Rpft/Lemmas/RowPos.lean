/-
Positional decoding of a packed record (C09): a cell `v1|v2|…|vm` holding the values of the
first `m` fields in declaration order is read as the record with those values and defaults
for the remaining fields — unless the keyword-first rule of `assign_value` fires.
-/
import Rpft.Lemmas.RowSub
set_option linter.unusedSimpArgs false
set_option linter.unusedVariables false
namespace Rpft.Row
open Rpft Rpft.Cell

/-- decode one packed cell for a position of type `ty`: `CellParser.parse`, `assign_value`,
pydantic validation -/
def readCell (ty : Ty) (text : Str) : Except Err Val :=
  match cellParse text with
  | .error e => .error e
  | .ok pv =>
    match assignValue ty pv with
    | .error e => .error e
    | .ok r => validate ty (r.getD Tree.none)

def posEntry (p : SPair) : PV := .atom (printBasic p.2)
def posElem (p : SPair) : Elem := .atom (printBasic p.2)

/-- hypotheses on the leading (field, value) pairs given positionally -/
def PosOk (sfs : List Field) (pm : List SPair) : Prop :=
  (pm.map (·.1.1)).Nodup ∧
  ∀ p ∈ pm, isBasicTy p.1.2.1 = true ∧ reprOk false p.1.2.1 p.2 = true

theorem assignEntries_pos (fas : List (Str × Assign)) :
    ∀ (pm : List SPair) (restF : List Field) (acc : List (Str × Tree)),
      (pm.map (·.1.1)).Nodup →
      (∀ p ∈ pm, isBasicTy p.1.2.1 = true ∧ reprOk false p.1.2.1 p.2 = true) →
      (∀ p ∈ pm, alookup p.1.1 acc = none) →
      assignEntries fas [] (fieldAssigners (pm.map (·.1) ++ restF)) (pm.map posEntry) acc =
        .ok (acc ++ pm.map subTr)
  | [], _, acc, _, _, _ => by simp [assignEntries]
  | ((a, ty, d), v) :: pm, restF, acc, hnd, hok, hacc => by
    obtain ⟨hb, hr⟩ := hok ((a, ty, d), v) (by simp)
    obtain ⟨_, _, hav, _, _, _, _⟩ := basic_leaf hb hr
    have hkw : tryKwarg fas [] (posEntry ((a, ty, d), v)) = none := by simp [tryKwarg, posEntry]
    simp only [List.map_cons, List.cons_append, fieldAssigners, assignEntries, hkw]
    simp only [posEntry] at hav ⊢
    simp only [hav, setOpt]
    have habs : alookup a acc = none := hacc ((a, ty, d), v) (by simp)
    rw [aset_of_absent a (leafTree v) acc habs]
    rw [assignEntries_pos fas pm restF _ (List.nodup_cons.mp hnd).2
      (fun q hq => hok q (List.mem_cons_of_mem _ hq))]
    · simp [subTr]
    · intro q hq
      rw [alookup_append, hacc q (List.mem_cons_of_mem _ hq)]
      have hne : a ≠ q.1.1 := by
        intro e
        have hmem : q.1.1 ∈ pm.map (·.1.1) := List.mem_map_of_mem (f := fun q : SPair => q.1.1) hq
        rw [← e] at hmem
        exact (List.nodup_cons.mp hnd).1 hmem
      simp [alookup, hne]

theorem alookup_map_subTr : ∀ (pm : List SPair), (pm.map (·.1.1)).Nodup → ∀ p ∈ pm,
    alookup p.1.1 (pm.map subTr) = some (leafTree p.2)
  | [], _, p, h => by simp at h
  | q :: pm, hnd, p, h => by
    simp only [List.mem_cons] at h
    rcases h with rfl | h
    · simp [subTr, alookup]
    · have hne : q.1.1 ≠ p.1.1 := by
        intro e
        have hmem : p.1.1 ∈ pm.map (·.1.1) := List.mem_map_of_mem (f := fun q : SPair => q.1.1) h
        rw [← e] at hmem
        exact (List.nodup_cons.mp hnd).1 hmem
      simp [subTr, alookup, hne]
      simpa [subTr] using alookup_map_subTr pm (List.nodup_cons.mp hnd).2 p h

theorem wfCell_pos {pm : List SPair} (hne : pm ≠ [])
    (hok : ∀ p ∈ pm, isBasicTy p.1.2.1 = true ∧ reprOk false p.1.2.1 p.2 = true)
    (hlast : ∀ p, pm.getLast? = some p → printBasic p.2 ≠ []) :
    Props.C08.WFCell (.list (pm.map posElem)) ∧ CellOk (.list (pm.map posElem)) := by
  have hs : ∀ p ∈ pm, strOk (printBasic p.2) = true := fun p hp =>
    (basic_leaf (hok p hp).1 (hok p hp).2).2.2.2.2.2.1
  refine ⟨⟨by simpa using hne, ?_, ?_⟩, ?_⟩
  · intro e he
    obtain ⟨p, hp, rfl⟩ := List.mem_map.mp he
    trivial
  · intro _ hl
    rw [List.getLast?_map] at hl
    cases hg : pm.getLast? with
    | none => simp [hg] at hl
    | some a =>
      rw [hg] at hl
      simp only [Option.map_some, Option.some.injEq, posElem, Elem.atom.injEq] at hl
      exact hlast a hg hl
  · intro e he
    obtain ⟨p, hp, rfl⟩ := List.mem_map.mp he
    exact hs p hp

/-- **Positional decoding**: with `pairs = pm ++ pr` the (field, value) pairs of the record in
declaration order, the values of `pm` given positionally and the fields of `pr` at their
defaults, the cell is read as the record — provided the keyword-first rule does not fire
on the whole cell (`hunamb`). -/
theorem readCell_positional {sfs : List Field} {skvs : List (Str × Val)}
    (pm pr : List SPair) (hpairs : pm ++ pr = sfs.zip (skvs.map Prod.snd))
    (hnames : skvs.map Prod.fst = sfs.map (·.1)) (hnd : (sfs.map (·.1)).Nodup)
    (hne : pm ≠ [])
    (hok : ∀ p ∈ pm, isBasicTy p.1.2.1 = true ∧ reprOk false p.1.2.1 p.2 = true)
    (hlast : ∀ p, pm.getLast? = some p → printBasic p.2 ≠ [])
    (hdef : ∀ p ∈ pr, p.1.2.2 = some p.2)
    (hunamb : tryKwarg (fieldAssigners sfs) [] (.list (pm.map posEntry)) = none) :
    readCell (plainTop sfs) (joinCell (.list (pm.map posElem))) = .ok (.model skvs) := by
  obtain ⟨hwf, hcok⟩ := wfCell_pos hne hok hlast
  have hlen : sfs.length = (skvs.map Prod.snd).length := by
    have := congrArg List.length hnames
    simpa using this.symm
  have hfst : (pm ++ pr).map (·.1) = sfs := by rw [hpairs]; exact zip_map_fst sfs _ hlen
  have hnm : (pm ++ pr).map (·.1.1) = sfs.map (·.1) := by
    conv => rhs; rw [← hfst]
    simp only [List.map_map, List.map_append]
    rfl
  have hndp : ((pm ++ pr).map (·.1.1)).Nodup := by rw [hnm]; exact hnd
  have hndm : (pm.map (·.1.1)).Nodup := by
    rw [List.map_append] at hndp
    exact (List.nodup_append.mp hndp).1
  unfold readCell
  rw [cellParse_joinCell hwf hcok]
  have hpv : PV.ofCell (.list (pm.map posElem)) = .list (pm.map posEntry) := by
    simp [PV.ofCell, List.map_map, PV.ofElem, posElem, posEntry, Function.comp]
  simp only [hpv, assignValue, assignModel, hunamb]
  have hsfs : sfs = pm.map (·.1) ++ pr.map (·.1) := by rw [← hfst, List.map_append]
  have hassign := assignEntries_pos (fieldAssigners sfs) pm (pr.map (·.1)) [] hndm hok (fun p _ => rfl)
  rw [← hsfs] at hassign
  simp only [hassign, List.nil_append, Option.getD_some, validate]
  rw [validateFields_of_spec _ sfs skvs hnames]
  intro p hp
  rw [← hpairs] at hp
  rcases List.mem_append.mp hp with h | h
  · right
    exact ⟨leafTree p.2, alookup_map_subTr pm hndm p h, (basic_leaf (hok p h).1 (hok p h).2).2.2.2.1⟩
  · left
    refine ⟨?_, hdef p h⟩
    rw [alookup_none_iff]
    intro hm
    simp only [List.map_map] at hm
    obtain ⟨q, hq, e⟩ := List.mem_map.mp hm
    rw [List.map_append] at hndp
    have := (List.nodup_append.mp hndp).2.2 q.1.1 (List.mem_map_of_mem (f := fun q : SPair => q.1.1) hq)
      p.1.1 (List.mem_map_of_mem (f := fun q : SPair => q.1.1) h)
    exact this (by simpa [subTr] using e)

end Rpft.Row
