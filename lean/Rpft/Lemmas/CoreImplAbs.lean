/-
An action row with conditional out-edges: the reference has ONE node (the action, then a switch),
the compiler TWO (the action node, and a router node behind it).  Their abstractions: same actions,
same decision, corresponding destinations.
-/
import Rpft.Lemmas.CoreFixAbs
set_option linter.unusedSimpArgs false
set_option linter.unusedVariables false
namespace Rpft.CoreSheet
open Rpft Rpft.Compile Rpft.RefFlow Rpft.Flow

/-- the variable the reference reads off the conditional edges, when they all name the same one -/
theorem condVar_same (conds : List OutEdge) (v : Str) (hne : conds ≠ []) (h : ∀ e ∈ conds, e.cond.var = v) :
    condVar conds = if v.isEmpty then none else some v := by
  unfold condVar
  by_cases hv : v.isEmpty = true
  · rw [if_pos hv]
    have : conds.find? (fun e => !e.cond.var.isEmpty) = none := by
      rw [List.find?_eq_none]
      intro e he
      rw [h e he]; simp [hv]
    rw [this]; rfl
  · rw [if_neg hv]
    cases conds with
    | nil => exact absurd rfl hne
    | cons a l =>
      have ha := h a (by simp)
      simp only [List.find?_cons, ha]
      have : (!v.isEmpty) = true := by simpa using hv
      rw [this]
      simp [ha]

/-- the wait attribute of the reference switch of an action row -/
def implRefWait (es : List OutEdge) : Option (Option (Nat × Option Id)) :=
  if (implVar es).isEmpty then some none else none

theorem refTests_action (es : List OutEdge) :
    refTests .action es = (es.filter (fun e => !e.cond.blank)).map
      (fun e => ((condTest e.cond).1, (condTest e.cond).2, tgtDest e.tgt)) := by
  unfold refTests
  have h1 : testsOf .action es = es.filter (fun e => !e.cond.blank) := by
    unfold testsOf
    have : (fun (e : OutEdge) => !(decide (Kind.action = Kind.wait) && isNR e.cond)) = fun _ => true := by
      funext e; simp
    rw [this, List.filter_true]
  rw [h1]
  apply List.map_congr_left
  intro e _
  unfold refTest
  rw [if_neg (show ¬ (Kind.action = Kind.splitGroup) by decide)]

/-- the reference node of an action row with conditional out-edges -/
theorem mkNode_impl (k : Nat) (r : RRow) (es : List OutEdge) (hk : r.kind = .action)
    (hne : es.filter (fun e => !e.cond.blank) ≠ [])
    (hv : ∀ e ∈ es.filter (fun e => !e.cond.blank), e.cond.var = implVar es) :
    mkNode k r es =
      { swNode k (mkSwitch k (implOperand es) (refTests .action es)
          (lastTgt (es.filter (·.cond.blank)) (fun _ => true)) (implRefWait es) none) with
        actions := refActs k r.act } := by
  have hcv := condVar_same _ _ hne hv
  have hemp : (es.filter (fun e => !e.cond.blank)).isEmpty = false := by
    cases hf : es.filter (fun e => !e.cond.blank) with
    | nil => exact absurd hf hne
    | cons _ _ => rfl
  unfold mkNode
  simp only [hk, hemp, Bool.false_eq_true, if_false, hcv]
  rw [refTests_action]
  unfold implOperand implRefWait swNode refActs
  by_cases h : (implVar es).isEmpty = true
  · simp only [h, if_true]
    rfl
  · simp only [h, Bool.false_eq_true, if_false]
    rfl

section
variable (rnf : Bool) (F r : Flow) (M : Maps) (ns : Array NodeM) (j : Nat) (n : NodeM) (c : CRow) (post : List Str)
  (es : List OutEdge) (i' : Nat) (n' : NodeM) (rr : SwitchR)

/-- an action row with conditional out-edges: the compiled action node (with the actions merged into
it), the compiled router node and the one reference node -/
theorem impl_abs (hk : kindOf c.row.type = .action) (hp : ImplSim M ns n c post es i' n' rr)
    (hact : (toRRow c).act = c.row.action)
    (hv : ∀ e ∈ es.filter (fun e => !e.cond.blank), e.cond.var = implVar es)
    (hfn' : n'.fids.Nodup) :
    (absNode ⟨false, rnf⟩ r (mkNode j (toRRow c) es)).ask.isSome = true ∧
    absNode ⟨false, rnf⟩ F (renderNode n) =
      { acts := (absNode ⟨false, rnf⟩ r (mkNode j (toRRow c) es)).acts ++ post, ask := none,
        dests := [destIdx F (some n'.uid)] } ∧
    (absNode ⟨false, rnf⟩ F (renderNode n')).acts = [] ∧
    (absNode ⟨false, rnf⟩ F (renderNode n')).ask = (absNode ⟨false, rnf⟩ r (mkNode j (toRRow c) es)).ask ∧
    List.Forall₂ (DR F r M ns es) (absNode ⟨false, rnf⟩ r (mkNode j (toRRow c) es)).dests
      (absNode ⟨false, rnf⟩ F (renderNode n')).dests := by
  have hne : es.filter (fun e => !e.cond.blank) ≠ [] := by
    have := hp.some
    rw [tests_action_eq] at this
    exact this
  have hkr : (toRRow c).kind = .action := hk
  rw [mkNode_impl j (toRRow c) es hkr hne hv, absNode_acts, absNode_mkSwitch]
  -- identifiers of the compiled router are pairwise different
  have hrids : rr.ids.Nodup := by
    unfold NodeM.fids NodeM.innerIds NodeM.tailIds at hfn'
    rw [hp.router'] at hfn'
    exact (List.nodup_append.mp (List.nodup_append.mp hfn').2.1).2.1
  have hex : (rr.allCats.map (·.exitUid)).Nodup := by
    unfold SwitchR.ids at hrids; exact (List.nodup_append.mp hrids).1
  have hcu : (rr.allCats.map (·.uid)).Nodup := by
    unfold SwitchR.ids at hrids
    exact (List.nodup_append.mp (List.nodup_append.mp hrids).2.1).1
  have hnrs : rr.noResp.isSome = true ↔ ∃ m, rr.wait = some (m + 1) := by
    rw [hp.noResp, hp.wait]
    unfold implWait
    constructor
    · intro h; cases h
    · rintro ⟨m, hm⟩; split at hm <;> cases hm
  rw [absNode_sw rnf F n' rr hp.router' hp.acts' hcu hex hp.casecat hnrs,
    absNode_plain_cmp' _ F n _ hp.router hp.acts]
  have hacts : (refActs j (toRRow c).act).map (·.obs) = c.row.action.toList := by
    rw [hact]; exact acts_obs j c.row.action
  refine ⟨rfl, ?_, rfl, ?_, ?_⟩
  · simp only [hacts, hp.link, renderDest]
  · simp only
    have htests : (rr.cases.map renderCase).map (fun k => (k.type, testArgs k)) =
        (refTests .action es).map (fun t => (t.1, if t.1 = "has_group".toList then t.2.1.drop 1 else t.2.1)) := by
      have e1 : (rr.cases.map renderCase).map (fun k => (k.type, testArgs k)) =
          (rr.cases.map (fun k => (k.type, k.args.map (·.getD [])))).map
            (fun (p : Str × List Str) => (p.1, if p.1 = "has_group".toList then p.2.drop 1 else p.2)) := by
        rw [List.map_map, List.map_map]
        exact List.map_congr_left (fun k _ => rfl)
      rw [e1, hp.cases, List.map_map]
      unfold refTests
      rw [List.map_map]
      exact List.map_congr_left (fun e _ => rfl)
    have hwait : (renderWait rr).map (fun o => o.map (·.1)) = (implRefWait es).map (fun o => o.map (·.1)) := by
      unfold renderWait implRefWait
      rw [hp.wait, hp.noResp]
      unfold implWait
      by_cases h : (implVar es).isEmpty = true
      · simp [h]
      · simp [h]
    rw [htests, hwait, hp.operand, hp.rname]
  · simp only
    have hno : rr.allCats = rr.cats ++ [rr.dflt] := by
      unfold SwitchR.allCats; rw [hp.noResp]; simp
    have hw : implRefWait es = some none ∨ implRefWait es = none := by
      unfold implRefWait; split
      · exact .inl rfl
      · exact .inr rfl
    have key : List.Forall₂ (DR F r M ns es)
        (List.map (fun t => destIdx r t.2.2) (refTests Kind.action es) ++
          [destIdx r (lastTgt (List.filter (fun x => x.cond.blank) es) fun x => true)])
        (List.map (fun c => destIdx F (renderDest c.dest)) rr.allCats) := by
      rw [hno, List.map_append]
      refine List.rel_append ?_ ?_
      · unfold refTests
        rw [List.map_map]
        refine forall2_flip_map hp.catd ?_
        intro cat e he hd
        refine ⟨cat.dest, some e.tgt, hd, ?_, rfl, rfl⟩
        intro k hk2
        simp only [Option.some.injEq] at hk2
        have : e ∈ es := by
          unfold testsOf at he
          exact (List.mem_filter.mp (List.mem_filter.mp he).1).1
        exact ⟨e, this, hk2⟩
      · refine List.Forall₂.cons ⟨rr.dflt.dest, _, hp.dflt, ?_, ?_, rfl⟩ List.Forall₂.nil
        · intro k hk2
          cases hg : (es.filter (·.cond.blank)).getLast? with
          | none => rw [hg] at hk2; cases hk2
          | some e =>
            rw [hg] at hk2
            simp only [Option.map_some, Option.some.injEq] at hk2
            exact ⟨e, (List.mem_filter.mp (List.mem_of_getLast? hg)).1, hk2⟩
        · rw [lastTgt_eq, List.filter_true]

    rcases hw with hw | hw
    · rw [hw]
      show List.Forall₂ _ (_ ++ _ ++ []) _
      rw [List.append_nil]; exact key
    · rw [hw]
      show List.Forall₂ _ (_ ++ _ ++ []) _
      rw [List.append_nil]; exact key

end
/-! ### a `no_op` row with conditional out-edges -/

theorem refTests_noop (es : List OutEdge) :
    refTests .noOp es = (es.filter (fun e => !e.cond.blank)).map
      (fun e => ((condTest e.cond).1, (condTest e.cond).2, tgtDest e.tgt)) := by
  unfold refTests
  rw [tests_noop_eq]
  apply List.map_congr_left
  intro e _
  unfold refTest
  rw [if_neg (show ¬ (Kind.noOp = Kind.splitGroup) by decide)]

/-- the reference node of a `no_op` row with conditional out-edges -/
theorem mkNode_nop (k : Nat) (r : RRow) (es : List OutEdge) (hk : r.kind = .noOp) (hact : r.act = none)
    (hne : es.filter (fun e => !e.cond.blank) ≠ [])
    (hv : ∀ e ∈ es.filter (fun e => !e.cond.blank), e.cond.var = implVar es) (hvne : implVar es ≠ []) :
    mkNode k r es =
      swNode k (mkSwitch k (implVar es) (refTests .noOp es)
        (lastTgt (es.filter (·.cond.blank)) (fun _ => true)) none none) := by
  have hcv := condVar_same _ _ hne hv
  have hvemp : (implVar es).isEmpty = false := by
    cases h : implVar es with
    | nil => exact absurd h hvne
    | cons _ _ => rfl
  rw [hvemp] at hcv
  simp only [Bool.false_eq_true, if_false] at hcv
  have hemp : (es.filter (fun e => !e.cond.blank)).isEmpty = false := by
    cases hf : es.filter (fun e => !e.cond.blank) with
    | nil => exact absurd hf hne
    | cons _ _ => rfl
  unfold mkNode
  simp only [hk, hact, hemp, Bool.false_eq_true, if_false, hcv, Option.getD_some]
  rw [refTests_noop]
  rfl

/-- the reference node of a `no_op` row without conditional out-edges: a node that does nothing -/
theorem mkNode_noop_plain (k : Nat) (r : RRow) (es : List OutEdge) (hk : r.kind = .noOp) (hact : r.act = none)
    (hb : ∀ e ∈ es, e.cond.blank = true) :
    mkNode k r es = plainRef k none ((es.getLast?).bind (fun e => tgtDest e.tgt)) := by
  have h1 : es.filter (fun e => !e.cond.blank) = [] := by
    rw [List.filter_eq_nil_iff]; intro e he; simp [hb e he]
  have h2 : es.filter (·.cond.blank) = es := by
    rw [List.filter_eq_self]; intro e he; exact hb e he
  unfold mkNode plainRef
  simp only [hk, hact, h1, h2, List.isEmpty_nil, if_true, lastTgt, List.filter_true]
  cases es.getLast? <;> rfl

/-- a `no_op` row with conditional out-edges: the compiled router node and the reference node -/
theorem nop_abs (rnf : Bool) (F r : Flow) (M : Maps) (ns : Array NodeM) (j : Nat) (n : NodeM) (c : CRow)
    (es : List OutEdge) (rr : SwitchR) (hk : kindOf c.row.type = .noOp) (hp : NopSim M ns n c es rr)
    (hact : (toRRow c).act = none) (hrt : testsOf .noOp es ≠ [])
    (hv : ∀ e ∈ es.filter (fun e => !e.cond.blank), e.cond.var = implVar es)
    (hfn0 : n.fids.Nodup) :
    AbsRel (DR F r M ns es) (absNode ⟨false, rnf⟩ r (mkNode j (toRRow c) es)) (absNode ⟨false, rnf⟩ F (renderNode n)) := by
  have hne : es.filter (fun e => !e.cond.blank) ≠ [] := by rw [← tests_noop_eq]; exact hrt
  have hop := hp.operand.2 hrt
  have hvne : implVar es ≠ [] := by rw [← hop]; exact hp.operand.1
  have hkr : (toRRow c).kind = .noOp := hk
  rw [mkNode_nop j (toRRow c) es hkr hact hne hv hvne, absNode_mkSwitch]
  have hrids : rr.ids.Nodup := by
    unfold NodeM.fids NodeM.innerIds NodeM.tailIds at hfn0
    rw [hp.router] at hfn0
    exact (List.nodup_append.mp (List.nodup_append.mp hfn0).2.1).2.1
  have hex : (rr.allCats.map (·.exitUid)).Nodup := by
    unfold SwitchR.ids at hrids; exact (List.nodup_append.mp hrids).1
  have hcu : (rr.allCats.map (·.uid)).Nodup := by
    unfold SwitchR.ids at hrids
    exact (List.nodup_append.mp (List.nodup_append.mp hrids).2.1).1
  have hnrs : rr.noResp.isSome = true ↔ ∃ m, rr.wait = some (m + 1) := by
    rw [hp.noResp, hp.wait]
    constructor
    · intro h; cases h
    · rintro ⟨m, hm⟩; cases hm
  rw [absNode_sw rnf F n rr hp.router hp.acts hcu hex hp.casecat hnrs]
  refine ⟨rfl, ?_, ?_⟩
  · simp only
    have htests : (rr.cases.map renderCase).map (fun k => (k.type, testArgs k)) =
        (refTests .noOp es).map (fun t => (t.1, if t.1 = "has_group".toList then t.2.1.drop 1 else t.2.1)) := by
      have e1 : (rr.cases.map renderCase).map (fun k => (k.type, testArgs k)) =
          (rr.cases.map (fun k => (k.type, k.args.map (·.getD [])))).map
            (fun (p : Str × List Str) => (p.1, if p.1 = "has_group".toList then p.2.drop 1 else p.2)) := by
        rw [List.map_map, List.map_map]
        exact List.map_congr_left (fun k _ => rfl)
      rw [e1, hp.cases, List.map_map]
      unfold refTests
      rw [List.map_map]
      exact List.map_congr_left (fun e _ => rfl)
    have hwait : (renderWait rr).map (fun o => o.map (·.1)) = (none : Option (Option Nat)) := by
      unfold renderWait
      rw [hp.wait, hp.noResp]
      rfl
    rw [htests, hwait, hop, hp.rname]
    rfl
  · simp only
    have hno : rr.allCats = rr.cats ++ [rr.dflt] := by
      unfold SwitchR.allCats; rw [hp.noResp]; simp
    rw [List.append_nil, hno, List.map_append]
    refine List.rel_append ?_ ?_
    · unfold refTests
      rw [List.map_map]
      refine forall2_flip_map hp.catd ?_
      intro cat e he hd
      refine ⟨cat.dest, some e.tgt, hd, ?_, rfl, rfl⟩
      intro k hk2
      simp only [Option.some.injEq] at hk2
      have : e ∈ es := by
        unfold testsOf at he
        exact (List.mem_filter.mp (List.mem_filter.mp he).1).1
      exact ⟨e, this, hk2⟩
    · refine List.Forall₂.cons ⟨rr.dflt.dest, _, hp.dflt, ?_, ?_, rfl⟩ List.Forall₂.nil
      · intro k hk2
        cases hg : (es.filter (·.cond.blank)).getLast? with
        | none => rw [hg] at hk2; cases hk2
        | some e =>
          rw [hg] at hk2
          simp only [Option.map_some, Option.some.injEq] at hk2
          exact ⟨e, (List.mem_filter.mp (List.mem_of_getLast? hg)).1, hk2⟩
      · rw [lastTgt_eq, List.filter_true]

end Rpft.CoreSheet
