/-
Helper definitions and lemmas for C04 (path level): two labelled transition systems over exit labels —
the FLOW (`flowOut`, `FlowStep`) and the SHEET as the compiler reads it with node merging (`Sheet`,
`Sheet.out`, `Sheet.Step`) — label paths (`LPath`), and the one-step correspondence on the skeleton of a
successful export.
-/
import Rpft.Lemmas.ExportGraphGroups
set_option linter.unusedSimpArgs false
set_option linter.unusedVariables false
set_option linter.unusedSectionVars false
namespace Rpft.Export

/-! ### label paths through a step relation -/

/-- `LPath step s ℓs ts`: following the labels `ℓs` from state `s` visits the states `ts` (one per label,
the last one is the state reached).  `step` may be non-deterministic: the statement is relational. -/
def LPath {S : Type} (step : S → Label → S → Prop) : S → List Label → List S → Prop
  | _, [], [] => True
  | s, ℓ :: ℓs, t :: ts => step s ℓ t ∧ LPath step t ℓs ts
  | _, _, _ => False

instance LPath.dec {S : Type} (step : S → Label → S → Prop) [∀ s ℓ t, Decidable (step s ℓ t)] :
    ∀ s ℓs ts, Decidable (LPath step s ℓs ts)
  | _, [], [] => isTrue trivial
  | s, ℓ :: ℓs, t :: ts =>
    match (inferInstance : Decidable (step s ℓ t)), LPath.dec step t ℓs ts with
    | isTrue a, isTrue b => isTrue ⟨a, b⟩
    | isFalse a, _ => isFalse (fun h => a h.1)
    | _, isFalse b => isFalse (fun h => b h.2)
  | _, [], _ :: _ => isFalse (fun h => h)
  | _, _ :: _, [] => isFalse (fun h => h)

/-- the state a path ends in -/
def endOf {S : Type} (s : S) (ts : List S) : S := (s :: ts).getLast (List.cons_ne_nil _ _)

/-- what is performed along a path: the content of the start state, then of every state entered -/
def traceOf {S : Type} (pay : S → List Payload) (s : S) (ts : List S) : List Payload := (s :: ts).flatMap pay

theorem LPath.length_eq {S : Type} {step : S → Label → S → Prop} :
    ∀ {s : S} {ℓs : List Label} {ts : List S}, LPath step s ℓs ts → ts.length = ℓs.length
  | _, [], [], _ => rfl
  | _, _ :: _, _ :: _, h => by simp [LPath.length_eq h.2]
  | _, [], _ :: _, h => h.elim
  | _, _ :: _, [], h => h.elim

/-! ### the flow as a transition system -/

section flow
variable {U : Type} [DecidableEq U]

/-- the connected exits of node `n`, in EXIT ORDER: label and the node `find_node` returns for the
destination.  (An exit `(ℓ, none)` leads nowhere: it is not a transition — see `FlowEnds`.) -/
def flowOut (f : FlowX U) (n : NodeX U) : List (Label × NodeX U) :=
  n.edges.filterMap (fun le => match le.2 with
    | none => none
    | some d => (findNode f d).map (fun c => (le.1, c)))

/-- a step of the flow: `n` has an exit `(ℓ, some d)` and `find_node d = m` -/
def FlowStep (f : FlowX U) (n : NodeX U) (ℓ : Label) (m : NodeX U) : Prop := (ℓ, m) ∈ flowOut f n

/-- the flow ends at `n` under label `ℓ`: an exit `(ℓ, none)` -/
def FlowEnds (n : NodeX U) (ℓ : Label) : Prop := (ℓ, none) ∈ n.edges

/-- what a node performs: the content of its row models (actions, or the router), in order -/
def nodePayloads (n : NodeX U) : List Payload := n.rows.map (·.1)

theorem flowStep_iff {f : FlowX U} {n m : NodeX U} {ℓ : Label} :
    FlowStep f n ℓ m ↔ ∃ d, (ℓ, some d) ∈ n.edges ∧ findNode f d = some m := by
  simp only [FlowStep, flowOut, List.mem_filterMap]
  constructor
  · rintro ⟨⟨lab, d⟩, hm, he⟩
    cases d with
    | none => simp at he
    | some d =>
      cases hf : findNode f d with
      | none => simp [hf] at he
      | some c =>
        simp only [hf, Option.map_some, Option.some.injEq, Prod.mk.injEq] at he
        obtain ⟨rfl, rfl⟩ := he
        exact ⟨d, hm, hf⟩
  · rintro ⟨d, hm, hf⟩
    exact ⟨(ℓ, some d), hm, by simp [hf]⟩

theorem Reach.flowStep {f : FlowX U} {n m : NodeX U} {ℓ : Label} (hn : Reach f n) (h : FlowStep f n ℓ m) : Reach f m := by
  obtain ⟨d, hd, hf⟩ := flowStep_iff.1 h
  exact Reach.step hn hd hf

/-- every node on a path from a reachable node is reachable -/
theorem Reach.lpath {f : FlowX U} : ∀ {n : NodeX U} {ℓs : List Label} {ms : List (NodeX U)}, Reach f n →
    LPath (FlowStep f) n ℓs ms → ∀ m ∈ ms, Reach f m
  | _, [], [], _, _ => by intro m hm; cases hm
  | n, ℓ :: ℓs, t :: ts, hn, h => by
    intro m hm
    have ht := hn.flowStep h.1
    rcases List.mem_cons.1 hm with rfl | hm
    · exact ht
    · exact Reach.lpath ht h.2 m hm
  | _, [], _ :: _, _, h => h.elim
  | _, _ :: _, [], _, h => h.elim

/-- `exitsEdges` (C04_Graph) is `flowOut` drawn between rows -/
theorem exitsEdges_eq_flowOut (f : FlowX U) (n : NodeX U) :
    exitsEdges f n = (flowOut f n).map (fun p => ⟨some (lastId n), p.1, firstId p.2⟩) := by
  simp only [exitsEdges, loopEdges, flowOut]
  induction n.edges with
  | nil => rfl
  | cons le es ih =>
    obtain ⟨lab, d⟩ := le
    cases d with
    | none => simpa [List.filterMap_cons, exitEdge] using ih
    | some d => cases hf : findNode f d <;> simpa [List.filterMap_cons, exitEdge, hf] using ih

/-- the first row identifies the node among the nodes `find_node` can return -/
theorem firstId_inj_of_canon {f : FlowX U} {n m : NodeX U} (hn : Canon f n) (hm : Canon f m)
    (h : firstId n = firstId m) : n = m :=
  Canon.eq hn hm (rowId_eq_uuid h)

end flow

/-! ### the sheet as a transition system (the compiler's reading, with node merging) -/

section sheet
variable {I : Type} [DecidableEq I]

/-- the node a row belongs to = the first row of its group (`g` = `groupRows …`) -/
def repOf (g : List (I × I)) (i : I) : I := (assocGet g i).getD i

/-- what the compiler reads from a sheet: `group` = row ↦ first row of its node (`groupRows`, the merge rule
of `_parse_row`), `nodeRows` = the node rows top to bottom with their content, `edges` = the resolved
edges (`readRow`: an edge on a `go_to` row enters the row named there) in resolution order -/
structure Sheet (I : Type) where
  group : List (I × I)
  nodeRows : List (I × Payload)
  edges : List (SEdge I)

namespace Sheet

/-- the rows of the node whose first row is `i`, top to bottom -/
def groupOf (S : Sheet I) (i : I) : List (I × Payload) :=
  S.nodeRows.filter (fun x => decide (repOf S.group x.1 = i))

/-- the LAST row of the node: the row its router / last action lives in, the one the exits leave -/
def lastRow (S : Sheet I) (i : I) : Option I := (S.groupOf i).getLast?.map (·.1)

/-- what the node performs: the content of its rows, top to bottom -/
def payloads (S : Sheet I) (i : I) : List Payload := (S.groupOf i).map (·.2)

/-- inside a node the walk goes row to row along blank edges: consecutive rows of the group are linked -/
def Linked (S : Sheet I) (i : I) : Prop :=
  ∀ p ∈ ((S.groupOf i).map (·.1)).zip ((S.groupOf i).map (·.1)).tail, (⟨some p.1, blankLabel, p.2⟩ : SEdge I) ∈ S.edges

/-- the transitions leaving node `i` IN SHEET ORDER (= the order in which the compiler appends the cases
of the node's router): the edges that leave the last row of the node, each with its label and the node of
the row it enters -/
def out (S : Sheet I) (i : I) : List (Label × I) :=
  match S.lastRow i with
  | none => []
  | some s => (outOf s S.edges).map (fun e => (e.label, repOf S.group e.dst))

/-- a step of the sheet: an edge labelled `ℓ` leaves the last row of node `i` and enters a row of node `j` -/
def Step (S : Sheet I) (i : I) (ℓ : Label) (j : I) : Prop := (ℓ, j) ∈ S.out i

instance (S : Sheet I) (i : I) (ℓ : Label) (j : I) : Decidable (S.Step i ℓ j) := by unfold Step; infer_instance

/-- where the sheet starts: the node(s) of the row(s) the `"start"` edge enters -/
def start (S : Sheet I) : List I := (S.edges.filter (fun e => e.src.isNone)).map (fun e => repOf S.group e.dst)

/-- the nodes of the sheet (each by its first row) -/
def nodes (S : Sheet I) : List I := (S.nodeRows.map (fun x => repOf S.group x.1)).eraseDups

theorem step_iff {S : Sheet I} {i j : I} {ℓ : Label} :
    S.Step i ℓ j ↔ ∃ s, S.lastRow i = some s ∧ ∃ e ∈ S.edges, e.src = some s ∧ e.label = ℓ ∧ repOf S.group e.dst = j := by
  unfold Step out
  cases h : S.lastRow i with
  | none => simp
  | some s =>
    simp only [List.mem_map, outOf, List.mem_filter, decide_eq_true_eq, Option.some.injEq, Prod.mk.injEq]
    constructor
    · rintro ⟨e, ⟨he, hs⟩, hl, hd⟩
      exact ⟨s, rfl, e, he, hs, hl, hd⟩
    · rintro ⟨s', rfl, e, he, hs, hl, hd⟩
      exact ⟨e, ⟨he, hs⟩, hl, hd⟩

end Sheet
end sheet

/-! ### the exported sheet -/

section exported
variable {U : Type} [DecidableEq U]

/-- the exported temp-id sheet as the compiler reads it (`_nodeId` present: rows are merged by `groupsT`) -/
def sheetT (rows : List (RowT U)) : Sheet (TempId U) :=
  ⟨groupsT rows, (nodeRowsT rows).map (fun x => (x.1, x.2.2.2)), edgesOfT rows⟩

/-- the rows of node `n` as the sheet shows them: id and content -/
def nodeSigP (n : NodeX U) : List (TempId U × Payload) := n.rows.zipIdx.map (fun x => (rowId n x.2, x.1.1))

theorem mem_nodeSigP {n : NodeX U} {x : TempId U × Payload} (h : x ∈ nodeSigP n) : ∃ j, j < n.rows.length ∧ x.1 = rowId n j := by
  simp only [nodeSigP, List.mem_map] at h
  obtain ⟨⟨po, j⟩, hm, rfl⟩ := h
  have := List.mk_mem_zipIdx_iff_getElem?.1 hm
  refine ⟨j, ?_, rfl⟩
  apply Nat.lt_of_not_le
  intro hlt
  rw [List.getElem?_eq_none hlt] at this
  cases this

theorem nodup_of_map_nodup {α β : Type} {g : α → β} {l : List α} (h : (l.map g).Nodup) : l.Nodup := by
  unfold List.Nodup at h ⊢
  rw [List.pairwise_map] at h
  exact h.imp (fun {a b} hne heq => hne (congrArg g heq))

theorem mem_chain_of_lt {n : NodeX U} {j : Nat} (h : j + 1 < n.rows.length) :
    (⟨some (rowId n j), blankLabel, rowId n (j + 1)⟩ : GEdge U) ∈ chain n := by
  have key : ∀ (k i : Nat), i ≤ j → j < i + k → (⟨some (rowId n j), blankLabel, rowId n (j + 1)⟩ : GEdge U) ∈ chainFrom n i k := by
    intro k
    induction k with
    | zero => intro i h1 h2; omega
    | succ k ih =>
      intro i h1 h2
      simp only [chainFrom, List.mem_cons]
      by_cases hij : i = j
      · subst hij; exact Or.inl rfl
      · exact Or.inr (ih (i + 1) (by omega) (by omega))
  exact key _ 0 (Nat.zero_le _) (by omega)

theorem filter_flatMap_single {α β : Type} (F : α → List β) (p : β → Bool) {l : List α} {n : α}
    (hnd : l.Nodup) (hn : n ∈ l) (h1 : ∀ x ∈ F n, p x = true) (h2 : ∀ m ∈ l, m ≠ n → ∀ x ∈ F m, p x = false) :
    (l.flatMap F).filter p = F n := by
  induction l with
  | nil => cases hn
  | cons a l ih =>
    simp only [List.flatMap_cons, List.filter_append]
    have hnd' := List.nodup_cons.1 hnd
    by_cases ha : a = n
    · subst ha
      have : (l.flatMap F).filter p = [] := by
        simp only [List.filter_eq_nil_iff, List.mem_flatMap]
        rintro x ⟨m, hm, hx⟩
        have hne : m ≠ a := fun h => hnd'.1 (h ▸ hm)
        simp [h2 m (List.mem_cons_of_mem _ hm) hne x hx]
      rw [this, List.append_nil]
      exact List.filter_eq_self.2 h1
    · have hn' : n ∈ l := by
        rcases List.mem_cons.1 hn with h | h
        · exact absurd h.symm ha
        · exact h
      have : (F a).filter p = [] := by
        simp only [List.filter_eq_nil_iff]
        intro x hx
        simp [h2 a (List.mem_cons_self ..) ha x hx]
      rw [this, List.nil_append]
      exact ih hnd'.2 hn' (fun m hm => h2 m (List.mem_cons_of_mem _ hm))

namespace Skeleton
variable {f : FlowX U} {rows : List (RowT U)} {n0 : NodeX U} {items : List (Item U)} {vis : List U}

theorem rows_pos (sk : Skeleton f rows n0 items vis) {m : NodeX U} (hm : m ∈ blockNodes items) : 0 < m.rows.length := by
  obtain ⟨es, hes⟩ := mem_blockNodes.1 hm
  exact List.length_pos_iff.2 (sk.inv.canonB m es hes).2

/-- row `j` of a completed node belongs to the node whose first row is the node's first row -/
theorem repOf_row (sk : Skeleton f rows n0 items vis) {m : NodeX U} (hm : m ∈ blockNodes items) {j : Nat}
    (hj : j < m.rows.length) : repOf (groupsT rows) (rowId m j) = firstId m := by
  unfold repOf
  rw [sk.groups, rep_of_export sk.nodup hm hj]; rfl

theorem nodeRowsP (sk : Skeleton f rows n0 items vis) : (sheetT rows).nodeRows = (blockNodes items).flatMap nodeSigP := by
  simp only [sheetT, sk.nodeRows, List.map_flatMap]
  apply flatMap_congr_mem
  intro m _
  simp [nodeSig, nodeSigP]

/-- the group of the first row of a completed node is the node's rows -/
theorem groupOf_eq (sk : Skeleton f rows n0 items vis) {n : NodeX U} (hn : n ∈ blockNodes items) :
    (sheetT rows).groupOf (firstId n) = nodeSigP n := by
  unfold Sheet.groupOf
  rw [sk.nodeRowsP]
  apply filter_flatMap_single nodeSigP _ (nodup_of_map_nodup sk.nodup) hn
  · intro x hx
    obtain ⟨j, hj, hxj⟩ := mem_nodeSigP hx
    simp only [decide_eq_true_eq, hxj]
    exact sk.repOf_row hn hj
  · intro m hm hne x hx
    obtain ⟨j, hj, hxj⟩ := mem_nodeSigP hx
    simp only [decide_eq_false_iff_not, hxj]
    show ¬ repOf (groupsT rows) (rowId m j) = firstId n
    rw [sk.repOf_row hm hj]
    intro heq
    exact hne (eq_of_uuid_eq_of_nodup sk.nodup hm hn (rowId_eq_uuid heq))

theorem lastRow_eq (sk : Skeleton f rows n0 items vis) {n : NodeX U} (hn : n ∈ blockNodes items) :
    (sheetT rows).lastRow (firstId n) = some (lastId n) := by
  have hpos := sk.rows_pos hn
  unfold Sheet.lastRow
  rw [sk.groupOf_eq hn, nodeSigP, List.getLast?_eq_getElem?]
  simp only [List.length_map, List.length_zipIdx, List.getElem?_map, List.getElem?_zipIdx]
  rw [List.getElem?_eq_getElem (by omega)]
  simp [lastId]

theorem payloads_eq (sk : Skeleton f rows n0 items vis) {n : NodeX U} (hn : n ∈ blockNodes items) :
    (sheetT rows).payloads (firstId n) = nodePayloads n := by
  unfold Sheet.payloads
  rw [sk.groupOf_eq hn, nodeSigP, nodePayloads, List.map_map]
  have : ((fun x : TempId U × Payload => x.2) ∘ fun x : (Payload × Option U) × Nat => (rowId n x.2, x.1.1))
      = (fun po : Payload × Option U => po.1) ∘ Prod.fst := rfl
  rw [this, ← List.map_map, List.zipIdx_map_fst]

/-- the edges leaving the last row of a completed node are, as a multiset, its connected exits -/
theorem outOf_perm (sk : Skeleton f rows n0 items vis) {n : NodeX U} (hn : n ∈ blockNodes items) :
    (outOf (lastId n) (edgesOfT rows)).Perm (exitsEdges f n) := by
  have hp := (sk.perm.filter (fun e => decide (e.src = some (lastId n))))
  have h1 : (startEdge n0 :: (blockNodes items).flatMap (nodeOut f)).filter (fun e => decide (e.src = some (lastId n)))
      = exitsEdges f n := by
    have := sel_flatMap_nodeOut f (fun _ => true) sk.nodup hn
    simp only [sel, Bool.and_true] at this
    rw [List.filter_cons]
    simp [startEdge, this]
  rw [h1] at hp
  exact hp

/-- the node of the target row of a connected exit is the target node -/
theorem repOf_exit (sk : Skeleton f rows n0 items vis) {n : NodeX U} (hn : n ∈ blockNodes items) {p : Label × NodeX U}
    (hp : p ∈ flowOut f n) : repOf (groupsT rows) (firstId p.2) = firstId p.2 := by
  have hr := (sk.reach n).1 hn
  have hc := (sk.reach p.2).2 (hr.flowStep hp)
  exact sk.repOf_row hc (sk.rows_pos hc)

/-- **one node, all transitions**: the transitions leaving the node of `n` in the sheet are, in sheet
order, the edges leaving the last row of `n`, each entering the first row of a node; as a multiset they
are the connected exits of `n` -/
theorem out_eq (sk : Skeleton f rows n0 items vis) {n : NodeX U} (hn : n ∈ blockNodes items) :
    (sheetT rows).out (firstId n) = (outOf (lastId n) (edgesOfT rows)).map (fun e => (e.label, e.dst)) := by
  unfold Sheet.out
  rw [sk.lastRow_eq hn]
  apply List.map_congr_left
  intro e he
  have := (sk.outOf_perm hn).mem_iff.1 he
  rw [exitsEdges_eq_flowOut] at this
  obtain ⟨p, hp, rfl⟩ := List.mem_map.1 this
  simp only [sheetT, sk.repOf_exit hn hp]

theorem out_perm (sk : Skeleton f rows n0 items vis) {n : NodeX U} (hn : n ∈ blockNodes items) :
    ((sheetT rows).out (firstId n)).Perm ((flowOut f n).map (fun p => (p.1, firstId p.2))) := by
  rw [sk.out_eq hn]
  have := (sk.outOf_perm hn).map (fun e => (e.label, e.dst))
  rw [exitsEdges_eq_flowOut, List.map_map] at this
  exact this

/-- the rows of a completed node are linked by the blank chain edges -/
theorem linked (sk : Skeleton f rows n0 items vis) {n : NodeX U} (hn : n ∈ blockNodes items) :
    (sheetT rows).Linked (firstId n) := by
  unfold Sheet.Linked
  rw [sk.groupOf_eq hn]
  have hids : (nodeSigP n).map (·.1) = (List.range n.rows.length).map (rowId n) := by
    apply List.ext_getElem?
    intro k
    simp only [nodeSigP, List.map_map, List.getElem?_map, List.getElem?_zipIdx, List.getElem?_range']
    by_cases hk : k < n.rows.length
    · simp [hk, List.getElem?_eq_getElem hk]
    · simp [hk, List.getElem?_eq_none (Nat.le_of_not_lt hk)]
  rw [hids]
  intro p hp
  obtain ⟨k, hk⟩ := List.mem_iff_getElem?.1 hp
  simp only [List.getElem?_zip_eq_some, List.getElem?_map, List.getElem?_tail] at hk
  obtain ⟨h1, h2⟩ := hk
  have hk1 : k + 1 < n.rows.length := by
    apply Nat.lt_of_not_le
    intro hlt
    rw [List.getElem?_eq_none (by simpa using hlt)] at h2
    cases h2
  rw [List.getElem?_range (by omega)] at h1
  rw [List.getElem?_range hk1] at h2
  simp only [Option.map_some, Option.some.injEq] at h1 h2
  rw [← h1, ← h2]
  show _ ∈ edgesOfT rows
  apply sk.perm.mem_iff.2
  apply List.mem_cons_of_mem
  apply List.mem_flatMap.2
  refine ⟨n, hn, ?_⟩
  simp only [nodeOut, List.mem_append]
  left
  exact mem_chain_of_lt hk1

/-- the `"start"` edge is the only edge without source -/
theorem start_eq (sk : Skeleton f rows n0 items vis) : (sheetT rows).start = [firstId n0] := by
  unfold Sheet.start
  have hp := (sk.perm.filter (fun e => e.src.isNone)).map (fun e => repOf (groupsT rows) e.dst)
  have hnil : ((blockNodes items).flatMap (nodeOut f)).filter (fun e => e.src.isNone) = [] := by
    simp only [List.filter_eq_nil_iff, List.mem_flatMap]
    rintro e ⟨m, _, he⟩
    obtain ⟨j, hj⟩ := src_nodeOut he
    simp [hj]
  have hm0 : n0 ∈ blockNodes items := (sk.reach n0).2 (Reach.start sk.head)
  rw [List.filter_cons, hnil] at hp
  simp only [startEdge, Option.isNone_none, if_true, List.map_cons, List.map_nil] at hp
  have := List.perm_singleton.1 hp
  rw [show (sheetT rows).edges = edgesOfT rows from rfl, show (sheetT rows).group = groupsT rows from rfl, this]
  rw [show firstId n0 = rowId n0 0 from rfl, sk.repOf_row hm0 (sk.rows_pos hm0)]
  rfl

end Skeleton
end exported

end Rpft.Export
