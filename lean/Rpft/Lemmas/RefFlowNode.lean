import Rpft.Lemmas.RefFlowIds
import Rpft.Lemmas.RefFlowPass1
import Mathlib.Data.List.Nodup
/-! Pass 2 of the reference interpretation: every node `mkNode` builds is well formed. -/
set_option linter.unusedSimpArgs false
set_option linter.unusedVariables false
namespace Rpft.RefFlow
open Rpft Rpft.Flow

theorem zipIdx_map_idx {α β} (l : List α) (f : Nat → β) :
    l.zipIdx.map (fun p => f p.2) = (List.range l.length).map f := by
  rw [List.range_eq_range', ← List.zipIdx_map_snd 0 l, List.map_map]
  rfl

abbrev Tests := List (Str × List Str × Option Id)

/-- number of categories (= exits) of a switch built by `mkSwitch` -/
def swArity (n : Nat) : Option (Option (Nat × Option Id)) → Nat
  | some (some _) => n + 2
  | _ => n + 1

theorem mkSwitch_shape (k : Nat) (operand : Str) (tests : Tests) (dflt : Option Id)
    (wait : Option (Option (Nat × Option Id))) (rn : Option Str) :
    let sw := mkSwitch k operand tests dflt wait rn
    let m := swArity tests.length wait
    sw.1.cats.map (·.uuid) = (List.range m).map (subId k "c") ∧
    sw.1.cats.map (·.exitUuid) = (List.range m).map (subId k "e") ∧
    sw.2.map (·.uuid) = (List.range m).map (subId k "e") ∧
    sw.1.cases.map (·.uuid) = (List.range tests.length).map (subId k "k") ∧
    sw.1.cases.map (·.catUuid) = (List.range tests.length).map (subId k "c") ∧
    sw.1.defaultCats = [subId k "c" tests.length] ∧
    (∀ t ∈ sw.1.timeoutCats, t = subId k "c" (tests.length + 1) ∧ m = tests.length + 2) := by
  have h1 : ∀ (tag : String), tests.zipIdx.map (fun (p : (Str × List Str × Option Id) × Nat) => subId k tag p.2)
      = (List.range tests.length).map (subId k tag) := fun tag => zipIdx_map_idx tests _
  rcases wait with _ | _ | ⟨secs, td⟩ <;>
    (simp [mkSwitch, swArity, Router.cats, Router.cases, Router.defaultCats, Router.timeoutCats,
      List.map_map, Function.comp, List.range_succ, h1]
     exact ⟨h1 _, h1 _, h1 _, h1 _, h1 _⟩)

theorem subId_enc (k i : Nat) :
    subId k "a" i = enc (.sub k 'a' i) ∧ subId k "c" i = enc (.sub k 'c' i) ∧
    subId k "e" i = enc (.sub k 'e' i) ∧ subId k "k" i = enc (.sub k 'k' i) := by
  simp [subId, enc]

theorem subId_inj (k : Nat) (tag : String) (i j : Nat) (h : subId k tag i = subId k tag j) : i = j := by
  unfold subId at h
  have := List.append_cancel_left h
  exact natStr_injective this

theorem range_subId_nodup (k : Nat) (tag : String) (m : Nat) :
    ((List.range m).map (subId k tag)).Nodup :=
  List.Nodup.map (fun i j h => subId_inj k tag i j h) List.nodup_range

/-- where the exits of a `mkSwitch` router lead -/
theorem mkSwitch_dests (k : Nat) (operand : Str) (tests : Tests) (dflt : Option Id)
    (wait : Option (Option (Nat × Option Id))) (rn : Option Str) :
    ∀ e ∈ (mkSwitch k operand tests dflt wait rn).2, ∀ d, e.dest = some d →
      (∃ t ∈ tests, t.2.2 = some d) ∨ dflt = some d ∨ (∃ secs, wait = some (some (secs, some d))) := by
  intro e he d hd
  have hz : ∀ e ∈ tests.zipIdx.map (fun (p : (Str × List Str × Option Id) × Nat) =>
      ({ uuid := subId k "e" p.2, dest := p.1.2.2 } : Exit)), ∀ d, e.dest = some d → ∃ t ∈ tests, t.2.2 = some d := by
    intro e he d hd
    simp only [List.mem_map] at he
    obtain ⟨p, hp, rfl⟩ := he
    have := List.mem_zipIdx hp
    refine ⟨p.1, ?_, hd⟩
    obtain ⟨t, i⟩ := p
    simp at this
    rw [this.2]
    exact List.getElem_mem _
  rcases wait with _ | _ | ⟨secs, td⟩ <;>
    simp only [mkSwitch, List.mem_append, List.mem_cons, List.mem_singleton, List.not_mem_nil, or_false] at he
  · rcases he with he | rfl
    · exact Or.inl (hz e he d hd)
    · exact Or.inr (Or.inl hd)
  · rcases he with he | rfl
    · exact Or.inl (hz e he d hd)
    · exact Or.inr (Or.inl hd)
  · rcases he with he | rfl | rfl
    · exact Or.inl (hz e he d hd)
    · exact Or.inr (Or.inl hd)
    · simp only at hd
      exact Or.inr (Or.inr ⟨secs, by rw [hd]⟩)

theorem mkSwitch_closed (k : Nat) (operand : Str) (tests : Tests) (dflt : Option Id)
    (wait : Option (Option (Nat × Option Id))) (rn : Option Str) :
    RouterClosed (mkSwitch k operand tests dflt wait rn).1 (mkSwitch k operand tests dflt wait rn).2 := by
  obtain ⟨h1, h2, h3, h4, h5, h6, h7⟩ := mkSwitch_shape k operand tests dflt wait rn
  have hm : tests.length < swArity tests.length wait := by
    rcases wait with _ | _ | _ <;> simp [swArity]
  refine ⟨⟨?_, ?_, ?_, ?_⟩, ?_, ?_, ?_, ?_⟩
  · rw [h2]; exact range_subId_nodup _ _ _
  · rw [h3]; exact range_subId_nodup _ _ _
  · intro c hc
    rw [h3, ← h2]
    exact List.mem_map_of_mem hc
  · intro e he
    rw [h2, ← h3]
    exact List.mem_map_of_mem he
  · rw [h1]; exact range_subId_nodup _ _ _
  · intro c hc
    have : c.catUuid ∈ (mkSwitch k operand tests dflt wait rn).1.cases.map (·.catUuid) := List.mem_map_of_mem hc
    rw [h5] at this
    rw [h1]
    simp only [List.mem_map, List.mem_range] at this ⊢
    obtain ⟨i, hi, hie⟩ := this
    exact ⟨i, by omega, hie⟩
  · intro d hd
    rw [h6] at hd
    simp only [List.mem_singleton] at hd
    rw [h1, hd]
    simp only [List.mem_map, List.mem_range]
    exact ⟨_, hm, rfl⟩
  · intro t ht
    obtain ⟨rfl, hm2⟩ := h7 t ht
    rw [h1]
    simp only [List.mem_map, List.mem_range]
    exact ⟨_, by omega, rfl⟩


def keysOf (k na me mc nk : Nat) : List Key :=
  .node k :: ((List.range na).map (Key.sub k 'a') ++ (List.range me).map (Key.sub k 'e') ++
    ((List.range mc).map (Key.sub k 'c') ++ (List.range nk).map (Key.sub k 'k')))

def FromOut (out : List OutEdge) (d : Option Id) : Prop :=
  ∀ x, d = some x → ∃ o ∈ out, tgtDest o.tgt = some x

structure NodeGood (k : Nat) (out : List OutEdge) (n : Node) : Prop where
  uuid : n.uuid = nodeId k
  dests : ∀ e ∈ n.exits, FromOut out e.dest
  closed : ∀ r, n.router = some r → RouterClosed r n.exits
  plain : n.router = none → n.exits.length = 1
  ids : ∃ na me mc nk, n.ids = (keysOf k na me mc nk).map enc

theorem map_subId (k m : Nat) :
    (List.range m).map (subId k "a") = ((List.range m).map (Key.sub k 'a')).map enc ∧
    (List.range m).map (subId k "c") = ((List.range m).map (Key.sub k 'c')).map enc ∧
    (List.range m).map (subId k "e") = ((List.range m).map (Key.sub k 'e')).map enc ∧
    (List.range m).map (subId k "k") = ((List.range m).map (Key.sub k 'k')).map enc := by
  simp [List.map_map, Function.comp_def, subId, enc]

def actionsOf (k : Nat) (act : Option Str) : List Action :=
  match act with
  | some a => [{ uuid := subId k "a" 0, obs := a }]
  | none => []

theorem actionsOf_ids (k : Nat) (act : Option Str) :
    ∃ na, (actionsOf k act).map (·.uuid) = (List.range na).map (subId k "a") := by
  cases act with
  | none => exact ⟨0, by simp [actionsOf]⟩
  | some a => exact ⟨1, by simp [actionsOf, List.range_succ]⟩

theorem lastTgt_from (es : List OutEdge) (p : OutEdge → Bool) (out : List OutEdge)
    (hsub : ∀ o ∈ es, o ∈ out) : FromOut out (lastTgt es p) := by
  intro x hx
  unfold lastTgt at hx
  split at hx
  · rename_i e he
    have : e ∈ es.filter p := List.mem_of_getLast? he
    exact ⟨e, hsub e (List.mem_filter.mp this).1, hx⟩
  · simp at hx

/-- a node whose router and exits come from `mkSwitch` -/
theorem switchNode_good (k : Nat) (out : List OutEdge) (act : Option Str) (operand : Str) (tests : Tests)
    (dflt : Option Id) (wait : Option (Option (Nat × Option Id))) (rn : Option Str)
    (ht : ∀ t ∈ tests, FromOut out t.2.2) (hd : FromOut out dflt)
    (hw : ∀ secs td, wait = some (some (secs, td)) → FromOut out td) :
    NodeGood k out { uuid := nodeId k, actions := actionsOf k act,
                     router := some (mkSwitch k operand tests dflt wait rn).1,
                     exits := (mkSwitch k operand tests dflt wait rn).2 } := by
  obtain ⟨h1, h2, h3, h4, h5, h6, h7⟩ := mkSwitch_shape k operand tests dflt wait rn
  refine ⟨rfl, ?_, ?_, by simp, ?_⟩
  · intro e he x hx
    rcases mkSwitch_dests k operand tests dflt wait rn e he x hx with ⟨t, htm, hte⟩ | h | ⟨secs, h⟩
    · exact ht t htm x hte
    · exact hd x h
    · exact hw secs (some x) h x rfl
  · intro r hr
    simp only [Option.some.injEq] at hr
    subst hr
    exact mkSwitch_closed k operand tests dflt wait rn
  · obtain ⟨na, hna⟩ := actionsOf_ids k act
    refine ⟨na, swArity tests.length wait, swArity tests.length wait, tests.length, ?_⟩
    simp only [Node.ids, Router.ids, hna, h3, h1, h4, keysOf, List.map_cons, List.map_append,
      ← (map_subId k _).1, ← (map_subId k _).2.1, ← (map_subId k _).2.2.1, ← (map_subId k _).2.2.2]
    simp [enc, nodeId]


theorem plainNode_good (k : Nat) (out : List OutEdge) (act : Option Str) (dflt : Option Id)
    (hd : FromOut out dflt) :
    NodeGood k out { uuid := nodeId k, actions := actionsOf k act, router := none,
                     exits := [{ uuid := subId k "e" 0, dest := dflt }] } := by
  refine ⟨rfl, ?_, by simp, by simp, ?_⟩
  · intro e he
    simp only [List.mem_singleton] at he
    subst he
    exact hd
  · obtain ⟨na, hna⟩ := actionsOf_ids k act
    refine ⟨na, 1, 0, 0, ?_⟩
    simp only [Node.ids, hna, keysOf, List.map_cons, List.map_append, (map_subId k na).1]
    simp [enc, nodeId, subId, List.range_succ]

/-- buckets of a `split_random` row lead where edges of the row lead -/
theorem buckets_from (out : List OutEdge) (nameOf : OutEdge → Str) :
    ∀ (es : List OutEdge) (acc : List (Str × Option Id) × Nat),
      (∀ o ∈ es, o ∈ out) → (∀ p ∈ acc.1, FromOut out p.2) →
      ∀ p ∈ (es.foldl (fun (acc : List (Str × Option Id) × Nat) (e : OutEdge) =>
          let nm := nameOf e
          if nm.isEmpty then (acc.1 ++ [("#".toList ++ natStr acc.2, tgtDest e.tgt)], acc.2 + 1)
          else if acc.1.any (·.1 = nm) then
            (acc.1.map (fun (p : Str × Option Id) => if p.1 = nm then (p.1, tgtDest e.tgt) else p), acc.2)
          else (acc.1 ++ [(nm, tgtDest e.tgt)], acc.2)) acc).1, FromOut out p.2 := by
  intro es
  induction es with
  | nil => intro acc _ hacc p hp; exact hacc p hp
  | cons e es ih =>
    intro acc hes hacc
    rw [List.foldl_cons]
    apply ih _ (fun o ho => hes o (by simp [ho]))
    have he : FromOut out (tgtDest e.tgt) := fun x hx => ⟨e, hes e (by simp), hx⟩
    intro p hp
    simp only at hp
    by_cases c1 : (nameOf e).isEmpty = true
    · simp only [c1, if_true, List.mem_append, List.mem_singleton] at hp
      rcases hp with hp | rfl
      · exact hacc p hp
      · exact he
    · simp only [c1] at hp
      by_cases c2 : (acc.1.any (·.1 = nameOf e)) = true
      · simp only [c2, if_true, Bool.false_eq_true, if_false, List.mem_map] at hp
        obtain ⟨q, hq, rfl⟩ := hp
        split
        · exact he
        · exact hacc q hq
      · simp only [c2, Bool.false_eq_true, if_false, List.mem_append, List.mem_singleton] at hp
        rcases hp with hp | rfl
        · exact hacc p hp
        · exact he

theorem randomNode_good (k : Nat) (out : List OutEdge) (act : Option Str) (buckets : List (Str × Option Id))
    (rn : Option Str) (hb : ∀ p ∈ buckets, FromOut out p.2) :
    NodeGood k out
      { uuid := nodeId k
        actions := actionsOf k act
        router := some (.random (buckets.zipIdx.map (fun (p : (Str × Option Id) × Nat) =>
          ({ uuid := subId k "c" p.2, name := [], exitUuid := subId k "e" p.2 } : Category))) rn)
        exits := buckets.zipIdx.map (fun (p : (Str × Option Id) × Nat) =>
          ({ uuid := subId k "e" p.2, dest := p.1.2 } : Exit)) } := by
  have h1 : ∀ (tag : String), buckets.zipIdx.map (fun (p : (Str × Option Id) × Nat) => subId k tag p.2)
      = (List.range buckets.length).map (subId k tag) := fun tag => zipIdx_map_idx buckets _
  have hc : (buckets.zipIdx.map fun (p : (Str × Option Id) × Nat) =>
        ({ uuid := subId k "c" p.2, name := [], exitUuid := subId k "e" p.2 } : Category)).map (·.uuid)
        = (List.range buckets.length).map (subId k "c") := by
    rw [List.map_map]; exact h1 _
  have hce : (buckets.zipIdx.map fun (p : (Str × Option Id) × Nat) =>
        ({ uuid := subId k "c" p.2, name := [], exitUuid := subId k "e" p.2 } : Category)).map (·.exitUuid)
        = (List.range buckets.length).map (subId k "e") := by
    rw [List.map_map]; exact h1 _
  have he : (buckets.zipIdx.map fun (p : (Str × Option Id) × Nat) =>
        ({ uuid := subId k "e" p.2, dest := p.1.2 } : Exit)).map (·.uuid)
        = (List.range buckets.length).map (subId k "e") := by
    rw [List.map_map]; exact h1 _
  refine ⟨rfl, ?_, ?_, by simp, ?_⟩
  · intro e he
    simp only [List.mem_map] at he
    obtain ⟨p, hp, rfl⟩ := he
    have := List.mem_zipIdx hp
    obtain ⟨b, i⟩ := p
    simp at this
    apply hb b
    rw [this.2]
    exact List.getElem_mem _
  · intro r hr
    simp only [Option.some.injEq] at hr
    subst hr
    refine ⟨⟨?_, ?_, ?_, ?_⟩, ?_, ?_, ?_, ?_⟩
    · simp only [Router.cats]; rw [hce]; exact range_subId_nodup _ _ _
    · rw [he]; exact range_subId_nodup _ _ _
    · intro c hc'
      simp only [Router.cats] at hc'
      rw [he, ← hce]
      exact List.mem_map_of_mem hc'
    · intro e hee
      simp only [Router.cats]
      rw [hce, ← he]
      exact List.mem_map_of_mem hee
    · simp only [Router.cats]; rw [hc]; exact range_subId_nodup _ _ _
    · simp [Router.cases]
    · simp [Router.defaultCats]
    · simp [Router.timeoutCats]
  · obtain ⟨na, hna⟩ := actionsOf_ids k act
    refine ⟨na, buckets.length, buckets.length, 0, ?_⟩
    simp only [Node.ids, Router.ids, Router.cats, Router.cases, hna, he, hc, keysOf, List.map_cons,
      List.map_append, ← (map_subId k _).1, ← (map_subId k _).2.1, ← (map_subId k _).2.2.1]
    simp [enc, nodeId]


theorem filter_sub {α} (l : List α) (p : α → Bool) : ∀ o ∈ l.filter p, o ∈ l :=
  fun o ho => (List.mem_filter.mp ho).1

theorem tests_from (out conds : List OutEdge) (hc : ∀ o ∈ conds, o ∈ out) (f : OutEdge → Str × List Str) :
    ∀ t ∈ (conds.map fun e => ((f e).1, (f e).2, tgtDest e.tgt) : Tests), FromOut out t.2.2 := by
  intro t ht x hx
  simp only [List.mem_map] at ht
  obtain ⟨e, he, rfl⟩ := ht
  exact ⟨e, hc e he, hx⟩

theorem mkNode_good (k : Nat) (r : RRow) (out : List OutEdge) : NodeGood k out (mkNode k r out) := by
  have hdf : FromOut out (lastTgt (out.filter (·.cond.blank)) (fun _ => true)) :=
    lastTgt_from _ _ out (filter_sub _ _)
  have hnw : ∀ secs td, (none : Option (Option (Nat × Option Id))) = some (some (secs, td)) → FromOut out td := by
    intro _ _ h; simp at h
  have hsn : ∀ secs td, (some none : Option (Option (Nat × Option Id))) = some (some (secs, td)) → FromOut out td := by
    intro _ _ h; simp at h
  cases hkind : r.kind
  case action =>
    simp only [mkNode, hkind]
    split
    · exact plainNode_good k out r.act _ hdf
    · split
      · exact switchNode_good k out r.act _ _ _ _ _ (tests_from out _ (filter_sub _ _) _) hdf hnw
      · exact switchNode_good k out r.act _ _ _ _ _ (tests_from out _ (filter_sub _ _) _) hdf hsn
  case noOp =>
    simp only [mkNode, hkind]
    split
    · exact plainNode_good k out r.act _ hdf
    · exact switchNode_good k out r.act _ _ _ _ _ (tests_from out _ (filter_sub _ _) _) hdf hnw
  case wait =>
    simp only [mkNode, hkind]
    refine switchNode_good k out r.act _ _ _ _ _
      (tests_from out _ (fun o ho => filter_sub _ _ o (filter_sub _ _ o ho)) _) hdf ?_
    intro secs td h
    split at h
    · simp at h
    · simp only [Option.some.injEq, Prod.mk.injEq] at h
      rw [← h.2]
      exact lastTgt_from _ _ out (filter_sub _ _)
  case splitValue =>
    simp only [mkNode, hkind]
    exact switchNode_good k out r.act _ _ _ _ _ (tests_from out _ (filter_sub _ _) _) hdf hnw
  case splitGroup =>
    simp only [mkNode, hkind]
    exact switchNode_good k out r.act _ _ _ _ _
      (tests_from out _ (filter_sub _ _) (fun e => ("has_group".toList, [[], e.cond.value]))) hdf hnw
  case webhook =>
    simp only [mkNode, hkind]
    refine switchNode_good k out r.act _ _ _ _ _ ?_ (lastTgt_from _ _ out (fun o h => h)) hnw
    intro t ht
    simp only [List.mem_singleton] at ht
    subst ht
    exact lastTgt_from _ _ out (fun o h => h)
  case airtime =>
    simp only [mkNode, hkind]
    refine switchNode_good k out r.act _ _ _ _ _ ?_ (lastTgt_from _ _ out (fun o h => h)) hnw
    intro t ht
    simp only [List.mem_singleton] at ht
    subst ht
    exact lastTgt_from _ _ out (fun o h => h)
  case goTo => simp only [mkNode, hkind]; exact plainNode_good k out r.act _ hdf
  case hardExit => simp only [mkNode, hkind]; exact plainNode_good k out r.act _ hdf
  case looseExit => simp only [mkNode, hkind]; exact plainNode_good k out r.act _ hdf
  case splitRandom =>
    simp only [mkNode, hkind]
    refine randomNode_good k out r.act _ _ ?_
    exact buckets_from out _ out ([], 0) (fun o h => h) (by simp)
  case enterFlow =>
    simp only [mkNode, hkind, mkSwitch, List.zipIdx_cons, List.zipIdx_nil, List.map_cons, List.map_nil, List.length_cons, List.length_nil, List.nil_append, List.cons_append, Nat.zero_add]
    have hne : ∀ (tag : String), subId k tag 0 ≠ subId k tag 1 := fun tag h => by
      have := subId_inj k tag 0 1 h; omega
    refine ⟨rfl, ?_, ?_, by simp, ?_⟩
    · intro e he
      simp only [List.mem_cons, List.not_mem_nil, or_false] at he
      rcases he with rfl | rfl <;> exact lastTgt_from _ _ out (fun o h => h)
    · intro rt hrt
      simp only [Option.some.injEq] at hrt
      subst hrt
      simp [RouterClosed, Router.cats, Router.cases, Router.defaultCats, Router.timeoutCats, hne]
    · cases r.act with
      | none =>
        refine ⟨0, 2, 2, 2, ?_⟩
        simp [Node.ids, Router.ids, Router.cats, Router.cases, keysOf, enc, nodeId, subId, List.range_succ]
      | some a =>
        refine ⟨1, 2, 2, 2, ?_⟩
        simp [Node.ids, Router.ids, Router.cats, Router.cases, keysOf, enc, nodeId, subId, List.range_succ]

end Rpft.RefFlow
