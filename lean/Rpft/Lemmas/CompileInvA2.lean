/-
Layer A, value builders: the router and node constructors only allocate identifiers; what they
build is closed (cases name categories, destinations are the ones passed in) and uses each
allocated identifier at most once.
-/
import Rpft.Lemmas.CompileInvA
import Rpft.Lemmas.CompileExits
set_option linter.unusedSimpArgs false
set_option linter.unusedVariables false
namespace Rpft.Compile
open Rpft

/-- only the counter moved, by `k` -/
def Bump (s s' : St) (k : Nat) : Prop := s' = { s with next := s.next + k }

theorem Bump.zero (s : St) : Bump s s 0 := rfl

/-- all destinations of a switch router satisfy `D` -/
def SwD (D : Dest → Prop) (r : SwitchR) : Prop := ∀ c ∈ r.allCats, D c.dest

theorem ids_mapCats (r : SwitchR) (f : Cat → Cat) (hu : ∀ c, (f c).uid = c.uid)
    (he : ∀ c, (f c).exitUid = c.exitUid) : (r.mapCats f).ids = r.ids := by
  unfold SwitchR.ids
  rw [allCats_mapCats]
  simp [List.map_map, Function.comp_def, hu, he, SwitchR.mapCats]

theorem ids_setDest (r : SwitchR) (u : Uid) (d : Dest) : (r.setDest u d).ids = r.ids := by
  unfold SwitchR.setDest
  apply ids_mapCats <;> intro c <;> split <;> rfl

theorem swD_setDest {D : Dest → Prop} {r : SwitchR} (u : Uid) {d : Dest} (hd : D d) (h : SwD D r) :
    SwD D (r.setDest u d) := by
  unfold SwD SwitchR.setDest
  rw [allCats_mapCats]
  intro c hc
  simp only [List.mem_map] at hc
  obtain ⟨c0, hc0, rfl⟩ := hc
  split
  · exact hd
  · exact h c0 hc0

theorem caseCatsOk_setDest {r : SwitchR} (u : Uid) (d : Dest) (h : CaseCatsOk r) :
    CaseCatsOk (r.setDest u d) := by
  unfold SwitchR.setDest
  apply caseCatsOk_mapCats _ _ _ h
  intro c; split <;> rfl

theorem cases_setDest (r : SwitchR) (u : Uid) (d : Dest) : (r.setDest u d).cases = r.cases := rfl

theorem catUids_setDest (r : SwitchR) (u : Uid) (d : Dest) :
    (r.setDest u d).allCats.map (·.uid) = r.allCats.map (·.uid) := by
  unfold SwitchR.setDest
  apply allCats_mapCats_uids
  intro c; split <;> rfl

theorem ids_setDflt (r : SwitchR) (d : Dest) : (r.setDflt d).ids = r.ids := by
  unfold SwitchR.setDflt SwitchR.ids SwitchR.allCats; simp

theorem swD_setDflt {D : Dest → Prop} {r : SwitchR} {d : Dest} (hd : D d) (h : SwD D r) :
    SwD D (r.setDflt d) := by
  unfold SwD SwitchR.setDflt SwitchR.allCats at *
  intro c hc
  simp only [List.mem_append, List.mem_singleton] at hc h
  rcases hc with (hc | hc) | hc
  · exact h c (.inl (.inl hc))
  · subst hc; exact hd
  · exact h c (.inr hc)

theorem caseCatsOk_setDflt {r : SwitchR} (d : Dest) (h : CaseCatsOk r) : CaseCatsOk (r.setDflt d) := by
  unfold CaseCatsOk SwitchR.setDflt SwitchR.allCats at *
  simpa using h

theorem mem_allCats_of_find {r : SwitchR} {p : Cat → Bool} {c : Cat} (h : r.allCats.find? p = some c) :
    c ∈ r.allCats := List.mem_of_find?_eq_some h

/-- `add_choice`, choosing the category -/
theorem choiceCat_spec (r : SwitchR) (name : Str) (dest : Dest) (isDefault : Bool) (s : St) :
    wp (choiceCat r name dest isDefault) s (fun rc s' =>
      ∃ k, Bump s s' k ∧ Grow s.next (s.next + k) r.ids rc.1.ids ∧
        (∀ D : Dest → Prop, D dest → SwD D r → SwD D rc.1) ∧
        rc.2 ∈ rc.1.allCats.map (·.uid) ∧ rc.1.cases = r.cases ∧
        (∀ u ∈ r.allCats.map (·.uid), u ∈ rc.1.allCats.map (·.uid))) := by
  unfold choiceCat
  wp_simp
  refine ⟨?_, ?_⟩
  · intro _
    have hids : ∀ (n : Str), ({ r with dflt := { r.dflt with dest := dest, name := n } } : SwitchR).ids = r.ids := by
      intro n; unfold SwitchR.ids SwitchR.allCats; simp
    refine ⟨0, rfl, ?_, ?_, ?_, trivial, ?_⟩
    · simp only [hids, Nat.add_zero]; exact Grow.refl _ _ _
    · intro D hd h
      unfold SwD SwitchR.allCats at *
      intro c hc
      simp only [List.mem_append, List.mem_singleton] at hc h
      rcases hc with (hc | hc) | hc
      · exact h c (.inl (.inl hc))
      · subst hc; exact hd
      · exact h c (.inr hc)
    · simp [SwitchR.allCats]
    · intro u hu; simpa [SwitchR.allCats] using hu
  · intro _
    split
    · rename_i c hc
      wp_simp
      have hcm : c ∈ r.allCats := List.mem_of_find?_eq_some hc
      refine ⟨0, rfl, ?_, ?_, ?_, ?_, ?_⟩
      · simp only [ids_setDest, Nat.add_zero]; exact Grow.refl _ _ _
      · intro D hd h; exact swD_setDest _ hd h
      · rw [catUids_setDest]; exact List.mem_map_of_mem hcm
      · rfl
      · intro u hu; rw [catUids_setDest]; exact hu
    · wp_simp [wp_mkCat]
      refine ⟨fun _ => trivial, fun _ => ?_⟩
      refine ⟨2, rfl, ?_, ?_, ?_, trivial, ?_⟩
      · apply Grow.of_perm (new := [tid s.next, tid (s.next + 1)])
        · rw [List.perm_iff_count]; intro x
          simp only [SwitchR.ids, SwitchR.allCats, List.map_append, List.count_append, List.map_cons,
            List.map_nil, List.count_cons, List.count_nil]
          omega
        · simp [tid_inj]
        · intro x hx
          simp only [List.mem_cons, List.not_mem_nil, or_false] at hx
          rcases hx with rfl | rfl <;> exact inR_tid (by omega) (by omega)
      · intro D hd h
        unfold SwD SwitchR.allCats at *
        intro c hc
        simp only [List.mem_append, List.mem_singleton] at hc h
        rcases hc with ((hc | hc) | hc) | hc
        · exact h c (.inl (.inl hc))
        · subst hc; exact hd
        · exact h c (.inl (.inr hc))
        · exact h c (.inr hc)
      · simp [SwitchR.allCats]
      · intro u hu
        simp only [SwitchR.allCats, List.map_append, List.mem_append] at hu ⊢
        rcases hu with (hu | hu) | hu
        · exact .inl (.inl (.inl hu))
        · exact .inl (.inr hu)
        · exact .inr hu

/-- `add_choice`, appending the case -/
theorem choiceCase_spec (r : SwitchR) (type : Str) (stored : List (Option Str)) (catUid : Uid) (s : St) :
    wp (choiceCase r type stored catUid) s (fun r' s' =>
      Bump s s' 1 ∧
      r' = { r with cases := r.cases ++ [{ uid := tid s.next, type := type, args := stored, catUid := catUid }] }) := by
  unfold choiceCase
  wp_simp [wp_fresh']
  exact ⟨fun _ => ⟨rfl, trivial⟩, fun _ => trivial⟩

/-- what adding a choice does to a router: identifiers are only added (fresh ones, once each),
destinations stay inside any set that contains the new one, cases keep naming categories -/
def ChoiceRel (s : St) (r : SwitchR) (dest : Dest) (r' : SwitchR) (s' : St) : Prop :=
  ∃ k, Bump s s' k ∧ Grow s.next (s.next + k) r.ids r'.ids ∧
    (∀ D : Dest → Prop, D dest → SwD D r → SwD D r') ∧ (CaseCatsOk r → CaseCatsOk r')

theorem addChoice_spec (r : SwitchR) (var type : Str) (args : List (Option Str)) (catName : Str)
    (dest : Dest) (isDefault : Bool) (s : St) :
    wp (addChoice r var type args catName dest isDefault) s (ChoiceRel s r dest) := by
  unfold addChoice
  wp_simp
  generalize hr0 : (if var.isEmpty = true then r else { r with operand := var }) = r0
  have e1 : r0.ids = r.ids := by subst hr0; split <;> rfl
  have e2 : r0.allCats = r.allCats := by subst hr0; split <;> rfl
  have e3 : r0.cases = r.cases := by subst hr0; split <;> rfl
  have hD : ∀ D, SwD D r → SwD D r0 := by intro D h; unfold SwD at *; rw [e2]; exact h
  have hC : CaseCatsOk r → CaseCatsOk r0 := by intro h; unfold CaseCatsOk at *; rw [e2, e3]; exact h
  split
  · split
    · wp_simp
    · wp_simp
      refine ⟨0, rfl, ?_, ?_, ?_⟩
      · rw [ids_setDest, e1]; exact Grow.refl _ _ _
      · intro D hd h; exact swD_setDest _ hd (hD D h)
      · intro h; exact caseCatsOk_setDest _ _ (hC h)
  · wp_simp
    refine wp_mono (choiceCat_spec _ _ _ _ _) ?_
    intro rc s1 ⟨k, hb, hg, hd, hm, hc, hu⟩
    refine wp_mono (choiceCase_spec _ _ _ _ _) ?_
    intro r' s2 ⟨hb2, hr'⟩
    subst hr' hb hb2
    refine ⟨k + 1, by simp [Bump, Nat.add_assoc], ?_, ?_, ?_⟩
    · rw [← e1]
      refine Grow.trans hg ?_ (by omega) (by omega : s.next + k ≤ s.next + (k + 1))
      apply Grow.of_perm (new := [tid (s.next + k)])
      · rw [List.perm_iff_count]; intro x
        simp only [SwitchR.ids, SwitchR.allCats, List.map_append, List.count_append, List.map_cons,
          List.map_nil, List.count_cons, List.count_nil]
        omega
      · simp
      · intro x hx
        simp only [List.mem_cons, List.not_mem_nil, or_false] at hx
        subst hx; exact inR_tid (by simp) (by simp)
    · intro D hdd h
      have := hd D hdd (hD D h)
      unfold SwD at *; simpa [SwitchR.allCats] using this
    · intro h
      have h0 := hC h
      intro kk hkk
      simp only [List.mem_append, List.mem_singleton] at hkk
      have hcats : ∀ u, u ∈ rc.1.allCats.map (·.uid) →
          u ∈ (SwitchR.allCats { rc.1 with cases := rc.1.cases ++ [{ uid := tid (s.next + k), type := type, args := if s.noArgs.contains type = true then [] else args, catUid := rc.2 }] }).map (·.uid) := by
        intro u hu; simpa [SwitchR.allCats] using hu
      rcases hkk with hkk | hkk
      · apply hcats; apply hu; rw [hc] at hkk; exact h0 kk hkk
      · subst hkk; exact hcats _ hm

def RndRel (s : St) (r : RandomR) (dest : Dest) (r' : RandomR) (s' : St) : Prop :=
  ∃ k, Bump s s' k ∧ Grow s.next (s.next + k) r.ids r'.ids ∧
    (∀ D : Dest → Prop, D dest → (∀ c ∈ r.cats, D c.dest) → ∀ c ∈ r'.cats, D c.dest)

theorem randomAddChoice_spec (r : RandomR) (name : Str) (dest : Dest) (s : St) :
    wp (randomAddChoice r name dest) s (RndRel s r dest) := by
  unfold randomAddChoice
  wp_simp
  split
  · rename_i c hc
    wp_simp
    refine ⟨0, rfl, ?_, ?_⟩
    · have : ∀ f : Cat → Cat, (∀ c, (f c).uid = c.uid) → (∀ c, (f c).exitUid = c.exitUid) →
          ({ r with cats := r.cats.map f } : RandomR).ids = r.ids := by
        intro f h1 h2; simp [RandomR.ids, List.map_map, Function.comp_def, h1, h2]
      rw [this]
      · exact Grow.refl _ _ _
      · intro c; split <;> rfl
      · intro c; split <;> rfl
    · intro D hd h c' hc'
      simp only [List.mem_map] at hc'
      obtain ⟨c0, hc0, rfl⟩ := hc'
      split
      · exact hd
      · exact h c0 hc0
  · wp_simp [wp_mkCat]
    refine ⟨2, rfl, ?_, ?_⟩
    · simp only [RandomR.ids]
      grow_new [tid s.next, tid (s.next + 1)]
    · intro D hd h c hc
      simp only [List.mem_append, List.mem_singleton] at hc
      rcases hc with hc | hc
      · exact h c hc
      · subst hc; exact hd

end Rpft.Compile
