import Rpft.Bisim
set_option linter.unusedSimpArgs false
set_option linter.unusedVariables false
namespace Rpft.Bisim

variable {S T O : Type} [DecidableEq S] [DecidableEq T] [DecidableEq O]

theorem succOk_none_none (R : List (S × T)) : succOk R (none : Option S) (none : Option T) = true := rfl

theorem sound_aux (A : Sys S O) (B : Sys T O) (R : List (S × T))
    (hR : R.all (pairOk A B R) = true) :
    ∀ (n : Nat) (s : Option S) (t : Option T) (env : Nat → Nat),
      succOk R s t = true → run A s env n = run B t env n := by
  intro n
  induction n with
  | zero => intro s t env _; cases s <;> cases t <;> rfl
  | succ n ih =>
    intro s t env hst
    cases s with
    | none =>
      cases t with
      | none => rfl
      | some q => simp [succOk] at hst
    | some p =>
      cases t with
      | none => simp [succOk] at hst
      | some q =>
        have hmem : (p, q) ∈ R := by
          simpa [succOk, List.contains_iff_mem] using hst
        have hp : pairOk A B R (p, q) = true := (List.all_eq_true.mp hR) (p, q) hmem
        simp only [pairOk, Bool.and_eq_true, decide_eq_true_eq, List.all_eq_true,
          List.mem_range] at hp
        obtain ⟨⟨hobs, har⟩, hsucc⟩ := hp
        simp only [run]
        rw [hobs]
        congr 1
        apply ih
        unfold Sys.step
        by_cases h0 : A.arity p = 0
        · have h0' : B.arity q = 0 := by rw [← har]; exact h0
          simp [h0, h0', succOk]
        · have h0' : B.arity q ≠ 0 := by rw [← har]; exact h0
          simp only [h0, h0', if_false]
          rw [← har]
          exact hsucc _ (Nat.mod_lt _ (Nat.pos_of_ne_zero h0))

end Rpft.Bisim
