/-
The node-group operations of the compiler machine (`has_loose_exits`, `connect_loose_exits`,
`add_exit` and what they call) preserve the arena simulation `ASim`: run on related states with
related arguments — and any two amounts of fuel — they give related results and states whenever
both succeed.
-/
import Rpft.Lemmas.CompileInsertSim
import Rpft.Lemmas.CompileInsertInert
import Rpft.Lemmas.CompileInvA4
set_option linter.unusedSimpArgs false
set_option linter.unusedVariables false
namespace Rpft.Compile
open Rpft Function

/-- the parser's scope (stack of open blocks, row ids, node names) did not change -/
def SEq (s t : St) : Prop := t.stack = s.stack ∧ t.rowIds = s.rowIds ∧ t.names = s.names

theorem SEq.refl (s : St) : SEq s s := ⟨rfl, rfl, rfl⟩
theorem SEq.trans {s t u : St} (h : SEq s t) (h' : SEq t u) : SEq s u :=
  ⟨h'.1.trans h.1, h'.2.1.trans h.2.1, h'.2.2.trans h.2.2⟩

variable {P : Params}

/-- postcondition of an arena-level operation -/
def RPost (P : Params) (s₁ s₂ : St) {α β : Type} (V : α → β → Prop) : α → St → β → St → Prop :=
  fun a t₁ b t₂ => V a b ∧ ASim P t₁ t₂ ∧ SEq s₁ t₁ ∧ SEq s₂ t₂

theorem RPost.mono {s₁ s₂ : St} {α β : Type} {V W : α → β → Prop} (hv : ∀ a b, V a b → W a b)
    {a : α} {t₁ : St} {b : β} {t₂ : St} (h : RPost P s₁ s₂ V a t₁ b t₂) : RPost P s₁ s₂ W a t₁ b t₂ :=
  ⟨hv _ _ h.1, h.2⟩

/-- sequencing of arena-level operations -/
theorem arel_bind {α β α' β' : Type} {m₁ : M α} {m₂ : M β} {f₁ : α → M α'} {f₂ : β → M β'} {s₁ s₂ : St}
    {V : α → β → Prop} {W : α' → β' → Prop}
    (hm : rwp m₁ m₂ s₁ s₂ (RPost P s₁ s₂ V))
    (hf : ∀ a b u₁ u₂, V a b → ASim P u₁ u₂ → SEq s₁ u₁ → SEq s₂ u₂ →
      rwp (f₁ a) (f₂ b) u₁ u₂ (RPost P u₁ u₂ W)) :
    rwp (m₁ >>= f₁) (m₂ >>= f₂) s₁ s₂ (RPost P s₁ s₂ W) := by
  rw [rwp_bind]
  refine rwp_mono hm ?_
  intro a u₁ b u₂ ⟨hv, hs, e1, e2⟩
  refine rwp_mono (hf a b u₁ u₂ hv hs e1 e2) ?_
  intro a' t₁ b' t₂ ⟨hw, hs', e1', e2'⟩
  exact ⟨hw, hs', e1.trans e1', e2.trans e2'⟩

/-- an identifier-only operation followed by anything -/
theorem rwp_bind_id {α β γ : Type} {rn : α → α} {m₁ m₂ : M α} {f₁ : α → M β} {f₂ : α → M γ} {s₁ s₂ : St}
    {Q : β → St → γ → St → Prop} (hm : IdRel P.ρ rn m₁ m₂) (hs : IdSync P.ρ s₁ s₂)
    (hf : ∀ a k, rwp (f₁ a) (f₂ (rn a)) { s₁ with next := s₁.next + k } { s₂ with next := s₂.next + k } Q) :
    rwp (m₁ >>= f₁) (m₂ >>= f₂) s₁ s₂ Q := by
  rw [rwp_bind]
  refine rwp_mono (hm s₁ s₂ hs) ?_
  intro a u₁ b u₂ ⟨hb, k, e1, e2⟩
  subst b; subst u₁; subst u₂
  exact hf a k

/-- the same, with a unary fact about the left computation -/
theorem rwp_bind_id_u {α β γ : Type} {rn : α → α} {m₁ m₂ : M α} {f₁ : α → M β} {f₂ : α → M γ} {s₁ s₂ : St}
    {Q : β → St → γ → St → Prop} {U : α → St → Prop} (hu : wp m₁ s₁ U) (hm : IdRel P.ρ rn m₁ m₂)
    (hs : IdSync P.ρ s₁ s₂)
    (hf : ∀ a k, U a { s₁ with next := s₁.next + k } →
      rwp (f₁ a) (f₂ (rn a)) { s₁ with next := s₁.next + k } { s₂ with next := s₂.next + k } Q) :
    rwp (m₁ >>= f₁) (m₂ >>= f₂) s₁ s₂ Q := by
  rw [rwp_bind]
  intro a u₁ b u₂ h1 h2
  obtain ⟨hb, k, e1, e2⟩ := hm s₁ s₂ hs a u₁ b u₂ h1 h2
  have hua := wp_of_run hu h1
  subst b; subst u₁; subst u₂
  exact hf a k hua

theorem bump_asim {s₁ s₂ : St} (h : ASim P s₁ s₂) (k : Nat) :
    ASim P { s₁ with next := s₁.next + k } { s₂ with next := s₂.next + k } :=
  h.bumps ⟨k, rfl, rfl⟩

/-! ### nodes without loose exit -/

theorem hasLoose_basic {n : NodeM} (hr : n.router = none) : n.hasLoose = false ↔ n.dexitDest ≠ Dest.none := by
  unfold NodeM.hasLoose NodeM.exitDests
  rw [hr]
  cases n.dexitDest <;> simp

theorem hasLoose_sw {n : NodeM} {r : SwitchR} (hr : n.router = some (.sw r)) :
    n.hasLoose = false ↔ SwD (· ≠ Dest.none) r := by
  unfold NodeM.hasLoose NodeM.exitDests SwD
  rw [hr]
  simp only [List.any_eq_false, List.mem_map, forall_exists_index, and_imp, forall_apply_eq_imp_iff₂]
  constructor
  · intro h c hc e; exact h c hc (by rw [e]; rfl)
  · intro h c hc e; exact h c hc (by cases hd : c.dest <;> simp_all)

theorem hasLoose_rnd {n : NodeM} {r : RandomR} (hr : n.router = some (.rnd r)) :
    n.hasLoose = false ↔ ∀ c ∈ r.cats, c.dest ≠ Dest.none := by
  unfold NodeM.hasLoose NodeM.exitDests
  rw [hr]
  simp only [List.any_eq_false, List.mem_map, forall_exists_index, and_imp, forall_apply_eq_imp_iff₂]
  constructor
  · intro h c hc e; exact h c hc (by rw [e]; rfl)
  · intro h c hc e; exact h c hc (by cases hd : c.dest <;> simp_all)

/-- a new default exit that leads somewhere -/
theorem hasLoose_setDexit (n : NodeM) (u : Uid) (d : Dest) (hd : d ≠ Dest.none) (h : n.hasLoose = false) :
    ({ n with dexitUid := u, dexitDest := d } : NodeM).hasLoose = false := by
  unfold NodeM.hasLoose NodeM.exitDests at h ⊢
  dsimp only at h ⊢
  cases hr : n.router with
  | none =>
    simp only []
    cases d with
    | none => exact absurd rfl hd
    | hard => rfl
    | node u => rfl
  | some rt =>
    rw [hr] at h
    cases rt <;> exact h

theorem noLoose_setDexit (n : NodeM) (u : Uid) (d : Dest) (hd : d ≠ Dest.none) (h : NoLoose n) :
    NoLoose ({ n with dexitUid := u, dexitDest := d } : NodeM) :=
  ⟨hasLoose_setDexit n u d hd h.1, fun _ => hd⟩

theorem noLoose_sw {n : NodeM} {r r' : SwitchR} (hr : n.router = some (.sw r)) (h : NoLoose n)
    (hD : SwD (· ≠ Dest.none) r → SwD (· ≠ Dest.none) r') : NoLoose ({ n with router := some (.sw r') } : NodeM) :=
  ⟨(hasLoose_sw (n := { n with router := some (.sw r') }) rfl).mpr (hD ((hasLoose_sw hr).mp h.1)), h.2⟩

theorem noLoose_rnd {n : NodeM} {r r' : RandomR} (hr : n.router = some (.rnd r)) (h : NoLoose n)
    (hD : (∀ c ∈ r.cats, c.dest ≠ Dest.none) → ∀ c ∈ r'.cats, c.dest ≠ Dest.none) :
    NoLoose ({ n with router := some (.rnd r') } : NodeM) :=
  ⟨(hasLoose_rnd (n := { n with router := some (.rnd r') }) rfl).mpr (hD ((hasLoose_rnd hr).mp h.1)), h.2⟩

theorem noLoose_actions {n : NodeM} (as : List (Uid × Str)) (h : NoLoose n) :
    NoLoose ({ n with actions := as } : NodeM) := ⟨h.1, h.2⟩

theorem noLoose_connectLoose (n : NodeM) (d : Dest) (hd : d ≠ Dest.none) (h : NoLoose n) :
    NoLoose (n.connectLoose d) := by
  refine ⟨connectLoose_no_loose n d hd, ?_⟩
  unfold NodeM.connectLoose
  cases hr : n.router with
  | none =>
    simp only []
    split
    · intro _; exact hd
    · exact h.2
  | some rt => cases rt <;> exact h.2

/-- the actions of a node do not matter -/
theorem hasLoose_actions (n : NodeM) (as : List (Uid × Str)) : ({ n with actions := as } : NodeM).hasLoose = n.hasLoose := rfl

theorem connectLoose_dexitUid (n : NodeM) (d : Dest) : (n.connectLoose d).dexitUid = n.dexitUid := by
  unfold NodeM.connectLoose
  split
  · split <;> rfl
  · rfl
  · rfl

/-- `fresh` followed by anything: the identifier drawn is known -/
theorem rwp_bind_fresh {β γ : Type} {f₁ : Uid → M β} {f₂ : Uid → M γ} {s₁ s₂ : St}
    {Q : β → St → γ → St → Prop} (hs : IdSync P.ρ s₁ s₂)
    (hf : rwp (f₁ (tid s₁.next)) (f₂ (P.ρ (tid s₁.next))) { s₁ with next := s₁.next + 1 }
      { s₂ with next := s₂.next + 1 } Q) :
    rwp (fresh >>= f₁) (fresh >>= f₂) s₁ s₂ Q := by
  rw [rwp_bind, rwp_iff_wp, wp_fresh']
  rw [wp_fresh']
  have := hs.ids 0
  simp only [Nat.add_zero] at this
  rw [← this]
  exact hf

/-- the node `newRouterNode` builds -/
def mkRouterNode (u : Uid) (kind : NodeKind) (r : RouterM) (e : Uid) : NodeM :=
  { uid := u, kind := kind, actions := [], router := some r, dexitUid := e, dexitDest := .none }

/-- `newRouterNode` followed by anything: the node built is known -/
theorem rwp_bind_newRouterNode {β γ : Type} (u : Uid) (kind : NodeKind) (r : RouterM)
    {f₁ : NodeM → M β} {f₂ : NodeM → M γ} {s₁ s₂ : St}
    {Q : β → St → γ → St → Prop} (hs : IdSync P.ρ s₁ s₂)
    (hf : rwp (f₁ (mkRouterNode u kind r (tid s₁.next)))
      (f₂ (rnNode P.ρ (mkRouterNode u kind r (tid s₁.next))))
      { s₁ with next := s₁.next + 1 } { s₂ with next := s₂.next + 1 } Q) :
    rwp (newRouterNode u kind r >>= f₁) (newRouterNode (P.ρ u) kind (rnRouter P.ρ r) >>= f₂) s₁ s₂ Q := by
  rw [rwp_bind, rwp_iff_wp, wp_newRouterNode]
  rw [wp_newRouterNode]
  have := hs.ids 0
  simp only [Nat.add_zero] at this
  rw [← this]
  exact hf

/-- an identifier-only operation as an arena-level operation -/
theorem arel_of_id {α : Type} {rn : α → α} {m₁ m₂ : M α} (hm : IdRel P.ρ rn m₁ m₂) {s₁ s₂ : St}
    (h : ASim P s₁ s₂) : rwp m₁ m₂ s₁ s₂ (RPost P s₁ s₂ (fun a b => b = rn a)) := by
  refine rwp_mono (hm s₁ s₂ h.idSync) ?_
  intro a u₁ b u₂ ⟨hb, k, e1, e2⟩
  subst u₁; subst u₂
  exact ⟨hb, bump_asim h k, ⟨rfl, rfl, rfl⟩, ⟨rfl, rfl, rfl⟩⟩

/-! ### reading -/

theorem getNode_rel {s₁ s₂ : St} (h : ASim P s₁ s₂) {i : Nat} (hd : P.DN i) :
    rwp (getNode i) (getNode (P.ν i)) s₁ s₂ (fun a t₁ b t₂ =>
      b = rnNode P.ρ a ∧ s₁.nodes[i]? = some a ∧ t₁ = s₁ ∧ t₂ = s₂) := by
  rw [rwp_iff_wp, wp_getNode]
  intro n hn
  rw [wp_getNode]
  intro n' hn'
  rw [h.nodes i n hd hn] at hn'
  injection hn' with hn'
  exact ⟨hn'.symm, hn, rfl, rfl⟩

theorem getGrp_rel {s₁ s₂ : St} (h : ASim P s₁ s₂) {j : Nat} (hd : P.DG j) :
    rwp (getGrp j) (getGrp (P.γ j)) s₁ s₂ (fun a t₁ b t₂ =>
      b = mapGrpAt P j a ∧ s₁.groups[j]? = some a ∧ t₁ = s₁ ∧ t₂ = s₂) := by
  rw [rwp_iff_wp, wp_getGrp]
  intro g hg
  rw [wp_getGrp]
  intro g' hg'
  rw [h.groups j g hd hg] at hg'
  injection hg' with hg'
  exact ⟨hg'.symm, hg, rfl, rfl⟩

/-- read-only results in correspondence -/
def RO {α β : Type} (V : α → β → Prop) (s₁ s₂ : St) : α → St → β → St → Prop :=
  fun a t₁ b t₂ => V a b ∧ t₁ = s₁ ∧ t₂ = s₂

theorem rwp_anyM {β γ : Type} (φ : β → γ) (l : List β) (f₁ : β → M Bool) (f₂ : γ → M Bool) (s₁ s₂ : St)
    (h : ∀ x ∈ l, rwp (f₁ x) (f₂ (φ x)) s₁ s₂ (RO (fun a b => b = a) s₁ s₂)) :
    rwp (l.anyM f₁) ((l.map φ).anyM f₂) s₁ s₂ (RO (fun a b => b = a) s₁ s₂) := by
  induction l with
  | nil =>
    show rwp (pure false) (pure false) s₁ s₂ _
    rw [rwp_pure]; exact ⟨rfl, rfl, rfl⟩
  | cons x l ih =>
    simp only [List.map_cons, List.anyM]
    rw [rwp_bind]
    refine rwp_mono (h x (by simp)) ?_
    intro a t₁ b t₂ ⟨hb, e1, e2⟩
    subst b; subst t₁; subst t₂
    cases a with
    | true => rw [rwp_pure]; exact ⟨rfl, rfl, rfl⟩
    | false => exact ih (fun y hy => h y (by simp [hy]))

theorem getLast?_map {α β : Type} (f : α → β) (l : List α) : (l.map f).getLast? = l.getLast?.map f := by
  simp [List.getLast?_eq_getElem?]

theorem mem_of_getLast? {α : Type} {l : List α} {a : α} (h : l.getLast? = some a) : a ∈ l :=
  List.mem_of_getLast? h

theorem nodeHasLoose_rel {s₁ s₂ : St} (h : ASim P s₁ s₂) {i : Nat} (hd : P.DN i) :
    rwp (do pure (← getNode i).hasLoose) (do pure (← getNode (P.ν i)).hasLoose) s₁ s₂
      (RO (fun a b => b = a) s₁ s₂) := by
  rw [rwp_bind]
  refine rwp_mono (getNode_rel h hd) ?_
  intro a t₁ b t₂ ⟨hb, _, e1, e2⟩
  subst b; subst t₁; subst t₂
  rw [rwp_pure]
  exact ⟨rnNode_hasLoose a, rfl, rfl⟩

theorem hasLoose_rel (ok : P.Ok) {s₁ s₂ : St} (h : ASim P s₁ s₂) : ∀ (f₁ f₂ j : Nat), P.DG j → ¬ P.T j →
    rwp (hasLoose f₁ j) (hasLoose f₂ (P.γ j)) s₁ s₂ (RO (fun a b => b = a) s₁ s₂) := by
  intro f₁
  induction f₁ with
  | zero => intro f₂ j _ _; unfold hasLoose; exact rwp_fail_left _ _ _ _ _
  | succ f₁ ih =>
    intro f₂ j hd ht
    cases f₂ with
    | zero =>
      rw [show hasLoose 0 (P.γ j) = fail .fuel by unfold hasLoose; rfl]
      exact rwp_fail_right _ _ _ _ _
    | succ f₂ =>
      unfold hasLoose
      rw [rwp_bind]
      refine rwp_mono (getGrp_rel h hd) ?_
      intro g t₁ g' t₂ ⟨hg', hg, e1, e2⟩
      subst g'; subst t₁; subst t₂
      have hcl := h.closed j g hd hg
      have hra := h.ra j g hd ht hg
      cases g with
      | row nodes t =>
        simp only [mapGrpAt_row, getLast?_map]
        cases hl : nodes.getLast? with
        | none => simp only [Option.map_none]; rw [rwp_pure]; exact ⟨rfl, rfl, rfl⟩
        | some i =>
          simp only [Option.map_some]
          exact nodeHasLoose_rel h (hcl.1 i (mem_of_getLast? hl))
      | noop ps router =>
        simp only [mapGrpAt_noop]
        cases router with
        | some i =>
          simp only [Option.map_some]
          exact nodeHasLoose_rel h (hcl.1 i (by simp [gnodes]))
        | none =>
          simp only [Option.map_none]
          refine rwp_anyM (fun p : Nat × Cond => (P.γ p.1, p.2)) ps _ _ s₁ s₂ ?_
          intro p hp
          exact ih f₂ p.1 (hcl.2 p.1 (by simp [grefs]; exact ⟨p.2, hp⟩))
            (hra p.1 (by simp [grefs]; exact ⟨p.2, hp⟩))
      | block cs =>
        have main : rwp (cs.anyM fun c => hasLoose f₁ c) ((cs.map P.γ).anyM fun c => hasLoose f₂ c) s₁ s₂
            (RO (fun a b => b = a) s₁ s₂) := by
          refine rwp_anyM P.γ cs _ _ s₁ s₂ ?_
          intro c hc
          exact ih f₂ c (hcl.2 c (by simp [grefs, hc])) (hra c (by simp [grefs, hc]))
        cases hop : P.op with
        | false =>
          have hne := ok.ne_bx hop ht
          simp only [mapGrpAt_block_ne P hne]
          exact main
        | true =>
          by_cases hjb : j = P.bx
          · subst hjb
            simp only [mapGrpAt_block_bx P (ok.hgx hop).1, List.anyM]
            refine rwp_skip_right (inert_hasLoose (h.pl hop) f₂) ?_
            simp only [Bool.false_eq_true, if_false]
            exact main
          · simp only [mapGrpAt_block_ne P (.inl hjb)]
            exact main

/-! ### writing -/

theorem seq3 (s : St) : SEq s s := SEq.refl s

theorem connectNode_rel (ok : P.Ok) {s₁ s₂ : St} (h : ASim P s₁ s₂) {i : Nat} (hd : P.DN i) (d : Dest)
    (hdn : P.op = true → d ≠ Dest.none) :
    rwp (connectNode i d) (connectNode (P.ν i) (rnDest P.ρ d)) s₁ s₂ (RPost P s₁ s₂ (fun _ _ => True)) := by
  unfold connectNode
  rw [rwp_bind]
  refine rwp_mono (getNode_rel h hd) ?_
  intro n t₁ n' t₂ ⟨hn', hn, e1, e2⟩
  subst n'; subst t₁; subst t₂
  rw [rwp_iff_wp, wp_setNode, wp_setNode, rnNode_connectLoose]
  exact ⟨trivial, h.setNode ok hd hn (.inl (connectLoose_dexitUid n d))
    (fun hop hl => noLoose_connectLoose n d (hdn hop) hl), ⟨rfl, rfl, rfl⟩, ⟨rfl, rfl, rfl⟩⟩

/-- loop invariant of arena-level loops: simulation, scope unchanged w.r.t. the start -/
def AInvL (P : Params) (s₁ s₂ : St) : St → St → Prop := fun t₁ t₂ => ASim P t₁ t₂ ∧ SEq s₁ t₁ ∧ SEq s₂ t₂

theorem rpost_of_invl {s₁ s₂ : St} {m₁ m₂ : M PUnit}
    (h : rwp m₁ m₂ s₁ s₂ (fun _ t₁ _ t₂ => AInvL P s₁ s₂ t₁ t₂)) :
    rwp m₁ m₂ s₁ s₂ (RPost P s₁ s₂ (fun _ _ => True)) :=
  rwp_mono h fun _ _ _ _ hh => ⟨trivial, hh⟩

/-- loop over corresponding lists of an arena-level operation -/
theorem arel_forM {β γ : Type} (φ : β → γ) (l : List β) (f₁ : β → M PUnit) (f₂ : γ → M PUnit) {s₁ s₂ : St}
    (h : ASim P s₁ s₂)
    (hf : ∀ x ∈ l, ∀ u₁ u₂, ASim P u₁ u₂ → rwp (f₁ x) (f₂ (φ x)) u₁ u₂ (RPost P u₁ u₂ (fun _ _ => True))) :
    rwp (l.forM f₁) ((l.map φ).forM f₂) s₁ s₂ (RPost P s₁ s₂ (fun _ _ => True)) := by
  apply rpost_of_invl
  refine rwp_forM (AInvL P s₁ s₂) φ l f₁ f₂ ?_ s₁ s₂ ⟨h, SEq.refl _, SEq.refl _⟩
  intro x hx u₁ u₂ ⟨hu, e1, e2⟩
  refine rwp_mono (hf x hx u₁ u₂ hu) ?_
  intro _ t₁ _ t₂ ⟨_, ht, e1', e2'⟩
  exact ⟨ht, e1.trans e1', e2.trans e2'⟩

theorem connectLoose_rel (ok : P.Ok) (d : Dest) (hdn : P.op = true → d ≠ Dest.none) :
    ∀ (f₁ f₂ j : Nat) (s₁ s₂ : St), ASim P s₁ s₂ → P.DG j → ¬ P.T j →
    rwp (connectLoose f₁ j d) (connectLoose f₂ (P.γ j) (rnDest P.ρ d)) s₁ s₂ (RPost P s₁ s₂ (fun _ _ => True)) := by
  intro f₁
  induction f₁ with
  | zero => intro f₂ j s₁ s₂ _ _ _; unfold connectLoose; exact rwp_fail_left _ _ _ _ _
  | succ f₁ ih =>
    intro f₂ j s₁ s₂ h hd ht
    cases f₂ with
    | zero =>
      rw [show connectLoose 0 (P.γ j) (rnDest P.ρ d) = fail .fuel by unfold connectLoose; rfl]
      exact rwp_fail_right _ _ _ _ _
    | succ f₂ =>
      unfold connectLoose
      rw [rwp_bind]
      refine rwp_mono (getGrp_rel h hd) ?_
      intro g t₁ g' t₂ ⟨hg', hg, e1, e2⟩
      subst g'; subst t₁; subst t₂
      have hcl := h.closed j g hd hg
      have hra := h.ra j g hd ht hg
      cases g with
      | row nodes t =>
        simp only [mapGrpAt_row, getLast?_map]
        cases hl : nodes.getLast? with
        | none =>
          simp only [Option.map_none]; rw [rwp_pure]
          exact ⟨trivial, h, SEq.refl _, SEq.refl _⟩
        | some i =>
          simp only [Option.map_some]
          exact connectNode_rel ok h (hcl.1 i (mem_of_getLast? hl)) d hdn
      | noop ps router =>
        simp only [mapGrpAt_noop]
        cases router with
        | some i =>
          simp only [Option.map_some]
          exact connectNode_rel ok h (hcl.1 i (by simp [gnodes])) d hdn
        | none =>
          simp only [Option.map_none]
          refine arel_forM (fun p : Nat × Cond => (P.γ p.1, p.2)) ps _ _ h ?_
          intro p hp u₁ u₂ hu
          exact ih f₂ p.1 u₁ u₂ hu (hcl.2 p.1 (by simp [grefs]; exact ⟨p.2, hp⟩))
            (hra p.1 (by simp [grefs]; exact ⟨p.2, hp⟩))
      | block cs =>
        have main : rwp (cs.forM fun c => connectLoose f₁ c d)
            ((cs.map P.γ).forM fun c => connectLoose f₂ c (rnDest P.ρ d)) s₁ s₂ (RPost P s₁ s₂ (fun _ _ => True)) := by
          refine arel_forM P.γ cs _ _ h ?_
          intro c hc u₁ u₂ hu
          exact ih f₂ c u₁ u₂ hu (hcl.2 c (by simp [grefs, hc])) (hra c (by simp [grefs, hc]))
        cases hop : P.op with
        | false =>
          have hne := ok.ne_bx hop ht
          simp only [mapGrpAt_block_ne P hne]
          exact main
        | true =>
          by_cases hjb : j = P.bx
          · subst hjb
            simp only [mapGrpAt_block_bx P (ok.hgx hop).1]
            show rwp _ (connectLoose f₂ P.gx (rnDest P.ρ d) >>= fun _ => (cs.map P.γ).forM fun c => connectLoose f₂ c (rnDest P.ρ d)) s₁ s₂ _
            refine rwp_skip_right (c := PUnit.unit) (wp_mono (inert_connectLoose (h.pl hop) f₂ _) (fun _ _ e => ⟨e, rfl⟩)) ?_
            exact main
          · simp only [mapGrpAt_block_ne P (.inl hjb)]
            exact main

theorem updSwitch_rel (ok : P.Ok) {s₁ s₂ : St} (h : ASim P s₁ s₂) {i : Nat} (hd : P.DN i)
    {f₁ f₂ : SwitchR → M SwitchR} (hf : ∀ r, IdRel P.ρ (rnSw P.ρ) (f₁ r) (f₂ (rnSw P.ρ r)))
    (d : Dest) (hdn : P.op = true → d ≠ Dest.none) (hu : SwUpd d f₁) :
    rwp (updSwitch i f₁) (updSwitch (P.ν i) f₂) s₁ s₂ (RPost P s₁ s₂ (fun _ _ => True)) := by
  unfold updSwitch
  rw [rwp_bind]
  refine rwp_mono (getNode_rel h hd) ?_
  intro n t₁ n' t₂ ⟨hn', hn, e1, e2⟩
  subst n'; subst t₁; subst t₂
  cases hr : n.router with
  | none => exact rwp_fail_left _ _ _ _ _
  | some rt =>
    cases rt with
    | rnd r => exact rwp_fail_left _ _ _ _ _
    | sw r =>
      simp only [rnNode_router, hr, Option.map_some, rnRouter]
      refine rwp_bind_id_u (hu r s₁) (hf r) h.idSync ?_
      intro r' k ⟨_, _, _, hD, _⟩
      rw [rwp_iff_wp, wp_setNode, wp_setNode]
      exact ⟨trivial, (bump_asim h k).setNode ok hd hn (n' := { n with router := some (.sw r') }) (.inl rfl)
        (fun hop hl => noLoose_sw hr hl (hD (· ≠ Dest.none) (hdn hop))),
        ⟨rfl, rfl, rfl⟩, ⟨rfl, rfl, rfl⟩⟩

theorem setCatDestByName_rel (ok : P.Ok) (r : SwitchR) (name : Str) (d : Dest) :
    IdRel P.ρ (rnSw P.ρ) (setCatDestByName r name d) (setCatDestByName (rnSw P.ρ r) name (rnDest P.ρ d)) := by
  unfold setCatDestByName
  rw [rnSw_catByName]
  cases r.catByName name with
  | none => exact IdRel.fail_left _ _
  | some c => exact IdRel.pure (rnSw_setDest ok.hρ r c.uid d)

theorem setDfltM_rel (r : SwitchR) (d : Dest) :
    IdRel P.ρ (rnSw P.ρ) (setDfltM d r) (setDfltM (rnDest P.ρ d) (rnSw P.ρ r)) := by
  unfold setDfltM
  exact IdRel.pure rfl

theorem rowExitBlank_rel (ok : P.Ok) {s₁ s₂ : St} (h : ASim P s₁ s₂) {i : Nat} (hd : P.DN i) (n : NodeM)
    (hn : s₁.nodes[i]? = some n) (d : Dest) (hdn : P.op = true → d ≠ Dest.none) :
    rwp (rowExitBlank i n d) (rowExitBlank (P.ν i) (rnNode P.ρ n) (rnDest P.ρ d)) s₁ s₂
      (RPost P s₁ s₂ (fun _ _ => True)) := by
  unfold rowExitBlank
  simp only [rnNode_kind]
  cases hk : n.kind with
  | basic =>
    simp only []
    refine rwp_bind_fresh h.idSync ?_
    rw [rwp_iff_wp, wp_setNode, wp_setNode]
    have := (bump_asim h 1).setNode ok hd hn (n' := { n with dexitUid := tid s₁.next, dexitDest := d })
      (.inr ⟨s₁.next, by simp, rfl⟩)
      (fun hop hl => noLoose_setDexit n _ d (hdn hop) hl)
    rw [hk] at this
    exact ⟨trivial, this, ⟨rfl, rfl, rfl⟩, ⟨rfl, rfl, rfl⟩⟩
  | enter => exact rwp_fail_left _ _ _ _ _
  | «switch» => exact updSwitch_rel ok h hd (fun r => setDfltM_rel r d) d hdn (swUpd_setDflt d)
  | random => exact updSwitch_rel ok h hd (fun r => setDfltM_rel r d) d hdn (swUpd_setDflt d)
  | webhook => exact updSwitch_rel ok h hd (fun r => setDfltM_rel r d) d hdn (swUpd_setDflt d)
  | airtime => exact updSwitch_rel ok h hd (fun r => setDfltM_rel r d) d hdn (swUpd_setDflt d)

theorem rowExitEnter_rel (ok : P.Ok) {s₁ s₂ : St} (h : ASim P s₁ s₂) {i : Nat} (hd : P.DN i) (c : Cond) (d : Dest)
    (hdn : P.op = true → d ≠ Dest.none) :
    rwp (rowExitEnter i c d) (rowExitEnter (P.ν i) c (rnDest P.ρ d)) s₁ s₂ (RPost P s₁ s₂ (fun _ _ => True)) := by
  unfold rowExitEnter
  simp only []
  split
  · exact updSwitch_rel ok h hd (fun r => setCatDestByName_rel ok r _ d) d hdn (swUpd_byName _ d)
  · split
    · exact updSwitch_rel ok h hd (fun r => setDfltM_rel r d) d hdn (swUpd_setDflt d)
    · exact rwp_fail_left _ _ _ _ _

theorem rowExitHook_rel (ok : P.Ok) {s₁ s₂ : St} (h : ASim P s₁ s₂) {i : Nat} (hd : P.DN i) (c : Cond) (d : Dest)
    (hdn : P.op = true → d ≠ Dest.none) :
    rwp (rowExitHook i c d) (rowExitHook (P.ν i) c (rnDest P.ρ d)) s₁ s₂ (RPost P s₁ s₂ (fun _ _ => True)) := by
  unfold rowExitHook
  simp only []
  split
  · exact updSwitch_rel ok h hd (fun r => setCatDestByName_rel ok r _ d) d hdn (swUpd_byName _ d)
  · split
    · exact updSwitch_rel ok h hd (fun r => setDfltM_rel r d) d hdn (swUpd_setDflt d)
    · exact rwp_fail_left _ _ _ _ _

theorem rowExitNoResp_rel (ok : P.Ok) {s₁ s₂ : St} (h : ASim P s₁ s₂) {i : Nat} (hd : P.DN i) (n : NodeM)
    (hn : s₁.nodes[i]? = some n) (d : Dest) (hdn : P.op = true → d ≠ Dest.none) :
    rwp (rowExitNoResp i n d) (rowExitNoResp (P.ν i) (rnNode P.ρ n) (rnDest P.ρ d)) s₁ s₂
      (RPost P s₁ s₂ (fun _ _ => True)) := by
  have triv : rwp (pure () : M Unit) (pure () : M Unit) s₁ s₂ (RPost P s₁ s₂ (fun _ _ => True)) := by
    rw [rwp_pure]; exact ⟨trivial, h, SEq.refl _, SEq.refl _⟩
  unfold rowExitNoResp
  cases hr : n.router with
  | none => simpa [hr] using triv
  | some rt =>
    cases rt with
    | rnd r => simpa [hr, rnRouter] using triv
    | sw r =>
      simp only [rnNode_router, hr, Option.map_some, rnRouter, rnSw_noResp, rnSw_wait]
      cases hnr : r.noResp with
      | none => simpa using triv
      | some nr =>
        rcases hw : r.wait with _ | _ | w
        · simpa using triv
        · simpa using triv
        · simp only [Option.map_some]
          rw [rwp_iff_wp, wp_setNode, wp_setNode]
          refine ⟨trivial, ?_, ⟨rfl, rfl, rfl⟩, ⟨rfl, rfl, rfl⟩⟩
          have := h.setNode ok hd hn (n' := { n with router := some (.sw { r with noResp := some { nr with dest := d } }) })
            (.inl rfl) (fun hop hl => by
              refine noLoose_sw hr hl (fun h0 => ?_)
              intro c hc
              have hc' : c ∈ r.cats ∨ c = r.dflt ∨ c = { nr with dest := d } := by
                simpa [SwitchR.allCats, or_assoc] using hc
              rcases hc' with hc | hc | hc
              · exact h0 c (by simp [SwitchR.allCats, hc])
              · exact h0 c (by simp [SwitchR.allCats, hc])
              · subst hc; exact hdn hop)
          rw [hw] at this
          exact this

end Rpft.Compile
