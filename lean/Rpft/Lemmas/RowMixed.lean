/-
Mixed positional / keyword decoding of a packed record (C09): a cell whose `i`-th entry is
either the plain value of the `i`-th field or a `name;value` pair for ANY field is read as
the record with those values and defaults elsewhere — unless the keyword-first rule of
`assign_value` fires on the whole cell.  Generalises RowPos (all positional) and the
key/value cell of `unparse` (all keyword).
-/
import Rpft.Lemmas.RowFlow
set_option linter.unusedSimpArgs false
set_option linter.unusedVariables false
namespace Rpft.Row
open Rpft Rpft.Cell

/-- one entry of a record cell -/
inductive MEntry where
  | pos (p : SPair)      -- the value alone, at the position of its field
  | kw (p : SPair)       -- `name;value`

def MEntry.pair : MEntry → SPair
  | .pos p => p
  | .kw p => p
def MEntry.pv : MEntry → PV
  | .pos p => posEntry p
  | .kw p => subEntry p
def MEntry.elem : MEntry → Elem
  | .pos p => posElem p
  | .kw p => subElem p

/-- a positional entry at index `i` (counting keyword entries too, as `enumerate` does)
holds the value of the `i`-th field -/
def PosAt (sfs : List Field) : Nat → List MEntry → Prop
  | _, [] => True
  | i, .pos p :: es => sfs[i]? = some p.1 ∧ PosAt sfs (i + 1) es
  | i, .kw _ :: es => PosAt sfs (i + 1) es

theorem fieldAssigners_drop_tail : ∀ (sfs : List Field) (i : Nat),
    (fieldAssigners (sfs.drop i)).tail = fieldAssigners (sfs.drop (i + 1))
  | [], i => by simp [fieldAssigners]
  | (n, t, d) :: rest, 0 => by simp [fieldAssigners]
  | (n, t, d) :: rest, i + 1 => by
    simpa using fieldAssigners_drop_tail rest i

theorem fieldAssigners_drop_get : ∀ (sfs : List Field) (i : Nat) (f : Field), sfs[i]? = some f →
    fieldAssigners (sfs.drop i) = (f.1, assignValue f.2.1) :: fieldAssigners (sfs.drop (i + 1))
  | [], i, f, h => by simp at h
  | (n, t, d) :: rest, 0, f, h => by
    simp at h; subst h; simp [fieldAssigners]
  | (n, t, d) :: rest, i + 1, f, h => by
    simpa using fieldAssigners_drop_get rest i f (by simpa using h)

theorem assignEntries_mixed (sfs : List Field) :
    ∀ (es : List MEntry) (i : Nat) (acc : List (Str × Tree)),
      PosAt sfs i es → (es.map (·.pair.1.1)).Nodup →
      (∀ e ∈ es, fieldLookup e.pair.1.1 sfs = some e.pair.1 ∧ isBasicTy e.pair.1.2.1 = true ∧
        reprOk false e.pair.1.2.1 e.pair.2 = true) →
      (∀ e ∈ es, alookup e.pair.1.1 acc = none) →
      assignEntries (fieldAssigners sfs) [] (fieldAssigners (sfs.drop i)) (es.map (·.pv)) acc =
        .ok (acc ++ es.map (fun e => subTr e.pair))
  | [], _, acc, _, _, _, _ => by simp [assignEntries]
  | e :: es, i, acc, hat, hnd, hok, hacc => by
    obtain ⟨hfl, hb, hr⟩ := hok e (by simp)
    obtain ⟨_, _, hav, _, _, _, _⟩ := basic_leaf hb hr
    have habs : alookup e.pair.1.1 acc = none := hacc e (by simp)
    have hacc' : ∀ q ∈ es, alookup q.pair.1.1 (acc ++ [(e.pair.1.1, leafTree e.pair.2)]) = none := by
      intro q hq
      rw [alookup_append, hacc q (List.mem_cons_of_mem _ hq)]
      have hne : e.pair.1.1 ≠ q.pair.1.1 := by
        intro h
        have hmem : q.pair.1.1 ∈ es.map (·.pair.1.1) :=
          List.mem_map_of_mem (f := fun q : MEntry => q.pair.1.1) hq
        rw [← h] at hmem
        exact (List.nodup_cons.mp hnd).1 hmem
      simp [alookup, hne]
    cases e with
    | pos p =>
      obtain ⟨hget, hat'⟩ := hat
      have hkw : tryKwarg (fieldAssigners sfs) [] (posEntry p) = none := by
        simp [tryKwarg, posEntry]
      have hav' : assignValue p.1.2.1 (posEntry p) = .ok (some (leafTree p.2)) := hav
      have habs' : alookup p.1.1 acc = none := habs
      have ih := assignEntries_mixed sfs es (i + 1) (acc ++ [(p.1.1, leafTree p.2)]) hat'
        (List.nodup_cons.mp hnd).2 (fun q hq => hok q (List.mem_cons_of_mem _ hq)) hacc'
      have hstep : assignEntries (fieldAssigners sfs) [] (fieldAssigners (sfs.drop i))
          (posEntry p :: es.map (·.pv)) acc =
          assignEntries (fieldAssigners sfs) [] (fieldAssigners (sfs.drop (i + 1)))
            (es.map (·.pv)) (acc ++ [(p.1.1, leafTree p.2)]) := by
        rw [fieldAssigners_drop_get sfs i p.1 hget]
        simp only [assignEntries, hkw, hav', setOpt]
        rw [aset_of_absent _ _ acc habs']
      rw [List.map_cons]
      show assignEntries _ _ _ (posEntry p :: _) _ = _
      rw [hstep, ih]
      simp [subTr, MEntry.pair]
    | kw p =>
      have hat' : PosAt sfs (i + 1) es := hat
      have hfl' : fieldLookup p.1.1 sfs = some p.1 := hfl
      have hav' : assignValue p.1.2.1 (.atom (printBasic p.2)) = .ok (some (leafTree p.2)) := hav
      have habs' : alookup p.1.1 acc = none := habs
      have hkw : tryKwarg (fieldAssigners sfs) [] (subEntry p) =
          some (p.1.1, assignValue p.1.2.1, .atom (printBasic p.2)) := by
        simp [tryKwarg, subEntry, remap_nil, alookup_fieldAssigners sfs p.1.1 p.1 hfl']
      have ih := assignEntries_mixed sfs es (i + 1) (acc ++ [(p.1.1, leafTree p.2)]) hat'
        (List.nodup_cons.mp hnd).2 (fun q hq => hok q (List.mem_cons_of_mem _ hq)) hacc'
      have hstep : assignEntries (fieldAssigners sfs) [] (fieldAssigners (sfs.drop i))
          (subEntry p :: es.map (·.pv)) acc =
          assignEntries (fieldAssigners sfs) [] (fieldAssigners (sfs.drop (i + 1)))
            (es.map (·.pv)) (acc ++ [(p.1.1, leafTree p.2)]) := by
        simp only [assignEntries, hkw, hav', setOpt, fieldAssigners_drop_tail]
        rw [aset_of_absent _ _ acc habs']
      rw [List.map_cons]
      show assignEntries _ _ _ (subEntry p :: _) _ = _
      rw [hstep, ih]
      simp [subTr, MEntry.pair]

theorem alookup_map_pairTr : ∀ (es : List MEntry), (es.map (·.pair.1.1)).Nodup → ∀ e ∈ es,
    alookup e.pair.1.1 (es.map fun e => subTr e.pair) = some (leafTree e.pair.2)
  | [], _, e, h => by simp at h
  | q :: es, hnd, e, h => by
    simp only [List.mem_cons] at h
    rcases h with rfl | h
    · simp [subTr, alookup]
    · have hne : q.pair.1.1 ≠ e.pair.1.1 := by
        intro h'
        have hmem : e.pair.1.1 ∈ es.map (·.pair.1.1) :=
          List.mem_map_of_mem (f := fun q : MEntry => q.pair.1.1) h
        rw [← h'] at hmem
        exact (List.nodup_cons.mp hnd).1 hmem
      simp [subTr, alookup, hne]
      simpa [subTr] using alookup_map_pairTr es (List.nodup_cons.mp hnd).2 e h

/-- **Mixed positional / keyword decoding** of a record of basic fields -/
theorem readCell_mixed {sfs : List Field} {skvs : List (Str × Val)} (es : List MEntry)
    (hnames : skvs.map Prod.fst = sfs.map (·.1)) (hfam : subFamily sfs = true) (hne : es ≠ [])
    (hmem : ∀ e ∈ es, e.pair ∈ sfs.zip (skvs.map Prod.snd))
    (hat : PosAt sfs 0 es) (hndE : (es.map (·.pair.1.1)).Nodup)
    (hok : ∀ e ∈ es, reprOk false e.pair.1.2.1 e.pair.2 = true)
    (hkwnb : ∀ p, MEntry.kw p ∈ es → printBasic p.2 ≠ [])
    (hlast : ∀ p, es.getLast? = some (.pos p) → printBasic p.2 ≠ [])
    (hrest : ∀ p ∈ sfs.zip (skvs.map Prod.snd), (∃ e ∈ es, e.pair = p) ∨ p.1.2.2 = some p.2)
    (hunamb : tryKwarg (fieldAssigners sfs) [] (.list (es.map (·.pv))) = none) :
    readCell (plainTop sfs) (joinCell (.list (es.map (·.elem)))) = .ok (.model skvs) := by
  simp only [subFamily, Bool.and_eq_true, List.all_eq_true, decide_eq_true_eq] at hfam
  obtain ⟨hfs, hnd⟩ := hfam
  have hfacts : ∀ e ∈ es, fieldLookup e.pair.1.1 sfs = some e.pair.1 ∧
      isBasicTy e.pair.1.2.1 = true ∧ reprOk false e.pair.1.2.1 e.pair.2 = true ∧
      simpleName e.pair.1.1 = true := by
    intro e he
    have hm := (List.of_mem_zip (hmem e he)).1
    exact ⟨fieldLookup_mem sfs hnd _ hm, (hfs _ hm).2, hok e he, (hfs _ hm).1⟩
  have hstr : ∀ e ∈ es, strOk (printBasic e.pair.2) = true := fun e he =>
    (basic_leaf (hfacts e he).2.1 (hfacts e he).2.2.1).2.2.2.2.2.1
  have hwf : Props.C08.WFCell (.list (es.map (·.elem))) := by
    refine ⟨by simpa using hne, ?_, ?_⟩
    · intro x hx
      obtain ⟨e, he, rfl⟩ := List.mem_map.mp hx
      cases e with
      | pos p => trivial
      | kw p =>
        refine ⟨by simp [MEntry.elem, subElem], ?_⟩
        intro _
        simp [MEntry.elem, subElem, hkwnb p he]
    · intro _ hl
      rw [List.getLast?_map] at hl
      cases hg : es.getLast? with
      | none => simp [hg] at hl
      | some a =>
        rw [hg] at hl
        cases a with
        | pos p =>
          simp only [Option.map_some, Option.some.injEq, MEntry.elem, posElem, Elem.atom.injEq] at hl
          exact hlast p hg hl
        | kw p => simp [MEntry.elem, subElem] at hl
  have hcok : CellOk (.list (es.map (·.elem))) := by
    intro x hx
    obtain ⟨e, he, rfl⟩ := List.mem_map.mp hx
    cases e with
    | pos p => exact hstr _ he
    | kw p =>
      intro s hs
      simp only [MEntry.elem, subElem, List.mem_cons, List.not_mem_nil, or_false] at hs
      rcases hs with rfl | rfl
      · exact simpleName_strOk (hfacts _ he).2.2.2
      · exact hstr _ he
  unfold readCell
  rw [cellParse_joinCell hwf hcok]
  have hpv : PV.ofCell (.list (es.map (·.elem))) = .list (es.map (·.pv)) := by
    simp only [PV.ofCell, List.map_map, PV.list.injEq]
    apply List.map_congr_left
    intro e _
    cases e <;> simp [MEntry.elem, MEntry.pv, PV.ofElem, posElem, posEntry, subElem, subEntry]
  simp only [hpv, assignValue, assignModel, hunamb]
  have hassign := assignEntries_mixed sfs es 0 [] hat hndE
    (fun e he => ⟨(hfacts e he).1, (hfacts e he).2.1, (hfacts e he).2.2.1⟩) (fun _ _ => rfl)
  simp only [List.drop_zero] at hassign
  simp only [hassign, List.nil_append, Option.getD_some, validate]
  rw [validateFields_of_spec _ sfs skvs hnames]
  intro p hp
  rcases hrest p hp with ⟨e, he, rfl⟩ | hd
  · right
    exact ⟨leafTree e.pair.2, alookup_map_pairTr es hndE e he,
      (basic_leaf (hfacts e he).2.1 (hfacts e he).2.2.1).2.2.2.1⟩
  · by_cases hex : ∃ e ∈ es, e.pair.1.1 = p.1.1
    · obtain ⟨e, he, hen⟩ := hex
      right
      have hpe : e.pair = p := by
        have h1 := alookup_zip sfs skvs hnames hnd _ (hmem e he)
        have h2 := alookup_zip sfs skvs hnames hnd p hp
        have hf1 := (hfacts e he).1
        have hf2 := fieldLookup_mem sfs hnd p.1 (List.of_mem_zip hp).1
        rw [hen] at h1 hf1
        rw [h2] at h1
        rw [hf2] at hf1
        exact (Prod.ext (Option.some.inj hf1) (Option.some.inj h1)).symm
      subst hpe
      exact ⟨leafTree e.pair.2, alookup_map_pairTr es hndE e he,
        (basic_leaf (hfacts e he).2.1 (hfacts e he).2.2.1).2.2.2.1⟩
    · left
      refine ⟨?_, hd⟩
      rw [alookup_none_iff]
      intro hm
      simp only [List.map_map] at hm
      obtain ⟨q, hq, e⟩ := List.mem_map.mp hm
      exact hex ⟨q, hq, by simpa [subTr] using e⟩

/-- the whole-cell keyword rule cannot fire on a mixed cell unless it has exactly two entries
whose first is a plain value naming a field -/
def UnambiguousM (sfs : List Field) : List MEntry → Bool
  | [.pos p, _] => (fieldLookup (printBasic p.2) sfs).isNone
  | _ => true

theorem tryKwarg_of_unambiguousM (sfs : List Field) (es : List MEntry)
    (h : UnambiguousM sfs es = true) :
    tryKwarg (fieldAssigners sfs) [] (.list (es.map (·.pv))) = none := by
  match es, h with
  | [], _ => simp [tryKwarg]
  | [e], _ => simp [tryKwarg]
  | [.kw p, e2], _ => simp [tryKwarg, MEntry.pv, subEntry]
  | [.pos p, e2], h =>
    simp only [UnambiguousM, Option.isNone_iff_eq_none] at h
    simp [tryKwarg, MEntry.pv, posEntry, remap_nil, alookup_fieldAssigners_none sfs _ h]
  | _ :: _ :: _ :: _, _ => simp [tryKwarg]

end Rpft.Row
