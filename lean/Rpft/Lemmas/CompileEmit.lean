/-
Emission (`add_nodes_to_flow`) over a well-formed group tree: with `NInv` (every node is held
by exactly one group) and `GInv` (the groups form a forest whose roots are `R`, children have
larger indices) the emission from a root lists every node held below it exactly once, and the
fuel `gsz + 1 - g` suffices.
-/
import Rpft.Lemmas.CompileInvB
set_option linter.unusedSimpArgs false
set_option linter.unusedVariables false
namespace Rpft.Compile
open Rpft

/-- `emit` over the abstract "held" / "children" functions -/
def emitF (hf kf : Nat → Option (List Nat)) : Nat → Nat → List Nat
  | 0, _ => []
  | fuel + 1, g =>
    match hf g, kf g with
    | some h, some k => h ++ k.flatMap (emitF hf kf fuel)
    | _, _ => []

/-- `x` is `a` or a group below `a` -/
inductive Desc (kf : Nat → Option (List Nat)) : Nat → Nat → Prop
  | refl (a : Nat) : Desc kf a a
  | head {a c x : Nat} {l : List Nat} : kf a = some l → c ∈ l → Desc kf c x → Desc kf a x

theorem Desc.snoc {kf : Nat → Option (List Nat)} {a p c : Nat} {l : List Nat} (h : Desc kf a p)
    (hp : kf p = some l) (hc : c ∈ l) : Desc kf a c := by
  induction h with
  | refl a => exact .head hp hc (.refl c)
  | head h1 h2 _ ih => exact .head h1 h2 (ih hp)

theorem Desc.tail {kf : Nat → Option (List Nat)} {a x : Nat} (h : Desc kf a x) :
    a = x ∨ ∃ p l, Desc kf a p ∧ kf p = some l ∧ x ∈ l := by
  induction h with
  | refl a => exact .inl rfl
  | @head a c x l h1 h2 h3 ih =>
    right
    rcases ih with e | ⟨p, l', hd, hp, hx⟩
    · subst e; exact ⟨a, l, .refl a, h1, h2⟩
    · exact ⟨p, l', .head h1 h2 hd, hp, hx⟩

section
variable {R : Nat → Prop} {gsz : Nat} {kf : Nat → Option (List Nat)}

theorem Desc.le (hG : GInv R gsz kf) {a x : Nat} (h : Desc kf a x) : a ≤ x := by
  induction h with
  | refl a => exact Nat.le_refl a
  | head h1 h2 _ ih => have := (hG.klt _ _ _ h1 h2).1; omega

/-- the ancestors of a group are linearly ordered -/
theorem Desc.linear (hG : GInv R gsz kf) {a b x : Nat} (ha : Desc kf a x) (hb : Desc kf b x) :
    Desc kf a b ∨ Desc kf b a := by
  induction ha with
  | refl a => exact .inr hb
  | @head a c x l h1 h2 h3 ih =>
    rcases ih hb with h | h
    · exact .inl (.head h1 h2 h)
    · rcases h.tail with e | ⟨p, l', hd, hp, hx⟩
      · subst e; exact .inl (.head h1 h2 (.refl _))
      · have : p = a := hG.kuniq p a l' l c hp h1 hx h2
        subst this; exact .inr hd

/-- two different children of one block have no common descendant -/
theorem Desc.siblings (hG : GInv R gsz kf) {p c1 c2 x : Nat} {l : List Nat} (hp : kf p = some l)
    (h1 : c1 ∈ l) (h2 : c2 ∈ l) (hne : c1 ≠ c2) (d1 : Desc kf c1 x) (d2 : Desc kf c2 x) : False := by
  have key : ∀ a b, a ∈ l → b ∈ l → a ≠ b → Desc kf a b → False := by
    intro a b ha hb hab hd
    rcases hd.tail with e | ⟨p', l', hd', hp', hx⟩
    · exact hab e
    · have : p' = p := hG.kuniq p' p l' l b hp' hp hx hb
      subst this
      have h3 := hd'.le hG
      have h4 := (hG.klt _ _ _ hp ha).1
      omega
  rcases Desc.linear hG d1 d2 with h | h
  · exact key c1 c2 h1 h2 hne h
  · exact key c2 c1 h2 h1 (fun e => hne e.symm) h
end

section
variable {P R : Nat → Prop} {nsz gsz : Nat} {hf kf : Nat → Option (List Nat)}

/-- what is emitted from `g` is held by `g` or a group below it -/
theorem mem_emitF : ∀ (fuel g i : Nat), i ∈ emitF hf kf fuel g →
    ∃ g' l, Desc kf g g' ∧ hf g' = some l ∧ i ∈ l := by
  intro fuel
  induction fuel with
  | zero => intro g i h; simp [emitF] at h
  | succ fuel ih =>
    intro g i h
    unfold emitF at h
    split at h
    · rename_i hh k hhf hkf
      simp only [List.mem_append, List.mem_flatMap] at h
      rcases h with h | ⟨c, hc, hi⟩
      · exact ⟨g, hh, .refl g, hhf, h⟩
      · obtain ⟨g', l, hd, hl, hil⟩ := ih c i hi
        exact ⟨g', l, .head hkf hc hd, hl, hil⟩
    · simp at h

/-- with enough fuel everything held below `g` is emitted from `g` -/
theorem emitF_complete (hG : GInv R gsz kf)
    (hdom : ∀ g l, hf g = some l → g < gsz ∧ ∃ k, kf g = some k)
    (hdk : ∀ g k, kf g = some k → ∃ h, hf g = some h) :
    ∀ (fuel g g' i : Nat) (l : List Nat), gsz + 1 ≤ fuel + g → Desc kf g g' → hf g' = some l → i ∈ l →
      i ∈ emitF hf kf fuel g := by
  intro fuel
  induction fuel with
  | zero =>
    intro g g' i l hfu hd hl hi
    have h1 := hd.le hG
    have h2 := (hdom g' l hl).1
    omega
  | succ fuel ih =>
    intro g g' i l hfu hd hl hi
    cases hd with
    | refl =>
      obtain ⟨_, k, hk⟩ := hdom g l hl
      unfold emitF; rw [hl, hk]
      simp [hi]
    | @head _ c _ l' h1 h2 h3 =>
      have hc := (hG.klt _ _ _ h1 h2)
      have hih := ih c g' i l (by omega) h3 hl hi
      obtain ⟨hh, hhg⟩ := hdk g l' h1
      unfold emitF; rw [hhg, h1]
      simp only [List.mem_append, List.mem_flatMap]
      exact .inr ⟨c, h2, hih⟩

/-- nothing is emitted twice -/
theorem emitF_nodup (hN : NInv P nsz hf) (hG : GInv R gsz kf) :
    ∀ (fuel g : Nat), (emitF hf kf fuel g).Nodup := by
  intro fuel
  induction fuel with
  | zero => intro g; simp [emitF]
  | succ fuel ih =>
    intro g
    unfold emitF
    split
    · rename_i hh k hhf hkf
      rw [List.nodup_append]
      refine ⟨hN.hnodup g hh hhf, ?_, ?_⟩
      · -- the children's emissions are pairwise disjoint
        show List.Pairwise (· ≠ ·) _
        rw [List.pairwise_flatMap]
        refine ⟨fun c _ => ih c, ?_⟩
        have aux : ∀ cs : List Nat, cs.Nodup → (∀ c ∈ cs, c ∈ k) →
            List.Pairwise (fun a₁ a₂ => ∀ x ∈ emitF hf kf fuel a₁, ∀ y ∈ emitF hf kf fuel a₂, x ≠ y) cs := by
          intro cs
          induction cs with
          | nil => intro _ _; exact List.Pairwise.nil
          | cons c cs ihc =>
            intro hkn hsub
            rw [List.nodup_cons] at hkn
            rw [List.pairwise_cons]
            refine ⟨?_, ihc hkn.2 (fun c' hc' => hsub c' (by simp [hc']))⟩
            intro c' hc' x hx y hy hxy
            subst hxy
            obtain ⟨g1, l1, d1, hl1, hi1⟩ := mem_emitF fuel c x hx
            obtain ⟨g2, l2, d2, hl2, hi2⟩ := mem_emitF fuel c' x hy
            have : g1 = g2 := hN.huniq g1 g2 l1 l2 x hl1 hl2 hi1 hi2
            subst this
            have hcne : c ≠ c' := fun e => hkn.1 (e ▸ hc')
            exact Desc.siblings hG hkf (hsub c (by simp)) (hsub c' (by simp [hc'])) hcne d1 d2
        exact aux k (hG.knodup g k hkf) (fun c hc => hc)
      · intro x hx y hy hxy
        subst hxy
        simp only [List.mem_flatMap] at hy
        obtain ⟨c, hc, hxc⟩ := hy
        obtain ⟨g1, l1, d1, hl1, hi1⟩ := mem_emitF fuel c x hxc
        have : g = g1 := hN.huniq g g1 hh l1 x hhf hl1 hx hi1
        subst this
        have h1 := d1.le hG
        have h2 := (hG.klt _ _ _ hkf hc).1
        omega
    · simp
end

end Rpft.Compile
