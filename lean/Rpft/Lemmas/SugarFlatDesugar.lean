import Rpft.Lemmas.SugarFlatTree
set_option linter.unusedSimpArgs false
set_option linter.unusedVariables false
namespace Rpft.SugarFlat
open Rpft Rpft.Sugar
open Rpft.Cli (RowType BlockType Fault isEndOfBlock blockEndMap)

variable {Raw Inst Ctx Val Hdr Err S : Type}

/-! ## `Sugar.Item` trees as flat sheets -/

mutual
/-- every row of a `Sugar.Item` tree sits where its kind says -/
def WkI (kind : Raw → RowKind) : Item Raw → Prop
  | .row r => kind r = .other
  | .forLoop b body => kind b = .beginFor ∧ WkIL kind body
  | .block b body => kind b = .beginBlock ∧ WkIL kind body
def WkIL (kind : Raw → RowKind) : List (Item Raw) → Prop
  | [] => True
  | it :: its => WkI kind it ∧ WkIL kind its
end

mutual
theorem erase_unerase (ef eb : Raw) : ∀ (it : Item Raw), (unerase ef eb it).erase = it
  | .row r => by simp [unerase, FItem.erase]
  | .forLoop b body => by simp [unerase, FItem.erase, eraseL_uneraseL ef eb body]
  | .block b body => by simp [unerase, FItem.erase, eraseL_uneraseL ef eb body]
theorem eraseL_uneraseL (ef eb : Raw) : ∀ (its : List (Item Raw)), eraseL (uneraseL ef eb its) = its
  | [] => by simp [uneraseL, eraseL]
  | it :: its => by simp [uneraseL, eraseL, erase_unerase ef eb it, eraseL_uneraseL ef eb its]
end

mutual
theorem WkF_unerase (kind : Raw → RowKind) (ef eb : Raw) (hef : kind ef = .endFor) (heb : kind eb = .endBlock) :
    ∀ (it : Item Raw), WkI kind it → WkF kind (unerase ef eb it)
  | .row r, h => by simpa [unerase, WkF, WkI] using h
  | .forLoop b body, h => by
    simp only [WkI] at h
    simp only [unerase, WkF]
    exact ⟨h.1, WkFL_uneraseL kind ef eb hef heb body h.2, hef⟩
  | .block b body, h => by
    simp only [WkI] at h
    simp only [unerase, WkF]
    exact ⟨h.1, WkFL_uneraseL kind ef eb hef heb body h.2, heb⟩
theorem WkFL_uneraseL (kind : Raw → RowKind) (ef eb : Raw) (hef : kind ef = .endFor) (heb : kind eb = .endBlock) :
    ∀ (its : List (Item Raw)), WkIL kind its → WkFL kind (uneraseL ef eb its)
  | [], _ => by simp [uneraseL, WkFL]
  | it :: its, h => by
    simp only [WkIL] at h
    simp only [uneraseL, WkFL]
    exact ⟨WkF_unerase kind ef eb hef heb it h.1, WkFL_uneraseL kind ef eb hef heb its h.2⟩
end

mutual
theorem WkI_erase (kind : Raw → RowKind) : ∀ (it : FItem Raw), WkF kind it → WkI kind it.erase
  | .row r, h => by simpa [FItem.erase, WkF, WkI] using h
  | .forLoop b body e, h => by
    simp only [WkF] at h
    simp only [FItem.erase, WkI]
    exact ⟨h.1, WkIL_eraseL kind body h.2.1⟩
  | .block b body e, h => by
    simp only [WkF] at h
    simp only [FItem.erase, WkI]
    exact ⟨h.1, WkIL_eraseL kind body h.2.1⟩
theorem WkIL_eraseL (kind : Raw → RowKind) : ∀ (its : List (FItem Raw)), WkFL kind its → WkIL kind (eraseL its)
  | [], _ => by simp [eraseL, WkIL]
  | it :: its, h => by
    simp only [WkFL] at h
    simp only [eraseL, WkIL]
    exact ⟨WkI_erase kind it h.1, WkIL_eraseL kind its h.2⟩
end

theorem WkIL_append (kind : Raw → RowKind) (a b : List (Item Raw)) :
    WkIL kind (a ++ b) ↔ WkIL kind a ∧ WkIL kind b := by
  induction a with
  | nil => simp [WkIL]
  | cons x a ih => simp [WkIL, ih, and_assoc]

theorem WkIL_flatten (kind : Raw → RowKind) (bss : List (List (Item Raw))) (h : ∀ bs ∈ bss, WkIL kind bs) :
    WkIL kind bss.flatten := by
  induction bss with
  | nil => simp [WkIL]
  | cons bs bss ih =>
    simp only [List.flatten_cons, WkIL_append]
    exact ⟨h bs (by simp), ih (fun b hb => h b (by simp [hb]))⟩

theorem sequence_mem {α β : Type} (f : α → Except Err β) (xs : List α) (ys : List β)
    (h : sequence (xs.map f) = .ok ys) : ∀ y ∈ ys, ∃ x ∈ xs, f x = .ok y := by
  induction xs generalizing ys with
  | nil =>
    simp [sequence] at h
    subst h
    simp
  | cons x xs ih =>
    simp only [List.map_cons, sequence] at h
    cases hx : f x with
    | error e => simp [hx] at h
    | ok a =>
      simp only [hx] at h
      cases hs : sequence (xs.map f) with
      | error e => simp [hs] at h
      | ok as =>
        simp only [hs] at h
        injection h with h
        subst h
        intro y hy
        rcases List.mem_cons.1 hy with rfl | hy
        · exact ⟨x, by simp, hx⟩
        · obtain ⟨x', hx', hfx⟩ := ih as hs y hy
          exact ⟨x', by simp [hx'], hfx⟩

/-- the literal row of an instantiated row has the instantiated row's kind -/
theorem kind_lit (I : FIface Raw Inst Ctx Val Hdr Err S) (L : Laws I.toIface) (FL : FlatLaws I) (ctx : Ctx)
    (i : Inst) : I.kind (I.lit i) = I.kindI i :=
  (FL.kind_inst ctx (I.lit i) i (L.inst_lit ctx i)).symm

mutual
/-- the desugared form of a well-kinded tree is well kinded (`hab`: a begin_for row rewritten as
a block is a begin_block row) -/
theorem WkIL_dsItem (I : FIface Raw Inst Ctx Val Hdr Err S) (L : Laws I.toIface) (FL : FlatLaws I)
    (hab : ∀ i, I.kindI i = .beginFor → I.kindI (I.asBlock i) = .beginBlock) :
    ∀ (it : Item Raw), WkI I.kind it → ∀ (ctx : Ctx) (out : List (Item Raw)),
      dsItem I.toIface ctx it = .ok out → WkIL I.kind out
  | .row r, h, ctx, out, hd => by
    simp only [WkI] at h
    simp only [dsItem] at hd
    cases hi : I.inst ctx r with
    | error e => simp [hi] at hd
    | ok i =>
      simp only [hi] at hd
      injection hd with hd
      subst hd
      cases I.includeIf i with
      | false => simp [WkIL]
      | true =>
        have : I.kindI i = .other := by rw [FL.kind_inst ctx r i hi, h]
        simp [WkIL, WkI, kind_lit I L FL ctx, this]
  | .block b body, h, ctx, out, hd => by
    simp only [WkI] at h
    simp only [dsItem] at hd
    cases hi : I.inst ctx b with
    | error e => simp [hi] at hd
    | ok i =>
      simp only [hi] at hd
      cases hinc : I.includeIf i with
      | false =>
        simp [hinc] at hd
        subst hd
        simp [WkIL]
      | true =>
        simp only [hinc, if_true] at hd
        cases hb : dsItems I.toIface ctx body with
        | error e => simp [hb] at hd
        | ok bs =>
          simp only [hb] at hd
          injection hd with hd
          subst hd
          have : I.kindI i = .beginBlock := by rw [FL.kind_inst ctx b i hi, h.1]
          simp only [WkIL, WkI, kind_lit I L FL ctx, this, true_and, and_true]
          exact WkIL_dsItems I L FL hab body h.2 ctx bs hb
  | .forLoop b body, h, ctx, out, hd => by
    simp only [WkI] at h
    simp only [dsItem] at hd
    cases hi : I.inst ctx b with
    | error e => simp [hi] at hd
    | ok i =>
      simp only [hi] at hd
      cases hinc : I.includeIf i with
      | false =>
        simp [hinc] at hd
        subst hd
        simp [WkIL]
      | true =>
        simp only [hinc, if_true] at hd
        cases hv : I.loopVars i with
        | none => simp [hv] at hd
        | some vi =>
          obtain ⟨v, idx⟩ := vi
          simp only [hv] at hd
          cases hs : sequence ((I.iterList i).zipIdx.map fun (x : Val × Nat) =>
              dsItems I.toIface (iterCtx I.toIface ctx v idx x.1 x.2) body) with
          | error e => simp [hs] at hd
          | ok bss =>
            simp only [hs] at hd
            injection hd with hd
            subst hd
            have hk : I.kindI i = .beginFor := by rw [FL.kind_inst ctx b i hi, h.1]
            simp only [WkIL, WkI, kind_lit I L FL ctx, hab i hk, true_and, and_true]
            apply WkIL_flatten
            intro bs hbs
            obtain ⟨x, _, hx⟩ := sequence_mem _ _ _ hs bs hbs
            exact WkIL_dsItems I L FL hab body h.2 _ bs hx
theorem WkIL_dsItems (I : FIface Raw Inst Ctx Val Hdr Err S) (L : Laws I.toIface) (FL : FlatLaws I)
    (hab : ∀ i, I.kindI i = .beginFor → I.kindI (I.asBlock i) = .beginBlock) :
    ∀ (its : List (Item Raw)), WkIL I.kind its → ∀ (ctx : Ctx) (out : List (Item Raw)),
      dsItems I.toIface ctx its = .ok out → WkIL I.kind out
  | [], _, ctx, out, hd => by
    simp [dsItems] at hd
    subst hd
    simp [WkIL]
  | it :: its, h, ctx, out, hd => by
    simp only [WkIL] at h
    simp only [dsItems] at hd
    cases h1 : dsItem I.toIface ctx it with
    | error e => simp [h1] at hd
    | ok a =>
      simp only [h1] at hd
      cases h2 : dsItems I.toIface ctx its with
      | error e => simp [h2] at hd
      | ok b =>
        simp only [h2] at hd
        injection hd with hd
        subst hd
        rw [WkIL_append]
        exact ⟨WkIL_dsItem I L FL hab it h.1 ctx a h1, WkIL_dsItems I L FL hab its h.2 ctx b h2⟩
end

end Rpft.SugarFlat
