/-
Helper lemmas for C04 (graph level): which NODE a row belongs to.  The compiler's merge rule
(`groupRows`: a row joins the node its `_nodeId` names iff it has exactly one edge, unconditional,
from a row of that node) regroups the rows of an exported sheet exactly as the exporter grouped them:
row `i` of node `n` ↦ the first row of `n`.
-/
import Rpft.Lemmas.ExportGraphTop
set_option linter.unusedSimpArgs false
set_option linter.unusedVariables false
set_option linter.unusedSectionVars false
namespace Rpft.Export
open Function

variable {U : Type} [DecidableEq U]

abbrev GRow (U : Type) := TempId U × Option U × List (Option (TempId U) × Label)

/-- the rows after the first one of a node, as the merge rule sees them -/
def gTail (n : NodeX U) : Nat → Nat → List (GRow U)
  | _, 0 => []
  | i, k + 1 => (rowId n (i + 1), some n.uuid, [(some (rowId n i), blankLabel)]) :: gTail n (i + 1) k

def gPairs (n : NodeX U) : Nat → Nat → List (TempId U × TempId U)
  | _, 0 => []
  | i, k + 1 => (rowId n (i + 1), firstId n) :: gPairs n (i + 1) k

def gItem : Item U → List (GRow U)
  | .goto .. => []
  | .block n es =>
    match n.rows with
    | [] => []
    | _ :: rest => (rowId n 0, some n.uuid, es.map (fun e => (e.from_, e.label))) :: gTail n 0 rest.length

/-- the rows of node `n` ↦ its first row -/
def nodeGroup (n : NodeX U) : List (TempId U × TempId U) :=
  match n.rows with
  | [] => []
  | _ :: rest => (rowId n 0, firstId n) :: gPairs n 0 rest.length

theorem gview_mkRowsFrom (n : NodeX U) (rest : List (Payload × Option U)) :
    ∀ i, ((mkRowsFrom n (i + 1) ⟨some (rowId n i), blankLabel⟩ rest).filter (fun r => r.goto.isEmpty)).map
      (fun r => (r.id, r.nodeId, r.cells)) = gTail n i rest.length := by
  induction rest with
  | nil => intro i; rfl
  | cons x rest ih =>
    intro i
    obtain ⟨p, o⟩ := x
    simp only [mkRowsFrom, List.filter_cons, List.isEmpty_nil, if_true, List.map_cons, ih (i + 1), List.length_cons, gTail]
    rfl

theorem gview_renderAll (items : List (Item U)) :
    ((renderAll items).filter (fun r => r.goto.isEmpty)).map (fun r => (r.id, r.nodeId, r.cells)) = items.flatMap gItem := by
  induction items with
  | nil => rfl
  | cons it items ih =>
    simp only [renderAll, List.flatMap_cons, List.filter_append, List.map_append] at ih ⊢
    rw [ih]
    congr 1
    cases it with
    | goto k c e => simp [Item.render, gotoRow, gItem]
    | block n es =>
      simp only [Item.render, blockRows, gItem]
      cases hr : n.rows with
      | nil => rfl
      | cons x rest =>
        obtain ⟨p, o⟩ := x
        simp only [List.filter_cons, List.isEmpty_nil, if_true, List.map_cons, gview_mkRowsFrom n rest 0]
        rfl

theorem assocGet_head {κ β : Type} [DecidableEq κ] (k : κ) (v : β) (d : List (κ × β)) : assocGet ((k, v) :: d) k = some v := by
  simp [assocGet]

theorem joinTarget_of_no_name {I N : Type} [DecidableEq I] [DecidableEq N] (names : List (N × I)) (rep : List (I × I))
    (nm : N) (cells : List (Option I × Label)) (h : assocGet names nm = none) :
    joinTarget names rep (some nm) cells = none := by
  match cells with
  | [] => simp [joinTarget]
  | [(none, lab)] => simp [joinTarget]
  | [(some fr, lab)] =>
    simp only [joinTarget, h]
    split <;> rfl
  | _ :: _ :: _ => simp [joinTarget]

theorem joinTarget_chain {I N : Type} [DecidableEq I] [DecidableEq N] (names : List (N × I)) (rep : List (I × I))
    (nm : N) (fr first : I) (h1 : assocGet names nm = some first) (h2 : assocGet rep fr = some first) :
    joinTarget names rep (some nm) [(some fr, blankLabel)] = some first := by
  simp [joinTarget, h1, h2]

theorem fold_gTail (n : NodeX U) (names : List (U × TempId U)) (hn : assocGet names n.uuid = some (firstId n)) :
    ∀ (k i : Nat) (rep : List (TempId U × TempId U)),
      (gTail n i k).foldl groupStep (names, (rowId n i, firstId n) :: rep)
        = (names, (gPairs n i k).reverse ++ (rowId n i, firstId n) :: rep) := by
  intro k
  induction k with
  | zero => intro i rep; rfl
  | succ k ih =>
    intro i rep
    simp only [gTail, gPairs, List.foldl_cons]
    have : groupStep (names, (rowId n i, firstId n) :: rep) (rowId n (i + 1), some n.uuid, [(some (rowId n i), blankLabel)])
        = (names, (rowId n (i + 1), firstId n) :: (rowId n i, firstId n) :: rep) := by
      simp only [groupStep, joinTarget_chain names _ n.uuid (rowId n i) (firstId n) hn (assocGet_head ..)]
    rw [this, ih (i + 1)]
    simp

theorem fold_gItem_block (n : NodeX U) (es : List (EdgeT U)) (names : List (U × TempId U)) (rep : List (TempId U × TempId U))
    (hn : assocGet names n.uuid = none) :
    (gItem (.block n es)).foldl groupStep (names, rep)
      = (if n.rows = [] then names else (n.uuid, firstId n) :: names, (nodeGroup n).reverse ++ rep) := by
  simp only [gItem, nodeGroup]
  cases hr : n.rows with
  | nil => simp
  | cons x rest =>
    simp only [List.foldl_cons, reduceCtorEq, if_false]
    have h1 : groupStep (names, rep) (rowId n 0, some n.uuid, es.map (fun e => (e.from_, e.label)))
        = ((n.uuid, firstId n) :: names, (rowId n 0, firstId n) :: rep) := by
      simp only [groupStep, joinTarget_of_no_name names rep n.uuid _ hn]
      rfl
    rw [h1, fold_gTail n _ (assocGet_head ..) rest.length 0 rep]
    simp

/-- keys of the name map after the blocks processed so far -/
theorem fold_items (f : FlowX U) :
    ∀ (items : List (Item U)) (names : List (U × TempId U)) (rep : List (TempId U × TempId U)),
      (blockUuids items).Nodup → (∀ u ∈ blockUuids items, assocGet names u = none) →
      ((items.flatMap gItem).foldl groupStep (names, rep)).2 = ((blockNodes items).flatMap nodeGroup).reverse ++ rep := by
  intro items
  induction items with
  | nil => intro names rep _ _; rfl
  | cons it items ih =>
    intro names rep hnd hnone
    simp only [List.flatMap_cons, List.foldl_append]
    cases it with
    | goto k c e =>
      simp only [gItem, List.foldl_nil, blockNodes_cons_goto]
      exact ih names rep (by simpa [blockUuids, blockNodes_cons_goto] using hnd)
        (by simpa [blockUuids, blockNodes_cons_goto] using hnone)
    | block n es =>
      simp only [blockUuids, blockNodes_cons_block, List.map_cons, List.nodup_cons] at hnd
      have hn : assocGet names n.uuid = none := hnone n.uuid (by simp [blockUuids, blockNodes_cons_block])
      rw [fold_gItem_block n es names rep hn, blockNodes_cons_block, List.flatMap_cons, List.reverse_append, List.append_assoc]
      apply ih _ _ hnd.2
      intro u hu
      have hne : n.uuid ≠ u := fun e => hnd.1 (e ▸ hu)
      have h0 := hnone u (by simp only [blockUuids, blockNodes_cons_block, List.map_cons]; exact List.mem_cons_of_mem _ hu)
      split
      · exact h0
      · simp [assocGet, hne, h0]

/-- the compiler's merge rule regroups the rows of an exported sheet as the exporter grouped them -/
theorem groupsT_renderAll (f : FlowX U) (items : List (Item U)) (hnd : (blockUuids items).Nodup) :
    groupsT (renderAll items) = (blockNodes items).flatMap nodeGroup := by
  simp only [groupsT, groupRows, gview_renderAll]
  rw [fold_items f items [] [] hnd (fun _ _ => rfl)]
  simp

theorem mem_gPairs {n : NodeX U} {p : TempId U × TempId U} : ∀ {k i : Nat}, p ∈ gPairs n i k ↔ ∃ j, i < j ∧ j ≤ i + k ∧ p = (rowId n j, firstId n)
  | 0, i => by simp [gPairs]; intro j h1 h2; omega
  | k + 1, i => by
    simp only [gPairs, List.mem_cons, mem_gPairs (k := k) (i := i + 1)]
    constructor
    · rintro (h | ⟨j, h1, h2, h3⟩)
      · exact ⟨i + 1, by omega, by omega, h⟩
      · exact ⟨j, by omega, by omega, h3⟩
    · rintro ⟨j, h1, h2, h3⟩
      by_cases hj : j = i + 1
      · subst hj; exact Or.inl h3
      · exact Or.inr ⟨j, by omega, by omega, h3⟩

/-- `nodeGroup n` lists exactly the rows of `n`, each with the first row of `n` -/
theorem mem_nodeGroup {n : NodeX U} {p : TempId U × TempId U} :
    p ∈ nodeGroup n ↔ ∃ j, j < n.rows.length ∧ p = (rowId n j, firstId n) := by
  unfold nodeGroup
  cases hr : n.rows with
  | nil => simp
  | cons x rest =>
    simp only [List.mem_cons, mem_gPairs, List.length_cons]
    constructor
    · rintro (h | ⟨j, h1, h2, h3⟩)
      · exact ⟨0, by omega, h⟩
      · exact ⟨j, by omega, h3⟩
    · rintro ⟨j, h1, h3⟩
      by_cases hj : j = 0
      · subst hj; exact Or.inl h3
      · exact Or.inr ⟨j, by omega, by omega, h3⟩

/-! ### the NODE graph of an exported sheet -/

theorem assocGet_of_unique {κ β : Type} [DecidableEq κ] {d : List (κ × β)} {k : κ} {v : β}
    (hm : (k, v) ∈ d) (hu : ∀ w, (k, w) ∈ d → w = v) : assocGet d k = some v := by
  induction d with
  | nil => cases hm
  | cons x d ih =>
    obtain ⟨k', v'⟩ := x
    simp only [assocGet]
    by_cases hk : k' = k
    · subst hk
      simp [hu v' (List.mem_cons_self ..)]
    · simp only [hk, if_false]
      apply ih
      · rcases List.mem_cons.1 hm with h | h
        · cases h; exact absurd rfl hk
        · exact h
      · exact fun w hw => hu w (List.mem_cons_of_mem _ hw)

theorem eq_of_uuid_eq_of_nodup {order : List (NodeX U)} (hnd : (order.map (·.uuid)).Nodup) {a b : NodeX U}
    (ha : a ∈ order) (hb : b ∈ order) (h : a.uuid = b.uuid) : a = b := by
  induction order with
  | nil => cases ha
  | cons x order ih =>
    simp only [List.map_cons, List.nodup_cons] at hnd
    rcases List.mem_cons.1 ha with ha | ha <;> rcases List.mem_cons.1 hb with hb | hb
    · rw [ha, hb]
    · exact absurd (List.mem_map.2 ⟨b, hb, by rw [← h, ha]⟩) hnd.1
    · exact absurd (List.mem_map.2 ⟨a, ha, by rw [h, hb]⟩) hnd.1
    · exact ih hnd.2 ha hb

/-- in the grouping of an exported sheet, row `j` of a completed node `m` is mapped to the first row of `m` -/
theorem rep_of_export {order : List (NodeX U)} (hnd : (order.map (·.uuid)).Nodup) {m : NodeX U} (hm : m ∈ order)
    {j : Nat} (hj : j < m.rows.length) : assocGet (order.flatMap nodeGroup) (rowId m j) = some (firstId m) := by
  apply assocGet_of_unique
  · exact List.mem_flatMap.2 ⟨m, hm, mem_nodeGroup.2 ⟨j, hj, rfl⟩⟩
  · intro w hw
    obtain ⟨m', hm', hp⟩ := List.mem_flatMap.1 hw
    obtain ⟨j', _, he⟩ := mem_nodeGroup.1 hp
    have h1 := (Prod.mk.inj he).1
    have h2 := (Prod.mk.inj he).2
    have := eq_of_uuid_eq_of_nodup hnd hm hm' (rowId_eq_uuid h1)
    rw [h2, this]

/-- the edges leaving node `m` in the NODE graph: from the node (its first row) to the first row of the
destination node, one per exit that leads somewhere, in exit order -/
def nodeExits (f : FlowX U) (m : NodeX U) : List (GEdge U) :=
  (exitsEdges f m).map (fun e => ⟨some (firstId m), e.label, e.dst⟩)

theorem nodeEdges_perm {I : Type} [DecidableEq I] (g : List (I × I)) {a b : List (SEdge I)} (h : a.Perm b) :
    (nodeEdges g a).Perm (nodeEdges g b) := by
  simp only [nodeEdges]
  exact (h.filter _).map _

theorem nodeEdges_append {I : Type} [DecidableEq I] (g : List (I × I)) (a b : List (SEdge I)) :
    nodeEdges g (a ++ b) = nodeEdges g a ++ nodeEdges g b := by
  simp [nodeEdges]

theorem nodeEdges_flatMap {I α : Type} [DecidableEq I] (g : List (I × I)) (l : List α) (h : α → List (SEdge I)) :
    nodeEdges g (l.flatMap h) = l.flatMap (fun x => nodeEdges g (h x)) := by
  induction l with
  | nil => rfl
  | cons x l ih => simp only [List.flatMap_cons, nodeEdges_append, ih]

theorem flatMap_congr_mem {α β : Type} {l : List α} {f g : α → List β} (h : ∀ x ∈ l, f x = g x) :
    l.flatMap f = l.flatMap g := by
  induction l with
  | nil => rfl
  | cons x l ih =>
    simp only [List.flatMap_cons, h x (List.mem_cons_self ..), ih (fun y hy => h y (List.mem_cons_of_mem _ hy))]

namespace Skeleton
variable {f : FlowX U} {rows : List (RowT U)} {n0 : NodeX U} {items : List (Item U)} {vis : List U}

theorem groups (sk : Skeleton f rows n0 items vis) : groupsT rows = (blockNodes items).flatMap nodeGroup := by
  rw [sk.rows_eq]
  exact groupsT_renderAll f items sk.inv.nodup

/-- **the node graph**: reading the sheet with the compiler's node merging gives the start edge and, per
reachable node, one edge per connected exit from the node to the destination node — the blank edges
between the rows of one node are absorbed by the merging -/
theorem node_graph (sk : Skeleton f rows n0 items vis) :
    (nodeEdges (groupsT rows) (edgesOfT rows)).Perm (startEdge n0 :: (blockNodes items).flatMap (nodeExits f)) := by
  have hnd := sk.nodup
  have hlen : ∀ m ∈ blockNodes items, 0 < m.rows.length := by
    intro m hm
    obtain ⟨es, hes⟩ := mem_blockNodes.1 hm
    exact List.length_pos_iff.2 (sk.inv.canonB m es hes).2
  have hrep : ∀ m ∈ blockNodes items, ∀ j, j < m.rows.length →
      (assocGet (groupsT rows) (rowId m j)).getD (rowId m j) = firstId m := by
    intro m hm j hj
    rw [sk.groups, rep_of_export hnd hm hj]; rfl
  refine (nodeEdges_perm _ sk.perm).trans ?_
  rw [← List.singleton_append, nodeEdges_append, nodeEdges_flatMap]
  have h0 : nodeEdges (groupsT rows) [startEdge n0] = [startEdge n0] := by
    have hm0 : n0 ∈ blockNodes items := (sk.reach n0).2 (Reach.start sk.head)
    have := hrep n0 hm0 0 (hlen n0 hm0)
    simp only [nodeEdges, startEdge, List.filter_cons, List.filter_nil]
    simp [firstId] at this ⊢
    simp [this]
  rw [h0]
  apply List.Perm.of_eq
  rw [List.singleton_append]
  congr 1
  apply flatMap_congr_mem
  intro m hm
  have hc : nodeEdges (groupsT rows) (chain m) = [] := by
    simp only [nodeEdges, List.map_eq_nil_iff, List.filter_eq_nil_iff]
    intro e he
    obtain ⟨j, hj, rfl⟩ := mem_chain he
    simp only [decide_eq_true_eq]
    rw [hrep m hm (j + 1) hj]
    intro heq
    have := rowId_inj m heq
    omega
  have he : nodeEdges (groupsT rows) (exitsEdges f m) = nodeExits f m := by
    simp only [nodeEdges, nodeExits]
    have hkeep : (exitsEdges f m).filter (fun e => decide ((assocGet (groupsT rows) e.dst).getD e.dst = e.dst)) = exitsEdges f m := by
      apply List.filter_eq_self.2
      intro e he
      obtain ⟨lab, d, c, hd, hcn, rfl⟩ := mem_loopEdges he
      have hcm : c ∈ blockNodes items := (sk.reach c).2 (Reach.step ((sk.reach m).1 hm) hd hcn)
      simp only [decide_eq_true_eq]
      exact hrep c hcm 0 (hlen c hcm)
    rw [hkeep]
    apply List.map_congr_left
    intro e he
    obtain ⟨lab, d, c, hd, hcn, rfl⟩ := mem_loopEdges he
    have := hrep m hm (m.rows.length - 1) (by have := hlen m hm; omega)
    simp only [Option.map_some, lastId, this]
  simp only [nodeOut, nodeEdges_append, hc, he, List.nil_append]

end Skeleton

end Rpft.Export
