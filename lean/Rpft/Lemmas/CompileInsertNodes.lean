/-
Equivariance of the node constructors (`_get_row_node` and friends) under a renaming synchronised
with the two counters.
-/
import Rpft.Lemmas.CompileInsertCalc
set_option linter.unusedSimpArgs false
set_option linter.unusedVariables false
namespace Rpft.Compile
open Rpft Function

variable {ρ : Uid → Uid}

theorem IdRel.congr {α} {rn : α → α} {m₁ m₂ m₁' m₂' : M α} (h : IdRel ρ rn m₁' m₂')
    (e₁ : m₁ = m₁') (e₂ : m₂ = m₂') : IdRel ρ rn m₁ m₂ := by
  rw [e₁, e₂]; exact h

theorem nodeUid_rel (given : Str) (hg : ρ given = given) : IdRel ρ ρ (nodeUid given) (nodeUid given) := by
  unfold nodeUid
  refine IdRel.ite (fun _ => IdRel.fresh) (fun _ => IdRel.pure hg.symm)

theorem newBasic_rel (u : Uid) : IdRel ρ (rnNode ρ) (newBasic u) (newBasic (ρ u)) := by
  unfold newBasic
  exact IdRel.bind IdRel.fresh fun _ => IdRel.bind IdRel.fresh fun e2 => IdRel.pure rfl

theorem newRouterNode_rel (u : Uid) (kind : NodeKind) (r : RouterM) :
    IdRel ρ (rnNode ρ) (newRouterNode u kind r) (newRouterNode (ρ u) kind (rnRouter ρ r)) := by
  unfold newRouterNode
  exact IdRel.bind IdRel.fresh fun e => IdRel.pure rfl

theorem rowAction_rel (r : Row) : IdRel ρ (Option.map (rnAct ρ)) (rowAction r) (rowAction r) := by
  unfold rowAction
  cases r.action with
  | none => exact IdRel.pure rfl
  | some a => exact IdRel.bind IdRel.fresh fun au => IdRel.pure rfl

theorem basicNode_rel (r : Row) (act : Option (Uid × Str)) (hg : ρ r.nodeUuid = r.nodeUuid) :
    IdRel ρ (rnNode ρ) (basicNode r act) (basicNode r (act.map (rnAct ρ))) := by
  unfold basicNode
  refine IdRel.bind (nodeUid_rel _ hg) fun u => IdRel.bind (newBasic_rel u) fun n => IdRel.pure ?_
  exact rnNode_withAct n act

theorem otherNode_rel (r : Row) (act : Option (Uid × Str)) (hg : ρ r.nodeUuid = r.nodeUuid) :
    IdRel ρ (rnNode ρ) (otherNode r act) (otherNode r (act.map (rnAct ρ))) := by
  unfold otherNode
  refine IdRel.bind (nodeUid_rel _ hg) fun u => IdRel.bind IdRel.fresh fun e => IdRel.pure ?_
  exact rnNode_withAct (ρ := ρ)
    { uid := u, kind := .basic, actions := [], router := none, dexitUid := e, dexitDest := .none } act

theorem splitRandomNode_rel (r : Row) (hg : ρ r.nodeUuid = r.nodeUuid) :
    IdRel ρ (rnNode ρ) (splitRandomNode r) (splitRandomNode r) := by
  unfold splitRandomNode
  exact IdRel.bind (nodeUid_rel _ hg) fun u => newRouterNode_rel u _ _

theorem splitGroupNode_rel (r : Row) (hg : ρ r.nodeUuid = r.nodeUuid) :
    IdRel ρ (rnNode ρ) (splitGroupNode r) (splitGroupNode r) := by
  unfold splitGroupNode
  exact IdRel.bind (nodeUid_rel _ hg) fun u => IdRel.bind (newSwitch_rel _ _ _) fun sw =>
    newRouterNode_rel u _ _

theorem splitValueNode_rel (r : Row) (hg : ρ r.nodeUuid = r.nodeUuid) :
    IdRel ρ (rnNode ρ) (splitValueNode r) (splitValueNode r) := by
  unfold splitValueNode
  refine IdRel.bind (nodeUid_rel _ hg) fun u => ?_
  refine IdRel.ite (fun _ => IdRel.fail_left _ _) fun _ => ?_
  exact IdRel.bind (newSwitch_rel _ _ _) fun sw => newRouterNode_rel u _ _

theorem waitNode_rel (r : Row) (hg : ρ r.nodeUuid = r.nodeUuid) :
    IdRel ρ (rnNode ρ) (waitNode r) (waitNode r) := by
  unfold waitNode
  refine IdRel.bind (nodeUid_rel _ hg) fun u => ?_
  dsimp only
  split
  · simp only [pure_bind]
    exact IdRel.bind (newSwitch_rel _ _ _) fun sw => newRouterNode_rel u _ _
  · cases parseNat? r.noResponse with
    | none =>
      exact IdRel.bind (rnA := id) (IdRel.fail_left _ _) fun w =>
        IdRel.bind (newSwitch_rel _ _ _) fun sw => newRouterNode_rel u _ _
    | some n =>
      simp only [pure_bind]
      exact IdRel.bind (newSwitch_rel _ _ _) fun sw => newRouterNode_rel u _ _

theorem enterNode_rel (h : Injective ρ) (r : Row) (hg : ρ r.nodeUuid = r.nodeUuid) :
    IdRel ρ (rnNode ρ) (enterNode r) (enterNode r) := by
  unfold enterNode
  refine IdRel.bind (nodeUid_rel _ hg) fun u => IdRel.bind IdRel.fresh fun au =>
    IdRel.bind (newSwitch_rel _ _ _) fun sw => ?_
  refine IdRel.bind (rnA := rnSw ρ) (addChoice_rel h _ _ _ _ _ .none false) fun sw1 => ?_
  refine IdRel.bind (rnA := rnSw ρ) (addChoice_rel h _ _ _ _ _ .none true) fun sw2 => ?_
  refine IdRel.bind (newRouterNode_rel u _ (.sw sw2)) fun n => IdRel.pure ?_
  simp [rnNode, rnAct]

theorem hookNode_rel (h : Injective ρ) (r : Row) (hg : ρ r.nodeUuid = r.nodeUuid) :
    IdRel ρ (rnNode ρ) (hookNode r) (hookNode r) := by
  unfold hookNode
  refine IdRel.bind (nodeUid_rel _ hg) fun u => ?_
  cases r.resultKey with
  | none => exact IdRel.fail_left _ _
  | some key =>
    simp only []
    refine IdRel.bind (newSwitch_rel _ _ _) fun sw => ?_
    refine IdRel.bind (rnA := rnSw ρ) (addChoice_rel h _ _ _ _ _ .none false) fun sw1 => ?_
    refine IdRel.bind (newRouterNode_rel u _ (.sw sw1)) fun n => ?_
    refine IdRel.bind IdRel.fresh fun au => IdRel.pure ?_
    simp [rnNode, rnAct]

theorem rowNode_rel (h : Injective ρ) (r : Row) (act : Option (Uid × Str)) (hg : ρ r.nodeUuid = r.nodeUuid) :
    IdRel ρ (rnNode ρ) (rowNode r act) (rowNode r (act.map (rnAct ρ))) := by
  unfold rowNode
  refine IdRel.ite (fun _ => ?_) (fun _ => IdRel.fail_left _ _)
  refine IdRel.ite (fun _ => basicNode_rel r act hg) fun _ => ?_
  refine IdRel.ite (fun _ => enterNode_rel h r hg) fun _ => ?_
  refine IdRel.ite (fun _ => hookNode_rel h r hg) fun _ => ?_
  refine IdRel.ite (fun _ => waitNode_rel r hg) fun _ => ?_
  refine IdRel.ite (fun _ => splitValueNode_rel r hg) fun _ => ?_
  refine IdRel.ite (fun _ => splitGroupNode_rel r hg) fun _ => ?_
  refine IdRel.ite (fun _ => splitRandomNode_rel r hg) fun _ => ?_
  exact otherNode_rel r act hg

end Rpft.Compile
