/-
Field round trips (`FieldRT`) for lists of strings — packed into one cell or spread over
`f.1, f.2, …` — and for sub-records of basic fields — packed as key/value pairs or spread
over `f.a, f.b, …`.
-/
import Rpft.Lemmas.RowCell
set_option linter.unusedSimpArgs false
set_option linter.unusedVariables false
namespace Rpft.Row
open Rpft Rpft.Cell

theorem mapE_map_ok {α β γ : Type} (f : β → Except Err γ) (g : α → β) (h : α → γ) :
    ∀ (l : List α), (∀ a ∈ l, f (g a) = .ok (h a)) → mapE f (l.map g) = .ok (l.map h)
  | [], _ => rfl
  | a :: l, hf => by
    have ih := mapE_map_ok f g h l (fun x hx => hf x (List.mem_cons_of_mem _ hx))
    simp [mapE, hf a (by simp), ih]

/-! ### lists of strings -/

theorem list_str_repr : ∀ (xs : List Val), xs.all (reprOk true .str) = true →
    ∃ ss : List Str, xs = ss.map Val.str ∧ ∀ s ∈ ss, strOk s = true ∧ s ≠ []
  | [], _ => ⟨[], rfl, by simp⟩
  | x :: xs, h => by
    simp only [List.all_cons, Bool.and_eq_true] at h
    obtain ⟨ss, rfl, hss⟩ := list_str_repr xs h.2
    cases x <;> simp [reprOk] at h
    case str s =>
      refine ⟨s :: ss, rfl, ?_⟩
      intro t ht
      simp only [List.mem_cons] at ht
      rcases ht with rfl | ht
      · exact ⟨h.1.1, by intro e; simp [e] at h⟩
      · exact hss t ht

theorem wfCell_atoms {ss : List Str} (hne : ss ≠ []) (h : ∀ s ∈ ss, strOk s = true ∧ s ≠ []) :
    Props.C08.WFCell (.list (ss.map Elem.atom)) ∧ CellOk (.list (ss.map Elem.atom)) := by
  refine ⟨⟨by simpa using hne, ?_, ?_⟩, ?_⟩
  · intro e he
    obtain ⟨s, hs, rfl⟩ := List.mem_map.mp he
    trivial
  · intro _ hl
    rw [List.getLast?_map] at hl
    cases hg : ss.getLast? with
    | none => simp [hg] at hl
    | some a =>
      rw [hg] at hl
      simp only [Option.map_some, Option.some.injEq, Elem.atom.injEq] at hl
      exact (h a (List.mem_of_getLast? hg)).2 hl
  · intro e he
    obtain ⟨s, hs, rfl⟩ := List.mem_map.mp he
    exact (h s hs).1

theorem fieldRT_listStr_packed {lay : Layout} {fs : List Field} {n : Str} {d : Option Val}
    (hn : simpleName n = true) (hf : fieldLookup n fs = some (n, .list .str, d))
    (he : lay.excluded = []) (hm : matchesHeaders ('.' :: n) lay.targets = true)
    (ss : List Str) (hne : ss ≠ []) (hss : ∀ s ∈ ss, strOk s = true ∧ s ≠ []) :
    FieldRT lay fs n (.list .str) (.list (ss.map Val.str)) := by
  obtain ⟨hwf, hok⟩ := wfCell_atoms hne hss
  refine fieldRT_single hn hf (joinCell (.list (ss.map Elem.atom))) (.list (ss.map PV.atom))
    (.list (ss.map Tree.str)) ?_ ?_ ?_ ?_ rfl
  · intro out
    unfold unparseRec
    have h1 : mapE (toNested .str) (ss.map Val.str) = .ok (ss.map Nested.str) :=
      mapE_map_ok _ _ _ ss (fun a _ => by simp [toNested])
    have h2 : ss.map Nested.str = (ss.map Elem.atom).map elemToNested := by
      simp [List.map_map, elemToNested]
    simp only [he, matchesHeaders_nil, hm, isBasicVal, Bool.false_or, if_true, Bool.false_eq_true,
      if_false, writeValue, toNested, h1]
    rw [h2, joinPacked_cell]
  · simp only [leafValue, isListTy, Bool.true_or, if_true]
    rw [cellParse_joinCell hwf hok]
    simp [PV.ofCell, List.map_map, PV.ofElem]
  · simp only [assignValue, assignList, listEntries]
    rw [mapE_map_ok _ PV.atom Tree.str ss (fun a _ => by simp [assignStr])]
  · simp only [validate]
    rw [mapE_map_ok _ Tree.str Val.str ss (fun a _ => by simp [validate])]

/-! ### nested positions -/

/-- the tree after the columns of field `n` seen so far: no entry yet, or `n ↦ t` at the end -/
def st (kvs : List (Str × Tree)) (n : Str) : Option Tree → List (Str × Tree)
  | none => kvs
  | some t => kvs ++ [(n, t)]

/-- one step of `find_entry` through a model-typed position -/
theorem findSet_model_cons (leaf : Ty → Except Err (Option Tree)) (fs : List Field)
    (h2f f2h : List (Str × Str)) (S : List (Str × Tree)) (name seg : Str) (rest : List Str)
    (f : Field) (hf : fieldLookup (remap h2f name) fs = some f) :
    findSet leaf (.model fs h2f f2h) (.dict S) (name :: seg :: rest) =
      wrapDict (remap h2f name) (ensureKey (remap h2f name) S)
        (findSet leaf f.2.1 (initChild f.2.1 ((alookup (remap h2f name)
            (ensureKey (remap h2f name) S)).getD Tree.none)) (seg :: rest)) := by
  conv => lhs; unfold findSet
  simp only [isListTy, Bool.false_eq_true, if_false, hf]

/-- `parse_entry` for a column `n.r…` below the top-level field `n` -/
theorem parseEntry_nested {fs : List Field} {n : Str} {cty : Ty} {d : Option Val}
    (hn : simpleName n = true) (hf : fieldLookup n fs = some (n, cty, d))
    (kvs : List (Str × Tree)) (hk : alookup n kvs = none) (cur : Option Tree)
    (r : Str) (hr : ∀ c ∈ r, keyChar c = true) (cv : ColVal) :
    parseEntry (plainTop fs) (.dict (st kvs n cur)) (n ++ '.' :: r, cv) =
      (match findSet (leafFn cv) cty (initChild cty (cur.getD .none)) (splitDot r) with
        | .error e => .error e
        | .ok sub => .ok (.dict (st kvs n (some sub)))) := by
  unfold parseEntry
  have hkey : ∀ c ∈ n ++ '.' :: r, keyChar c = true := by
    intro c hc
    rcases List.mem_append.mp hc with h | h
    · exact simpleName_keyChar hn c h
    · simp only [List.mem_cons] at h
      rcases h with rfl | h
      · decide
      · exact hr c h
  simp only [getFieldName_key _ hkey, splitDot_append n r (simpleName_no_dot hn)]
  cases hs : splitDot r with
  | nil => exact absurd hs (splitDot_ne_nil r)
  | cons seg rest =>
    have hf' : fieldLookup (remap [] n) fs = some (n, cty, d) := by rw [remap_nil]; exact hf
    rw [findSet_model_cons _ fs [] [] _ n seg rest _ hf']
    simp only [remap_nil]
    cases cur with
    | none =>
      simp only [st, ensureKey, hk, Option.getD_none]
      rw [aset_of_absent n Tree.none kvs hk]
      have hl : alookup n (kvs ++ [(n, Tree.none)]) = some Tree.none := by
        rw [alookup_append, hk]; simp [alookup]
      simp only [hl, Option.getD_some]
      cases findSet _ cty (initChild cty Tree.none) (seg :: rest) with
      | error e => rfl
      | ok sub => simp only [wrapDict]; rw [aset_last n Tree.none sub kvs hk]
    | some t =>
      have hl : alookup n (kvs ++ [(n, t)]) = some t := by
        rw [alookup_append, hk]; simp [alookup]
      simp only [st, ensureKey, hl, Option.getD_some]
      cases findSet _ cty (initChild cty t) (seg :: rest) with
      | error e => rfl
      | ok sub => simp only [wrapDict]; rw [aset_last n t sub kvs hk]

/-! ### a list of strings spread over `n.1, n.2, …` -/

theorem printNat_inj {a b : Nat} (h : printNat a = printNat b) : a = b := by
  have h1 := pyInt_printNat a
  rw [h, pyInt_printNat b] at h1
  have h2 : (Int.ofNat b) = Int.ofNat a := Option.some.inj h1
  exact (Int.ofNat.inj h2).symm

theorem printNat_keyChar (i : Nat) : ∀ c ∈ printNat i, keyChar c = true := by
  intro c hc
  obtain ⟨d, hd, rfl⟩ := (printNat_spec i).1 c hc
  have h := digitChar_ne d hd
  simp [keyChar, h.2.2.2.2.2.1, h.2.2.2.2.2.2.1, h.2.2.2.2.2.2.2, digitChar_not_ws d hd]

theorem printNat_no_dot (i : Nat) : ∀ c ∈ printNat i, c ≠ '.' := by
  intro c hc
  obtain ⟨d, hd, rfl⟩ := (printNat_spec i).1 c hc
  exact (digitChar_ne d hd).2.2.2.2.1

def spreadCols (n : Str) : Nat → List Str → List (Str × Str)
  | _, [] => []
  | i, s :: ss => (n ++ '.' :: printNat i, s) :: spreadCols n (i + 1) ss

theorem spreadCols_keys (n : Str) : ∀ (ss : List Str) (i : Nat), ∀ kv ∈ spreadCols n i ss,
    ∃ k, i ≤ k ∧ kv.1 = n ++ '.' :: printNat k
  | [], _, kv, h => by simp [spreadCols] at h
  | s :: ss, i, kv, h => by
    simp only [spreadCols, List.mem_cons] at h
    rcases h with rfl | h
    · exact ⟨i, Nat.le_refl _, rfl⟩
    · obtain ⟨k, hk, e⟩ := spreadCols_keys n ss (i + 1) kv h
      exact ⟨k, by omega, e⟩

theorem spreadCols_nodup (n : Str) : ∀ (ss : List Str) (i : Nat),
    ((spreadCols n i ss).map Prod.fst).Nodup
  | [], _ => by simp [spreadCols]
  | s :: ss, i => by
    simp only [spreadCols, List.map_cons, List.nodup_cons]
    refine ⟨?_, spreadCols_nodup n ss (i + 1)⟩
    intro hm
    obtain ⟨kv, hkv, e⟩ := List.mem_map.mp hm
    obtain ⟨k, hk, e'⟩ := spreadCols_keys n ss (i + 1) kv hkv
    rw [e'] at e
    have := printNat_inj (List.cons.inj (List.append_cancel_left e)).2
    omega

theorem unparseSeq_strs {lay : Layout} (he : lay.excluded = []) {n : Str}
    (hn : simpleName n = true) : ∀ (ss : List Str) (i : Nat) (out : Out),
    (∀ kv ∈ out, headSeg kv.1 ≠ n ∨ ∃ k, k < i ∧ kv.1 = n ++ '.' :: printNat k) →
    unparseSeq (unparseRec lay .str) ('.' :: n) i (ss.map Val.str) out =
      .ok (out ++ spreadCols n i ss)
  | [], _, out, _ => by simp [unparseSeq, spreadCols]
  | s :: ss, i, out, hout => by
    have hkey : alookup (n ++ '.' :: printNat i) out = none := by
      rw [alookup_none_iff]
      intro hm
      obtain ⟨kv, hkv, e⟩ := List.mem_map.mp hm
      rcases hout kv hkv with h | ⟨k, hk, h⟩
      · rw [e, headSeg_dotted hn] at h; exact h rfl
      · rw [e] at h
        have := printNat_inj (List.cons.inj (List.append_cancel_left h)).2
        omega
    simp only [List.map_cons, unparseSeq]
    rw [unparseRec_basic he _ _ rfl]
    simp only [printBasic, writeOut, idxPrefix, List.cons_append, trimPrefix, hkey]
    rw [unparseSeq_strs he hn ss (i + 1) (out ++ [(n ++ '.' :: printNat i, s)])]
    · simp [spreadCols]
    · intro kv hkv
      rcases List.mem_append.mp hkv with h | h
      · rcases hout kv h with h' | ⟨k, hk, h'⟩
        · exact Or.inl h'
        · exact Or.inr ⟨k, by omega, h'⟩
      · simp only [List.mem_singleton] at h
        exact Or.inr ⟨i, by omega, by rw [h]⟩

/-- appending to a list position: `find_entry` with the next index creates the `None`
placeholder, the assignment overwrites it -/
theorem findSet_list_next (leaf : Ty → Except Err (Option Tree)) (t : Ty) (ts : List Tree)
    (tr : Tree) (hl : leaf t = .ok (some tr)) :
    findSet leaf (.list t) (.list ts) [printNat (ts.length + 1)] = .ok (.list (ts ++ [tr])) := by
  conv => lhs; unfold findSet
  have h1 : (Int.ofNat (ts.length + 1) : Int) - 1 = (ts.length : Int) := by
    simp
  simp only [isListTy, if_true, pyInt_printNat, h1, listChild, hl, leafList]
  have h2 : ¬ ((ts.length : Int) ≤ (ts.length : Int) ∧ (ts.length : Int) ≠ (ts.length : Int)) := by
    intro h; exact h.2 rfl
  simp only [h2, if_false, Int.le_refl, if_true, List.length_append, List.length_singleton]
  have h3 : pyIndex (ts.length + 1) (ts.length : Int) = some ts.length := by
    simp [pyIndex]
  simp only [h3]
  simp

theorem fold_spread_strs {fs : List Field} {n : Str} {d : Option Val}
    (hn : simpleName n = true) (hf : fieldLookup n fs = some (n, .list .str, d))
    (kvs : List (Str × Tree)) (hk : alookup n kvs = none) :
    ∀ (ss : List Str) (s : Str) (ts : List Tree) (cur : Option Tree),
      (cur = none ∧ ts = [] ∨ cur = some (.list ts)) →
      (∀ x ∈ s :: ss, strOk x = true) →
      foldE (parseEntry (plainTop fs)) (.dict (st kvs n cur))
          (inl (spreadCols n (ts.length + 1) (s :: ss))) =
        .ok (.dict (st kvs n (some (.list (ts ++ (s :: ss).map Tree.str)))))
  | ss, s, ts, cur, hcur, hok => by
    have hinit : initChild (.list .str) (cur.getD Tree.none) = .list ts := by
      rcases hcur with ⟨rfl, rfl⟩ | rfl <;> simp [initChild, isListTy]
    obtain ⟨h1, h2, _⟩ := strOk_spec (hok s (by simp))
    have hstep : parseEntry (plainTop fs) (.dict (st kvs n cur))
        (n ++ '.' :: printNat (ts.length + 1), Sum.inl s) =
        .ok (.dict (st kvs n (some (.list (ts ++ [Tree.str s]))))) := by
      rw [parseEntry_nested hn hf kvs hk cur _ (printNat_keyChar _),
        splitDot_simple _ (printNat_no_dot _), hinit,
        findSet_list_next _ _ ts (Tree.str s)
          (by simp [leafFn, leafValue, isListTy, isModelTy, parseAsString_ok h1 h2, assignValue, assignStr])]
    cases ss with
    | nil =>
      simp only [spreadCols, inl, List.map_cons, List.map_nil, foldE]
      rw [hstep]
    | cons s' ss' =>
      have ih := fold_spread_strs hn hf kvs hk ss' s' (ts ++ [Tree.str s])
        (some (.list (ts ++ [Tree.str s]))) (Or.inr rfl)
        (fun x hx => hok x (List.mem_cons_of_mem _ hx))
      simp only [List.length_append, List.length_singleton] at ih
      simp only [spreadCols, inl, List.map_cons, foldE] at ih ⊢
      rw [hstep]
      simp only
      rw [ih]
      simp

theorem fieldRT_listStr_spread {lay : Layout} {fs : List Field} {n : Str} {d : Option Val}
    (hn : simpleName n = true) (hf : fieldLookup n fs = some (n, .list .str, d))
    (he : lay.excluded = []) (hm : matchesHeaders ('.' :: n) lay.targets = false)
    (ss : List Str) (hne : ss ≠ []) (hss : ∀ s ∈ ss, strOk s = true ∧ s ≠ []) :
    FieldRT lay fs n (.list .str) (.list (ss.map Val.str)) := by
  refine ⟨spreadCols n 1 ss, .list (ss.map Tree.str), ?_, ?_, spreadCols_nodup n ss 1, ?_, ?_, rfl⟩
  · intro out hout
    unfold unparseRec
    simp only [he, matchesHeaders_nil, hm, isBasicVal, Bool.false_or, Bool.false_eq_true, if_false]
    exact unparseSeq_strs he hn ss 1 out (fun kv hkv => Or.inl (hout kv hkv))
  · intro kv hkv
    obtain ⟨k, _, e⟩ := spreadCols_keys n ss 1 kv hkv
    rw [e]
    refine ⟨headSeg_dotted hn _, ?_⟩
    intro c hc
    rcases List.mem_append.mp hc with h | h
    · exact simpleName_keyChar hn c h
    · simp only [List.mem_cons] at h
      rcases h with rfl | h
      · decide
      · exact printNat_keyChar k c h
  · intro kvs hk
    cases ss with
    | nil => exact absurd rfl hne
    | cons s ss' =>
      have := fold_spread_strs hn hf kvs hk ss' s [] none (Or.inl ⟨rfl, rfl⟩)
        (fun x hx => (hss x hx).1)
      simpa [st] using this
  · simp only [validate]
    rw [mapE_map_ok _ Tree.str Val.str ss (fun a _ => by simp [validate])]

end Rpft.Row
