import Rpft.Lemmas.SugarFlat
set_option linter.unusedSimpArgs false
set_option linter.unusedVariables false
namespace Rpft.SugarFlat
open Rpft Rpft.Sugar
open Rpft.Cli (RowType BlockType Fault isEndOfBlock blockEndMap)

variable {Raw Inst Ctx Val Hdr Err S : Type}

/-! ## one turn of the `while` loop -/

theorem parseBlock_zero (I : FIface Raw Inst Ctx Val Hdr Err S) (d : Nat) (bt : BlockType) (om : Bool)
    (s : St Raw Inst Ctx Hdr) : parseBlock I 0 d bt om s = .error .fuel := rfl

theorem parseBlock_eof (I : FIface Raw Inst Ctx Val Hdr Err S) (F d : Nat) (bt : BlockType) (om : Bool)
    (m : List (Nat × List Raw)) (c : Ctx) (ev : List (Ev Inst Hdr)) :
    parseBlock I (F + 1) d bt om ⟨[], m, c, ev⟩ =
      (match isEndOfBlock bt none with
       | .error f => .error (.fault f)
       | .ok _ => .ok ⟨[], m, c, ev⟩) := rfl

theorem parseBlock_omit (I : FIface Raw Inst Ctx Val Hdr Err S) (F d : Nat) (bt : BlockType)
    (r : Raw) (rest : List Raw) (m : List (Nat × List Raw)) (c : Ctx) (ev : List (Ev Inst Hdr)) :
    parseBlock I (F + 1) d bt true ⟨r :: rest, m, c, ev⟩ =
      (match I.scanFail r with
       | some e => .error (.err e)
       | none =>
         match isEndOfBlock bt (some (I.kind r)) with
         | .error f => .error (.fault f)
         | .ok true => .ok ⟨rest, m, c, ev⟩
         | .ok false =>
           match skipTurn (I.kind r) (parseBlock I F (d + 1) .for_ true)
               (parseBlock I F (d + 1) .block true) ⟨rest, m, c, ev⟩ with
           | .error e => .error e
           | .ok s2 => parseBlock I F d bt true s2) := rfl

theorem parseBlock_run (I : FIface Raw Inst Ctx Val Hdr Err S) (F d : Nat) (bt : BlockType)
    (r : Raw) (rest : List Raw) (m : List (Nat × List Raw)) (c : Ctx) (ev : List (Ev Inst Hdr)) :
    parseBlock I (F + 1) d bt false ⟨r :: rest, m, c, ev⟩ =
      (match I.inst c r with
       | .error e => .error (.err e)
       | .ok i =>
         match isEndOfBlock bt (some (I.kindI i)) with
         | .error f => .error (.fault f)
         | .ok true => .ok ⟨rest, m, c, ev⟩
         | .ok false =>
           match (if I.includeIf i then
               (match I.kindI i with
                | .beginFor =>
                  beginFor I d i (parseBlock I F (d + 1) .for_ false)
                    (parseBlock I F (d + 1) .for_ true) ⟨rest, m, c, ev⟩
                | .beginBlock =>
                  match parseBlock I F (d + 1) .block false ⟨rest, m, c, ev ++ [.open_ (I.hdr i)]⟩ with
                  | .error e => .error e
                  | .ok s2 => .ok { s2 with evs := s2.evs ++ [.close (I.hdr i)] }
                | _ => .ok ⟨rest, m, c, ev ++ [.row i]⟩)
             else
               skipTurn (I.kindI i) (parseBlock I F (d + 1) .for_ true)
                 (parseBlock I F (d + 1) .block true) ⟨rest, m, c, ev⟩) with
           | .error e => .error e
           | .ok s2 => parseBlock I F d bt false s2) := rfl

/-! ## content that is omitted -/

theorem firstFail_append (I : FIface Raw Inst Ctx Val Hdr Err S) (a b : List Raw) :
    firstFail I (a ++ b) = (match firstFail I a with | some x => some x | none => firstFail I b) := by
  induction a with
  | nil => simp [firstFail]
  | cons r a ih =>
    simp only [List.cons_append, firstFail]
    cases I.scanFail r <;> simp [ih]

theorem firstFail_cons (I : FIface Raw Inst Ctx Val Hdr Err S) (r : Raw) (b : List Raw) :
    firstFail I (r :: b) = (match I.scanFail r with | some x => some x | none => firstFail I b) := rfl

/-- a whole block read with `omit_content=True`: body, then its end row -/
theorem omit_block_call (I : FIface Raw Inst Ctx Val Hdr Err S) (body : List (FItem Raw)) (e : Raw)
    (bt' : BlockType) (hE : isEndOfBlock bt' (some (I.kind e)) = .ok true)
    (H : ∀ (F d : Nat) (bt : BlockType) (tail : List Raw) (m : List (Nat × List Raw)) (c : Ctx)
        (ev : List (Ev Inst Hdr)), (flattenFL body).length < F →
        parseBlock I F d bt true ⟨flattenFL body ++ tail, m, c, ev⟩ =
          (match firstFail I (flattenFL body) with
           | some x => .error (.err x)
           | none => parseBlock I (F - body.length) d bt true ⟨tail, m, c, ev⟩))
    (F d : Nat) (tail : List Raw) (m : List (Nat × List Raw)) (c : Ctx) (ev : List (Ev Inst Hdr))
    (hF : (flattenFL body).length < F) :
    parseBlock I F d bt' true ⟨flattenFL body ++ e :: tail, m, c, ev⟩ =
      (match firstFail I (flattenFL body ++ [e]) with
       | some x => .error (.err x)
       | none => .ok ⟨tail, m, c, ev⟩) := by
  rw [H F d bt' (e :: tail) m c ev hF, firstFail_append]
  cases firstFail I (flattenFL body) with
  | some x => simp
  | none =>
    have hl := length_le_flattenFL body
    obtain ⟨n, hn⟩ : ∃ n, F - body.length = n + 1 := ⟨F - body.length - 1, by omega⟩
    simp only [hn, parseBlock_omit, firstFail_cons, firstFail]
    cases I.scanFail e with
    | some x => simp
    | none => simp [hE]

mutual
theorem omit_item (I : FIface Raw Inst Ctx Val Hdr Err S) :
    ∀ (it : FItem Raw), WkF I.kind it → ∀ (F d : Nat) (bt : BlockType) (tail : List Raw)
      (m : List (Nat × List Raw)) (c : Ctx) (ev : List (Ev Inst Hdr)), (flattenF it).length ≤ F →
      parseBlock I (F + 1) d bt true ⟨flattenF it ++ tail, m, c, ev⟩ =
        (match firstFail I (flattenF it) with
         | some x => .error (.err x)
         | none => parseBlock I F d bt true ⟨tail, m, c, ev⟩)
  | .row r, h, F, d, bt, tail, m, c, ev, hF => by
    simp only [WkF] at h
    simp only [flattenF, List.cons_append, List.nil_append, parseBlock_omit, firstFail_cons, firstFail, h,
      isEnd_other, skipTurn]
    cases I.scanFail r <;> simp
  | .block b body e, h, F, d, bt, tail, m, c, ev, hF => by
    obtain ⟨hb, hbody, he⟩ := h
    have hF' : (flattenFL body).length < F := by
      simp [flattenF] at hF; omega
    have hcall := omit_block_call I body e .block (by simp [he])
      (fun F d bt tail m c ev hF => omit_items I body hbody F d bt tail m c ev hF)
      F (d + 1) tail m c ev hF'
    simp only [flattenF, List.cons_append, List.append_assoc, List.singleton_append, List.nil_append,
      parseBlock_omit, firstFail_cons, hb, isEnd_beginBlock, skipTurn, hcall]
    cases I.scanFail b with
    | some x => simp
    | none =>
      simp only []
      cases firstFail I (flattenFL body ++ [e]) <;> simp
  | .forLoop b body e, h, F, d, bt, tail, m, c, ev, hF => by
    obtain ⟨hb, hbody, he⟩ := h
    have hF' : (flattenFL body).length < F := by
      simp [flattenF] at hF; omega
    have hcall := omit_block_call I body e .for_ (by simp [he])
      (fun F d bt tail m c ev hF => omit_items I body hbody F d bt tail m c ev hF)
      F (d + 1) tail m c ev hF'
    simp only [flattenF, List.cons_append, List.append_assoc, List.singleton_append, List.nil_append,
      parseBlock_omit, firstFail_cons, hb, isEnd_beginFor, skipTurn, hcall]
    cases I.scanFail b with
    | some x => simp
    | none =>
      simp only []
      cases firstFail I (flattenFL body ++ [e]) <;> simp
theorem omit_items (I : FIface Raw Inst Ctx Val Hdr Err S) :
    ∀ (its : List (FItem Raw)), WkFL I.kind its → ∀ (F d : Nat) (bt : BlockType) (tail : List Raw)
      (m : List (Nat × List Raw)) (c : Ctx) (ev : List (Ev Inst Hdr)), (flattenFL its).length < F →
      parseBlock I F d bt true ⟨flattenFL its ++ tail, m, c, ev⟩ =
        (match firstFail I (flattenFL its) with
         | some x => .error (.err x)
         | none => parseBlock I (F - its.length) d bt true ⟨tail, m, c, ev⟩)
  | [], _, F, d, bt, tail, m, c, ev, hF => by simp [flattenFL, firstFail]
  | it :: its, h, F, d, bt, tail, m, c, ev, hF => by
    obtain ⟨h1, h2⟩ := h
    obtain ⟨n, rfl⟩ : ∃ n, F = n + 1 := ⟨F - 1, by omega⟩
    have hlen : (flattenFL (it :: its)).length = (flattenF it).length + (flattenFL its).length := by
      simp [flattenFL]
    have hit := length_le_flattenF it
    simp only [flattenFL, List.append_assoc]
    rw [omit_item I it h1 n d bt (flattenFL its ++ tail) m c ev (by omega), firstFail_append]
    cases firstFail I (flattenF it) with
    | some x => simp
    | none =>
      simp only []
      rw [omit_items I its h2 n d bt tail m c ev (by omega)]
      simp
end

/-! ## bookmarks -/

def MarksBelow (d : Nat) (m : List (Nat × List Raw)) : Prop := ∀ q ∈ m, q.1 < d

theorem delMark_below (d : Nat) (m : List (Nat × List Raw)) (h : MarksBelow d m) : delMark d m = m := by
  induction m with
  | nil => rfl
  | cons q m ih =>
    obtain ⟨k, p⟩ := q
    have hk : k < d := h (k, p) (by simp)
    have hne : k ≠ d := by omega
    simp only [delMark, hne, if_false]
    rw [ih (fun q hq => h q (by simp [hq]))]

theorem getMark_setMark (d : Nat) (p : List Raw) (m : List (Nat × List Raw)) :
    getMark d (setMark d p m) = some p := by simp [setMark, getMark]

theorem MarksBelow_setMark (d : Nat) (p : List Raw) (m : List (Nat × List Raw)) (h : MarksBelow d m) :
    MarksBelow (d + 1) (setMark d p m) := by
  intro q hq
  simp only [setMark, delMark_below d m h, List.mem_cons] at hq
  rcases hq with rfl | hq
  · simp
  · have := h q hq; omega

theorem delMark_setMark (d : Nat) (p : List Raw) (m : List (Nat × List Raw)) (h : MarksBelow d m) :
    delMark d (setMark d p m) = m := by
  simp [setMark, delMark, delMark_below d m h]

theorem MarksBelow_succ (d : Nat) (m : List (Nat × List Raw)) (h : MarksBelow d m) : MarksBelow (d + 1) m :=
  fun q hq => by have := h q hq; omega

/-! ## the context around a loop -/

theorem bindVars_ctx (I : FIface Raw Inst Ctx Val Hdr Err S) (L : FlatLaws I) (c : Ctx) (v : Str)
    (idx : Option Str) (x : Val) (k : Nat) :
    bindVars I c v idx x k = iterCtx I.toIface c v idx x k := by
  cases idx <;> simp [bindVars, iterCtx, L.bind_eq, L.bindIdx_eq]

/-- binding the variables of the next iteration on top of those of the previous one gives the
context of the next iteration -/
theorem bindVars_iter (I : FIface Raw Inst Ctx Val Hdr Err S) (L : FlatLaws I) (c : Ctx) (v : Str)
    (idx : Option Str) (hne : ∀ i, idx = some i → v ≠ i) (x x' : Val) (k k' : Nat) :
    bindVars I (iterCtx I.toIface c v idx x k) v idx x' k' = iterCtx I.toIface c v idx x' k' := by
  cases idx with
  | none => simp [bindVars, iterCtx, L.bind_eq, L.put_put]
  | some i =>
    have h := hne i rfl
    simp only [bindVars, iterCtx, L.bind_eq, L.bindIdx_eq]
    rw [L.put_comm c v i _ _ h, L.put_put, L.put_comm _ i v _ _ (Ne.symm h), L.put_put]

theorem restore_one (I : FIface Raw Inst Ctx Val Hdr Err S) (L : FlatLaws I) (c : Ctx) (v : Str) :
    restoreVar I c v (I.del c v) = c := by
  unfold restoreVar
  cases h : I.get c v with
  | none => simp [L.del_absent c v h]
  | some a => simp [L.put_del c v a h]

/-- after the last iteration: loop variables removed, what they shadowed put back — the context
is the one before `begin_for` -/
theorem endLoopCtx_iter (I : FIface Raw Inst Ctx Val Hdr Err S) (L : FlatLaws I) (c : Ctx) (v : Str)
    (idx : Option Str) (hne : ∀ i, idx = some i → v ≠ i) (x : Val) (k : Nat) :
    endLoopCtx I c v idx (iterCtx I.toIface c v idx x k) = .ok c := by
  cases idx with
  | none =>
    simp only [endLoopCtx, popCtx, iterCtx, L.bind_eq, L.get_put, L.del_put]
    rw [restore_one I L]
  | some i =>
    have h := hne i rfl
    simp only [endLoopCtx, popCtx, iterCtx, L.bind_eq, L.bindIdx_eq]
    rw [L.get_put_ne _ i v _ (Ne.symm h), L.get_put]
    simp only []
    rw [L.del_put_ne _ i v _ (Ne.symm h), L.del_put, L.get_put]
    simp only []
    rw [L.del_put]
    -- put back: restoreVar i (restoreVar v (del (del c v) i))
    have e1 : restoreVar I c v (I.del (I.del c v) i) = I.del c i := by
      unfold restoreVar
      cases hv : I.get c v with
      | none => simp [L.del_absent c v hv]
      | some a =>
        simp only []
        rw [← L.del_put_ne (I.del c v) v i a h, L.put_del c v a hv]
    rw [e1, restore_one I L]

/-! ## content that is evaluated -/

/-- context after the iterations over `xs`, started in `c'` -/
def lastCtx (I : FIface Raw Inst Ctx Val Hdr Err S) (c0 : Ctx) (v : Str) (idx : Option Str) :
    Ctx → List (Val × Nat) → Ctx
  | c', [] => c'
  | _, (x, k) :: xs => lastCtx I c0 v idx (iterCtx I.toIface c0 v idx x k) xs

theorem lastCtx_cons (I : FIface Raw Inst Ctx Val Hdr Err S) (c0 : Ctx) (v : Str) (idx : Option Str)
    (c' : Ctx) (p : Val × Nat) (xs : List (Val × Nat)) :
    ∃ x k, lastCtx I c0 v idx c' (p :: xs) = iterCtx I.toIface c0 v idx x k := by
  induction xs generalizing c' p with
  | nil => exact ⟨p.1, p.2, by simp [lastCtx]⟩
  | cons q xs ih =>
    obtain ⟨x, k, h⟩ := ih (iterCtx I.toIface c0 v idx p.1 p.2) q
    exact ⟨x, k, by simpa [lastCtx] using h⟩

theorem iterate_spec (I : FIface Raw Inst Ctx Val Hdr Err S) (L : FlatLaws I) (d : Nat) (v : Str)
    (idx : Option Str) (hne : ∀ i, idx = some i → v ≠ i) (c0 : Ctx)
    (bodyFn : St Raw Inst Ctx Hdr → Res Err (St Raw Inst Ctx Hdr))
    (iter : Ctx → Except Err (List (Ev Inst Hdr))) (P tail : List Raw) (m : List (Nat × List Raw))
    (hm : getMark d m = some P)
    (Hbody : ∀ (c' : Ctx) (ev' : List (Ev Inst Hdr)), bodyFn ⟨P, m, c', ev'⟩ =
      (match iter c' with
       | .error x => .error (.err x)
       | .ok es => .ok ⟨tail, m, c', ev' ++ es⟩)) :
    ∀ (xs : List (Val × Nat)) (p : List Raw) (c' : Ctx) (ev' : List (Ev Inst Hdr)),
      (∀ x k, bindVars I c' v idx x k = iterCtx I.toIface c0 v idx x k) →
      iterate I d v idx bodyFn xs ⟨p, m, c', ev'⟩ =
        (match sequence (xs.map fun (x, k) => iter (iterCtx I.toIface c0 v idx x k)) with
         | .error x => .error (.err x)
         | .ok ess => .ok ⟨if xs.isEmpty then p else tail, m, lastCtx I c0 v idx c' xs, ev' ++ ess.flatten⟩) := by
  intro xs
  induction xs with
  | nil => intro p c' ev' _; simp [iterate, sequence, lastCtx]
  | cons q xs ih =>
    intro p c' ev' habs
    obtain ⟨x, k⟩ := q
    simp only [iterate, hm, habs, Hbody, List.map_cons, sequence, lastCtx]
    cases hi : iter (iterCtx I.toIface c0 v idx x k) with
    | error e => simp
    | ok es =>
      simp only []
      rw [ih tail _ _ (fun x' k' => bindVars_iter I L c0 v idx hne x x' k k')]
      cases sequence (xs.map fun (x, k) => iter (iterCtx I.toIface c0 v idx x k)) with
      | error e => simp
      | ok ess => simp [List.append_assoc]

/-- the `begin_for` branch, given what the two recursive calls do on the loop body -/
theorem beginFor_spec (I : FIface Raw Inst Ctx Val Hdr Err S) (L : FlatLaws I) (d : Nat) (i : Inst)
    (bodyFn skipFn : St Raw Inst Ctx Hdr → Res Err (St Raw Inst Ctx Hdr))
    (iter : Ctx → Except Err (List (Ev Inst Hdr))) (skipped P tail : List Raw)
    (m : List (Nat × List Raw)) (hm : MarksBelow d m)
    (Hbody : ∀ (c' : Ctx) (ev' : List (Ev Inst Hdr)), bodyFn ⟨P, setMark d P m, c', ev'⟩ =
      (match iter c' with
       | .error x => .error (.err x)
       | .ok es => .ok ⟨tail, setMark d P m, c', ev' ++ es⟩))
    (Hskip : ∀ (c' : Ctx) (ev' : List (Ev Inst Hdr)), skipFn ⟨P, setMark d P m, c', ev'⟩ =
      (match firstFail I skipped with
       | some x => .error (.err x)
       | none => .ok ⟨tail, setMark d P m, c', ev'⟩))
    (c : Ctx) (ev : List (Ev Inst Hdr)) :
    beginFor I d i bodyFn skipFn ⟨P, m, c, ev⟩ =
      (match evLoop I c i skipped iter with
       | .error x => .error (.err x)
       | .ok es => .ok ⟨tail, m, c, ev ++ es⟩) := by
  unfold beginFor evLoop
  cases hv : I.loopVars i with
  | none => simp
  | some vi =>
    obtain ⟨v, idx⟩ := vi
    have hne : ∀ j, idx = some j → v ≠ j := fun j hj => L.vars_ne i v j (by rw [hv, hj])
    simp only []
    rw [iterate_spec I L d v idx hne c bodyFn iter P tail (setMark d P m) (getMark_setMark d P m) Hbody
      _ P c _ (fun x k => bindVars_ctx I L c v idx x k)]
    cases hl : (I.iterList i).zipIdx with
    | nil =>
      have hemp : (I.iterList i).isEmpty = true := by
        cases hli : I.iterList i with
        | nil => rfl
        | cons a as => simp [hli, List.zipIdx] at hl
      simp only [List.map_nil, sequence, hemp, if_true, List.isEmpty_nil, lastCtx, Hskip, skipRows]
      cases firstFail I skipped with
      | some x => simp
      | none =>
        simp [getMark_setMark, delMark_setMark d P m hm, List.append_assoc]
    | cons q xs =>
      have hemp : (I.iterList i).isEmpty = false := by
        cases hli : I.iterList i with
        | nil => simp [hli, List.zipIdx] at hl
        | cons a as => rfl
      simp only [hemp]
      cases hs : sequence ((q :: xs).map fun (x, k) => iter (iterCtx I.toIface c v idx x k)) with
      | error e => simp
      | ok ess =>
        obtain ⟨x, k, hlast⟩ := lastCtx_cons I c v idx c q xs
        simp only [List.isEmpty_cons, hlast, Bool.false_eq_true, if_false]
        rw [endLoopCtx_iter I L c v idx hne x k]
        simp [getMark_setMark, delMark_setMark d P m hm, List.append_assoc]

/-- a whole block whose content is evaluated: body, then its end row (instantiated) -/
theorem block_call (I : FIface Raw Inst Ctx Val Hdr Err S) (L : FlatLaws I) (body : List (FItem Raw))
    (e : Raw) (bt' : BlockType) (hE : isEndOfBlock bt' (some (I.kind e)) = .ok true)
    (H : ∀ (F d : Nat) (bt : BlockType) (tail : List Raw) (m : List (Nat × List Raw)) (c : Ctx)
        (ev : List (Ev Inst Hdr)), (flattenFL body).length < F → MarksBelow d m →
        parseBlock I F d bt false ⟨flattenFL body ++ tail, m, c, ev⟩ =
          (match evFs I c body with
           | .error x => .error (.err x)
           | .ok es => parseBlock I (F - body.length) d bt false ⟨tail, m, c, ev ++ es⟩))
    (F d : Nat) (tail : List Raw) (m : List (Nat × List Raw)) (c : Ctx) (ev : List (Ev Inst Hdr))
    (hF : (flattenFL body).length < F) (hm : MarksBelow d m) :
    parseBlock I F d bt' false ⟨flattenFL body ++ e :: tail, m, c, ev⟩ =
      (match thenEnd I c e (evFs I c body) with
       | .error x => .error (.err x)
       | .ok es => .ok ⟨tail, m, c, ev ++ es⟩) := by
  rw [H F d bt' (e :: tail) m c ev hF hm]
  cases evFs I c body with
  | error x => simp [thenEnd]
  | ok es =>
    have hl := length_le_flattenFL body
    obtain ⟨n, hn⟩ : ∃ n, F - body.length = n + 1 := ⟨F - body.length - 1, by omega⟩
    simp only [hn, parseBlock_run, thenEnd]
    cases hi : I.inst c e with
    | error x => simp
    | ok ie => simp [L.kind_inst c e ie hi, hE]

mutual
theorem run_item (I : FIface Raw Inst Ctx Val Hdr Err S) (L : FlatLaws I) :
    ∀ (it : FItem Raw), WkF I.kind it → ∀ (F d : Nat) (bt : BlockType) (tail : List Raw)
      (m : List (Nat × List Raw)) (c : Ctx) (ev : List (Ev Inst Hdr)), (flattenF it).length ≤ F →
      MarksBelow d m →
      parseBlock I (F + 1) d bt false ⟨flattenF it ++ tail, m, c, ev⟩ =
        (match evF I c it with
         | .error x => .error (.err x)
         | .ok es => parseBlock I F d bt false ⟨tail, m, c, ev ++ es⟩)
  | .row r, h, F, d, bt, tail, m, c, ev, hF, hm => by
    simp only [WkF] at h
    simp only [flattenF, List.cons_append, List.nil_append, parseBlock_run, evF]
    cases hi : I.inst c r with
    | error x => simp
    | ok i =>
      have hk := L.kind_inst c r i hi
      simp only [hk, h, isEnd_other, skipTurn]
      cases I.includeIf i <;> simp
  | .block b body e, h, F, d, bt, tail, m, c, ev, hF, hm => by
    obtain ⟨hb, hbody, he⟩ := h
    have hF' : (flattenFL body).length < F := by
      simp [flattenF] at hF; omega
    have hrun := block_call I L body e .block (by simp [he])
      (fun F d bt tail m c ev hF hm => run_items I L body hbody F d bt tail m c ev hF hm)
      F (d + 1) tail m c
    have hskip := omit_block_call I body e .block (by simp [he])
      (fun F d bt tail m c ev hF => omit_items I body hbody F d bt tail m c ev hF)
      F (d + 1) tail m c ev hF'
    simp only [flattenF, List.cons_append, List.append_assoc, List.singleton_append, List.nil_append,
      parseBlock_run, evF]
    cases hi : I.inst c b with
    | error x => simp
    | ok i =>
      have hk := L.kind_inst c b i hi
      simp only [hk, hb, isEnd_beginBlock, skipTurn]
      cases hinc : I.includeIf i with
      | true =>
        simp only [if_true]
        rw [hrun _ hF' (MarksBelow_succ d m hm)]
        cases thenEnd I c e (evFs I c body) with
        | error x => simp
        | ok es => simp [List.append_assoc]
      | false =>
        simp only [Bool.false_eq_true, if_false, hskip, skipRows]
        cases firstFail I (flattenFL body ++ [e]) <;> simp
  | .forLoop b body e, h, F, d, bt, tail, m, c, ev, hF, hm => by
    obtain ⟨hb, hbody, he⟩ := h
    have hF' : (flattenFL body).length < F := by
      simp [flattenF] at hF; omega
    have hrun := block_call I L body e .for_ (by simp [he])
      (fun F d bt tail m c ev hF hm => run_items I L body hbody F d bt tail m c ev hF hm)
      F (d + 1) tail
    have hskip := omit_block_call I body e .for_ (by simp [he])
      (fun F d bt tail m c ev hF => omit_items I body hbody F d bt tail m c ev hF)
      F (d + 1) tail
    simp only [flattenF, List.cons_append, List.append_assoc, List.singleton_append, List.nil_append,
      parseBlock_run, evF]
    cases hi : I.inst c b with
    | error x => simp
    | ok i =>
      have hk := L.kind_inst c b i hi
      simp only [hk, hb, isEnd_beginFor, skipTurn]
      cases hinc : I.includeIf i with
      | true =>
        simp only [if_true]
        rw [beginFor_spec I L d i _ _ (fun c => thenEnd I c e (evFs I c body)) (flattenFL body ++ [e])
          (flattenFL body ++ e :: tail) tail m hm
          (fun c' ev' => hrun _ c' ev' hF' (MarksBelow_setMark d _ m hm))
          (fun c' ev' => hskip _ c' ev' hF') c ev]
        cases evLoop I c i (flattenFL body ++ [e]) (fun c => thenEnd I c e (evFs I c body)) with
        | error x => simp
        | ok es => simp
      | false =>
        simp only [Bool.false_eq_true, if_false, hskip _ c ev hF', skipRows]
        cases firstFail I (flattenFL body ++ [e]) <;> simp
theorem run_items (I : FIface Raw Inst Ctx Val Hdr Err S) (L : FlatLaws I) :
    ∀ (its : List (FItem Raw)), WkFL I.kind its → ∀ (F d : Nat) (bt : BlockType) (tail : List Raw)
      (m : List (Nat × List Raw)) (c : Ctx) (ev : List (Ev Inst Hdr)), (flattenFL its).length < F →
      MarksBelow d m →
      parseBlock I F d bt false ⟨flattenFL its ++ tail, m, c, ev⟩ =
        (match evFs I c its with
         | .error x => .error (.err x)
         | .ok es => parseBlock I (F - its.length) d bt false ⟨tail, m, c, ev ++ es⟩)
  | [], _, F, d, bt, tail, m, c, ev, hF, hm => by simp [flattenFL, evFs]
  | it :: its, h, F, d, bt, tail, m, c, ev, hF, hm => by
    obtain ⟨h1, h2⟩ := h
    obtain ⟨n, rfl⟩ : ∃ n, F = n + 1 := ⟨F - 1, by omega⟩
    have hlen : (flattenFL (it :: its)).length = (flattenF it).length + (flattenFL its).length := by
      simp [flattenFL]
    have hit := length_le_flattenF it
    simp only [flattenFL, List.append_assoc, evFs]
    rw [run_item I L it h1 n d bt (flattenFL its ++ tail) m c ev (by omega) hm]
    cases evF I c it with
    | error x => simp
    | ok a =>
      simp only []
      rw [run_items I L its h2 n d bt tail m c (ev ++ a) (by omega) hm]
      cases evFs I c its with
      | error x => simp
      | ok b => simp [List.append_assoc]
end

end Rpft.SugarFlat
