/-
Helper lemmas for C19: the generic row loop (`parseRows`, `validateAll`) and `replace1`.
-/
import Rpft.Campaign
set_option linter.unusedSimpArgs false
set_option linter.unusedVariables false
namespace Rpft.Campaign
open Rpft

theorem validateAll_none_iff {ρ : Type} (v : ρ → Option Exc) (rows : List ρ) :
    validateAll v rows = none ↔ ∀ r ∈ rows, v r = none := by
  induction rows with
  | nil => simp [validateAll]
  | cons r rs ih =>
    unfold validateAll
    cases h : v r with
    | none => simp [ih, h]
    | some e => simp [h]

/-- a clean run (no exception, no critical) yields one output per row, in order -/
theorem parseRows_clean {ρ α : Type} (f : ρ → RowRes α) :
    ∀ (rows : List ρ) (i : Nat) (out : List α), parseRows f i rows = .ok (out, []) →
      out.length = rows.length ∧
      ∀ k (h : k < rows.length) (h' : k < out.length), f rows[k] = .ok out[k] := by
  intro rows
  induction rows with
  | nil =>
    intro i out h
    simp [parseRows] at h
    subst h
    simp
  | cons r rs ih =>
    intro i out h
    unfold parseRows at h
    cases hf : f r with
    | exc e => simp [hf] at h
    | crit c =>
      simp only [hf] at h
      cases hrec : parseRows f (i + 1) rs with
      | error e => simp [hrec] at h
      | ok p => obtain ⟨o, cs⟩ := p; simp [hrec] at h
    | ok a =>
      simp only [hf] at h
      cases hrec : parseRows f (i + 1) rs with
      | error e => simp [hrec] at h
      | ok p =>
        obtain ⟨o, cs⟩ := p
        simp [hrec] at h
        obtain ⟨h1, h2⟩ := h
        subst h1; subst h2
        have := ih (i + 1) o hrec
        refine ⟨by simp [this.1], ?_⟩
        intro k hk hk'
        cases k with
        | zero => simpa using hf
        | succ k => simpa using this.2 k (by simpa using hk) (by simpa using hk')

/-- a run is clean exactly when every row is individually accepted -/
theorem parseRows_clean_iff {ρ α : Type} (f : ρ → RowRes α) :
    ∀ (rows : List ρ) (i : Nat),
      (∃ out, parseRows f i rows = .ok (out, [])) ↔ ∀ r ∈ rows, ∃ a, f r = .ok a := by
  intro rows
  induction rows with
  | nil => intro i; simp [parseRows]
  | cons r rs ih =>
    intro i
    constructor
    · rintro ⟨out, h⟩
      unfold parseRows at h
      cases hf : f r with
      | exc e => simp [hf] at h
      | crit c =>
        simp only [hf] at h
        cases hrec : parseRows f (i + 1) rs with
        | error e => simp [hrec] at h
        | ok p => obtain ⟨o, cs⟩ := p; simp [hrec] at h
      | ok a =>
        simp only [hf] at h
        cases hrec : parseRows f (i + 1) rs with
        | error e => simp [hrec] at h
        | ok p =>
          obtain ⟨o, cs⟩ := p
          simp [hrec] at h
          obtain ⟨h1, h2⟩ := h
          subst h2
          have hrs := (ih (i + 1)).1 ⟨o, hrec⟩
          intro x hx
          rcases List.mem_cons.1 hx with rfl | hx
          · exact ⟨a, hf⟩
          · exact hrs x hx
    · intro hall
      obtain ⟨a, ha⟩ := hall r (List.mem_cons_self ..)
      obtain ⟨o, ho⟩ := (ih (i + 1)).2 (fun x hx => hall x (List.mem_cons_of_mem _ hx))
      exact ⟨a :: o, by unfold parseRows; simp [ha, ho]⟩

/-- the accepted rows, in order -/
def accepted {ρ α : Type} (f : ρ → RowRes α) (rows : List ρ) : List α :=
  rows.filterMap fun r => match f r with
    | .ok a => some a
    | _ => none

/-- library mode (a critical does not stop the run): whatever is reported, the outputs are
exactly the individually accepted rows, in row order — nothing is reordered, duplicated or
taken from another row -/
theorem parseRows_out {ρ α : Type} (f : ρ → RowRes α) :
    ∀ (rows : List ρ) (i : Nat) (out : List α) (cs : List (Nat × Crit)),
      parseRows f i rows = .ok (out, cs) → out = accepted f rows := by
  intro rows
  induction rows with
  | nil => intro i out cs h; simp [parseRows] at h; simp [accepted, h.1]
  | cons r rs ih =>
    intro i out cs h
    unfold parseRows at h
    cases hf : f r with
    | exc e => simp [hf] at h
    | crit c =>
      simp only [hf] at h
      cases hrec : parseRows f (i + 1) rs with
      | error e => simp [hrec] at h
      | ok p =>
        obtain ⟨o, cs'⟩ := p
        simp [hrec] at h
        have := ih (i + 1) o cs' hrec
        simp [accepted, hf, ← h.1, this]
    | ok a =>
      simp only [hf] at h
      cases hrec : parseRows f (i + 1) rs with
      | error e => simp [hrec] at h
      | ok p =>
        obtain ⟨o, cs'⟩ := p
        simp [hrec] at h
        have := ih (i + 1) o cs' hrec
        simp [accepted, hf, ← h.1, this]

/-- … and the criticals name exactly the rows that produced them, with increasing indices -/
theorem parseRows_crit_bound {ρ α : Type} (f : ρ → RowRes α) :
    ∀ (rows : List ρ) (i : Nat) (out : List α) (cs : List (Nat × Crit)),
      parseRows f i rows = .ok (out, cs) →
      ∀ p ∈ cs, i ≤ p.1 ∧ ∃ (h : p.1 - i < rows.length), f rows[p.1 - i] = .crit p.2 := by
  intro rows
  induction rows with
  | nil => intro i out cs h; simp [parseRows] at h; simp [h.2]
  | cons r rs ih =>
    intro i out cs h
    unfold parseRows at h
    cases hf : f r with
    | exc e => simp [hf] at h
    | crit c =>
      simp only [hf] at h
      cases hrec : parseRows f (i + 1) rs with
      | error e => simp [hrec] at h
      | ok p =>
        obtain ⟨o, cs'⟩ := p
        simp [hrec] at h
        have hih := ih (i + 1) o cs' hrec
        intro p hp
        rw [← h.2] at hp
        rcases List.mem_cons.1 hp with rfl | hp
        · exact ⟨Nat.le_refl _, by simp, by simpa using hf⟩
        · obtain ⟨h1, h2, h3⟩ := hih p hp
          have e : p.1 - i = (p.1 - (i + 1)) + 1 := by omega
          refine ⟨by omega, by simp; omega, ?_⟩
          simp only [e, List.getElem_cons_succ]
          exact h3
    | ok a =>
      simp only [hf] at h
      cases hrec : parseRows f (i + 1) rs with
      | error e => simp [hrec] at h
      | ok p =>
        obtain ⟨o, cs'⟩ := p
        simp [hrec] at h
        have hih := ih (i + 1) o cs' hrec
        intro p hp
        rw [← h.2] at hp
        obtain ⟨h1, h2, h3⟩ := hih p hp
        have e : p.1 - i = (p.1 - (i + 1)) + 1 := by omega
        refine ⟨by omega, by simp; omega, ?_⟩
        simp only [e, List.getElem_cons_succ]
        exact h3

theorem not_mem_replace1 {c : Char} {r : Str} (hr : c ∉ r) (s : Str) : c ∉ replace1 c r s := by
  unfold replace1
  intro h
  rcases List.mem_flatMap.1 h with ⟨x, _, hx⟩
  by_cases hxc : x = c
  · simp [hxc] at hx; exact hr hx
  · simp [hxc] at hx; exact hxc hx.symm

end Rpft.Campaign
