/-
Helper lemmas for C04 (graph level): ORDER.  For a fixed source row `s` and a test `Q` on edges, the
sub-list of the sheet graph selected by `src = s ∧ Q` grows only AT THE FRONT during the DFS, by the
task's own edges in exit order (`run_filter`) — provided that whenever an edge selected by the filter
is prepended to the first row of a completed node, no selected edge is carried by an earlier row
(`hD`).  Instances: `Q = (dst = t)` (always true: ExportGraphFinal) and `Q = true` for sheets
without joins.
-/
import Rpft.Lemmas.ExportGraphPerm
set_option linter.unusedSimpArgs false
set_option linter.unusedVariables false
set_option linter.unusedSectionVars false
namespace Rpft.Export
open Function

variable {U : Type} [DecidableEq U]

/-- the selected sub-list -/
def sel (s : TempId U) (Q : GEdge U → Bool) (l : List (GEdge U)) : List (GEdge U) :=
  l.filter (fun e => decide (e.src = some s) && Q e)

@[simp] theorem sel_append (s : TempId U) (Q : GEdge U → Bool) (a b : List (GEdge U)) :
    sel s Q (a ++ b) = sel s Q a ++ sel s Q b := by simp [sel]

theorem sel_cons (s : TempId U) (Q : GEdge U → Bool) (x : GEdge U) (l : List (GEdge U)) :
    sel s Q (x :: l) = sel s Q [x] ++ sel s Q l := by
  rw [← List.singleton_append, sel_append]

@[simp] theorem sel_nil (s : TempId U) (Q : GEdge U → Bool) : sel s Q [] = [] := rfl

theorem sel_eq_nil_of_src {s : TempId U} {Q : GEdge U → Bool} {l : List (GEdge U)}
    (h : ∀ e ∈ l, e.src ≠ some s) : sel s Q l = [] := by
  simp only [sel, List.filter_eq_nil_iff]
  intro e he
  simp [h e he]

theorem mem_chainFrom {n : NodeX U} {e : GEdge U} : ∀ {i k : Nat}, e ∈ chainFrom n i k →
    ∃ j, i ≤ j ∧ j < i + k ∧ e = ⟨some (rowId n j), blankLabel, rowId n (j + 1)⟩
  | i, 0, h => by cases h
  | i, k + 1, h => by
    simp only [chainFrom, List.mem_cons] at h
    rcases h with h | h
    · exact ⟨i, Nat.le_refl _, by omega, h⟩
    · obtain ⟨j, h1, h2, h3⟩ := mem_chainFrom h
      exact ⟨j, by omega, by omega, h3⟩

theorem mem_chain {n : NodeX U} {e : GEdge U} (h : e ∈ chain n) :
    ∃ j, j + 1 < n.rows.length ∧ e = ⟨some (rowId n j), blankLabel, rowId n (j + 1)⟩ := by
  obtain ⟨j, _, h2, h3⟩ := mem_chainFrom h
  exact ⟨j, by omega, h3⟩

theorem mem_loopEdges {f : FlowX U} {n : NodeX U} {es : List (Label × Option U)} {e : GEdge U}
    (h : e ∈ loopEdges f n es) :
    ∃ lab d c, (lab, some d) ∈ es ∧ findNode f d = some c ∧ e = ⟨some (lastId n), lab, firstId c⟩ := by
  simp only [loopEdges, List.mem_filterMap] at h
  obtain ⟨⟨lab, d⟩, hm, he⟩ := h
  cases d with
  | none => simp [exitEdge] at he
  | some d =>
    simp only [exitEdge] at he
    cases hf : findNode f d with
    | none => simp [hf] at he
    | some c =>
      simp only [hf, Option.map_some, Option.some.injEq] at he
      exact ⟨lab, d, c, hm, hf, he.symm⟩

/-- every edge a node contributes leaves one of ITS rows -/
theorem src_nodeOut {f : FlowX U} {m : NodeX U} {e : GEdge U} (h : e ∈ nodeOut f m) : ∃ j, e.src = some (rowId m j) := by
  simp only [nodeOut, List.mem_append] at h
  rcases h with h | h
  · obtain ⟨j, _, he⟩ := mem_chain h
    exact ⟨j, by rw [he]⟩
  · obtain ⟨lab, d, c, _, _, he⟩ := mem_loopEdges h
    exact ⟨_, by rw [he]; rfl⟩

theorem sel_nodeOut_nil {f : FlowX U} {n : NodeX U} {j : Nat} {Q : GEdge U → Bool} {newN : List (NodeX U)}
    (h : ∀ m ∈ newN, m.uuid ≠ n.uuid) : sel (rowId n j) Q (newN.flatMap (nodeOut f)) = [] := by
  apply sel_eq_nil_of_src
  intro e he
  obtain ⟨m, hm, hem⟩ := List.mem_flatMap.1 he
  obtain ⟨i, hi⟩ := src_nodeOut hem
  rw [hi]
  intro heq
  exact h m hm (rowId_eq_uuid (Option.some.inj heq))

/-- an edge leaving the last row of `n` commutes with the contributions of other nodes -/
theorem sel_comm {f : FlowX U} (s : TempId U) (Q : GEdge U → Bool) {n : NodeX U} {x : GEdge U} {newN : List (NodeX U)}
    (hx : x.src = some (lastId n)) (h : ∀ m ∈ newN, m.uuid ≠ n.uuid) :
    sel s Q [x] ++ sel s Q (newN.flatMap (nodeOut f)) = sel s Q (newN.flatMap (nodeOut f)) ++ sel s Q [x] := by
  by_cases hs : s = lastId n
  · subst hs
    have : sel (lastId n) Q (newN.flatMap (nodeOut f)) = [] := sel_nodeOut_nil (j := n.rows.length - 1) h
    rw [this]; simp
  · have : sel s Q [x] = [] := by
      apply sel_eq_nil_of_src
      intro e he
      simp only [List.mem_singleton] at he
      subst he
      rw [hx]
      exact fun heq => hs (Option.some.inj heq).symm
    rw [this]; simp

/-- what the filter needs of the "edge to a completed node" branch -/
def DoneOk (f : FlowX U) (D : List (Item U) → NodeX U → NodeX U → Label → Prop) (s : TempId U) (Q : GEdge U → Bool) : Prop :=
  ∀ vis0 items0 n c lab A es B, D items0 n c lab → Inv f vis0 items0 → items0 = A ++ Item.block c es :: B →
    c.uuid ∉ blockUuids A → s = lastId n → Q ⟨some (lastId n), lab, firstId c⟩ = true → sel s Q (skelEdges A) = []

theorem run_filter (f : FlowX U) (D : List (Item U) → NodeX U → NodeX U → Label → Prop) (s : TempId U) (Q : GEdge U → Bool)
    (hD : DoneOk f D s Q)
    {task : Task U} {vis : List U} {items : List (Item U)} {vis' : List U} {items' : List (Item U)}
    (h : Run f D task vis items vis' items') :
    Inv f vis items → TaskOk f vis task → ∀ newN, blockNodes items' = newN ++ blockNodes items →
      sel s Q (skelEdges items') =
        sel s Q (taskEdges f task) ++ (sel s Q (newN.flatMap (nodeOut f)) ++ sel s Q (skelEdges items)) := by
  induction h with
  | nil =>
    intro hi _ newN hn
    have : newN = [] := by simpa using hn
    subst this
    simp [taskEdges, loopEdges]
  | @skip n lab es vis items vis' items' _ ih =>
    intro hi ht newN hn
    have := ih hi ht newN hn
    simpa [taskEdges, loopEdges_snoc, exitEdge_none] using this
  | @done n lab d es c vis items vis' items' hfn hc hDd r ih =>
    intro hi ht newN hn
    have hcc := findNode_canon hfn
    obtain ⟨_, new2, hd2⟩ := run_inv f D r (hi.prepend _ _) ht
    have hN : newN = new2 := by
      apply List.append_cancel_right (bs := blockNodes items)
      rw [← hn, hd2.nodes, blockNodes_map_prepend]
    subst hN
    have hne : ∀ m ∈ newN, m.uuid ≠ n.uuid := fun m hm e => hd2.fresh m hm (e ▸ ht.2)
    have p := ih (hi.prepend _ _) ht newN (by rw [hn, blockNodes_map_prepend])
    obtain ⟨A, es0, B, hAB, hA, hB⟩ := split_block hi hcc hc
    have e1 : sel s Q (skelEdges (items.map (prependItem c.uuid ⟨some (lastId n), lab⟩)))
        = sel s Q [inEdge c ⟨some (lastId n), lab⟩] ++ sel s Q (skelEdges items) := by
      rw [hAB, map_prepend_split c _ A B es0 hA hB, skelEdges_split, skelEdges_split]
      simp only [List.map_cons, List.cons_append]
      rw [sel_append, sel_cons, sel_append s Q (skelEdges A)]
      by_cases hp : sel s Q [inEdge c ⟨some (lastId n), lab⟩] = []
      · rw [hp]; simp
      · have hpass : s = lastId n ∧ Q ⟨some (lastId n), lab, firstId c⟩ = true := by
          simp only [sel, inEdge, List.filter_cons, List.filter_nil] at hp
          split at hp
          · rename_i hcond
            simp only [Bool.and_eq_true, decide_eq_true_eq, Option.some.injEq] at hcond
            exact ⟨hcond.1.symm, hcond.2⟩
          · exact absurd rfl hp
        have hA0 := hD vis items n c lab A es0 B hDd hi hAB hA hpass.1 hpass.2
        rw [hA0]
        simp
    rw [p, e1]
    simp only [taskEdges, List.reverse_cons, loopEdges_snoc, exitEdge_some n lab hfn, Option.toList, sel_append,
      List.append_assoc]
    congr 1
    rw [← List.append_assoc, ← List.append_assoc]
    congr 1
    exact (sel_comm s Q (n := n) rfl hne).symm
  | @back n lab d es c k vis items vis' items' hfn hc hv r ih =>
    intro hi ht newN hn
    have hcc := findNode_canon hfn
    obtain ⟨_, new2, hd2⟩ := run_inv f D r (hi.pushGoto k _ hcc hc hv) ht
    have hN : newN = new2 := by
      apply List.append_cancel_right (bs := blockNodes items)
      rw [← hn, hd2.nodes, blockNodes_cons_goto]
    subst hN
    have hne : ∀ m ∈ newN, m.uuid ≠ n.uuid := fun m hm e => hd2.fresh m hm (e ▸ ht.2)
    have p := ih (hi.pushGoto k _ hcc hc hv) ht newN (by rw [hn, blockNodes_cons_goto])
    rw [p]
    simp only [taskEdges, List.reverse_cons, loopEdges_snoc, exitEdge_some n lab hfn, Option.toList, sel_append,
      skelEdges_cons, itemEdges, List.append_assoc]
    congr 1
    rw [← List.append_assoc, ← List.append_assoc]
    congr 1
    exact (sel_comm s Q (n := n) rfl hne).symm
  | @new n lab d es c vis items vis1 items1 vis' items' hfn hc hv r1 r2 ih1 ih2 =>
    intro hi ht newN hn
    have hcc := findNode_canon hfn
    obtain ⟨hi1, new1, hd1⟩ := run_inv f D r1 hi ⟨hcc, hv⟩
    obtain ⟨hi', new2, hd2⟩ := run_inv f D r2 hi1 ⟨ht.1, hd1.mono _ ht.2⟩
    have hN : newN = new2 ++ new1 := by
      apply List.append_cancel_right (bs := blockNodes items)
      rw [← hn, hd2.nodes, hd1.nodes, List.append_assoc]
    subst hN
    have hne : ∀ m ∈ new2, m.uuid ≠ n.uuid := fun m hm e => hd2.fresh m hm (e ▸ hd1.mono _ ht.2)
    have p1 := ih1 hi ⟨hcc, hv⟩ new1 hd1.nodes
    have p2 := ih2 hi1 ⟨ht.1, hd1.mono _ ht.2⟩ new2 hd2.nodes
    rw [p2, p1]
    simp only [taskEdges, List.reverse_cons, loopEdges_snoc, exitEdge_some n lab hfn, Option.toList, sel_append,
      List.flatMap_append, List.append_assoc]
    congr 1
    rw [← List.append_assoc, ← List.append_assoc (sel s Q [inEdge c ⟨some (lastId n), lab⟩])]
    congr 1
    exact (sel_comm s Q (n := n) rfl hne).symm
  | @node n pe vis items vis' items' hr r ih =>
    intro hi ht newN hn
    obtain ⟨hi', new2, hd2⟩ := run_inv f D r (hi.visit _) ⟨ht.1, List.mem_cons_self ..⟩
    have hN : newN = n :: new2 := by
      apply List.append_cancel_right (bs := blockNodes items)
      rw [← hn, blockNodes_cons_block, hd2.nodes]; rfl
    subst hN
    have p := ih (hi.visit _) ⟨ht.1, List.mem_cons_self ..⟩ new2 hd2.nodes
    simp only [taskEdges, List.reverse_reverse] at p
    simp only [taskEdges, skelEdges_cons, itemEdges, List.flatMap_cons, nodeOut, exitsEdges, List.map_cons, List.map_nil,
      sel_append, p, List.append_assoc]

end Rpft.Export
