/-
Helper definitions and lemmas for C04 (path level, ROW graph): the flow with every node expanded into the
chain of its row models (`RowStepF`) against the row graph of the sheet (`EdgeStep`), which is what the
compiler reads when the sheet has no `_nodeId` column (`--strip_uuids`: every row is its own node).
Generic lifting of a one-step correspondence to label paths (`lpath_of_step_iff`).
-/
import Rpft.Lemmas.ExportPaths
set_option linter.unusedSimpArgs false
set_option linter.unusedVariables false
set_option linter.unusedSectionVars false
namespace Rpft.Export

/-- a functional bisimulation lifts to label paths: if on the good states of `S` (closed under steps) the
steps of `T` from `φ s` are exactly the images of the steps of `S` from `s`, then the paths of `T` from
`φ s` are exactly the images of the paths of `S` from `s` -/
theorem lpath_of_step_iff {S T : Type} (stepS : S → Label → S → Prop) (stepT : T → Label → T → Prop) (φ : S → T)
    (Good : S → Prop) (hstep : ∀ s, Good s → ∀ ℓ t, stepT (φ s) ℓ t ↔ ∃ s', stepS s ℓ s' ∧ t = φ s')
    (hgood : ∀ s ℓ s', Good s → stepS s ℓ s' → Good s') :
    ∀ (ℓs : List Label) (s : S) (ts : List T), Good s →
      (LPath stepT (φ s) ℓs ts ↔ ∃ ss, LPath stepS s ℓs ss ∧ ts = ss.map φ) := by
  intro ℓs
  induction ℓs with
  | nil =>
    intro s ts _
    cases ts with
    | nil => exact ⟨fun _ => ⟨[], trivial, rfl⟩, fun _ => trivial⟩
    | cons t ts =>
      constructor
      · intro hp; exact hp.elim
      · rintro ⟨ss, hp, he⟩
        cases ss with
        | nil => cases he
        | cons _ _ => exact hp.elim
  | cons ℓ ℓs ih =>
    intro s ts hs
    cases ts with
    | nil =>
      constructor
      · intro hp; exact hp.elim
      · rintro ⟨ss, hp, he⟩
        cases ss with
        | nil => exact hp.elim
        | cons _ _ => cases he
    | cons t ts =>
      constructor
      · rintro ⟨h1, h2⟩
        obtain ⟨s', hs', rfl⟩ := (hstep s hs ℓ t).1 h1
        obtain ⟨ss, hss, rfl⟩ := (ih s' ts (hgood s ℓ s' hs hs')).1 h2
        exact ⟨s' :: ss, ⟨hs', hss⟩, rfl⟩
      · rintro ⟨ss, hp, he⟩
        cases ss with
        | nil => exact hp.elim
        | cons s' ss =>
          simp only [List.map_cons, List.cons.injEq] at he
          obtain ⟨rfl, rfl⟩ := he
          exact ⟨(hstep s hs ℓ _).2 ⟨s', hp.1, rfl⟩, (ih s' _ (hgood s ℓ s' hs hp.1)).2 ⟨ss, hp.2, rfl⟩⟩

/-- the row graph as a transition system: an edge labelled `ℓ` from row `a` to row `b` -/
def EdgeStep {I : Type} (es : List (SEdge I)) (a : I) (ℓ : Label) (b : I) : Prop := (⟨some a, ℓ, b⟩ : SEdge I) ∈ es

instance {I : Type} [DecidableEq I] (es : List (SEdge I)) (a : I) (ℓ : Label) (b : I) : Decidable (EdgeStep es a ℓ b) := by
  unfold EdgeStep; infer_instance

variable {U : Type} [DecidableEq U]

/-- **the flow with every node expanded into the chain of its row models** (one action per state): a state
is (node, index of a row model); inside a node the only step is the blank one to the next row model; from
the last row model the steps are the steps of the node, into the FIRST row model of the target -/
def RowStepF (f : FlowX U) (p : NodeX U × Nat) (ℓ : Label) (q : NodeX U × Nat) : Prop :=
  (q.1 = p.1 ∧ q.2 = p.2 + 1 ∧ q.2 < p.1.rows.length ∧ ℓ = blankLabel) ∨
  (p.2 + 1 = p.1.rows.length ∧ q.2 = 0 ∧ FlowStep f p.1 ℓ q.1)

/-- a state of the expanded flow: a reachable node and one of its row models -/
def RowState (f : FlowX U) (p : NodeX U × Nat) : Prop := Reach f p.1 ∧ p.2 < p.1.rows.length

/-- the row exported for a state -/
def rowOf (p : NodeX U × Nat) : TempId U := rowId p.1 p.2

/-- what a state performs: the content of its row model -/
def rowPayload (p : NodeX U × Nat) : List Payload := (p.1.rows[p.2]?.map (·.1)).toList

theorem rowOf_inj {f : FlowX U} {p q : NodeX U × Nat} (hp : RowState f p) (hq : RowState f q) (h : rowOf p = rowOf q) : p = q := by
  obtain ⟨n, j⟩ := p
  obtain ⟨m, k⟩ := q
  have hu := rowId_eq_uuid h
  have := Canon.eq hp.1.canon hq.1.canon hu
  simp only at this
  subst this
  have := rowId_inj n h
  subst this
  rfl

namespace Skeleton
variable {f : FlowX U} {rows : List (RowT U)} {n0 : NodeX U} {items : List (Item U)} {vis : List U}

/-- **the edges leaving one row**: from row `j` of a completed node `n` the sheet has exactly — the blank
edge to row `j+1` if there is one; otherwise (last row) one edge per connected exit, into the first row of
the target node -/
theorem row_edge_iff (sk : Skeleton f rows n0 items vis) {n : NodeX U} (hn : n ∈ blockNodes items) {j : Nat}
    (hj : j < n.rows.length) (ℓ : Label) (b : TempId U) :
    (⟨some (rowId n j), ℓ, b⟩ : GEdge U) ∈ edgesOfT rows ↔
      (j + 1 < n.rows.length ∧ ℓ = blankLabel ∧ b = rowId n (j + 1)) ∨
      (j + 1 = n.rows.length ∧ ∃ m, FlowStep f n ℓ m ∧ b = firstId m) := by
  rw [sk.perm.mem_iff]
  constructor
  · intro he
    rcases List.mem_cons.1 he with he | he
    · simp [startEdge] at he
    · obtain ⟨m, hm, hem⟩ := List.mem_flatMap.1 he
      simp only [nodeOut, List.mem_append] at hem
      rcases hem with hem | hem
      · obtain ⟨j', hj', heq⟩ := mem_chain hem
        simp only [SEdge.mk.injEq, Option.some.injEq] at heq
        obtain ⟨h1, h2, h3⟩ := heq
        have hmn := eq_of_uuid_eq_of_nodup sk.nodup hn hm (rowId_eq_uuid h1)
        subst hmn
        have := rowId_inj n h1
        subst this
        exact Or.inl ⟨hj', h2, h3⟩
      · obtain ⟨lab, d, c, hd, hc, heq⟩ := mem_loopEdges hem
        simp only [SEdge.mk.injEq, Option.some.injEq] at heq
        obtain ⟨h1, h2, h3⟩ := heq
        have hmn := eq_of_uuid_eq_of_nodup sk.nodup hn hm (rowId_eq_uuid h1)
        subst hmn
        have := rowId_inj n h1
        subst h2
        exact Or.inr ⟨by omega, c, flowStep_iff.2 ⟨d, hd, hc⟩, h3⟩
  · rintro (⟨h1, rfl, rfl⟩ | ⟨h1, m, hm, rfl⟩)
    · apply List.mem_cons_of_mem
      apply List.mem_flatMap.2
      exact ⟨n, hn, by simp only [nodeOut, List.mem_append]; exact Or.inl (mem_chain_of_lt h1)⟩
    · apply List.mem_cons_of_mem
      apply List.mem_flatMap.2
      refine ⟨n, hn, ?_⟩
      simp only [nodeOut, List.mem_append]
      right
      rw [exitsEdges_eq_flowOut]
      apply List.mem_map.2
      refine ⟨(ℓ, m), hm, ?_⟩
      have : lastId n = rowId n j := by simp only [lastId]; congr 1; omega
      rw [this]

/-- one step of the row graph = one step of the expanded flow -/
theorem row_step (sk : Skeleton f rows n0 items vis) (p : NodeX U × Nat) (hp : RowState f p) (ℓ : Label) (b : TempId U) :
    EdgeStep (edgesOfT rows) (rowOf p) ℓ b ↔ ∃ q, RowStepF f p ℓ q ∧ b = rowOf q := by
  obtain ⟨n, j⟩ := p
  have hn := (sk.reach n).2 hp.1
  unfold EdgeStep rowOf
  rw [sk.row_edge_iff hn hp.2]
  constructor
  · rintro (⟨h1, h2, h3⟩ | ⟨h1, m, hm, h3⟩)
    · exact ⟨(n, j + 1), Or.inl ⟨rfl, rfl, h1, h2⟩, h3⟩
    · exact ⟨(m, 0), Or.inr ⟨h1, rfl, hm⟩, h3⟩
  · rintro ⟨⟨m, k⟩, (⟨h1, h2, h3, h4⟩ | ⟨h1, h2, h3⟩), hb⟩
    · simp only at h1 h2 h3
      subst h1 h2
      exact Or.inl ⟨h3, h4, hb⟩
    · simp only at h1 h2 h3
      subst h2
      exact Or.inr ⟨h1, m, h3, hb⟩

theorem rowState_step (sk : Skeleton f rows n0 items vis) (p : NodeX U × Nat) (ℓ : Label) (q : NodeX U × Nat)
    (hp : RowState f p) (hs : RowStepF f p ℓ q) : RowState f q := by
  rcases hs with ⟨h1, h2, h3, _⟩ | ⟨_, h2, h3⟩
  · exact ⟨h1 ▸ hp.1, h1 ▸ h3⟩
  · have hr := hp.1.flowStep h3
    exact ⟨hr, h2 ▸ sk.rows_pos ((sk.reach q.1).2 hr)⟩

theorem rowOf_mem (sk : Skeleton f rows n0 items vis) (p : NodeX U × Nat) (hp : RowState f p) : rowOf p ∈ rows.map (·.id) :=
  sk.rowId_mem ((sk.reach p.1).2 hp.1) hp.2

/-- the node row of a state, with its content, is a row of the sheet -/
theorem row_payload_mem (sk : Skeleton f rows n0 items vis) (p : NodeX U × Nat) (hp : RowState f p) :
    ∃ x, x ∈ nodeRowsT rows ∧ x.1 = rowOf p ∧ rowPayload p = [x.2.2.2] := by
  obtain ⟨n, j⟩ := p
  have hj : j < n.rows.length := hp.2
  refine ⟨(rowId n j, some n.uuid, (n.rows[j]).2, (n.rows[j]).1), ?_, rfl, ?_⟩
  · rw [sk.nodeRows]
    apply List.mem_flatMap.2
    refine ⟨n, (sk.reach n).2 hp.1, ?_⟩
    simp only [nodeSig, List.mem_map]
    exact ⟨(n.rows[j], j), List.mk_mem_zipIdx_iff_getElem?.2 (by simp [hj]), rfl⟩
  · simp [rowPayload, hj]

end Skeleton

end Rpft.Export
