/-
The two nodes of a row with fixed outcomes (`start_new_flow`, `call_webhook`, `transfer_airtime`)
— the reference's and the compiled one — have the same index-resolved abstraction.
-/
import Rpft.Lemmas.CoreSwitch
import Rpft.Lemmas.CoreFixed
set_option linter.unusedSimpArgs false
set_option linter.unusedVariables false
namespace Rpft.CoreSheet
open Rpft Rpft.Compile Rpft.RefFlow Rpft.Flow

/-- the tests of a fixed-outcome row: type and observed arguments -/
def fixTests (K : Kind) : List (Str × List Str) :=
  (fixCases K [] []).map (fun t => (t.1, if t.1 = "has_group".toList then t.2.1.drop 1 else t.2.1))

/-- number of choices that select the second (default) category -/
def fixRest (K : Kind) : Nat := if K = .enterFlow then 2 else 1

/-- the shape both abstractions have -/
def fixAbs (rnf : Bool) (acts : List Str) (op : Str) (K : Kind) (sd fd : Option (Option Nat)) : ANode :=
  { acts := acts,
    ask := some { kind := "switch".toList, operand := op, tests := fixTests K, caseCats := [], otherCats := [],
                  wait := none, resultName := if rnf then none else none },
    dests := sd :: List.replicate (fixRest K) fd }

theorem isSucc_enter_fn : isSucc .enterFlow = fun (e : OutEdge) =>
    (decide (RefFlow.lower e.cond.value = "complete".toList) || decide (RefFlow.lower e.cond.value = "completed".toList)) := rfl
theorem isFail_enter_fn : isFail .enterFlow = fun (e : OutEdge) => decide (RefFlow.lower e.cond.value = "expired".toList) := rfl
theorem isSucc_web_fn : isSucc .webhook = fun (e : OutEdge) => decide (RefFlow.lower e.cond.value = "success".toList) := rfl
theorem isFail_web_fn : isFail .webhook = fun (e : OutEdge) =>
    (e.cond.blank || decide (RefFlow.lower e.cond.value = "failure".toList)) := rfl
theorem isSucc_air_fn : isSucc .airtime = fun (e : OutEdge) => decide (RefFlow.lower e.cond.value = "success".toList) := rfl
theorem isFail_air_fn : isFail .airtime = fun (e : OutEdge) =>
    (e.cond.blank || decide (RefFlow.lower e.cond.value = "failure".toList)) := rfl

theorem acts_obs (k : Nat) (a : Option Str) :
    (match a with
      | some a => [({ uuid := subId k "a" 0, obs := a } : Action)]
      | none => []).map (fun (x : Action) => x.obs) = a.toList := by
  cases a <;> rfl

theorem subId_c_ne (k : Nat) : subId k "c" 0 ≠ subId k "c" 1 := fun h => absurd (subId_inj k "c" 0 1 h) (by decide)
theorem subId_e_ne (k : Nat) : subId k "e" 0 ≠ subId k "e" 1 := fun h => absurd (subId_inj k "e" 0 1 h) (by decide)

/-- the actions of a reference node -/
def refActs (k : Nat) (a : Option Str) : List Action :=
  match a with
  | some a => [{ uuid := subId k "a" 0, obs := a }]
  | none => []

theorem mkNode_enter (k : Nat) (r : RRow) (es : List OutEdge) (h : r.kind = .enterFlow) :
    mkNode k r es =
      { uuid := nodeId k, actions := refActs k r.act,
        router := some (.switch r.operand
          [{ uuid := subId k "k" 0, type := "has_only_text".toList, args := ["completed".toList], catUuid := subId k "c" 0 },
           { uuid := subId k "k" 1, type := "has_only_text".toList, args := ["expired".toList], catUuid := subId k "c" 1 }]
          [{ uuid := subId k "c" 0, name := [], exitUuid := subId k "e" 0 },
           { uuid := subId k "c" 1, name := [], exitUuid := subId k "e" 1 }] (subId k "c" 1) none none),
        exits := [{ uuid := subId k "e" 0, dest := lastTgt es (isSucc .enterFlow) },
                  { uuid := subId k "e" 1, dest := lastTgt es (isFail .enterFlow) }] } := by
  unfold mkNode
  simp only [h]
  rfl

theorem mkNode_hook (k : Nat) (r : RRow) (es : List OutEdge) (h : r.kind = .webhook ∨ r.kind = .airtime) :
    mkNode k r es =
      { uuid := nodeId k, actions := refActs k r.act,
        router := some (.switch r.operand
          [{ uuid := subId k "k" 0, type := if r.kind = .webhook then "has_only_text".toList else "has_category".toList,
             args := ["Success".toList], catUuid := subId k "c" 0 }]
          [{ uuid := subId k "c" 0, name := [], exitUuid := subId k "e" 0 },
           { uuid := subId k "c" 1, name := [], exitUuid := subId k "e" 1 }] (subId k "c" 1) none none),
        exits := [{ uuid := subId k "e" 0, dest := lastTgt es (isSucc r.kind) },
                  { uuid := subId k "e" 1, dest := lastTgt es (isFail r.kind) }] } := by
  rcases h with h | h
  · unfold mkNode
    simp only [h]
    rfl
  · unfold mkNode
    simp only [h]
    rfl

/-- the reference node of a fixed-outcome row -/
theorem absNode_fix_ref (rnf : Bool) (f : Flow) (k : Nat) (r : RRow) (es : List OutEdge) (hk : isFixedKind r.kind) :
    absNode ⟨false, rnf⟩ f (mkNode k r es) =
      fixAbs rnf r.act.toList r.operand r.kind (destIdx f (lastTgt es (isSucc r.kind)))
        (destIdx f (lastTgt es (isFail r.kind))) := by
  rcases hk with h | h | h
  · rw [mkNode_enter k r es h]
    refine (absNode_two _ f _ _ _ _ _ _ _ _ 1 rfl rfl rfl rfl (subId_c_ne k) (subId_e_ne k) rfl).trans ?_
    rw [h]
    unfold fixAbs
    congr 1
    exact acts_obs k r.act
  · rw [mkNode_hook k r es (.inl h)]
    refine (absNode_two _ f _ _ _ _ _ _ _ _ 0 rfl rfl rfl rfl (subId_c_ne k) (subId_e_ne k) rfl).trans ?_
    rw [h]
    unfold fixAbs
    congr 1
    exact acts_obs k r.act
  · rw [mkNode_hook k r es (.inr h)]
    refine (absNode_two _ f _ _ _ _ _ _ _ _ 0 rfl rfl rfl rfl (subId_c_ne k) (subId_e_ne k) rfl).trans ?_
    rw [h]
    unfold fixAbs
    congr 1
    exact acts_obs k r.act

/-! ### the compiled node -/

theorem fixCases_cat (K : Kind) (hk : isFixedKind K) (su du : Uid) :
    (fixCases K su du).map (·.2.2) = su :: List.replicate (fixRest K - 1) du := by
  rcases hk with h | h | h <;> subst h <;> rfl

theorem fixCases_tests (K : Kind) (hk : isFixedKind K) (su du : Uid) :
    (fixCases K su du).map (fun t => (t.1, if t.1 = "has_group".toList then t.2.1.drop 1 else t.2.1)) = fixTests K := by
  rcases hk with h | h | h <;> subst h <;> rfl

theorem fixRest_pos (K : Kind) : fixRest K - 1 + 1 = fixRest K := by
  unfold fixRest; split <;> rfl

/-- the abstraction of a compiled fixed-outcome node -/
theorem absNode_fix_cmp (rnf : Bool) (F : Flow) (M : Maps) (ns : Array NodeM) (n : NodeM) (c : CRow) (es : List OutEdge)
    (r : SwitchR) (sc : Cat) (hk : isFixedKind (kindOf c.row.type)) (hp : FixSim M ns n c es r sc)
    (hfn0 : n.fids.Nodup) :
    absNode ⟨false, rnf⟩ F (renderNode n) =
      fixAbs rnf [c.row.ownAction.getD []] (operandOf c.row) (kindOf c.row.type)
        (destIdx F (renderDest sc.dest)) (destIdx F (renderDest r.dflt.dest)) := by
  have hrids : r.ids.Nodup := by
    unfold NodeM.fids NodeM.innerIds NodeM.tailIds at hfn0
    rw [hp.router] at hfn0
    exact (List.nodup_append.mp (List.nodup_append.mp hfn0).2.1).2.1
  have hex : (r.allCats.map (·.exitUid)).Nodup := by
    unfold SwitchR.ids at hrids; exact (List.nodup_append.mp hrids).1
  have hall : r.allCats = [sc, r.dflt] := by
    unfold SwitchR.allCats; rw [hp.cats, hp.noResp]; rfl
  have hne' : sc.exitUid ≠ r.dflt.exitUid := by
    rw [hall] at hex
    simp only [List.map_cons, List.map_nil, List.nodup_cons, List.mem_singleton] at hex
    exact hex.1
  have hrouter : (renderNode n).router = some (.switch r.operand (r.cases.map renderCase)
      [renderCat sc, renderCat r.dflt] (renderCat r.dflt).uuid none r.resultName) := by
    simp only [renderNode, hp.router, Option.map_some, renderRouter, hall, hp.wait, List.map_cons, List.map_nil]
    rfl
  have hexits : (renderNode n).exits = [renderExit sc, renderExit r.dflt] := by
    simp only [renderNode, hp.router, hall, List.map_cons, List.map_nil]
  have hcc : (r.cases.map renderCase).map (·.catUuid) =
      (renderCat sc).uuid :: List.replicate (fixRest (kindOf c.row.type) - 1) (renderCat r.dflt).uuid := by
    have := congrArg (List.map (·.2.2)) hp.cases
    rw [List.map_map, fixCases_cat _ hk] at this
    rw [List.map_map]
    exact this
  rw [absNode_two _ F _ _ _ _ _ _ _ _ _ hrouter hexits rfl rfl hp.uidne hne' hcc, fixRest_pos]
  unfold fixAbs
  congr 1
  · simp only [renderNode, List.map_map]
    rw [← hp.acts]
    exact List.map_congr_left (fun _ _ => rfl)
  · rw [routerObs_switch, hp.rname, hp.operand]
    congr 2
    have e1 : (r.cases.map renderCase).map (fun k => (k.type, testArgs k)) =
        (r.cases.map (fun k => (k.type, k.args.map (·.getD []), k.catUid))).map
          (fun t => (t.1, if t.1 = "has_group".toList then t.2.1.drop 1 else t.2.1)) := by
      rw [List.map_map, List.map_map]
      exact List.map_congr_left (fun k _ => rfl)
    rw [e1, hp.cases, fixCases_tests _ hk]

/-! ### `split_random` rows -/

/-- the bucket step of `mkNode` -/
def refStep (acc : List (Str × Option Id) × Nat) (e : OutEdge) : List (Str × Option Id) × Nat :=
  let nm := if e.cond.name.isEmpty then e.cond.value else e.cond.name
  if nm.isEmpty then (acc.1 ++ [("#".toList ++ RefFlow.natStr acc.2, tgtDest e.tgt)], acc.2 + 1)
  else if acc.1.any (·.1 = nm) then
    (acc.1.map (fun (p : Str × Option Id) => if p.1 = nm then (p.1, tgtDest e.tgt) else p), acc.2)
  else (acc.1 ++ [(nm, tgtDest e.tgt)], acc.2)

def bdest (p : Str × Target) : Str × Option Id := (p.1, tgtDest p.2)

theorem refStep_bstep (acc : List (Str × Target) × Nat) (e : OutEdge) :
    refStep (acc.1.map bdest, acc.2) e = ((bstep acc e).1.map bdest, (bstep acc e).2) := by
  unfold refStep bstep
  have hnm : (if e.cond.name.isEmpty then e.cond.value else e.cond.name) = bucketName e.cond := rfl
  simp only [hnm]
  have hany : (acc.1.map bdest).any (fun p => decide (p.1 = bucketName e.cond)) =
      acc.1.any (fun p => decide (p.1 = bucketName e.cond)) := by
    rw [List.any_map]; rfl
  by_cases h1 : (bucketName e.cond).isEmpty = true
  · simp only [h1, if_true, List.map_append, List.map_cons, List.map_nil]
    rfl
  · simp only [h1, Bool.false_eq_true, if_false, hany]
    by_cases h2 : acc.1.any (fun p => decide (p.1 = bucketName e.cond)) = true
    · simp only [h2, if_true, List.map_map]
      congr 1
      apply List.map_congr_left
      intro p _
      simp only [Function.comp, bdest]
      by_cases h3 : p.1 = bucketName e.cond
      · simp only [h3, if_true]
      · simp only [h3, if_false]
    · simp only [h2, Bool.false_eq_true, if_false, List.map_append, List.map_cons, List.map_nil]
      rfl

theorem fold_refStep (es : List OutEdge) : ∀ (acc : List (Str × Target) × Nat),
    es.foldl refStep (acc.1.map bdest, acc.2) = ((es.foldl bstep acc).1.map bdest, (es.foldl bstep acc).2) := by
  induction es with
  | nil => intro acc; rfl
  | cons e es ih =>
    intro acc
    simp only [List.foldl_cons]
    rw [refStep_bstep, ih]

/-- the buckets `mkNode` computes are the buckets of the edges -/
theorem refBuckets (es : List OutEdge) : (es.foldl refStep ([], 0)).1 = (bucketsOf es).1.map bdest := by
  have := fold_refStep es ([], 0)
  simp only [List.map_nil] at this
  rw [this]
  rfl

theorem mkNode_random (k : Nat) (r : RRow) (es : List OutEdge) (h : r.kind = .splitRandom) :
    mkNode k r es =
      { uuid := nodeId k, actions := refActs k r.act,
        router := some (.random (((es.foldl refStep ([], 0)).1).zipIdx.map (fun (p : (Str × Option Id) × Nat) =>
          ({ uuid := subId k "c" p.2, name := [], exitUuid := subId k "e" p.2 } : Category)))
          (if r.saveName.isEmpty then none else some r.saveName)),
        exits := ((es.foldl refStep ([], 0)).1).zipIdx.map (fun (p : (Str × Option Id) × Nat) =>
          ({ uuid := subId k "e" p.2, dest := p.1.2 } : Exit)) } := by
  unfold mkNode
  simp only [h]
  rfl

/-- the shape both abstractions of a `split_random` row have -/
def rndAbs (rnf : Bool) (saveName : Str) (dests : List (Option (Option Nat))) : ANode :=
  { acts := [],
    ask := some { kind := "random".toList, operand := [], tests := [], caseCats := [], otherCats := [],
                  wait := none, resultName := if rnf then (if saveName.isEmpty then none else some saveName) else none },
    dests := dests }

/-- the reference node of a `split_random` row -/
theorem absNode_rnd_ref (rnf : Bool) (f : Flow) (k : Nat) (r : RRow) (es : List OutEdge) (h : r.kind = .splitRandom)
    (hact : r.act = none) :
    absNode ⟨false, rnf⟩ f (mkNode k r es) =
      rndAbs rnf r.saveName ((bucketsOf es).1.map (fun b => destIdx f (tgtDest b.2))) := by
  rw [mkNode_random k r es h]
  generalize hb : (es.foldl refStep ([], 0)).1 = bks
  have h1 : ∀ (tag : String), bks.zipIdx.map (fun (p : (Str × Option Id) × Nat) => subId k tag p.2)
      = (List.range bks.length).map (subId k tag) := fun tag => zipIdx_map_idx bks _
  rw [absNode_random _ f _ _ _ rfl (by rw [List.map_map]; exact (h1 "c") ▸ range_subId_nodup _ _ _)
    (by simp only [List.map_map]; exact (h1 "e") ▸ range_subId_nodup _ _ _)
    (by simp only [List.map_map]; rfl)]
  unfold rndAbs
  congr 1
  · rw [hact]; rfl
  · simp only [List.map_map]
    rw [← hb, refBuckets]
    have := zipIdx_fst_map ((bucketsOf es).1.map bdest) (fun (p : Str × Option Id) => destIdx f p.2)
    rw [List.map_map] at this
    exact this

/-- the abstraction of a compiled `split_random` node -/
theorem absNode_rnd_cmp (rnf : Bool) (F : Flow) (n : NodeM) (r : RandomR) (saveName : Str)
    (hr : n.router = some (.rnd r)) (hacts : n.actions = []) (hrn : r.resultName = some saveName)
    (hfn0 : n.fids.Nodup) :
    absNode ⟨false, rnf⟩ F (renderNode n) =
      rndAbs rnf saveName (r.cats.map (fun c => destIdx F (renderDest c.dest))) := by
  have hrids : r.ids.Nodup := by
    unfold NodeM.fids NodeM.innerIds NodeM.tailIds at hfn0
    rw [hr] at hfn0
    exact (List.nodup_append.mp (List.nodup_append.mp hfn0).2.1).2.1
  unfold RandomR.ids at hrids
  have hex : (r.cats.map (·.exitUid)).Nodup := (List.nodup_append.mp hrids).1
  have hcu : (r.cats.map (·.uid)).Nodup := (List.nodup_append.mp hrids).2.1
  have hrouter : (renderNode n).router = some (.random (r.cats.map renderCat)
      (if saveName.isEmpty then none else some saveName)) := by
    simp only [renderNode, hr, Option.map_some, renderRouter, hrn]
  have hexits : (renderNode n).exits = r.cats.map renderExit := by simp only [renderNode, hr]
  rw [absNode_random _ F _ _ _ hrouter (by simpa [List.map_map, Function.comp_def, renderCat] using hcu)
    (by rw [hexits]; simpa [List.map_map, Function.comp_def, renderExit] using hex)
    (by rw [hexits]; simp [List.map_map, Function.comp_def, renderCat, renderExit])]
  unfold rndAbs
  congr 1
  · simp [renderNode, hacts]
  · rw [hexits, List.map_map]; rfl


/-! ### corresponding destinations -/

theorem lastTgt_eq (es : List OutEdge) (p : OutEdge → Bool) :
    lastTgt es p = (((es.filter p).getLast?).map (·.tgt)).bind tgtDest := by
  unfold lastTgt
  cases (es.filter p).getLast? <;> rfl

/-- corresponding destinations: what a compiled destination `d` and a reference target `t` with
`DestIs M ns d t` resolve to in the two flows -/
def DR (F r : Flow) (M : Maps) (ns : Array NodeM) (es : List OutEdge) (a b : Option (Option Nat)) : Prop :=
  ∃ (d : Dest) (t : Option Target), DestIs M ns d t ∧ (∀ k, t = some (Target.row k) → ∃ e ∈ es, e.tgt = Target.row k) ∧
    a = destIdx r (t.bind tgtDest) ∧ b = destIdx F (renderDest d)

/-- two abstract nodes that differ in how destinations resolve only -/
def AbsRel (R : Option (Option Nat) → Option (Option Nat) → Prop) (a b : ANode) : Prop :=
  b.acts = a.acts ∧ b.ask = a.ask ∧ List.Forall₂ R a.dests b.dests

theorem forall2_flip_map {α β γ δ} {R : α → β → Prop} {S : γ → δ → Prop} {f : β → γ} {g : α → δ} :
    ∀ {l1 : List α} {l2 : List β}, List.Forall₂ R l1 l2 → (∀ a b, b ∈ l2 → R a b → S (f b) (g a)) →
      List.Forall₂ S (l2.map f) (l1.map g) := by
  intro l1 l2 h
  induction h with
  | nil => intro _; exact .nil
  | cons hab _ ih =>
    intro himp
    exact .cons (himp _ _ (by simp) hab) (ih (fun a b hb => himp a b (by simp [hb])))

theorem forall2_replicate {α β} {R : α → β → Prop} {a : α} {b : β} (h : R a b) (m : Nat) :
    List.Forall₂ R (List.replicate m a) (List.replicate m b) := by
  induction m with
  | zero => exact .nil
  | succ m ih => exact .cons h ih

end Rpft.CoreSheet
