/-
`add_exit` of a row group (router created behind a basic node, choices), of a `no_op` group and of
a block preserve the arena simulation.
-/
import Rpft.Lemmas.CompileInsertOps
set_option linter.unusedSimpArgs false
set_option linter.unusedVariables false
namespace Rpft.Compile
open Rpft Function

variable {P : Params}

theorem rwp_ite {α β : Type} {c : Prop} [Decidable c] {a₁ b₁ : M α} {a₂ b₂ : M β} {s₁ s₂ : St}
    {Q : α → St → β → St → Prop} (ha : c → rwp a₁ a₂ s₁ s₂ Q) (hb : ¬ c → rwp b₁ b₂ s₁ s₂ Q) :
    rwp (if c then a₁ else b₁) (if c then a₂ else b₂) s₁ s₂ Q := by
  by_cases h : c
  · simp only [h, if_true]; exact ha h
  · simp only [h, if_false]; exact hb h

theorem ASim.attachRow (ok : P.Ok) {s₁ s₂ : St} (h : ASim P s₁ s₂) {g : Nat} (hd : P.DG g) {nodes : List Nat} {t : Str}
    (hg : s₁.groups[g]? = some (.row nodes t)) (rn : NodeM)
    (hdx : Below s₁.next rn.dexitUid ∨ ¬ Invented rn.dexitUid)
    (hrl : P.op = true → (∀ i ∈ nodes, ∀ n, s₁.nodes[i]? = some n → NoLoose n) → NoLoose rn) :
    ASim P { s₁ with nodes := s₁.nodes.push rn, groups := s₁.groups.setIfInBounds g (.row (nodes ++ [s₁.nodes.size]) t) }
      { s₂ with nodes := s₂.nodes.push (rnNode P.ρ rn),
                groups := s₂.groups.setIfInBounds (P.γ g) (.row (nodes.map P.ν ++ [s₂.nodes.size]) t) } := by
  have h0 : P.ν s₁.nodes.size = s₂.nodes.size := by simpa using h.nsync 0
  have a1 := h.addNode rn hdx
  have hcl := h.closed g _ hd hg
  have a2 := a1.setGrp ok hd (old := .row nodes t) (g' := .row (nodes ++ [s₁.nodes.size]) t) hg
    (by
      intro i hi
      simp only [gnodes, List.mem_append, List.mem_singleton] at hi
      rcases hi with hi | hi
      · exact hcl.1 i hi
      · exact h.ndom i (by omega))
    (by intro x hx; simp [grefs] at hx) (by intro _ x hx; simp [grefs] at hx)
    (by
      intro hhb hgb
      obtain ⟨c, cs, e⟩ := h.bne hhb
      rw [← hgb, hg] at e; cases e)
    (by
      refine ⟨?_, by intro x hx; simp [grefs] at hx⟩
      intro i hi
      simp only [gnodes, List.mem_append, List.mem_singleton] at hi
      rcases hi with hi | hi
      · have := (h.wf g _ hg).1 i hi; simp; omega
      · simp [hi])
    (by
      intro hop nodes0 t0 e0 hold
      injection e0 with e1 e2
      subst e1; subst e2
      refine ⟨_, rfl, fun i hi => ?_⟩
      simp only [List.mem_append, List.mem_singleton] at hi
      rcases hi with hi | hi
      · exact .inl hi
      · subst hi
        refine .inr ⟨h.ndom _ (Nat.le_refl _), rn, by simp, hrl hop ?_⟩
        intro i hi n hni
        exact hold i hi n (getElem?_push_lt' hni))
  have e : mapGrpAt P g (.row (nodes ++ [s₁.nodes.size]) t) = .row (nodes.map P.ν ++ [s₂.nodes.size]) t := by
    simp [mapGrpAt, mapGrp, h0]
  rw [e] at a2
  exact a2

theorem ASim.attachNoop (ok : P.Ok) {s₁ s₂ : St} (h : ASim P s₁ s₂) {g : Nat} (hd : P.DG g)
    {ps : List (Nat × Cond)} {r0 : Option Nat}
    (hg : s₁.groups[g]? = some (.noop ps r0)) (rn : NodeM)
    (hdx : Below s₁.next rn.dexitUid ∨ ¬ Invented rn.dexitUid) :
    ASim P { s₁ with nodes := s₁.nodes.push rn, groups := s₁.groups.setIfInBounds g (.noop ps (some s₁.nodes.size)) }
      { s₂ with nodes := s₂.nodes.push (rnNode P.ρ rn),
                groups := s₂.groups.setIfInBounds (P.γ g)
                  (.noop (ps.map fun p => (P.γ p.1, p.2)) (some s₂.nodes.size)) } := by
  have h0 : P.ν s₁.nodes.size = s₂.nodes.size := by simpa using h.nsync 0
  have a1 := h.addNode rn hdx
  have hcl := h.closed g _ hd hg
  have a2 := a1.setGrp ok hd (old := .noop ps r0) (g' := .noop ps (some s₁.nodes.size)) hg
    (by
      intro i hi
      simp only [gnodes, List.mem_singleton] at hi
      exact h.ndom i (by omega))
    (by intro x hx; exact hcl.2 x (by simpa [grefs] using hx))
    (by intro ht x hx; exact h.ra g _ hd ht hg x (by simpa [grefs] using hx))
    (by
      intro hhb hgb
      obtain ⟨c, cs, e⟩ := h.bne hhb
      rw [← hgb, hg] at e; cases e)
    (by
      refine ⟨?_, fun x hx => (h.wf g _ hg).2 x (by simpa [grefs] using hx)⟩
      intro i hi
      simp only [gnodes, List.mem_singleton] at hi
      simp [hi])
    (by intro _ nodes0 t0 e0; cases e0)
  have e : mapGrpAt P g (.noop ps (some s₁.nodes.size)) =
      .noop (ps.map fun p => (P.γ p.1, p.2)) (some s₂.nodes.size) := by
    simp [mapGrpAt, mapGrp, h0]
  rw [e] at a2
  exact a2

theorem getElem?_push_lt {α : Type} {a : Array α} {i : Nat} {x y : α} (h : a[i]? = some x) :
    (a.push y)[i]? = some x := by
  have hlt : i < a.size := (Array.getElem?_eq_some_iff.mp h).1
  rw [Array.getElem?_push]
  have : ¬ i = a.size := by omega
  simp [this, h]

theorem routerBehind_rel (ok : P.Ok) {s₁ s₂ : St} (h : ASim P s₁ s₂) {g i : Nat} (hdg : P.DG g) (hdi : P.DN i)
    (nodes : List Nat) (rowType : Str) (n : NodeM)
    (hg : s₁.groups[g]? = some (.row nodes rowType)) (hn : s₁.nodes[i]? = some n)
    (operandV : Str) (waitT : Option Nat)
    (hi : i ∈ nodes) (hk : n.kind = .basic) (hw : waitT = none ∨ waitT = some 0) :
    rwp (routerBehind g nodes rowType i n operandV waitT)
      (routerBehind (P.γ g) (nodes.map P.ν) rowType (P.ν i) (rnNode P.ρ n) operandV waitT) s₁ s₂
      (fun a t₁ b t₂ => RPost P s₁ s₂ (fun a b => b = (P.ν a.1, rnNode P.ρ a.2)) a t₁ b t₂ ∧
        t₁.nodes[a.1]? = some a.2 ∧ P.DN a.1) := by
  unfold routerBehind
  refine rwp_bind_id IdRel.fresh h.idSync ?_
  intro u k0
  by_cases he : operandV.isEmpty = true
  · simp only [he, if_true]; exact rwp_fail_left _ _ _ _ _
  simp only [he, if_false]
  have a0 := bump_asim h k0
  have hsw : wp (newSwitch operandV none waitT) { s₁ with next := s₁.next + k0 }
      (fun sw _ => sw.cats = [] ∧ sw.noResp = none) := by
    rw [wp_newSwitch]
    rcases hw with rfl | rfl <;> exact ⟨rfl, rfl⟩
  refine rwp_bind_id_u hsw (newSwitch_rel _ _ _) a0.idSync ?_
  intro sw k1 ⟨hsw1, hsw2⟩
  have a1 := bump_asim a0 k1
  refine rwp_bind_newRouterNode u .switch (.sw (sw.setDflt n.dexitDest)) a1.idSync ?_
  have a2 := bump_asim a1 1
  generalize hrn : mkRouterNode u .switch (.sw (sw.setDflt n.dexitDest)) (tid (s₁.next + k0 + k1)) = rn
  have hrd : Below (s₁.next + k0 + k1 + 1) rn.dexitUid := by
    rw [← hrn]; exact ⟨s₁.next + k0 + k1, by omega, rfl⟩
  unfold attachRowNode
  rw [rwp_iff_wp]
  dsimp only
  wp_simp [wp_addNode, wp_setGrp, wp_fresh', wp_setNode]
  have h0 : P.ν s₁.nodes.size = s₂.nodes.size := by simpa using h.nsync 0
  have a3 := a2.attachRow ok hdg (nodes := nodes) (t := rowType) hg rn (.inl hrd) (by
    intro hop hold
    have hnl : NoLoose n := hold i hi n hn
    have hdd := hnl.2 hk
    rw [← hrn]
    refine ⟨?_, fun e => by cases e⟩
    rw [hasLoose_sw (r := sw.setDflt n.dexitDest) (by rfl)]
    intro c hc
    simp only [SwitchR.allCats, SwitchR.setDflt, hsw1, hsw2, List.nil_append, Option.toList, List.append_nil,
      List.mem_singleton] at hc
    subst hc
    exact hdd)
  have a4 := bump_asim a3 1
  have a5 := a4.setNode ok hdi (old := n) (n' := { n with dexitUid := tid (s₁.next + k0 + k1 + 1), dexitDest := .node u })
    (getElem?_push_lt hn) (.inr ⟨s₁.next + k0 + k1 + 1, by simp, rfl⟩)
    (fun _ hl => noLoose_setDexit n _ _ (fun e => by cases e) hl)
  have hid : P.ρ (tid (s₁.next + k0 + k1 + 1)) = tid (s₂.next + k0 + k1 + 1) := by
    have := h.idsync (k0 + k1 + 1)
    simpa [Nat.add_assoc] using this
  refine ⟨⟨by simp [h0], ?_, ⟨rfl, rfl, rfl⟩, ⟨rfl, rfl, rfl⟩⟩, ?_, h.ndom _ (Nat.le_refl _)⟩
  · refine a5.congr rfl rfl rfl rfl rfl ?_ rfl rfl rfl rfl
    simp [rnNode, hid]
  · have hlt : i < s₁.nodes.size := (Array.getElem?_eq_some_iff.mp hn).1
    have : ¬ i = s₁.nodes.size := by omega
    simp [Array.getElem?_setIfInBounds, this]

theorem nodeAddChoice_rel (ok : P.Ok) {s₁ s₂ : St} (h : ASim P s₁ s₂) {i : Nat} (hd : P.DN i) (n : NodeM)
    (hn : s₁.nodes[i]? = some n) (operandV ctype : Str) (args : List (Option Str)) (c : Cond) (d : Dest)
    (hdn : P.op = true → d ≠ Dest.none) :
    rwp (nodeAddChoice i n operandV ctype args c d)
      (nodeAddChoice (P.ν i) (rnNode P.ρ n) operandV ctype args c (rnDest P.ρ d)) s₁ s₂
      (RPost P s₁ s₂ (fun _ _ => True)) := by
  unfold nodeAddChoice
  cases hr : n.router with
  | none => exact rwp_fail_left _ _ _ _ _
  | some rt =>
    cases rt with
    | sw r =>
      simp only [rnNode_router, hr, Option.map_some, rnRouter]
      refine rwp_bind_id_u (addChoice_spec r _ _ _ _ d false s₁) (addChoice_rel ok.hρ r _ _ _ _ d false) h.idSync ?_
      intro r' k ⟨_, _, _, hD, _⟩
      rw [rwp_iff_wp, wp_setNode, wp_setNode]
      exact ⟨trivial, (bump_asim h k).setNode ok hd hn (n' := { n with router := some (.sw r') }) (.inl rfl)
        (fun hop hl => noLoose_sw hr hl (hD (· ≠ Dest.none) (hdn hop))),
        ⟨rfl, rfl, rfl⟩, ⟨rfl, rfl, rfl⟩⟩
    | rnd r =>
      simp only [rnNode_router, hr, Option.map_some, rnRouter]
      refine rwp_bind_id_u (randomAddChoice_spec r _ d s₁) (randomAddChoice_rel ok.hρ r _ d) h.idSync ?_
      intro r' k ⟨_, _, _, hD⟩
      rw [rwp_iff_wp, wp_setNode, wp_setNode]
      exact ⟨trivial, (bump_asim h k).setNode ok hd hn (n' := { n with router := some (.rnd r') }) (.inl rfl)
        (fun hop hl => noLoose_rnd hr hl (hD (· ≠ Dest.none) (hdn hop))),
        ⟨rfl, rfl, rfl⟩, ⟨rfl, rfl, rfl⟩⟩

theorem rowExitCond_rel (ok : P.Ok) {s₁ s₂ : St} (h : ASim P s₁ s₂) {g i : Nat} (hdg : P.DG g) (hdi : P.DN i)
    (nodes : List Nat) (rowType : Str) (n : NodeM)
    (hg : s₁.groups[g]? = some (.row nodes rowType)) (hn : s₁.nodes[i]? = some n) (d : Dest) (c : Cond)
    (hdn : P.op = true → d ≠ Dest.none) (hi : i ∈ nodes) :
    rwp (rowExitCond g nodes rowType i n d c)
      (rowExitCond (P.γ g) (nodes.map P.ν) rowType (P.ν i) (rnNode P.ρ n) (rnDest P.ρ d) c) s₁ s₂
      (RPost P s₁ s₂ (fun _ _ => True)) := by
  unfold rowExitCond
  simp only [rnNode_operandOf, rnNode_kind]
  rw [rwp_bind]
  by_cases hk : n.kind = .basic
  · simp only [hk, if_true]
    refine rwp_mono (routerBehind_rel ok h hdg hdi nodes rowType n hg hn _ _ hi hk (by
      split
      · exact .inl rfl
      · split
        · exact .inl rfl
        · exact .inr rfl)) ?_
    intro a t₁ b t₂ ⟨⟨hb, hs, e1, e2⟩, hnn, hdn'⟩
    subst b
    refine rwp_mono (nodeAddChoice_rel ok hs hdn' a.2 hnn _ _ _ c d hdn) ?_
    intro _ u₁ _ u₂ ⟨_, hs', e1', e2'⟩
    exact ⟨trivial, hs', e1.trans e1', e2.trans e2'⟩
  · simp only [hk, if_false]
    rw [rwp_pure]
    exact nodeAddChoice_rel ok h hdi n hn _ _ _ c d hdn

theorem rowAddExit_rel (ok : P.Ok) {s₁ s₂ : St} (h : ASim P s₁ s₂) {g : Nat} (hdg : P.DG g)
    (nodes : List Nat) (rowType : Str) (hg : s₁.groups[g]? = some (.row nodes rowType)) (d : Dest) (c : Cond)
    (hdn : P.op = true → d ≠ Dest.none) :
    rwp (rowAddExit g nodes rowType d c)
      (rowAddExit (P.γ g) (nodes.map P.ν) rowType (rnDest P.ρ d) c) s₁ s₂ (RPost P s₁ s₂ (fun _ _ => True)) := by
  unfold rowAddExit
  rw [getLast?_map]
  cases hl : nodes.getLast? with
  | none => exact rwp_fail_left _ _ _ _ _
  | some i =>
    have hdi : P.DN i := (h.closed g _ hdg hg).1 i (mem_of_getLast? hl)
    simp only [Option.map_some]
    rw [rwp_bind]
    refine rwp_mono (getNode_rel h hdi) ?_
    intro n t₁ n' t₂ ⟨hn', hn, e1, e2⟩
    subst n'; subst t₁; subst t₂
    simp only [rnNode_kind]
    refine rwp_ite (fun _ => rowExitBlank_rel ok h hdi n hn d hdn) fun _ => ?_
    refine rwp_ite (fun _ => rowExitEnter_rel ok h hdi c d hdn) fun _ => ?_
    refine rwp_ite (fun _ => rowExitHook_rel ok h hdi c d hdn) fun _ => ?_
    refine rwp_ite (fun _ => rowExitNoResp_rel ok h hdi n hn d hdn) fun _ => ?_
    exact rowExitCond_rel ok h hdg hdi nodes rowType n hg hn d c hdn (mem_of_getLast? hl)

theorem noopRouterExit_rel (ok : P.Ok) {s₁ s₂ : St} (h : ASim P s₁ s₂) {j : Nat} (hd : P.DN j) (d : Dest) (c : Cond)
    (hdn : P.op = true → d ≠ Dest.none) :
    rwp (noopRouterExit j d c) (noopRouterExit (P.ν j) (rnDest P.ρ d) c) s₁ s₂
      (RPost P s₁ s₂ (fun _ _ => True)) := by
  unfold noopRouterExit
  refine rwp_ite (fun _ => updSwitch_rel ok h hd (fun r => setDfltM_rel r d) d hdn (swUpd_setDflt d)) fun _ => ?_
  exact updSwitch_rel ok h hd (fun r => addChoice_rel ok.hρ r _ _ _ _ d false) d hdn (swUpd_addChoice _ _ _ _ d false)

theorem connectIfLoose_rel (ok : P.Ok) {s₁ s₂ : St} (h : ASim P s₁ s₂) (f₁ f₂ : Nat) {ch : Nat} (hd : P.DG ch)
    (ht : ¬ P.T ch) (d : Dest) (hdn : P.op = true → d ≠ Dest.none) :
    rwp (connectIfLoose f₁ d ch) (connectIfLoose f₂ (rnDest P.ρ d) (P.γ ch)) s₁ s₂
      (RPost P s₁ s₂ (fun _ _ => True)) := by
  unfold connectIfLoose
  rw [rwp_bind]
  refine rwp_mono (hasLoose_rel ok h f₁ f₂ ch hd ht) ?_
  intro a t₁ b t₂ ⟨hb, e1, e2⟩
  subst b; subst t₁; subst t₂
  cases a with
  | true => simp only [if_true]; exact connectLoose_rel ok d hdn f₁ f₂ ch s₁ s₂ h hd ht
  | false =>
    simp only [Bool.false_eq_true, if_false]
    rw [rwp_pure]; exact ⟨trivial, h, SEq.refl _, SEq.refl _⟩

theorem addExit_rel (ok : P.Ok) : ∀ (f₁ f₂ j : Nat) (d : Dest) (c : Cond) (s₁ s₂ : St), ASim P s₁ s₂ → P.DG j → ¬ P.T j →
    (P.op = true → d ≠ Dest.none) →
    rwp (addExit f₁ j d c) (addExit f₂ (P.γ j) (rnDest P.ρ d) c) s₁ s₂ (RPost P s₁ s₂ (fun _ _ => True)) := by
  intro f₁
  induction f₁ with
  | zero => intro f₂ j d c s₁ s₂ _ _ _ _; unfold addExit; exact rwp_fail_left _ _ _ _ _
  | succ f₁ ih =>
    intro f₂ j d c s₁ s₂ h hd ht hdn
    cases f₂ with
    | zero =>
      rw [show addExit 0 (P.γ j) (rnDest P.ρ d) c = fail .fuel by unfold addExit; rfl]
      exact rwp_fail_right _ _ _ _ _
    | succ f₂ =>
      unfold addExit
      rw [rwp_bind]
      refine rwp_mono (getGrp_rel h hd) ?_
      intro g t₁ g' t₂ ⟨hg', hg, e1, e2⟩
      subst g'; subst t₁; subst t₂
      have hcl := h.closed j g hd hg
      have hra := h.ra j g hd ht hg
      cases g with
      | row nodes t =>
        simp only [mapGrpAt_row]
        exact rowAddExit_rel ok h hd nodes t hg d c hdn
      | block cs =>
        have main : rwp (cs.forM (connectIfLoose (f₁ + 1) d))
            ((cs.map P.γ).forM (connectIfLoose (f₂ + 1) (rnDest P.ρ d))) s₁ s₂ (RPost P s₁ s₂ (fun _ _ => True)) := by
          refine arel_forM P.γ cs _ _ h ?_
          intro x hx u₁ u₂ hu
          exact connectIfLoose_rel ok hu (f₁ + 1) (f₂ + 1) (hcl.2 x (by simp [grefs, hx]))
            (hra x (by simp [grefs, hx])) d hdn
        have hch : ∃ cs', mapGrpAt P j (.block cs) = .block cs' ∧
            rwp (cs.forM (connectIfLoose (f₁ + 1) d))
              (cs'.forM (connectIfLoose (f₂ + 1) (rnDest P.ρ d))) s₁ s₂ (RPost P s₁ s₂ (fun _ _ => True)) := by
          cases hop : P.op with
          | false => exact ⟨_, mapGrpAt_block_ne P (ok.ne_bx hop ht) cs, main⟩
          | true =>
            by_cases hjb : j = P.bx
            · subst hjb
              refine ⟨_, mapGrpAt_block_bx P (ok.hgx hop).1 cs, ?_⟩
              show rwp _ (connectIfLoose (f₂ + 1) (rnDest P.ρ d) P.gx >>= fun _ =>
                (cs.map P.γ).forM (connectIfLoose (f₂ + 1) (rnDest P.ρ d))) s₁ s₂ _
              exact rwp_skip_right (c := PUnit.unit)
                (wp_mono (inert_connectIfLoose (h.pl hop) (f₂ + 1) _) (fun _ _ e => ⟨e, rfl⟩)) main
            · exact ⟨_, mapGrpAt_block_ne P (.inl hjb) cs, main⟩
        obtain ⟨cs', ecs, hmain⟩ := hch
        simp only [ecs]
        by_cases hb : c.blank = true
        · simp only [hb, if_true]
          rw [rwp_bind]
          have hl := hasLoose_rel ok h (f₁ + 1) (f₂ + 1) j hd ht
          refine rwp_mono hl ?_
          intro a t₁ b t₂ ⟨hb', e1, e2⟩
          subst b; subst t₁; subst t₂
          cases a with
          | false => simp only [Bool.false_eq_true, if_false]; exact rwp_fail_left _ _ _ _ _
          | true =>
            simp only [if_true]
            exact hmain
        · simp only [hb, if_false]; exact rwp_fail_left _ _ _ _ _
      | noop ps router =>
        simp only [mapGrpAt_noop]
        have hps : ∀ p ∈ ps, P.DG p.1 ∧ ¬ P.T p.1 := fun p hp =>
          ⟨hcl.2 p.1 (by simp [grefs]; exact ⟨p.2, hp⟩), hra p.1 (by simp [grefs]; exact ⟨p.2, hp⟩)⟩
        cases router with
        | some i =>
          simp only [Option.map_some]
          exact noopRouterExit_rel ok h (hcl.1 i (by simp [gnodes])) d c hdn
        | none =>
          simp only [Option.map_none]
          by_cases hb : c.blank = true
          · simp only [hb, if_true]
            refine arel_forM (fun p : Nat × Cond => (P.γ p.1, p.2)) ps _ _ h ?_
            intro p hp u₁ u₂ hu
            exact ih f₂ p.1 d p.2 u₁ u₂ hu (hps p hp).1 (hps p hp).2 hdn
          · simp only [hb, if_false]
            by_cases hv : c.var.isEmpty = true
            · simp only [hv, if_true]; exact rwp_fail_left _ _ _ _ _
            simp only [hv, if_false]
            refine rwp_bind_id IdRel.fresh h.idSync ?_
            intro u k0
            have a0 := bump_asim h k0
            refine rwp_bind_id (newSwitch_rel _ _ _) a0.idSync ?_
            intro sw k1
            have a1 := bump_asim a0 k1
            refine rwp_bind_newRouterNode u .switch (.sw sw) a1.idSync ?_
            have a2 := bump_asim a1 1
            generalize hrn : mkRouterNode u .switch (.sw sw) (tid (s₁.next + k0 + k1)) = rn
            have hrd : Below (s₁.next + k0 + k1 + 1) rn.dexitUid := by
              rw [← hrn]; exact ⟨s₁.next + k0 + k1, by omega, rfl⟩
            have a3 := a2.attachNoop ok hd (ps := ps) (r0 := none) hg rn (.inl hrd)
            dsimp only at a3 ⊢
            unfold attachNoopRouter
            rw [rwp_bind, rwp_iff_wp]
            wp_simp [wp_addNode, wp_setGrp]
            rw [rwp_bind]
            have hdn' : P.DN s₁.nodes.size := h.ndom _ (Nat.le_refl _)
            have h0 : P.ν s₁.nodes.size = s₂.nodes.size := by simpa using h.nsync 0
            refine rwp_mono (arel_forM (fun p : Nat × Cond => (P.γ p.1, p.2)) ps
              (fun p => addExit f₁ p.1 (.node u) p.2) (fun p => addExit f₂ p.1 (.node (P.ρ u)) p.2) a3 ?_) ?_
            · intro p hp u₁ u₂ hu
              exact ih f₂ p.1 (.node u) p.2 u₁ u₂ hu (hps p hp).1 (hps p hp).2 (fun _ e => by cases e)
            · intro _ u₁ _ u₂ ⟨_, hu, e1, e2⟩
              have := noopRouterExit_rel ok hu hdn' d c hdn
              rw [h0] at this
              refine rwp_mono this ?_
              intro _ v₁ _ v₂ ⟨_, hv', e1', e2'⟩
              exact ⟨trivial, hv', e1.trans e1', e2.trans e2'⟩

theorem head?_map' {α β : Type} (f : α → β) (l : List α) : (l.map f).head? = l.head?.map f := by
  cases l <;> rfl

theorem entryNode_rel (ok : P.Ok) {s₁ s₂ : St} (h : ASim P s₁ s₂) : ∀ (f₁ f₂ j : Nat), P.DG j → ¬ P.T j →
    rwp (entryNode f₁ j) (entryNode f₂ (P.γ j)) s₁ s₂ (RO (fun a b => b = P.ν a ∧ P.DN a) s₁ s₂) := by
  intro f₁
  induction f₁ with
  | zero => intro f₂ j _ _; unfold entryNode; exact rwp_fail_left _ _ _ _ _
  | succ f₁ ih =>
    intro f₂ j hd ht
    cases f₂ with
    | zero =>
      rw [show entryNode 0 (P.γ j) = fail .fuel by unfold entryNode; rfl]
      exact rwp_fail_right _ _ _ _ _
    | succ f₂ =>
      unfold entryNode
      rw [rwp_bind]
      refine rwp_mono (getGrp_rel h hd) ?_
      intro g t₁ g' t₂ ⟨hg', hg, e1, e2⟩
      subst g'; subst t₁; subst t₂
      have hcl := h.closed j g hd hg
      have hra := h.ra j g hd ht hg
      cases g with
      | row nodes t =>
        simp only [mapGrpAt_row, head?_map']
        cases hh : nodes.head? with
        | none => exact rwp_fail_left _ _ _ _ _
        | some i =>
          simp only [Option.map_some]
          rw [rwp_pure]
          exact ⟨⟨rfl, hcl.1 i (List.mem_of_mem_head? hh)⟩, rfl, rfl⟩
      | noop ps router => exact rwp_fail_left _ _ _ _ _
      | block cs =>
        have main : rwp (match cs.head? with
              | some c => entryNode f₁ c
              | none => fail (.exc "IndexError: empty block has no entry node"))
            (match (cs.map P.γ).head? with
              | some c => entryNode f₂ c
              | none => fail (.exc "IndexError: empty block has no entry node")) s₁ s₂
            (RO (fun a b => b = P.ν a ∧ P.DN a) s₁ s₂) := by
          simp only [head?_map']
          cases hh : cs.head? with
          | none => exact rwp_fail_left _ _ _ _ _
          | some c =>
            simp only [Option.map_some]
            have hc : c ∈ cs := List.mem_of_mem_head? hh
            exact ih f₂ c (hcl.2 c (by simp [grefs, hc])) (hra c (by simp [grefs, hc]))
        cases hop : P.op with
        | false =>
          simp only [mapGrpAt_block_ne P (ok.ne_bx hop ht)]
          exact main
        | true =>
          by_cases hjb : j = P.bx
          · subst hjb
            simp only [mapGrpAt_block_bx P (ok.hgx hop).1, List.head?_cons]
            -- the twin's block starts with its begin row: no entry node
            obtain ⟨ps, hgx, _⟩ := h.pl hop
            have hw : wp (entryNode f₂ P.gx) s₂ (fun _ _ => False) := by
              cases f₂ with
              | zero => unfold entryNode; rw [wp_fail]; trivial
              | succ f₂ =>
                unfold entryNode
                rw [wp_bind, wp_getGrp]
                intro g hg'
                rw [hgx] at hg'; injection hg' with hg'; subst hg'
                rw [wp_fail]; trivial
            intro a t₁ b t₂ _ h2
            exact (wp_of_run hw h2).elim
          · simp only [mapGrpAt_block_ne P (.inl hjb)]
            exact main

end Rpft.Compile
