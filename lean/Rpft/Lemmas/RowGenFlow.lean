/-
General round-trip development (C07), part 7: the instance for the flow sheet's row model
(`FlowRowModel` with the `Edge` remap, nested `Condition`, `Webhook` with its untyped
`headers`, `WhatsAppTemplating` with a list), whose top-level headers are remapped by
`field_name_to_header_name` and found again by `header_name_to_field_name_with_context`.
All side conditions on the tables are checked by the kernel on the T1-tied schema.
-/
import Rpft.Lemmas.RowGenThm
import Rpft.Lemmas.RowFlow
set_option linter.unusedSimpArgs false
set_option linter.unusedVariables false
namespace Rpft.Row
open Rpft

/-- the value-level condition for flow rows: every written field whose header is
`message_text` is the main argument that `row_type_to_main_arg` selects for the row's `type` -/
def flowMainOk (kvs : List (Str × Val)) : Bool :=
  match alookup typeCol kvs with
  | some (.str t) =>
    ((flowRowFields.zip (kvs.map Prod.snd)).filter nonDefault).all fun p =>
      hdr flowF2H p != msgHdr || decide (alookup t flowMainArg = some p.1.1)
  | _ => false

/-- the keys of `row_type_to_main_arg` are trimmed, so the type cell `unparse_row` writes for a row whose
type is one of them is looked up as written -/
theorem flow_main_keys_trimmed : ∀ kv ∈ flowMainArg, strip pyWs kv.1 = kv.1 := by decide +kernel

theorem flow_static :
    (flowRowFields.all fun f => simpleName f.1 && simpleName (remap flowF2H f.1)) = true ∧
    (flowRowFields.map (·.1)).Nodup ∧ goodFields flowRowFields = true ∧
    (flowRowFields.all fun f => flowRowFields.all fun g =>
      !(decide (remap flowF2H f.1 = remap flowF2H g.1)) || decide (remap flowF2H f.1 = msgHdr) ||
        decide (f.1 = g.1)) = true ∧
    ((ctxKeys flowRowSchema).all fun k => flowRowFields.all fun f => headSeg k != f.1) = true ∧
    (flowRowFields.all fun f => decide (remap flowF2H f.1 = f.1) ||
      decide (remap flowF2H f.1 = msgHdr) ||
      decide (alookup (remap flowF2H f.1) flowBasicHeaders = some f.1)) = true ∧
    alookup msgHdr flowBasicHeaders = none ∧
    (flowRowFields.any fun f => decide (f.1 = typeCol) &&
      (match f.2.1, f.2.2 with | .str, none => true | _, _ => false)) = true ∧
    remap flowF2H typeCol = typeCol := by
  decide +kernel

theorem mem_zip_eq {fs : List Field} {kvs : List (Str × Val)}
    (hnames : kvs.map Prod.fst = fs.map (·.1)) (hnd : (fs.map (·.1)).Nodup)
    {p q : SPair} (hp : p ∈ fs.zip (kvs.map Prod.snd)) (hq : q ∈ fs.zip (kvs.map Prod.snd))
    (h : p.1.1 = q.1.1) : p = q := by
  have h1 := alookup_zip fs kvs hnames hnd p hp
  have h2 := alookup_zip fs kvs hnames hnd q hq
  have hf1 := fieldLookup_mem fs hnd p.1 (List.of_mem_zip hp).1
  have hf2 := fieldLookup_mem fs hnd q.1 (List.of_mem_zip hq).1
  rw [h] at h1 hf1
  rw [h2] at h1
  rw [hf2] at hf1
  exact Prod.ext (Option.some.inj hf1).symm (Option.some.inj h1).symm

theorem nodup_of_map {α β : Type} (f : α → β) : ∀ (l : List α), (l.map f).Nodup → l.Nodup
  | [], _ => by simp
  | a :: l, h => by
    simp only [List.map_cons, List.nodup_cons] at h ⊢
    exact ⟨fun hm => h.1 (List.mem_map_of_mem (f := f) hm), nodup_of_map f l h.2⟩

/-- **The flow row model round-trips** in every layout that is `LayoutOk` for the row. -/
theorem flow_roundtrip (lay : Layout) (kvs : List (Str × Val))
    (hr : Representable flowRowTy (.model kvs) = true)
    (hl : LayoutOk flowRowSchema lay (.model kvs) = true) (hm : flowMainOk kvs = true) :
    ∃ cells, unparseRow flowRowSchema lay (.model kvs) = .ok cells ∧
      parseRow flowRowSchema cells = .ok (.model kvs) := by
  obtain ⟨S1, S2, Sg, S3, S4, S5, S6, S7, S8⟩ := flow_static
  simp only [List.all_eq_true, Bool.and_eq_true, Bool.or_eq_true, decide_eq_true_eq,
    Bool.not_eq_true', decide_eq_false_iff_not, bne_iff_ne, ne_eq] at S1 S3 S4 S5
  simp only [Representable, flowRowTy, Bool.and_eq_true, decide_eq_true_eq] at hr
  obtain ⟨hnames, hrf⟩ := hr
  obtain ⟨he, hlay⟩ := layoutOk_top (sch := flowRowSchema) (fs := flowRowFields) (h2f := [])
    (f2h := flowF2H) rfl hl
  -- the row type
  unfold flowMainOk at hm
  cases hty : alookup typeCol kvs with
  | none => simp [hty] at hm
  | some tv =>
    cases tv with
    | str t =>
      simp only [hty, List.all_eq_true, Bool.or_eq_true, bne_iff_ne, ne_eq, decide_eq_true_eq] at hm
      have hlen : flowRowFields.length = (kvs.map Prod.snd).length := by
        have := congrArg List.length hnames
        simpa using this.symm
      have hinj : ∀ p ∈ (flowRowFields.zip (kvs.map Prod.snd)).filter nonDefault,
          ∀ q ∈ (flowRowFields.zip (kvs.map Prod.snd)).filter nonDefault,
          hdr flowF2H p = hdr flowF2H q → p = q := by
        intro p hp q hq hpq
        have hp' := (List.mem_filter.mp hp).1
        have hq' := (List.mem_filter.mp hq).1
        apply mem_zip_eq hnames S2 hp' hq'
        by_cases hmsg : hdr flowF2H p = msgHdr
        · have h1 := hm p hp
          have h2 := hm q hq
          rw [← hpq] at h2
          simp only [hmsg, not_true_eq_false, false_or] at h1 h2
          rw [h1] at h2
          exact Option.some.inj h2
        · rcases S3 p.1 (List.of_mem_zip hp').1 q.1 (List.of_mem_zip hq').1 with (h | h) | h
          · exact absurd hpq h
          · exact absurd h hmsg
          · exact h
      have hpnd : ((flowRowFields.zip (kvs.map Prod.snd)).filter nonDefault).Nodup := by
        apply List.Nodup.sublist List.filter_sublist
        apply nodup_of_map (fun p : SPair => p.1.1)
        have hfst := zip_map_fst flowRowFields _ hlen
        have : (flowRowFields.zip (kvs.map Prod.snd)).map (fun p : SPair => p.1.1) =
            flowRowFields.map (·.1) := by
          conv => rhs; rw [← hfst]
          simp [List.map_map]
        rw [this]; exact S2
      apply top_roundtrip flowRowSchema lay he flowRowFields [] flowF2H rfl
        (fun f hf => (S1 f hf).1) S2 Sg kvs hnames hrf hlay (nodup_map_on _ _ hpnd hinj)
        (fun p hp _ => (S1 p.1 (List.of_mem_zip hp).1).2)
      intro cells hcells hbasic p hp hpn
      have hmem : p.1 ∈ flowRowFields := (List.of_mem_zip hp).1
      constructor
      · intro hrm
        refine ⟨remap_nil _, ?_⟩
        intro k hk
        apply ctxRemap_untouched
        intro k' hk' e
        exact S4 k' hk' p.1 hmem (by rw [e, hk])
      · intro hrm
        by_cases hmsg : hdr flowF2H p = msgHdr
        · have h1 := hm p (List.mem_filter.mpr ⟨hp, hpn⟩)
          simp only [hmsg, not_true_eq_false, false_or] at h1
          -- the `type` cell
          have htcell : alookup typeCol cells = some t := by
            obtain ⟨ft, hfm, hft⟩ := List.any_eq_true.mp S7
            obtain ⟨fn, fty, fd⟩ := ft
            simp only [Bool.and_eq_true, decide_eq_true_eq] at hft
            obtain ⟨rfl, hft2⟩ := hft
            cases fty <;> cases fd <;> simp at hft2
            obtain ⟨v, hv⟩ := zip_mem_of_fst flowRowFields _ hlen _ hfm
            have hv' := alookup_zip flowRowFields kvs hnames S2 _ hv
            simp only at hv'
            rw [hty] at hv'
            cases hv'
            have := hbasic _ hv (by simp [nonDefault, isDefault]) rfl
            simpa [hdr, S8, printBasic] using this
          refine ⟨p.1.1, ?_, (S1 p.1 hmem).1, remap_nil _⟩
          rw [hmsg]
          exact ctxRemap_main flowRowSchema cells msgHdr typeCol flowMainArg flow_main S6 t p.1.1
            htcell (by rw [strip_of_alookup flowMainArg flow_main_keys_trimmed t _ h1]; exact h1)
        · rcases S5 p.1 hmem with (h | h) | h
          · exact absurd h hrm
          · exact absurd h hmsg
          · exact ⟨p.1.1, ctxRemap_basic flowRowSchema cells _ _ h, (S1 p.1 hmem).1, remap_nil _⟩
    | _ => simp [hty] at hm

end Rpft.Row
