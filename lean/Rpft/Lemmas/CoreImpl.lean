/-
Lock-step simulation, the edges leaving an action row conditionally: the first such edge makes the
compiler create a router node behind the row's node (it inherits the node's unconditional exit); later
edges go to that router node.
-/
import Rpft.Lemmas.CoreSim
set_option linter.unusedSimpArgs false
set_option linter.unusedVariables false
set_option linter.unusedSectionVars false
namespace Rpft.CoreSheet
open Rpft Rpft.Compile Rpft.RefFlow

theorem action_not_group {t : Str} (h : kindOf t = .action) : t ≠ "split_by_group".toList := by
  intro e; rw [e, kindOf_group] at h; cases h

theorem action_not_value {t : Str} (h : kindOf t = .action) : t ≠ "split_by_value".toList := by
  intro e; rw [e, kindOf_value] at h; cases h

theorem action_not_noop {c : CRow} (h : kindOf c.row.type = .action) : isNoop c = false := by
  unfold isNoop
  rw [decide_eq_false_iff_not]
  intro e; rw [e] at h; revert h; decide

theorem input_ne : ("@input.text".toList).isEmpty = false := by decide

/-- the test the compiler stores for a conditional edge leaving an action row is the reference's -/
theorem stored_test_action (cond : Compile.Cond) :
    ((if cond.type.isEmpty = true then "has_any_word".toList else cond.type),
      (if RefFlow.noArgsTests.contains (if cond.type.isEmpty = true then "has_any_word".toList else cond.type) = true
        then ([] : List (Option Str)) else [some cond.value]).map (·.getD [])) = refTest .action (toRCond cond) := by
  unfold refTest
  rw [if_neg (show ¬ (Kind.action = Kind.splitGroup) by decide)]
  unfold RefFlow.condTest toRCond
  simp only
  generalize (if cond.type.isEmpty = true then "has_any_word".toList else cond.type) = ty
  cases RefFlow.noArgsTests.contains ty <;> rfl

/-- operand and wait the compiler derives from a condition on an edge leaving an action row -/
def owOf (cond : Compile.Cond) : Str × Option Nat :=
  if ¬ cond.var.isEmpty = true then (cond.var, none) else ("@input.text".toList, some 0)

theorem owOf_fst_ne (cond : Compile.Cond) : (owOf cond).1.isEmpty = false := by
  unfold owOf
  by_cases h : cond.var.isEmpty = true
  · simp only [h, not_true_eq_false, if_false]; exact input_ne
  · simp only [h, not_false_eq_true, if_true]; simpa using h

theorem tests_action_append (es : List OutEdge) (e : OutEdge) (hb : e.cond.blank = false) :
    testsOf .action (es ++ [e]) = testsOf .action es ++ [e] :=
  testsOf_append_test .action es e hb (fun h => by cases h.1)

theorem tests_action_blank (es : List OutEdge) (e : OutEdge) (hb : e.cond.blank = true) :
    testsOf .action (es ++ [e]) = testsOf .action es :=
  testsOf_append_skip _ _ _ (.inl hb)

theorem tests_action_nil (es : List OutEdge) (h : ∀ e ∈ es, e.cond.blank = true) : testsOf .action es = [] := by
  unfold testsOf
  have : es.filter (fun e => !e.cond.blank) = [] := by
    rw [List.filter_eq_nil_iff]; intro e he; simp [h e he]
  rw [this]; rfl

theorem tests_action_eq (es : List OutEdge) : testsOf .action es = es.filter (fun e => !e.cond.blank) := by
  unfold testsOf
  have : (fun (e : OutEdge) => !(decide (Kind.action = Kind.wait) && isNR e.cond)) = fun _ => true := by
    funext e; simp
  rw [this, List.filter_true]

/-- the variable of the conditional edges does not change once there is one -/
theorem implVar_append (es : List OutEdge) (e : OutEdge) (h : testsOf .action es ≠ []) :
    implVar (es ++ [e]) = implVar es := by
  unfold implVar
  rw [List.filter_append]
  rw [tests_action_eq] at h
  cases hf : es.filter (fun e => !e.cond.blank) with
  | nil => exact absurd hf h
  | cons a l => rfl

theorem implVar_first (es : List OutEdge) (e : OutEdge) (h : ∀ e ∈ es, e.cond.blank = true) (hb : e.cond.blank = false) :
    implVar (es ++ [e]) = e.cond.var := by
  unfold implVar
  rw [List.filter_append]
  have : es.filter (fun e => !e.cond.blank) = [] := by
    rw [List.filter_eq_nil_iff]; intro e he; simp [h e he]
  rw [this]
  simp [hb]

theorem ow_impl (cond : Compile.Cond) (es : List OutEdge) (h : implVar es = cond.var) :
    owOf cond = (implOperand es, implWait es) := by
  unfold owOf implOperand implWait
  rw [h]
  by_cases hv : cond.var.isEmpty = true
  · simp [hv]
  · simp [hv]

theorem owOf_cases (cond : Compile.Cond) : ∃ op w, owOf cond = (op, w) ∧ op.isEmpty = false ∧ (w = none ∨ w = some 0) := by
  refine ⟨(owOf cond).1, (owOf cond).2, rfl, owOf_fst_ne cond, ?_⟩
  unfold owOf
  by_cases h : cond.var.isEmpty = true
  · simp [h]
  · simp [h]

theorem baseNames_action (tmo : Nat) : baseNames .action tmo = ["Other".toList] := by
  unfold baseNames
  rw [if_neg (fun h => by cases h.1)]

theorem ImplSim.allNames {M : Maps} {ns : Array NodeM} {n : NodeM} {c : CRow} {post : List Str} {es : List OutEdge} {i' : Nat} {n' : NodeM}
    {r : SwitchR} (hp : ImplSim M ns n c post es i' n' r) :
    r.allCats.map (·.name) = namesFrom .action (timeoutOf c.row) [] (testsOf .action es) ++ baseNames .action (timeoutOf c.row) := by
  unfold SwitchR.allCats
  rw [hp.noResp, baseNames_action]
  simp [hp.names.1, hp.names.2]

theorem args_action (cond : Compile.Cond) : ([some cond.value] : List (Option Str)) = argsOf .action (toRCond cond) := by
  unfold argsOf
  rw [if_neg (by decide)]; rfl

section
variable (rows : List CRow) (M : Maps) (pd : Bool) (kg : Nat) (d : Dest) (tgt : Target) (cond : Compile.Cond) (s : St) (st : P1) (j : Nat)
  (n : NodeM) (c : CRow)

/-- what the state must look like afterwards (the ghost map may have learnt of a router node) -/
abbrev EdgePost' : PUnit → St → Prop := fun _ s' =>
  ∃ M' : Maps, (∀ t, M'.nOf t = M.nOf t) ∧ M'.el = M.el ∧ M'.fr = M.fr ∧
    Rel rows M' pd kg s' { st with out := newEdge tgt cond j :: st.out } ∧ NExt s.nodes s'.nodes ∧
    ∀ g0, g0 ≠ gOf rows j → s'.groups[g0]? = s.groups[g0]?

variable (h : Rel rows M pd kg s st) (hj : j < kg) (hn : s.nodes[M.nOf j]? = some n) (hc : rows[j]? = some c)
  (hnode : isNodeRow c = true ∧ M.el j = false) (hk : kindOf c.row.type = .action)
  (hd : DestIs M s.nodes d (some tgt))
  (htg : ∀ t, tgt = Target.row t → (t < kg ∨ (pd = true ∧ t = kg)) ∧ M.fr t = false)
include h hj hn hc hnode hk hd htg

/-- every arena index in use is below the size of the arena -/
theorem idx_lt (j0 : Nat) (c0 : CRow) (hv : Valid rows M pd kg j0 c0) : ∀ x ∈ idxs M j0, x < s.nodes.size := by
  intro x hx
  obtain ⟨m, hm, hsim⟩ := h.node j0 c0 hv
  simp only [idxs, List.mem_cons] at hx
  rcases hx with rfl | hx
  · exact (Array.getElem?_eq_some_iff.mp hm).1
  · generalize hro : M.rOf j0 = ro at hsim hx
    cases hsim with
    | one _ => cases hx
    | impl i' n' r _ hp =>
      simp only [Option.toList, List.mem_singleton] at hx
      rw [hx]
      exact (Array.getElem?_eq_some_iff.mp hp.rnode).1

/-- an unconditional edge leaving an action row that has a router node behind it: the router's
default category -/
theorem impl_blank_sim (i' : Nat) (n' : NodeM) (r : SwitchR) (hro : M.rOf j = some i')
    (hp : ImplSim M s.nodes n c (postUpTo rows kg j) (outOf st j) i' n' r) (he : cond.blank = true) :
    wp (rowExitBlank i' n' d) s (EdgePost' rows M pd kg tgt cond s st j) := by
  unfold rowExitBlank
  split
  · rename_i hk2; rw [hp.kind'] at hk2; cases hk2
  · rename_i hk2; rw [hp.kind'] at hk2; cases hk2
  unfold updSwitch setDfltM
  wp_simp [wp_getNode, wp_setNode]
  intro n'' hn''
  rw [hp.rnode] at hn''; injection hn'' with hn''; subst hn''
  simp only [hp.router']
  wp_simp [wp_setNode]
  have heb : (newEdge tgt cond j).cond.blank = true := by simpa [toRCond_blank] using he
  have hne : i' ≠ M.nOf j := h.rne j i' hro
  have hext : NExt s.nodes (s.nodes.setIfInBounds i' { n' with router := some (.sw (r.setDflt d)) }) :=
    NExt.set hp.rnode rfl
  refine ⟨M, fun _ => rfl, rfl, rfl, ?_, hext, fun _ _ => rfl⟩
  refine Rel.updateG h (newEdge tgt cond j) rfl hj hc hnode htg i' (by simp [idxs, hro]) hext
    (fun i hi => set_getElem?_other _ _ _ _ hi) rfl rfl rfl rfl (Nat.le_refl _) ?_ ?_
  · refine ⟨n, by rw [set_getElem?_other _ _ _ _ hne.symm]; exact hn, ?_⟩
    rw [hro]
    refine .impl i' { n' with router := some (.sw (r.setDflt d)) } (r.setDflt d) hk
      ⟨hp.kind, hp.router, hp.acts, hp.link, set_getElem?_self _ hp.rnode, hp.kind', hp.acts', rfl, ?_, hp.rname, ?_,
        hp.noResp, ?_, hp.casecat, ?_, ?_, ?_,
        ⟨by rw [tests_action_blank _ _ heb]; exact hp.names.1, hp.names.2⟩⟩
    · rw [show (r.setDflt d).operand = r.operand from rfl, hp.operand]
      unfold implOperand; rw [implVar_append _ _ hp.some]
    · rw [show (r.setDflt d).wait = r.wait from rfl, hp.wait]
      unfold implWait; rw [implVar_append _ _ hp.some]
    · rw [tests_action_blank _ _ heb]; exact hp.cases
    · rw [tests_action_blank _ _ heb]
      exact hp.catd.imp (fun _ _ hd => hd.ext hext)
    · rw [blanks_append_blank _ _ heb, getLast?_append_singleton]
      exact hd.ext hext
    · rw [tests_action_blank _ _ heb]; exact hp.some
  · intro m r' hm hr'
    rw [set_getElem?_self _ hp.rnode] at hm
    injection hm with hm; subst hm
    cases hr'

/-- a further conditional edge leaving an action row: a new case and a new category of the router
node behind it -/
theorem impl_test_sim (i' : Nat) (n' : NodeM) (r : SwitchR) (hro : M.rOf j = some i')
    (hp : ImplSim M s.nodes n c (postUpTo rows kg j) (outOf st j) i' n' r) (he : cond.blank = false)
    (hfreeN : cond.name ≠ [] → cond.name ∉ namesFrom .action (timeoutOf c.row) [] (testsOf .action (outOf st j)) ++
      baseNames .action (timeoutOf c.row))
    (hvar : cond.var = implVar (outOf st j ++ [newEdge tgt cond j]))
    (hdist : ((testsOf .action (outOf st j ++ [newEdge tgt cond j])).map (fun e => refTest .action e.cond)).Nodup) :
    wp (rowExitCond (gOf rows j) [M.nOf j, i'] c.row.type i' n' d cond) s (EdgePost' rows M pd kg tgt cond s st j) := by
  have heb : (newEdge tgt cond j).cond.blank = false := by simpa [toRCond_blank] using he
  have htests := tests_action_append (outOf st j) (newEdge tgt cond j) heb
  rw [htests, List.map_append, List.nodup_append] at hdist
  have hiv : implVar (outOf st j ++ [newEdge tgt cond j]) = implVar (outOf st j) := implVar_append _ _ hp.some
  unfold rowExitCond
  have hnb : n'.kind ≠ NodeKind.basic := by rw [hp.kind']; intro hh; cases hh
  simp only [hnb, if_false, action_not_group hk, action_not_value hk, false_or]
  wp_simp
  unfold nodeAddChoice
  simp only [hp.router']
  wp_simp [wp_setNode]
  have how : (if ¬ cond.var.isEmpty = true then (cond.var, (none : Option Nat)) else ("@input.text".toList, some 0)) =
      (implOperand (outOf st j), implWait (outOf st j)) := ow_impl cond _ (by rw [← hiv]; exact hvar.symm)
  rw [how]
  simp only
  have hstored0 := stored_test_action cond
  generalize hty : (if cond.type.isEmpty = true then "has_any_word".toList else cond.type) = ty at hstored0 ⊢
  have hstored : (ty, (if s.noArgs.contains ty then [] else [some cond.value]).map (·.getD [])) =
      refTest .action (newEdge tgt cond j).cond := by
    rw [h.args]; exact hstored0
  refine addChoice_any r _ ty [some cond.value] cond.name d s ?_ ?_ _ ?_
  · intro k hkm ⟨e1, e2⟩
    have hmem : (k.type, k.args.map (·.getD [])) ∈ r.cases.map (fun k => (k.type, k.args.map (·.getD []))) :=
      List.mem_map_of_mem hkm
    rw [hp.cases] at hmem
    have : (k.type, k.args.map (·.getD [])) = refTest .action (newEdge tgt cond j).cond := by
      rw [← hstored, e1, e2]
    rw [this] at hmem
    exact hdist.2.2 _ hmem _ (by simp) rfl
  · intro hne
    refine catByName_none_of_not_mem r _ ?_
    rw [hp.allNames]; exact hfreeN hne
  · intro _
    wp_simp [wp_setNode]
    have hopne : (implOperand (outOf st j)).isEmpty = false := by
      have := owOf_fst_ne cond
      unfold owOf at this; rw [how] at this; exact this
    have hopd : (if (implOperand (outOf st j)).isEmpty = true then r.operand else implOperand (outOf st j)) = r.operand := by
      rw [hopne, if_neg (by decide : ¬ (false = true)), hp.operand]
    rw [hopd]
    obtain ⟨nm, hnm⟩ : ∃ nm : Str, nm = if cond.name.isEmpty = true
        then genCatName (if (implOperand (outOf st j)).isEmpty = true then r else { r with operand := implOperand (outOf st j) }) [some cond.value]
        else cond.name := ⟨_, rfl⟩
    rw [← hnm]
    have hnm2 : nm = catNameOf .action (timeoutOf c.row)
        (namesFrom .action (timeoutOf c.row) [] (testsOf .action (outOf st j))) (newEdge tgt cond j).cond := by
      rw [hnm]
      unfold catNameOf
      have e0 : (newEdge tgt cond j).cond.name = cond.name := rfl
      rw [e0, genCatName_eq, ← args_action]
      have e1 : (if (implOperand (outOf st j)).isEmpty = true then r else { r with operand := implOperand (outOf st j) }).allCats = r.allCats := by
        split <;> rfl
      rw [e1, hp.allNames]
    obtain ⟨r', hr'⟩ : ∃ r' : SwitchR, r' = { r with
        cats := r.cats ++ [Cat.mk (tid s.next) nm (tid (s.next + 1)) d],
        cases := r.cases ++ [Case.mk (tid (s.next + 2)) ty (if s.noArgs.contains ty = true then [] else [some cond.value]) (tid s.next)] } := ⟨_, rfl⟩
    have hr'' : ({ r with
        operand := r.operand,
        cats := r.cats ++ [{ uid := tid s.next, name := nm,
                             exitUid := tid (s.next + 1), dest := d }],
        cases := r.cases ++ [{ uid := tid (s.next + 2), type := ty,
                               args := if s.noArgs.contains ty = true then [] else [some cond.value], catUid := tid s.next }] } : SwitchR) = r' := by
      rw [hr']
    rw [hr'']
    have hne : i' ≠ M.nOf j := h.rne j i' hro
    have hext : NExt s.nodes (s.nodes.setIfInBounds i' { n' with router := some (.sw r') }) := NExt.set hp.rnode rfl
    refine ⟨M, fun _ => rfl, rfl, rfl, ?_, hext, fun _ _ => rfl⟩
    refine Rel.updateG h (newEdge tgt cond j) rfl hj hc hnode htg i' (by simp [idxs, hro]) hext
      (fun i hi => set_getElem?_other _ _ _ _ hi) rfl rfl rfl rfl (Nat.le_add_right _ _) ?_ ?_
    · refine ⟨n, by rw [set_getElem?_other _ _ _ _ hne.symm]; exact hn, ?_⟩
      rw [hro]
      have fcats : r'.cats = r.cats ++ [{ uid := tid s.next, name := nm, exitUid := tid (s.next + 1), dest := d }] := by
        rw [hr']
      have fcases : r'.cases = r.cases ++ [{ uid := tid (s.next + 2), type := ty, args := if s.noArgs.contains ty = true then [] else [some cond.value], catUid := tid s.next }] := by
        rw [hr']
      have fop : r'.operand = r.operand := by rw [hr']
      have frn : r'.resultName = r.resultName := by rw [hr']
      have fw : r'.wait = r.wait := by rw [hr']
      have fnr : r'.noResp = r.noResp := by rw [hr']
      have fd : r'.dflt = r.dflt := by rw [hr']
      refine .impl i' { n' with router := some (.sw r') } r' hk
        ⟨hp.kind, hp.router, hp.acts, hp.link, set_getElem?_self _ hp.rnode, hp.kind', hp.acts', rfl, ?_, by rw [frn]; exact hp.rname,
          ?_, by rw [fnr]; exact hp.noResp, ?_, ?_, ?_, ?_, ?_, ?_⟩
      rotate_right
      · constructor
        · rw [fcats, htests, namesFrom_append, List.map_append, hp.names.1]
          simp only [List.map_cons, List.map_nil, namesFrom]
          rw [hnm2]
        · rw [fd]; exact hp.names.2
      · rw [fop, hp.operand]; unfold implOperand; rw [hiv]
      · rw [fw, hp.wait]; unfold implWait; rw [hiv]
      · rw [htests, fcases]
        simp only [List.map_append, List.map_cons, List.map_nil, hp.cases]
        rw [hstored]
      · rw [fcases, fcats]; simp only [List.map_append, List.map_cons, List.map_nil, hp.casecat]
      · rw [htests, fcats]
        refine List.rel_append (hp.catd.imp (fun _ _ hd => hd.ext hext)) ?_
        refine List.Forall₂.cons ?_ List.Forall₂.nil
        exact hd.ext hext
      · rw [blanks_append_cond _ _ heb, fd]; exact hp.dflt.ext hext
      · rw [htests]; simp
    · intro m r'' hm hr''
      rw [set_getElem?_self _ hp.rnode] at hm
      injection hm with hm; subst hm
      cases hr''

/-- the state after the router node has been created behind the node of row `j` and has been given
its first case, described by what matters -/
theorem impl_first_post (hro : M.rOf j = none) (hp : PlainSim M s.nodes n c.row.action (postUpTo rows kg j) (outOf st j))
    (he : cond.blank = false)
    (s' : St) (rn0 n2 rn2 : NodeM) (rr : SwitchR) (k0 : Case) (c0 : Cat)
    (hnodes : s'.nodes = ((s.nodes.push rn0).setIfInBounds (M.nOf j) n2).setIfInBounds s.nodes.size rn2)
    (hg' : s'.groups = s.groups.setIfInBounds (gOf rows j) (.row [M.nOf j, s.nodes.size] c.row.type))
    (hst' : s'.stack = s.stack) (hri' : s'.rowIds = s.rowIds) (hna' : s'.noArgs = s.noArgs) (hnm' : s'.names = s.names)
    (hnx : s.next ≤ s'.next)
    (h2u : n2.uid = n.uid) (h2k : n2.kind = n.kind) (h2a : n2.actions = n.actions) (h2r : n2.router = n.router)
    (h2d : n2.dexitDest = Dest.node rn2.uid)
    (hrk : rn2.kind = NodeKind.switch) (hra : rn2.actions = []) (hrr : rn2.router = some (.sw rr))
    (hop : rr.operand = (owOf cond).1) (hwt : rr.wait = (owOf cond).2) (hrn : rr.resultName = none) (hnr : rr.noResp = none)
    (hcases : rr.cases = [k0]) (hcats : rr.cats = [c0]) (hkc : k0.catUid = c0.uid)
    (hk0 : (k0.type, k0.args.map (·.getD [])) = refTest .action (toRCond cond)) (hc0 : c0.dest = d)
    (hdf : rr.dflt.dest = n.dexitDest)
    (hc0n : c0.name = catNameOf .action (timeoutOf c.row) [] (toRCond cond)) (hdn : rr.dflt.name = "Other".toList) :
    EdgePost' rows M pd kg tgt cond s st j ⟨⟩ s' := by
  have heb : (newEdge tgt cond j).cond.blank = false := by simpa [toRCond_blank] using he
  have hg := h.grp j c hj hc hnode.1 (action_not_noop hk)
  rw [hro] at hg
  simp only [Option.toList] at hg
  have hgl : gOf rows j < s.groups.size := (Array.getElem?_eq_some_iff.mp hg).1
  have hnl : M.nOf j < s.nodes.size := (Array.getElem?_eq_some_iff.mp hn).1
  have hvj : Valid rows M pd kg j c := ⟨.inl hj, hc, hnode⟩
  have hn2 : s'.nodes[M.nOf j]? = some n2 := by
    rw [hnodes]
    have h1 : ¬ (s.nodes.size = M.nOf j) := by omega
    have h2 : M.nOf j < s.nodes.size + 1 := by omega
    simp [Array.getElem?_setIfInBounds, Array.size_setIfInBounds, Array.size_push, h1, h2]
  have hrn2 : s'.nodes[s.nodes.size]? = some rn2 := by
    rw [hnodes]
    simp only [Array.getElem?_setIfInBounds, Array.size_setIfInBounds, Array.size_push]
    simp
  have hoth : ∀ k, k ≠ M.nOf j → k ≠ s.nodes.size → s'.nodes[k]? = s.nodes[k]? := by
    intro k hk1 hk2
    rw [hnodes]
    simp only [Array.getElem?_setIfInBounds, Array.size_setIfInBounds, Array.size_push]
    rw [if_neg (fun e => hk2 e.symm), if_neg (fun e => hk1 e.symm), Array.getElem?_push, if_neg hk2]
  obtain ⟨M', hM'⟩ : ∃ M' : Maps, M' = { M with rOf := fun x => if x = j then some s.nodes.size else M.rOf x } := ⟨_, rfl⟩
  have hMn : ∀ t, M'.nOf t = M.nOf t := by intro t; rw [hM']
  have hMel : M'.el = M.el := by rw [hM']
  have hMfr : M'.fr = M.fr := by rw [hM']
  have hvc : ∀ j0 c0', Valid rows M' pd kg j0 c0' → Valid rows M pd kg j0 c0' :=
    fun _ _ hv => ⟨hv.1, hv.2.1, hv.2.2.1, by rw [← hMel]; exact hv.2.2.2⟩
  have hMrj : M'.rOf j = some s.nodes.size := by rw [hM']; simp
  have hMro : ∀ t, t ≠ j → M'.rOf t = M.rOf t := by intro t ht; rw [hM']; simp [ht]
  have hext : NExt s.nodes s'.nodes := by
    intro i m hm
    by_cases hij : i = M.nOf j
    · subst hij; rw [hn] at hm; injection hm with hm; subst hm; exact ⟨n2, hn2, h2u⟩
    · have : i < s.nodes.size := (Array.getElem?_eq_some_iff.mp hm).1
      exact ⟨m, by rw [hoth i hij (by omega)]; exact hm, rfl⟩
  -- arena indices of the other rows are untouched
  have hother : ∀ j0 c0', Valid rows M pd kg j0 c0' → j0 ≠ j → ∀ x ∈ idxs M j0, x ≠ M.nOf j ∧ x ≠ s.nodes.size := by
    intro j0 c0' hv hne x hx
    refine ⟨fun e => hne (h.disj j0 c0' j c hv hvj x hx (by rw [e]; simp [idxs])), ?_⟩
    have := idx_lt rows M pd kg d tgt s st j n c h hj hn hc hnode hk hd htg j0 c0' hv x hx
    omega
  have htests : testsOf .action (outOf st j ++ [newEdge tgt cond j]) = [newEdge tgt cond j] := by
    rw [tests_action_append _ _ heb, tests_action_nil _ hp.blank]; rfl
  have hiv : implVar (outOf st j ++ [newEdge tgt cond j]) = cond.var := implVar_first _ _ hp.blank heb
  have how := ow_impl cond (outOf st j ++ [newEdge tgt cond j]) hiv
  refine ⟨M', hMn, hMel, hMfr, ?_, hext, fun g0 hg0 => by rw [hg', Array.getElem?_setIfInBounds, if_neg (fun e => hg0 e.symm)]⟩
  refine ⟨by rw [hg']; simpa using h.gsize, ?_, ?_, ?_, by rw [hMel]; exact h.elno, by rw [hMel, hMfr]; exact h.frel, ?_,
    by rw [hst']; exact h.stack, by rw [hri']; exact h.ids, h.idok, h.prev,
    ?_, ?_, by rw [hna']; exact h.args, ?_, ?_, ?_, ?_, ?_, ?_,
    by rw [hnm']; exact h.names.congr (fun i _ _ _ _ _ => hMn i)⟩
  · rw [hg', Array.getElem?_setIfInBounds]
    have := gOf_pos rows j
    rw [if_neg (by omega)]; exact h.root
  · intro j0 c0' hj0 hc0' hn0 hnn0
    rw [hg', Array.getElem?_setIfInBounds]
    by_cases hjj : j0 = j
    · subst hjj
      rw [hc] at hc0'; injection hc0' with hc0'; subst hc0'
      simp [hgl, hMn, hMrj]
    · have hne : gOf rows j ≠ gOf rows j0 := by
        rcases Nat.lt_or_gt_of_ne hjj with h1 | h1
        · have := gOf_lt rows h1 hc0' hn0; omega
        · have := gOf_lt rows h1 hc hnode.1; omega
      rw [if_neg hne, hMn, hMro j0 hjj]
      exact h.grp j0 c0' hj0 hc0' hn0 hnn0
  · intro j0 c0' hj0 hc0' hnn0
    have hjj : j0 ≠ j := by
      intro e; subst e
      rw [hc] at hc0'; injection hc0' with hc0'; subst hc0'
      rw [action_not_noop hk] at hnn0; cases hnn0
    have hn0 : isNodeRow c0' = true := isNodeRow_of_noop hnn0
    have hne : gOf rows j ≠ gOf rows j0 := by
      rcases Nat.lt_or_gt_of_ne hjj with h1 | h1
      · have := gOf_lt rows h1 hc0' hn0; omega
      · have := gOf_lt rows h1 hc hnode.1; omega
    rw [hg', Array.getElem?_setIfInBounds, if_neg hne, hMel, hMn]
    exact h.grpN j0 c0' hj0 hc0' hnn0
  · intro o ho t ht
    simp only [List.mem_cons] at ho
    rw [hMfr]
    rcases ho with rfl | ho
    · exact (htg t ht).2
    · exact h.tgtfr o ho t ht
  · intro o ho
    simp only [List.mem_cons] at ho
    rcases ho with rfl | ho
    · exact ⟨hj, c, hc, hnode.1⟩
    · exact h.srcok o ho
  · intro o ho t ht
    simp only [List.mem_cons] at ho
    rcases ho with rfl | ho
    · exact (htg t ht).1
    · exact h.tgtok o ho t ht
  · intro j0 c0' hv
    by_cases hjj : j0 = j
    · subst hjj
      have : c0' = c := by have := hv.2.1; rw [hc] at this; injection this with this; exact this.symm
      subst this
      refine ⟨n2, by rw [hMn]; exact hn2, ?_⟩
      have e1 := outOf_cons_same st (newEdge tgt cond j0)
      rw [e1, hMrj]
      refine .impl s.nodes.size rn2 rr hk ⟨by rw [h2k]; exact hp.kind, by rw [h2r]; exact hp.router,
        by rw [h2a]; exact hp.acts, h2d, hrn2, hrk, hra, hrr, ?_, hrn, ?_, hnr, ?_, ?_, ?_, ?_, ?_,
        ⟨by rw [hcats, htests]; simp only [List.map_cons, List.map_nil, namesFrom]; rw [hc0n]; rfl, hdn⟩⟩
      · rw [hop, how]
      · rw [hwt, how]
      · rw [hcases, htests]
        simp only [List.map_cons, List.map_nil]
        rw [hk0]
      · rw [hcases, hcats]; simp [hkc]
      · rw [hcats, htests]
        refine List.Forall₂.cons ?_ List.Forall₂.nil
        rw [hc0]
        exact (hd.ext hext).congrN hMn
      · rw [blanks_append_cond _ _ heb, hdf]
        have : (outOf st j0).filter (·.cond.blank) = outOf st j0 := by
          rw [List.filter_eq_self]; exact hp.blank
        rw [this]
        exact (hp.dest.ext hext).congrN hMn
      · rw [htests]; simp
    · obtain ⟨m, hm, hsim⟩ := h.node j0 c0' (hvc _ _ hv)
      have ho := hother j0 c0' (hvc _ _ hv) hjj
      refine ⟨m, by rw [hMn, hoth _ (ho _ (by simp [idxs])).1 (ho _ (by simp [idxs])).2]; exact hm, ?_⟩
      rw [outOf_cons_other st (newEdge tgt cond j) j0 (fun e1 => hjj e1.symm), hMro j0 hjj]
      refine (hsim.transfer hext ?_).congrN hMn
      intro i hi
      have := ho i (by simp only [idxs, List.mem_cons]; exact .inr hi)
      exact hoth i this.1 this.2
  · -- arena indices stay apart
    have hidx : ∀ j0, idxs M' j0 = if j0 = j then [M.nOf j, s.nodes.size] else idxs M j0 := by
      intro j0
      by_cases hjj : j0 = j
      · subst hjj; simp [idxs, hMn, hMrj]
      · simp [idxs, hMn, hMro j0 hjj, hjj]
    intro j1 c1 j2 c2 hv1 hv2 x hx1 hx2
    rw [hidx] at hx1 hx2
    by_cases h1 : j1 = j
    · by_cases h2 : j2 = j
      · rw [h1, h2]
      · exfalso
        rw [if_pos h1] at hx1; rw [if_neg h2] at hx2
        have := hother j2 c2 (hvc _ _ hv2) h2 x hx2
        simp only [List.mem_cons, List.not_mem_nil, or_false] at hx1
        rcases hx1 with e | e
        · exact this.1 e
        · exact this.2 e
    · by_cases h2 : j2 = j
      · exfalso
        rw [if_neg h1] at hx1; rw [if_pos h2] at hx2
        have := hother j1 c1 (hvc _ _ hv1) h1 x hx1
        simp only [List.mem_cons, List.not_mem_nil, or_false] at hx2
        rcases hx2 with e | e
        · exact this.1 e
        · exact this.2 e
      · rw [if_neg h1] at hx1; rw [if_neg h2] at hx2
        exact h.disj j1 c1 j2 c2 (hvc _ _ hv1) (hvc _ _ hv2) x hx1 hx2
  · intro j1 i' hi'
    by_cases h1 : j1 = j
    · subst h1; rw [hMrj] at hi'; injection hi' with hi'; rw [← hi', hMn]; omega
    · rw [hMro j1 h1] at hi'; rw [hMn]; exact h.rne j1 i' hi'
  · intro j1 hj1
    rw [hMro j1 (by omega)]; exact h.rnone j1 hj1
  · intro j1 c1 hc1 hn1
    have : j1 ≠ j := by
      intro e; subst e
      rw [hc] at hc1; injection hc1 with hc1; subst hc1
      rw [action_not_noop hk] at hn1; cases hn1
    rw [hMro j1 this]; exact h.rnoop j1 c1 hc1 hn1
  · intro i m r hm hr cat hcat
    by_cases hi1 : i = M.nOf j
    · subst hi1; rw [hn2] at hm; injection hm with hm; subst hm
      rw [h2r, hp.router] at hr; cases hr
    · by_cases hi2 : i = s.nodes.size
      · subst hi2; rw [hrn2] at hm; injection hm with hm; subst hm
        rw [hrr] at hr; cases hr
      · rw [hoth i hi1 hi2] at hm
        obtain ⟨k, hk', e⟩ := h.rfresh i m r hm hr cat hcat
        exact ⟨k, by omega, e⟩

/-- the first conditional edge leaving an action row: a router node is created behind the row's node,
inherits its unconditional exit, and gets the first case -/
theorem impl_first_sim (hro : M.rOf j = none) (hp : PlainSim M s.nodes n c.row.action (postUpTo rows kg j) (outOf st j))
    (he : cond.blank = false)
    (hfreeN : cond.name ≠ [] → cond.name ∉ namesFrom .action (timeoutOf c.row) [] (testsOf .action (outOf st j)) ++
      baseNames .action (timeoutOf c.row)) :
    wp (rowExitCond (gOf rows j) [M.nOf j] c.row.type (M.nOf j) n d cond) s (EdgePost' rows M pd kg tgt cond s st j) := by
  have hnl : M.nOf j < s.nodes.size := (Array.getElem?_eq_some_iff.mp hn).1
  have post := impl_first_post rows M pd kg d tgt cond s st j n c h hj hn hc hnode hk hd htg hro hp he
  unfold rowExitCond
  simp only [hp.kind, if_true, action_not_group hk, action_not_value hk, false_or, if_false]
  have how : (if ¬ cond.var.isEmpty = true then (cond.var, (none : Option Nat)) else ("@input.text".toList, some 0)) = owOf cond := rfl
  rw [how]
  obtain ⟨op, w, how2, hopne, hw⟩ := owOf_cases cond
  rw [how2] at post ⊢
  simp only at post ⊢
  wp_simp
  unfold routerBehind
  wp_simp [wp_fresh']
  refine ⟨fun _ => trivial, fun _ => ?_⟩
  have hsw : ∀ Q, wp (newSwitch op none w) { s with next := s.next + 1 } Q ↔
      Q { operand := op, cases := [], cats := [],
          dflt := { uid := tid (s.next + 1), name := "Other".toList, exitUid := tid (s.next + 1 + 1), dest := .none },
          noResp := none, wait := w, resultName := none } { s with next := s.next + 1 + 2 } := by
    intro Q
    rw [wp_newSwitch]
    rcases hw with rfl | rfl <;> rfl
  rw [hsw]
  rw [wp_newRouterNode]
  unfold attachRowNode
  wp_simp [wp_addNode, wp_setGrp, wp_setNode]
  unfold nodeAddChoice
  simp only [SwitchR.setDflt]
  wp_simp
  have hstored0 := stored_test_action cond
  generalize hty : (if cond.type.isEmpty = true then "has_any_word".toList else cond.type) = ty at hstored0 ⊢
  have hfreeN' : cond.name ≠ [] → cond.name ∉ ["Other".toList] := by
    intro hne
    have := hfreeN hne
    rw [tests_action_nil _ hp.blank, baseNames_action] at this
    exact this
  refine addChoice_any _ op ty [some cond.value] cond.name d _ (by intro k hk; cases hk) ?_ _ ?_
  · intro hne
    exact catByName_none_of_not_mem _ _ (hfreeN' hne)
  intro _
  wp_simp [wp_setNode]
  simp only [hopne, Bool.false_eq_true, if_false]
  refine post _ _ _ _ _ _ _ rfl rfl rfl rfl rfl rfl (by simp only []; omega) rfl rfl rfl rfl rfl rfl rfl rfl rfl rfl rfl rfl
    rfl rfl rfl ?_ rfl rfl ?_ rfl
  · simp only [List.nil_append]
    rw [h.args]; exact hstored0
  · show (if cond.name.isEmpty = true then genCatName _ [some cond.value] else cond.name) = _
    unfold catNameOf
    have e0 : (toRCond cond).name = cond.name := rfl
    rw [e0, genCatName_eq, ← args_action, baseNames_action]
    rfl

end
end Rpft.CoreSheet
