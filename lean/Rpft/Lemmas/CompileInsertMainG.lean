/-
Assembly, part G: the side conditions on the runs follow from conditions on the events.
-/
import Rpft.Lemmas.CompileInsertMainF
import Rpft.Lemmas.CompileInsertFrame2
set_option linter.unusedVariables false
set_option linter.unusedSimpArgs false
namespace Rpft.Compile
open Rpft Function

/-- the row ids the rows after the block must not use: the block's own and those of the template -/
def hidden (r : Row) (body : List Event) : List Str := r.rowId :: defsL body

/-- **the insert row and its twin block compile to the same nodes up to an injective renaming of
identifiers** (hypotheses on the events only) -/
theorem insert_twin_nodes' (na nt : List Str) (pre post rest : List Event) (r r₁ : Row)
    (he : EntryRow r₁) (hns : noStartL rest = true) (hnn : noNamesL rest = true)
    (hid : okIdsL (pre ++ [.insert r (.row r₁ :: rest)] ++ post) = true)
    (hbal : opens pre = closes pre)
    (hav : avoids (hidden r (.row r₁ :: rest)) true 0 post = true)
    {o₁ o₂ : Out}
    (h₁ : compile na nt (pre ++ [.insert r (.row r₁ :: rest)] ++ post) = .ok o₁)
    (h₂ : compile na nt (pre ++ twin r (.row r₁ :: rest) ++ post) = .ok o₂) :
    ∃ ρ : Uid → Uid, Injective ρ ∧ o₂.nodes = o₁.nodes.map (rnNode ρ) := by
  refine insert_twin_nodes false na nt pre post rest r r₁ he hns hnn hid (fun _ s₀ h => top_of_balanced h hbal)
    (hidden r (.row r₁ :: rest)) (fun _ => .inr (List.mem_cons_self ..)) (fun h => Bool.noConfusion h)
    (fun h => Bool.noConfusion h) ?_ (fun s₀ h => names_valid_run h) ?_ (fun _ => hav) (fun h => Bool.noConfusion h) h₁ h₂
  · intro s₀ v _ h p hp
    exact List.mem_cons_of_mem _ (nested_keys h p hp)
  · intro s₀ o₂ b₂ _ hO hT x hx
    have e1 := (wp_of_run (openGroup_eff r.edges false s₀) hO).1.nm rfl x hx
    have he' := entryRow_retarget he
    have hn : noNamesL (.row (retargetRow r₁) :: rest) = true := by
      have a1 : (retargetRow r₁).nodeUuid = [] := he'.2.2.2.2.2.2.2.1
      have a2 : (retargetRow r₁).nodeName = [] := he'.2.2.2.2.2.2.2.2
      simp only [noNamesL, List.all_cons, Event.noNames, a1, a2, List.isEmpty_nil, Bool.and_self, Bool.true_and]
      exact hnn
    have e2 := (wp_of_run (steps_eff _ o₂) hT).1.nm hn x hx
    rw [e2, e1]

/-- the rows leading into the twin block have no unconnected exit left once the template's first
row is read: the begin row's `no_op` group (first child of the open block) has row groups as parents,
all of whose nodes have no loose exit (and, if basic, a connected default exit) -/
def TightAt (a₂ : St) : Prop := ∃ b, a₂.stack.head? = some b ∧ Inert (b + 1) a₂

/-- **…and so do sheets that CONTINUE from the inserted block** (a later row with a blank `from`
right after the block, or naming the block's row id; any number of them) — the insert row at ANY
block depth — provided no row leading into the block has an unconnected exit left (`TightAt`, on the
run of the twin up to the template's first row — without it F-C03-a separates the two) and no later
row is a `loose_exit` row -/
theorem insert_twin_nodes_open (na nt : List Str) (pre post rest : List Event) (r r₁ : Row)
    (he : EntryRow r₁) (hns : noStartL rest = true) (hnn : noNamesL rest = true)
    (hid : okIdsL (pre ++ [.insert r (.row r₁ :: rest)] ++ post) = true)
    (htight : ∀ a₂, (steps (pre ++ [.openGroup r.edges false, .row (retargetRow r₁)])).run (initSt na nt) =
      .ok ((), a₂) → TightAt a₂)
    (hnl : noLooseL post = true)
    (hav : avoidsOpen (defsL (.row r₁ :: rest)) post = true)
    {o₁ o₂ : Out}
    (h₁ : compile na nt (pre ++ [.insert r (.row r₁ :: rest)] ++ post) = .ok o₁)
    (h₂ : compile na nt (pre ++ twin r (.row r₁ :: rest) ++ post) = .ok o₂) :
    ∃ ρ : Uid → Uid, Injective ρ ∧ o₂.nodes = o₁.nodes.map (rnNode ρ) := by
  refine insert_twin_nodes true na nt pre post rest r r₁ he hns hnn hid (fun h => Bool.noConfusion h)
    (defsL (.row r₁ :: rest)) (fun h => Bool.noConfusion h) ?_ (fun _ => hnl) ?_ (fun s₀ h => names_valid_run h) ?_
    (fun h => Bool.noConfusion h) (fun _ => hav) h₁ h₂
  · intro _ s₀ o₂ a₂ hp hO hF
    have hrun : (steps (pre ++ [.openGroup r.edges false, .row (retargetRow r₁)])).run (initSt na nt) = .ok ((), a₂) := by
      rw [steps_append, run_bind_of hp]
      exact run_steps_cons_of (by unfold step; exact hO) (run_steps_cons_of hF (run_steps_nil_of a₂))
    obtain ⟨b, hb, hin⟩ := htight a₂ hrun
    -- the open block is the one just created
    have hidp : okIdsL pre = true := by
      have : okIdsL pre = true ∧ okIdsL ([.insert r (.row r₁ :: rest)] ++ post) = true := by
        rw [List.append_assoc, okIdsL_append] at hid
        exact Bool.and_eq_true_iff.mp hid
      exact this.1
    have hgd := good_run hidp hp
    obtain ⟨ps, _, rfl⟩ := wp_of_run (openGroup_twin s₀ (fun b hb => hgd.sb.lt hb) r.edges) hO
    have hst : a₂.stack = s₀.groups.size :: s₀.stack := by
      have e := (wp_of_run (parseRow_eff (retargetRow r₁) (twO s₀ ps)) (by unfold step at hF; exact hF)).2
      rw [e]; rfl
    rw [hst] at hb
    injection hb with hb
    subst hb
    exact hin
  · intro s₀ v _ h p hp
    exact nested_keys h p hp
  · intro s₀ o₂ b₂ _ hO hT x hx
    have e1 := (wp_of_run (openGroup_eff r.edges false s₀) hO).1.nm rfl x hx
    have he' := entryRow_retarget he
    have hn : noNamesL (.row (retargetRow r₁) :: rest) = true := by
      have a1 : (retargetRow r₁).nodeUuid = [] := he'.2.2.2.2.2.2.2.1
      have a2 : (retargetRow r₁).nodeName = [] := he'.2.2.2.2.2.2.2.2
      simp only [noNamesL, List.all_cons, Event.noNames, a1, a2, List.isEmpty_nil, Bool.and_self, Bool.true_and]
      exact hnn
    have e2 := (wp_of_run (steps_eff _ o₂) hT).1.nm hn x hx
    rw [e2, e1]

end Rpft.Compile
