/-
Assembly, part G: the side conditions on the runs follow from conditions on the events.
-/
import Rpft.Lemmas.CompileInsertMainF
import Rpft.Lemmas.CompileInsertFrame2
set_option linter.unusedVariables false
set_option linter.unusedSimpArgs false
namespace Rpft.Compile
open Rpft Function

/-- the row ids the rows after the block must not use: the block's own and those of the template -/
def hidden (r : Row) (body : List Event) : List Str := r.rowId :: defsL body

/-- **the insert row and its twin block compile to the same nodes up to an injective renaming of
identifiers** (hypotheses on the events only) -/
theorem insert_twin_nodes' (na nt : List Str) (pre post rest : List Event) (r r₁ : Row)
    (he : EntryRow r₁) (hns : noStartL rest = true) (hnn : noNamesL rest = true)
    (hid : okIdsL (pre ++ [.insert r (.row r₁ :: rest)] ++ post) = true)
    (hbal : opens pre = closes pre)
    (hav : avoids (hidden r (.row r₁ :: rest)) true 0 post = true)
    {o₁ o₂ : Out}
    (h₁ : compile na nt (pre ++ [.insert r (.row r₁ :: rest)] ++ post) = .ok o₁)
    (h₂ : compile na nt (pre ++ twin r (.row r₁ :: rest) ++ post) = .ok o₂) :
    ∃ ρ : Uid → Uid, Injective ρ ∧ o₂.nodes = o₁.nodes.map (rnNode ρ) := by
  refine insert_twin_nodes na nt pre post rest r r₁ he hns hnn hid (fun s₀ h => top_of_balanced h hbal)
    (hidden r (.row r₁ :: rest)) (.inr (List.mem_cons_self ..)) ?_ (fun s₀ h => names_valid_run h) ?_ hav h₁ h₂
  · intro s₀ v _ h p hp
    exact List.mem_cons_of_mem _ (nested_keys h p hp)
  · intro s₀ o₂ b₂ _ hO hT x hx
    have e1 := (wp_of_run (openGroup_eff r.edges false s₀) hO).1.nm rfl x hx
    have he' := entryRow_retarget he
    have hn : noNamesL (.row (retargetRow r₁) :: rest) = true := by
      have a1 : (retargetRow r₁).nodeUuid = [] := he'.2.2.2.2.2.2.2.1
      have a2 : (retargetRow r₁).nodeName = [] := he'.2.2.2.2.2.2.2.2
      simp only [noNamesL, List.all_cons, Event.noNames, a1, a2, List.isEmpty_nil, Bool.and_self, Bool.true_and]
      exact hnn
    have e2 := (wp_of_run (steps_eff _ o₂) hT).1.nm hn x hx
    rw [e2, e1]

end Rpft.Compile
