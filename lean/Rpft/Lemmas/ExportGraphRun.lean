/-
Helper lemmas for C04 (graph level): the DFS of `_to_rows_recurse` as an inductive big-step
relation `Run` over a SKELETON of the sheet (`Item`s: one `block` per completed node with the
incoming edges of its first row, one `goto` per backward edge), and the bridge
`dfs … = .ok st' → Run …` (`dfs_run`).  All graph-level facts (Lemmas/ExportGraph*.lean) are
proved by induction on `Run`.
-/
import Rpft.ExportGraph
import Rpft.Lemmas.ExportFuel
set_option linter.unusedSimpArgs false
set_option linter.unusedVariables false
set_option linter.unusedSectionVars false
namespace Rpft.Export
open Function

variable {U : Type} [DecidableEq U]

/-- `n` is the node `find_node` returns for its own uuid (the first node with that uuid) -/
def Canon (f : FlowX U) (n : NodeX U) : Prop := findNode f n.uuid = some n

theorem findNode_uuid {f : FlowX U} {d : U} {c : NodeX U} (h : findNode f d = some c) : c.uuid = d := by
  have := List.find?_some h
  simpa using this

theorem findNode_canon {f : FlowX U} {d : U} {c : NodeX U} (h : findNode f d = some c) : Canon f c := by
  unfold Canon
  rw [findNode_uuid h]; exact h

theorem Canon.eq {f : FlowX U} {n m : NodeX U} (hn : Canon f n) (hm : Canon f m) (h : n.uuid = m.uuid) : n = m := by
  unfold Canon at hn hm
  rw [h] at hn
  rw [hn] at hm
  exact Option.some.inj hm

theorem canon_head (n0 : NodeX U) (f : FlowX U) : Canon (n0 :: f) n0 := by
  simp [Canon, findNode]

/-- temp id of the first / last row of a node -/
def firstId (n : NodeX U) : TempId U := rowId n 0
def lastId (n : NodeX U) : TempId U := rowId n (n.rows.length - 1)

/-- skeleton of the sheet -/
inductive Item (U : Type) where
  | goto (k : Nat) (c : NodeX U) (e : EdgeT U)
  | block (n : NodeX U) (es : List (EdgeT U))

/-- the rows of a node whose first row has the incoming edges `es` -/
def blockRows (n : NodeX U) (es : List (EdgeT U)) : List (RowT U) :=
  match n.rows with
  | [] => []
  | (p, o) :: rest =>
    { id := rowId n 0, nodeId := some n.uuid, objId := o, payload := p, edges := es, goto := [] }
      :: mkRowsFrom n 1 ⟨some (rowId n 0), blankLabel⟩ rest

def Item.render : Item U → List (RowT U)
  | .goto k c e => [gotoRow k c e]
  | .block n es => blockRows n es

def renderAll (items : List (Item U)) : List (RowT U) := items.flatMap Item.render

def Item.blockNode? : Item U → Option (NodeX U)
  | .block n _ => some n
  | .goto .. => none

/-- the completed nodes, in sheet order -/
def blockNodes (items : List (Item U)) : List (NodeX U) := items.filterMap Item.blockNode?
def blockUuids (items : List (Item U)) : List U := (blockNodes items).map (·.uuid)

/-- `prepend_edge_to_row_models` on the skeleton -/
def prependItem (cu : U) (e : EdgeT U) : Item U → Item U
  | .block n es => if n.uuid = cu then .block n (e :: es) else .block n es
  | .goto k c e' => .goto k c e'

theorem mkRows_eq_blockRows (n : NodeX U) (pe : EdgeT U) : mkRows n pe = blockRows n [pe] := by
  unfold mkRows blockRows
  cases n.rows with
  | nil => rfl
  | cons x rest => obtain ⟨p, o⟩ := x; rfl

theorem rowId_fst (n : NodeX U) (i : Nat) : (rowId n i).1 = .inl n.uuid := rfl

theorem rowId_eq_uuid {n m : NodeX U} {i j : Nat} (h : rowId n i = rowId m j) : n.uuid = m.uuid := by
  have := congrArg Prod.fst h
  simpa [rowId] using this

theorem prependEdge_mkRowsFrom_ne (n : NodeX U) (tid : TempId U) (e : EdgeT U) (rs : List (Payload × Option U)) :
    ∀ (i : Nat) (pe : EdgeT U), (∀ j, i ≤ j → rowId n j ≠ tid) →
      prependEdge tid e (mkRowsFrom n i pe rs) = mkRowsFrom n i pe rs := by
  induction rs with
  | nil => intro i pe _; rfl
  | cons x rs ih =>
    intro i pe h
    obtain ⟨p, o⟩ := x
    have ih' := ih (i + 1) ⟨some (rowId n i), blankLabel⟩ (fun j hj => h j (by omega))
    simp only [prependEdge] at ih' ⊢
    simp only [mkRowsFrom, List.map_cons, h i (Nat.le_refl _), if_false, ih']

theorem prependEdge_append (tid : TempId U) (e : EdgeT U) (a b : List (RowT U)) :
    prependEdge tid e (a ++ b) = prependEdge tid e a ++ prependEdge tid e b := by
  simp [prependEdge]

/-- `prependEdge` on a rendered skeleton = `prependItem` on the skeleton -/
theorem prependEdge_render (c : NodeX U) (e : EdgeT U) (items : List (Item U))
    (h : ∀ n es, Item.block n es ∈ items → n.uuid = c.uuid → n = c) :
    prependEdge (rowId c 0) e (renderAll items) = renderAll (items.map (prependItem c.uuid e)) := by
  induction items with
  | nil => rfl
  | cons it items ih =>
    have ih' := ih (fun n es hm => h n es (List.mem_cons_of_mem _ hm))
    simp only [renderAll, List.flatMap_cons, List.map_cons] at ih' ⊢
    rw [prependEdge_append, ih']
    congr 1
    cases it with
    | goto k c' e' =>
      simp [Item.render, prependItem, prependEdge, gotoRow, rowId]
    | block n es =>
      simp only [Item.render, prependItem]
      by_cases hu : n.uuid = c.uuid
      · have hn := h n es (List.mem_cons_self ..) hu
        subst hn
        simp only [if_true, Item.render, blockRows]
        cases hr : n.rows with
        | nil => rfl
        | cons x rest =>
          obtain ⟨p, o⟩ := x
          simp only []
          have := prependEdge_mkRowsFrom_ne n (rowId n 0) e rest 1 ⟨some (rowId n 0), blankLabel⟩
            (fun j hj he => by have := rowId_inj n he; omega)
          simp only [prependEdge] at this ⊢
          simp only [List.map_cons, if_true, this]
      · simp only [hu, if_false, Item.render, blockRows]
        cases hr : n.rows with
        | nil => rfl
        | cons x rest =>
          obtain ⟨p, o⟩ := x
          simp only []
          have hne : ∀ j, rowId n j ≠ rowId c 0 := fun j he => hu (rowId_eq_uuid he)
          have := prependEdge_mkRowsFrom_ne n (rowId c 0) e rest 1 ⟨some (rowId n 0), blankLabel⟩ (fun j _ => hne j)
          simp only [prependEdge] at this ⊢
          simp only [List.map_cons, hne 0, if_false, this]

/-! ### the DFS as a relation -/

inductive Task (U : Type) where
  | loop (n : NodeX U) (es : List (Label × Option U))
  | node (n : NodeX U) (pe : EdgeT U)

/-- Big-step relation of `_to_rows_recurse` on `(visited, skeleton)`.  `D` is an extra premise of the
"edge to a completed node" branch (`True` for the real exporter). -/
inductive Run (f : FlowX U) (D : List (Item U) → NodeX U → NodeX U → Label → Prop) :
    Task U → List U → List (Item U) → List U → List (Item U) → Prop
  | nil {n vis items} : Run f D (.loop n []) vis items vis items
  | skip {n lab es vis items vis' items'} :
      Run f D (.loop n es) vis items vis' items' →
      Run f D (.loop n ((lab, none) :: es)) vis items vis' items'
  | done {n lab d es c vis items vis' items'} :
      findNode f d = some c → c.uuid ∈ blockUuids items → D items n c lab →
      Run f D (.loop n es) vis (items.map (prependItem c.uuid ⟨some (lastId n), lab⟩)) vis' items' →
      Run f D (.loop n ((lab, some d) :: es)) vis items vis' items'
  | back {n lab d es c k vis items vis' items'} :
      findNode f d = some c → c.uuid ∉ blockUuids items → c.uuid ∈ vis →
      Run f D (.loop n es) vis (.goto k c ⟨some (lastId n), lab⟩ :: items) vis' items' →
      Run f D (.loop n ((lab, some d) :: es)) vis items vis' items'
  | new {n lab d es c vis items vis1 items1 vis' items'} :
      findNode f d = some c → c.uuid ∉ blockUuids items → c.uuid ∉ vis →
      Run f D (.node c ⟨some (lastId n), lab⟩) vis items vis1 items1 →
      Run f D (.loop n es) vis1 items1 vis' items' →
      Run f D (.loop n ((lab, some d) :: es)) vis items vis' items'
  | node {n pe vis items vis' items'} :
      n.rows ≠ [] →
      Run f D (.loop n n.edges.reverse) (n.uuid :: vis) items vis' items' →
      Run f D (.node n pe) vis items vis' (.block n [pe] :: items')

def DTrue : List (Item U) → NodeX U → NodeX U → Label → Prop := fun _ _ _ _ => True

/-- bridge invariant between the exporter state and the skeleton -/
structure Bridge (f : FlowX U) (st : St U) (items : List (Item U)) : Prop where
  rows : st.rows = renderAll items
  comp : st.completed = blockUuids items
  canon : ∀ n es, Item.block n es ∈ items → Canon f n

theorem blockNode?_prepend (cu : U) (e : EdgeT U) (it : Item U) :
    (prependItem cu e it).blockNode? = it.blockNode? := by
  cases it with
  | goto k c e' => rfl
  | block n es => simp only [prependItem]; split <;> rfl

theorem blockNodes_map_prepend (cu : U) (e : EdgeT U) (items : List (Item U)) :
    blockNodes (items.map (prependItem cu e)) = blockNodes items := by
  simp only [blockNodes, List.filterMap_map]
  congr 1
  funext it
  exact blockNode?_prepend cu e it

theorem blockUuids_map_prepend (cu : U) (e : EdgeT U) (items : List (Item U)) :
    blockUuids (items.map (prependItem cu e)) = blockUuids items := by
  simp only [blockUuids, blockNodes_map_prepend]

theorem mem_map_prepend {cu : U} {e : EdgeT U} {items : List (Item U)} {n : NodeX U} {es : List (EdgeT U)}
    (h : Item.block n es ∈ items.map (prependItem cu e)) : ∃ es0, Item.block n es0 ∈ items := by
  obtain ⟨it, hit, he⟩ := List.mem_map.1 h
  cases it with
  | goto k c e' => simp [prependItem] at he
  | block m es0 =>
    simp only [prependItem] at he
    split at he
    · injection he with h1 h2; subst h1; exact ⟨es0, hit⟩
    · injection he with h1 h2; subst h1; exact ⟨es0, hit⟩

theorem loop_run (f : FlowX U) (rc : NodeX U → EdgeT U → St U → Except Err (St U))
    (hrc : ∀ c e s its s', Canon f c → Bridge f s its → rc c e s = .ok s' →
      ∃ its', Run f DTrue (.node c e) s.visited its s'.visited its' ∧ Bridge f s' its')
    (n : NodeX U) (es : List (Label × Option U)) :
    ∀ st items st', Bridge f st items → loop f rc (lastId n) es st = .ok st' →
      ∃ items', Run f DTrue (.loop n es) st.visited items st'.visited items' ∧ Bridge f st' items' := by
  induction es with
  | nil =>
    intro st items st' hb h
    simp only [loop] at h
    cases h
    exact ⟨items, .nil, hb⟩
  | cons le es ih =>
    intro st items st' hb h
    obtain ⟨lab, d⟩ := le
    cases d with
    | none =>
      obtain ⟨items', hr, hb'⟩ := ih st items st' hb (by simpa [loop] using h)
      exact ⟨items', .skip hr, hb'⟩
    | some d =>
      simp only [loop] at h
      cases hfn : findNode f d with
      | none => simp [hfn] at h
      | some child =>
        simp only [hfn] at h
        have hcc := findNode_canon hfn
        by_cases h1 : child.uuid ∈ st.completed
        · simp only [h1, if_true] at h
          have hb1 : Bridge f { st with rows := prependEdge (rowId child 0) ⟨some (lastId n), lab⟩ st.rows }
              (items.map (prependItem child.uuid ⟨some (lastId n), lab⟩)) := by
            refine ⟨?_, ?_, ?_⟩
            · simp only [hb.rows]
              exact prependEdge_render child _ items (fun m es hm hu => Canon.eq (hb.canon m es hm) hcc hu)
            · simp only [hb.comp, blockUuids_map_prepend]
            · intro m es hm
              obtain ⟨es0, h0⟩ := mem_map_prepend hm
              exact hb.canon m es0 h0
          obtain ⟨items', hr, hb'⟩ := ih _ _ st' hb1 h
          exact ⟨items', .done hfn (hb.comp ▸ h1) trivial hr, hb'⟩
        · simp only [h1, if_false] at h
          by_cases h2 : child.uuid ∈ st.visited
          · simp only [h2, if_true] at h
            have hb1 : Bridge f { st with rows := gotoRow st.fresh child ⟨some (lastId n), lab⟩ :: st.rows, fresh := st.fresh + 1 }
                (.goto st.fresh child ⟨some (lastId n), lab⟩ :: items) := by
              refine ⟨?_, ?_, ?_⟩
              · simp only [hb.rows, renderAll, List.flatMap_cons, Item.render]; rfl
              · simp only [hb.comp, blockUuids, blockNodes, List.filterMap_cons, Item.blockNode?]
              · intro m es hm
                cases hm with
                | tail _ hm => exact hb.canon m es hm
            obtain ⟨items', hr, hb'⟩ := ih _ _ st' hb1 h
            exact ⟨items', .back hfn (hb.comp ▸ h1) h2 hr, hb'⟩
          · simp only [h2, if_false] at h
            cases hr : rc child ⟨some (lastId n), lab⟩ st with
            | error e => simp [hr] at h
            | ok s1 =>
              simp only [hr] at h
              obtain ⟨its1, r1, b1⟩ := hrc child _ st items s1 hcc hb hr
              obtain ⟨items', r2, hb'⟩ := ih s1 its1 st' b1 h
              exact ⟨items', .new hfn (hb.comp ▸ h1) h2 r1 r2, hb'⟩

theorem dfs_run (f : FlowX U) (fuel : Nat) :
    ∀ (n : NodeX U) (pe : EdgeT U) (st : St U) (items : List (Item U)) (st' : St U), Canon f n → Bridge f st items →
      dfs f fuel n pe st = .ok st' →
      ∃ items', Run f DTrue (.node n pe) st.visited items st'.visited items' ∧ Bridge f st' items' := by
  induction fuel with
  | zero => intro n pe st items st' _ _ h; simp [dfs] at h
  | succ fuel ih =>
    intro n pe st items st' hc hb h
    simp only [dfs] at h
    by_cases hr : n.rows = []
    · simp [hr] at h
    · simp only [hr, if_false] at h
      cases hl : loop f (dfs f fuel) (rowId n (n.rows.length - 1)) n.edges.reverse { st with visited := n.uuid :: st.visited } with
      | error e => simp [hl] at h
      | ok st2 =>
        simp only [hl] at h
        cases h
        have hb1 : Bridge f { st with visited := n.uuid :: st.visited } items := ⟨hb.rows, hb.comp, hb.canon⟩
        obtain ⟨items2, r2, b2⟩ := loop_run f (dfs f fuel) (fun c e s its s' => ih c e s its s') n n.edges.reverse _ items st2 hb1 hl
        refine ⟨.block n [pe] :: items2, .node hr r2, ?_, ?_, ?_⟩
        · simp only [b2.rows, renderAll, List.flatMap_cons, Item.render, mkRows_eq_blockRows]
        · simp only [b2.comp, blockUuids, blockNodes, List.filterMap_cons, Item.blockNode?, List.map_cons]
        · intro m es hm
          cases hm with
          | head => exact hc
          | tail _ hm => exact b2.canon m es hm

/-- every successful export is a `Run` from the empty state, and the rows are the rendered skeleton -/
theorem toRowsT_run (n0 : NodeX U) (f : FlowX U) (rows : List (RowT U)) (h : toRowsT (n0 :: f) = .ok rows) :
    ∃ vis items, Run (n0 :: f) DTrue (.node n0 ⟨none, blankLabel⟩) [] [] vis items ∧ rows = renderAll items := by
  simp only [toRowsT] at h
  cases hd : dfs (n0 :: f) (f.length + 1 + 1) n0 ⟨none, blankLabel⟩ ⟨[], [], [], 0⟩ with
  | error e => simp [hd] at h
  | ok st =>
    have h : st.rows = rows := by simpa [hd] using h
    subst h
    obtain ⟨items, r, b⟩ := dfs_run (n0 :: f) _ n0 _ ⟨[], [], [], 0⟩ [] st (canon_head n0 f)
      ⟨rfl, rfl, by intro _ _ hm; cases hm⟩ hd
    exact ⟨st.visited, items, r, b.rows⟩

end Rpft.Export
