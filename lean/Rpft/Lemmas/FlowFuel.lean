/-
Fuel stability of `aEnter`: with `A.length + 1` units of fuel the chain of do-nothing nodes either
ends, or it has revisited a node and never ends — more fuel changes nothing.
-/
import Rpft.Lemmas.FlowAbs
import Mathlib.Data.Finset.Card
import Mathlib.Data.Finset.Range
import Mathlib.Logic.Function.Iterate
set_option linter.unusedSimpArgs false
set_option linter.unusedVariables false
namespace Rpft.Flow
open Rpft

/-- the argument names a do-nothing node of `A` -/
def eGood (A : List ANode) : Option (Option Nat) → Bool
  | some (some i) =>
    match A[i]? with
    | some a => a.acts.isEmpty && a.ask.isNone
    | none => false
  | _ => false

/-- where the (do-nothing) node named by the argument leads -/
def eStep (A : List ANode) : Option (Option Nat) → Option (Option Nat)
  | some (some i) =>
    match A[i]? with
    | some a => a.dests.head?.join
    | none => none
  | _ => none

def eIdx : Option (Option Nat) → Nat
  | some (some i) => i
  | _ => 0

theorem eGood_spec {A : List ANode} {x : Option (Option Nat)} (h : eGood A x = true) :
    x = some (some (eIdx x)) ∧ eIdx x < A.length := by
  match x with
  | none => simp [eGood] at h
  | some none => simp [eGood] at h
  | some (some i) =>
    refine ⟨rfl, ?_⟩
    simp only [eIdx]
    by_contra hlt
    have : A[i]? = none := List.getElem?_eq_none (Nat.le_of_not_lt hlt)
    simp [eGood, this] at h

theorem aEnter_succ_good {A : List ANode} {x : Option (Option Nat)} (h : eGood A x = true)
    (f : Nat) : aEnter A (f + 1) x = aEnter A f (eStep A x) := by
  match x with
  | none => simp [eGood] at h
  | some none => simp [eGood] at h
  | some (some i) =>
    cases ha : A[i]? with
    | none => simp [eGood, ha] at h
    | some a =>
      simp only [eGood, ha] at h
      simp only [aEnter, eStep, ha, h, if_true]

theorem aEnter_succ_not_good {A : List ANode} {x : Option (Option Nat)} (h : eGood A x = false)
    (f : Nat) : aEnter A (f + 1) x = aEnter A 1 x ∧ aEnter A (f + 1) x ≠ some .div := by
  match x with
  | none => simp [aEnter]
  | some none => simp [aEnter]
  | some (some i) =>
    cases ha : A[i]? with
    | none => simp [aEnter, ha]
    | some a =>
      simp only [eGood, ha] at h
      simp [aEnter, ha, h]

/-- a result other than divergence is kept when one more unit of fuel is given -/
theorem aEnter_mono_succ (A : List ANode) (f : Nat) (x : Option (Option Nat))
    (h : aEnter A f x ≠ some .div) : aEnter A (f + 1) x = aEnter A f x := by
  induction f generalizing x with
  | zero =>
    match x with
    | none => simp [aEnter]
    | some y => simp [aEnter] at h
  | succ f ih =>
    cases hg : eGood A x with
    | true =>
      rw [aEnter_succ_good hg] at h ⊢
      rw [aEnter_succ_good hg]
      exact ih _ h
    | false =>
      rw [(aEnter_succ_not_good hg (f + 1)).1, (aEnter_succ_not_good hg f).1]

theorem aEnter_mono (A : List ANode) (f g : Nat) (x : Option (Option Nat))
    (h : aEnter A f x ≠ some .div) (hfg : f ≤ g) : aEnter A g x = aEnter A f x := by
  induction g with
  | zero =>
    have : f = 0 := Nat.le_zero.mp hfg
    subst this; rfl
  | succ g ih =>
    rcases Nat.lt_or_ge g f with hlt | hge
    · have : f = g + 1 := by omega
      subst this; rfl
    · have e := ih hge
      rw [← e] at h
      rw [aEnter_mono_succ A g x h, e]

theorem aEnter_div_iff (A : List ANode) (f : Nat) (x : Option (Option Nat)) :
    aEnter A f x = some .div ↔
      (∀ k, k < f → eGood A ((eStep A)^[k] x) = true) ∧ (eStep A)^[f] x ≠ none := by
  induction f generalizing x with
  | zero =>
    match x with
    | none => simp [aEnter]
    | some y => simp [aEnter]
  | succ f ih =>
    cases hg : eGood A x with
    | true =>
      rw [aEnter_succ_good hg, ih]
      simp only [Function.iterate_succ_apply]
      constructor
      · rintro ⟨h1, h2⟩
        refine ⟨?_, h2⟩
        intro k hk
        cases k with
        | zero => simpa using hg
        | succ k =>
          simp only [Function.iterate_succ_apply]
          exact h1 k (by omega)
      · rintro ⟨h1, h2⟩
        refine ⟨?_, h2⟩
        intro k hk
        have := h1 (k + 1) (by omega)
        simpa only [Function.iterate_succ_apply] using this
    | false =>
      constructor
      · intro h
        exact absurd h (aEnter_succ_not_good hg f).2
      · rintro ⟨h1, _⟩
        have := h1 0 (by omega)
        simp [hg] at this

/-- once the chain has come back to an argument it met before, it stays on do-nothing nodes -/
theorem eGood_periodic (A : List ANode) (x : Option (Option Nat)) (a b : Nat) (hab : a < b)
    (heq : (eStep A)^[a] x = (eStep A)^[b] x)
    (hb : ∀ k, k < b → eGood A ((eStep A)^[k] x) = true) :
    ∀ k, eGood A ((eStep A)^[k] x) = true := by
  intro k
  induction k using Nat.strong_induction_on with
  | _ k ih =>
    rcases Nat.lt_or_ge k b with hlt | hge
    · exact hb k hlt
    · obtain ⟨m, rfl⟩ : ∃ m, k = m + b := ⟨k - b, by omega⟩
      rw [Function.iterate_add_apply, ← heq, ← Function.iterate_add_apply]
      exact ih (m + a) (by omega)

/-- divergence with `A.length + 1` units of fuel is divergence with any amount of fuel -/
theorem aEnter_div_all (A : List ANode) (x : Option (Option Nat))
    (h : aEnter A (A.length + 1) x = some .div) (g : Nat) : aEnter A g x = some .div := by
  rw [aEnter_div_iff] at h ⊢
  obtain ⟨hg, _⟩ := h
  obtain ⟨k1, hk1, k2, hk2, hne, heq⟩ :=
    Finset.exists_ne_map_eq_of_card_lt_of_maps_to
      (s := Finset.range (A.length + 1)) (t := Finset.range A.length)
      (f := fun k => eIdx ((eStep A)^[k] x)) (by simp)
      (by
        intro k hk
        have hk' : k < A.length + 1 := by simpa using hk
        simpa using (eGood_spec (hg k hk')).2)
  have hk1' : k1 < A.length + 1 := by simpa using hk1
  have hk2' : k2 < A.length + 1 := by simpa using hk2
  have heq' : (eStep A)^[k1] x = (eStep A)^[k2] x := by
    have e1 := (eGood_spec (hg k1 hk1')).1
    have e2 := (eGood_spec (hg k2 hk2')).1
    have heq2 : eIdx ((eStep A)^[k1] x) = eIdx ((eStep A)^[k2] x) := heq
    rw [e1, e2, heq2]
  have hall : ∀ k, eGood A ((eStep A)^[k] x) = true := by
    rcases Nat.lt_or_gt_of_ne hne with hlt | hgt
    · exact eGood_periodic A x k1 k2 hlt heq' (fun k hk => hg k (by omega))
    · exact eGood_periodic A x k2 k1 hgt heq'.symm (fun k hk => hg k (by omega))
  refine ⟨fun k _ => hall k, ?_⟩
  intro hn
  have := hall g
  rw [hn] at this
  simp [eGood] at this

theorem aEnter_stable (A : List ANode) (f : Nat) (x : Option (Option Nat)) (hf : A.length + 1 ≤ f) :
    aEnter A f x = aEnter A (A.length + 1) x := by
  by_cases h : aEnter A (A.length + 1) x = some .div
  · rw [h]; exact aEnter_div_all A x h f
  · exact aEnter_mono A (A.length + 1) f x h hf

end Rpft.Flow
