/-
Frame lemma of `find_entry` at the top level and commutation of columns that belong to
different top-level fields (C09 `column_perm`).
-/
import Rpft.Lemmas.Row
set_option linter.unusedSimpArgs false
set_option linter.unusedVariables false
namespace Rpft.Row
open Rpft

/-! ### lookups after `aset` / `ensureKey`, key sets -/

theorem alookup_aset {α : Type} (key : Str) (v : α) (k : Str) : ∀ (kvs : List (Str × α)),
    alookup k (aset key v kvs) = if key = k then some v else alookup k kvs
  | [] => by simp [aset, alookup]
  | (k', v') :: rest => by
    simp only [aset]
    by_cases h1 : k' = key
    · subst h1
      by_cases h2 : k' = k <;> simp [alookup, h2]
    · simp only [h1, if_false, alookup]
      by_cases h2 : k' = k
      · have : key ≠ k := fun e => h1 (e ▸ h2)
        simp [h2, this]
      · simp [h2, alookup_aset key v k rest]

theorem alookup_ensureKey (key k : Str) (kvs : List (Str × Tree)) :
    alookup k (ensureKey key kvs) =
      if key = k then some ((alookup key kvs).getD Tree.none) else alookup k kvs := by
  unfold ensureKey
  cases h : alookup key kvs with
  | some t =>
    by_cases hk : key = k
    · subst hk; simp [h]
    · simp [hk]
  | none =>
    simp only [alookup_aset, Option.getD_none]

def keysOf {α : Type} (kvs : List (Str × α)) : List Str := kvs.map Prod.fst

theorem keysOf_aset {α : Type} (key : Str) (v : α) : ∀ (kvs : List (Str × α)),
    keysOf (aset key v kvs) = if key ∈ keysOf kvs then keysOf kvs else keysOf kvs ++ [key]
  | [] => by simp [aset, keysOf]
  | (k', v') :: rest => by
    simp only [aset]
    by_cases h1 : k' = key
    · subst h1; simp [keysOf]
    · have ih := keysOf_aset key v rest
      have hne : ¬ key = k' := fun e => h1 e.symm
      simp only [h1, if_false, keysOf, List.map_cons, List.mem_cons, hne, false_or] at ih ⊢
      rw [ih]
      split <;> simp_all

theorem nodup_aset {α : Type} (key : Str) (v : α) (kvs : List (Str × α))
    (h : (keysOf kvs).Nodup) : (keysOf (aset key v kvs)).Nodup := by
  rw [keysOf_aset]
  split
  · exact h
  · rename_i hn
    refine List.nodup_append.mpr ⟨h, by simp, ?_⟩
    intro a ha b hb e
    simp only [List.mem_singleton] at hb
    exact hn (hb ▸ e ▸ ha)

theorem nodup_ensureKey (key : Str) (kvs : List (Str × Tree)) (h : (keysOf kvs).Nodup) :
    (keysOf (ensureKey key kvs)).Nodup := by
  unfold ensureKey
  cases alookup key kvs with
  | some _ => exact h
  | none => exact nodup_aset key _ kvs h

/-! ### the effect of one column on the top-level dictionary -/

def colPath (col : Str × ColVal) : List Str := splitDot (getFieldName col.1)

/-- top-level key a column writes to -/
def colKey (h2f : List (Str × Str)) (col : Str × ColVal) : Str :=
  remap h2f ((colPath col).headD [])

/-- new value of that key, as a function of the old lookup -/
def eff (fs : List Field) (h2f : List (Str × Str)) (col : Str × ColVal) (old : Option Tree) :
    Except Err Tree :=
  match colPath col with
  | [] => .error .assertion
  | seg :: rest =>
    match fieldLookup (remap h2f seg) fs with
    | none => .error .noField
    | some f =>
      match rest with
      | [] =>
        match leafFn col.2 f.2.1 with
        | .error e => .error e
        | .ok (some t) => .ok t
        | .ok none => .ok (old.getD Tree.none)
      | _ :: _ => findSet (leafFn col.2) f.2.1 (initChild f.2.1 (old.getD Tree.none)) rest

def applyEff (key : Str) (kvs : List (Str × Tree)) : Except Err Tree → Except Err Tree
  | .error e => .error e
  | .ok t => .ok (.dict (aset key t (ensureKey key kvs)))

theorem aset_same (key : Str) (kvs : List (Str × Tree)) :
    aset key ((alookup key kvs).getD Tree.none) (ensureKey key kvs) = ensureKey key kvs := by
  unfold ensureKey
  cases h : alookup key kvs with
  | none =>
    simp only [Option.getD_none]
    rw [aset_of_absent key Tree.none kvs h, aset_last key Tree.none Tree.none kvs h]
  | some t =>
    simp only [Option.getD_some]
    induction kvs with
    | nil => simp [alookup] at h
    | cons x xs ih =>
      obtain ⟨k', v'⟩ := x
      simp only [alookup] at h
      by_cases hk : k' = key
      · simp only [hk, if_true, Option.some.injEq] at h
        subst h; subst hk
        simp [aset]
      · simp only [hk, if_false] at h
        simp [aset, hk, ih h]

/-- **frame lemma**: one column only reads and writes the entry of its own top-level key -/
theorem parseEntry_eff (fs : List Field) (h2f f2h : List (Str × Str)) (kvs : List (Str × Tree))
    (col : Str × ColVal) :
    parseEntry (.model fs h2f f2h) (.dict kvs) col =
      applyEff (colKey h2f col) kvs (eff fs h2f col (alookup (colKey h2f col) kvs)) := by
  unfold parseEntry eff colKey colPath
  cases hp : splitDot (getFieldName col.1) with
  | nil => simp [findSet, applyEff]
  | cons seg rest =>
    conv => lhs; unfold findSet
    simp only [isListTy, Bool.false_eq_true, if_false, List.headD_cons]
    cases hf : fieldLookup (remap h2f seg) fs with
    | none => simp [applyEff]
    | some f =>
      simp only
      cases rest with
      | nil =>
        simp only [leafDict]
        cases leafFn col.2 f.2.1 with
        | error e => simp [applyEff]
        | ok r =>
          cases r with
          | some t => simp [applyEff]
          | none => simp only [applyEff]; rw [aset_same]
      | cons s2 r2 =>
        simp only [alookup_ensureKey, if_true, Option.getD_some]
        cases findSet (leafFn col.2) f.2.1 _ (s2 :: r2) with
        | error e => simp [wrapDict, applyEff]
        | ok sub => simp [wrapDict, applyEff]

/-! ### lookup equivalence -/

def Eqv (a b : List (Str × Tree)) : Prop :=
  (keysOf a).Nodup ∧ (keysOf b).Nodup ∧ ∀ k, alookup k a = alookup k b

def EqvE : Except Err Tree → Except Err Tree → Prop
  | .ok (.dict a), .ok (.dict b) => Eqv a b
  | .error _, .error _ => True
  | _, _ => False

theorem eqv_step (key : Str) (t : Tree) {a b : List (Str × Tree)} (h : Eqv a b) :
    Eqv (aset key t (ensureKey key a)) (aset key t (ensureKey key b)) := by
  refine ⟨nodup_aset _ _ _ (nodup_ensureKey _ _ h.1), nodup_aset _ _ _ (nodup_ensureKey _ _ h.2.1), ?_⟩
  intro k
  simp only [alookup_aset, alookup_ensureKey, h.2.2]

theorem parseEntry_congr (fs : List Field) (h2f f2h : List (Str × Str)) {a b : List (Str × Tree)}
    (h : Eqv a b) (col : Str × ColVal) :
    EqvE (parseEntry (.model fs h2f f2h) (.dict a) col) (parseEntry (.model fs h2f f2h) (.dict b) col) := by
  rw [parseEntry_eff, parseEntry_eff, h.2.2]
  cases eff fs h2f col (alookup (colKey h2f col) b) with
  | error e => simp [applyEff, EqvE]
  | ok t => simp only [applyEff, EqvE]; exact eqv_step _ t h

theorem foldE_congr_eqv (fs : List Field) (h2f f2h : List (Str × Str)) :
    ∀ (cols : List (Str × ColVal)) {a b : List (Str × Tree)}, Eqv a b →
      EqvE (foldE (parseEntry (.model fs h2f f2h)) (.dict a) cols)
        (foldE (parseEntry (.model fs h2f f2h)) (.dict b) cols)
  | [], a, b, h => by simpa [foldE, EqvE] using h
  | c :: cols, a, b, h => by
    have h1 := parseEntry_congr fs h2f f2h h c
    simp only [foldE]
    rw [parseEntry_eff, parseEntry_eff] at h1 ⊢
    cases e1 : eff fs h2f c (alookup (colKey h2f c) a) with
    | error e =>
      rw [e1] at h1
      cases e2 : eff fs h2f c (alookup (colKey h2f c) b) with
      | error e' => simp [applyEff, EqvE]
      | ok t => rw [e2] at h1; simp [applyEff, EqvE] at h1
    | ok t =>
      rw [e1] at h1
      cases e2 : eff fs h2f c (alookup (colKey h2f c) b) with
      | error e' => rw [e2] at h1; simp [applyEff, EqvE] at h1
      | ok t' =>
        rw [e2] at h1
        simp only [applyEff, EqvE] at h1 ⊢
        exact foldE_congr_eqv fs h2f f2h cols h1

/-- two columns with different top-level keys commute -/
theorem parseEntry_comm (fs : List Field) (h2f f2h : List (Str × Str)) {a : List (Str × Tree)}
    (ha : (keysOf a).Nodup) (c₁ c₂ : Str × ColVal) (hk : colKey h2f c₁ ≠ colKey h2f c₂) :
    EqvE (foldE (parseEntry (.model fs h2f f2h)) (.dict a) [c₁, c₂])
      (foldE (parseEntry (.model fs h2f f2h)) (.dict a) [c₂, c₁]) := by
  simp only [foldE]
  rw [parseEntry_eff fs h2f f2h a c₁, parseEntry_eff fs h2f f2h a c₂]
  cases e1 : eff fs h2f c₁ (alookup (colKey h2f c₁) a) with
  | error e =>
    cases e2 : eff fs h2f c₂ (alookup (colKey h2f c₂) a) with
    | error e' => simp [applyEff, EqvE]
    | ok t2 =>
      simp only [applyEff]
      rw [parseEntry_eff]
      have hl : alookup (colKey h2f c₁) (aset (colKey h2f c₂) t2 (ensureKey (colKey h2f c₂) a)) =
          alookup (colKey h2f c₁) a := by
        simp [alookup_aset, alookup_ensureKey, Ne.symm hk]
      rw [hl, e1]
      simp [applyEff, EqvE]
  | ok t1 =>
    simp only [applyEff]
    rw [parseEntry_eff]
    have hl2 : alookup (colKey h2f c₂) (aset (colKey h2f c₁) t1 (ensureKey (colKey h2f c₁) a)) =
        alookup (colKey h2f c₂) a := by
      simp [alookup_aset, alookup_ensureKey, hk]
    rw [hl2]
    cases e2 : eff fs h2f c₂ (alookup (colKey h2f c₂) a) with
    | error e' => simp [applyEff, EqvE]
    | ok t2 =>
      simp only [applyEff]
      rw [parseEntry_eff]
      have hl : alookup (colKey h2f c₁) (aset (colKey h2f c₂) t2 (ensureKey (colKey h2f c₂) a)) =
          alookup (colKey h2f c₁) a := by
        simp [alookup_aset, alookup_ensureKey, Ne.symm hk]
      rw [hl, e1]
      simp only [applyEff, EqvE]
      refine ⟨?_, ?_, ?_⟩
      · exact nodup_aset _ _ _ (nodup_ensureKey _ _ (nodup_aset _ _ _ (nodup_ensureKey _ _ ha)))
      · exact nodup_aset _ _ _ (nodup_ensureKey _ _ (nodup_aset _ _ _ (nodup_ensureKey _ _ ha)))
      · intro k
        simp only [alookup_aset, alookup_ensureKey]
        by_cases h1 : colKey h2f c₁ = k <;> by_cases h2 : colKey h2f c₂ = k <;>
          simp [h1, h2, hk, Ne.symm hk]
        · exact absurd (h1.trans h2.symm) hk

/-! ### the parsed value only depends on the lookups -/

theorem keysOf_filter_sub (p : Str × Tree → Bool) (kvs : List (Str × Tree)) (k : Str)
    (h : k ∉ keysOf kvs) : k ∉ keysOf (kvs.filter p) := by
  intro hm
  obtain ⟨kv, hkv, e⟩ := List.mem_map.mp hm
  exact h (List.mem_map.mpr ⟨kv, (List.mem_filter.mp hkv).1, e⟩)

theorem alookup_dropNone : ∀ (kvs : List (Str × Tree)), (keysOf kvs).Nodup → ∀ k,
    alookup k (dropNone kvs) = (alookup k kvs).bind fun t => if t.isNone then none else some t
  | [], _, k => by simp [dropNone, alookup]
  | (k', v) :: rest, hnd, k => by
    have hnd' : (keysOf rest).Nodup := (List.nodup_cons.mp hnd).2
    have hk' : k' ∉ keysOf rest := (List.nodup_cons.mp hnd).1
    have ih := alookup_dropNone rest hnd' k
    unfold dropNone at ih ⊢
    by_cases hkk : k' = k
    · subst hkk
      cases hv : v.isNone with
      | true =>
        simp only [List.filter, hv, Bool.not_true, alookup, if_true, Option.bind_some]
        have : alookup k' (rest.filter fun kv => !kv.2.isNone) = none := by
          rw [alookup_none_iff]
          exact keysOf_filter_sub _ rest k' hk'
        simp [this]
      | false => simp [List.filter, hv, alookup]
    · cases hv : v.isNone with
      | true => simp only [List.filter, hv, Bool.not_true, alookup, hkk, if_false]; exact ih
      | false => simp only [List.filter, hv, Bool.not_false, alookup, hkk, if_false]; exact ih

theorem validateFields_congr {x y : List (Str × Tree)} (h : ∀ k, alookup k x = alookup k y) :
    ∀ (fs : List Field), validateFields fs x = validateFields fs y
  | [] => rfl
  | (n, t, d) :: rest => by
    simp only [validateFields, h n, validateFields_congr h rest]

theorem finish_congr (fs : List Field) (h2f f2h : List (Str × Str)) {a b : List (Str × Tree)}
    (h : Eqv a b) : finish (.model fs h2f f2h) (.dict a) = finish (.model fs h2f f2h) (.dict b) := by
  simp only [finish, validate]
  rw [validateFields_congr (x := dropNone a) (y := dropNone b)]
  intro k
  rw [alookup_dropNone a h.1, alookup_dropNone b h.2.1, h.2.2]

/-- the observable of a parse: the row value, or nothing when the code raises -/
def parseEntries (top : Ty) (entries : List (Str × ColVal)) : Option Val :=
  match buildTree top entries with
  | .ok t =>
    match finish top t with
    | .ok v => some v
    | .error _ => none
  | .error _ => none

def obsE (top : Ty) : Except Err Tree → Option Val
  | .ok t =>
    match finish top t with
    | .ok v => some v
    | .error _ => none
  | .error _ => none

theorem obsE_eqv (fs : List Field) (h2f f2h : List (Str × Str)) {x y : Except Err Tree}
    (h : EqvE x y) : obsE (.model fs h2f f2h) x = obsE (.model fs h2f f2h) y := by
  match x, y, h with
  | .ok (.dict a), .ok (.dict b), h => simp only [obsE, finish_congr fs h2f f2h h]
  | .error _, .error _, _ => rfl

theorem foldE_dict_nodup (fs : List Field) (h2f f2h : List (Str × Str)) :
    ∀ (cols : List (Str × ColVal)) (a : List (Str × Tree)), (keysOf a).Nodup →
      (∃ e, foldE (parseEntry (.model fs h2f f2h)) (.dict a) cols = .error e) ∨
      (∃ b, foldE (parseEntry (.model fs h2f f2h)) (.dict a) cols = .ok (.dict b) ∧ (keysOf b).Nodup)
  | [], a, h => Or.inr ⟨a, rfl, h⟩
  | c :: cols, a, h => by
    simp only [foldE]
    rw [parseEntry_eff]
    cases eff fs h2f c (alookup (colKey h2f c) a) with
    | error e => exact Or.inl ⟨e, rfl⟩
    | ok t =>
      simp only [applyEff]
      exact foldE_dict_nodup fs h2f f2h cols _ (nodup_aset _ _ _ (nodup_ensureKey _ _ h))

/-- **swap of two adjacent columns of different top-level fields** -/
theorem column_swap (fs : List Field) (h2f f2h : List (Str × Str))
    (pre post : List (Str × ColVal)) (c₁ c₂ : Str × ColVal) (hk : colKey h2f c₁ ≠ colKey h2f c₂) :
    parseEntries (.model fs h2f f2h) (pre ++ c₁ :: c₂ :: post) =
    parseEntries (.model fs h2f f2h) (pre ++ c₂ :: c₁ :: post) := by
  have hobs : ∀ cols, parseEntries (.model fs h2f f2h) cols =
      obsE (.model fs h2f f2h) (foldE (parseEntry (.model fs h2f f2h)) (.dict []) cols) := by
    intro cols
    simp only [parseEntries, buildTree, obsE]
  rw [hobs, hobs]
  have e1 : pre ++ c₁ :: c₂ :: post = pre ++ ([c₁, c₂] ++ post) := by simp
  have e2 : pre ++ c₂ :: c₁ :: post = pre ++ ([c₂, c₁] ++ post) := by simp
  rw [e1, e2, foldE_append, foldE_append]
  rcases foldE_dict_nodup fs h2f f2h pre [] (by simp [keysOf]) with ⟨e, he⟩ | ⟨b, hb, hnd⟩
  · rw [he]
  · rw [hb]
    simp only
    rw [foldE_append, foldE_append]
    have hc := parseEntry_comm fs h2f f2h hnd c₁ c₂ hk
    apply obsE_eqv
    cases h1 : foldE (parseEntry (.model fs h2f f2h)) (.dict b) [c₁, c₂] with
    | error e =>
      rw [h1] at hc
      cases h2 : foldE (parseEntry (.model fs h2f f2h)) (.dict b) [c₂, c₁] with
      | error e' => simp [EqvE]
      | ok t => rw [h2] at hc; cases t <;> simp [EqvE] at hc
    | ok t =>
      rw [h1] at hc
      cases h2 : foldE (parseEntry (.model fs h2f f2h)) (.dict b) [c₂, c₁] with
      | error e' => rw [h2] at hc; cases t <;> simp [EqvE] at hc
      | ok t' =>
        rw [h2] at hc
        cases t <;> cases t' <;> simp [EqvE] at hc
        simp only
        exact foldE_congr_eqv fs h2f f2h post hc

/-- reorderings generated by swapping adjacent columns of different top-level fields: exactly
the permutations that keep the relative order of the columns of each field -/
inductive FieldPerm (h2f : List (Str × Str)) : List (Str × ColVal) → List (Str × ColVal) → Prop
  | refl (cols) : FieldPerm h2f cols cols
  | swap (pre post c₁ c₂) (h : colKey h2f c₁ ≠ colKey h2f c₂) :
      FieldPerm h2f (pre ++ c₁ :: c₂ :: post) (pre ++ c₂ :: c₁ :: post)
  | trans {a b c} : FieldPerm h2f a b → FieldPerm h2f b c → FieldPerm h2f a c

theorem column_perm_entries (fs : List Field) (h2f f2h : List (Str × Str))
    {cols cols' : List (Str × ColVal)} (h : FieldPerm h2f cols cols') :
    parseEntries (.model fs h2f f2h) cols = parseEntries (.model fs h2f f2h) cols' := by
  induction h with
  | refl _ => rfl
  | swap pre post c₁ c₂ hk => exact column_swap fs h2f f2h pre post c₁ c₂ hk
  | trans _ _ ih1 ih2 => exact ih1.trans ih2

end Rpft.Row
