import Rpft.RefFlow
/-! Pass 1 of the reference interpretation: every recorded target is a node-producing row. -/
set_option linter.unusedSimpArgs false
set_option linter.unusedVariables false
namespace Rpft.RefFlow
open Rpft Rpft.Flow

/-- `k` is the index of a node-producing row -/
def IsNodeIdx (rows : List RRow) (k : Nat) : Prop := ∃ r, rows[k]? = some r ∧ r.kind.isNode = true

def TgtOk (rows : List RRow) : Target → Prop
  | .row k => IsNodeIdx rows k
  | .exit => True

structure P1Inv (rows : List RRow) (st : P1) : Prop where
  ids : ∀ p ∈ st.ids, IsNodeIdx rows p.2
  out : ∀ e ∈ st.out, TgtOk rows e.tgt

theorem lookupId_mem {ids : List (Str × Nat)} {id : Str} {t : Nat} (h : lookupId ids id = some t) :
    ∃ p ∈ ids, p.2 = t := by
  unfold lookupId at h
  cases hf : ids.find? (·.1 = id) with
  | none => simp [hf] at h
  | some p =>
    simp [hf] at h
    exact ⟨p, List.mem_of_find?_eq_some hf, h⟩

theorem addEdges_inv (rows : List RRow) (k : Nat) (es : List (REdge × Target))
    (hes : ∀ p ∈ es, TgtOk rows p.2) :
    ∀ (st st' : P1), P1Inv rows st → addEdges st k es = .ok st' →
      P1Inv rows st' ∧ st'.ids = st.ids ∧ st'.prev = st.prev := by
  induction es with
  | nil =>
    intro st st' hi h
    simp [addEdges, List.foldlM, pure, Except.pure] at h
    subst h
    exact ⟨hi, rfl, rfl⟩
  | cons p es ih =>
    intro st st' hi h
    obtain ⟨e, t⟩ := p
    simp only [addEdges, List.foldlM_cons] at h
    cases hs : edgeSrc st k e with
    | error err => simp [hs, bind, Except.bind] at h
    | ok o =>
      have ih' := ih (fun p hp => hes p (by simp [hp]))
      cases o with
      | none =>
        simp only [hs, bind, Except.bind, pure, Except.pure] at h
        exact ih' st st' hi h
      | some s =>
        simp only [hs, bind, Except.bind, pure, Except.pure] at h
        have hi2 : P1Inv rows { st with out := { src := s, cond := e.cond, tgt := t } :: st.out } := by
          refine ⟨hi.ids, ?_⟩
          intro o ho
          simp only [List.mem_cons] at ho
          rcases ho with rfl | ho
          · exact hes (e, t) (by simp)
          · exact hi.out o ho
        have := ih' _ st' hi2 h
        exact ⟨this.1, this.2.1, this.2.2⟩


theorem mapM_lookup_ok (rows : List RRow) (st : P1) (k : Nat) (hi : P1Inv rows st) :
    ∀ (ds : List Str) (tgts : List Target),
      (ds.mapM fun d => match lookupId st.ids d with
        | some t => (pure (Target.row t) : Except WfErr Target)
        | none => throw (WfErr.unknownDest k d)) = .ok tgts →
      ∀ t ∈ tgts, TgtOk rows t := by
  intro ds
  induction ds with
  | nil =>
    intro tgts h
    simp [List.mapM_nil, pure, Except.pure] at h
    subst h
    simp
  | cons d ds ih =>
    intro tgts h
    rw [List.mapM_cons] at h
    cases hl : lookupId st.ids d with
    | none => simp [hl, bind, Except.bind, throw, throwThe, MonadExceptOf.throw] at h
    | some t =>
      simp only [hl, bind, Except.bind, pure, Except.pure] at h
      split at h
      · simp at h
      · rename_i rest hrest
        simp only [Except.ok.injEq] at h
        subst h
        intro t' ht'
        simp only [List.mem_cons] at ht'
        rcases ht' with rfl | ht'
        · obtain ⟨p, hp, hpt⟩ := lookupId_mem hl
          have := hi.ids p hp
          rw [hpt] at this
          exact this
        · exact ih rest hrest t' ht'

theorem pass1Row_inv (rows : List RRow) (k : Nat) (r : RRow) (hk : rows[k]? = some r)
    (st st' : P1) (hi : P1Inv rows st) (h : pass1Row st k r = .ok st') : P1Inv rows st' := by
  unfold pass1Row at h
  simp only [bind, Except.bind, pure, Except.pure] at h
  split at h
  · exact (addEdges_inv rows k _ (by intro p hp; simp at hp; obtain ⟨_, _, rfl⟩ := hp; trivial) st st' hi h).1
  · exact (addEdges_inv rows k _ (by intro p hp; simp at hp; obtain ⟨_, _, rfl⟩ := hp; trivial) st st' hi h).1
  · generalize (if r.dests.length = 1 then _ else r.dests : List Str) = ds at h
    split at h
    · simp [throw, throwThe, MonadExceptOf.throw] at h
    · split at h
      · simp at h
      · rename_i tgts htg
        refine (addEdges_inv rows k _ ?_ st st' hi h).1
        intro p hp
        have := List.of_mem_zip hp
        exact mapM_lookup_ok rows st k hi _ tgts htg p.2 this.2
  · rename_i hne1 hne2 hne3
    split at h
    · simp at h
    · rename_i st1 hst1
      simp only [Except.ok.injEq] at h
      have hnode : IsNodeIdx rows k := by
        refine ⟨r, hk, ?_⟩
        cases hkind : r.kind <;> simp_all [Kind.isNode]
      have := addEdges_inv rows k _ (by
        intro p hp; simp at hp; obtain ⟨_, _, rfl⟩ := hp; exact hnode) st st1 hi hst1
      subst h
      refine ⟨?_, this.1.out⟩
      intro p hp
      simp only at hp
      split at hp
      · rw [this.2.1] at hp; exact hi.ids p hp
      · simp only [List.mem_cons] at hp
        rcases hp with rfl | hp
        · exact hnode
        · rw [this.2.1] at hp; exact hi.ids p hp


theorem foldl_pass1_inv (rows : List RRow) :
    ∀ (l : List (RRow × Nat)), (∀ p ∈ l, rows[p.2]? = some p.1) →
    ∀ (st st' : P1), P1Inv rows st →
      l.foldlM (fun st (p : RRow × Nat) => pass1Row st p.2 p.1) st = .ok st' → P1Inv rows st' := by
  intro l
  induction l with
  | nil =>
    intro _ st st' hi h
    simp [List.foldlM, pure, Except.pure] at h
    subst h; exact hi
  | cons p l ih =>
    intro hl st st' hi h
    simp only [List.foldlM_cons, bind, Except.bind] at h
    split at h
    · simp at h
    · rename_i st1 hst1
      exact ih (fun q hq => hl q (by simp [hq])) st1 st'
        (pass1Row_inv rows p.2 p.1 (hl p (by simp)) st st1 hi hst1) h

theorem zipIdx_getElem? (rows : List RRow) : ∀ p ∈ rows.zipIdx, rows[p.2]? = some p.1 := by
  intro p hp
  obtain ⟨r, k⟩ := p
  have := List.mem_zipIdx hp
  simp at this
  obtain ⟨hlt, he⟩ := this
  simp [hlt, he]

/-- every target that pass 1 records is a node-producing row of the sheet -/
theorem pass1_targets (rows : List RRow) (out : List OutEdge) (h : pass1 rows = .ok out) :
    ∀ e ∈ out, TgtOk rows e.tgt := by
  unfold pass1 at h
  simp only [bind, Except.bind, pure, Except.pure] at h
  split at h
  · simp at h
  · rename_i st hst
    simp only [Except.ok.injEq] at h
    subst h
    have := foldl_pass1_inv rows rows.zipIdx (zipIdx_getElem? rows) {} st ⟨by simp, by simp⟩ (by
      simpa using hst)
    intro e he
    exact this.out e (by simpa using he)

end Rpft.RefFlow
