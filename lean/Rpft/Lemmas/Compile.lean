import Rpft.Compile
set_option linter.unusedSimpArgs false
set_option linter.unusedVariables false
namespace Rpft.Compile
open Rpft

theorem natStr_eq (n : Nat) : natStr n = Nat.toDigits 10 n := by
  unfold natStr
  show (toString n).toList = _
  rw [Nat.toString_eq_repr, Nat.toList_repr]

/-- decimal rendering is injective: different counters give different identifiers -/
theorem natStr_injective {a b : Nat} (h : natStr a = natStr b) : a = b := by
  rw [natStr_eq, natStr_eq] at h
  have ha := @Nat.ofDigitChars_ten_toDigits a
  have hb := @Nat.ofDigitChars_ten_toDigits b
  rw [h] at ha
  omega

/-- `generate_new_uuid()` in the model: the counter is read and incremented -/
theorem fresh_spec (s : St) :
    fresh.run s = .ok ('~' :: natStr s.next, { s with next := s.next + 1 }) := by
  simp [fresh, StateT.run, bind, StateT.bind, get, getThe, MonadStateOf.get, StateT.get, set,
    StateT.set, pure, StateT.pure, Except.pure, Except.bind]

/-- every category of a router that a case names exists in that router -/
def CaseCatsOk (r : SwitchR) : Prop := ∀ k ∈ r.cases, k.catUid ∈ r.allCats.map (·.uid)

theorem allCats_mapCats_uids (r : SwitchR) (f : Cat → Cat) (hf : ∀ c, (f c).uid = c.uid) :
    (r.mapCats f).allCats.map (·.uid) = r.allCats.map (·.uid) := by
  unfold SwitchR.mapCats SwitchR.allCats
  cases h : r.noResp <;> simp [List.map_map, Function.comp, hf]

theorem caseCatsOk_mapCats (r : SwitchR) (f : Cat → Cat) (hf : ∀ c, (f c).uid = c.uid)
    (h : CaseCatsOk r) : CaseCatsOk (r.mapCats f) := by
  intro k hk
  rw [allCats_mapCats_uids r f hf]
  exact h k hk

end Rpft.Compile
