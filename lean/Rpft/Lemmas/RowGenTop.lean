/-
General round-trip development (C07 `parse_unparse`), part 5: the whole row — the root record
with its `field_name_to_header_name` table and the context remap
(`header_name_to_field_name_with_context`) that undoes it when the row is parsed.
-/
import Rpft.Lemmas.RowGenMain
set_option linter.unusedSimpArgs false
set_option linter.unusedVariables false
namespace Rpft.Row
open Rpft

/-! ### `find_entry` at the root depends on the remap table only through the first segment -/

theorem findSet_model_congr (leaf : Ty → Except Err (Option Tree)) (fs : List Field)
    (h2f f2h h2f' f2h' : List (Str × Str)) (kvs : List (Str × Tree)) (a a' : Str) (r : List Str)
    (h : remap h2f a = remap h2f' a') :
    findSet leaf (.model fs h2f f2h) (.dict kvs) (a :: r) =
      findSet leaf (.model fs h2f' f2h') (.dict kvs) (a' :: r) := by
  conv => lhs; unfold findSet
  conv => rhs; unfold findSet
  simp only [isListTy, Bool.false_eq_true, if_false, h]

theorem findSet_model_dict (leaf : Ty → Except Err (Option Tree)) (fs : List Field)
    (h2f f2h : List (Str × Str)) (kvs : List (Str × Tree)) (path : List Str) (t : Tree)
    (h : findSet leaf (.model fs h2f f2h) (.dict kvs) path = .ok t) : ∃ kvs', t = .dict kvs' := by
  unfold findSet at h
  cases path with
  | nil => simp at h
  | cons name rest =>
    simp only [isListTy, Bool.false_eq_true, if_false] at h
    cases hf : fieldLookup (remap h2f name) fs with
    | none => simp [hf] at h
    | some f =>
      simp only [hf] at h
      cases rest with
      | nil =>
        simp only at h
        cases hl : leaf f.2.1 with
        | error e => simp [hl, leafDict] at h
        | ok r =>
          cases r with
          | none => simp [hl, leafDict] at h; exact ⟨_, h.symm⟩
          | some x => simp [hl, leafDict] at h; exact ⟨_, h.symm⟩
      | cons s r =>
        simp only at h
        generalize findSet leaf f.2.1 _ (s :: r) = res at h
        cases res with
        | error e => simp [wrapDict] at h
        | ok sub => simp [wrapDict] at h; exact ⟨_, h.symm⟩

/-! ### the context remap of the headers -/

theorem alookup_of_mem_nodup {α : Type} : ∀ (l : List (Str × α)), (l.map Prod.fst).Nodup →
    ∀ k v, (k, v) ∈ l → alookup k l = some v
  | [], _, k, v, h => by simp at h
  | (k', v') :: l, hnd, k, v, h => by
    simp only [List.map_cons, List.nodup_cons] at hnd
    simp only [List.mem_cons, Prod.mk.injEq] at h
    rcases h with ⟨rfl, rfl⟩ | h
    · simp [alookup]
    · have hne : k' ≠ k := fun e => hnd.1 (e ▸ List.mem_map_of_mem (f := Prod.fst) h)
      simp [alookup, hne, alookup_of_mem_nodup l hnd.2 k v h]

theorem rekey_map (sch : Schema) (ctx : List (Str × Str)) (g : Str → Str) :
    ∀ (data acc : List (Str × Str)),
      (∀ kv ∈ data, ctxRemap sch ctx kv.1 = .ok (g kv.1)) →
      ((acc ++ data.map (fun kv => (g kv.1, kv.2))).map Prod.fst).Nodup →
      foldE (rekeyStep sch ctx) acc data = .ok (acc ++ data.map (fun kv => (g kv.1, kv.2)))
  | [], acc, _, _ => by simp [foldE]
  | (k, v) :: rest, acc, hg, hnd => by
    have hk : alookup (g k) acc = none := by
      rw [alookup_none_iff]
      intro hmem
      simp only [List.map_append, List.map_cons] at hnd
      have := List.nodup_append.mp hnd
      exact this.2.2 (g k) hmem (g k) (by simp) rfl
    simp only [foldE, rekeyStep, hg (k, v) (by simp)]
    rw [aset_of_absent (g k) v acc hk]
    have := rekey_map sch ctx g rest (acc ++ [(g k, v)])
      (fun kv hkv => hg kv (List.mem_cons_of_mem _ hkv)) (by simpa using hnd)
    simpa using this

theorem rowEntries_of_rekey (sch : Schema) (data d2 : List (Str × Str))
    (h : rekey sch data = .ok d2) (hs : ∀ kv ∈ d2, hasStar kv.1 = false) :
    rowEntries sch data = .ok (d2.map fun kv => (kv.1, Sum.inl kv.2)) := by
  unfold rowEntries
  rw [h]
  simp only
  rw [preParse_plain d2 hs]
  simp only
  rw [expandAll_plain]

theorem ctxRemap_untouched (sch : Schema) (cells : List (Str × Str)) (k : Str)
    (h : ∀ k' ∈ ctxKeys sch, k' ≠ k) : ctxRemap sch cells k = .ok k := by
  unfold ctxRemap
  have h1 : alookup k sch.ctxBasic = none := by
    rw [alookup_none_iff]
    intro hm
    exact h k (by simp [ctxKeys, hm]) rfl
  rw [h1]
  cases hm : sch.ctxMain with
  | none => rfl
  | some x =>
    obtain ⟨hd, tc, tb⟩ := x
    have : k ≠ hd := fun e => h hd (by simp [ctxKeys, hm]) e.symm
    simp [this]

theorem headSeg_keyOf {n : Str} (hn : simpleName n = true) (r : List Str) :
    headSeg (keyOf (n :: r)) = n := by
  rw [keyOf_cons]
  cases r with
  | nil => simp only [pathStr, List.append_nil]; exact headSeg_simple hn
  | cons s r => simp only [pathStr]; exact headSeg_dotted hn _

theorem nodup_map_on {α β : Type} (f : α → β) : ∀ (l : List α), l.Nodup →
    (∀ a ∈ l, ∀ b ∈ l, f a = f b → a = b) → (l.map f).Nodup
  | [], _, _ => by simp
  | a :: l, h, hf => by
    simp only [List.map_cons, List.nodup_cons] at h ⊢
    refine ⟨?_, nodup_map_on f l h.2 (fun x hx y hy => hf x (List.mem_cons_of_mem _ hx) y
      (List.mem_cons_of_mem _ hy))⟩
    intro hm
    obtain ⟨b, hb, e⟩ := List.mem_map.mp hm
    have := hf a (by simp) b (List.mem_cons_of_mem _ hb) e.symm
    exact h.1 (this ▸ hb)

/-! ### the root record -/

/-- one column of the row: where it was written, and what the context remap makes of it -/
def ColFact (fs : List Field) (h2f h2f' f2h : List (Str × Str)) (g : Str → Str)
    (pairs : List SPair) (c : List Str × Str) : Prop :=
  ∃ p ∈ pairs, nonDefault p = true ∧ ∃ pn r, c.1 = hdr f2h p :: r ∧
    g (keyOf c.1) = keyOf (pn :: r) ∧ SegOk pn ∧ (∀ s ∈ r, SegOk s) ∧
    remap h2f pn = p.1.1 ∧ remap h2f' (hdr f2h p) = p.1.1

theorem parse_fold_congr (fs : List Field) (h2f h2f' f2h : List (Str × Str)) (g : Str → Str)
    (pairs : List SPair) :
    ∀ (cols : List (List Str × Str)) (acc : List (Str × Tree)),
      (∀ c ∈ cols, ColFact fs h2f h2f' f2h g pairs c) →
      foldE (parseEntry (.model fs h2f f2h)) (.dict acc)
          (cols.map fun c => (g (keyOf c.1), Sum.inl c.2)) =
        pfold (.model fs h2f' f2h) (.dict acc) (inlCols cols)
  | [], acc, _ => by simp [foldE, pfold, inlCols]
  | c :: cols, acc, h => by
    obtain ⟨p, _, _, pn, r, e1, e2, hpn, hr, hb, hb'⟩ := h c (by simp)
    have hstep : parseEntry (.model fs h2f f2h) (.dict acc) (g (keyOf c.1), Sum.inl c.2) =
        pstep (.model fs h2f' f2h) (.dict acc) (c.1, Sum.inl c.2) := by
      unfold parseEntry
      simp only [e2]
      rw [colPath_keyOf (pn :: r) (by simp) (by
        intro x hx
        rcases List.mem_cons.mp hx with rfl | hx
        · exact hpn
        · exact hr x hx)]
      rw [e1]
      simp only [pstep, initChild_dict]
      exact findSet_model_congr _ fs h2f f2h h2f' f2h acc pn (hdr f2h p) r (by rw [hb, hb'])
    simp only [List.map_cons, foldE, pfold, inlCols]
    rw [hstep]
    cases hres : pstep (.model fs h2f' f2h) (.dict acc) (c.1, Sum.inl c.2) with
    | error e => rfl
    | ok t =>
      simp only
      have : ∃ kvs', t = .dict kvs' := by
        rw [e1] at hres
        simp only [pstep, initChild_dict] at hres
        exact findSet_model_dict _ fs h2f' f2h acc _ t hres
      obtain ⟨kvs', rfl⟩ := this
      have ih := parse_fold_congr fs h2f h2f' f2h g pairs cols kvs'
        (fun c hc => h c (List.mem_cons_of_mem _ hc))
      simp only [pfold, inlCols] at ih
      exact ih

/-- **The whole row round-trips.**  Core statement with the remap conditions as
propositions about the written row `cells`. -/
theorem top_roundtrip (sch : Schema) (lay : Layout) (he : lay.excluded = [])
    (fs : List Field) (h2f f2h : List (Str × Str)) (htop : sch.top = .model fs h2f f2h)
    (hsimple : ∀ f ∈ fs, simpleName f.1 = true) (hnd : (fs.map (·.1)).Nodup)
    (hgf : goodFields fs = true) (kvs : List (Str × Val))
    (hnames : kvs.map Prod.fst = fs.map (·.1)) (hrf : reprFields false fs kvs = true)
    (hlay : layOkFields lay f2h [] kvs fs = true)
    (H1 : (((fs.zip (kvs.map Prod.snd)).filter nonDefault).map (hdr f2h)).Nodup)
    (H2 : ∀ p ∈ fs.zip (kvs.map Prod.snd), nonDefault p = true → simpleName (hdr f2h p) = true)
    (H34 : ∀ cells, unparseRow sch lay (.model kvs) = .ok cells →
      (∀ p ∈ fs.zip (kvs.map Prod.snd), nonDefault p = true → isBasicVal p.2 = true →
        alookup (hdr f2h p) cells = some (printBasic p.2)) →
      ∀ p ∈ fs.zip (kvs.map Prod.snd), nonDefault p = true →
        (hdr f2h p = p.1.1 → remap h2f p.1.1 = p.1.1 ∧
          ∀ k, headSeg k = p.1.1 → ctxRemap sch cells k = .ok k) ∧
        (hdr f2h p ≠ p.1.1 → ∃ pn, ctxRemap sch cells (hdr f2h p) = .ok pn ∧
          simpleName pn = true ∧ remap h2f pn = p.1.1)) :
    ∃ cells, unparseRow sch lay (.model kvs) = .ok cells ∧
      parseRow sch cells = .ok (.model kvs) := by
  -- the virtual header→field table: exactly what the written headers must be sent to
  let pairs := fs.zip (kvs.map Prod.snd)
  let h2f' : List (Str × Str) := (pairs.filter nonDefault).map fun p => (hdr f2h p, p.1.1)
  have hback : ∀ p ∈ pairs, nonDefault p = true → remap h2f' (hdr f2h p) = p.1.1 := by
    intro p hp hpn
    have : alookup (hdr f2h p) h2f' = some p.1.1 := by
      apply alookup_of_mem_nodup
      · have : h2f'.map Prod.fst = (pairs.filter nonDefault).map (hdr f2h) := by
          simp only [h2f', List.map_map]
          apply List.map_congr_left
          intro a _; rfl
        rw [this]; exact H1
      · exact List.mem_map.mpr ⟨p, List.mem_filter.mpr ⟨hp, hpn⟩, rfl⟩
    simp [remap, this]
  obtain ⟨cols, trs, hU, hK, hN, hP, hT, hV, hE, hB⟩ :=
    model_fields_spec lay he fs h2f' f2h (fun f _ => posAll lay he f.2.1) hnd hgf kvs []
      (by intro s hs; simp at hs) false hnames hrf hlay H1
      (fun p hp hpn => ⟨H2 p hp hpn, hback p hp hpn⟩)
  have hlen : fs.length = (kvs.map Prod.snd).length := by
    have := congrArg List.length hnames
    simpa using this.symm
  have hun : unparseRow sch lay (.model kvs) = .ok (absCols [] cols) := by
    unfold unparseRow
    rw [htop, unparseRec_model he fs h2f f2h kvs [] [] (by simp [matchesHeaders])]
    have := hU [] (by intro p _ _ kv hkv; simp at hkv)
    rw [zip_map_fst fs _ hlen] at this
    simpa [pathStr] using this
  refine ⟨absCols [] cols, hun, ?_⟩
  have hcolsOk : ∀ c ∈ cols, c.1 ≠ [] ∧ ∀ x ∈ c.1, SegOk x := by
    intro c hc
    obtain ⟨p, hp, hpn, r, e, hr, _⟩ := hK c hc
    rw [e]
    refine ⟨by simp, ?_⟩
    intro x hx
    rcases List.mem_cons.mp hx with rfl | hx
    · exact segOk_simple (H2 p hp hpn)
    · exact hr x hx
  have hkeysnd : ((absCols [] cols).map Prod.fst).Nodup := by
    have : (absCols [] cols).map Prod.fst = (cols.map (·.1)).map keyOf := by
      simp [absCols, List.map_map, Function.comp]
    rw [this]
    apply nodup_map_on _ _ hN
    intro a ha b hb hab
    obtain ⟨ca, hca, rfl⟩ := List.mem_map.mp ha
    obtain ⟨cb, hcb, rfl⟩ := List.mem_map.mp hb
    exact keyOf_inj (hcolsOk ca hca).1 (hcolsOk cb hcb).1 (hcolsOk ca hca).2 (hcolsOk cb hcb).2 hab
  have H := H34 _ hun (by
    intro p hp hpn hpb
    apply alookup_of_mem_nodup _ hkeysnd
    have := hB p hp hpn hpb
    have h2 : (keyOf ([] ++ [hdr f2h p]), printBasic p.2) ∈ absCols [] cols :=
      List.mem_map.mpr ⟨_, this, rfl⟩
    simpa [keyOf_cons, pathStr] using h2)
  -- what the context remap does to every written header
  let g : Str → Str := fun k => match ctxRemap sch (absCols [] cols) k with
    | .ok k' => k'
    | .error _ => k
  have hfact : ∀ c ∈ cols, ColFact fs h2f h2f' f2h g pairs c ∧
      ctxRemap sch (absCols [] cols) (keyOf c.1) = .ok (g (keyOf c.1)) := by
    intro c hc
    obtain ⟨p, hp, hpn, r, e, hr, hr0⟩ := hK c hc
    obtain ⟨hA, hB'⟩ := H p hp hpn
    by_cases hrm : hdr f2h p = p.1.1
    · obtain ⟨h1, h2⟩ := hA hrm
      have hctx : ctxRemap sch (absCols [] cols) (keyOf c.1) = .ok (keyOf c.1) := by
        apply h2
        rw [e, hrm]
        exact headSeg_keyOf (hsimple p.1 (List.of_mem_zip hp).1) r
      have hg : g (keyOf c.1) = keyOf c.1 := by simp only [g, hctx]
      refine ⟨⟨p, hp, hpn, hdr f2h p, r, e, by rw [hg, e], segOk_simple (H2 p hp hpn), hr, ?_,
        hback p hp hpn⟩, by rw [hg]; exact hctx⟩
      rw [hrm]; exact h1
    · obtain ⟨pn, h1, h2, h3⟩ := hB' hrm
      have hr' := hr0 hrm
      subst hr'
      have hkey : keyOf c.1 = hdr f2h p := by rw [e, keyOf_cons]; simp [pathStr]
      have hg : g (keyOf c.1) = pn := by simp only [g, hkey, h1]
      refine ⟨⟨p, hp, hpn, pn, [], e, by rw [hg, keyOf_cons]; simp [pathStr], segOk_simple h2, hr, h3,
        hback p hp hpn⟩, by rw [hg, hkey]; exact h1⟩
  -- the rekeyed row
  have hcells : absCols [] cols = cols.map fun c => (keyOf c.1, c.2) := by simp [absCols]
  have hinj : ∀ a ∈ cols.map (·.1), ∀ b ∈ cols.map (·.1), g (keyOf a) = g (keyOf b) → a = b := by
    intro a ha b hb hab
    obtain ⟨ca, hca, rfl⟩ := List.mem_map.mp ha
    obtain ⟨cb, hcb, rfl⟩ := List.mem_map.mp hb
    obtain ⟨p, hp, _, pn, r, e1, e2, hpn, hr, hbk, _⟩ := (hfact ca hca).1
    obtain ⟨q, hq, _, qn, s, f1, f2, hqn, hs, hbk', _⟩ := (hfact cb hcb).1
    rw [e2, f2] at hab
    have := keyOf_inj (by simp) (by simp)
      (by intro x hx; rcases List.mem_cons.mp hx with rfl | hx; exact hpn; exact hr x hx)
      (by intro x hx; rcases List.mem_cons.mp hx with rfl | hx; exact hqn; exact hs x hx) hab
    obtain ⟨hpq, hrs⟩ := List.cons.inj this
    have hname : p.1.1 = q.1.1 := by rw [← hbk, ← hbk', hpq]
    have hpq' : p = q := by
      have h1 := alookup_zip fs kvs hnames hnd p hp
      have h2 := alookup_zip fs kvs hnames hnd q hq
      have hf1 := fieldLookup_mem fs hnd p.1 (List.of_mem_zip hp).1
      have hf2 := fieldLookup_mem fs hnd q.1 (List.of_mem_zip hq).1
      rw [hname] at h1 hf1
      rw [h2] at h1
      rw [hf2] at hf1
      exact Prod.ext (Option.some.inj hf1).symm (Option.some.inj h1).symm
    rw [e1, f1, hpq', hrs]
  have hnd2 : ((cols.map fun c => (g (keyOf c.1), c.2)).map Prod.fst).Nodup := by
    have : (cols.map fun c => (g (keyOf c.1), c.2)).map Prod.fst =
        (cols.map (·.1)).map (fun a => g (keyOf a)) := by simp [List.map_map, Function.comp]
    rw [this]
    exact nodup_map_on _ _ hN hinj
  have hmapped : (absCols [] cols).map (fun kv => (g kv.1, kv.2)) =
      cols.map fun c => (g (keyOf c.1), c.2) := by
    simp only [absCols, List.map_map]
    apply List.map_congr_left
    intro c _; simp
  have hrekey : rekey sch (absCols [] cols) = .ok (cols.map fun c => (g (keyOf c.1), c.2)) := by
    unfold rekey
    have := rekey_map sch (absCols [] cols) g (absCols [] cols) []
      (by
        intro kv hkv
        rw [hcells] at hkv
        obtain ⟨c, hc, rfl⟩ := List.mem_map.mp hkv
        exact (hfact c hc).2)
      (by rw [List.nil_append, hmapped]; exact hnd2)
    rw [List.nil_append, hmapped] at this
    exact this
  have hstar : ∀ kv ∈ (cols.map fun c => (g (keyOf c.1), c.2)), hasStar kv.1 = false := by
    intro kv hkv
    obtain ⟨c, hc, rfl⟩ := List.mem_map.mp hkv
    obtain ⟨p, _, _, pn, r, _, e2, hpn, hr, _, _⟩ := (hfact c hc).1
    simp only [e2]
    apply hasStar_of_keyChar
    apply keyOf_keyChar
    intro x hx
    rcases List.mem_cons.mp hx with rfl | hx
    · exact hpn
    · exact hr x hx
  unfold parseRow
  rw [rowEntries_of_rekey sch _ _ hrekey hstar]
  have hmm : (cols.map fun c => (g (keyOf c.1), c.2)).map (fun kv => (kv.1, (Sum.inl kv.2 : ColVal))) =
      cols.map fun c => (g (keyOf c.1), Sum.inl c.2) := by
    simp only [List.map_map]
    apply List.map_congr_left
    intro c _; rfl
  simp only [buildTree, hmm, htop]
  have hfold := parse_fold_congr fs h2f h2f' f2h g pairs cols [] (fun c hc => (hfact c hc).1)
  rw [hfold, hP [] (fun _ _ => rfl)]
  simp only [List.nil_append, finish, dropNone_of_all trs (fun kv hkv => (hT kv hkv).2), validate]
  rw [validateFields_of_spec trs fs kvs hnames hV]

end Rpft.Row
