/-
Helper lemmas for C05, second part: a document whose categories / exits are not in re-join
order loads to the same object graph as its reordered copy (`reorderDoc`), which is inside
the domain of `render_load`.
-/
import Rpft.Lemmas.Document
set_option linter.unusedSimpArgs false
set_option linter.unusedVariables false
namespace Rpft.Document
open Rpft

theorem exitOf_uuid (exits : List ExitD) (u : Str) (h : u ∈ exits.map (·.uuid)) : (exitOf exits u).uuid = u := by
  obtain ⟨e, he, heq⟩ := List.mem_map.mp h
  have hs : (exits.find? (fun x => x.uuid == u)).isSome = true := by
    rw [List.find?_isSome]
    exact ⟨e, he, by simp [heq]⟩
  obtain ⟨e', he'⟩ := Option.isSome_iff_exists.mp hs
  have := List.find?_some he'
  simp only [beq_iff_eq] at this
  simp [exitOf, he', this]

theorem exitOf_mem (exits : List ExitD) (u : Str) (h : u ∈ exits.map (·.uuid)) : exitOf exits u ∈ exits := by
  obtain ⟨e, he, heq⟩ := List.mem_map.mp h
  have hs : (exits.find? (fun x => x.uuid == u)).isSome = true := by
    rw [List.find?_isSome]
    exact ⟨e, he, by simp [heq]⟩
  obtain ⟨e', he'⟩ := Option.isSome_iff_exists.mp hs
  simp only [exitOf, he', Option.getD_some]
  exact List.mem_of_find?_eq_some he'

theorem loadCategories_ok' (exits : List ExitD) (cats : List CategoryD)
    (hv : ∀ c ∈ cats, validCategory c = true)
    (hm : ∀ c ∈ cats, c.exitUuid ∈ exits.map (·.uuid)) :
    mapE (loadCategory exits) cats = .ok (cats.map (catImage exits)) :=
  mapE_ok_of_forall cats (fun c hc => loadCategory_ok exits c (hv c hc) (hm c hc))

/-- looking a category's exit up among the exits re-emitted in (any) category order finds the
same exit -/
theorem find_reordered (exits : List ExitD) : ∀ (L : List CategoryD),
    (∀ c ∈ L, c.exitUuid ∈ exits.map (·.uuid)) → ∀ c ∈ L,
    (L.map (fun c => exitOf exits c.exitUuid)).find? (fun e => e.uuid == c.exitUuid) = some (exitOf exits c.exitUuid)
  | [], _, c, hc => by simp at hc
  | c0 :: L, hw, c, hc => by
    have h0 := exitOf_uuid exits c0.exitUuid (hw c0 (by simp))
    by_cases heq : c0.exitUuid = c.exitUuid
    · simp only [List.map_cons, List.find?_cons]
      rw [heq]
      simp only [exitOf_uuid exits c.exitUuid (hw c hc), beq_self_eq_true]
    · have hc' : c ∈ L := by
        rcases List.mem_cons.mp hc with h | h
        · subst h; exact absurd rfl heq
        · exact h
      have hb : ((exitOf exits c0.exitUuid).uuid == c.exitUuid) = false := by
        rw [h0]; simpa using heq
      simp only [List.map_cons, List.find?_cons, hb]
      exact find_reordered exits L (fun x hx => hw x (by simp [hx])) c hc'

theorem catImage_reordered (exits : List ExitD) (L : List CategoryD)
    (hw : ∀ c ∈ L, c.exitUuid ∈ exits.map (·.uuid)) :
    ∀ c ∈ L, catImage (L.map (fun c => exitOf exits c.exitUuid)) c = catImage exits c := by
  intro c hc
  have h := find_reordered exits L hw c hc
  have : exitOf (L.map (fun c => exitOf exits c.exitUuid)) c.exitUuid = exitOf exits c.exitUuid := by
    rw [exitOf, h]
    rfl
  simp only [catImage, this]

theorem wired_reordered (exits : List ExitD) (L : List CategoryD)
    (hw : ∀ c ∈ L, c.exitUuid ∈ exits.map (·.uuid)) :
    ∀ c ∈ L, c.exitUuid ∈ (L.map (fun c => exitOf exits c.exitUuid)).map (·.uuid) := by
  intro c hc
  rw [List.map_map]
  exact List.mem_map.mpr ⟨c, hc, exitOf_uuid exits c.exitUuid (hw c hc)⟩

theorem loadCategories_reordered (exits : List ExitD) (L : List CategoryD)
    (hv : ∀ c ∈ L, validCategory c = true) (hw : ∀ c ∈ L, c.exitUuid ∈ exits.map (·.uuid)) :
    mapE (loadCategory (L.map (fun c => exitOf exits c.exitUuid))) L = .ok (L.map (catImage exits)) := by
  rw [loadCategories_ok' _ L hv (wired_reordered exits L hw)]
  congr 1
  exact List.map_congr_left (catImage_reordered exits L hw)

theorem find_default {cats : List CategoryD} {u : Str} (h : u ∈ cats.map (·.uuid)) :
    ∃ dc, cats.find? (fun c => c.uuid == u) = some dc ∧ dc ∈ cats ∧ dc.uuid = u := by
  obtain ⟨c, hc, heq⟩ := List.mem_map.mp h
  have hs : (cats.find? (fun x => x.uuid == u)).isSome = true := by
    rw [List.find?_isSome]
    exact ⟨c, hc, by simp [heq]⟩
  obtain ⟨dc, hdc⟩ := Option.isSome_iff_exists.mp hs
  have := List.find?_some hdc
  simp only [beq_iff_eq] at this
  exact ⟨dc, hdc, List.mem_of_find?_eq_some hdc, this⟩

theorem firstWith_map (exits : List ExitD) (cats : List CategoryD) (u : Str) :
    firstWith u (cats.map (catImage exits)) = (cats.find? (fun c => c.uuid == u)).map (catImage exits) := by
  simp only [firstWith, List.find?_map]
  rfl

theorem filter_map_catImage (exits : List ExitD) (cats : List CategoryD) (p : Str → Bool) :
    (cats.map (catImage exits)).filter (fun c => p c.uuid) = (cats.filter (fun c => p c.uuid)).map (catImage exits) := by
  rw [List.filter_map]
  rfl

/-- **the loader does not see the order**: a router and its exits load to the same object as
the reordered router with the exits re-emitted in category order -/
theorem loadRouter_reorder (exits : List ExitD) (r : RouterD)
    (hvc : ∀ c ∈ routerCatsD r, validCategory c = true)
    (hw : ∀ c ∈ routerCatsD r, c.exitUuid ∈ exits.map (·.uuid))
    (hd : match r with
      | .random .. => True
      | .switch _ _ cats dflt wait _ => dflt ∈ cats.map (·.uuid) ∧
          ∀ t, wait.bind (·.timeout) = some t → t.categoryUuid ∈ cats.map (·.uuid) ∧ t.categoryUuid ≠ dflt) :
    loadRouter ((routerCatsD (reorderRouter r)).map (fun c => exitOf exits c.exitUuid)) (reorderRouter r)
      = loadRouter exits r := by
  cases r with
  | random cats rn =>
    simp only [reorderRouter, routerCatsD] at hvc hw ⊢
    simp only [loadRouter, loadCategories_reordered exits cats hvc hw, loadCategories_ok' exits cats hvc hw]
  | switch op cases cats dflt wait rn =>
    simp only [routerCatsD] at hvc hw
    obtain ⟨hdm, ht⟩ := hd
    obtain ⟨dc, hdc, hdcm, hdcu⟩ := find_default hdm
    have horig := loadCategories_ok' exits cats hvc hw
    cases hwt : wait.bind (·.timeout) with
    | none =>
      -- no timeout: others ++ [default]
      have hre : reorderRouter (.switch op cases cats dflt wait rn) =
          .switch op cases (cats.filter (fun c => c.uuid != dflt) ++ [dc]) dflt wait rn := by
        simp [reorderRouter, hwt, hdc]
      rw [hre]
      simp only [routerCatsD]
      have hsub : ∀ c ∈ cats.filter (fun c => c.uuid != dflt) ++ [dc], c ∈ cats := by
        intro c hc
        rcases List.mem_append.mp hc with h | h
        · exact (List.mem_filter.mp h).1
        · simp at h; subst h; exact hdcm
      have hcs := loadCategories_reordered exits _ (fun c hc => hvc c (hsub c hc)) (fun c hc => hw c (hsub c hc))
      obtain ⟨hf, hfl⟩ := split1 (catImage exits) (catImage_uuid exits) (cats.filter (fun c => c.uuid != dflt)) dc dflt hdcu
        (fun c hc => by simpa using (List.mem_filter.mp hc).2)
      have hf0 : firstWith dflt (cats.map (catImage exits)) = some (catImage exits dc) := by
        rw [firstWith_map, hdc]; rfl
      have hfl0 : (cats.map (catImage exits)).filter (fun c => c.uuid != dflt)
          = (cats.filter (fun c => c.uuid != dflt)).map (catImage exits) :=
        filter_map_catImage exits cats (fun u => u != dflt)
      -- both sides, branch by branch of `wait`
      cases wait with
      | none => simp only [loadRouter, hcs, horig, hf, hfl, hf0, hfl0]
      | some w =>
        cases w with
        | mk wt timeout =>
          cases timeout with
          | none => simp only [loadRouter, hcs, horig, hf, hfl, hf0, hfl0]
          | some t => simp at hwt
    | some t =>
      obtain ⟨htm, htne⟩ := ht t hwt
      obtain ⟨nc, hnc, hncm, hncu⟩ := find_default htm
      have hre : reorderRouter (.switch op cases cats dflt wait rn) =
          .switch op cases (cats.filter (fun c => c.uuid != dflt && c.uuid != t.categoryUuid) ++ [dc] ++ [nc]) dflt wait rn := by
        simp [reorderRouter, hwt, hdc, hnc]
      rw [hre]
      simp only [routerCatsD]
      have hsub : ∀ c ∈ cats.filter (fun c => c.uuid != dflt && c.uuid != t.categoryUuid) ++ [dc] ++ [nc], c ∈ cats := by
        intro c hc
        rcases List.mem_append.mp hc with h | h
        · rcases List.mem_append.mp h with h | h
          · exact (List.mem_filter.mp h).1
          · simp at h; subst h; exact hdcm
        · simp at h; subst h; exact hncm
      have hcs := loadCategories_reordered exits _ (fun c hc => hvc c (hsub c hc)) (fun c hc => hw c (hsub c hc))
      obtain ⟨hf, hf2, hfl⟩ := split2 (catImage exits) (catImage_uuid exits)
        (cats.filter (fun c => c.uuid != dflt && c.uuid != t.categoryUuid)) dc nc dflt t.categoryUuid hdcu hncu
        (fun h => htne h.symm)
        (fun c hc => by
          have := (List.mem_filter.mp hc).2
          simpa using this)
      have hf0 : firstWith dflt (cats.map (catImage exits)) = some (catImage exits dc) := by
        rw [firstWith_map, hdc]; rfl
      have hf20 : firstWith t.categoryUuid (cats.map (catImage exits)) = some (catImage exits nc) := by
        rw [firstWith_map, hnc]; rfl
      have hfl0 : (cats.map (catImage exits)).filter (fun c => c.uuid != dflt && c.uuid != t.categoryUuid)
          = (cats.filter (fun c => c.uuid != dflt && c.uuid != t.categoryUuid)).map (catImage exits) :=
        filter_map_catImage exits cats (fun u => u != dflt && u != t.categoryUuid)
      cases wait with
      | none => simp at hwt
      | some w =>
        cases w with
        | mk wt timeout =>
          cases timeout with
          | none => simp at hwt
          | some t' =>
            have : t' = t := by simpa using hwt
            subst this
            simp only [loadRouter, hcs, horig, hf, hf2, hfl, hf0, hf20, hfl0]

end Rpft.Document
