/-
Helper lemmas for C05, second part: a document whose categories / exits are not in re-join
order loads to the same object graph as its reordered copy (`reorderDoc`), which is inside
the domain of `render_load`.
-/
import Rpft.Lemmas.Document
set_option linter.unusedSimpArgs false
set_option linter.unusedVariables false
namespace Rpft.Document
open Rpft

theorem exitOf_uuid (exits : List ExitD) (u : Str) (h : u ∈ exits.map (·.uuid)) : (exitOf exits u).uuid = u := by
  obtain ⟨e, he, heq⟩ := List.mem_map.mp h
  have hs : (exits.find? (fun x => x.uuid == u)).isSome = true := by
    rw [List.find?_isSome]
    exact ⟨e, he, by simp [heq]⟩
  obtain ⟨e', he'⟩ := Option.isSome_iff_exists.mp hs
  have := List.find?_some he'
  simp only [beq_iff_eq] at this
  simp [exitOf, he', this]

theorem exitOf_mem (exits : List ExitD) (u : Str) (h : u ∈ exits.map (·.uuid)) : exitOf exits u ∈ exits := by
  obtain ⟨e, he, heq⟩ := List.mem_map.mp h
  have hs : (exits.find? (fun x => x.uuid == u)).isSome = true := by
    rw [List.find?_isSome]
    exact ⟨e, he, by simp [heq]⟩
  obtain ⟨e', he'⟩ := Option.isSome_iff_exists.mp hs
  simp only [exitOf, he', Option.getD_some]
  exact List.mem_of_find?_eq_some he'

theorem loadCategories_ok' (exits : List ExitD) (cats : List CategoryD)
    (hv : ∀ c ∈ cats, validCategory c = true)
    (hm : ∀ c ∈ cats, c.exitUuid ∈ exits.map (·.uuid)) :
    mapE (loadCategory exits) cats = .ok (cats.map (catImage exits)) :=
  mapE_ok_of_forall cats (fun c hc => loadCategory_ok exits c (hv c hc) (hm c hc))

/-- looking a category's exit up among the exits re-emitted in (any) category order finds the
same exit -/
theorem find_reordered (exits : List ExitD) : ∀ (L : List CategoryD),
    (∀ c ∈ L, c.exitUuid ∈ exits.map (·.uuid)) → ∀ c ∈ L,
    (L.map (fun c => exitOf exits c.exitUuid)).find? (fun e => e.uuid == c.exitUuid) = some (exitOf exits c.exitUuid)
  | [], _, c, hc => by simp at hc
  | c0 :: L, hw, c, hc => by
    have h0 := exitOf_uuid exits c0.exitUuid (hw c0 (by simp))
    by_cases heq : c0.exitUuid = c.exitUuid
    · simp only [List.map_cons, List.find?_cons]
      rw [heq]
      simp only [exitOf_uuid exits c.exitUuid (hw c hc), beq_self_eq_true]
    · have hc' : c ∈ L := by
        rcases List.mem_cons.mp hc with h | h
        · subst h; exact absurd rfl heq
        · exact h
      have hb : ((exitOf exits c0.exitUuid).uuid == c.exitUuid) = false := by
        rw [h0]; simpa using heq
      simp only [List.map_cons, List.find?_cons, hb]
      exact find_reordered exits L (fun x hx => hw x (by simp [hx])) c hc'

theorem catImage_reordered (exits : List ExitD) (L : List CategoryD)
    (hw : ∀ c ∈ L, c.exitUuid ∈ exits.map (·.uuid)) :
    ∀ c ∈ L, catImage (L.map (fun c => exitOf exits c.exitUuid)) c = catImage exits c := by
  intro c hc
  have h := find_reordered exits L hw c hc
  have : exitOf (L.map (fun c => exitOf exits c.exitUuid)) c.exitUuid = exitOf exits c.exitUuid := by
    rw [exitOf, h]
    rfl
  simp only [catImage, this]

theorem wired_reordered (exits : List ExitD) (L : List CategoryD)
    (hw : ∀ c ∈ L, c.exitUuid ∈ exits.map (·.uuid)) :
    ∀ c ∈ L, c.exitUuid ∈ (L.map (fun c => exitOf exits c.exitUuid)).map (·.uuid) := by
  intro c hc
  rw [List.map_map]
  exact List.mem_map.mpr ⟨c, hc, exitOf_uuid exits c.exitUuid (hw c hc)⟩

theorem loadCategories_reordered (exits : List ExitD) (L : List CategoryD)
    (hv : ∀ c ∈ L, validCategory c = true) (hw : ∀ c ∈ L, c.exitUuid ∈ exits.map (·.uuid)) :
    mapE (loadCategory (L.map (fun c => exitOf exits c.exitUuid))) L = .ok (L.map (catImage exits)) := by
  rw [loadCategories_ok' _ L hv (wired_reordered exits L hw)]
  congr 1
  exact List.map_congr_left (catImage_reordered exits L hw)

theorem find_default {cats : List CategoryD} {u : Str} (h : u ∈ cats.map (·.uuid)) :
    ∃ dc, cats.find? (fun c => c.uuid == u) = some dc ∧ dc ∈ cats ∧ dc.uuid = u := by
  obtain ⟨c, hc, heq⟩ := List.mem_map.mp h
  have hs : (cats.find? (fun x => x.uuid == u)).isSome = true := by
    rw [List.find?_isSome]
    exact ⟨c, hc, by simp [heq]⟩
  obtain ⟨dc, hdc⟩ := Option.isSome_iff_exists.mp hs
  have := List.find?_some hdc
  simp only [beq_iff_eq] at this
  exact ⟨dc, hdc, List.mem_of_find?_eq_some hdc, this⟩

theorem firstWith_map (exits : List ExitD) (cats : List CategoryD) (u : Str) :
    firstWith u (cats.map (catImage exits)) = (cats.find? (fun c => c.uuid == u)).map (catImage exits) := by
  simp only [firstWith, List.find?_map]
  rfl

theorem filter_map_catImage (exits : List ExitD) (cats : List CategoryD) (p : Str → Bool) :
    (cats.map (catImage exits)).filter (fun c => p c.uuid) = (cats.filter (fun c => p c.uuid)).map (catImage exits) := by
  rw [List.filter_map]
  rfl

/-- **the loader does not see the order**: a router and its exits load to the same object as
the reordered router with the exits re-emitted in category order -/
theorem loadRouter_reorder (exits : List ExitD) (r : RouterD)
    (hvc : ∀ c ∈ routerCatsD r, validCategory c = true)
    (hw : ∀ c ∈ routerCatsD r, c.exitUuid ∈ exits.map (·.uuid))
    (hd : match r with
      | .random .. => True
      | .switch _ _ cats dflt wait _ => dflt ∈ cats.map (·.uuid) ∧
          ∀ t, wait.bind (·.timeout) = some t → t.categoryUuid ∈ cats.map (·.uuid) ∧ t.categoryUuid ≠ dflt) :
    loadRouter ((routerCatsD (reorderRouter r)).map (fun c => exitOf exits c.exitUuid)) (reorderRouter r)
      = loadRouter exits r := by
  cases r with
  | random cats rn =>
    simp only [reorderRouter, routerCatsD] at hvc hw ⊢
    simp only [loadRouter, loadCategories_reordered exits cats hvc hw, loadCategories_ok' exits cats hvc hw]
  | switch op cases cats dflt wait rn =>
    simp only [routerCatsD] at hvc hw
    obtain ⟨hdm, ht⟩ := hd
    obtain ⟨dc, hdc, hdcm, hdcu⟩ := find_default hdm
    have horig := loadCategories_ok' exits cats hvc hw
    cases hwt : wait.bind (·.timeout) with
    | none =>
      -- no timeout: others ++ [default]
      have hre : reorderRouter (.switch op cases cats dflt wait rn) =
          .switch op cases (cats.filter (fun c => c.uuid != dflt) ++ [dc]) dflt wait rn := by
        simp [reorderRouter, hwt, hdc]
      rw [hre]
      simp only [routerCatsD]
      have hsub : ∀ c ∈ cats.filter (fun c => c.uuid != dflt) ++ [dc], c ∈ cats := by
        intro c hc
        rcases List.mem_append.mp hc with h | h
        · exact (List.mem_filter.mp h).1
        · simp at h; subst h; exact hdcm
      have hcs := loadCategories_reordered exits _ (fun c hc => hvc c (hsub c hc)) (fun c hc => hw c (hsub c hc))
      obtain ⟨hf, hfl⟩ := split1 (catImage exits) (catImage_uuid exits) (cats.filter (fun c => c.uuid != dflt)) dc dflt hdcu
        (fun c hc => by simpa using (List.mem_filter.mp hc).2)
      have hf0 : firstWith dflt (cats.map (catImage exits)) = some (catImage exits dc) := by
        rw [firstWith_map, hdc]; rfl
      have hfl0 : (cats.map (catImage exits)).filter (fun c => c.uuid != dflt)
          = (cats.filter (fun c => c.uuid != dflt)).map (catImage exits) :=
        filter_map_catImage exits cats (fun u => u != dflt)
      -- both sides, branch by branch of `wait`
      cases wait with
      | none => simp only [loadRouter, hcs, horig, hf, hfl, hf0, hfl0]
      | some w =>
        cases w with
        | mk wt timeout =>
          cases timeout with
          | none => simp only [loadRouter, hcs, horig, hf, hfl, hf0, hfl0]
          | some t => simp at hwt
    | some t =>
      obtain ⟨htm, htne⟩ := ht t hwt
      obtain ⟨nc, hnc, hncm, hncu⟩ := find_default htm
      have hre : reorderRouter (.switch op cases cats dflt wait rn) =
          .switch op cases (cats.filter (fun c => c.uuid != dflt && c.uuid != t.categoryUuid) ++ [dc] ++ [nc]) dflt wait rn := by
        simp [reorderRouter, hwt, hdc, hnc]
      rw [hre]
      simp only [routerCatsD]
      have hsub : ∀ c ∈ cats.filter (fun c => c.uuid != dflt && c.uuid != t.categoryUuid) ++ [dc] ++ [nc], c ∈ cats := by
        intro c hc
        rcases List.mem_append.mp hc with h | h
        · rcases List.mem_append.mp h with h | h
          · exact (List.mem_filter.mp h).1
          · simp at h; subst h; exact hdcm
        · simp at h; subst h; exact hncm
      have hcs := loadCategories_reordered exits _ (fun c hc => hvc c (hsub c hc)) (fun c hc => hw c (hsub c hc))
      obtain ⟨hf, hf2, hfl⟩ := split2 (catImage exits) (catImage_uuid exits)
        (cats.filter (fun c => c.uuid != dflt && c.uuid != t.categoryUuid)) dc nc dflt t.categoryUuid hdcu hncu
        (fun h => htne h.symm)
        (fun c hc => by
          have := (List.mem_filter.mp hc).2
          simpa using this)
      have hf0 : firstWith dflt (cats.map (catImage exits)) = some (catImage exits dc) := by
        rw [firstWith_map, hdc]; rfl
      have hf20 : firstWith t.categoryUuid (cats.map (catImage exits)) = some (catImage exits nc) := by
        rw [firstWith_map, hnc]; rfl
      have hfl0 : (cats.map (catImage exits)).filter (fun c => c.uuid != dflt && c.uuid != t.categoryUuid)
          = (cats.filter (fun c => c.uuid != dflt && c.uuid != t.categoryUuid)).map (catImage exits) :=
        filter_map_catImage exits cats (fun u => u != dflt && u != t.categoryUuid)
      cases wait with
      | none => simp at hwt
      | some w =>
        cases w with
        | mk wt timeout =>
          cases timeout with
          | none => simp at hwt
          | some t' =>
            have : t' = t := by simpa using hwt
            subst this
            simp only [loadRouter, hcs, horig, hf, hf2, hfl, hf0, hf20, hfl0]

/-! ### the reordered router: structure, validity, order -/

theorem reorder_switch (op : Blob) (cases : List CaseD) (cats : List CategoryD) (dflt : Str) (wait : Option WaitD)
    (rn : Option Blob) (hd : dflt ∈ cats.map (·.uuid))
    (ht : ∀ t, wait.bind (·.timeout) = some t → t.categoryUuid ∈ cats.map (·.uuid) ∧ t.categoryUuid ≠ dflt) :
    ∃ F dc tail, reorderRouter (.switch op cases cats dflt wait rn) = .switch op cases (F ++ [dc] ++ tail) dflt wait rn ∧
      F.Sublist cats ∧ dc ∈ cats ∧ dc.uuid = dflt ∧ (∀ c ∈ F, c.uuid ≠ dflt) ∧
      ((wait.bind (·.timeout) = none ∧ tail = []) ∨
       (∃ t nc, wait.bind (·.timeout) = some t ∧ tail = [nc] ∧ nc ∈ cats ∧ nc.uuid = t.categoryUuid ∧
          t.categoryUuid ≠ dflt ∧ ∀ c ∈ F, c.uuid ≠ t.categoryUuid)) := by
  obtain ⟨dc, hdc, hdcm, hdcu⟩ := find_default hd
  cases hwt : wait.bind (·.timeout) with
  | none =>
    refine ⟨cats.filter (fun c => c.uuid != dflt), dc, [], ?_, List.filter_sublist, hdcm, hdcu, ?_, Or.inl ⟨rfl, rfl⟩⟩
    · simp [reorderRouter, hwt, hdc]
    · intro c hc
      simpa using (List.mem_filter.mp hc).2
  | some t =>
    obtain ⟨htm, htne⟩ := ht t hwt
    obtain ⟨nc, hnc, hncm, hncu⟩ := find_default htm
    refine ⟨cats.filter (fun c => c.uuid != dflt && c.uuid != t.categoryUuid), dc, [nc], ?_, List.filter_sublist, hdcm, hdcu, ?_,
      Or.inr ⟨t, nc, rfl, rfl, hncm, hncu, htne, ?_⟩⟩
    · simp [reorderRouter, hwt, hdc, hnc]
    · intro c hc
      have := (List.mem_filter.mp hc).2
      simp only [Bool.and_eq_true, bne_iff_ne, ne_eq] at this
      exact this.1
    · intro c hc
      have := (List.mem_filter.mp hc).2
      simp only [Bool.and_eq_true, bne_iff_ne, ne_eq] at this
      exact this.2

/-- a function that is injective on `cats` stays duplicate-free on the reordered list -/
theorem nodup_reordered {β : Type} (f : CategoryD → β) (cats F : List CategoryD) (dc : CategoryD) (tail : List CategoryD)
    (hnd : (cats.map f).Nodup) (hF : F.Sublist cats) (hdc : dc ∈ cats) (hdcF : dc ∉ F)
    (htail : tail = [] ∨ ∃ nc, tail = [nc] ∧ nc ∈ cats ∧ nc ∉ F ∧ nc ≠ dc) :
    ((F ++ [dc] ++ tail).map f).Nodup := by
  have hinj : ∀ a ∈ cats, ∀ b ∈ cats, f a = f b → a = b := by
    intro a ha b hb hab
    clear hF hdc hdcF htail
    induction cats with
    | nil => simp at ha
    | cons x xs ih =>
      simp only [List.map_cons, List.nodup_cons] at hnd
      rcases List.mem_cons.mp ha with rfl | ha' <;> rcases List.mem_cons.mp hb with rfl | hb'
      · rfl
      · exact absurd (hab ▸ List.mem_map_of_mem hb') hnd.1
      · exact absurd (hab ▸ List.mem_map_of_mem ha') hnd.1
      · exact ih hnd.2 ha' hb'
  have hFn : (F.map f).Nodup := (hF.map f).nodup hnd
  have hFm : ∀ c ∈ F, c ∈ cats := fun c hc => hF.subset hc
  have h1 : ((F ++ [dc]).map f).Nodup := by
    rw [List.map_append, List.nodup_append]
    refine ⟨hFn, by simp, ?_⟩
    intro a ha b hb hab
    obtain ⟨c, hc, rfl⟩ := List.mem_map.mp ha
    simp only [List.map_cons, List.map_nil, List.mem_singleton] at hb
    subst hb
    exact hdcF (hinj c (hFm c hc) dc hdc hab ▸ hc)
  rcases htail with rfl | ⟨nc, rfl, hncm, hncF, hne⟩
  · simpa using h1
  · rw [List.map_append, List.nodup_append]
    refine ⟨h1, by simp, ?_⟩
    intro a ha b hb hab
    simp only [List.map_cons, List.map_nil, List.mem_singleton] at hb
    subst hb
    obtain ⟨c, hc, rfl⟩ := List.mem_map.mp ha
    rcases List.mem_append.mp hc with hc | hc
    · exact hncF (hinj c (hFm c hc) nc hncm hab ▸ hc)
    · simp only [List.mem_singleton] at hc
      subst hc
      exact hne (hinj c hdc nc hncm hab).symm

/-- what `catsWired` says, unpacked -/
theorem catsWired_unpack (uuid : Str) (actions : List ActionD) (r : RouterD) (exits : List ExitD)
    (hw : catsWired { uuid := uuid, actions := actions, router := some r, exits := exits } = true) :
    (∀ c ∈ routerCatsD r, c.exitUuid ∈ exits.map (·.uuid)) ∧ ((routerCatsD r).map (·.exitUuid)).Nodup ∧
    (match r with
      | .random .. => True
      | .switch _ _ cats dflt wait _ => dflt ∈ cats.map (·.uuid) ∧
          ∀ t, wait.bind (·.timeout) = some t → t.categoryUuid ∈ cats.map (·.uuid) ∧ t.categoryUuid ≠ dflt) := by
  simp only [catsWired, Bool.and_eq_true, decide_eq_true_eq, List.all_eq_true, List.contains_eq_mem] at hw
  obtain ⟨⟨h1, h2⟩, h3⟩ := hw
  refine ⟨h1, h2, ?_⟩
  cases r with
  | random cats rn => trivial
  | switch op cases cats dflt wait rn =>
    simp only [Bool.and_eq_true, decide_eq_true_eq, List.contains_eq_mem] at h3
    refine ⟨h3.1, ?_⟩
    intro t ht
    have := h3.2
    simp only [ht, Bool.and_eq_true, decide_eq_true_eq, List.contains_eq_mem, bne_iff_ne, ne_eq] at this
    exact this

theorem reorderRouter_facts (r : RouterD) (hv : validRouter r = true)
    (hxd : ((routerCatsD r).map (·.exitUuid)).Nodup)
    (hd : match r with
      | .random .. => True
      | .switch _ _ cats dflt wait _ => dflt ∈ cats.map (·.uuid) ∧
          ∀ t, wait.bind (·.timeout) = some t → t.categoryUuid ∈ cats.map (·.uuid) ∧ t.categoryUuid ≠ dflt) :
    (∀ c ∈ routerCatsD (reorderRouter r), c ∈ routerCatsD r) ∧
    ((routerCatsD (reorderRouter r)).map (·.exitUuid)).Nodup ∧
    validRouter (reorderRouter r) = true ∧ orderedRouter (reorderRouter r) = true ∧
    routerCasesD (reorderRouter r) = routerCasesD r := by
  cases r with
  | random cats rn => exact ⟨fun c h => h, hxd, hv, rfl, rfl⟩
  | switch op cases cats dflt wait rn =>
    obtain ⟨hdm, ht⟩ := hd
    obtain ⟨F, dc, tail, hre, hF, hdcm, hdcu, hFd, htail⟩ := reorder_switch op cases cats dflt wait rn hdm ht
    simp only [validRouter, Bool.and_eq_true, decide_eq_true_eq] at hv
    obtain ⟨⟨⟨hvc, hnd⟩, hcases⟩, hwait⟩ := hv
    simp only [routerCatsD] at hxd
    have hdcF : dc ∉ F := fun h => hFd dc h hdcu
    have htail' : tail = [] ∨ ∃ nc, tail = [nc] ∧ nc ∈ cats ∧ nc ∉ F ∧ nc ≠ dc := by
      rcases htail with ⟨_, h⟩ | ⟨t, nc, _, h, hncm, hncu, htne, hFt⟩
      · exact Or.inl h
      · refine Or.inr ⟨nc, h, hncm, fun hh => hFt nc hh hncu, ?_⟩
        intro heq
        subst heq
        exact htne (hncu.symm.trans hdcu)
    have hsub : ∀ c ∈ F ++ [dc] ++ tail, c ∈ cats := by
      intro c hc
      rcases List.mem_append.mp hc with h | h
      · rcases List.mem_append.mp h with h | h
        · exact hF.subset h
        · simp at h; subst h; exact hdcm
      · rcases htail' with rfl | ⟨nc, rfl, hncm, _, _⟩
        · simp at h
        · simp at h; subst h; exact hncm
    rw [hre]
    simp only [routerCatsD, routerCasesD]
    refine ⟨hsub, nodup_reordered (·.exitUuid) cats F dc tail hxd hF hdcm hdcF htail', ?_, ?_, trivial⟩
    · simp only [validRouter, Bool.and_eq_true, decide_eq_true_eq]
      refine ⟨⟨⟨?_, nodup_reordered (·.uuid) cats F dc tail hnd hF hdcm hdcF htail'⟩, hcases⟩, hwait⟩
      rw [List.all_eq_true]
      intro c hc
      exact (List.all_eq_true.mp hvc) c (hsub c hc)
    · rcases htail with ⟨hwt, rfl⟩ | ⟨t, nc, hwt, rfl, _, hncu, _, _⟩
      · simp [orderedRouter, hwt, hdcu]
      · simp [orderedRouter, hwt, hdcu, hncu]

theorem validRouter_cats (r : RouterD) (h : validRouter r = true) : ∀ c ∈ routerCatsD r, validCategory c = true := by
  cases r with
  | random cats rn =>
    simp only [validRouter, Bool.and_eq_true] at h
    exact fun c hc => (List.all_eq_true.mp h.1) c hc
  | switch op cases cats dflt wait rn =>
    simp only [validRouter, Bool.and_eq_true] at h
    exact fun c hc => (List.all_eq_true.mp h.1.1.1) c hc

/-- exits re-emitted in the order of `cats'` (all of which are wired categories of the node) -/
theorem reordered_exits (exits : List ExitD) (cats' : List CategoryD)
    (hexits : exits.all validExit = true)
    (hwm' : ∀ c ∈ cats', c.exitUuid ∈ exits.map (·.uuid)) :
    (cats'.map (fun c => exitOf exits c.exitUuid)).map (·.uuid) = cats'.map (·.exitUuid) ∧
    (cats'.map (fun c => exitOf exits c.exitUuid)).all validExit = true ∧
    mapE loadExit (cats'.map (fun c => exitOf exits c.exitUuid)) = .ok (cats'.map (fun c => exitOf exits c.exitUuid)) := by
  have h2 : (cats'.map (fun c => exitOf exits c.exitUuid)).all validExit = true := by
    rw [List.all_eq_true]
    intro e he
    obtain ⟨c, hc, rfl⟩ := List.mem_map.mp he
    exact (List.all_eq_true.mp hexits) _ (exitOf_mem exits c.exitUuid (hwm' c hc))
  refine ⟨?_, h2, ?_⟩
  · rw [List.map_map]
    exact List.map_congr_left (fun c hc => exitOf_uuid exits c.exitUuid (hwm' c hc))
  · exact mapE_ok_id _ (fun e he => loadExit_ok e ((List.all_eq_true.mp h2) e he))

theorem reorderNode_spec (n : NodeD) (hv : validNode n = true) (hw : catsWired n = true) :
    loadNode (reorderNode n) = loadNode n ∧ validNode (reorderNode n) = true ∧
    exitsByCats (reorderNode n) = true ∧ orderedNode (reorderNode n) = true ∧
    (reorderNode n).actions = n.actions ∧ (reorderNode n).uuid = n.uuid ∧
    nodeCasesD (reorderNode n) = nodeCasesD n := by
  cases n with
  | mk uuid actions router exits =>
  cases router with
  | none => exact ⟨rfl, hv, rfl, rfl, rfl, rfl, rfl⟩
  | some r =>
    obtain ⟨hwm, hxd, hd⟩ := catsWired_unpack uuid actions r exits hw
    simp only [validNode, Bool.and_eq_true, bne_iff_ne, ne_eq, decide_eq_true_eq] at hv
    obtain ⟨⟨⟨⟨huuid, hexits⟩, hnd⟩, hacts⟩, hrouter⟩ := hv
    have hex : mapE loadExit exits = .ok exits :=
      mapE_ok_id exits (fun e he => loadExit_ok e ((List.all_eq_true.mp hexits) e he))
    cases r with
    | random cats rn =>
      simp only [Bool.and_eq_true, beq_iff_eq] at hrouter
      obtain ⟨hvr, hnil⟩ := hrouter
      obtain ⟨hsub, hxd', hvr', hor', hcases'⟩ := reorderRouter_facts (.random cats rn) hvr hxd hd
      obtain ⟨huu, hval, hex'⟩ := reordered_exits exits cats hexits hwm
      have hload := loadRouter_reorder exits (.random cats rn) (validRouter_cats _ hvr) hwm hd
      simp only [reorderRouter, routerCatsD] at hload hxd
      have hdef : reorderNode { uuid := uuid, actions := actions, router := some (.random cats rn), exits := exits }
          = { uuid := uuid, actions := actions, router := some (.random cats rn),
              exits := cats.map (fun c => exitOf exits c.exitUuid) } := rfl
      rw [hdef]
      refine ⟨?_, ?_, ?_, rfl, rfl, rfl, rfl⟩
      · simp only [loadNode, if_neg huuid, hex, hex', hload]
      · simp only [validNode, Bool.and_eq_true, bne_iff_ne, ne_eq, decide_eq_true_eq, beq_iff_eq]
        exact ⟨⟨⟨⟨huuid, hval⟩, by rw [huu]; exact hxd⟩, hacts⟩, hvr, hnil⟩
      · simp only [exitsByCats, routerCatsD, beq_iff_eq]
        exact huu
    | switch op cases cats dflt wait rn =>
      simp only [Bool.and_eq_true] at hrouter
      obtain ⟨hvr, hshape⟩ := hrouter
      obtain ⟨hsub, hxd', hvr', hor', hcases'⟩ := reorderRouter_facts (.switch op cases cats dflt wait rn) hvr hxd hd
      obtain ⟨F, dc, tail, hre, _⟩ := reorder_switch op cases cats dflt wait rn hd.1 hd.2
      have hload := loadRouter_reorder exits (.switch op cases cats dflt wait rn) (validRouter_cats _ hvr) hwm hd
      have hdef : reorderNode { uuid := uuid, actions := actions, router := some (.switch op cases cats dflt wait rn), exits := exits }
          = { uuid := uuid, actions := actions, router := some (reorderRouter (.switch op cases cats dflt wait rn)),
              exits := (routerCatsD (reorderRouter (.switch op cases cats dflt wait rn))).map (fun c => exitOf exits c.exitUuid) } := rfl
      rw [hdef]
      rw [hre] at hload hsub hxd' hvr' hor' hcases' ⊢
      simp only [routerCatsD] at hload hsub hxd' ⊢
      obtain ⟨huu, hval, hex'⟩ := reordered_exits exits (F ++ [dc] ++ tail) hexits (fun c hc => hwm c (hsub c hc))
      refine ⟨?_, ?_, ?_, ?_, trivial, trivial, ?_⟩
      · simp only [loadNode, if_neg huuid, hex, hex', hload]
      · simp only [validNode, Bool.and_eq_true, bne_iff_ne, ne_eq, decide_eq_true_eq]
        exact ⟨⟨⟨⟨huuid, hval⟩, by rw [huu]; exact hxd'⟩, hacts⟩, hvr', hshape⟩
      · simp only [exitsByCats, routerCatsD, beq_iff_eq]
        exact huu
      · simpa [orderedNode] using hor'
      · simpa [nodeCasesD] using hcases'

/-! ### the whole document -/

theorem mapE_map_congr {α β : Type} {f : α → Except Err β} {g : α → α} : ∀ (l : List α),
    (∀ a ∈ l, f (g a) = f a) → mapE f (l.map g) = mapE f l
  | [], _ => rfl
  | a :: as, h => by
    simp only [List.map_cons, mapE, h a (by simp), mapE_map_congr as (fun x hx => h x (by simp [hx]))]

def reorderFlow (f : FlowD) : FlowD := { f with nodes := f.nodes.map reorderNode }

theorem reorderDoc_flows (d : DocD) : (reorderDoc d).flows = d.flows.map reorderFlow := rfl

/-- per-node hypotheses of this part -/
def NodeWired (n : NodeD) : Prop := validNode n = true ∧ catsWired n = true

theorem loadFlow_reorder (f : FlowD) (hn : ∀ n ∈ f.nodes, NodeWired n) : loadFlow (reorderFlow f) = loadFlow f := by
  have hmap : mapE loadNode (f.nodes.map reorderNode) = mapE loadNode f.nodes :=
    mapE_map_congr f.nodes (fun n h => (reorderNode_spec n (hn n h).1 (hn n h).2).1)
  simp only [loadFlow, reorderFlow, hmap]
  rfl

theorem load_reorder (d : DocD) (hn : ∀ f ∈ d.flows, ∀ n ∈ f.nodes, NodeWired n) : load (reorderDoc d) = load d := by
  have hmap : mapE loadFlow (d.flows.map reorderFlow) = mapE loadFlow d.flows :=
    mapE_map_congr d.flows (fun f hf => loadFlow_reorder f (hn f hf))
  simp only [load, reorderDoc_flows, hmap]
  rfl

theorem roundtrip_reorder (d : DocD) (hn : ∀ f ∈ d.flows, ∀ n ∈ f.nodes, NodeWired n) :
    roundtrip (reorderDoc d) = roundtrip d := by
  simp only [roundtrip, load_reorder d hn]

theorem allNodes_reorderDoc (d : DocD) : allNodes (reorderDoc d) = (allNodes d).map reorderNode := by
  simp only [allNodes, reorderDoc_flows, List.map_map]
  induction d.flows with
  | nil => rfl
  | cons f fs ih =>
    simp only [List.map_cons, List.flatten_cons, List.map_append, ih]
    rfl

theorem nodeWired_of (d : DocD) (hv : Valid d) (hw : CatsWired d) : ∀ f ∈ d.flows, ∀ n ∈ f.nodes, NodeWired n := by
  intro f hf n hn
  have hvf := hv.flows f hf
  simp only [validFlow, Bool.and_eq_true] at hvf
  exact ⟨(List.all_eq_true.mp hvf.2) n hn, hw n (mem_allNodes hf hn)⟩

theorem nodeRefsD_reorder (n : NodeD) (h : NodeWired n) : nodeRefsD (reorderNode n) = nodeRefsD n := by
  obtain ⟨_, _, _, _, hacts, _, hcases⟩ := reorderNode_spec n h.1 h.2
  rw [nodeRefsD_eq, nodeRefsD_eq, hacts, hcases]

theorem nodeFlowRefsD_reorder (n : NodeD) (h : NodeWired n) : nodeFlowRefsD (reorderNode n) = nodeFlowRefsD n := by
  obtain ⟨_, _, _, _, hacts, _, _⟩ := reorderNode_spec n h.1 h.2
  simp only [nodeFlowRefsD, hacts]

theorem map_allNodes_reorder {β : Type} (d : DocD) (φ : NodeD → β) (hn : ∀ n ∈ allNodes d, φ (reorderNode n) = φ n) :
    (allNodes (reorderDoc d)).map φ = (allNodes d).map φ := by
  rw [allNodes_reorderDoc, List.map_map]
  exact List.map_congr_left hn

theorem valid_reorderDoc (d : DocD) (hv : Valid d) (hw : CatsWired d) : Valid (reorderDoc d) := by
  have hn := nodeWired_of d hv hw
  have hnw : ∀ n ∈ allNodes d, NodeWired n := by
    intro n hm
    obtain ⟨l, hl, hnl⟩ := List.mem_flatten.mp hm
    obtain ⟨f, hf, rfl⟩ := List.mem_map.mp hl
    exact hn f hf n hnl
  have hg : docGroupRefs (reorderDoc d) = docGroupRefs d := by
    have := map_allNodes_reorder d nodeRefsD (fun n h => nodeRefsD_reorder n (hnw n h))
    simp only [docGroupRefs, this]
    rfl
  have hfp : docFlowRefsPre (reorderDoc d) = docFlowRefsPre d := by
    have := map_allNodes_reorder d nodeFlowRefsD (fun n h => nodeFlowRefsD_reorder n (hnw n h))
    have h2 : (reorderDoc d).flows.map (fun f => (f.name, f.uuid)) = d.flows.map (fun f => (f.name, f.uuid)) := by
      rw [reorderDoc_flows, List.map_map]; rfl
    simp only [docFlowRefsPre, this, h2]
    rfl
  have hfr : docFlowRefs (reorderDoc d) = docFlowRefs d := by
    simp only [docFlowRefs, hfp]
    rfl
  exact {
    flows := by
      intro f' hf'
      rw [reorderDoc_flows] at hf'
      obtain ⟨f, hf, rfl⟩ := List.mem_map.mp hf'
      have hvf := hv.flows f hf
      simp only [validFlow, Bool.and_eq_true] at hvf ⊢
      refine ⟨hvf.1, ?_⟩
      simp only [reorderFlow]
      rw [List.all_eq_true]
      intro x hx
      obtain ⟨n, hn', rfl⟩ := List.mem_map.mp hx
      exact (reorderNode_spec n (hn f hf n hn').1 (hn f hf n hn').2).2.1
    campaigns := hv.campaigns
    triggers := hv.triggers
    fields := hv.fields
    site := hv.site
    groupNames := hv.groupNames
    groupUuids := hv.groupUuids
    groupsListed := by rw [hg]; exact hv.groupsListed
    flowRefs := by rw [hfr]; exact hv.flowRefs
    triggerFlows := by rw [hfp]; exact hv.triggerFlows }

theorem hyps_reorderDoc (d : DocD) (hv : Valid d) (hw : CatsWired d) (hu : UntypedFields d) :
    OrderedCats (reorderDoc d) ∧ ExitsByCats (reorderDoc d) ∧ UntypedFields (reorderDoc d) := by
  have hn := nodeWired_of d hv hw
  have hnw : ∀ n ∈ allNodes d, NodeWired n := by
    intro n hm
    obtain ⟨l, hl, hnl⟩ := List.mem_flatten.mp hm
    obtain ⟨f, hf, rfl⟩ := List.mem_map.mp hl
    exact hn f hf n hnl
  refine ⟨?_, ?_, ?_⟩
  · intro n' hn'
    rw [allNodes_reorderDoc] at hn'
    obtain ⟨n, hm, rfl⟩ := List.mem_map.mp hn'
    exact (reorderNode_spec n (hnw n hm).1 (hnw n hm).2).2.2.2.1
  · intro n' hn'
    rw [allNodes_reorderDoc] at hn'
    obtain ⟨n, hm, rfl⟩ := List.mem_map.mp hn'
    exact (reorderNode_spec n (hnw n hm).1 (hnw n hm).2).2.2.1
  · intro n' hn' a ha
    rw [allNodes_reorderDoc] at hn'
    obtain ⟨n, hm, rfl⟩ := List.mem_map.mp hn'
    rw [(reorderNode_spec n (hnw n hm).1 (hnw n hm).2).2.2.2.2.1] at ha
    exact hu n hm a ha

end Rpft.Document
