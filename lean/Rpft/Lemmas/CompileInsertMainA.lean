/-
Assembly, part A: the twin's entry row — applying the edges through the parents of the begin row's
`no_op` group touches neither the entry node nor the new block and its `no_op` group.
-/
import Rpft.Lemmas.CompileInsertDecomp
set_option linter.unusedSimpArgs false
set_option linter.unusedVariables false
namespace Rpft.Compile
open Rpft Function

/-- identity correspondence on the part of the arenas before the block -/
def PselfE (na nt : List Str) (s₀ base : St) : Params := { Pid na nt with DN := fun i => i ≠ s₀.nodes.size, DG := fun j => j < s₀.groups.size ∨ s₀.groups.size + 2 ≤ j, T := fun _ => False, bx := s₀.groups.size, base₁ := base, base₂ := base }

section
variable {na nt : List Str} {s₀ : St} (hg : Good na nt s₀) (ps : List (Nat × Cond)) (n : NodeM) (kk : Nat)

theorem twT_groups_lt {j : Nat} (h : j < s₀.groups.size) : (twT s₀ ps n kk).groups[j]? = s₀.groups[j]? :=
  getElem?_push_push_lt h

theorem twT_groups_G : (twT s₀ ps n kk).groups[s₀.groups.size]? = some (.block [s₀.groups.size + 1]) := by
  show ((s₀.groups.push (.block [s₀.groups.size + 1])).push (.noop ps none))[s₀.groups.size]? = _
  rw [Array.getElem?_push]
  have : ¬ s₀.groups.size = (s₀.groups.push (Grp.block [s₀.groups.size + 1])).size := by simp
  simp [this]

theorem twT_groups_G1 : (twT s₀ ps n kk).groups[s₀.groups.size + 1]? = some (.noop ps none) := by
  show ((s₀.groups.push (.block [s₀.groups.size + 1])).push (.noop ps none))[s₀.groups.size + 1]? = _
  rw [Array.getElem?_push]
  simp

theorem twT_groups_size : (twT s₀ ps n kk).groups.size = s₀.groups.size + 2 := by
  show ((s₀.groups.push _).push _).size = _
  simp

theorem twT_groups_cases {j : Nat} {g : Grp} (h : (twT s₀ ps n kk).groups[j]? = some g) :
    (j < s₀.groups.size ∧ s₀.groups[j]? = some g) ∨ (j = s₀.groups.size ∧ g = .block [s₀.groups.size + 1]) ∨
    (j = s₀.groups.size + 1 ∧ g = .noop ps none) := by
  have hlt := (Array.getElem?_eq_some_iff.mp h).1
  rw [twT_groups_size] at hlt
  rcases Nat.lt_or_ge j s₀.groups.size with h1 | h1
  · rw [twT_groups_lt ps n kk h1] at h; exact .inl ⟨h1, h⟩
  · rcases Nat.lt_or_ge j (s₀.groups.size + 1) with h2 | h2
    · have : j = s₀.groups.size := by omega
      subst this
      rw [twT_groups_G] at h; injection h with h
      exact .inr (.inl ⟨rfl, h.symm⟩)
    · have : j = s₀.groups.size + 1 := by omega
      subst this
      rw [twT_groups_G1] at h; injection h with h
      exact .inr (.inr ⟨rfl, h.symm⟩)

theorem twT_nodes_lt {i : Nat} (h : i < s₀.nodes.size) : (twT s₀ ps n kk).nodes[i]? = s₀.nodes[i]? := by
  show (s₀.nodes.push n)[i]? = _
  rw [Array.getElem?_push]
  have : ¬ i = s₀.nodes.size := by omega
  simp [this]

theorem twT_nodes_N : (twT s₀ ps n kk).nodes[s₀.nodes.size]? = some n := by
  show (s₀.nodes.push n)[s₀.nodes.size]? = _
  simp

theorem twT_nodes_size : (twT s₀ ps n kk).nodes.size = s₀.nodes.size + 1 := by
  show (s₀.nodes.push n).size = _
  simp

include hg in
/-- applying the edges into the block on the twin's side: frame -/
theorem twin_E_frame (hps : ∀ p ∈ ps, p.1 < s₀.groups.size)
    (hdn : Below (s₀.next + kk) n.dexitUid ∨ ¬ Invented n.dexitUid) (f : Nat) (d : Dest) {e₂ : St}
    (hE : (ps.forM (fun p => addExit f p.1 d p.2)).run (twT s₀ ps n kk) = .ok ((), e₂)) :
    e₂.nodes[s₀.nodes.size]? = some n ∧ e₂.groups[s₀.groups.size]? = some (.block [s₀.groups.size + 1]) ∧
    e₂.groups[s₀.groups.size + 1]? = some (.noop ps none) ∧ SEq (twT s₀ ps n kk) e₂ ∧
    e₂.noArgs = na ∧ e₂.testTypes = nt ∧ s₀.next + kk ≤ e₂.next ∧ s₀.nodes.size + 1 ≤ e₂.nodes.size ∧
    e₂.groups.size = s₀.groups.size + 2 ∧ BlkEq (twT s₀ ps n kk) e₂ := by
  have ok : (PselfE na nt s₀ (twT s₀ ps n kk)).Ok :=
    ⟨fun _ _ h => h, fun _ _ h => h, fun _ _ h => h, fun h => Bool.noConfusion h, fun _ _ => rfl, fun h => Bool.noConfusion h⟩
  have ha : ASim (PselfE na nt s₀ (twT s₀ ps n kk)) (twT s₀ ps n kk) (twT s₀ ps n kk) := asim_self (na := na) (nt := nt) (s := twT s₀ ps n kk) (fun i => i ≠ s₀.nodes.size)
    (fun j => j < s₀.groups.size ∨ s₀.groups.size + 2 ≤ j) (fun _ => False) s₀.groups.size
    hg.hna hg.hnt (by rw [twT_groups_size]; omega)
    (by
      intro j g hgj
      rw [twT_nodes_size, twT_groups_size]
      rcases twT_groups_cases ps n kk hgj with ⟨_, h1⟩ | ⟨_, rfl⟩ | ⟨_, rfl⟩
      · have := hg.wf j g h1
        exact ⟨fun i hi => by have := this.1 i hi; omega, fun x hx => by have := this.2 x hx; omega⟩
      · exact ⟨by intro i hi; simp [gnodes] at hi, by intro x hx; simp [grefs] at hx; omega⟩
      · refine ⟨by intro i hi; simp [gnodes] at hi, ?_⟩
        intro x hx
        simp only [grefs, List.mem_map] at hx
        obtain ⟨p, hp, rfl⟩ := hx
        have := hps p hp; omega)
    (by
      intro i m hm
      show Below (s₀.next + kk) m.dexitUid ∨ _
      have hlt := (Array.getElem?_eq_some_iff.mp hm).1
      rw [twT_nodes_size] at hlt
      rcases Nat.lt_or_ge i s₀.nodes.size with h1 | h1
      · rw [twT_nodes_lt ps n kk h1] at hm
        rcases hg.dex i m hm with h' | h'
        · exact .inl (h'.mono (Nat.le_add_right _ _))
        · exact .inr h'
      · have : i = s₀.nodes.size := by omega
        subst this
        rw [twT_nodes_N] at hm; injection hm with hm
        subst hm; exact hdn)
    (by intro i hi; rw [twT_nodes_size] at hi; show i ≠ _; omega)
    (by intro j hj; rw [twT_groups_size] at hj; exact ⟨.inr hj, fun h => h⟩)
    (by
      intro j g hd hgj
      rcases twT_groups_cases ps n kk hgj with ⟨h0, h1⟩ | ⟨h0, _⟩ | ⟨h0, _⟩
      · have := hg.wf j g h1
        exact ⟨fun i hi => by have := this.1 i hi; show i ≠ _; omega, fun x hx => .inl (this.2 x hx)⟩
      · rcases hd with hd | hd <;> omega
      · rcases hd with hd | hd <;> omega)
    (by intro j g _ _ _ x _ h; exact h)
  have hrun := arel_forM (P := PselfE na nt s₀ (twT s₀ ps n kk)) (fun p : Nat × Cond => (id p.1, p.2)) ps
    (fun p => addExit f p.1 d p.2) (fun p => addExit f p.1 (rnDest id d) p.2) ha
    (by
      intro p hp u₁ u₂ hu
      exact addExit_rel ok f f p.1 d p.2 u₁ u₂ hu (.inl (hps p hp)) (fun h => h) (fun h => Bool.noConfusion h))
  have hmap : ps.map (fun p : Nat × Cond => (id p.1, p.2)) = ps := by simp
  have hdd : rnDest id d = d := by cases d <;> rfl
  rw [hmap, hdd] at hrun
  obtain ⟨_, he, e1, _⟩ := hrun () e₂ () e₂ hE hE
  refine ⟨?_, ?_, ?_, e1, he.na₁, he.nt₁, ?_, ?_, ?_, ?_⟩
  · rw [he.fr1n s₀.nodes.size (fun h => h rfl)]; exact twT_nodes_N ps n kk
  · rw [he.fr1g s₀.groups.size (fun h => by rcases h with h | h <;> omega)]; exact twT_groups_G ps n kk
  · rw [he.fr1g (s₀.groups.size + 1) (fun h => by rcases h with h | h <;> omega)]; exact twT_groups_G1 ps n kk
  · exact he.mono₁.1
  · have : (twT s₀ ps n kk).nodes.size ≤ e₂.nodes.size := he.mono₁.2.1
    rw [twT_nodes_size] at this; exact this
  · have := wp_of_run (GSz.forM ps (fun p => addExit f p.1 d p.2) (fun x _ => addExit_gsz f x.1 d x.2)
      (twT s₀ ps n kk)) hE
    rw [this, twT_groups_size]
  · exact wp_of_run (BlkStep.forM ps (fun p => addExit f p.1 d p.2) (fun x _ => addExit_blk f x.1 d x.2)
      (twT s₀ ps n kk)) hE

end

end Rpft.Compile
