/-
Helper lemmas for C05 (`Rpft.Document`).  Property theorems live in `Rpft/Props/C05.lean`.
-/
import Rpft.DocumentSpec
set_option linter.unusedSimpArgs false
set_option linter.unusedVariables false
namespace Rpft.Document
open Rpft

/-! ### mapE -/

theorem mapE_ok_of_forall {α β : Type} {f : α → Except Err β} {g : α → β} :
    ∀ l : List α, (∀ a ∈ l, f a = .ok (g a)) → mapE f l = .ok (l.map g)
  | [], _ => rfl
  | a :: as, h => by
    have h1 := h a (by simp)
    have h2 := mapE_ok_of_forall as (fun x hx => h x (by simp [hx]))
    simp [mapE, h1, h2]

theorem mapE_ok_id {α : Type} {f : α → Except Err α} (l : List α) (h : ∀ a ∈ l, f a = .ok a) :
    mapE f l = .ok l := by
  have := mapE_ok_of_forall (g := id) l h
  simpa using this

/-! ### small facts about blobs -/

theorem dropFalsy_dropNull (o : Option Blob) : dropFalsy (dropNull o) = dropFalsy o := by
  cases o with
  | none => rfl
  | some b =>
    by_cases h : isNull b = true
    · have : b = jNull := by simpa [isNull] using h
      subst this
      decide
    · simp [dropNull, dropFalsy, Option.filter, h]

theorem dropFalsy_idem (o : Option Blob) : dropFalsy (dropFalsy o) = dropFalsy o := by
  cases o with
  | none => rfl
  | some b =>
    by_cases h : truthy b = true <;> simp [dropFalsy, Option.filter, h]

theorem dropNull_idem (o : Option Blob) : dropNull (dropNull o) = dropNull o := by
  cases o with
  | none => rfl
  | some b =>
    by_cases h : isNull b = true <;> simp [dropNull, Option.filter, h]

theorem normGroup_renderGroup (g : GroupD) : normGroup (renderGroup g) = normGroup g := by
  have := dropNull_idem
  simp only [dropNull] at this
  simp [normGroup, renderGroup, dropNull, this]

/-! ### exits and categories -/

/-- the exit a category is connected to by `RouterCategory.from_dict` -/
def exitOf (exits : List ExitD) (u : Str) : ExitD :=
  (exits.find? (fun e => e.uuid == u)).getD { uuid := [], dest := none }

def catImage (exits : List ExitD) (c : CategoryD) : CatC :=
  { uuid := c.uuid, name := c.name, exit := exitOf exits c.exitUuid }

theorem loadExit_ok (e : ExitD) (h : validExit e = true) : loadExit e = .ok e := by
  simp [validExit] at h
  simp [loadExit, h.1]

theorem find_self_of_nodup : ∀ (exits : List ExitD), (exits.map (·.uuid)).Nodup → ∀ e ∈ exits,
    exits.find? (fun x => x.uuid == e.uuid) = some e
  | [], _, e, he => by simp at he
  | x :: xs, hn, e, he => by
    simp only [List.map_cons, List.nodup_cons] at hn
    rcases List.mem_cons.mp he with rfl | hm
    · simp
    · have hne : x.uuid ≠ e.uuid := by
        intro heq
        exact hn.1 (heq ▸ List.mem_map_of_mem hm)
      simp [List.find?_cons, hne, find_self_of_nodup xs hn.2 e hm]

theorem exitOf_self (exits : List ExitD) (hn : (exits.map (·.uuid)).Nodup) :
    exits.map (fun e => exitOf exits e.uuid) = exits := by
  have : ∀ e ∈ exits, exitOf exits e.uuid = e := by
    intro e he
    simp [exitOf, find_self_of_nodup exits hn e he]
  calc exits.map (fun e => exitOf exits e.uuid) = exits.map id := List.map_congr_left this
    _ = exits := by simp

theorem loadCategory_ok (exits : List ExitD) (c : CategoryD) (hv : validCategory c = true)
    (hm : c.exitUuid ∈ exits.map (·.uuid)) : loadCategory exits c = .ok (catImage exits c) := by
  simp [validCategory] at hv
  obtain ⟨e, he, heq⟩ := List.mem_map.mp hm
  have hs : (exits.find? (fun x => x.uuid == c.exitUuid)).isSome = true := by
    rw [List.find?_isSome]
    exact ⟨e, he, by simp [heq]⟩
  obtain ⟨e', he'⟩ := Option.isSome_iff_exists.mp hs
  have hlen : ¬ 115 < c.name.length := by omega
  simp [loadCategory, he', hv.1, hlen, catImage, exitOf]

/-- all categories of a router load, each to its image, when the exits are those the
categories name -/
theorem loadCategories_ok (exits : List ExitD) (cats : List CategoryD)
    (hv : cats.all validCategory = true)
    (hx : exits.map (·.uuid) = cats.map (·.exitUuid)) :
    mapE (loadCategory exits) cats = .ok (cats.map (catImage exits)) := by
  apply mapE_ok_of_forall
  intro c hc
  apply loadCategory_ok
  · exact (List.all_eq_true.mp hv) c hc
  · rw [hx]; exact List.mem_map_of_mem hc

theorem catImage_exits (exits : List ExitD) (cats : List CategoryD)
    (hn : (exits.map (·.uuid)).Nodup) (hx : exits.map (·.uuid) = cats.map (·.exitUuid)) :
    (cats.map (catImage exits)).map (·.exit) = exits := by
  have h1 : (cats.map (catImage exits)).map (·.exit) = (cats.map (·.exitUuid)).map (exitOf exits) := by
    simp [catImage, Function.comp_def]
  rw [h1, ← hx, List.map_map]
  exact exitOf_self exits hn

theorem catImage_render (exits : List ExitD) (cats : List CategoryD)
    (hn : (exits.map (·.uuid)).Nodup) (hx : exits.map (·.uuid) = cats.map (·.exitUuid)) :
    (cats.map (catImage exits)).map renderCat = cats := by
  have hex := catImage_exits exits cats hn hx
  have : ((cats.map (catImage exits)).map (·.exit)).map (·.uuid) = cats.map (·.exitUuid) := by
    rw [hex, hx]
  -- pointwise: the exit found for `c` has uuid `c.exitUuid`
  have hp : ∀ c ∈ cats, (exitOf exits c.exitUuid).uuid = c.exitUuid := by
    intro c hc
    have hm : c.exitUuid ∈ exits.map (·.uuid) := by rw [hx]; exact List.mem_map_of_mem hc
    obtain ⟨e, he, heq⟩ := List.mem_map.mp hm
    have := find_self_of_nodup exits hn e he
    simp only [heq] at this
    simp [exitOf, this, heq]
  rw [List.map_map]
  calc cats.map (renderCat ∘ catImage exits) = cats.map id := by
        apply List.map_congr_left
        intro c hc
        simp [renderCat, catImage, hp c hc]
    _ = cats := by simp

/-! ### the category split of `SwitchRouter.from_dict` and the re-join of `get_categories` -/

theorem ordered_struct1 {cats : List CategoryD} {dflt : Str}
    (hn : (cats.map (·.uuid)).Nodup) (hl : (cats.map (·.uuid)).getLast? = some dflt) :
    ∃ pre d, cats = pre ++ [d] ∧ d.uuid = dflt ∧ ∀ c ∈ pre, c.uuid ≠ dflt := by
  obtain ⟨ys, hys⟩ := List.getLast?_eq_some_iff.mp hl
  obtain ⟨pre, l2, hcat, hpre, hl2⟩ := List.map_eq_append_iff.mp hys
  obtain ⟨d, rfl, hd⟩ := List.map_eq_singleton_iff.mp hl2
  refine ⟨pre, d, hcat, hd, ?_⟩
  intro c hc heq
  rw [hys, List.nodup_append] at hn
  exact hn.2.2 c.uuid (hpre ▸ List.mem_map_of_mem hc) dflt (by simp) heq

theorem ordered_struct2 {cats : List CategoryD} {dflt tc : Str} {rest : List Str}
    (hn : (cats.map (·.uuid)).Nodup) (hl : (cats.map (·.uuid)).reverse = tc :: dflt :: rest) :
    ∃ pre d nr, cats = pre ++ [d] ++ [nr] ∧ d.uuid = dflt ∧ nr.uuid = tc ∧ dflt ≠ tc ∧
      ∀ c ∈ pre, c.uuid ≠ dflt ∧ c.uuid ≠ tc := by
  have h1 : cats.map (·.uuid) = (rest.reverse ++ [dflt]) ++ [tc] := by
    have := List.reverse_eq_cons_iff.mp hl
    simpa using this
  obtain ⟨l1, l3, hcat, hl1, hl3⟩ := List.map_eq_append_iff.mp h1
  obtain ⟨nr, rfl, hnr⟩ := List.map_eq_singleton_iff.mp hl3
  obtain ⟨pre, l2, hcat2, hpre, hl2⟩ := List.map_eq_append_iff.mp hl1
  obtain ⟨d, rfl, hd⟩ := List.map_eq_singleton_iff.mp hl2
  subst hcat2
  refine ⟨pre, d, nr, hcat, hd, hnr, ?_, ?_⟩
  · intro heq
    rw [h1, List.nodup_append] at hn
    exact hn.2.2 dflt (by simp) tc (by simp) heq
  · intro c hc
    have hm : c.uuid ∈ rest.reverse := hpre ▸ List.mem_map_of_mem hc
    rw [h1, List.nodup_append] at hn
    constructor
    · intro heq
      have := hn.1
      rw [List.nodup_append] at this
      exact this.2.2 c.uuid hm dflt (by simp) heq
    · intro heq
      exact hn.2.2 c.uuid (by simp [hm]) tc (by simp) heq

section split
variable (g : CategoryD → CatC) (hg : ∀ c, (g c).uuid = c.uuid)
include hg

theorem split1 (pre : List CategoryD) (d : CategoryD) (dflt : Str) (hd : d.uuid = dflt)
    (hp : ∀ c ∈ pre, c.uuid ≠ dflt) :
    firstWith dflt ((pre ++ [d]).map g) = some (g d) ∧
    ((pre ++ [d]).map g).filter (fun c => c.uuid != dflt) = pre.map g := by
  constructor
  · have hnone : (pre.map g).find? (fun c => c.uuid == dflt) = none := by
      rw [List.find?_eq_none]
      intro x hx
      obtain ⟨c, hc, rfl⟩ := List.mem_map.mp hx
      simp [hg, hp c hc]
    simp [firstWith, List.find?_append, hnone, hg, hd]
  · rw [List.map_append, List.filter_append]
    have h1 : (pre.map g).filter (fun c => c.uuid != dflt) = pre.map g := by
      rw [List.filter_eq_self]
      intro x hx
      obtain ⟨c, hc, rfl⟩ := List.mem_map.mp hx
      simp [hg, hp c hc]
    simp [h1, hg, hd]

theorem split2 (pre : List CategoryD) (d nr : CategoryD) (dflt tc : Str) (hd : d.uuid = dflt)
    (hnr : nr.uuid = tc) (hne : dflt ≠ tc) (hp : ∀ c ∈ pre, c.uuid ≠ dflt ∧ c.uuid ≠ tc) :
    firstWith dflt ((pre ++ [d] ++ [nr]).map g) = some (g d) ∧
    firstWith tc ((pre ++ [d] ++ [nr]).map g) = some (g nr) ∧
    ((pre ++ [d] ++ [nr]).map g).filter (fun c => c.uuid != dflt && c.uuid != tc) = pre.map g := by
  have hnone1 : (pre.map g).find? (fun c => c.uuid == dflt) = none := by
    rw [List.find?_eq_none]
    intro x hx
    obtain ⟨c, hc, rfl⟩ := List.mem_map.mp hx
    simp [hg, (hp c hc).1]
  have hnone2 : (pre.map g).find? (fun c => c.uuid == tc) = none := by
    rw [List.find?_eq_none]
    intro x hx
    obtain ⟨c, hc, rfl⟩ := List.mem_map.mp hx
    simp [hg, (hp c hc).2]
  refine ⟨?_, ?_, ?_⟩
  · simp [firstWith, List.find?_append, hnone1, hg, hd]
  · simp [firstWith, List.find?_append, hnone2, hg, hd, hnr, hne]
  · rw [List.map_append, List.map_append, List.filter_append, List.filter_append]
    have h1 : (pre.map g).filter (fun c => c.uuid != dflt && c.uuid != tc) = pre.map g := by
      rw [List.filter_eq_self]
      intro x hx
      obtain ⟨c, hc, rfl⟩ := List.mem_map.mp hx
      simp [hg, (hp c hc).1, (hp c hc).2]
    simp [h1, hg, hd, hnr]

end split

/-! ### routers -/

def routerCasesD : RouterD → List CaseD
  | .switch _ cases _ _ _ _ => cases
  | .random .. => []

theorem loadCase_ok (c : CaseD) (h : validCase c = true) : loadCase c = .ok c := by
  simp only [validCase, Bool.and_eq_true, Bool.or_eq_true, bne_iff_ne, ne_eq, Bool.not_eq_true',
    beq_iff_eq] at h
  obtain ⟨⟨⟨h1, h2⟩, h3⟩, _⟩ := h
  unfold loadCase
  rw [if_neg h1, if_neg (by simpa using h2)]
  rcases h3 with h3 | h3
  · cases c; simp_all
  · by_cases hc : noArgTests.contains c.type = true
    · cases c; simp_all
    · cases c; simp_all

theorem catImage_uuid (exits : List ExitD) (c : CategoryD) : (catImage exits c).uuid = c.uuid := rfl

theorem loadRouter_ok (exits : List ExitD) (r : RouterD)
    (hv : validRouter r = true) (ho : orderedRouter r = true)
    (hn : (exits.map (·.uuid)).Nodup) (hx : exits.map (·.uuid) = (routerCatsD r).map (·.exitUuid)) :
    ∃ rc, loadRouter exits r = .ok rc ∧
      routerCats rc = (routerCatsD r).map (catImage exits) ∧
      normRouter (renderRouter rc) = normRouter r ∧
      routerCases rc = routerCasesD r := by
  cases r with
  | random cats rn =>
    simp only [validRouter, Bool.and_eq_true, decide_eq_true_eq] at hv
    simp only [routerCatsD] at hx
    refine ⟨.random rn (cats.map (catImage exits)), ?_, rfl, ?_, rfl⟩
    · simp [loadRouter, loadCategories_ok exits cats hv.1 hx]
    · simp only [renderRouter, normRouter, catImage_render exits cats hn hx]
      exact congrArg _ (dropFalsy_idem rn)
  | switch op cases cats dflt wait rn =>
    simp only [validRouter, Bool.and_eq_true, decide_eq_true_eq] at hv
    obtain ⟨⟨⟨hvc, hnd⟩, hcases⟩, hwait⟩ := hv
    simp only [routerCatsD] at hx
    have hcs := loadCategories_ok exits cats hvc hx
    have hks : mapE loadCase cases = .ok cases :=
      mapE_ok_id cases (fun c hc => loadCase_ok c ((List.all_eq_true.mp hcases) c hc))
    have hrn : dropFalsy (Option.filter (fun b => !isNull b) rn) = dropFalsy rn := dropFalsy_dropNull rn
    cases wait with
    | none =>
      simp only [orderedRouter, Option.bind_none, beq_iff_eq] at ho
      obtain ⟨pre, d, rfl, hd, hp⟩ := ordered_struct1 hnd ho
      obtain ⟨hf, hfl⟩ := split1 (catImage exits) (catImage_uuid exits) pre d dflt hd hp
      refine ⟨.switch op rn none cases (pre.map (catImage exits)) (catImage exits d) none, ?_, ?_, ?_, rfl⟩
      · simp only [loadRouter, hcs, hks, hf, hfl]
      · simp [routerCats, routerCatsD]
      · have hcats : List.map renderCat (List.map (catImage exits) pre ++ [catImage exits d]
            ++ (none : Option CatC).toList) = pre ++ [d] := by
          have := catImage_render exits (pre ++ [d]) hn hx
          simpa using this
        simp only [renderRouter, hcats, normRouter, hrn]
        simp [catImage, hd]
    | some w =>
      cases w with
      | mk wt timeout =>
      cases timeout with
      | none =>
        simp only [orderedRouter, Option.bind_some, beq_iff_eq] at ho
        simp only [beq_iff_eq, Bool.and_true] at hwait
        obtain ⟨pre, d, rfl, hd, hp⟩ := ordered_struct1 hnd ho
        obtain ⟨hf, hfl⟩ := split1 (catImage exits) (catImage_uuid exits) pre d dflt hd hp
        refine ⟨.switch op rn (some 0) cases (pre.map (catImage exits)) (catImage exits d) none, ?_, ?_, ?_, rfl⟩
        · simp only [loadRouter, hcs, hks, hf, hfl]
        · simp [routerCats, routerCatsD]
        · have hcats : List.map renderCat (List.map (catImage exits) pre ++ [catImage exits d]
              ++ (none : Option CatC).toList) = pre ++ [d] := by
            have := catImage_render exits (pre ++ [d]) hn hx
            simpa using this
          simp only [renderRouter, hcats, normRouter, hrn]
          simp [catImage, hd, hwait]
      | some t =>
        simp only [orderedRouter, Option.bind_some] at ho
        simp only [beq_iff_eq, Bool.and_eq_true, decide_eq_true_eq] at hwait
        split at ho
        · rename_i n dd rest hrev
          simp only [Bool.and_eq_true, beq_iff_eq] at ho
          obtain ⟨hn1, hd1⟩ := ho
          subst hn1 hd1
          obtain ⟨pre, d, nr, rfl, hd, hnr, hne, hp⟩ := ordered_struct2 hnd hrev
          obtain ⟨hf, hf2, hfl⟩ := split2 (catImage exits) (catImage_uuid exits) pre d nr _ _ hd hnr hne hp
          have hs : t.seconds ≠ 0 := by omega
          refine ⟨.switch op rn (some t.seconds) cases (pre.map (catImage exits)) (catImage exits d)
            (some (catImage exits nr)), ?_, ?_, ?_, rfl⟩
          · simp only [loadRouter, hcs, hks, hf, hf2, hfl, if_neg hs]
          · simp [routerCats, routerCatsD]
          · have hcats : List.map renderCat (List.map (catImage exits) pre ++ [catImage exits d]
                ++ (some (catImage exits nr)).toList) = pre ++ [d] ++ [nr] := by
              have := catImage_render exits (pre ++ [d] ++ [nr]) hn hx
              simpa using this
            obtain ⟨s, hs'⟩ : ∃ s, t.seconds = s + 1 := ⟨t.seconds - 1, by omega⟩
            cases t with
            | mk secs tcu =>
              simp only at hs' hnr hwait
              subst hs'
              simp only [renderRouter, hcats, normRouter, hrn]
              simp [catImage, hd, hwait.1, hnr]
        · simp at ho

/-! ### actions -/

theorem loadAction_ok (a : ActionD) (hv : validAction a = true) : loadAction a = .ok a := by
  cases a with
  | sendMsg u t att q au tp tm =>
    cases tm with
    | none => rfl
    | some m =>
      simp [validAction] at hv
      simp [loadAction, hv.2]
  | setContactField u n k t v =>
    simp [validAction, truthy] at hv
    simp [loadAction, hv]
  | setContactProperty u p v =>
    simp [validAction] at hv
    simp [loadAction, hv]
  | _ => rfl

theorem normAction_renderAction (a : ActionD) (hv : validAction a = true) (hu : untypedAction a = true) :
    normAction (renderAction a) = normAction a := by
  cases a with
  | sendMsg u t att q au tp tm =>
    simp only [validAction, Bool.and_eq_true] at hv
    have hatt : att.filter truthy = att := List.filter_eq_self.mpr (fun x hx => (List.all_eq_true.mp hv.1) x hx)
    simp only [renderAction, normAction, hatt]
    rw [show Option.filter truthy au = dropFalsy au from rfl, show Option.filter truthy tp = dropFalsy tp from rfl,
      dropFalsy_idem, dropFalsy_idem]
  | setContactField u n k t v =>
    simp only [untypedAction, Option.isNone_iff_eq_none] at hu
    subst hu
    rfl
  | removeGroups u gs ag =>
    simp only [renderAction, normAction, List.map_map]
    rw [show Option.filter truthy ag = dropFalsy ag from rfl, dropFalsy_idem]
    congr 1
    apply List.map_congr_left
    intro g _
    exact normGroup_renderGroup g
  | addGroups u gs =>
    simp only [renderAction, normAction, List.map_map]
    congr 1
    apply List.map_congr_left
    intro g _
    exact normGroup_renderGroup g
  | setRunResult u n v c =>
    simp only [renderAction, normAction]
    rw [show Option.filter truthy c = dropFalsy c from rfl, dropFalsy_idem]
  | _ => rfl

theorem normExit_renderExit (e : ExitD) (hv : validExit e = true) : normExit (renderExit e) = normExit e := by
  simp only [validExit, Bool.and_eq_true, bne_iff_ne, ne_eq] at hv
  cases e with
  | mk u dest =>
    cases dest with
    | none => simp [renderExit, normExit, dropNull, Option.filter, isNull]
    | some b =>
      have : b ≠ jHardExit := by
        intro h; exact hv.2 (by simp [h])
      simp [renderExit, normExit, this]

/-! ### nodes -/

def nodeCasesC (nc : NodeC) : List CaseD :=
  match nc.router with
  | none => []
  | some r => routerCases r

def nodeCasesD (n : NodeD) : List CaseD :=
  match n.router with
  | none => []
  | some r => routerCasesD r

theorem loadNode_ok (n : NodeD) (hv : validNode n = true) (hx : exitsByCats n = true)
    (ho : ∀ r, n.router = some r → orderedRouter r = true)
    (hu : ∀ a ∈ n.actions, untypedAction a = true) :
    ∃ nc, loadNode n = .ok nc ∧ nc.uuid = n.uuid ∧ nc.actions = n.actions ∧ nc.uiPos = none ∧
      nodeCasesC nc = nodeCasesD n ∧ normNode (renderNode nc) = normNode n := by
  cases n with
  | mk uuid actions router exits =>
  simp only [validNode, Bool.and_eq_true, bne_iff_ne, ne_eq, decide_eq_true_eq] at hv
  obtain ⟨⟨⟨⟨huuid, hexits⟩, hnd⟩, hacts⟩, hrouter⟩ := hv
  have hex : mapE loadExit exits = .ok exits :=
    mapE_ok_id exits (fun e he => loadExit_ok e ((List.all_eq_true.mp hexits) e he))
  have hac : mapE loadAction actions = .ok actions :=
    mapE_ok_id actions (fun a ha => loadAction_ok a ((List.all_eq_true.mp hacts) a ha))
  have hnacts : actions.map (normAction ∘ renderAction) = actions.map normAction := by
    apply List.map_congr_left
    intro a ha
    exact normAction_renderAction a ((List.all_eq_true.mp hacts) a ha) (hu a ha)
  have hnexits : exits.map (normExit ∘ renderExit) = exits.map normExit := by
    apply List.map_congr_left
    intro e he
    exact normExit_renderExit e ((List.all_eq_true.mp hexits) e he)
  have hnexits' : (exits.map renderExit).map normExit = exits.map normExit := by
    rw [List.map_map]; exact hnexits
  cases router with
  | none =>
    simp only [beq_iff_eq] at hrouter
    match exits, hrouter, hex, hnexits with
    | [e], _, hex, hnexits =>
      refine ⟨{ uuid := uuid, actions := actions, router := none, exit := some e, uiPos := none }, ?_, rfl, rfl, rfl, rfl, ?_⟩
      · simp [loadNode, huuid, hex, hac]
      · simp only [renderNode, normNode, List.map_map, hnacts]
        simpa using hnexits
  | some r =>
    simp only [exitsByCats, beq_iff_eq] at hx
    have hor := ho r rfl
    cases r with
    | random cats rn =>
      simp only [Bool.and_eq_true, beq_iff_eq] at hrouter
      obtain ⟨hvr, hnil⟩ := hrouter
      subst hnil
      obtain ⟨rc, hl, hcats, hnorm, hcases⟩ := loadRouter_ok exits (.random cats rn) hvr hor hnd hx
      refine ⟨{ uuid := uuid, actions := [], router := some rc, exit := none, uiPos := none }, ?_, rfl, rfl, rfl, ?_, ?_⟩
      · simp [loadNode, huuid, hex, hl]
      · simp [nodeCasesC, nodeCasesD, hcases]
      · simp only [renderNode, normNode, Option.map_map, Option.map_some, List.map_nil]
        have he : (routerCats rc).map (fun c => renderExit c.exit) = exits.map renderExit := by
          rw [hcats]
          have := catImage_exits exits cats hnd hx
          calc List.map (fun c => renderExit c.exit) (List.map (catImage exits) (routerCatsD (.random cats rn)))
              = List.map renderExit (List.map (·.exit) (List.map (catImage exits) cats)) := by simp [routerCatsD]
            _ = List.map renderExit exits := by rw [this]
        rw [he, hnexits']
        simp [hnorm]
    | switch op cases cats dflt wait rn =>
      simp only [Bool.and_eq_true] at hrouter
      obtain ⟨hvr, hactsShape⟩ := hrouter
      obtain ⟨rc, hl, hcats, hnorm, hcases⟩ := loadRouter_ok exits (.switch op cases cats dflt wait rn) hvr hor hnd hx
      have he : (routerCats rc).map (fun c => renderExit c.exit) = exits.map renderExit := by
        rw [hcats]
        have := catImage_exits exits cats hnd hx
        calc List.map (fun c => renderExit c.exit) (List.map (catImage exits) (routerCatsD (.switch op cases cats dflt wait rn)))
            = List.map renderExit (List.map (·.exit) (List.map (catImage exits) cats)) := by simp [routerCatsD]
          _ = List.map renderExit exits := by rw [this]
      match actions, hactsShape, hac, hnacts with
      | [], _, _, _ =>
        refine ⟨{ uuid := uuid, actions := [], router := some rc, exit := none, uiPos := none }, ?_, rfl, rfl, rfl, ?_, ?_⟩
        · simp [loadNode, huuid, hex, hl]
        · simp [nodeCasesC, nodeCasesD, hcases]
        · simp only [renderNode, normNode, Option.map_map, Option.map_some, List.map_nil]
          rw [he, hnexits']
          simp [hnorm]
      | [a], hshape, hac, hnacts =>
        refine ⟨{ uuid := uuid, actions := [a], router := some rc, exit := none, uiPos := none }, ?_, rfl, rfl, rfl, ?_, ?_⟩
        · have hsh : routerActionTypes.contains (actionType a) = true := by simpa using hshape
          simp only [List.contains_eq_mem, decide_eq_true_eq] at hsh
          simp [loadNode, huuid, hex, hl, hsh, hac]
        · simp [nodeCasesC, nodeCasesD, hcases]
        · simp only [renderNode, normNode, Option.map_map, Option.map_some]
          rw [he, hnexits']
          have hnacts' : ([a].map renderAction).map normAction = [a].map normAction := by
            rw [List.map_map]; exact hnacts
          rw [hnacts']
          simp [hnorm]

end Rpft.Document
