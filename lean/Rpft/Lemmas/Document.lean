/-
Helper lemmas for C05 (`Rpft.Document`).  Property theorems live in `Rpft/Props/C05.lean`.
-/
import Rpft.DocumentSpec
set_option linter.unusedSimpArgs false
set_option linter.unusedVariables false
namespace Rpft.Document
open Rpft

/-! ### mapE -/

theorem mapE_ok_of_forall {α β : Type} {f : α → Except Err β} {g : α → β} :
    ∀ l : List α, (∀ a ∈ l, f a = .ok (g a)) → mapE f l = .ok (l.map g)
  | [], _ => rfl
  | a :: as, h => by
    have h1 := h a (by simp)
    have h2 := mapE_ok_of_forall as (fun x hx => h x (by simp [hx]))
    simp [mapE, h1, h2]

theorem mapE_ok_id {α : Type} {f : α → Except Err α} (l : List α) (h : ∀ a ∈ l, f a = .ok a) :
    mapE f l = .ok l := by
  have := mapE_ok_of_forall (g := id) l h
  simpa using this

/-! ### small facts about blobs -/

theorem dropFalsy_dropNull (o : Option Blob) : dropFalsy (dropNull o) = dropFalsy o := by
  cases o with
  | none => rfl
  | some b =>
    by_cases h : isNull b = true
    · have : b = jNull := by simpa [isNull] using h
      subst this
      decide
    · simp [dropNull, dropFalsy, Option.filter, h]

theorem dropFalsy_idem (o : Option Blob) : dropFalsy (dropFalsy o) = dropFalsy o := by
  cases o with
  | none => rfl
  | some b =>
    by_cases h : truthy b = true <;> simp [dropFalsy, Option.filter, h]

theorem dropNull_idem (o : Option Blob) : dropNull (dropNull o) = dropNull o := by
  cases o with
  | none => rfl
  | some b =>
    by_cases h : isNull b = true <;> simp [dropNull, Option.filter, h]

theorem normGroup_renderGroup (g : GroupD) : normGroup (renderGroup g) = normGroup g := by
  have := dropNull_idem
  simp only [dropNull] at this
  simp [normGroup, renderGroup, dropNull, this]

/-! ### exits and categories -/

theorem loadExit_ok (e : ExitD) (h : validExit e = true) : loadExit e = .ok e := by
  simp [validExit] at h
  simp [loadExit, h.1]

theorem find_self_of_nodup : ∀ (exits : List ExitD), (exits.map (·.uuid)).Nodup → ∀ e ∈ exits,
    exits.find? (fun x => x.uuid == e.uuid) = some e
  | [], _, e, he => by simp at he
  | x :: xs, hn, e, he => by
    simp only [List.map_cons, List.nodup_cons] at hn
    rcases List.mem_cons.mp he with rfl | hm
    · simp
    · have hne : x.uuid ≠ e.uuid := by
        intro heq
        exact hn.1 (heq ▸ List.mem_map_of_mem hm)
      simp [List.find?_cons, hne, find_self_of_nodup xs hn.2 e hm]

theorem exitOf_self (exits : List ExitD) (hn : (exits.map (·.uuid)).Nodup) :
    exits.map (fun e => exitOf exits e.uuid) = exits := by
  have : ∀ e ∈ exits, exitOf exits e.uuid = e := by
    intro e he
    simp [exitOf, find_self_of_nodup exits hn e he]
  calc exits.map (fun e => exitOf exits e.uuid) = exits.map id := List.map_congr_left this
    _ = exits := by simp

theorem loadCategory_ok (exits : List ExitD) (c : CategoryD) (hv : validCategory c = true)
    (hm : c.exitUuid ∈ exits.map (·.uuid)) : loadCategory exits c = .ok (catImage exits c) := by
  simp [validCategory] at hv
  obtain ⟨e, he, heq⟩ := List.mem_map.mp hm
  have hs : (exits.find? (fun x => x.uuid == c.exitUuid)).isSome = true := by
    rw [List.find?_isSome]
    exact ⟨e, he, by simp [heq]⟩
  obtain ⟨e', he'⟩ := Option.isSome_iff_exists.mp hs
  have hlen : ¬ 115 < c.name.length := by omega
  simp [loadCategory, he', hv.1, hlen, catImage, exitOf]

/-- all categories of a router load, each to its image, when the exits are those the
categories name -/
theorem loadCategories_ok (exits : List ExitD) (cats : List CategoryD)
    (hv : cats.all validCategory = true)
    (hx : exits.map (·.uuid) = cats.map (·.exitUuid)) :
    mapE (loadCategory exits) cats = .ok (cats.map (catImage exits)) := by
  apply mapE_ok_of_forall
  intro c hc
  apply loadCategory_ok
  · exact (List.all_eq_true.mp hv) c hc
  · rw [hx]; exact List.mem_map_of_mem hc

theorem catImage_exits (exits : List ExitD) (cats : List CategoryD)
    (hn : (exits.map (·.uuid)).Nodup) (hx : exits.map (·.uuid) = cats.map (·.exitUuid)) :
    (cats.map (catImage exits)).map (·.exit) = exits := by
  have h1 : (cats.map (catImage exits)).map (·.exit) = (cats.map (·.exitUuid)).map (exitOf exits) := by
    simp [catImage, Function.comp_def]
  rw [h1, ← hx, List.map_map]
  exact exitOf_self exits hn

theorem catImage_render (exits : List ExitD) (cats : List CategoryD)
    (hn : (exits.map (·.uuid)).Nodup) (hx : exits.map (·.uuid) = cats.map (·.exitUuid)) :
    (cats.map (catImage exits)).map renderCat = cats := by
  have hex := catImage_exits exits cats hn hx
  have : ((cats.map (catImage exits)).map (·.exit)).map (·.uuid) = cats.map (·.exitUuid) := by
    rw [hex, hx]
  -- pointwise: the exit found for `c` has uuid `c.exitUuid`
  have hp : ∀ c ∈ cats, (exitOf exits c.exitUuid).uuid = c.exitUuid := by
    intro c hc
    have hm : c.exitUuid ∈ exits.map (·.uuid) := by rw [hx]; exact List.mem_map_of_mem hc
    obtain ⟨e, he, heq⟩ := List.mem_map.mp hm
    have := find_self_of_nodup exits hn e he
    simp only [heq] at this
    simp [exitOf, this, heq]
  rw [List.map_map]
  calc cats.map (renderCat ∘ catImage exits) = cats.map id := by
        apply List.map_congr_left
        intro c hc
        simp [renderCat, catImage, hp c hc]
    _ = cats := by simp

/-! ### the category split of `SwitchRouter.from_dict` and the re-join of `get_categories` -/

theorem ordered_struct1 {cats : List CategoryD} {dflt : Str}
    (hn : (cats.map (·.uuid)).Nodup) (hl : (cats.map (·.uuid)).getLast? = some dflt) :
    ∃ pre d, cats = pre ++ [d] ∧ d.uuid = dflt ∧ ∀ c ∈ pre, c.uuid ≠ dflt := by
  obtain ⟨ys, hys⟩ := List.getLast?_eq_some_iff.mp hl
  obtain ⟨pre, l2, hcat, hpre, hl2⟩ := List.map_eq_append_iff.mp hys
  obtain ⟨d, rfl, hd⟩ := List.map_eq_singleton_iff.mp hl2
  refine ⟨pre, d, hcat, hd, ?_⟩
  intro c hc heq
  rw [hys, List.nodup_append] at hn
  exact hn.2.2 c.uuid (hpre ▸ List.mem_map_of_mem hc) dflt (by simp) heq

theorem ordered_struct2 {cats : List CategoryD} {dflt tc : Str} {rest : List Str}
    (hn : (cats.map (·.uuid)).Nodup) (hl : (cats.map (·.uuid)).reverse = tc :: dflt :: rest) :
    ∃ pre d nr, cats = pre ++ [d] ++ [nr] ∧ d.uuid = dflt ∧ nr.uuid = tc ∧ dflt ≠ tc ∧
      ∀ c ∈ pre, c.uuid ≠ dflt ∧ c.uuid ≠ tc := by
  have h1 : cats.map (·.uuid) = (rest.reverse ++ [dflt]) ++ [tc] := by
    have := List.reverse_eq_cons_iff.mp hl
    simpa using this
  obtain ⟨l1, l3, hcat, hl1, hl3⟩ := List.map_eq_append_iff.mp h1
  obtain ⟨nr, rfl, hnr⟩ := List.map_eq_singleton_iff.mp hl3
  obtain ⟨pre, l2, hcat2, hpre, hl2⟩ := List.map_eq_append_iff.mp hl1
  obtain ⟨d, rfl, hd⟩ := List.map_eq_singleton_iff.mp hl2
  subst hcat2
  refine ⟨pre, d, nr, hcat, hd, hnr, ?_, ?_⟩
  · intro heq
    rw [h1, List.nodup_append] at hn
    exact hn.2.2 dflt (by simp) tc (by simp) heq
  · intro c hc
    have hm : c.uuid ∈ rest.reverse := hpre ▸ List.mem_map_of_mem hc
    rw [h1, List.nodup_append] at hn
    constructor
    · intro heq
      have := hn.1
      rw [List.nodup_append] at this
      exact this.2.2 c.uuid hm dflt (by simp) heq
    · intro heq
      exact hn.2.2 c.uuid (by simp [hm]) tc (by simp) heq

section split
variable (g : CategoryD → CatC) (hg : ∀ c, (g c).uuid = c.uuid)
include hg

theorem split1 (pre : List CategoryD) (d : CategoryD) (dflt : Str) (hd : d.uuid = dflt)
    (hp : ∀ c ∈ pre, c.uuid ≠ dflt) :
    firstWith dflt ((pre ++ [d]).map g) = some (g d) ∧
    ((pre ++ [d]).map g).filter (fun c => c.uuid != dflt) = pre.map g := by
  constructor
  · have hnone : (pre.map g).find? (fun c => c.uuid == dflt) = none := by
      rw [List.find?_eq_none]
      intro x hx
      obtain ⟨c, hc, rfl⟩ := List.mem_map.mp hx
      simp [hg, hp c hc]
    simp [firstWith, List.find?_append, hnone, hg, hd]
  · rw [List.map_append, List.filter_append]
    have h1 : (pre.map g).filter (fun c => c.uuid != dflt) = pre.map g := by
      rw [List.filter_eq_self]
      intro x hx
      obtain ⟨c, hc, rfl⟩ := List.mem_map.mp hx
      simp [hg, hp c hc]
    simp [h1, hg, hd]

theorem split2 (pre : List CategoryD) (d nr : CategoryD) (dflt tc : Str) (hd : d.uuid = dflt)
    (hnr : nr.uuid = tc) (hne : dflt ≠ tc) (hp : ∀ c ∈ pre, c.uuid ≠ dflt ∧ c.uuid ≠ tc) :
    firstWith dflt ((pre ++ [d] ++ [nr]).map g) = some (g d) ∧
    firstWith tc ((pre ++ [d] ++ [nr]).map g) = some (g nr) ∧
    ((pre ++ [d] ++ [nr]).map g).filter (fun c => c.uuid != dflt && c.uuid != tc) = pre.map g := by
  have hnone1 : (pre.map g).find? (fun c => c.uuid == dflt) = none := by
    rw [List.find?_eq_none]
    intro x hx
    obtain ⟨c, hc, rfl⟩ := List.mem_map.mp hx
    simp [hg, (hp c hc).1]
  have hnone2 : (pre.map g).find? (fun c => c.uuid == tc) = none := by
    rw [List.find?_eq_none]
    intro x hx
    obtain ⟨c, hc, rfl⟩ := List.mem_map.mp hx
    simp [hg, (hp c hc).2]
  refine ⟨?_, ?_, ?_⟩
  · simp [firstWith, List.find?_append, hnone1, hg, hd]
  · simp [firstWith, List.find?_append, hnone2, hg, hd, hnr, hne]
  · rw [List.map_append, List.map_append, List.filter_append, List.filter_append]
    have h1 : (pre.map g).filter (fun c => c.uuid != dflt && c.uuid != tc) = pre.map g := by
      rw [List.filter_eq_self]
      intro x hx
      obtain ⟨c, hc, rfl⟩ := List.mem_map.mp hx
      simp [hg, (hp c hc).1, (hp c hc).2]
    simp [h1, hg, hd, hnr]

end split

/-! ### routers -/

def routerCasesD : RouterD → List CaseD
  | .switch _ cases _ _ _ _ => cases
  | .random .. => []

theorem loadCase_ok (c : CaseD) (h : validCase c = true) : loadCase c = .ok c := by
  simp only [validCase, Bool.and_eq_true, Bool.or_eq_true, bne_iff_ne, ne_eq, Bool.not_eq_true',
    beq_iff_eq] at h
  obtain ⟨⟨⟨h1, h2⟩, h3⟩, _⟩ := h
  unfold loadCase
  rw [if_neg h1, if_neg (by simpa using h2)]
  rcases h3 with h3 | h3
  · cases c; simp_all
  · by_cases hc : noArgTests.contains c.type = true
    · cases c; simp_all
    · cases c; simp_all

theorem catImage_uuid (exits : List ExitD) (c : CategoryD) : (catImage exits c).uuid = c.uuid := rfl

theorem loadRouter_ok (exits : List ExitD) (r : RouterD)
    (hv : validRouter r = true) (ho : orderedRouter r = true)
    (hn : (exits.map (·.uuid)).Nodup) (hx : exits.map (·.uuid) = (routerCatsD r).map (·.exitUuid)) :
    ∃ rc, loadRouter exits r = .ok rc ∧
      routerCats rc = (routerCatsD r).map (catImage exits) ∧
      renderRouter rc = shapeRouter r ∧
      routerCases rc = routerCasesD r := by
  cases r with
  | random cats rn =>
    simp only [validRouter, Bool.and_eq_true, decide_eq_true_eq] at hv
    simp only [routerCatsD] at hx
    refine ⟨.random rn (cats.map (catImage exits)), ?_, rfl, ?_, rfl⟩
    · simp [loadRouter, loadCategories_ok exits cats hv.1 hx]
    · simp only [renderRouter, shapeRouter, catImage_render exits cats hn hx]
  | switch op cases cats dflt wait rn =>
    simp only [validRouter, Bool.and_eq_true, decide_eq_true_eq] at hv
    obtain ⟨⟨⟨hvc, hnd⟩, hcases⟩, hwait⟩ := hv
    simp only [routerCatsD] at hx
    have hcs := loadCategories_ok exits cats hvc hx
    have hks : mapE loadCase cases = .ok cases :=
      mapE_ok_id cases (fun c hc => loadCase_ok c ((List.all_eq_true.mp hcases) c hc))
    have hrn : dropFalsy (Option.filter (fun b => !isNull b) rn) = dropFalsy rn := dropFalsy_dropNull rn
    cases wait with
    | none =>
      simp only [orderedRouter, Option.bind_none, beq_iff_eq] at ho
      obtain ⟨pre, d, rfl, hd, hp⟩ := ordered_struct1 hnd ho
      obtain ⟨hf, hfl⟩ := split1 (catImage exits) (catImage_uuid exits) pre d dflt hd hp
      refine ⟨.switch op rn none cases (pre.map (catImage exits)) (catImage exits d) none, ?_, ?_, ?_, rfl⟩
      · simp only [loadRouter, hcs, hks, hf, hfl]
      · simp [routerCats, routerCatsD]
      · have hcats : List.map renderCat (List.map (catImage exits) pre ++ [catImage exits d]
            ++ (none : Option CatC).toList) = pre ++ [d] := by
          have := catImage_render exits (pre ++ [d]) hn hx
          simpa using this
        simp only [renderRouter, hcats, shapeRouter]
        simp [catImage, hd]
    | some w =>
      cases w with
      | mk wt timeout =>
      cases timeout with
      | none =>
        simp only [orderedRouter, Option.bind_some, beq_iff_eq] at ho
        simp only [beq_iff_eq, Bool.and_true] at hwait
        obtain ⟨pre, d, rfl, hd, hp⟩ := ordered_struct1 hnd ho
        obtain ⟨hf, hfl⟩ := split1 (catImage exits) (catImage_uuid exits) pre d dflt hd hp
        refine ⟨.switch op rn (some 0) cases (pre.map (catImage exits)) (catImage exits d) none, ?_, ?_, ?_, rfl⟩
        · simp only [loadRouter, hcs, hks, hf, hfl]
        · simp [routerCats, routerCatsD]
        · have hcats : List.map renderCat (List.map (catImage exits) pre ++ [catImage exits d]
              ++ (none : Option CatC).toList) = pre ++ [d] := by
            have := catImage_render exits (pre ++ [d]) hn hx
            simpa using this
          simp only [renderRouter, hcats, shapeRouter]
          simp [catImage, hd, hwait]
      | some t =>
        simp only [orderedRouter, Option.bind_some] at ho
        simp only [beq_iff_eq, Bool.and_eq_true, decide_eq_true_eq] at hwait
        split at ho
        · rename_i n dd rest hrev
          simp only [Bool.and_eq_true, beq_iff_eq] at ho
          obtain ⟨hn1, hd1⟩ := ho
          subst hn1 hd1
          obtain ⟨pre, d, nr, rfl, hd, hnr, hne, hp⟩ := ordered_struct2 hnd hrev
          obtain ⟨hf, hf2, hfl⟩ := split2 (catImage exits) (catImage_uuid exits) pre d nr _ _ hd hnr hne hp
          have hs : t.seconds ≠ 0 := by omega
          refine ⟨.switch op rn (some t.seconds) cases (pre.map (catImage exits)) (catImage exits d)
            (some (catImage exits nr)), ?_, ?_, ?_, rfl⟩
          · simp only [loadRouter, hcs, hks, hf, hf2, hfl, if_neg hs]
          · simp [routerCats, routerCatsD]
          · have hcats : List.map renderCat (List.map (catImage exits) pre ++ [catImage exits d]
                ++ (some (catImage exits nr)).toList) = pre ++ [d] ++ [nr] := by
              have := catImage_render exits (pre ++ [d] ++ [nr]) hn hx
              simpa using this
            obtain ⟨s, hs'⟩ : ∃ s, t.seconds = s + 1 := ⟨t.seconds - 1, by omega⟩
            cases t with
            | mk secs tcu =>
              simp only at hs' hnr hwait
              subst hs'
              simp only [renderRouter, hcats, shapeRouter]
              simp [catImage, hd, hwait.1, hnr]
        · simp at ho

/-! ### actions -/

theorem loadAction_ok (a : ActionD) (hv : validAction a = true) : loadAction a = .ok a := by
  cases a with
  | sendMsg u t att q au tp tm =>
    cases tm with
    | none => rfl
    | some m =>
      simp [validAction] at hv
      simp [loadAction, hv.2]
  | setContactField u n k t v =>
    simp [validAction, truthy] at hv
    simp [loadAction, hv]
  | setContactProperty u p v =>
    simp [validAction] at hv
    simp [loadAction, hv]
  | _ => rfl

theorem normAction_renderAction (a : ActionD) (hv : validAction a = true) (hu : untypedAction a = true) :
    normAction (renderAction a) = normAction a := by
  cases a with
  | sendMsg u t att q au tp tm =>
    simp only [validAction, Bool.and_eq_true] at hv
    have hatt : att.filter truthy = att := List.filter_eq_self.mpr (fun x hx => (List.all_eq_true.mp hv.1) x hx)
    simp only [renderAction, normAction, hatt]
    rw [show Option.filter truthy au = dropFalsy au from rfl, show Option.filter truthy tp = dropFalsy tp from rfl,
      dropFalsy_idem, dropFalsy_idem]
  | setContactField u n k t v =>
    simp only [untypedAction, Option.isNone_iff_eq_none] at hu
    subst hu
    cases hb : fieldTypeBug <;> simp [renderAction, normAction, hb]
  | removeGroups u gs ag =>
    simp only [renderAction, normAction, List.map_map]
    rw [show Option.filter truthy ag = dropFalsy ag from rfl, dropFalsy_idem]
    congr 1
    apply List.map_congr_left
    intro g _
    exact normGroup_renderGroup g
  | addGroups u gs =>
    simp only [renderAction, normAction, List.map_map]
    congr 1
    apply List.map_congr_left
    intro g _
    exact normGroup_renderGroup g
  | setRunResult u n v c =>
    simp only [renderAction, normAction]
    rw [show Option.filter truthy c = dropFalsy c from rfl, dropFalsy_idem]
  | _ => rfl

theorem normExit_renderExit (e : ExitD) (hv : validExit e = true) : normExit (renderExit e) = normExit e := by
  simp only [validExit, Bool.and_eq_true, bne_iff_ne, ne_eq] at hv
  cases e with
  | mk u dest =>
    cases dest with
    | none => simp [renderExit, normExit, dropNull, Option.filter, isNull]
    | some b =>
      have : b ≠ jHardExit := by
        intro h; exact hv.2 (by simp [h])
      simp [renderExit, normExit, this]

/-! ### nodes -/

def nodeCasesD (n : NodeD) : List CaseD :=
  match n.router with
  | none => []
  | some r => routerCasesD r

theorem normRouter_shapeRouter (r : RouterD) : normRouter (shapeRouter r) = normRouter r := by
  cases r with
  | switch op cases cats dflt wait rn =>
    simp only [shapeRouter, normRouter]
    exact congrArg _ (dropFalsy_dropNull rn)
  | random cats rn =>
    simp only [shapeRouter, normRouter]
    exact congrArg _ (dropFalsy_idem rn)

theorem normNode_shapeNode (n : NodeD) (hv : validNode n = true)
    (hu : ∀ a ∈ n.actions, untypedAction a = true) : normNode (shapeNode n) = normNode n := by
  cases n with
  | mk uuid actions router exits =>
  simp only [validNode, Bool.and_eq_true, bne_iff_ne, ne_eq, decide_eq_true_eq] at hv
  obtain ⟨⟨⟨⟨_, hexits⟩, _⟩, hacts⟩, _⟩ := hv
  have hnacts : (actions.map renderAction).map normAction = actions.map normAction := by
    rw [List.map_map]
    apply List.map_congr_left
    intro a ha
    exact normAction_renderAction a ((List.all_eq_true.mp hacts) a ha) (hu a ha)
  have hnexits : (exits.map renderExit).map normExit = exits.map normExit := by
    rw [List.map_map]
    apply List.map_congr_left
    intro e he
    exact normExit_renderExit e ((List.all_eq_true.mp hexits) e he)
  simp only [shapeNode, normNode, hnacts, hnexits, Option.map_map]
  congr 1
  cases router with
  | none => rfl
  | some r => simp [normRouter_shapeRouter]

theorem loadNode_ok (n : NodeD) (hv : validNode n = true) (hx : exitsByCats n = true)
    (ho : ∀ r, n.router = some r → orderedRouter r = true) :
    ∃ nc, loadNode n = .ok nc ∧ nc.uuid = n.uuid ∧ nc.actions = n.actions ∧ nc.uiPos = none ∧
      nodeCasesC nc = nodeCasesD n ∧ renderNode nc = shapeNode n := by
  cases n with
  | mk uuid actions router exits =>
  simp only [validNode, Bool.and_eq_true, bne_iff_ne, ne_eq, decide_eq_true_eq] at hv
  obtain ⟨⟨⟨⟨huuid, hexits⟩, hnd⟩, hacts⟩, hrouter⟩ := hv
  have hex : mapE loadExit exits = .ok exits :=
    mapE_ok_id exits (fun e he => loadExit_ok e ((List.all_eq_true.mp hexits) e he))
  have hac : mapE loadAction actions = .ok actions :=
    mapE_ok_id actions (fun a ha => loadAction_ok a ((List.all_eq_true.mp hacts) a ha))
  cases router with
  | none =>
    simp only [beq_iff_eq] at hrouter
    match exits, hrouter, hex with
    | [e], _, hex =>
      refine ⟨{ uuid := uuid, actions := actions, router := none, exit := some e, uiPos := none }, ?_, rfl, rfl, rfl, rfl, ?_⟩
      · simp [loadNode, huuid, hex, hac]
      · simp [renderNode, shapeNode]
  | some r =>
    simp only [exitsByCats, beq_iff_eq] at hx
    have hor := ho r rfl
    cases r with
    | random cats rn =>
      simp only [Bool.and_eq_true, beq_iff_eq] at hrouter
      obtain ⟨hvr, hnil⟩ := hrouter
      subst hnil
      obtain ⟨rc, hl, hcats, hshape, hcases⟩ := loadRouter_ok exits (.random cats rn) hvr hor hnd hx
      refine ⟨{ uuid := uuid, actions := [], router := some rc, exit := none, uiPos := none }, ?_, rfl, rfl, rfl, ?_, ?_⟩
      · simp [loadNode, huuid, hex, hl]
      · simp [nodeCasesC, nodeCasesD, hcases]
      · have he : (routerCats rc).map (fun c => renderExit c.exit) = exits.map renderExit := by
          rw [hcats]
          have := catImage_exits exits cats hnd hx
          calc List.map (fun c => renderExit c.exit) (List.map (catImage exits) (routerCatsD (.random cats rn)))
              = List.map renderExit (List.map (·.exit) (List.map (catImage exits) cats)) := by simp [routerCatsD]
            _ = List.map renderExit exits := by rw [this]
        simp only [renderNode, shapeNode, Option.map_some, List.map_nil, he, hshape]
    | switch op cases cats dflt wait rn =>
      simp only [Bool.and_eq_true] at hrouter
      obtain ⟨hvr, hactsShape⟩ := hrouter
      obtain ⟨rc, hl, hcats, hshape, hcases⟩ := loadRouter_ok exits (.switch op cases cats dflt wait rn) hvr hor hnd hx
      have he : (routerCats rc).map (fun c => renderExit c.exit) = exits.map renderExit := by
        rw [hcats]
        have := catImage_exits exits cats hnd hx
        calc List.map (fun c => renderExit c.exit) (List.map (catImage exits) (routerCatsD (.switch op cases cats dflt wait rn)))
            = List.map renderExit (List.map (·.exit) (List.map (catImage exits) cats)) := by simp [routerCatsD]
          _ = List.map renderExit exits := by rw [this]
      match actions, hactsShape, hac with
      | [], _, _ =>
        refine ⟨{ uuid := uuid, actions := [], router := some rc, exit := none, uiPos := none }, ?_, rfl, rfl, rfl, ?_, ?_⟩
        · simp [loadNode, huuid, hex, hl]
        · simp [nodeCasesC, nodeCasesD, hcases]
        · simp only [renderNode, shapeNode, Option.map_some, List.map_nil, he, hshape]
      | [a], hsh0, hac =>
        refine ⟨{ uuid := uuid, actions := [a], router := some rc, exit := none, uiPos := none }, ?_, rfl, rfl, rfl, ?_, ?_⟩
        · have hsh : routerActionTypes.contains (actionType a) = true := by simpa using hsh0
          simp only [List.contains_eq_mem, decide_eq_true_eq] at hsh
          simp [loadNode, huuid, hex, hl, hsh, hac]
        · simp [nodeCasesC, nodeCasesD, hcases]
        · simp only [renderNode, shapeNode, Option.map_some, he, hshape]

/-! ### the name → uuid dictionary -/

theorem dget_dset (k k' v : Str) : ∀ D : UDict, dget k (dset k' v D) = if k' = k then some v else dget k D
  | [] => by simp [dset, dget]
  | (k0, v0) :: rest => by
    by_cases h0 : k0 = k'
    · subst h0
      by_cases h1 : k0 = k <;> simp [dset, dget, h1]
    · by_cases h1 : k0 = k
      · subst h1
        have : ¬ k' = k0 := fun h => h0 h.symm
        simp [dset, dget, h0, this]
      · simp [dset, dget, h0, h1, dget_dset k k' v rest]

theorem mem_dset (k v : Str) : ∀ (D : UDict) (kv : Str × Str), kv ∈ dset k v D → kv ∈ D ∨ kv = (k, v)
  | [], kv, h => by simp [dset] at h; exact Or.inr h
  | (k0, v0) :: rest, kv, h => by
    by_cases h0 : k0 = k
    · simp only [dset, h0, if_true, List.mem_cons] at h
      rcases h with h | h
      · exact Or.inr h
      · exact Or.inl (by simp [h])
    · simp only [dset, h0, if_false, List.mem_cons] at h
      rcases h with h | h
      · exact Or.inl (by simp [h])
      · rcases mem_dset k v rest kv h with h | h
        · exact Or.inl (by simp [h])
        · exact Or.inr h

theorem dset_fresh (k v : Str) : ∀ D : UDict, dget k D = none → dset k v D = D ++ [(k, v)]
  | [], _ => rfl
  | (k0, v0) :: rest, h => by
    by_cases h0 : k0 = k
    · simp [dget, h0] at h
    · simp only [dget, h0, if_false] at h
      simp [dset, h0, dset_fresh k v rest h]

theorem dget_of_mem : ∀ (D : UDict), (D.map (·.1)).Nodup → ∀ k v, (k, v) ∈ D → dget k D = some v
  | [], _, k, v, h => by simp at h
  | (k0, v0) :: rest, hn, k, v, h => by
    simp only [List.map_cons, List.nodup_cons] at hn
    rcases List.mem_cons.mp h with h | h
    · cases h; simp [dget]
    · have : k0 ≠ k := by
        intro heq
        exact hn.1 (heq ▸ List.mem_map_of_mem (f := (·.1)) h)
      simp [dget, this, dget_of_mem rest hn.2 k v h]

/-- one `_record_uuid` of a reference that agrees with what the dictionary knows -/
theorem record_step (D : UDict) (r : Str × Str) (hne : r.2 ≠ [])
    (hc : ∀ v, dget r.1 D = some v → v = r.2) :
    ∃ D', record D r = .ok D' ∧ (∀ k v, dget k D = some v → dget k D' = some v) ∧
      dget r.1 D' = some r.2 ∧ (∀ kv ∈ D', kv ∈ D ∨ kv = r) ∧
      (∀ k v, dget k D' = some v → dget k D = some v ∨ (k = r.1 ∧ v = r.2)) := by
  cases hg : dget r.1 D with
  | none =>
    refine ⟨dset r.1 r.2 D, by simp [record, hg], ?_, by simp [dget_dset], ?_, ?_⟩
    · intro k v hk
      rw [dget_dset]
      by_cases h : r.1 = k
      · subst h; rw [hg] at hk; cases hk
      · simp [h, hk]
    · intro kv hkv
      rcases mem_dset _ _ D kv hkv with h | h
      · exact Or.inl h
      · exact Or.inr (by rw [h])
    · intro k v hk
      rw [dget_dset] at hk
      by_cases h : r.1 = k
      · simp [h] at hk; exact Or.inr ⟨h.symm, hk.symm⟩
      · simp [h] at hk; exact Or.inl hk
  | some v0 =>
    have hv := hc v0 hg
    subst hv
    refine ⟨D, ?_, fun _ _ h => h, hg, fun kv h => Or.inl h, fun _ _ h => Or.inl h⟩
    simp [record, hg, hne]

theorem recordAll_functional : ∀ (refs : List (Str × Str)) (D : UDict),
    (∀ r ∈ refs, r.2 ≠ []) → (∀ r ∈ refs, ∀ s ∈ refs, r.1 = s.1 → r.2 = s.2) →
    (∀ r ∈ refs, ∀ v, dget r.1 D = some v → v = r.2) →
    ∃ D', recordAll D refs = .ok D' ∧ (∀ k v, dget k D = some v → dget k D' = some v) ∧
      (∀ r ∈ refs, dget r.1 D' = some r.2) ∧ (∀ kv ∈ D', kv ∈ D ∨ kv ∈ refs) ∧
      (∀ k v, dget k D' = some v → dget k D = some v ∨ (k, v) ∈ refs)
  | [], D, _, _, _ => ⟨D, rfl, fun _ _ h => h, by simp, fun kv h => Or.inl h, fun _ _ h => Or.inl h⟩
  | r :: rs, D, hne, hf, hc => by
    obtain ⟨D1, h1, hmono1, hr1, hmem1, hrev1⟩ := record_step D r (hne r (by simp)) (hc r (by simp))
    have hc' : ∀ s ∈ rs, ∀ v, dget s.1 D1 = some v → v = s.2 := by
      intro s hs v hv
      rcases hrev1 s.1 v hv with h | ⟨h1, h2⟩
      · exact hc s (by simp [hs]) v h
      · rw [h2]; exact hf r (by simp) s (by simp [hs]) h1.symm
    obtain ⟨D2, h2, hmono2, hr2, hmem2, hrev2⟩ := recordAll_functional rs D1
      (fun s hs => hne s (by simp [hs])) (fun a ha b hb => hf a (by simp [ha]) b (by simp [hb])) hc'
    refine ⟨D2, by simp [recordAll, h1, h2], fun k v h => hmono2 k v (hmono1 k v h), ?_, ?_, ?_⟩
    · intro s hs
      rcases List.mem_cons.mp hs with rfl | hs
      · exact hmono2 _ _ hr1
      · exact hr2 s hs
    · intro kv hkv
      rcases hmem2 kv hkv with h | h
      · rcases hmem1 kv h with h | h
        · exact Or.inl h
        · exact Or.inr (by simp [h])
      · exact Or.inr (by simp [h])
    · intro k v hk
      rcases hrev2 k v hk with h | h
      · rcases hrev1 k v h with h | ⟨h1, h2⟩
        · exact Or.inl h
        · exact Or.inr (by subst h1 h2; simp)
      · exact Or.inr (by simp [h])

/-- `recordTriggers` = `recordAll` of the triggers' flows when every flow name is known -/
theorem recordTriggers_functional : ∀ (ts : List TriggerC) (D : UDict),
    (∀ t ∈ ts, (fref t.flow).2 ≠ []) →
    (∀ t ∈ ts, ∀ s ∈ ts, t.flow.name = s.flow.name → t.flow.uuid = s.flow.uuid) →
    (∀ t ∈ ts, ∀ v, dget t.flow.name D = some v → v = t.flow.uuid) →
    (∀ t ∈ ts, ∃ v, dget t.flow.name D = some v) →
    ∃ D', recordTriggers D ts = .ok D' ∧ (∀ k v, dget k D = some v → dget k D' = some v) ∧
      (∀ t ∈ ts, dget t.flow.name D' = some t.flow.uuid) ∧
      (∀ kv ∈ D', kv ∈ D ∨ kv ∈ ts.map (fun t => fref t.flow))
  | [], D, _, _, _, _ => ⟨D, rfl, fun _ _ h => h, by simp, fun kv h => Or.inl h⟩
  | t :: ts, D, hne, hf, hc, hex => by
    obtain ⟨v0, hv0⟩ := hex t (by simp)
    obtain ⟨D1, h1, hmono1, hr1, hmem1, hrev1⟩ := record_step D (fref t.flow) (hne t (by simp)) (hc t (by simp))
    have hc' : ∀ s ∈ ts, ∀ v, dget s.flow.name D1 = some v → v = s.flow.uuid := by
      intro s hs v hv
      rcases hrev1 s.flow.name v hv with h | ⟨h1, h2⟩
      · exact hc s (by simp [hs]) v h
      · rw [h2]; exact hf t (by simp) s (by simp [hs]) h1.symm
    have hex' : ∀ s ∈ ts, ∃ v, dget s.flow.name D1 = some v := by
      intro s hs
      obtain ⟨v, hv⟩ := hex s (by simp [hs])
      exact ⟨v, hmono1 _ _ hv⟩
    obtain ⟨D2, h2, hmono2, hr2, hmem2⟩ := recordTriggers_functional ts D1
      (fun s hs => hne s (by simp [hs])) (fun a ha b hb => hf a (by simp [ha]) b (by simp [hb])) hc' hex'
    refine ⟨D2, by simp [recordTriggers, hv0, h1, h2], fun k v h => hmono2 k v (hmono1 k v h), ?_, ?_⟩
    · intro s hs
      rcases List.mem_cons.mp hs with rfl | hs
      · exact hmono2 _ _ hr1
      · exact hr2 s hs
    · intro kv hkv
      rcases hmem2 kv hkv with h | h
      · rcases hmem1 kv h with h | h
        · exact Or.inl h
        · exact Or.inr (by simp [h])
      · exact Or.inr (by simp at h ⊢; exact Or.inr h)

/-- recording names the dictionary does not know yet appends them -/
theorem recordAll_fresh : ∀ (gs : List (Str × Str)) (D : UDict),
    (∀ g ∈ gs, dget g.1 D = none) → (gs.map (·.1)).Nodup → recordAll D gs = .ok (D ++ gs)
  | [], D, _, _ => by simp [recordAll]
  | g :: gs, D, hd, hn => by
    simp only [List.map_cons, List.nodup_cons] at hn
    have hg := hd g (by simp)
    have h1 : record D g = .ok (D ++ [g]) := by
      simp [record, hg, dset_fresh g.1 g.2 D hg]
    have hd' : ∀ g' ∈ gs, dget g'.1 (D ++ [g]) = none := by
      intro g' hg'
      rw [← dset_fresh g.1 g.2 D hg, dget_dset]
      have : g.1 ≠ g'.1 := by
        intro heq
        exact hn.1 (heq ▸ List.mem_map_of_mem (f := (·.1)) hg')
      simp [this, hd g' (by simp [hg'])]
    simp [recordAll, h1, recordAll_fresh gs (D ++ [g]) hd' hn.2]

theorem recordAll_listed : ∀ (refs : List (Str × Str)) (D : UDict),
    (∀ r ∈ refs, dget r.1 D = some r.2 ∧ r.2 ≠ []) → recordAll D refs = .ok D
  | [], D, _ => rfl
  | r :: rs, D, h => by
    have hr := h r (by simp)
    have h1 : record D r = .ok D := by simp [record, hr.1, hr.2]
    simp [recordAll, h1, recordAll_listed rs D (fun s hs => h s (by simp [hs]))]

theorem recordAll_append : ∀ (xs ys : List (Str × Str)) (D D' : UDict),
    recordAll D xs = .ok D' → recordAll D (xs ++ ys) = recordAll D' ys
  | [], ys, D, D', h => by simp [recordAll] at h; subst h; rfl
  | x :: xs, ys, D, D', h => by
    simp only [recordAll, List.cons_append] at h ⊢
    cases hx : record D x with
    | error e => simp [hx] at h
    | ok D1 =>
      simp only [hx] at h ⊢
      exact recordAll_append xs ys D1 D' h

/-! ### images: what a valid piece loads to -/

def okOr {α : Type} (d : α) : Except Err α → α
  | .ok a => a
  | .error _ => d

def nodeImg (n : NodeD) : NodeC :=
  okOr { uuid := [], actions := [], router := none, exit := none, uiPos := none } (loadNode n)

/-- everything the theorems assume about one node -/
def NodeOk (n : NodeD) : Prop :=
  validNode n = true ∧ exitsByCats n = true ∧ (∀ r, n.router = some r → orderedRouter r = true) ∧
    (∀ a ∈ n.actions, untypedAction a = true)

theorem nodeImg_spec (n : NodeD) (h : NodeOk n) :
    loadNode n = .ok (nodeImg n) ∧ (nodeImg n).uuid = n.uuid ∧ (nodeImg n).actions = n.actions ∧
      (nodeImg n).uiPos = none ∧ nodeCasesC (nodeImg n) = nodeCasesD n ∧
      normNode (renderNode (nodeImg n)) = normNode n := by
  obtain ⟨nc, hl, h1, h2, h3, h4, h5⟩ := loadNode_ok n h.1 h.2.1 h.2.2.1
  have : nodeImg n = nc := by simp [nodeImg, okOr, hl]
  rw [this]
  exact ⟨hl, h1, h2, h3, h4, by rw [h5]; exact normNode_shapeNode n h.1 h.2.2.2⟩

theorem nodeImg_shape (n : NodeD) (h : NodeOk n) : renderNode (nodeImg n) = shapeNode n := by
  obtain ⟨nc, hl, _, _, _, _, h5⟩ := loadNode_ok n h.1 h.2.1 h.2.2.1
  have : nodeImg n = nc := by simp [nodeImg, okOr, hl]
  rw [this]; exact h5

def setPos (U : List (Str × Blob × Blob)) (nc : NodeC) : NodeC := { nc with uiPos := lookupPos nc.uuid U }

theorem renderNode_setPos (U : List (Str × Blob × Blob)) (nc : NodeC) : renderNode (setPos U nc) = renderNode nc := rfl

def flowImg (f : FlowD) : FlowC :=
  { uuid := f.uuid, name := f.name, language := f.language, type := f.type, specVersion := f.specVersion,
    revision := f.revision, expire := f.expire, metadata := f.metadata, localization := f.localization,
    nodes := (f.nodes.map nodeImg).map (setPos (f.ui.getD [])) }

theorem keepsOr_if (dflt b : Blob) (h : keepsOr dflt b = true) : (if falsy b = true then dflt else b) = b := by
  simp only [keepsOr, truthy, Bool.or_eq_true, Bool.not_eq_true', beq_iff_eq] at h
  rcases h with h | h
  · simp [h]
  · subst h; simp

theorem lookupPos_nil (u : Str) : lookupPos u [] = none := rfl

theorem loadFlow_ok (f : FlowD) (hv : validFlow f = true) (hn : ∀ n ∈ f.nodes, NodeOk n) :
    loadFlow f = .ok (flowImg f) := by
  simp only [validFlow, Bool.and_eq_true, bne_iff_ne, ne_eq] at hv
  obtain ⟨⟨⟨hu, hm⟩, hl⟩, _⟩ := hv
  have hns : mapE loadNode f.nodes = .ok (f.nodes.map nodeImg) :=
    mapE_ok_of_forall f.nodes (fun n hn' => (nodeImg_spec n (hn n hn')).1)
  unfold loadFlow
  rw [if_neg hu]
  simp only [hns, keepsOr_if _ _ hm, keepsOr_if _ _ hl, flowImg]
  cases hui : f.ui with
  | some U => rfl
  | none =>
    have : List.map (setPos []) (List.map nodeImg f.nodes) = List.map nodeImg f.nodes := by
      rw [List.map_map]
      calc List.map (setPos [] ∘ nodeImg) f.nodes = List.map (id ∘ nodeImg) f.nodes := by
            apply List.map_congr_left
            intro n hn'
            have h3 := (nodeImg_spec n (hn n hn')).2.2.2.1
            simp only [Function.comp, setPos, lookupPos_nil, id]
            rw [← h3]
        _ = List.map nodeImg f.nodes := by simp
    simp [this]

/-! ### `_ui` positions -/

theorem filterMap_congr' {α β : Type} {f g : α → Option β} : ∀ (l : List α), (∀ a ∈ l, f a = g a) →
    l.filterMap f = l.filterMap g
  | [], _ => rfl
  | a :: as, h => by
    simp only [List.filterMap_cons, h a (by simp), filterMap_congr' as (fun x hx => h x (by simp [hx]))]

theorem lookupPos_filterMap (U : List (Str × Blob × Blob)) (u : Str) : ∀ ks : List Str,
    lookupPos u (ks.filterMap (fun k => (lookupPos k U).map (fun p => (k, p)))) =
      if u ∈ ks then lookupPos u U else none
  | [] => by simp [lookupPos]
  | k :: ks => by
    have ih := lookupPos_filterMap U u ks
    cases hk : lookupPos k U with
    | none =>
      simp only [List.filterMap_cons, hk, Option.map_none, ih, List.mem_cons]
      by_cases h1 : u = k
      · subst h1; simp [hk]
      · simp [h1]
    | some p =>
      simp only [List.filterMap_cons, hk, Option.map_some, lookupPos, ih, List.mem_cons]
      by_cases h1 : k = u
      · subst h1; simp [hk]
      · have : ¬ u = k := fun h => h1 h.symm
        simp [h1, this]

theorem normFlow_renderFlow (f : FlowD) (hn : ∀ n ∈ f.nodes, NodeOk n) :
    normFlow (renderFlow (flowImg f)) = normFlow f := by
  have huuid : ∀ n ∈ f.nodes, (nodeImg n).uuid = n.uuid := fun n h => (nodeImg_spec n (hn n h)).2.1
  -- rendered nodes
  have hnodes : (flowImg f).nodes.map renderNode = f.nodes.map (fun n => renderNode (nodeImg n)) := by
    simp [flowImg, List.map_map, Function.comp_def, renderNode_setPos]
  have hnorm : (f.nodes.map (fun n => renderNode (nodeImg n))).map normNode = f.nodes.map normNode := by
    rw [List.map_map]
    apply List.map_congr_left
    intro n h
    exact (nodeImg_spec n (hn n h)).2.2.2.2.2
  -- rendered positions
  let U := f.ui.getD []
  let R := f.nodes.filterMap (fun n => (lookupPos n.uuid U).map (fun p => (n.uuid, p)))
  have hR : (flowImg f).nodes.filterMap (fun n => n.uiPos.map (fun p => (n.uuid, p))) = R := by
    simp only [flowImg, List.filterMap_map, R]
    apply filterMap_congr'
    intro n h
    simp [Function.comp, setPos, huuid n h, U]
  have hlook : ∀ n ∈ f.nodes, lookupPos n.uuid R = lookupPos n.uuid U := by
    intro n h
    have := lookupPos_filterMap U n.uuid (f.nodes.map (·.uuid))
    rw [List.filterMap_map] at this
    have hm : n.uuid ∈ f.nodes.map (·.uuid) := List.mem_map_of_mem h
    simp only [hm, if_true] at this
    exact this
  have hui : ((if R = [] then none else some R : Option (List (Str × Blob × Blob)))).getD [] = R := by
    by_cases h : R = [] <;> simp [h]
  have hruuid : ∀ n ∈ f.nodes, (renderNode (nodeImg n)).uuid = n.uuid := fun n h => huuid n h
  simp only [normFlow, renderFlow, hnodes, hR, hui, hnorm, List.filterMap_map]
  have : List.filterMap ((fun n => Option.map (fun p => (n.uuid, p)) (lookupPos n.uuid R)) ∘ fun n => renderNode (nodeImg n)) f.nodes
      = List.filterMap (fun n => Option.map (fun p => (n.uuid, p)) (lookupPos n.uuid (f.ui.getD []))) f.nodes := by
    apply filterMap_congr'
    intro n h
    simp only [Function.comp, hruuid n h, hlook n h, U]
  simp [this, flowImg]

/-! ### assigning uuids from the dictionary changes nothing when every reference resolves to itself -/

theorem assignGroup_id (gd : UDict) (g : GroupD) (h : dget g.name gd = some g.uuid) : assignGroup gd g = g := by
  cases g; simp_all [assignGroup]

theorem assignFlowRef_id (fd : UDict) (f : FlowRefD) (h : dget f.name fd = some f.uuid) : assignFlowRef fd f = f := by
  cases f; simp_all [assignFlowRef]

theorem map_id_of_forall {α : Type} {f : α → α} (l : List α) (h : ∀ a ∈ l, f a = a) : l.map f = l := by
  calc l.map f = l.map id := List.map_congr_left h
    _ = l := by simp

theorem assignAction_id (gd fd : UDict) (a : ActionD)
    (hg : ∀ r ∈ actionGroupRefs a, dget r.1 gd = some r.2) (hf : ∀ r ∈ actionFlowRefs a, dget r.1 fd = some r.2) :
    assignAction gd fd a = a := by
  cases a with
  | addGroups u gs =>
    simp only [assignAction]
    rw [map_id_of_forall gs (fun g hg' => assignGroup_id gd g (hg (gref g) (List.mem_map_of_mem hg')))]
  | removeGroups u gs ag =>
    simp only [assignAction]
    rw [map_id_of_forall gs (fun g hg' => assignGroup_id gd g (hg (gref g) (List.mem_map_of_mem hg')))]
  | enterFlow u f =>
    simp only [assignAction]
    rw [assignFlowRef_id fd f (hf (fref f) (by simp [actionFlowRefs]))]
  | _ => rfl

theorem assignCase_id (gd : UDict) (c : CaseD) (h : ∀ r ∈ caseRefsD c, dget r.1 gd = some r.2) :
    assignCase gd c = c := by
  unfold assignCase
  by_cases ht : c.type = strHasGroup
  · simp only [ht, if_true]
    cases c with
    | mk uuid type arguments cu =>
      match arguments, h with
      | [], _ => rfl
      | [_], _ => rfl
      | u :: n :: rest, h =>
        simp only at ht
        have := h (n, u) (by simp [caseRefsD, ht])
        simp only at this
        simp [this, ht]
  · simp [ht]

theorem assignRouter_id (gd : UDict) (rc : RouterC) (h : ∀ c ∈ routerCases rc, assignCase gd c = c) :
    assignRouter gd rc = rc := by
  cases rc with
  | switch op rn wt ks os d nr =>
    simp only [assignRouter]
    rw [map_id_of_forall ks h]
  | random rn cs => rfl

theorem nodeRefsD_eq (n : NodeD) :
    nodeRefsD n = (n.actions.map actionGroupRefs).flatten ++ ((nodeCasesD n).map caseRefsD).flatten := by
  cases n with
  | mk u a r e =>
    cases r with
    | none => simp [nodeRefsD, nodeCasesD, actionRefsD]
    | some r => cases r <;> simp [nodeRefsD, nodeCasesD, routerCasesD, actionRefsD]

theorem assignNode_id (gd fd : UDict) (U : List (Str × Blob × Blob)) (n : NodeD) (hok : NodeOk n)
    (hg : ∀ r ∈ nodeRefsD n, dget r.1 gd = some r.2) (hf : ∀ r ∈ nodeFlowRefsD n, dget r.1 fd = some r.2) :
    assignNode gd fd (setPos U (nodeImg n)) = setPos U (nodeImg n) := by
  obtain ⟨_, _, hacts, _, hcases, _⟩ := nodeImg_spec n hok
  rw [nodeRefsD_eq] at hg
  have h1 : (nodeImg n).actions.map (assignAction gd fd) = (nodeImg n).actions := by
    rw [hacts]
    apply map_id_of_forall
    intro a ha
    apply assignAction_id
    · intro r hr
      exact hg r (List.mem_append_left _ (List.mem_flatten.mpr ⟨_, List.mem_map_of_mem ha, hr⟩))
    · intro r hr
      exact hf r (List.mem_flatten.mpr ⟨_, List.mem_map_of_mem ha, hr⟩)
  have h2 : (nodeImg n).router.map (assignRouter gd) = (nodeImg n).router := by
    cases hr : (nodeImg n).router with
    | none => rfl
    | some rc =>
      simp only [Option.map_some]
      rw [assignRouter_id gd rc]
      intro c hc
      apply assignCase_id
      intro r hr'
      have hc' : c ∈ nodeCasesD n := by rw [← hcases]; simp [nodeCasesC, hr, hc]
      exact hg r (List.mem_append_right _ (List.mem_flatten.mpr ⟨_, List.mem_map_of_mem hc', hr'⟩))
  simp only [assignNode, setPos, h1, h2]

/-! ### the group references of a loaded node are those of the node -/

theorem caseGroupRefs_ok (c : CaseD) (h : validCase c = true) : caseGroupRefs c = .ok (caseRefsD c) := by
  simp only [validCase, Bool.and_eq_true, Bool.or_eq_true, bne_iff_ne, ne_eq, Bool.not_eq_true',
    decide_eq_true_eq] at h
  obtain ⟨_, h4⟩ := h
  unfold caseGroupRefs caseRefsD
  by_cases ht : c.type = strHasGroup
  · simp only [ht, if_true]
    rcases h4 with h4 | h4
    · simp [ht] at h4
    · match hargs : c.arguments with
      | [] => simp [hargs] at h4
      | [_] => simp [hargs] at h4
      | u :: n :: rest => rfl
  · simp [ht]

theorem validNode_cases (n : NodeD) (h : validNode n = true) : ∀ c ∈ nodeCasesD n, validCase c = true := by
  cases n with
  | mk u a r e =>
    simp only [validNode, Bool.and_eq_true] at h
    obtain ⟨_, hr⟩ := h
    cases r with
    | none => simp [nodeCasesD]
    | some r =>
      cases r with
      | random cats rn => simp [nodeCasesD, routerCasesD]
      | switch op cases cats dflt wait rn =>
        simp only [validRouter, Bool.and_eq_true] at hr
        intro c hc
        simp only [nodeCasesD, routerCasesD] at hc
        exact (List.all_eq_true.mp hr.1.1.2) c hc

theorem nodeGroupRefs_ok (U : List (Str × Blob × Blob)) (n : NodeD) (hok : NodeOk n) :
    nodeGroupRefs (setPos U (nodeImg n)) = .ok (nodeRefsD n) := by
  obtain ⟨_, _, hacts, _, hcases, _⟩ := nodeImg_spec n hok
  have hc : mapE caseGroupRefs (nodeCasesD n) = .ok ((nodeCasesD n).map caseRefsD) :=
    mapE_ok_of_forall _ (fun c hc => caseGroupRefs_ok c (validNode_cases n hok.1 c hc))
  have : nodeCasesC (setPos U (nodeImg n)) = nodeCasesD n := by
    rw [← hcases]; rfl
  unfold nodeGroupRefs
  rw [this, hc, nodeRefsD_eq]
  simp [setPos, hacts]

theorem nodeFlowRefs_ok (U : List (Str × Blob × Blob)) (n : NodeD) (hok : NodeOk n) :
    nodeFlowRefs (setPos U (nodeImg n)) = nodeFlowRefsD n := by
  obtain ⟨_, _, hacts, _, _, _⟩ := nodeImg_spec n hok
  simp [nodeFlowRefs, nodeFlowRefsD, setPos, hacts]

/-- transport of a per-node function from the loaded flows to the document's nodes -/
theorem loadedNodes_map {β : Type} (flows : List FlowD) (φ : NodeC → β) (ψ : NodeD → β)
    (h : ∀ f ∈ flows, ∀ n ∈ f.nodes, φ (setPos (f.ui.getD []) (nodeImg n)) = ψ n) :
    (((flows.map flowImg).map (·.nodes)).flatten).map φ = ((flows.map (·.nodes)).flatten).map ψ := by
  induction flows with
  | nil => rfl
  | cons f fs ih =>
    simp only [List.map_cons, List.flatten_cons, List.map_append]
    rw [ih (fun f' hf' => h f' (by simp [hf']))]
    congr 1
    simp only [flowImg, List.map_map]
    apply List.map_congr_left
    intro n hn
    exact h f (by simp) n hn

theorem loadedNodes_mem (flows : List FlowD) (nc : NodeC)
    (h : nc ∈ ((flows.map flowImg).map (·.nodes)).flatten) :
    ∃ f ∈ flows, ∃ n ∈ f.nodes, nc = setPos (f.ui.getD []) (nodeImg n) := by
  obtain ⟨l, hl, hnc⟩ := List.mem_flatten.mp h
  simp only [List.map_map, List.mem_map, Function.comp] at hl
  obtain ⟨f, hf, rfl⟩ := hl
  simp only [flowImg, List.map_map, List.mem_map, Function.comp] at hnc
  obtain ⟨n, hn, rfl⟩ := hnc
  exact ⟨f, hf, n, hn, rfl⟩

/-! ### campaigns -/

theorem strM_ne_strF : strM ≠ strF := by decide

theorem loadEvent_ok (e : EventD) (h : validEvent e = true) : loadEvent e = .ok e := by
  simp only [validEvent, Bool.and_eq_true, Bool.or_eq_true, bne_iff_ne, ne_eq, beq_iff_eq,
    Bool.not_eq_true', truthy] at h
  obtain ⟨⟨hu, hk⟩, hcase⟩ := h
  unfold loadEvent
  rw [if_neg hu, if_neg (by simp [hk])]
  rcases hcase with ⟨⟨⟨hm, hmsg⟩, hflow⟩, hbl⟩ | ⟨⟨hf, hflow⟩, hbl⟩
  · cases hb : e.baseLanguage with
    | none => simp [hb] at hbl
    | some b =>
      simp only [hb, Bool.not_eq_true'] at hbl
      have hbn : ¬ b = jNull := by
        intro h; subst h; simp [falsy] at hbl
      have : ¬ (e.eventType = strF) := by rw [hm]; exact strM_ne_strF
      simp [hm, hmsg, hbn, this, strM_ne_strF]
  · have : ¬ (e.eventType = strM) := by rw [hf]; exact fun h => strM_ne_strF h.symm
    have hfl : ¬ e.flow = none := by
      intro h; simp [h] at hflow
    have hfm : ¬ strF = strM := fun h => strM_ne_strF h.symm
    simp [this, hf, hfl, hfm]

theorem renderEvent_id (e : EventD) (h : validEvent e = true) : renderEvent e = e := by
  simp only [validEvent, Bool.and_eq_true, Bool.or_eq_true, bne_iff_ne, ne_eq, beq_iff_eq,
    Bool.not_eq_true'] at h
  obtain ⟨_, hcase⟩ := h
  cases e with
  | mk uuid offset unit eventType deliveryHour message relLabel relKey startMode flow baseLanguage =>
  simp only at hcase
  rcases hcase with ⟨⟨⟨hm, _⟩, hflow⟩, hbl⟩ | ⟨⟨hf, _⟩, hbl⟩
  · subst hm
    cases baseLanguage with
    | none => simp at hbl
    | some b =>
      simp only at hbl
      have hfn : flow = none := by simpa using hflow
      simp [renderEvent, strM_ne_strF, hfn, Option.filter, hbl]
  · subst hf
    have hbn : baseLanguage = none := by simpa using hbl
    have : ¬ strF = strM := fun h => strM_ne_strF h.symm
    simp [renderEvent, this, hbn]

theorem loadCampaign_ok (c : CampaignD) (h : validCampaign c = true) : loadCampaign c = .ok c := by
  simp only [validCampaign, Bool.and_eq_true, bne_iff_ne, ne_eq] at h
  have he : mapE loadEvent c.events = .ok c.events :=
    mapE_ok_id c.events (fun e he => loadEvent_ok e ((List.all_eq_true.mp h.2) e he))
  unfold loadCampaign
  rw [if_neg h.1, he]

/-! ### triggers -/

theorem isNull_falsy (k : Blob) (h : isNull k = true) : falsy k = true := by
  have : k = jNull := by simpa [isNull] using h
  subst this; decide

theorem loadTrigger_ok (t : TriggerD) (h : validTrigger t = true) : loadTrigger t = .ok (trigImg t) := by
  simp only [validTrigger, Bool.and_eq_true] at h
  obtain ⟨hch, hkw⟩ := h
  have hchan := keepsOr_if jNull t.channel hch
  cases t with
  | mk type keyword keywords channel matchType flow groups excludeGroups =>
  simp only at hkw hchan
  cases keywords with
  | some ks =>
    have hK : ¬ (type = strK ∧ firstFalsy ks = true) := by
      intro ⟨h1, h2⟩
      cases keyword <;> simp [h1, h2] at hkw
    simp only [loadTrigger, if_neg hK, hchan, trigImg, normKeywords]
  | none =>
    cases keyword with
    | none => simp at hkw
    | some k =>
      have hK : ¬ (type = strK ∧ firstFalsy (if isNull k = true then [] else [k]) = true) := by
        intro ⟨h1, h2⟩
        have : falsy k = true := by
          by_cases hn : isNull k = true
          · exact isNull_falsy k hn
          · simpa [hn, firstFalsy] using h2
        simp [h1, this] at hkw
      simp only [loadTrigger, if_neg hK, hchan, trigImg, normKeywords]

theorem normKeywords_render (tc : TriggerC) : normKeywords (renderTrigger tc) = tc.keywords := rfl

theorem matchType_eq (ty : Str) (m : Option Blob) :
    normMatchType ty (renderMatchType (loadMatchType ty m)) = normMatchType ty m := by
  have hF : falsy jMatchF = false := by decide
  have hN : falsy jNull = true := by decide
  unfold normMatchType renderMatchType loadMatchType
  cases m with
  | none =>
    by_cases hk : ty = strK <;> simp [hk, hF, hN, dropFalsy, Option.filter, truthy]
  | some b =>
    by_cases hb : falsy b = true
    · by_cases hk : ty = strK <;> simp [hk, hb, hF, hN, dropFalsy, Option.filter, truthy]
    · have hb' : falsy b = false := by simpa using hb
      simp [hb', dropFalsy, Option.filter, truthy]

theorem excl_eq (ex : Option (List GroupD)) :
    normExcl (some ((ex.getD []).map renderGroup)) = normExcl ex := by
  have hg : ∀ gs : List GroupD, (gs.map renderGroup).map normGroup = gs.map normGroup := by
    intro gs
    rw [List.map_map]
    exact List.map_congr_left (fun g _ => normGroup_renderGroup g)
  cases ex with
  | none => rfl
  | some gs =>
    cases gs with
    | nil => rfl
    | cons g gs =>
      have := hg (g :: gs)
      simp only [List.map_cons] at this
      simp only [normExcl, Option.getD_some, List.map_cons]
      rw [this]

theorem normTrigger_render (t : TriggerD) :
    normTrigger (renderTrigger (trigImg t)) = normTrigger t := by
  have hg : (t.groups.map renderGroup).map normGroup = t.groups.map normGroup := by
    rw [List.map_map]
    exact List.map_congr_left (fun g _ => normGroup_renderGroup g)
  have hm := matchType_eq t.type t.matchType
  have he := excl_eq t.excludeGroups
  cases t with
  | mk type keyword keywords channel matchType flow groups excludeGroups =>
  simp only at hg hm he
  simp only [normTrigger, normKeywords_render]
  simp only [renderTrigger, trigImg, hg, hm, he]

/-! ### the whole document -/

def docImg (d : DocD) : Container :=
  { campaigns := d.campaigns, fields := d.fields, flows := d.flows.map flowImg, groups := d.groups,
    site := d.site, triggers := d.triggers.map trigImg, version := d.version }

/-- what `render` writes for the loaded image of a valid document -/
def outDoc (d : DocD) : DocD :=
  { campaigns := d.campaigns.map renderCampaign, fields := d.fields,
    flows := (d.flows.map flowImg).map renderFlow,
    groups := d.groups.map (fun g => ({ name := g.name, uuid := g.uuid } : GroupD)),
    site := d.site, triggers := (d.triggers.map trigImg).map renderTrigger, version := d.version }

theorem mem_allNodes {d : DocD} {f : FlowD} {n : NodeD} (hf : f ∈ d.flows) (hn : n ∈ f.nodes) : n ∈ allNodes d :=
  List.mem_flatten.mpr ⟨f.nodes, List.mem_map_of_mem hf, hn⟩

theorem nodeOk_of (d : DocD) (hv : Valid d) (ho : OrderedCats d) (hx : ExitsByCats d) (hu : UntypedFields d) :
    ∀ f ∈ d.flows, ∀ n ∈ f.nodes, NodeOk n := by
  intro f hf n hn
  have hvf := hv.flows f hf
  simp only [validFlow, Bool.and_eq_true] at hvf
  have hm := mem_allNodes hf hn
  refine ⟨(List.all_eq_true.mp hvf.2) n hn, hx n hm, ?_, hu n hm⟩
  intro r hr
  have := ho n hm
  simpa [orderedNode, hr] using this

theorem load_ok (d : DocD) (hv : Valid d) (hn : ∀ f ∈ d.flows, ∀ n ∈ f.nodes, NodeOk n) :
    load d = .ok (docImg d) := by
  have h1 : mapE loadFlow d.flows = .ok (d.flows.map flowImg) :=
    mapE_ok_of_forall _ (fun f hf => loadFlow_ok f (hv.flows f hf) (hn f hf))
  have h2 : mapE loadCampaign d.campaigns = .ok d.campaigns :=
    mapE_ok_id _ (fun c hc => loadCampaign_ok c (hv.campaigns c hc))
  have h3 : mapE loadTrigger d.triggers = .ok (d.triggers.map trigImg) :=
    mapE_ok_of_forall _ (fun t ht => loadTrigger_ok t (hv.triggers t ht))
  have h4 := keepsOr_if jEmptyArr d.fields hv.fields
  have h5 : (if falsy d.site = true then jDefaultSite else d.site) = d.site := by
    have := hv.site
    simp only [truthy, Bool.not_eq_true'] at this
    simp [this]
  simp only [load, h1, h2, h3, h4, h5, docImg]

theorem mem_groupRefs_node {d : DocD} {f : FlowD} {n : NodeD} {r : Str × Str}
    (hf : f ∈ d.flows) (hn : n ∈ f.nodes) (hr : r ∈ nodeRefsD n) : r ∈ docGroupRefs d := by
  unfold docGroupRefs
  exact List.mem_append_left _ (List.mem_append_left _
    (List.mem_flatten.mpr ⟨_, List.mem_map_of_mem (mem_allNodes hf hn), hr⟩))

theorem mem_groupRefs_campaign {d : DocD} {c : CampaignD} (hc : c ∈ d.campaigns) : gref c.group ∈ docGroupRefs d := by
  unfold docGroupRefs
  exact List.mem_append_left _ (List.mem_append_right _ (List.mem_map_of_mem (f := fun c => gref c.group) hc))

theorem mem_groupRefs_trigger {d : DocD} {t : TriggerD} {r : Str × Str} (ht : t ∈ d.triggers)
    (hr : r ∈ triggerRefsD t) : r ∈ docGroupRefs d := by
  unfold docGroupRefs
  exact List.mem_append_right _ (List.mem_flatten.mpr ⟨_, List.mem_map_of_mem ht, hr⟩)

theorem mem_flowRefs_node {d : DocD} {f : FlowD} {n : NodeD} {r : Str × Str}
    (hf : f ∈ d.flows) (hn : n ∈ f.nodes) (hr : r ∈ nodeFlowRefsD n) : r ∈ docFlowRefsPre d := by
  unfold docFlowRefsPre
  exact List.mem_append_left _ (List.mem_append_right _
    (List.mem_flatten.mpr ⟨_, List.mem_map_of_mem (mem_allNodes hf hn), hr⟩))

theorem mem_flowRefs_event {d : DocD} {c : CampaignD} {e : EventD} {r : Str × Str}
    (hc : c ∈ d.campaigns) (he : e ∈ c.events) (hr : r ∈ eventFlowRefs e) : r ∈ docFlowRefsPre d := by
  unfold docFlowRefsPre
  refine List.mem_append_right _ (List.mem_flatten.mpr ⟨eventFlowRefs e, ?_, hr⟩)
  exact List.mem_flatten.mpr ⟨c.events.map eventFlowRefs,
    List.mem_map_of_mem (f := fun c => c.events.map eventFlowRefs) hc, List.mem_map_of_mem he⟩

theorem allGroupRefs_ok (d : DocD) (hn : ∀ f ∈ d.flows, ∀ n ∈ f.nodes, NodeOk n) :
    allGroupRefs (docImg d) = .ok (d.groups.map gref ++ docGroupRefs d) := by
  let g : NodeC → List (Str × Str) := fun nc => okOr [] (nodeGroupRefs nc)
  have h1 : mapE nodeGroupRefs (((d.flows.map flowImg).map (·.nodes)).flatten) =
      .ok ((((d.flows.map flowImg).map (·.nodes)).flatten).map g) := by
    apply mapE_ok_of_forall
    intro nc hnc
    obtain ⟨f, hf, n, hn', rfl⟩ := loadedNodes_mem d.flows nc hnc
    simp [g, okOr, nodeGroupRefs_ok _ n (hn f hf n hn')]
  have h2 : (((d.flows.map flowImg).map (·.nodes)).flatten).map g = (allNodes d).map nodeRefsD := by
    apply loadedNodes_map
    intro f hf n hn'
    simp [g, okOr, nodeGroupRefs_ok _ n (hn f hf n hn')]
  have h3 : ((d.triggers.map trigImg).map triggerGroupRefs).flatten = (d.triggers.map triggerRefsD).flatten := by
    rw [List.map_map]
    rfl
  simp only [allGroupRefs, docImg, h1, h2, h3, docGroupRefs, List.append_assoc]

theorem preTriggerFlowRefs_ok (d : DocD) (hn : ∀ f ∈ d.flows, ∀ n ∈ f.nodes, NodeOk n) :
    preTriggerFlowRefs (docImg d) = docFlowRefsPre d := by
  have h1 : (((d.flows.map flowImg).map (·.nodes)).flatten).map nodeFlowRefs = (allNodes d).map nodeFlowRefsD := by
    apply loadedNodes_map
    intro f hf n hn'
    exact nodeFlowRefs_ok _ n (hn f hf n hn')
  have h2 : (d.flows.map flowImg).map (fun f => (f.name, f.uuid)) = d.flows.map (fun f => (f.name, f.uuid)) := by
    rw [List.map_map]; rfl
  simp only [preTriggerFlowRefs, docImg, h1, h2, docFlowRefsPre]

theorem render_ok (d : DocD) (hv : Valid d) (hn : ∀ f ∈ d.flows, ∀ n ∈ f.nodes, NodeOk n) :
    render (docImg d) = .ok (outDoc d) := by
  -- group dictionary
  have hkeys : ((d.groups.map gref).map (·.1)).Nodup := by
    have : (d.groups.map gref).map (·.1) = d.groups.map (·.name) := by rw [List.map_map]; rfl
    rw [this]; exact hv.groupNames
  have hG : ∀ r ∈ docGroupRefs d, dget r.1 (d.groups.map gref) = some r.2 ∧ r.2 ≠ [] := by
    intro r hr
    have hm := hv.groupsListed r hr
    refine ⟨dget_of_mem _ hkeys r.1 r.2 hm, ?_⟩
    obtain ⟨g, hg, rfl⟩ := List.mem_map.mp hm
    exact hv.groupUuids g hg
  have hgd : recordAll [] (d.groups.map gref ++ docGroupRefs d) = .ok (d.groups.map gref) := by
    have h0 := recordAll_fresh (d.groups.map gref) [] (fun _ _ => rfl) hkeys
    rw [recordAll_append _ _ _ _ h0]
    simpa using recordAll_listed (docGroupRefs d) (d.groups.map gref) hG
  -- flow dictionary
  obtain ⟨hfne, hffun⟩ := hv.flowRefs
  have hpre_sub : ∀ r ∈ docFlowRefsPre d, r ∈ docFlowRefs d := fun r hr => List.mem_append_left _ hr
  have htr_sub : ∀ t ∈ d.triggers, fref t.flow ∈ docFlowRefs d := fun t ht =>
    List.mem_append_right _ (List.mem_map_of_mem (f := fun t => fref t.flow) ht)
  obtain ⟨fd0, hfd0, _, hres0, hmem0, hrev0⟩ := recordAll_functional (docFlowRefsPre d) []
    (fun r hr => hfne r (hpre_sub r hr))
    (fun r hr s hs => hffun r (hpre_sub r hr) s (hpre_sub s hs))
    (fun r _ v h => by simp [dget] at h)
  have htrig : ∀ tc ∈ d.triggers.map trigImg, ∃ t ∈ d.triggers, tc.flow = t.flow := by
    intro tc htc
    obtain ⟨t, ht, rfl⟩ := List.mem_map.mp htc
    exact ⟨t, ht, rfl⟩
  obtain ⟨fd, hfd, hmono, hrest, hmemt⟩ := recordTriggers_functional (d.triggers.map trigImg) fd0
    (by
      intro tc htc
      obtain ⟨t, ht, he⟩ := htrig tc htc
      rw [he]; exact hfne _ (htr_sub t ht))
    (by
      intro a ha b hb hab
      obtain ⟨t, ht, he⟩ := htrig a ha
      obtain ⟨s, hs, he'⟩ := htrig b hb
      rw [he, he'] at hab ⊢
      exact hffun _ (htr_sub t ht) _ (htr_sub s hs) hab)
    (by
      intro tc htc v hv'
      obtain ⟨t, ht, he⟩ := htrig tc htc
      rw [he] at hv' ⊢
      rcases hrev0 _ _ hv' with h | h
      · simp [dget] at h
      · exact hffun _ (hpre_sub _ h) _ (htr_sub t ht) rfl)
    (by
      intro tc htc
      obtain ⟨t, ht, he⟩ := htrig tc htc
      rw [he]
      obtain ⟨r, hr, hr1⟩ := List.mem_map.mp (hv.triggerFlows t ht)
      exact ⟨r.2, by rw [← hr1]; exact hres0 r hr⟩)
  have hresF : ∀ r ∈ docFlowRefsPre d, dget r.1 fd = some r.2 := fun r hr => hmono _ _ (hres0 r hr)
  have hresT : ∀ t ∈ d.triggers, dget t.flow.name fd = some t.flow.uuid := fun t ht =>
    hrest (trigImg t) (List.mem_map_of_mem ht)
  -- nothing is missing
  have hgiven : (allGiven (d.groups.map gref) && allGiven fd) = true := by
    simp only [allGiven, Bool.and_eq_true, List.all_eq_true, bne_iff_ne, ne_eq]
    constructor
    · intro kv hkv
      obtain ⟨g, hg, rfl⟩ := List.mem_map.mp hkv
      exact hv.groupUuids g hg
    · intro kv hkv
      rcases hmemt kv hkv with h | h
      · rcases hmem0 kv h with h | h
        · simp at h
        · exact hfne kv (hpre_sub kv h)
      · obtain ⟨tc, htc, rfl⟩ := List.mem_map.mp h
        obtain ⟨t, ht, he⟩ := htrig tc htc
        rw [he]; exact hfne _ (htr_sub t ht)
  -- assigning changes nothing
  have hflows : (d.flows.map flowImg).map (fun f => { f with nodes := f.nodes.map (assignNode (d.groups.map gref) fd) })
      = d.flows.map flowImg := by
    apply map_id_of_forall
    intro fc hfc
    obtain ⟨f, hf, rfl⟩ := List.mem_map.mp hfc
    have : (flowImg f).nodes.map (assignNode (d.groups.map gref) fd) = (flowImg f).nodes := by
      apply map_id_of_forall
      intro nc hnc
      simp only [flowImg, List.map_map, List.mem_map, Function.comp] at hnc
      obtain ⟨n, hn', rfl⟩ := hnc
      apply assignNode_id _ _ _ n (hn f hf n hn')
      · intro r hr
        exact (hG r (mem_groupRefs_node hf hn' hr)).1
      · intro r hr
        exact hresF r (mem_flowRefs_node hf hn' hr)
    rw [this]
  have hcamps : d.campaigns.map (fun k => { k with events := k.events.map (assignEvent fd), group := assignGroup (d.groups.map gref) k.group }) = d.campaigns := by
    apply map_id_of_forall
    intro k hk
    have h1 : k.events.map (assignEvent fd) = k.events := by
      apply map_id_of_forall
      intro e he
      cases hfl : e.flow with
      | none => cases e; simp_all [assignEvent]
      | some fr =>
        have := hresF (fref fr) (mem_flowRefs_event hk he (by simp [eventFlowRefs, hfl]))
        have h2 := assignFlowRef_id fd fr this
        cases e; simp_all [assignEvent]
    have h2 := assignGroup_id (d.groups.map gref) k.group (hG _ (mem_groupRefs_campaign hk)).1
    rw [h1, h2]
  have htrigs : (d.triggers.map trigImg).map (fun t => { t with flow := assignFlowRef fd t.flow, groups := t.groups.map (assignGroup (d.groups.map gref)), excludeGroups := t.excludeGroups.map (assignGroup (d.groups.map gref)) }) = d.triggers.map trigImg := by
    apply map_id_of_forall
    intro tc htc
    obtain ⟨t, ht, rfl⟩ := List.mem_map.mp htc
    have h1 := assignFlowRef_id fd t.flow (hresT t ht)
    have h2 : t.groups.map (assignGroup (d.groups.map gref)) = t.groups := by
      apply map_id_of_forall
      intro g hg
      exact assignGroup_id _ g (hG _ (mem_groupRefs_trigger ht (List.mem_append_left _ (List.mem_map_of_mem hg)))).1
    have h3 : (t.excludeGroups.getD []).map (assignGroup (d.groups.map gref)) = t.excludeGroups.getD [] := by
      apply map_id_of_forall
      intro g hg
      exact assignGroup_id _ g (hG _ (mem_groupRefs_trigger ht (List.mem_append_right _ (List.mem_map_of_mem hg)))).1
    simp only [trigImg, h1, h2, h3]
  have hrender := allGroupRefs_ok d hn
  have hpre := preTriggerFlowRefs_ok d hn
  unfold render
  rw [hrender]
  simp only [hgd]
  rw [hpre]
  simp only [hfd0]
  have hfd' : recordTriggers fd0 (docImg d).triggers = .ok fd := hfd
  simp only [hfd', hgiven]
  have hflows' : (docImg d).flows.map (fun f => { f with nodes := f.nodes.map (assignNode (d.groups.map gref) fd) })
      = d.flows.map flowImg := hflows
  have hcamps' : (docImg d).campaigns.map (fun k => { k with events := k.events.map (assignEvent fd), group := assignGroup (d.groups.map gref) k.group }) = d.campaigns := hcamps
  have htrigs' : (docImg d).triggers.map (fun t => { t with flow := assignFlowRef fd t.flow, groups := t.groups.map (assignGroup (d.groups.map gref)), excludeGroups := t.excludeGroups.map (assignGroup (d.groups.map gref)) }) = d.triggers.map trigImg := htrigs
  simp only [hflows', hcamps', htrigs']
  simp [outDoc, docImg, gref, Function.comp_def]

theorem normCampaign_render (k : CampaignD) (h : validCampaign k = true) :
    normCampaign (renderCampaign k) = normCampaign k := by
  simp only [validCampaign, Bool.and_eq_true] at h
  have he : k.events.map renderEvent = k.events :=
    map_id_of_forall _ (fun e he => renderEvent_id e ((List.all_eq_true.mp h.2) e he))
  simp only [normCampaign, renderCampaign, he, normGroup_renderGroup]

theorem normGroup_plain (g : GroupD) (h : plainGroup g = true) :
    normGroup { name := g.name, uuid := g.uuid } = normGroup g := by
  simp only [plainGroup, Bool.and_eq_true, Option.isNone_iff_eq_none] at h
  obtain ⟨⟨⟨h1, h2⟩, h3⟩, h4⟩ := h
  simp only [normGroup, h1, h2, h3, h4]
  rfl

theorem normDoc_outDoc (d : DocD) (hv : Valid d) (hn : ∀ f ∈ d.flows, ∀ n ∈ f.nodes, NodeOk n)
    (hp : PlainGroups d) : normDoc (outDoc d) = normDoc d := by
  have h1 : (d.campaigns.map renderCampaign).map normCampaign = d.campaigns.map normCampaign := by
    rw [List.map_map]
    exact List.map_congr_left (fun k hk => normCampaign_render k (hv.campaigns k hk))
  have h2 : ((d.flows.map flowImg).map renderFlow).map normFlow = d.flows.map normFlow := by
    rw [List.map_map, List.map_map]
    exact List.map_congr_left (fun f hf => normFlow_renderFlow f (hn f hf))
  have h3 : (d.groups.map (fun g => ({ name := g.name, uuid := g.uuid } : GroupD))).map normGroup = d.groups.map normGroup := by
    rw [List.map_map]
    exact List.map_congr_left (fun g hg => normGroup_plain g (hp g hg))
  have h4 : ((d.triggers.map trigImg).map renderTrigger).map normTrigger = d.triggers.map normTrigger := by
    rw [List.map_map, List.map_map]
    exact List.map_congr_left (fun t _ => normTrigger_render t)
  simp only [normDoc, outDoc, h1, h2, h3, h4]

/-! ### the exact shape of the output -/

theorem renderFlow_flowImg (f : FlowD) (hn : ∀ n ∈ f.nodes, NodeOk n) : renderFlow (flowImg f) = shapeFlow f := by
  have huuid : ∀ n ∈ f.nodes, (nodeImg n).uuid = n.uuid := fun n h => (nodeImg_spec n (hn n h)).2.1
  have hnodes : (flowImg f).nodes.map renderNode = f.nodes.map shapeNode := by
    simp only [flowImg, List.map_map]
    apply List.map_congr_left
    intro n h
    simp only [Function.comp, renderNode_setPos]
    exact nodeImg_shape n (hn n h)
  have hR : (flowImg f).nodes.filterMap (fun n => n.uiPos.map (fun p => (n.uuid, p))) = uiOf f := by
    simp only [flowImg, List.filterMap_map, uiOf]
    apply filterMap_congr'
    intro n h
    simp [Function.comp, setPos, huuid n h]
  simp only [renderFlow, hnodes, hR, shapeFlow]
  simp [flowImg]

theorem outDoc_eq_shapeDoc (d : DocD) (hn : ∀ f ∈ d.flows, ∀ n ∈ f.nodes, NodeOk n) : outDoc d = shapeDoc d := by
  have h : (d.flows.map flowImg).map renderFlow = d.flows.map shapeFlow := by
    rw [List.map_map]
    exact List.map_congr_left (fun f hf => renderFlow_flowImg f (hn f hf))
  simp only [outDoc, shapeDoc, h, List.map_map]
  rfl

/-! ### the shape is a fixed point of shaping -/

theorem renderGroup_idem (g : GroupD) : renderGroup (renderGroup g) = renderGroup g := by
  have := dropNull_idem
  simp only [dropNull] at this
  simp [renderGroup, this]

theorem renderExit_idem (e : ExitD) : renderExit (renderExit e) = renderExit e := by
  cases e with
  | mk u dest =>
    simp only [renderExit, Option.getD_some]
    by_cases h : dest.getD jNull = jHardExit
    · simp [h]
    · simp [h]

theorem filter_truthy_idem (o : Option Blob) : (o.filter truthy).filter truthy = o.filter truthy := dropFalsy_idem o

theorem renderAction_idem (a : ActionD) : renderAction (renderAction a) = renderAction a := by
  cases a with
  | sendMsg u t att q au tp tm =>
    simp only [renderAction, filter_truthy_idem, List.filter_filter, Bool.and_self]
  | setContactField u n k t v =>
    have hT : truthy jTypeBuiltin = true := by decide
    cases hb : fieldTypeBug with
    | false => simp [renderAction, hb, filter_truthy_idem]
    | true =>
      cases t with
      | none => simp [renderAction, hb]
      | some b => by_cases h : truthy b = true <;> simp [renderAction, hb, Option.filter, h, hT]
  | removeGroups u gs ag =>
    simp only [renderAction, filter_truthy_idem, List.map_map]
    congr 1
    exact List.map_congr_left (fun g _ => renderGroup_idem g)
  | addGroups u gs =>
    simp only [renderAction, List.map_map]
    congr 1
    exact List.map_congr_left (fun g _ => renderGroup_idem g)
  | setRunResult u n v c => simp only [renderAction, filter_truthy_idem]
  | _ => rfl

theorem shapeRouter_idem (r : RouterD) : shapeRouter (shapeRouter r) = shapeRouter r := by
  cases r with
  | switch op cases cats dflt wait rn =>
    simp only [shapeRouter]
    exact congrArg _ (dropNull_idem rn)
  | random cats rn =>
    simp only [shapeRouter, filter_truthy_idem]

theorem shapeNode_idem (n : NodeD) : shapeNode (shapeNode n) = shapeNode n := by
  simp only [shapeNode, List.map_map, Option.map_map]
  congr 1
  · exact List.map_congr_left (fun a _ => renderAction_idem a)
  · cases n.router with
    | none => rfl
    | some r => simp [shapeRouter_idem]
  · exact List.map_congr_left (fun e _ => renderExit_idem e)

theorem shapeNode_uuid (n : NodeD) : (shapeNode n).uuid = n.uuid := rfl

theorem lookup_uiOf (f : FlowD) : ∀ n ∈ f.nodes, lookupPos n.uuid (uiOf f) = lookupPos n.uuid (f.ui.getD []) := by
  intro n h
  have := lookupPos_filterMap (f.ui.getD []) n.uuid (f.nodes.map (·.uuid))
  rw [List.filterMap_map] at this
  have hm : n.uuid ∈ f.nodes.map (·.uuid) := List.mem_map_of_mem h
  simp only [hm, if_true] at this
  exact this

theorem uiOf_shapeFlow (f : FlowD) : uiOf (shapeFlow f) = uiOf f := by
  have hget : (shapeFlow f).ui.getD [] = uiOf f := by
    unfold shapeFlow
    by_cases h : uiOf f = [] <;> simp [h]
  have hnodes : (shapeFlow f).nodes = f.nodes.map shapeNode := rfl
  have h1 : uiOf (shapeFlow f) = (shapeFlow f).nodes.filterMap
      (fun n => (lookupPos n.uuid ((shapeFlow f).ui.getD [])).map (fun p => (n.uuid, p))) := rfl
  rw [h1, hget, hnodes, List.filterMap_map]
  have h2 : uiOf f = f.nodes.filterMap (fun n => (lookupPos n.uuid (f.ui.getD [])).map (fun p => (n.uuid, p))) := rfl
  conv => rhs; rw [h2]
  apply filterMap_congr'
  intro n h
  simp only [Function.comp, shapeNode_uuid]
  rw [lookup_uiOf f n h]

theorem shapeFlow_idem (f : FlowD) : shapeFlow (shapeFlow f) = shapeFlow f := by
  have h1 := uiOf_shapeFlow f
  have h2 : (shapeFlow f).nodes.map shapeNode = f.nodes.map shapeNode := by
    simp only [shapeFlow, List.map_map]
    exact List.map_congr_left (fun n _ => shapeNode_idem n)
  unfold shapeFlow at h2 ⊢
  simp only [h2]
  unfold shapeFlow at h1
  simp only [h1]

theorem renderEvent_idem (e : EventD) : renderEvent (renderEvent e) = renderEvent e := by
  cases e with
  | mk uuid offset unit eventType deliveryHour message relLabel relKey startMode flow baseLanguage =>
    by_cases h1 : eventType = strF
    · subst h1
      have : ¬ strF = strM := fun h => strM_ne_strF h.symm
      simp [renderEvent, this]
    · by_cases h2 : eventType = strM
      · subst h2
        simp [renderEvent, strM_ne_strF, filter_truthy_idem]
      · simp [renderEvent, h1, h2]

theorem renderCampaign_idem (c : CampaignD) : renderCampaign (renderCampaign c) = renderCampaign c := by
  simp only [renderCampaign, renderGroup_idem, List.map_map]
  congr 1
  exact List.map_congr_left (fun e _ => renderEvent_idem e)

theorem matchType_idem (ty : Str) (m : Option Blob) :
    renderMatchType (loadMatchType ty (renderMatchType (loadMatchType ty m))) = renderMatchType (loadMatchType ty m) := by
  have hF : falsy jMatchF = false := by decide
  have hN : falsy jNull = true := by decide
  unfold renderMatchType loadMatchType
  by_cases hm : falsy (m.getD jNull) = true
  · by_cases hk : ty = strK <;> simp [hm, hk, hF, hN]
  · have hm' : falsy (m.getD jNull) = false := by simpa using hm
    simp [hm']

theorem shapeTrigger_idem (t : TriggerD) :
    renderTrigger (trigImg (renderTrigger (trigImg t))) = renderTrigger (trigImg t) := by
  have hm := matchType_idem t.type t.matchType
  have hg : ∀ gs : List GroupD, (gs.map renderGroup).map renderGroup = gs.map renderGroup := by
    intro gs
    rw [List.map_map]
    exact List.map_congr_left (fun g _ => renderGroup_idem g)
  simp only [renderTrigger, trigImg, normKeywords, Option.getD_some, hg, hm]

theorem shapeDoc_idem (d : DocD) : shapeDoc (shapeDoc d) = shapeDoc d := by
  have h1 : (d.campaigns.map renderCampaign).map renderCampaign = d.campaigns.map renderCampaign := by
    rw [List.map_map]
    exact List.map_congr_left (fun c _ => renderCampaign_idem c)
  have h2 : (d.flows.map shapeFlow).map shapeFlow = d.flows.map shapeFlow := by
    rw [List.map_map]
    exact List.map_congr_left (fun f _ => shapeFlow_idem f)
  have h3 : (d.groups.map plainOf).map plainOf = d.groups.map plainOf := by
    rw [List.map_map]; rfl
  have h4 : (d.triggers.map (fun t => renderTrigger (trigImg t))).map (fun t => renderTrigger (trigImg t))
      = d.triggers.map (fun t => renderTrigger (trigImg t)) := by
    rw [List.map_map]
    exact List.map_congr_left (fun t _ => shapeTrigger_idem t)
  simp only [shapeDoc, h1, h2, h3, h4]

/-! ### the shape of a valid document is valid (so the second round trip is covered too) -/

theorem truthy_builtin : truthy jTypeBuiltin = true := by decide

theorem validAction_render (a : ActionD) (h : validAction a = true) : validAction (renderAction a) = true := by
  cases a with
  | sendMsg u t att q au tp tm =>
    simp only [validAction, Bool.and_eq_true] at h
    simp only [renderAction, validAction, Bool.and_eq_true]
    refine ⟨?_, h.2⟩
    rw [List.all_eq_true]
    intro x hx
    exact (List.mem_filter.mp hx).2
  | setContactField u n k t v => simpa [validAction, renderAction] using h
  | setContactProperty u p v => exact h
  | _ => rfl

theorem actionType_render (a : ActionD) : actionType (renderAction a) = actionType a := by
  cases a <;> rfl

theorem untypedAction_render (a : ActionD) (h : untypedAction a = true) : untypedAction (renderAction a) = true := by
  cases a with
  | setContactField u n k t v =>
    simp only [untypedAction, Option.isNone_iff_eq_none] at h
    subst h
    cases hb : fieldTypeBug <;> simp [renderAction, untypedAction, hb]
  | _ => rfl

theorem gref_renderGroup (g : GroupD) : gref (renderGroup g) = gref g := rfl

theorem actionGroupRefs_render (a : ActionD) : actionGroupRefs (renderAction a) = actionGroupRefs a := by
  cases a with
  | addGroups u gs => simp [renderAction, actionGroupRefs, List.map_map, Function.comp_def, gref_renderGroup]
  | removeGroups u gs ag => simp [renderAction, actionGroupRefs, List.map_map, Function.comp_def, gref_renderGroup]
  | _ => rfl

theorem actionFlowRefs_render (a : ActionD) : actionFlowRefs (renderAction a) = actionFlowRefs a := by
  cases a <;> rfl

theorem validExit_render (e : ExitD) (h : validExit e = true) : validExit (renderExit e) = true := by
  simp only [validExit, Bool.and_eq_true, bne_iff_ne, ne_eq] at h ⊢
  refine ⟨h.1, ?_⟩
  simp only [renderExit]
  by_cases hd : e.dest.getD jNull = jHardExit
  · simp [hd]; decide
  · simp [hd]

theorem renderExit_uuid (e : ExitD) : (renderExit e).uuid = e.uuid := rfl

theorem validRouter_shape (r : RouterD) : validRouter (shapeRouter r) = validRouter r := by
  cases r <;> rfl

theorem routerCatsD_shape (r : RouterD) : routerCatsD (shapeRouter r) = routerCatsD r := by
  cases r <;> rfl

theorem orderedRouter_shape (r : RouterD) : orderedRouter (shapeRouter r) = orderedRouter r := by
  cases r <;> rfl

theorem routerCasesD_shape (r : RouterD) : routerCasesD (shapeRouter r) = routerCasesD r := by
  cases r <;> rfl

theorem orderedNode_shape (n : NodeD) : orderedNode (shapeNode n) = orderedNode n := by
  cases n with
  | mk u a r e =>
    cases r with
    | none => rfl
    | some r => simp [orderedNode, shapeNode, orderedRouter_shape]

theorem exitsByCats_shape (n : NodeD) : exitsByCats (shapeNode n) = exitsByCats n := by
  cases n with
  | mk u a r e =>
    cases r with
    | none => rfl
    | some r => simp [exitsByCats, shapeNode, routerCatsD_shape, List.map_map, Function.comp_def, renderExit_uuid]

theorem validNode_shape (n : NodeD) (h : validNode n = true) : validNode (shapeNode n) = true := by
  cases n with
  | mk uuid actions router exits =>
  simp only [validNode, Bool.and_eq_true, bne_iff_ne, ne_eq, decide_eq_true_eq] at h
  obtain ⟨⟨⟨⟨huuid, hexits⟩, hnd⟩, hacts⟩, hrouter⟩ := h
  have h1 : (exits.map renderExit).all validExit = true := by
    rw [List.all_eq_true]
    intro x hx
    obtain ⟨e, he, rfl⟩ := List.mem_map.mp hx
    exact validExit_render e ((List.all_eq_true.mp hexits) e he)
  have h2 : ((exits.map renderExit).map (·.uuid)).Nodup := by
    have : (exits.map renderExit).map (·.uuid) = exits.map (·.uuid) := by
      rw [List.map_map]; rfl
    rw [this]; exact hnd
  have h3 : (actions.map renderAction).all validAction = true := by
    rw [List.all_eq_true]
    intro x hx
    obtain ⟨a, ha, rfl⟩ := List.mem_map.mp hx
    exact validAction_render a ((List.all_eq_true.mp hacts) a ha)
  simp only [validNode, shapeNode, Bool.and_eq_true, bne_iff_ne, ne_eq, decide_eq_true_eq]
  refine ⟨⟨⟨⟨huuid, h1⟩, by simpa using h2⟩, h3⟩, ?_⟩
  cases router with
  | none => simpa using hrouter
  | some r =>
    cases r with
    | random cats rn =>
      simp only [Bool.and_eq_true, beq_iff_eq] at hrouter
      obtain ⟨hvr, hnil⟩ := hrouter
      subst hnil
      simp only [Option.map_some, shapeRouter, List.map_nil, Bool.and_eq_true, beq_iff_eq, and_true]
      exact hvr
    | switch op cases cats dflt wait rn =>
      simp only [Bool.and_eq_true] at hrouter
      obtain ⟨hvr, hsh⟩ := hrouter
      simp only [Option.map_some, shapeRouter, Bool.and_eq_true]
      refine ⟨hvr, ?_⟩
      match actions, hsh with
      | [], _ => rfl
      | [a], hsh => simpa [actionType_render] using hsh

theorem nodeRefsD_shape (n : NodeD) : nodeRefsD (shapeNode n) = nodeRefsD n := by
  rw [nodeRefsD_eq, nodeRefsD_eq]
  have h1 : (shapeNode n).actions.map actionGroupRefs = n.actions.map actionGroupRefs := by
    simp only [shapeNode, List.map_map]
    exact List.map_congr_left (fun a _ => actionGroupRefs_render a)
  have h2 : nodeCasesD (shapeNode n) = nodeCasesD n := by
    cases n with
    | mk u a r e =>
      cases r with
      | none => rfl
      | some r => simp [nodeCasesD, shapeNode, routerCasesD_shape]
  rw [h1, h2]

theorem nodeFlowRefsD_shape (n : NodeD) : nodeFlowRefsD (shapeNode n) = nodeFlowRefsD n := by
  simp only [nodeFlowRefsD, shapeNode, List.map_map]
  congr 1
  exact List.map_congr_left (fun a _ => actionFlowRefs_render a)

theorem validFlow_shape (f : FlowD) (h : validFlow f = true) : validFlow (shapeFlow f) = true := by
  simp only [validFlow, Bool.and_eq_true] at h ⊢
  refine ⟨h.1, ?_⟩
  simp only [shapeFlow]
  rw [List.all_eq_true]
  intro x hx
  obtain ⟨n, hn, rfl⟩ := List.mem_map.mp hx
  exact validNode_shape n ((List.all_eq_true.mp h.2) n hn)

theorem renderCampaign_valid (c : CampaignD) (h : validCampaign c = true) :
    renderCampaign c = { c with group := renderGroup c.group } := by
  simp only [validCampaign, Bool.and_eq_true] at h
  have he : c.events.map renderEvent = c.events :=
    map_id_of_forall _ (fun e he => renderEvent_id e ((List.all_eq_true.mp h.2) e he))
  simp only [renderCampaign, he]

theorem validCampaign_render (c : CampaignD) (h : validCampaign c = true) : validCampaign (renderCampaign c) = true := by
  rw [renderCampaign_valid c h]
  exact h

theorem validTrigger_shape (t : TriggerD) (h : validTrigger t = true) : validTrigger (renderTrigger (trigImg t)) = true := by
  simp only [validTrigger, Bool.and_eq_true] at h
  obtain ⟨hch, hkw⟩ := h
  have hK : ¬ (t.type = strK ∧ firstFalsy (normKeywords t) = true) := by
    intro ⟨h1, h2⟩
    cases t with
    | mk type keyword keywords channel matchType flow groups excludeGroups =>
    simp only at h1 hkw
    cases keywords with
    | some ks => cases keyword <;> simp_all [normKeywords]
    | none =>
      cases keyword with
      | none => simp at hkw
      | some k =>
        have : falsy k = true := by
          by_cases hn : isNull k = true
          · exact isNull_falsy k hn
          · simpa [normKeywords, hn, firstFalsy] using h2
        simp [h1, this] at hkw
  simp only [validTrigger, renderTrigger, trigImg, Bool.and_eq_true, hch, true_and]
  constructor
  · by_cases hk : t.type = strK
    · have hff : firstFalsy (normKeywords t) = false := by
        cases hff : firstFalsy (normKeywords t) with
        | false => rfl
        | true => exact absurd ⟨hk, hff⟩ hK
      simp [hk, hff]
    · simp [hk]
  · cases normKeywords t <;> simp

theorem allNodes_shapeDoc (d : DocD) : allNodes (shapeDoc d) = (allNodes d).map shapeNode := by
  simp only [allNodes, shapeDoc, List.map_map]
  induction d.flows with
  | nil => rfl
  | cons f fs ih =>
    simp only [List.map_cons, List.flatten_cons, List.map_append, ih]
    rfl

theorem docGroupRefs_shapeDoc (d : DocD) : docGroupRefs (shapeDoc d) = docGroupRefs d := by
  have h1 : ((allNodes (shapeDoc d)).map nodeRefsD) = (allNodes d).map nodeRefsD := by
    rw [allNodes_shapeDoc, List.map_map]
    exact List.map_congr_left (fun n _ => nodeRefsD_shape n)
  have h2 : (shapeDoc d).campaigns.map (fun c => gref c.group) = d.campaigns.map (fun c => gref c.group) := by
    simp only [shapeDoc, List.map_map]
    rfl
  have h3 : (shapeDoc d).triggers.map triggerRefsD = d.triggers.map triggerRefsD := by
    simp only [shapeDoc, List.map_map]
    apply List.map_congr_left
    intro t _
    simp [triggerRefsD, renderTrigger, trigImg, List.map_map, Function.comp_def, gref_renderGroup]
  simp only [docGroupRefs, h1, h2, h3]

theorem docFlowRefsPre_shapeDoc (d : DocD) (hc : ∀ c ∈ d.campaigns, validCampaign c = true) :
    docFlowRefsPre (shapeDoc d) = docFlowRefsPre d := by
  have h1 : ((allNodes (shapeDoc d)).map nodeFlowRefsD) = (allNodes d).map nodeFlowRefsD := by
    rw [allNodes_shapeDoc, List.map_map]
    exact List.map_congr_left (fun n _ => nodeFlowRefsD_shape n)
  have h2 : (shapeDoc d).flows.map (fun f => (f.name, f.uuid)) = d.flows.map (fun f => (f.name, f.uuid)) := by
    simp only [shapeDoc, List.map_map]
    rfl
  have h3 : (shapeDoc d).campaigns.map (fun c => c.events.map eventFlowRefs) = d.campaigns.map (fun c => c.events.map eventFlowRefs) := by
    simp only [shapeDoc, List.map_map]
    apply List.map_congr_left
    intro c hc'
    simp only [Function.comp, renderCampaign_valid c (hc c hc')]
  simp only [docFlowRefsPre, h1, h2, h3]

theorem docFlowRefs_shapeDoc (d : DocD) (hc : ∀ c ∈ d.campaigns, validCampaign c = true) :
    docFlowRefs (shapeDoc d) = docFlowRefs d := by
  have h : (shapeDoc d).triggers.map (fun t => fref t.flow) = d.triggers.map (fun t => fref t.flow) := by
    simp only [shapeDoc, List.map_map]
    rfl
  simp only [docFlowRefs, docFlowRefsPre_shapeDoc d hc, h]

theorem valid_shapeDoc (d : DocD) (hv : Valid d) : Valid (shapeDoc d) where
  flows := by
    intro f' hf'
    obtain ⟨f, hf, rfl⟩ := List.mem_map.mp hf'
    exact validFlow_shape f (hv.flows f hf)
  campaigns := by
    intro c' hc'
    obtain ⟨c, hc, rfl⟩ := List.mem_map.mp hc'
    exact validCampaign_render c (hv.campaigns c hc)
  triggers := by
    intro t' ht'
    obtain ⟨t, ht, rfl⟩ := List.mem_map.mp ht'
    exact validTrigger_shape t (hv.triggers t ht)
  fields := hv.fields
  site := hv.site
  groupNames := by
    have : (shapeDoc d).groups.map (·.name) = d.groups.map (·.name) := by
      simp only [shapeDoc, List.map_map]; rfl
    rw [this]; exact hv.groupNames
  groupUuids := by
    intro g' hg'
    obtain ⟨g, hg, rfl⟩ := List.mem_map.mp hg'
    exact hv.groupUuids g hg
  groupsListed := by
    have : (shapeDoc d).groups.map gref = d.groups.map gref := by
      simp only [shapeDoc, List.map_map]; rfl
    rw [docGroupRefs_shapeDoc, this]
    exact hv.groupsListed
  flowRefs := by
    rw [docFlowRefs_shapeDoc d hv.campaigns]
    exact hv.flowRefs
  triggerFlows := by
    intro t' ht'
    obtain ⟨t, ht, rfl⟩ := List.mem_map.mp ht'
    rw [docFlowRefsPre_shapeDoc d hv.campaigns]
    exact hv.triggerFlows t ht

theorem ordered_shapeDoc (d : DocD) (h : OrderedCats d) : OrderedCats (shapeDoc d) := by
  intro n' hn'
  rw [allNodes_shapeDoc] at hn'
  obtain ⟨n, hn, rfl⟩ := List.mem_map.mp hn'
  rw [orderedNode_shape]; exact h n hn

theorem exitsByCats_shapeDoc (d : DocD) (h : ExitsByCats d) : ExitsByCats (shapeDoc d) := by
  intro n' hn'
  rw [allNodes_shapeDoc] at hn'
  obtain ⟨n, hn, rfl⟩ := List.mem_map.mp hn'
  rw [exitsByCats_shape]; exact h n hn

theorem untyped_shapeDoc (d : DocD) (h : UntypedFields d) : UntypedFields (shapeDoc d) := by
  intro n' hn' a' ha'
  rw [allNodes_shapeDoc] at hn'
  obtain ⟨n, hn, rfl⟩ := List.mem_map.mp hn'
  obtain ⟨a, ha, rfl⟩ := List.mem_map.mp ha'
  exact untypedAction_render a (h n hn a ha)

/-! ### positions in the trigger list -/

theorem mapE_getElem {α β : Type} {f : α → Except Err β} : ∀ (l : List α) (l' : List β) (i : Nat) (a : α),
    mapE f l = .ok l' → l[i]? = some a → ∃ b, f a = .ok b ∧ l'[i]? = some b
  | [], _, i, a, _, h => by simp at h
  | x :: xs, l', i, a, hm, h => by
    simp only [mapE] at hm
    cases hx : f x with
    | error e => simp [hx] at hm
    | ok b =>
      simp only [hx] at hm
      cases hxs : mapE f xs with
      | error e => simp [hxs] at hm
      | ok bs =>
        simp only [hxs] at hm
        cases hm
        cases i with
        | zero =>
          simp at h; subst h
          exact ⟨b, hx, by simp⟩
        | succ j =>
          simp at h
          obtain ⟨b', hb', hj⟩ := mapE_getElem xs bs j a hxs h
          exact ⟨b', hb', by simpa using hj⟩

theorem render_triggers (c : Container) (o : DocD) (h : render c = .ok o) :
    ∃ gd fd, o.triggers = (c.triggers.map (fun t => { t with flow := assignFlowRef fd t.flow, groups := t.groups.map (assignGroup gd), excludeGroups := t.excludeGroups.map (assignGroup gd) })).map renderTrigger := by
  unfold render at h
  split at h
  · cases h
  · split at h
    · cases h
    · split at h
      · cases h
      · split at h
        · cases h
        · split at h
          · cases h
          · cases h
            exact ⟨_, _, rfl⟩

end Rpft.Document
