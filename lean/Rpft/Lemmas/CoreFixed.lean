/-
The nodes the compiler creates for rows with fixed outcomes (`start_new_flow`, `call_webhook`,
`transfer_airtime`): a switch with fixed cases, one named category and the renamed default.
-/
import Rpft.Lemmas.CoreSim
set_option linter.unusedSimpArgs false
set_option linter.unusedVariables false
namespace Rpft.CoreSheet
open Rpft Rpft.Compile Rpft.RefFlow

theorem kindOf_enter : kindOf "start_new_flow".toList = .enterFlow := by decide
theorem kindOf_webhook : kindOf "call_webhook".toList = .webhook := by decide
theorem kindOf_airtime : kindOf "transfer_airtime".toList = .airtime := by decide
theorem kindOf_random : kindOf "split_random".toList = .splitRandom := by decide

theorem hot_not_noArgs : RefFlow.noArgsTests.contains "has_only_text".toList = false := by decide
theorem hcat_not_noArgs : RefFlow.noArgsTests.contains "has_category".toList = false := by decide

/-- what a freshly created fixed-outcome node looks like -/
structure FreshFix (r : Row) (n : NodeM) (sw : SwitchR) (sc : Cat) : Prop where
  kind : n.kind = fixKind (kindOf r.type)
  acts : n.actions.map (·.2) = [r.ownAction.getD []]
  router : n.router = some (.sw sw)
  operand : sw.operand = operandOf r
  rname : sw.resultName = none
  wait : sw.wait = none
  noResp : sw.noResp = none
  cats : sw.cats = [sc]
  sname : sc.name = succName (kindOf r.type)
  uidne : sc.uid ≠ sw.dflt.uid
  cases : sw.cases.map (fun k => (k.type, k.args.map (·.getD []), k.catUid)) = fixCases (kindOf r.type) sc.uid sw.dflt.uid
  succ : sc.dest = Dest.none
  dflt : sw.dflt.dest = Dest.none

theorem catByName_single (sw : SwitchR) (name : Str) (hc : sw.cats = []) (hn : sw.noResp = none)
    (hd : sw.dflt.name ≠ name) : sw.catByName name = none := by
  unfold SwitchR.catByName SwitchR.allCats
  rw [hc, hn]
  simp only [List.nil_append, Option.toList, List.append_nil, List.find?_cons, List.find?_nil]
  rw [decide_eq_false hd]

theorem exp_ne_comp : "Expired".toList ≠ "Complete".toList := by decide
theorem fail_ne_succ : "Failure".toList ≠ "Success".toList := by decide
theorem complete_ne : "Complete".toList ≠ [] := by decide
theorem expired_ne : "Expired".toList ≠ [] := by decide
theorem success_ne : "Success".toList ≠ [] := by decide
theorem args_ne : ¬ ([some "completed".toList] = [some "expired".toList]) := by decide

theorem not_basic_e : basicTypes.contains "start_new_flow".toList = false := by decide
theorem not_basic_h : basicTypes.contains "call_webhook".toList = false := by decide
theorem not_basic_a : basicTypes.contains "transfer_airtime".toList = false := by decide

theorem rowNode_enter (r : Row) (act : Option (Uid × Str)) (s : St) (hna : s.noArgs = RefFlow.noArgsTests)
    (ht : r.type = "start_new_flow".toList) :
    wp (rowNode r act) s (fun n s' => (∃ k, Bump s s' k) ∧ ∃ sw sc, FreshFix r n sw sc) := by
  have hK : kindOf r.type = .enterFlow := by rw [ht]; exact kindOf_enter
  unfold rowNode
  wp_simp
  refine ⟨fun _ => ?_, fun _ => trivial⟩
  have e0 : basicTypes.contains r.type = false := by rw [ht]; exact not_basic_e
  refine ⟨fun hh => (by rw [e0] at hh; cases hh), fun _ => ⟨fun _ => ?_, fun hh => absurd ht hh⟩⟩
  unfold enterNode
  have hop : operandOf r = "@child.run.status".toList := by
    unfold CoreSheet.operandOf
    rw [if_pos ht]
  rw [← hop]
  generalize hop2 : operandOf r = op
  wp_simp [wp_fresh']
  refine wp_mono (nodeUid_spec _ _) ?_
  intro u s1 ⟨j, hb, _⟩; subst hb
  rw [wp_newSwitch]
  simp only
  have hc1 : s.noArgs.contains "has_only_text".toList = false := by rw [hna]; exact hot_not_noArgs
  refine addChoice_named _ _ _ _ _ _ _ (by intro k hk; cases hk) complete_ne
    (catByName_single _ _ rfl rfl exp_ne_comp) _ ?_
  intro _
  simp only [hc1, Bool.false_eq_true, if_false]
  refine addChoice_default _ _ _ _ _ _ _ ?_ expired_ne _ ?_
  · intro k hk
    simp only [List.nil_append, List.mem_singleton] at hk
    subst hk
    simp only [hc1, Bool.false_eq_true, if_false]
    intro hh
    exact absurd hh.2 args_ne
  intro _
  simp only [hc1, Bool.false_eq_true, if_false]
  wp_simp [wp_newRouterNode]
  refine ⟨⟨j + 1 + 2 + 3 + 1 + 1, by simp [Bump, Nat.add_assoc]⟩, _, _, ⟨by rw [hK]; rfl, rfl, rfl, ?_, rfl, rfl, rfl, rfl, ?_, ?_, ?_, rfl, rfl⟩⟩
  · simp only [ite_self]; exact hop2.symm
  · rw [hK]; rfl
  · simp only [ne_eq, tid_inj]; omega
  · rw [hK]; rfl

theorem rowNode_hook (r : Row) (act : Option (Uid × Str)) (s : St) (hna : s.noArgs = RefFlow.noArgsTests)
    (ht : r.type = "call_webhook".toList ∨ r.type = "transfer_airtime".toList) :
    wp (rowNode r act) s (fun n s' => (∃ k, Bump s s' k) ∧ ∃ sw sc, FreshFix r n sw sc) := by
  unfold rowNode
  wp_simp
  refine ⟨fun _ => ?_, fun _ => trivial⟩
  have e0 : basicTypes.contains r.type = false := by
    rcases ht with ht | ht <;> rw [ht]
    · exact not_basic_h
    · exact not_basic_a
  have e1 : ¬ r.type = "start_new_flow".toList := by
    rcases ht with ht | ht <;> rw [ht] <;> decide
  refine ⟨fun hh => (by rw [e0] at hh; cases hh), fun _ => ⟨fun hh => absurd hh e1, fun _ => ⟨fun _ => ?_, fun hh => absurd ht hh⟩⟩⟩
  unfold hookNode
  wp_simp
  refine wp_mono (nodeUid_spec _ _) ?_
  intro u s1 ⟨j, hb, _⟩; subst hb
  split
  · exact trivial
  rename_i key hkey
  wp_simp
  rw [wp_newSwitch]
  simp only
  have hc1 : s.noArgs.contains "has_only_text".toList = false := by rw [hna]; exact hot_not_noArgs
  have hc2 : s.noArgs.contains "has_category".toList = false := by rw [hna]; exact hcat_not_noArgs
  refine addChoice_named _ _ _ _ _ _ _ (by intro k hk; cases hk) success_ne
    (catByName_single _ _ rfl rfl fail_ne_succ) _ ?_
  intro _
  wp_simp [wp_newRouterNode, wp_fresh']
  rcases ht with ht | ht
  · have hK : kindOf r.type = .webhook := by rw [ht]; exact kindOf_webhook
    simp only [ht, if_true, hc1, Bool.false_eq_true, if_false]
    refine ⟨⟨j + 2 + 3 + 1 + 1, by simp [Bump, Nat.add_assoc]⟩, _, _, ⟨by rw [hK]; rfl, rfl, rfl, ?_, rfl, rfl, rfl, rfl, ?_, ?_, ?_, rfl, rfl⟩⟩
    · unfold CoreSheet.operandOf
      rw [if_neg e1, if_pos ht, hkey]
      simp only [ite_self]
      rfl
    · rw [hK]; rfl
    · simp only [ne_eq, tid_inj]; omega
    · rw [hK]; rfl
  · have hK : kindOf r.type = .airtime := by rw [ht]; exact kindOf_airtime
    have hne : ¬ ("transfer_airtime".toList = "call_webhook".toList) := by decide
    simp only [ht, hne, if_false, hc2, Bool.false_eq_true]
    refine ⟨⟨j + 2 + 3 + 1 + 1, by simp [Bump, Nat.add_assoc]⟩, _, _, ⟨by rw [hK]; rfl, rfl, rfl, ?_, rfl, rfl, rfl, rfl, ?_, ?_, ?_, rfl, rfl⟩⟩
    · unfold CoreSheet.operandOf
      rw [if_neg e1, ht, if_neg hne, if_pos rfl, hkey]
      simp only [ite_self, List.append_nil]
      rfl
    · rw [hK]; rfl
    · simp only [ne_eq, tid_inj]; omega
    · rw [hK]; rfl

theorem not_basic_r : basicTypes.contains "split_random".toList = false := by decide

/-- the node of a `split_random` row: no bucket yet -/
theorem rowNode_random (r : Row) (act : Option (Uid × Str)) (s : St) (ht : r.type = "split_random".toList) :
    wp (rowNode r act) s (fun n s' => (∃ k, Bump s s' k) ∧ n.kind = NodeKind.random ∧ n.actions = [] ∧
      n.router = some (.rnd { cats := [], resultName := some r.saveName })) := by
  unfold rowNode
  wp_simp
  refine ⟨fun _ => ?_, fun _ => trivial⟩
  have e0 : basicTypes.contains r.type = false := by rw [ht]; exact not_basic_r
  have e1 : ¬ r.type = "start_new_flow".toList := by rw [ht]; decide
  have e2 : ¬ (r.type = "call_webhook".toList ∨ r.type = "transfer_airtime".toList) := by
    rw [ht]; rintro (hh | hh) <;> exact absurd hh (by decide)
  have e3 : ¬ r.type = "wait_for_response".toList := by rw [ht]; decide
  have e4 : ¬ r.type = "split_by_value".toList := by rw [ht]; decide
  have e5 : ¬ r.type = "split_by_group".toList := by rw [ht]; decide
  refine ⟨fun hh => (by rw [e0] at hh; cases hh), fun _ => ⟨fun hh => absurd hh e1, fun _ => ⟨fun hh => absurd hh e2, fun _ =>
    ⟨fun hh => absurd hh e3, fun _ => ⟨fun hh => absurd hh e4, fun _ => ⟨fun hh => absurd hh e5, fun _ =>
    ⟨fun _ => ?_, fun hh => absurd ht hh⟩⟩⟩⟩⟩⟩⟩
  unfold splitRandomNode
  wp_simp [wp_newRouterNode]
  refine wp_mono (nodeUid_spec _ _) ?_
  intro u s1 ⟨j, hb, _⟩; subst hb
  exact ⟨⟨j + 1, by simp [Bump, Nat.add_assoc]⟩, trivial, trivial, trivial⟩

end Rpft.CoreSheet
