/-
Helper lemmas for C04 (graph level): the remapping of the temp ids (readable or numbered) is a
RENAMING of the sheet by a function that is injective on the row ids and never yields `"start"`;
hence the graph read from the final sheet is the renamed graph of the temp-id sheet.
-/
import Rpft.ExportGraph
import Rpft.Lemmas.ExportFuel
set_option linter.unusedSimpArgs false
set_option linter.unusedVariables false
set_option linter.unusedSectionVars false
namespace Rpft.Export
open Function

variable {U : Type} [DecidableEq U]

/-- the renaming a remapping table performs -/
def sigma (d : Dict (TempId U) Str) (k : TempId U) : Str := (Dict.get d k).getD []

def fromStr (σ : TempId U → Str) : Option (TempId U) → Str
  | none => startStr
  | some k => σ k

/-- a temp-id row with every id replaced -/
def renameRow (σ : TempId U → Str) (r : RowT U) : RowS :=
  { id := σ r.id, payload := r.payload, edges := r.edges.map (fun e => (fromStr σ e.from_, e.label)), goto := r.goto.map σ }

def SEdge.map {I J : Type} (σ : I → J) (e : SEdge I) : SEdge J := ⟨e.src.map σ, e.label, σ e.dst⟩

theorem natStr_ne_start (i : Nat) : natStr i ≠ startStr := by
  intro h
  have hs : 's' ∈ natStr i := by rw [h]; decide
  simp only [natStr, Nat.toList_repr] at hs
  have := Nat.isDigit_of_mem_toDigits (by omega) (by omega) hs
  revert this
  decide

theorem look_ok {d : Dict (TempId U) Str} {k : TempId U} {v : Str} (h : look d k = .ok v) :
    sigma d k = v ∧ k ∈ Dict.keys d := by
  unfold look at h
  cases hg : Dict.get d k with
  | none => simp [hg] at h
  | some w =>
    simp only [hg, Except.ok.injEq] at h
    subst h
    refine ⟨by simp [sigma, hg], ?_⟩
    apply Dict.get_isSome_iff.1
    simp [hg]

theorem remapIds_ok {d : Dict (TempId U) Str} : ∀ {ks : List (TempId U)} {out : List Str}, remapIds d ks = .ok out →
    out = ks.map (sigma d) ∧ ∀ k ∈ ks, k ∈ Dict.keys d
  | [], out, h => by simp only [remapIds, Except.ok.injEq] at h; subst h; simp
  | k :: ks, out, h => by
    simp only [remapIds] at h
    cases h1 : look d k with
    | error x => simp [h1] at h
    | ok s =>
      cases h2 : remapIds d ks with
      | error x => simp [h1, h2] at h
      | ok r =>
        simp only [h1, h2, Except.ok.injEq] at h
        subst h
        obtain ⟨a, b⟩ := look_ok h1
        obtain ⟨c, e⟩ := remapIds_ok h2
        refine ⟨by simp [a, c], ?_⟩
        intro k' hk'
        rcases List.mem_cons.1 hk' with hk' | hk'
        · subst hk'; exact b
        · exact e k' hk'

theorem remapEdges_ok {d : Dict (TempId U) Str} : ∀ {es : List (EdgeT U)} {out : List (Str × Label)},
    remapEdges d es = .ok out →
    out = es.map (fun e => (fromStr (sigma d) e.from_, e.label)) ∧ ∀ e ∈ es, ∀ k, e.from_ = some k → k ∈ Dict.keys d
  | [], out, h => by simp only [remapEdges, Except.ok.injEq] at h; subst h; simp
  | e :: es, out, h => by
    simp only [remapEdges] at h
    cases h1 : lookFrom d e.from_ with
    | error x => simp [h1] at h
    | ok s =>
      cases h2 : remapEdges d es with
      | error x => simp [h1, h2] at h
      | ok r =>
        simp only [h1, h2, Except.ok.injEq] at h
        subst h
        obtain ⟨c, e'⟩ := remapEdges_ok h2
        have hs : s = fromStr (sigma d) e.from_ ∧ ∀ k, e.from_ = some k → k ∈ Dict.keys d := by
          cases hf : e.from_ with
          | none =>
            simp only [hf, lookFrom, Except.ok.injEq] at h1
            exact ⟨by simp [fromStr, h1], by intro k hk; cases hk⟩
          | some k =>
            simp only [hf, lookFrom] at h1
            obtain ⟨a, b⟩ := look_ok h1
            exact ⟨by simp [fromStr, a], by intro k' hk'; cases hk'; exact b⟩
        refine ⟨by simp [hs.1, c], ?_⟩
        intro e0 he0
        rcases List.mem_cons.1 he0 with he0 | he0
        · subst he0; exact hs.2
        · exact e' e0 he0

/-- every id a row mentions is a key of the table -/
def RowRefs (keys : List (TempId U)) (r : RowT U) : Prop :=
  r.id ∈ keys ∧ (∀ e ∈ r.edges, ∀ k, e.from_ = some k → k ∈ keys) ∧ ∀ k ∈ r.goto, k ∈ keys

theorem remapRow_ok {d : Dict (TempId U) Str} {r : RowT U} {a : RowS} (h : remapRow d r = .ok a) :
    a = renameRow (sigma d) r ∧ RowRefs (Dict.keys d) r := by
  simp only [remapRow] at h
  cases h1 : look d r.id with
  | error x => simp [h1] at h
  | ok i =>
    cases h2 : remapIds d r.goto with
    | error x => simp [h1, h2] at h
    | ok g =>
      cases h3 : remapEdges d r.edges with
      | error x => simp [h1, h2, h3] at h
      | ok es =>
        simp only [h1, h2, h3, Except.ok.injEq] at h
        subst h
        obtain ⟨a1, a2⟩ := look_ok h1
        obtain ⟨b1, b2⟩ := remapIds_ok h2
        obtain ⟨c1, c2⟩ := remapEdges_ok h3
        exact ⟨by simp [renameRow, a1, b1, c1], a2, c2, b2⟩

theorem remapRows_ok {d : Dict (TempId U) Str} : ∀ {rows : List (RowT U)} {out : List RowS}, remapRows d rows = .ok out →
    out = rows.map (renameRow (sigma d)) ∧ ∀ r ∈ rows, RowRefs (Dict.keys d) r
  | [], out, h => by simp only [remapRows, Except.ok.injEq] at h; subst h; simp
  | r :: rows, out, h => by
    simp only [remapRows] at h
    cases h1 : remapRow d r with
    | error x => simp [h1] at h
    | ok a =>
      cases h2 : remapRows d rows with
      | error x => simp [h1, h2] at h
      | ok b =>
        simp only [h1, h2, Except.ok.injEq] at h
        subst h
        obtain ⟨a1, a2⟩ := remapRow_ok h1
        obtain ⟨b1, b2⟩ := remapRows_ok h2
        refine ⟨by simp [a1, b1], ?_⟩
        intro r' hr'
        rcases List.mem_cons.1 hr' with hr' | hr'
        · subst hr'; exact a2
        · exact b2 r' hr'

/-! ### the table is injective and avoids `"start"` -/

theorem pair_eq_of_vals_nodup {d : Dict (TempId U) Str} (h : (vals d).Nodup) {a b : TempId U} {v : Str}
    (ha : (a, v) ∈ d) (hb : (b, v) ∈ d) : a = b := by
  induction d with
  | nil => cases ha
  | cons x d ih =>
    simp only [vals, List.map_cons, List.nodup_cons] at h
    have hv : ∀ {k}, (k, v) ∈ d → v ∈ d.map (·.2) := fun hk => List.mem_map.2 ⟨_, hk, rfl⟩
    rcases List.mem_cons.1 ha with ha1 | ha1 <;> rcases List.mem_cons.1 hb with hb1 | hb1
    · rw [ha1.symm] at hb1; exact (Prod.mk.inj hb1).1.symm ▸ rfl
    · rw [← ha1] at h; exact absurd (hv hb1) h.1
    · rw [← hb1] at h; exact absurd (hv ha1) h.1
    · exact ih h.2 ha1 hb1

theorem sigma_spec {d : Dict (TempId U) Str} (hk : (Dict.keys d).Nodup) (hv : (startStr :: vals d).Nodup) :
    (∀ a ∈ Dict.keys d, sigma d a ≠ startStr) ∧
    (∀ a ∈ Dict.keys d, ∀ b ∈ Dict.keys d, sigma d a = sigma d b → a = b) := by
  have hmem : ∀ a ∈ Dict.keys d, (a, sigma d a) ∈ d := by
    intro a ha
    obtain ⟨kv, hkv, e⟩ := List.mem_map.1 ha
    have := get_of_mem_nodup hk hkv
    rw [e] at this
    simp only [sigma, this, Option.getD_some]
    rw [← e]
    exact hkv
  rw [List.nodup_cons] at hv
  constructor
  · intro a ha heq
    apply hv.1
    rw [← heq]
    exact List.mem_map.2 ⟨_, hmem a ha, rfl⟩
  · intro a ha b hb heq
    have h1 := hmem a ha
    have h2 := hmem b hb
    rw [heq] at h1
    exact pair_eq_of_vals_nodup hv.2 h1 h2

theorem buildTable_vals (numbered : Bool) (rows : List (RowT U)) (d : Dict (TempId U) Str)
    (hnd : (rows.map (·.id)).Nodup) (hb : buildTable numbered 0 rows [] = .ok d) :
    Dict.keys d = rows.map (·.id) ∧ (startStr :: vals d).Nodup := by
  obtain ⟨k1, k2, k3⟩ := buildTable_spec numbered rows 0 [] d (by simpa [Dict.keys] using hnd) hb
  simp only [Dict.keys, List.map_nil, List.nil_append] at k1
  refine ⟨k1, ?_⟩
  cases numbered with
  | false =>
    have := k3 rfl (by simp [usedValues])
    simpa [usedValues, vals] using this
  | true =>
    have := k2 rfl
    simp only [vals, List.map_nil, List.nil_append, Nat.zero_add] at this
    rw [List.nodup_cons]
    simp only [vals, this]
    constructor
    · intro hm
      obtain ⟨i, _, e⟩ := List.mem_map.1 hm
      exact natStr_ne_start _ e
    · apply nodup_map_of_inj _ _ List.nodup_range
      intro a b e
      have := natStr_inj e
      omega

/-- **the remapping is a renaming** -/
theorem remap_spec (numbered : Bool) (rows : List (RowT U)) (out : List RowS)
    (hnd : (rows.map (·.id)).Nodup) (h : remap numbered rows = .ok out) :
    ∃ σ : TempId U → Str, out = rows.map (renameRow σ) ∧
      (∀ r ∈ rows, RowRefs (rows.map (·.id)) r) ∧
      (∀ a ∈ rows.map (·.id), σ a ≠ startStr) ∧
      (∀ a ∈ rows.map (·.id), ∀ b ∈ rows.map (·.id), σ a = σ b → a = b) := by
  unfold remap at h
  cases hb : buildTable numbered 0 rows [] with
  | error e => simp [hb] at h
  | ok d =>
    simp only [hb] at h
    obtain ⟨k1, k2⟩ := buildTable_vals numbered rows d hnd hb
    obtain ⟨o1, o2⟩ := remapRows_ok h
    obtain ⟨s1, s2⟩ := sigma_spec (d := d) (by rw [k1]; exact hnd) k2
    exact ⟨sigma d, o1, k1 ▸ o2, k1 ▸ s1, k1 ▸ s2⟩

/-- the remapping of rows whose references all resolve never fails -/
theorem remap_ok_of_refs (numbered : Bool) (rows : List (RowT U)) (hnd : (rows.map (·.id)).Nodup)
    (hrefs : ∀ r ∈ rows, RowRefs (rows.map (·.id)) r) : ∃ out, remap numbered rows = .ok out := by
  unfold remap
  obtain ⟨d, hd⟩ := buildTable_ok numbered rows 0 []
  simp only [hd]
  obtain ⟨k1, _⟩ := buildTable_vals numbered rows d hnd hd
  have hlook : ∀ k ∈ Dict.keys d, ∃ v, look d k = .ok v := by
    intro k hk
    have := Dict.get_isSome_iff.2 hk
    unfold look
    cases hg : Dict.get d k with
    | none => simp [hg] at this
    | some v => exact ⟨v, rfl⟩
  have hids : ∀ ks : List (TempId U), (∀ k ∈ ks, k ∈ Dict.keys d) → ∃ o, remapIds d ks = .ok o := by
    intro ks
    induction ks with
    | nil => intro _; exact ⟨[], rfl⟩
    | cons k ks ih =>
      intro hks
      obtain ⟨v, hv⟩ := hlook k (hks k (List.mem_cons_self ..))
      obtain ⟨o, ho⟩ := ih (fun k' hk' => hks k' (List.mem_cons_of_mem _ hk'))
      exact ⟨v :: o, by simp [remapIds, hv, ho]⟩
  have hedges : ∀ es : List (EdgeT U), (∀ e ∈ es, ∀ k, e.from_ = some k → k ∈ Dict.keys d) → ∃ o, remapEdges d es = .ok o := by
    intro es
    induction es with
    | nil => intro _; exact ⟨[], rfl⟩
    | cons e es ih =>
      intro hes
      obtain ⟨o, ho⟩ := ih (fun e' he' => hes e' (List.mem_cons_of_mem _ he'))
      have : ∃ v, lookFrom d e.from_ = .ok v := by
        cases hf : e.from_ with
        | none => exact ⟨startStr, rfl⟩
        | some k => exact hlook k (hes e (List.mem_cons_self ..) k hf)
      obtain ⟨v, hv⟩ := this
      exact ⟨(v, e.label) :: o, by simp [remapEdges, hv, ho]⟩
  have hrows : ∀ rs : List (RowT U), (∀ r ∈ rs, RowRefs (Dict.keys d) r) → ∃ o, remapRows d rs = .ok o := by
    intro rs
    induction rs with
    | nil => intro _; exact ⟨[], rfl⟩
    | cons r rs ih =>
      intro hrs
      obtain ⟨o, ho⟩ := ih (fun r' hr' => hrs r' (List.mem_cons_of_mem _ hr'))
      obtain ⟨h1, h2, h3⟩ := hrs r (List.mem_cons_self ..)
      obtain ⟨i, hi⟩ := hlook _ h1
      obtain ⟨g, hg⟩ := hids _ h3
      obtain ⟨es, hes⟩ := hedges _ h2
      exact ⟨{ id := i, payload := r.payload, edges := es, goto := g } :: o, by simp [remapRows, remapRow, hi, hg, hes, ho]⟩
  exact hrows rows (k1 ▸ hrefs)

/-! ### reading the renamed sheet -/

theorem gotoTargets_map {I J : Type} (σ : I → J) (n : Nat) (ts : List I) :
    gotoTargets n (ts.map σ) = (gotoTargets n ts).map σ := by
  match ts with
  | [] => rfl
  | [t] => simp [gotoTargets]
  | t1 :: t2 :: ts => simp [gotoTargets]

theorem readRow_map {I J : Type} (σ : I → J) (id : I) (cells : List (Option I × Label)) (goto : List I) :
    readRow (σ id) (cells.map (fun c => (c.1.map σ, c.2))) (goto.map σ) = (readRow id cells goto).map (SEdge.map σ) := by
  cases goto with
  | nil => simp [readRow, SEdge.map, List.map_map, Function.comp_def]
  | cons t ts =>
    simp only [readRow, List.map_cons, List.length_map]
    rw [← List.map_cons, gotoTargets_map]
    simp [List.zip_map, List.map_map, Function.comp_def, SEdge.map]

theorem cells_renameRow (σ : TempId U → Str) (r : RowT U)
    (h : ∀ e ∈ r.edges, ∀ k, e.from_ = some k → σ k ≠ startStr) :
    (renameRow σ r).cells = r.cells.map (fun c => (c.1.map σ, c.2)) := by
  simp only [RowS.cells, renameRow, RowT.cells, List.map_map]
  apply List.map_congr_left
  intro e he
  cases hf : e.from_ with
  | none => simp [fromStr, hf]
  | some k => simp [fromStr, hf, h e he k hf]

/-- the graph of the final sheet is the renamed graph of the temp-id sheet -/
theorem edgesOfS_rename (σ : TempId U → Str) (rows : List (RowT U))
    (h : ∀ r ∈ rows, ∀ e ∈ r.edges, ∀ k, e.from_ = some k → σ k ≠ startStr) :
    edgesOfS (rows.map (renameRow σ)) = (edgesOfT rows).map (SEdge.map σ) := by
  induction rows with
  | nil => rfl
  | cons r rows ih =>
    have ih' := ih (fun r' hr' => h r' (List.mem_cons_of_mem _ hr'))
    simp only [edgesOfS, edgesOfT, List.map_cons, List.flatMap_cons, List.map_append] at ih' ⊢
    rw [ih', cells_renameRow σ r (h r (List.mem_cons_self ..))]
    congr 1
    exact readRow_map σ r.id r.cells r.goto

theorem nodeRowsS_rename (σ : TempId U → Str) (rows : List (RowT U)) :
    nodeRowsS (rows.map (renameRow σ)) = (nodeRowsT rows).map (fun x => (σ x.1, x.2.2.2)) := by
  simp only [nodeRowsS, nodeRowsT, List.filter_map, List.map_map]
  have : ((fun r : RowS => r.goto.isEmpty) ∘ renameRow σ) = (fun r : RowT U => r.goto.isEmpty) := by
    funext r
    simp [renameRow]
  rw [this]
  rfl

end Rpft.Export
