/-
Lemmas about `Rpft.Dict` (Python dict as association list).
-/
import Rpft.Dict
set_option linter.unusedSimpArgs false
set_option linter.unusedVariables false
namespace Rpft

/-- the distinct elements of a list in order of first occurrence -/
def firstOcc {κ : Type} [DecidableEq κ] : List κ → List κ
  | [] => []
  | a :: l => a :: (firstOcc l).filter (fun x => x ≠ a)

/-- the value paired with the LAST occurrence of key `k` -/
def lastVal {κ β : Type} [DecidableEq κ] : List (κ × β) → κ → Option β
  | [], _ => none
  | (k', v) :: rest, k =>
    match lastVal rest k with
    | some w => some w
    | none => if k' = k then some v else none

section
variable {κ β : Type} [DecidableEq κ]

theorem firstOcc_filter (p : κ → Bool) (l : List κ) :
    (firstOcc l).filter p = firstOcc (l.filter p) := by
  induction l with
  | nil => rfl
  | cons a l ih =>
    by_cases hp : p a = true
    · simp only [firstOcc, List.filter_cons, hp, if_true]
      rw [← ih, List.filter_filter, List.filter_filter]
      congr 2
      funext x
      exact Bool.and_comm _ _
    · simp only [firstOcc, List.filter_cons, hp, Bool.false_eq_true, if_false]
      rw [← ih, List.filter_filter]
      apply List.filter_congr
      intro x _
      by_cases hx : x = a
      · subst hx; simp [hp]
      · simp [hx]

theorem mem_firstOcc {a : κ} {l : List κ} : a ∈ firstOcc l ↔ a ∈ l := by
  induction l with
  | nil => simp [firstOcc]
  | cons b l ih =>
    simp only [firstOcc, List.mem_cons, List.mem_filter, ih]
    by_cases h : a = b <;> simp [h]

theorem nodup_firstOcc (l : List κ) : (firstOcc l).Nodup := by
  induction l with
  | nil => simp [firstOcc]
  | cons a l ih =>
    simp only [firstOcc, List.nodup_cons, List.mem_filter]
    exact ⟨by simp, ih.filter _⟩

theorem firstOcc_of_nodup {l : List κ} (h : l.Nodup) : firstOcc l = l := by
  induction l with
  | nil => rfl
  | cons a l ih =>
    rw [List.nodup_cons] at h
    simp only [firstOcc, ih h.2]
    congr 1
    rw [List.filter_eq_self]
    intro x hx
    have : x ≠ a := fun e => h.1 (e ▸ hx)
    simp [this]

/-- a repeated element does not contribute -/
theorem firstOcc_append_cons_of_mem {k : κ} {l : List κ} (h : k ∈ l) (r : List κ) :
    firstOcc (l ++ k :: r) = firstOcc (l ++ r) := by
  induction l with
  | nil => simp at h
  | cons a l ih =>
    simp only [List.cons_append, firstOcc]
    by_cases hak : a = k
    · subst hak
      rw [firstOcc_filter, firstOcc_filter]
      simp [List.filter_cons]
    · have : k ∈ l := by
        rcases List.mem_cons.mp h with e | e
        · exact absurd e.symm hak
        · exact e
      rw [ih this]

theorem firstOcc_append_singleton_of_not_mem {k : κ} {l : List κ} (hl : l.Nodup) (h : k ∉ l) :
    firstOcc (l ++ [k]) = l ++ [k] := by
  apply firstOcc_of_nodup
  rw [List.nodup_append]
  refine ⟨hl, by simp, ?_⟩
  intro a ha b hb
  simp at hb
  subst hb
  exact fun e => h (e ▸ ha)

namespace Dict

theorem keys_set (d : Dict κ β) (k : κ) (v : β) :
    keys (set d k v) = if k ∈ keys d then keys d else keys d ++ [k] := by
  induction d with
  | nil => simp [set, keys]
  | cons kv d ih =>
    obtain ⟨k', v'⟩ := kv
    simp only [set, keys] at ih ⊢
    by_cases h : k' = k
    · subst h; simp
    · have h' : k ≠ k' := fun e => h e.symm
      simp only [h, if_false, List.map_cons, ih, List.mem_cons, h', false_or]
      split <;> simp [*]

theorem mem_keys_set {d : Dict κ β} {k k' : κ} {v : β} :
    k' ∈ keys (set d k v) ↔ k' = k ∨ k' ∈ keys d := by
  rw [keys_set]
  split
  · constructor
    · exact Or.inr
    · rintro (h | h)
      · subst h; assumption
      · exact h
  · simp [or_comm]

theorem nodup_set {d : Dict κ β} (h : (keys d).Nodup) (k : κ) (v : β) :
    (keys (set d k v)).Nodup := by
  rw [keys_set]
  split
  · exact h
  · rename_i hk
    rw [List.nodup_append]
    refine ⟨h, by simp, ?_⟩
    intro a ha b hb
    simp at hb
    subst hb
    exact fun e => hk (e ▸ ha)

theorem get_set_self (d : Dict κ β) (k : κ) (v : β) : get (set d k v) k = some v := by
  induction d with
  | nil => simp [set, get]
  | cons kv d ih =>
    obtain ⟨k', v'⟩ := kv
    by_cases h : k' = k <;> simp [set, get, h, ih]

theorem get_set_ne (d : Dict κ β) {k k' : κ} (v : β) (h : k' ≠ k) :
    get (set d k v) k' = get d k' := by
  induction d with
  | nil => simp [set, get, Ne.symm h]
  | cons kv d ih =>
    obtain ⟨k'', v''⟩ := kv
    by_cases h1 : k'' = k
    · subst h1
      simp [set, get, Ne.symm h]
    · by_cases h2 : k'' = k'
      · subst h2; simp [set, get, h1]
      · simp [set, get, h1, h2, ih]

theorem get_set (d : Dict κ β) (k k' : κ) (v : β) :
    get (set d k v) k' = if k' = k then some v else get d k' := by
  by_cases h : k' = k
  · subst h; simp [get_set_self]
  · simp [h, get_set_ne d v h]

theorem get_eq_none_iff {d : Dict κ β} {k : κ} : get d k = none ↔ k ∉ keys d := by
  induction d with
  | nil => simp [get, keys]
  | cons kv d ih =>
    obtain ⟨k', v'⟩ := kv
    simp only [keys] at ih
    by_cases h : k' = k
    · subst h; simp [get, keys]
    · have : k ≠ k' := fun e => h e.symm
      simp [get, keys, h, ih, this]

theorem get_isSome_iff {d : Dict κ β} {k : κ} : (get d k).isSome ↔ k ∈ keys d := by
  have := get_eq_none_iff (d := d) (k := k)
  cases hg : get d k with
  | none => simpa [hg] using this
  | some v =>
    rw [hg] at this
    simp only [reduceCtorEq, false_iff, Classical.not_not] at this
    simp [this]

theorem set_of_not_mem {d : Dict κ β} {k : κ} (h : k ∉ keys d) (v : β) :
    set d k v = d ++ [(k, v)] := by
  induction d with
  | nil => rfl
  | cons kv d ih =>
    obtain ⟨k', v'⟩ := kv
    simp only [keys, List.map_cons, List.mem_cons, not_or] at h
    have : k' ≠ k := fun e => h.1 e.symm
    simp only [set, this, if_false, List.cons_append]
    rw [ih (by simpa [keys] using h.2)]

theorem keys_pop (d : Dict κ β) (k : κ) (h : (keys d).Nodup) :
    keys (pop d k) = (keys d).filter (fun x => x ≠ k) := by
  induction d with
  | nil => rfl
  | cons kv d ih =>
    obtain ⟨k', v'⟩ := kv
    simp only [keys, List.map_cons, List.nodup_cons] at h ih ⊢
    by_cases hk : k' = k
    · subst hk
      simp only [pop, if_true, List.filter_cons]
      simp only [ne_eq, not_true_eq_false, decide_false, Bool.false_eq_true, if_false]
      symm
      rw [List.filter_eq_self]
      intro x hx
      have : x ≠ k' := fun e => h.1 (e ▸ hx)
      simp [this]
    · simp [pop, hk, List.filter_cons, ih h.2]

theorem get_pop_ne (d : Dict κ β) {k k' : κ} (h : k' ≠ k) : get (pop d k) k' = get d k' := by
  induction d with
  | nil => rfl
  | cons kv d ih =>
    obtain ⟨k'', v''⟩ := kv
    by_cases h1 : k'' = k
    · subst h1
      simp [pop, get, Ne.symm h]
    · by_cases h2 : k'' = k'
      · subst h2; simp [pop, get, h1]
      · simp [pop, get, h1, h2, ih]

theorem get_pop_self (d : Dict κ β) (k : κ) (h : (keys d).Nodup) : get (pop d k) k = none := by
  rw [get_eq_none_iff, keys_pop d k h]
  simp

theorem nodup_pop {d : Dict κ β} (h : (keys d).Nodup) (k : κ) : (keys (pop d k)).Nodup := by
  rw [keys_pop d k h]; exact h.filter _

/-! ### update / ofList -/

theorem update_nil (d : Dict κ β) : update d [] = d := rfl
theorem update_cons (d : Dict κ β) (kv : κ × β) (items : List (κ × β)) :
    update d (kv :: items) = update (set d kv.1 kv.2) items := rfl
theorem update_append (d : Dict κ β) (a b : List (κ × β)) :
    update d (a ++ b) = update (update d a) b := by
  simp [update, List.foldl_append]

theorem nodup_update {d : Dict κ β} (h : (keys d).Nodup) (items : List (κ × β)) :
    (keys (update d items)).Nodup := by
  induction items generalizing d with
  | nil => exact h
  | cons kv items ih => rw [update_cons]; exact ih (nodup_set h _ _)

/-- keys after `update`: existing keys keep their place, new keys are appended in order of
first occurrence -/
theorem keys_update {d : Dict κ β} (h : (keys d).Nodup) (items : List (κ × β)) :
    keys (update d items) = firstOcc (keys d ++ items.map (·.1)) := by
  induction items generalizing d with
  | nil => simp [update_nil, firstOcc_of_nodup h]
  | cons kv items ih =>
    rw [update_cons, ih (nodup_set h _ _), keys_set]
    simp only [List.map_cons]
    split
    · rename_i hk
      rw [firstOcc_append_cons_of_mem hk]
    · simp [List.append_assoc]

/-- value after `update`: the last item with that key wins, else the old value -/
theorem get_update (d : Dict κ β) (items : List (κ × β)) (k : κ) :
    get (update d items) k = (lastVal items k).or (get d k) := by
  induction items generalizing d with
  | nil => simp [update_nil, lastVal]
  | cons kv items ih =>
    obtain ⟨k', v⟩ := kv
    rw [update_cons, ih]
    simp only [lastVal]
    cases hl : lastVal items k with
    | some w => simp
    | none =>
      simp only [Option.none_or, get_set]
      by_cases h : k' = k
      · subst h; simp
      · have : k ≠ k' := fun e => h e.symm
        simp [h, this]

theorem update_of_nodup_disjoint {d : Dict κ β} {items : List (κ × β)}
    (hi : (items.map (·.1)).Nodup) (hd : ∀ k ∈ items.map (·.1), k ∉ keys d) :
    update d items = d ++ items := by
  induction items generalizing d with
  | nil => simp [update_nil]
  | cons kv items ih =>
    obtain ⟨k, v⟩ := kv
    simp only [List.map_cons, List.nodup_cons] at hi
    rw [update_cons, set_of_not_mem (hd k (by simp))]
    rw [ih hi.2]
    · simp
    · intro k' hk'
      simp only [keys, List.map_append, List.map_cons, List.map_nil, List.mem_append,
        List.mem_singleton, not_or]
      refine ⟨?_, fun e => hi.1 (e ▸ hk')⟩
      have := hd k' (by simp [hk'])
      simpa [keys] using this

/-- `OrderedDict(items)` of items with distinct keys is the item list itself -/
theorem ofList_of_nodup {items : List (κ × β)} (h : (items.map (·.1)).Nodup) :
    ofList items = items := by
  unfold ofList
  rw [update_of_nodup_disjoint h] <;> simp [keys]

theorem nodup_ofList (items : List (κ × β)) : (keys (ofList items)).Nodup :=
  nodup_update (by simp [keys]) items

theorem keys_ofList (items : List (κ × β)) :
    keys (ofList items) = firstOcc (items.map (·.1)) := by
  unfold ofList
  rw [keys_update (by simp [keys])]
  simp [keys]

theorem get_ofList (items : List (κ × β)) (k : κ) : get (ofList items) k = lastVal items k := by
  unfold ofList
  rw [get_update]
  simp [get]

/-- a dict with distinct keys is determined by its key order and its lookups -/
theorem ext_of_keys_get {d e : Dict κ β} (hd : (keys d).Nodup) (hk : keys d = keys e)
    (hg : ∀ k, get d k = get e k) : d = e := by
  induction d generalizing e with
  | nil =>
    cases e with
    | nil => rfl
    | cons a e => simp [keys] at hk
  | cons kv d ih =>
    cases e with
    | nil => simp [keys] at hk
    | cons kv' e =>
      obtain ⟨k, v⟩ := kv
      obtain ⟨k', v'⟩ := kv'
      simp only [keys, List.map_cons, List.cons.injEq] at hk
      obtain ⟨hkk, hrest⟩ := hk
      subst hkk
      have hv := hg k
      simp only [get, if_true, Option.some.injEq] at hv
      subst hv
      simp only [keys, List.map_cons, List.nodup_cons] at hd
      congr 1
      apply ih hd.2 hrest
      intro x
      have := hg x
      by_cases hx : k = x
      · subst hx
        have h1 : get d k = none := get_eq_none_iff.mpr hd.1
        have h2 : get e k = none := get_eq_none_iff.mpr (by rw [keys, ← hrest]; exact hd.1)
        rw [h1, h2]
      · simpa [get, hx] using this

end Dict
end
end Rpft
