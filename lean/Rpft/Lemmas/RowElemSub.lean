/-
`ElemRT` for list elements written as one cell, and for sub-record elements spread over
`f.i.a, f.i.b, …`.
-/
import Rpft.Lemmas.RowElemRT
set_option linter.unusedSimpArgs false
set_option linter.unusedVariables false
namespace Rpft.Row
open Rpft Rpft.Cell

theorem outOk_absent {n : Str} (hn : simpleName n = true) {i : Nat} {out : Out} (h : OutOk n i out)
    {key : Str} (hk : ElemKey n i key) : alookup key out = none := by
  rw [alookup_none_iff]
  intro hm
  obtain ⟨kv, hkv, e⟩ := List.mem_map.mp hm
  rcases h kv hkv with h' | ⟨k, hlt, h'⟩
  · rw [e, elemKey_headSeg hn hk] at h'; exact h' rfl
  · rw [e] at h'
    have := elemKey_index_inj h' hk
    omega

/-- an element written as one cell -/
theorem elemRT_single {lay : Layout} {fs : List Field} {n : Str} {d : Option Val} {ety : Ty}
    (hn : simpleName n = true) (hf : fieldLookup n fs = some (n, .list ety, d))
    (i : Nat) (e : ElemD)
    (hu : ∀ out, unparseRec lay ety e.1 (idxPrefix ('.' :: n) i) out =
      writeOut (idxPrefix ('.' :: n) i) e.2.1 out)
    (hl : leafFn (Sum.inl e.2.1) ety = .ok (some e.2.2)) (hv : validate ety e.2.2 = .ok e.1) :
    ElemRT lay fs n ety i e.1 [(n ++ '.' :: printNat i, e.2.1)] e.2.2 := by
  have hok : (True ∧ leafFn (Sum.inl e.2.1) ety = .ok (some e.2.2) ∧ validate ety e.2.2 = .ok e.1) :=
    ⟨trivial, hl, hv⟩
  have hkey : ElemKey n i (n ++ '.' :: printNat i) := Or.inl rfl
  refine ⟨?_, ?_, by simp, ?_, hok.2.2⟩
  · intro out hout
    rw [hu out]
    simp [writeOut, idxPrefix, trimPrefix, outOk_absent hn hout hkey]
  · intro kv hkv
    simp only [List.mem_singleton] at hkv
    subst hkv
    exact hkey
  · intro kvs hk ts cur hcur hi
    have hinit : initChild (.list ety) (cur.getD Tree.none) = .list ts := by
      rcases hcur with ⟨rfl, rfl⟩ | rfl <;> simp [initChild, isListTy]
    simp only [inl, List.map_cons, List.map_nil, foldE]
    rw [← hi, parseEntry_nested hn hf kvs hk cur _ (printNat_keyChar _),
      splitDot_simple _ (printNat_no_dot _), hinit,
      findSet_list_next _ _ ts e.2.2 hok.2.1]

/-! ### sub-record element spread over `n.i.a` -/

/-- new element `i = len + 1`, addressed through a longer path -/
theorem findSet_list_new_nested (leaf : Ty → Except Err (Option Tree)) (t : Ty) (ts : List Tree)
    (seg : Str) (rest : List Str) (sub : Tree)
    (hs : findSet leaf t (initChild t Tree.none) (seg :: rest) = .ok sub) :
    findSet leaf (.list t) (.list ts) (printNat (ts.length + 1) :: seg :: rest) =
      .ok (.list (ts ++ [sub])) := by
  conv => lhs; unfold findSet
  have h1 : (Int.ofNat (ts.length + 1) : Int) - 1 = (ts.length : Int) := by simp
  have h2 : ¬ ((ts.length : Int) ≤ (ts.length : Int) ∧ (ts.length : Int) ≠ (ts.length : Int)) := by
    intro h; exact h.2 rfl
  have h3 : pyIndex (ts.length + 1) (ts.length : Int) = some ts.length := by simp [pyIndex]
  simp only [isListTy, if_true, pyInt_printNat, h1, listChild, h2, if_false, Int.le_refl,
    List.length_append, List.length_singleton, h3]
  have h4 : (ts ++ [Tree.none]).getD ts.length Tree.none = Tree.none := by simp
  rw [h4, hs]
  simp [wrapList]

/-- existing last element `i = len`, addressed through a longer path -/
theorem findSet_list_last_nested (leaf : Ty → Except Err (Option Tree)) (t : Ty) (ts : List Tree)
    (last : Tree) (seg : Str) (rest : List Str) (sub : Tree)
    (hs : findSet leaf t (initChild t last) (seg :: rest) = .ok sub) :
    findSet leaf (.list t) (.list (ts ++ [last])) (printNat (ts.length + 1) :: seg :: rest) =
      .ok (.list (ts ++ [sub])) := by
  conv => lhs; unfold findSet
  have h1 : (Int.ofNat (ts.length + 1) : Int) - 1 = (ts.length : Int) := by simp
  have hlen : (ts ++ [last]).length = ts.length + 1 := by simp
  have h2 : ¬ (((ts.length + 1 : Nat) : Int) ≤ (ts.length : Int)) := by omega
  have h3 : pyIndex (ts.length + 1) (ts.length : Int) = some ts.length := by simp [pyIndex]
  simp only [isListTy, if_true, pyInt_printNat, h1, listChild, hlen, h2, false_and, if_false, h3]
  have h4 : (ts ++ [last]).getD ts.length Tree.none = last := by simp
  rw [h4, hs]
  simp [wrapList]

def subColI (n : Str) (i : Nat) (p : SPair) : Str × Str :=
  (n ++ '.' :: (printNat i ++ '.' :: p.1.1), printBasic p.2)

theorem unparseFields_subI {lay : Layout} (he : lay.excluded = []) {n : Str}
    (hn : simpleName n = true) (i : Nat) (sfs : List Field) (skvs : List (Str × Val)) :
    ∀ (pairs : List SPair) (out : Out), SubOk sfs skvs pairs →
      (∀ kv ∈ out, ∀ p ∈ pairs, kv.1 ≠ (subColI n i p).1) →
      unparseFields lay [] (idxPrefix ('.' :: n) i) (pairs.map (·.1)) skvs out =
        .ok (out ++ (pairs.filter nonDefault).map (subColI n i))
  | [], out, _, _ => by simp [unparseFields]
  | ((a, ty, d), v) :: rest, out, hok, hout => by
    obtain ⟨hlook, ha, _, hb, hr⟩ := hok.2 ((a, ty, d), v) (by simp)
    have hnot : a ∉ rest.map (·.1.1) := (List.nodup_cons.mp hok.1).1
    simp only [List.map_cons, unparseFields, hlook]
    cases hdef : isDefault d v with
    | true =>
      simp only [if_true]
      rw [unparseFields_subI he hn i sfs skvs rest out (subOk_tail hok)
        (fun kv hkv p hp => hout kv hkv p (List.mem_cons_of_mem _ hp))]
      simp [List.filter, nonDefault, hdef]
    | false =>
      have hnd : nonDefault ((a, ty, d), v) = true := by simp [nonDefault, hdef]
      have hbv := (basic_leaf hb (hr hnd)).1
      have hkey : alookup (n ++ '.' :: (printNat i ++ '.' :: a)) out = none := by
        rw [alookup_none_iff]
        intro hm
        obtain ⟨kv, hkv, e⟩ := List.mem_map.mp hm
        exact hout kv hkv ((a, ty, d), v) (by simp) e
      simp only [Bool.false_eq_true, if_false, remap_nil, if_true]
      rw [unparseRec_basic he _ _ hbv]
      have hk2 : trimPrefix (idxPrefix ('.' :: n) i ++ '.' :: a) = n ++ '.' :: (printNat i ++ '.' :: a) := by
        simp [idxPrefix, trimPrefix]
      simp only [writeOut, hk2, hkey]
      rw [unparseFields_subI he hn i sfs skvs rest _ (subOk_tail hok)]
      · simp [List.filter, hnd, subColI]
      · intro kv hkv p hp
        rcases List.mem_append.mp hkv with h | h
        · exact hout kv h p (List.mem_cons_of_mem _ hp)
        · simp only [List.mem_singleton] at h
          rw [h]
          intro e
          simp only [subColI] at e
          have e1 := key_inj e
          have e2 : a = p.1.1 := key_inj (n := printNat i) e1
          exact hnot (e2 ▸ List.mem_map_of_mem (f := fun q : SPair => q.1.1) hp)

theorem fold_elem_spread {fs : List Field} {n : Str} {d : Option Val} (sfs : List Field)
    (hn : simpleName n = true) (hf : fieldLookup n fs = some (n, .list (plainTop sfs), d))
    (kvs : List (Str × Tree)) (hk : alookup n kvs = none) (skvs : List (Str × Val))
    (ts : List Tree) :
    ∀ (nd : List SPair) (p0 : SPair) (inner : List (Str × Tree)) (cur : Option Tree),
      ((cur = none ∧ ts = [] ∨ cur = some (.list ts)) ∧ inner = [] ∨
        cur = some (.list (ts ++ [.dict inner]))) →
      SubOk sfs skvs (p0 :: nd) → (∀ p ∈ p0 :: nd, nonDefault p = true) →
      (∀ p ∈ p0 :: nd, alookup p.1.1 inner = none) →
      foldE (parseEntry (plainTop fs)) (.dict (st kvs n cur))
          (inl ((p0 :: nd).map (subColI n (ts.length + 1)))) =
        .ok (.dict (st kvs n (some (.list (ts ++ [.dict (inner ++ (p0 :: nd).map subTr)])))))
  | nd, p0, inner, cur, hcur, hok, hnd, hin => by
    obtain ⟨_, ha, hfl, hb, hr⟩ := hok.2 p0 (by simp)
    obtain ⟨_, hlv, hav, _, _, _, _⟩ := basic_leaf hb (hr (hnd p0 (by simp)))
    have hleaf : findSet (leafFn (Sum.inl (printBasic p0.2))) (plainTop sfs) (.dict inner) [p0.1.1] =
        .ok (.dict (inner ++ [subTr p0])) :=
      findSet_model_leaf _ sfs p0.1.1 p0.1.2.1 p0.1.2.2 inner (leafTree p0.2) hfl
        (hin p0 (by simp)) (by simp only [leafFn, hlv, hav])
    have hkc : ∀ c ∈ printNat (ts.length + 1) ++ '.' :: p0.1.1, keyChar c = true := by
      intro c hc
      rcases List.mem_append.mp hc with h | h
      · exact printNat_keyChar _ c h
      · simp only [List.mem_cons] at h
        rcases h with rfl | h
        · decide
        · exact simpleName_keyChar ha c h
    have hstep : parseEntry (plainTop fs) (.dict (st kvs n cur))
        ((subColI n (ts.length + 1) p0).1, Sum.inl (subColI n (ts.length + 1) p0).2) =
        .ok (.dict (st kvs n (some (.list (ts ++ [.dict (inner ++ [subTr p0])]))))) := by
      simp only [subColI]
      rw [parseEntry_nested hn hf kvs hk cur _ hkc,
        splitDot_append _ _ (printNat_no_dot _), splitDot_simple _ (simpleName_no_dot ha)]
      rcases hcur with ⟨hc, rfl⟩ | rfl
      · have hinit : initChild (.list (plainTop sfs)) (cur.getD Tree.none) = .list ts := by
          rcases hc with ⟨rfl, rfl⟩ | rfl <;> simp [initChild, isListTy]
        rw [hinit, findSet_list_new_nested _ _ ts _ _ (.dict ([] ++ [subTr p0]))
          (by simpa [initChild, isListTy, isModelTy] using hleaf)]
      · simp only [Option.getD_some, initChild]
        rw [findSet_list_last_nested _ _ ts (.dict inner) _ _ (.dict (inner ++ [subTr p0]))
          (by simpa [initChild] using hleaf)]
    cases nd with
    | nil =>
      simp only [inl, List.map_cons, List.map_nil, foldE]
      rw [hstep]
    | cons p1 nd' =>
      have hne : ∀ p ∈ p1 :: nd', alookup p.1.1 (inner ++ [subTr p0]) = none := by
        intro p hp
        rw [alookup_append, hin p (List.mem_cons_of_mem _ hp)]
        have : p0.1.1 ≠ p.1.1 := by
          intro e
          have hmem : p.1.1 ∈ (p1 :: nd').map (·.1.1) := List.mem_map_of_mem (f := fun q : SPair => q.1.1) hp
          rw [← e] at hmem
          exact (List.nodup_cons.mp hok.1).1 hmem
        simp [subTr, alookup, this]
      have ih := fold_elem_spread sfs hn hf kvs hk skvs ts nd' p1 (inner ++ [subTr p0])
        (some (.list (ts ++ [.dict (inner ++ [subTr p0])]))) (Or.inr rfl) (subOk_tail hok)
        (fun p hp => hnd p (List.mem_cons_of_mem _ hp)) hne
      simp only [inl, List.map_cons, foldE] at ih ⊢
      rw [hstep]
      simp only
      rw [ih]
      simp

/-- a sub-record element spread over `n.i.a, n.i.b, …` -/
theorem elemRT_sub_spread {lay : Layout} {fs : List Field} {n : Str} {d : Option Val}
    {sfs : List Field} {skvs : List (Str × Val)}
    (hn : simpleName n = true) (hf : fieldLookup n fs = some (n, .list (plainTop sfs), d))
    (he : lay.excluded = []) (i : Nat)
    (hm : matchesHeaders (idxPrefix ('.' :: n) i) lay.targets = false) (D : SubData sfs skvs) :
    ElemRT lay fs n (plainTop sfs) i (.model skvs)
      ((D.pairs.filter nonDefault).map (subColI n i))
      (.dict ((D.pairs.filter nonDefault).map subTr)) := by
  have hokf := subOk_filter D.hok
  have hkeyOf : ∀ p ∈ D.pairs, ElemKey n i (subColI n i p).1 := by
    intro p hp
    exact Or.inr ⟨p.1.1, (D.hok.2 p hp).2.1, rfl⟩
  refine ⟨?_, ?_, ?_, ?_, validate_sub D⟩
  · intro out hout
    unfold unparseRec
    simp only [he, matchesHeaders_nil, hm, isBasicVal, Bool.false_or, Bool.false_eq_true, if_false]
    have := unparseFields_subI he hn i sfs skvs D.pairs out D.hok (by
      intro kv hkv p hp e
      have h1 := outOk_absent hn hout (hkeyOf p hp)
      rw [alookup_none_iff] at h1
      exact h1 (e ▸ List.mem_map_of_mem (f := Prod.fst) hkv))
    rw [D.hfst] at this
    exact this
  · intro kv hkv
    obtain ⟨p, hp, rfl⟩ := List.mem_map.mp hkv
    exact hkeyOf p (List.mem_filter.mp hp).1
  · rw [List.map_map]
    have : (Prod.fst ∘ subColI n i) =
        (fun a => n ++ '.' :: (printNat i ++ '.' :: a)) ∘ (fun p : SPair => p.1.1) := by
      funext p; rfl
    rw [this, ← List.map_map]
    exact nodup_map_inj _ (fun a b e => key_inj (n := printNat i) (key_inj e)) _ hokf.1
  · intro kvs hk ts cur hcur hi
    subst hi
    cases hnd : D.pairs.filter nonDefault with
    | nil => exact absurd hnd D.hne
    | cons p0 nd =>
      rw [hnd] at hokf
      have := fold_elem_spread sfs hn hf kvs hk skvs ts nd p0 [] cur (Or.inl ⟨hcur, rfl⟩) hokf
        (fun p hp => by
          have : p ∈ D.pairs.filter nonDefault := by rw [hnd]; exact hp
          exact (List.mem_filter.mp this).2)
        (fun p _ => rfl)
      simpa using this

/-! ### assembling the elements of a list of sub-records -/

def elemCOfSub (lay : Layout) (n : Str) (sfs : List Field) (i : Nat) : Val → ElemC
  | .model skvs =>
    if matchesHeaders (idxPrefix ('.' :: n) i) lay.targets then
      (.model skvs, [(n ++ '.' :: printNat i, subText sfs skvs)], subTree sfs skvs)
    else
      (.model skvs, ((sfs.zip (skvs.map Prod.snd)).filter nonDefault).map (subColI n i),
        subTree sfs skvs)
  | v => (v, [], Tree.none)

def elemCOfBasic (n : Str) (i : Nat) (v : Val) : ElemC :=
  (v, [(n ++ '.' :: printNat i, printBasic v)], leafTree v)

def enumElems (f : Nat → Val → ElemC) : Nat → List Val → List ElemC
  | _, [] => []
  | i, x :: xs => f i x :: enumElems f (i + 1) xs

theorem enumElems_fst (f : Nat → Val → ElemC) (hf : ∀ i v, (f i v).1 = v) :
    ∀ (i : Nat) (xs : List Val), (enumElems f i xs).map (·.1) = xs
  | _, [] => rfl
  | i, x :: xs => by simp [enumElems, hf, enumElems_fst f hf (i + 1) xs]

theorem enumElems_get (f : Nat → Val → ElemC) : ∀ (i : Nat) (xs : List Val) (j : Nat) (e : ElemC),
    (enumElems f i xs)[j]? = some e → ∃ x, x ∈ xs ∧ e = f (i + j) x
  | _, [], j, e, h => by simp [enumElems] at h
  | i, x :: xs, 0, e, h => by
    simp only [enumElems, List.getElem?_cons_zero, Option.some.injEq] at h
    exact ⟨x, by simp, h.symm⟩
  | i, x :: xs, j + 1, e, h => by
    simp only [enumElems, List.getElem?_cons_succ] at h
    obtain ⟨y, hy, he⟩ := enumElems_get f (i + 1) xs j e h
    refine ⟨y, List.mem_cons_of_mem _ hy, ?_⟩
    have : i + (j + 1) = i + 1 + j := by omega
    rw [this]; exact he

theorem elemRT_sub {lay : Layout} {fs : List Field} {n : Str} {d : Option Val} {sfs : List Field}
    (hn : simpleName n = true) (hf : fieldLookup n fs = some (n, .list (plainTop sfs), d))
    (he : lay.excluded = []) (hfam : subFamily sfs = true) (i : Nat) {v : Val}
    (hr : reprOk true (plainTop sfs) v = true) :
    ElemRT lay fs n (plainTop sfs) i (elemCOfSub lay n sfs i v).1 (elemCOfSub lay n sfs i v).2.1
      (elemCOfSub lay n sfs i v).2.2 := by
  cases v <;> simp [reprOk] at hr
  case model skvs =>
    have hr' : reprOk false (plainTop sfs) (.model skvs) = true := by
      simp [reprOk, hr.1.1, hr.2]
    have hfo : fieldOk false (plainTop sfs) (.model skvs) = true := by
      simp [fieldOk, hr.1.2]
    obtain ⟨D⟩ := subData_of_repr hfam hr' hfo
    simp only [elemCOfSub]
    cases hm : matchesHeaders (idxPrefix ('.' :: n) i) lay.targets with
    | true =>
      simp only [if_true, subText, subTree, ← D.hpairs]
      exact elemRT_single hn hf i
        (.model skvs, joinCell (.list ((D.pairs.filter nonDefault).map subElem)),
          .dict ((D.pairs.filter nonDefault).map subTr))
        (fun out => sub_packed_unparse he D _ hm out) (sub_packed_leaf D) (validate_sub D)
    | false =>
      simp only [Bool.false_eq_true, if_false, subTree, ← D.hpairs]
      exact elemRT_sub_spread hn hf he i hm D

theorem elemRT_basic {lay : Layout} {fs : List Field} {n : Str} {d : Option Val} {t : Ty}
    (hn : simpleName n = true) (hf : fieldLookup n fs = some (n, .list t, d))
    (he : lay.excluded = []) (hb : isBasicTy t = true) (i : Nat) {v : Val}
    (hr : reprOk true t v = true) :
    ElemRT lay fs n t i (elemCOfBasic n i v).1 (elemCOfBasic n i v).2.1 (elemCOfBasic n i v).2.2 := by
  have hok := elemOk_basic (lay := lay) he n hb hr
  exact elemRT_single hn hf i (v, printBasic v, leafTree v) (fun out => hok.1 i out) hok.2.1 hok.2.2

end Rpft.Row
