/-
General round-trip development (C07 `parse_unparse`), part 2: every value of a type that
fits one cell (`packTy`) is written as one cell that reads back as the value (`PackRT`):
basic values, lists of basic values, lists of lists of basic values, untyped lists, records
of basic fields.
-/
import Rpft.Lemmas.RowGenCore
set_option linter.unusedSimpArgs false
set_option linter.unusedVariables false
namespace Rpft.Row
open Rpft Rpft.Cell

/-- the value is written as ONE cell `text` (wherever it is written), and that cell is read
back as the tree `tr` which validates to the value -/
def PackRT (ty : Ty) (v : Val) : Prop :=
  ∃ (text : Str) (tr : Tree),
    (∀ pfx out, writeValue ty v pfx out = writeOut pfx text out) ∧
    leafFn (Sum.inl text) ty = .ok (some tr) ∧ validate ty tr = .ok v

theorem reprOk_weaken : ∀ (ty : Ty) (v : Val), reprOk true ty v = true → reprOk false ty v = true := by
  intro ty v h
  cases ty <;> cases v <;> simp [reprOk] at h ⊢
  all_goals first | exact h | exact ⟨h.1.1, h.2⟩ | exact h.1 | exact h.2

theorem packRT_basic {ty : Ty} {v : Val} (hb : isBasicTy ty = true) (hr : reprOk false ty v = true) :
    PackRT ty v := by
  obtain ⟨hbv, hlv, hav, hval, _, _, _⟩ := basic_leaf hb hr
  refine ⟨printBasic v, leafTree v, ?_, ?_, hval⟩
  · intro pfx out; simp [writeValue, hbv]
  · simp only [leafFn, hlv, hav]

/-! ### lists of basic values -/

theorem basic_elem_facts {t : Ty} (hb : isBasicTy t = true) {x : Val} (hx : reprOk true t x = true) :
    strOk (printBasic x) = true ∧ printBasic x ≠ [] ∧
    toNested t x = .ok (.str (printBasic x)) ∧
    assignValue t (.atom (printBasic x)) = .ok (some (leafTree x)) ∧
    validate t (leafTree x) = .ok x := by
  obtain ⟨h1, h2⟩ := reprOk_basic_weaken hb hx
  obtain ⟨_, _, hav, hval, _, hs, hnb⟩ := basic_leaf hb h1
  exact ⟨hs, hnb h2, toNested_basic hb h1, hav, hval⟩

theorem packRT_listBasic {t : Ty} (hb : isBasicTy t = true) (xs : List Val) (hne : xs ≠ [])
    (hxs : ∀ x ∈ xs, reprOk true t x = true) : PackRT (.list t) (.list xs) := by
  have hss : ∀ s ∈ xs.map printBasic, strOk s = true ∧ s ≠ [] := by
    intro s hs
    obtain ⟨x, hx, rfl⟩ := List.mem_map.mp hs
    exact ⟨(basic_elem_facts hb (hxs x hx)).1, (basic_elem_facts hb (hxs x hx)).2.1⟩
  obtain ⟨hwf, hok⟩ := wfCell_atoms (ss := xs.map printBasic) (by simpa using hne) hss
  refine ⟨joinCell (.list ((xs.map printBasic).map Elem.atom)), .list (xs.map leafTree), ?_, ?_, ?_⟩
  · intro pfx out
    have h1 : mapE (toNested t) xs = .ok (xs.map fun x => Nested.str (printBasic x)) :=
      mapE_mem_ok _ _ xs (fun x hx => (basic_elem_facts hb (hxs x hx)).2.2.1)
    have h2 : (xs.map fun x => Nested.str (printBasic x)) =
        ((xs.map printBasic).map Elem.atom).map elemToNested := by
      simp [List.map_map, elemToNested, Function.comp]
    simp only [writeValue, isBasicVal, Bool.false_eq_true, if_false, toNested, h1]
    rw [h2, joinPacked_cell]
  · simp only [leafFn, leafValue, isListTy, Bool.true_or, if_true]
    rw [cellParse_joinCell hwf hok]
    simp only [PV.ofCell, List.map_map, assignValue, assignList, listEntries]
    rw [mapE_map_ok _ (PV.ofElem ∘ Elem.atom ∘ printBasic) leafTree xs (fun x hx => by
      have := (basic_elem_facts hb (hxs x hx)).2.2.2.1
      simp [Function.comp, PV.ofElem, this])]
  · simp only [validate]
    rw [mapE_map_ok _ leafTree id xs (fun x hx => (basic_elem_facts hb (hxs x hx)).2.2.2.2)]
    simp

/-! ### lists of lists of basic values -/

def valElems : Val → List Val
  | .list ys => ys
  | _ => []

def innerElem (x : Val) : Elem := .list ((valElems x).map printBasic)

theorem inner_list_facts {u : Ty} (hb : isBasicTy u = true) {x : Val}
    (hx : reprOk true (.list u) x = true) :
    x = .list (valElems x) ∧ valElems x ≠ [] ∧ ∀ y ∈ valElems x, reprOk true u y = true := by
  cases x <;> simp [reprOk] at hx
  case list ys =>
    refine ⟨rfl, ?_, fun y hy => hx.2 y hy⟩
    simpa [valElems] using hx.1

theorem packRT_listList {u : Ty} (hb : isBasicTy u = true) (xs : List Val) (hne : xs ≠ [])
    (hxs : ∀ x ∈ xs, reprOk true (.list u) x = true) : PackRT (.list (.list u)) (.list xs) := by
  have hin := fun x hx => inner_list_facts hb (hxs x hx)
  have hwf : Props.C08.WFCell (.list (xs.map innerElem)) := by
    refine ⟨by simpa using hne, ?_, ?_⟩
    · intro e he
      obtain ⟨x, hx, rfl⟩ := List.mem_map.mp he
      obtain ⟨_, h2, h3⟩ := hin x hx
      refine ⟨by simpa [innerElem] using h2, ?_⟩
      intro _ hl
      rw [List.getLast?_map] at hl
      cases hg : (valElems x).getLast? with
      | none => simp [hg] at hl
      | some a =>
        rw [hg] at hl
        simp only [Option.map_some, Option.some.injEq] at hl
        exact (basic_elem_facts hb (h3 a (List.mem_of_getLast? hg))).2.1 hl
    · intro _ hl
      rw [List.getLast?_map] at hl
      cases hg : xs.getLast? with
      | none => simp [hg] at hl
      | some a => simp [hg, innerElem] at hl
  have hok : CellOk (.list (xs.map innerElem)) := by
    intro e he
    obtain ⟨x, hx, rfl⟩ := List.mem_map.mp he
    intro s hs
    obtain ⟨y, hy, rfl⟩ := List.mem_map.mp hs
    exact (basic_elem_facts hb ((hin x hx).2.2 y hy)).1
  refine ⟨joinCell (.list (xs.map innerElem)),
    .list (xs.map fun x => .list ((valElems x).map leafTree)), ?_, ?_, ?_⟩
  · intro pfx out
    have h1 : mapE (toNested (.list u)) xs = .ok (xs.map fun x => elemToNested (innerElem x)) := by
      apply mapE_mem_ok
      intro x hx
      obtain ⟨e, _, h3⟩ := hin x hx
      conv => lhs; rw [e]
      have : mapE (toNested u) (valElems x) =
          .ok ((valElems x).map fun y => Nested.str (printBasic y)) :=
        mapE_mem_ok _ _ _ (fun y hy => (basic_elem_facts hb (h3 y hy)).2.2.1)
      simp [toNested, this, innerElem, elemToNested, List.map_map, Function.comp]
    simp only [writeValue, isBasicVal, Bool.false_eq_true, if_false, toNested, h1]
    have h2 : (xs.map fun x => elemToNested (innerElem x)) = (xs.map innerElem).map elemToNested := by
      simp [List.map_map, Function.comp]
    rw [h2, joinPacked_cell]
  · simp only [leafFn, leafValue, isListTy, Bool.true_or, if_true]
    rw [cellParse_joinCell hwf hok]
    simp only [PV.ofCell, List.map_map, assignValue, assignList, listEntries]
    rw [mapE_map_ok _ (PV.ofElem ∘ innerElem) (fun x => Tree.list ((valElems x).map leafTree)) xs]
    intro x hx
    obtain ⟨_, _, h3⟩ := hin x hx
    simp only [Function.comp, innerElem, PV.ofElem, List.map_map, listEntries]
    rw [mapE_map_ok _ (PV.atom ∘ printBasic) leafTree (valElems x) (fun y hy => by
      have := (basic_elem_facts hb (h3 y hy)).2.2.2.1
      simp [Function.comp, this])]
    rfl
  · simp only [validate]
    rw [mapE_map_ok _ (fun x => Tree.list ((valElems x).map leafTree)) id xs]
    · simp
    · intro x hx
      obtain ⟨e, _, h3⟩ := hin x hx
      simp only [validate]
      rw [mapE_map_ok _ leafTree id (valElems x) (fun y hy => (basic_elem_facts hb (h3 y hy)).2.2.2.2)]
      simp only [List.map_id, id]
      exact congrArg Except.ok e.symm

/-! ### untyped lists -/

theorem packRT_any (xs : List PV) (hne : xs ≠ []) (hxs : ∀ x ∈ xs, pvOk x = true) :
    PackRT .anyList (.any xs) := by
  obtain ⟨hnest, hback⟩ := nestedOfPVs_map xs hxs
  have hwf : Props.C08.WFCell (.list (xs.map pvToElem)) := by
    refine ⟨by simpa using hne, ?_, ?_⟩
    · intro e he'
      obtain ⟨x, hx, rfl⟩ := List.mem_map.mp he'
      exact (pv_elem_facts (hxs x hx)).2.2.1
    · intro _ hl
      rw [List.getLast?_map] at hl
      cases hg : xs.getLast? with
      | none => simp [hg] at hl
      | some a =>
        rw [hg] at hl
        simp only [Option.map_some, Option.some.injEq] at hl
        exact (pv_elem_facts (hxs a (List.mem_of_getLast? hg))).2.2.2.2 hl
  have hok : CellOk (.list (xs.map pvToElem)) := by
    intro e he'
    obtain ⟨x, hx, rfl⟩ := List.mem_map.mp he'
    exact (pv_elem_facts (hxs x hx)).2.2.2.1
  refine ⟨joinCell (.list (xs.map pvToElem)), .list (Tree.ofPVs xs), ?_, ?_, ?_⟩
  · intro pfx out
    simp only [writeValue, isBasicVal, Bool.false_eq_true, if_false, toNested, hnest]
    rw [joinPacked_cell]
  · simp only [leafFn, leafValue, isListTy, Bool.true_or, if_true]
    rw [cellParse_joinCell hwf hok]
    simp [PV.ofCell, hback, assignValue, assignAny]
  · simp [validate, toPVs_ofPVs]

/-! ### records of basic fields -/

theorem toNested_model_congr (fs : List Field) (h2f f2h h2f' f2h' : List (Str × Str)) (v : Val) :
    toNested (.model fs h2f f2h) v = toNested (.model fs h2f' f2h') v := by
  cases v <;> simp [toNested]

theorem validate_model_congr (fs : List Field) (h2f f2h h2f' f2h' : List (Str × Str)) (t : Tree) :
    validate (.model fs h2f f2h) t = validate (.model fs h2f' f2h') t := by
  cases t <;> simp [validate]

theorem assignValue_model_congr (fs : List Field) (h2f f2h f2h' : List (Str × Str)) :
    assignValue (.model fs h2f f2h) = assignValue (.model fs h2f f2h') := by
  simp [assignValue]

theorem tryKwarg_pairs_none' (fas : List (Str × Assign)) (h2f : List (Str × Str)) (nd : List SPair) :
    tryKwarg fas h2f (.list (nd.map subEntry)) = none := by
  match nd with
  | [] => simp [tryKwarg]
  | [p] => simp [tryKwarg]
  | [p, q] => simp [tryKwarg, subEntry]
  | p :: q :: r :: rest => simp [tryKwarg]

theorem assignEntries_kw' (sfs : List Field) (h2f : List (Str × Str)) (skvs : List (Str × Val)) :
    ∀ (nd : List SPair) (rem : List (Str × Assign)) (acc : List (Str × Tree)),
      SubOk sfs skvs nd → (∀ p ∈ nd, nonDefault p = true) →
      (∀ p ∈ nd, remap h2f p.1.1 = p.1.1) →
      (∀ p ∈ nd, alookup p.1.1 acc = none) →
      assignEntries (fieldAssigners sfs) h2f rem (nd.map subEntry) acc = .ok (acc ++ nd.map subTr)
  | [], _, acc, _, _, _, _ => by simp [assignEntries]
  | p :: nd, rem, acc, hok, hnd, hrm, hacc => by
    obtain ⟨_, ha, hfl, hb, hr⟩ := hok.2 p (by simp)
    obtain ⟨_, _, hav, _, _, _, _⟩ := basic_leaf hb (hr (hnd p (by simp)))
    have hkw : tryKwarg (fieldAssigners sfs) h2f (subEntry p) =
        some (p.1.1, assignValue p.1.2.1, .atom (printBasic p.2)) := by
      simp [tryKwarg, subEntry, hrm p (by simp), alookup_fieldAssigners sfs p.1.1 p.1 hfl]
    simp only [List.map_cons, assignEntries, hkw, hav, setOpt]
    rw [aset_of_absent _ _ acc (hacc p (by simp))]
    rw [assignEntries_kw' sfs h2f skvs nd rem.tail _ (subOk_tail hok)
      (fun q hq => hnd q (List.mem_cons_of_mem _ hq))
      (fun q hq => hrm q (List.mem_cons_of_mem _ hq))]
    · simp [subTr]
    · intro q hq
      rw [alookup_append, hacc q (List.mem_cons_of_mem _ hq)]
      have hne : p.1.1 ≠ q.1.1 := by
        intro e
        have hmem : q.1.1 ∈ nd.map (·.1.1) := List.mem_map_of_mem (f := fun q : SPair => q.1.1) hq
        rw [← e] at hmem
        exact (List.nodup_cons.mp hok.1).1 hmem
      simp [alookup, hne]

theorem packRT_sub {sfs : List Field} {skvs : List (Str × Val)} (h2f f2h : List (Str × Str))
    (hrm : ∀ f ∈ sfs, remap h2f f.1 = f.1)
    (D : SubData sfs skvs) : PackRT (.model sfs h2f f2h) (.model skvs) := by
  have hokf := subOk_filter D.hok
  have hndall : ∀ p ∈ D.pairs.filter nonDefault, nonDefault p = true :=
    fun p hp => (List.mem_filter.mp hp).2
  obtain ⟨hwf, hcok⟩ := wfCell_pairs D.hne hokf hndall
    (fun p hp => D.hfok p (List.mem_filter.mp hp).1 (hndall p hp))
  refine ⟨Cell.joinCell (.list ((D.pairs.filter nonDefault).map subElem)),
    .dict ((D.pairs.filter nonDefault).map subTr), ?_, ?_, ?_⟩
  · intro pfx out
    have h1 := nestedFields_sub sfs skvs D.pairs D.hok
    rw [D.hfst] at h1
    simp only [writeValue, isBasicVal, Bool.false_eq_true, if_false, toNested, h1]
    rw [joinPacked_cell]
  · simp only [leafFn, leafValue, isListTy, isModelTy, Bool.false_or, if_true]
    rw [cellParse_joinCell hwf hcok]
    have hpv : PV.ofCell (.list ((D.pairs.filter nonDefault).map subElem)) =
        .list ((D.pairs.filter nonDefault).map subEntry) := by
      simp [PV.ofCell, List.map_map, PV.ofElem, subElem, subEntry, Function.comp]
    simp only [hpv, assignValue, assignModel, tryKwarg_pairs_none']
    rw [assignEntries_kw' sfs h2f skvs _ _ [] hokf hndall
      (fun p hp => by
        have hmem : p ∈ D.pairs := (List.mem_filter.mp hp).1
        rw [D.hpairs] at hmem
        exact hrm p.1 (List.of_mem_zip hmem).1)
      (fun p _ => rfl)]
    simp
  · rw [validate_model_congr sfs h2f f2h [] []]
    exact validate_sub D

end Rpft.Row
